/-
C20 — the inductive invariant of the `LogMiddleware` transition system.
-/
import GolibsVerif.Lemmas.C20Pool

namespace GolibsVerif.C20

/-- the three pools obey the pool discipline w.r.t. the derived ownership maps -/
def PoolsInv (s : St) : Prop :=
  PoolInv s.pA (ownedA s.th) ∧ PoolInv s.pQ (ownedQ s.th) ∧ PoolInv s.pW (ownedW s.th)

theorem init_pools : PoolsInv init := by
  refine ⟨?_, ?_, ?_⟩ <;>
  · refine ⟨List.nodup_nil, ?_, ?_, ?_, ?_⟩ <;> simp [init, ownedA, ownedQ, ownedW, holdsA, holdsQ, holdsW]

theorem step_pools {inp : Rid → ReqData} {s s' : St} {a : Act} {o : Obs}
    (h : PoolsInv s) (hs : step inp s a = some (s', o)) : PoolsInv s' := by
  obtain ⟨hA, hQ, hW⟩ := h
  cases a with
  | arrive i =>
    simp only [step] at hs
    split at hs
    · next hpc =>
      simp only [Option.some.injEq, Prod.mk.injEq] at hs
      obtain ⟨rfl, -⟩ := hs
      refine ⟨?_, ?_, ?_⟩
      · simp only [setTh, ownedA_upd]
        exact hA.same (by simp [ownedA, hpc, holdsA])
      · simp only [setTh, ownedQ_upd]
        exact hQ.same (by simp [ownedQ, hpc, holdsQ])
      · simp only [setTh, ownedW_upd]
        exact hW.same (by simp [ownedW, hpc, holdsW])
    · simp at hs
  | get i ob =>
    simp only [step, stepGet] at hs
    split at hs
    · next hpc =>
      simp only [Option.map_eq_some_iff] at hs
      obtain ⟨⟨p', isNew⟩, hg, heq⟩ := hs
      simp only [Prod.mk.injEq] at heq
      obtain ⟨rfl, -⟩ := heq
      refine ⟨?_, ?_, ?_⟩
      · simp only [ownedA_upd, holdsA, if_true]
        exact hA.get (by simp [ownedA, hpc, holdsA]) hg
      · simp only [ownedQ_upd]
        exact hQ.same (by simp [ownedQ, hpc, holdsQ])
      · simp only [ownedW_upd]
        exact hW.same (by simp [ownedW, hpc, holdsW])
    · next hpc =>
      simp only [Option.map_eq_some_iff] at hs
      obtain ⟨⟨p', isNew⟩, hg, heq⟩ := hs
      simp only [Prod.mk.injEq] at heq
      obtain ⟨rfl, -⟩ := heq
      refine ⟨?_, ?_, ?_⟩
      · simp only [ownedA_upd]
        exact hA.same (by simp [ownedA, hpc, holdsA])
      · simp only [ownedQ_upd, holdsQ, if_true]
        exact hQ.get (by simp [ownedQ, hpc, holdsQ]) hg
      · simp only [ownedW_upd]
        exact hW.same (by simp [ownedW, hpc, holdsW])
    · next hpc =>
      simp only [Option.map_eq_some_iff] at hs
      obtain ⟨⟨p', isNew⟩, hg, heq⟩ := hs
      simp only [Prod.mk.injEq] at heq
      obtain ⟨rfl, -⟩ := heq
      refine ⟨?_, ?_, ?_⟩
      · simp only [ownedA_upd]
        exact hA.same (by simp [ownedA, hpc, holdsA])
      · simp only [ownedQ_upd]
        exact hQ.same (by simp [ownedQ, hpc, holdsQ])
      · simp only [ownedW_upd, holdsW, if_true]
        exact hW.get (by simp [ownedW, hpc, holdsW]) hg
    · simp at hs
  | tick i =>
    simp only [step, stepTick] at hs
    cases hpc : (s.th i).pc <;> simp only [hpc] at hs
    all_goals try (split at hs)
    all_goals first
      | (simp at hs; done)
      | (
          simp only [Option.some.injEq, Prod.mk.injEq] at hs
          obtain ⟨rfl, -⟩ := hs
          refine ⟨?_, ?_, ?_⟩
          · simp only [setTh, ownedA_upd]
            first
              | (refine hA.same ?_; simp [ownedA, hpc, holdsA]; done)
              | (refine hA.put ?_; simp [ownedA, hpc, holdsA]; done)
              | exact hA.leak i
          · simp only [setTh, ownedQ_upd]
            first
              | (refine hQ.same ?_; simp [ownedQ, hpc, holdsQ]; done)
              | (refine hQ.put ?_; simp [ownedQ, hpc, holdsQ]; done)
          · simp only [setTh, ownedW_upd]
            first
              | exact hW.same (by simp [ownedW, hpc, holdsW])
              | exact hW.put (by simp [ownedW, hpc, holdsW]))
  | handler i op =>
    simp only [step, stepHandler] at hs
    cases hpc : (s.th i).pc <;> simp only [hpc] at hs
    all_goals first
      | (simp at hs; done)
      | (
          cases op <;>
          · simp only [Option.some.injEq, Prod.mk.injEq] at hs
            obtain ⟨rfl, -⟩ := hs
            refine ⟨?_, ?_, ?_⟩
            · try simp only [setTh, ownedA_upd]
              first
                | exact hA
                | (refine hA.same ?_; simp [ownedA, hpc, holdsA]; done)
            · try simp only [setTh, ownedQ_upd]
              first
                | exact hQ
                | (refine hQ.same ?_; simp [ownedQ, hpc, holdsQ]; done)
            · try simp only [setTh, ownedW_upd]
              first
                | exact hW
                | (refine hW.same ?_; simp [ownedW, hpc, holdsW]; done))
  | gc p ob =>
    simp only [step, stepGc] at hs
    cases p <;>
    · simp only [Option.map_eq_some_iff] at hs
      obtain ⟨p', hd, heq⟩ := hs
      simp only [Prod.mk.injEq] at heq
      obtain ⟨rfl, -⟩ := heq
      first
        | exact ⟨hA.drop hd, hQ, hW⟩
        | exact ⟨hA, hQ.drop hd, hW⟩
        | exact ⟨hA, hQ, hW.drop hd⟩

/-! ### Pooled attribute slices keep their length -/

def LenInv (s : St) : Prop := ∀ o, o < s.pA.fresh → (s.mA o).length = Gen.C20Skel.logMwAttrNum

theorem Pool.get_fresh {p p' : Pool} {o : Obj} {b : Bool} (h : p.get o = some (p', b)) :
    p'.fresh = (if b then p.fresh + 1 else p.fresh) ∧ (b = true → o = p.fresh) := by
  unfold Pool.get at h
  by_cases hm : o ∈ p.free
  · simp [hm] at h; obtain ⟨rfl, rfl⟩ := h; simp
  · simp [hm] at h; obtain ⟨ho, rfl, rfl⟩ := h; simp [ho]

theorem Pool.drop_fresh {p p' : Pool} {o : Obj} (h : p.drop o = some p') : p'.fresh = p.fresh := by
  unfold Pool.drop at h
  by_cases hm : o ∈ p.free
  · simp [hm] at h; subst h; rfl
  · simp [hm] at h

@[simp] theorem fillAttrs_length (sl : List Attr) (d : ReqData) : (fillAttrs sl d).length = sl.length := by
  simp [fillAttrs]

theorem init_len : LenInv init := by
  intro o ho; simp [init] at ho

theorem step_len {inp : Rid → ReqData} {s s' : St} {a : Act} {o : Obs}
    (h : LenInv s) (hs : step inp s a = some (s', o)) : LenInv s' := by
  cases a with
  | arrive i =>
    simp only [step] at hs
    split at hs
    · simp only [Option.some.injEq, Prod.mk.injEq] at hs
      obtain ⟨rfl, -⟩ := hs
      exact h
    · simp at hs
  | get i ob =>
    simp only [step, stepGet] at hs
    cases hpc : (s.th i).pc <;> simp only [hpc] at hs
    all_goals first
      | (simp at hs; done)
      | (
          simp only [Option.map_eq_some_iff] at hs
          obtain ⟨⟨p', isNew⟩, hg, heq⟩ := hs
          simp only [Prod.mk.injEq] at heq
          obtain ⟨rfl, -⟩ := heq
          first
            | exact h
            | (
                obtain ⟨hf, hn⟩ := Pool.get_fresh hg
                intro o' ho'
                simp only at ho' ⊢
                cases isNew with
                | false => simp at hf; rw [hf] at ho'; simpa using h o' ho'
                | true =>
                  simp at hf hn ⊢
                  subst hn
                  rw [hf] at ho'
                  by_cases he : o' = s.pA.fresh
                  · simp [he, upd]
                  · rw [upd_other _ _ he]; exact h o' (by omega)))
  | tick i =>
    simp only [step, stepTick] at hs
    cases hpc : (s.th i).pc <;> simp only [hpc] at hs
    all_goals try (split at hs)
    all_goals first
      | (simp at hs; done)
      | (
          simp only [Option.some.injEq, Prod.mk.injEq] at hs
          obtain ⟨rfl, -⟩ := hs
          first
            | exact h
            | (
                intro o' ho'
                simp only at ho' ⊢
                by_cases he : o' = (s.th i).a
                · subst he; simp [h _ ho']
                · rw [upd_other _ _ he]; exact h o' ho'))
  | handler i op =>
    simp only [step, stepHandler] at hs
    cases hpc : (s.th i).pc <;> simp only [hpc] at hs
    all_goals first
      | (simp at hs; done)
      | (
          cases op <;>
          · simp only [Option.some.injEq, Prod.mk.injEq] at hs
            obtain ⟨rfl, -⟩ := hs
            exact h)
  | gc p ob =>
    simp only [step, stepGc] at hs
    cases p <;>
    · simp only [Option.map_eq_some_iff] at hs
      obtain ⟨p', hd, heq⟩ := hs
      simp only [Prod.mk.injEq] at heq
      obtain ⟨rfl, -⟩ := heq
      first
        | exact h
        | (intro o' ho'; simp only at ho' ⊢; rw [Pool.drop_fresh hd] at ho'; exact h o' ho')

/-! ### Frame: a step of request `i` leaves the other requests and what they hold alone -/

def actor : Act → Option Rid
  | .arrive i | .get i _ | .tick i | .handler i _ => some i
  | .gc _ _ => none

def subject : Obs → Option Rid
  | .silent => none
  | .started i _ | .seen i _ _ | .hlog i _ | .wroteHeader i _ _ | .wrote i _ _ | .finished i _ _
  | .handlerPanic i | .goPanic i => some i

theorem ownedA_ne {p : Pool} {th : Rid → Thread} (h : PoolInv p (ownedA th)) {i j : Rid}
    (hi : holdsA (th i).pc = true) (hj : holdsA (th j).pc = true) (hji : j ≠ i) : (th j).a ≠ (th i).a := by
  intro he
  exact hji (h.excl j i (th i).a (by simp [ownedA, hj, he]) (by simp [ownedA, hi]))

theorem ownedA_ne_fresh {p : Pool} {th : Rid → Thread} (h : PoolInv p (ownedA th)) {j : Rid}
    (hj : holdsA (th j).pc = true) : (th j).a ≠ p.fresh := by
  intro he
  have := h.own_lt j (th j).a (by simp [ownedA, hj])
  rw [he] at this
  exact Nat.lt_irrefl _ this

theorem ownedQ_ne {p : Pool} {th : Rid → Thread} (h : PoolInv p (ownedQ th)) {i j : Rid}
    (hi : holdsQ (th i).pc = true) (hj : holdsQ (th j).pc = true) (hji : j ≠ i) : (th j).q ≠ (th i).q := by
  intro he
  exact hji (h.excl j i (th i).q (by simp [ownedQ, hj, he]) (by simp [ownedQ, hi]))

theorem ownedQ_ne_fresh {p : Pool} {th : Rid → Thread} (h : PoolInv p (ownedQ th)) {j : Rid}
    (hj : holdsQ (th j).pc = true) : (th j).q ≠ p.fresh := by
  intro he
  have := h.own_lt j (th j).q (by simp [ownedQ, hj])
  rw [he] at this
  exact Nat.lt_irrefl _ this

theorem ownedW_ne {p : Pool} {th : Rid → Thread} (h : PoolInv p (ownedW th)) {i j : Rid}
    (hi : holdsW (th i).pc = true) (hj : holdsW (th j).pc = true) (hji : j ≠ i) : (th j).w ≠ (th i).w := by
  intro he
  exact hji (h.excl j i (th i).w (by simp [ownedW, hj, he]) (by simp [ownedW, hi]))

theorem ownedW_ne_fresh {p : Pool} {th : Rid → Thread} (h : PoolInv p (ownedW th)) {j : Rid}
    (hj : holdsW (th j).pc = true) : (th j).w ≠ p.fresh := by
  intro he
  have := h.own_lt j (th j).w (by simp [ownedW, hj])
  rw [he] at this
  exact Nat.lt_irrefl _ this

/-- what a step of somebody else (or of the pool's GC) cannot change for request `j` -/
structure Frame (s s' : St) (o : Obs) (j : Rid) : Prop where
  th : s'.th j = s.th j
  mA : holdsA (s.th j).pc = true → s'.mA (s.th j).a = s.mA (s.th j).a
  mQ : holdsQ (s.th j).pc = true → s'.mQ (s.th j).q = s.mQ (s.th j).q
  mW : holdsW (s.th j).pc = true → s'.mW (s.th j).w = s.mW (s.th j).w
  subj : subject o ≠ some j

theorem step_frame {inp : Rid → ReqData} {s s' : St} {a : Act} {o : Obs}
    (hP : PoolsInv s) (hs : step inp s a = some (s', o)) (j : Rid) (hj : actor a ≠ some j) :
    Frame s s' o j := by
  obtain ⟨hA, hQ, hW⟩ := hP
  cases a with
  | arrive i =>
    have hji : j ≠ i := fun h => hj (by simp [actor, h])
    simp only [step] at hs
    split at hs
    · simp only [Option.some.injEq, Prod.mk.injEq] at hs
      obtain ⟨rfl, rfl⟩ := hs
      exact ⟨by simp [setTh, upd_other _ _ hji], fun _ => rfl, fun _ => rfl, fun _ => rfl, by simp [subject]⟩
    · simp at hs
  | get i ob =>
    have hji : j ≠ i := fun h => hj (by simp [actor, h])
    simp only [step, stepGet] at hs
    cases hpc : (s.th i).pc <;> simp only [hpc] at hs
    all_goals first
      | (simp at hs; done)
      | (
          simp only [Option.map_eq_some_iff] at hs
          obtain ⟨⟨p', isNew⟩, hg, heq⟩ := hs
          simp only [Prod.mk.injEq] at heq
          obtain ⟨rfl, rfl⟩ := heq
          have hn := (Pool.get_fresh hg).2
          refine ⟨by simp [upd_other _ _ hji], ?_, ?_, ?_, by simp [subject]⟩
          all_goals first
            | (intro _; rfl)
            | (
                intro hh
                cases isNew with
                | false => rfl
                | true =>
                  have := hn rfl
                  subst this
                  simp only [if_true]
                  first
                    | exact upd_other _ _ (ownedA_ne_fresh hA hh)
                    | exact upd_other _ _ (ownedQ_ne_fresh hQ hh)
                    | exact upd_other _ _ (ownedW_ne_fresh hW hh)))
  | tick i =>
    have hji : j ≠ i := fun h => hj (by simp [actor, h])
    simp only [step, stepTick] at hs
    cases hpc : (s.th i).pc <;> simp only [hpc] at hs
    all_goals try (split at hs)
    all_goals first
      | (simp at hs; done)
      | (
          simp only [Option.some.injEq, Prod.mk.injEq] at hs
          obtain ⟨rfl, rfl⟩ := hs
          refine ⟨by simp [setTh, upd_other _ _ hji], ?_, ?_, ?_, by simp [subject, Ne.symm hji]⟩
          all_goals first
            | (intro _; rfl)
            | (intro hh; exact upd_other _ _ (ownedA_ne hA (by simp [hpc, holdsA]) hh hji))
            | (intro hh; exact upd_other _ _ (ownedQ_ne hQ (by simp [hpc, holdsQ]) hh hji))
            | (intro hh; exact upd_other _ _ (ownedW_ne hW (by simp [hpc, holdsW]) hh hji)))
  | handler i op =>
    have hji : j ≠ i := fun h => hj (by simp [actor, h])
    simp only [step, stepHandler] at hs
    cases hpc : (s.th i).pc <;> simp only [hpc] at hs
    all_goals first
      | (simp at hs; done)
      | (
          cases op <;>
          · simp only [Option.some.injEq, Prod.mk.injEq] at hs
            obtain ⟨rfl, rfl⟩ := hs
            refine ⟨by simp [setTh, upd_other _ _ hji], ?_, ?_, ?_, by simp [subject, Ne.symm hji]⟩
            all_goals first
              | (intro _; rfl)
              | (intro hh; exact upd_other _ _ (ownedW_ne hW (by simp [hpc, holdsW]) hh hji)))
  | gc p ob =>
    simp only [step, stepGc] at hs
    cases p <;>
    · simp only [Option.map_eq_some_iff] at hs
      obtain ⟨p', hd, heq⟩ := hs
      simp only [Prod.mk.injEq] at heq
      obtain ⟨rfl, rfl⟩ := heq
      exact ⟨rfl, fun _ => rfl, fun _ => rfl, fun _ => rfl, by simp [subject]⟩

/-! ### Per-request content invariant -/

def filledA : PC → Bool
  | .idle | .getAttr | .fillAttr | .done => false
  | _ => true

def hasLg : PC → Bool
  | .idle | .getAttr | .fillAttr | .withAttrs | .done => false
  | _ => true

def copiedQ : PC → Bool
  | .getRw | .resetRw | .logStarted | .serve | .implicit | .logFinished | .putRw | .putReq => true
  | _ => false

def resetW : PC → Bool
  | .logStarted | .serve | .implicit | .logFinished | .putRw => true
  | _ => false

def preImplicit : PC → Bool
  | .logStarted | .serve | .implicit => true
  | _ => false

def beforeServe : PC → Bool
  | .idle | .getAttr | .fillAttr | .withAttrs | .getReq | .copyReq | .getRw | .resetRw | .logStarted => true
  | _ => false

/-- What request `i` can rely on about the pooled objects it holds, given the observations
`tr` made so far. -/
structure Good (inp : Rid → ReqData) (s : St) (tr : List Obs) (i : Rid) : Prop where
  contA : filledA (s.th i).pc = true → s.mA (s.th i).a = attrsOf (inp i)
  lgA : hasLg (s.th i).pc = true → (s.th i).lg = (s.th i).a
  contQ : copiedQ (s.th i).pc = true → s.mQ (s.th i).q = some (inp i, (s.th i).a)
  underW : resetW (s.th i).pc = true → (s.mW (s.th i).w).under = some i
  codeW : preImplicit (s.th i).pc = true →
    (s.mW (s.th i).w).code = (lastHeader i tr).getD 0 ∧ hasPanicked i tr = false
  codeFin : (s.th i).pc = .logFinished →
    (s.mW (s.th i).w).code = finCode (lastHeader i tr) (hasPanicked i tr)
  early : beforeServe (s.th i).pc = true → lastHeader i tr = none ∧ hasPanicked i tr = false

theorem lastHeader_snoc (i : Rid) (tr : List Obs) (o : Obs) :
    lastHeader i (tr ++ [o]) =
      match o with
      | .wroteHeader j _ c => if j = i then some c else lastHeader i tr
      | _ => lastHeader i tr := by
  simp only [lastHeader, List.foldl_append, List.foldl_cons, List.foldl_nil]
  cases o <;> rfl

theorem hasPanicked_snoc (i : Rid) (tr : List Obs) (o : Obs) :
    hasPanicked i (tr ++ [o]) = (hasPanicked i tr || decide (o = .handlerPanic i)) := by
  simp only [hasPanicked, List.mem_append, List.mem_singleton]
  by_cases h1 : Obs.handlerPanic i ∈ tr <;> by_cases h2 : o = Obs.handlerPanic i <;> simp [h1, h2, eq_comm]

theorem snoc_other (j : Rid) (tr : List Obs) (o : Obs) (h : subject o ≠ some j) :
    lastHeader j (tr ++ [o]) = lastHeader j tr ∧ hasPanicked j (tr ++ [o]) = hasPanicked j tr := by
  rw [lastHeader_snoc, hasPanicked_snoc]
  cases o <;> simp_all [subject]

theorem Good.frame {inp : Rid → ReqData} {s s' : St} {tr : List Obs} {o : Obs} {j : Rid}
    (hg : Good inp s tr j) (hf : Frame s s' o j) : Good inp s' (tr ++ [o]) j := by
  obtain ⟨hl, hp⟩ := snoc_other j tr o hf.subj
  have hth := hf.th
  constructor
  · intro h; rw [hth] at h ⊢
    rw [hf.mA (by revert h; cases (s.th j).pc <;> simp [filledA, holdsA])]; exact hg.contA h
  · intro h; rw [hth] at h ⊢; exact hg.lgA h
  · intro h; rw [hth] at h ⊢
    rw [hf.mQ (by revert h; cases (s.th j).pc <;> simp [copiedQ, holdsQ])]; exact hg.contQ h
  · intro h; rw [hth] at h ⊢
    rw [hf.mW (by revert h; cases (s.th j).pc <;> simp [resetW, holdsW])]; exact hg.underW h
  · intro h; rw [hth] at h ⊢
    rw [hf.mW (by revert h; cases (s.th j).pc <;> simp [preImplicit, holdsW]), hl, hp]; exact hg.codeW h
  · intro h; rw [hth] at h ⊢
    rw [hf.mW (by rw [h]; rfl), hl, hp]; exact hg.codeFin h
  · intro h; rw [hth] at h; rw [hl, hp]; exact hg.early h

theorem fillAttrs_eq (sl : List Attr) (d : ReqData) (h : sl.length = Gen.C20Skel.logMwAttrNum) :
    fillAttrs sl d = attrsOf d := by
  match sl, h with
  | [_, _, _, _], _ => rfl

theorem init_good (inp : Rid → ReqData) (i : Rid) : Good inp init [] i := by
  constructor <;> simp [init, filledA, hasLg, copiedQ, resetW, preImplicit, lastHeader, hasPanicked]

theorem step_good_self {inp : Rid → ReqData} {s s' : St} {tr : List Obs} {a : Act} {o : Obs} {i : Rid}
    (hP : PoolsInv s) (hL : LenInv s) (hg : Good inp s tr i)
    (hs : step inp s a = some (s', o)) (ha : actor a = some i) : Good inp s' (tr ++ [o]) i := by
  obtain ⟨h1, h2, h3, h4, h5, h6, h7⟩ := hg
  cases a with
  | arrive i' =>
    obtain rfl : i' = i := by simpa [actor] using ha
    simp only [step] at hs
    split at hs
    · next hpc =>
      simp only [Option.some.injEq, Prod.mk.injEq] at hs
      obtain ⟨rfl, rfl⟩ := hs
      simp only [hpc, filledA, hasLg, copiedQ, resetW, preImplicit, beforeServe] at h1 h2 h3 h4 h5 h6 h7
      constructor <;>
        simp [setTh, upd, filledA, hasLg, copiedQ, resetW, preImplicit, beforeServe,
          lastHeader_snoc, hasPanicked_snoc, finCode, cmpOr] <;> simp_all
    · simp at hs
  | get i' ob =>
    obtain rfl : i' = i := by simpa [actor] using ha
    simp only [step, stepGet] at hs
    cases hpc : (s.th i').pc <;> simp only [hpc] at hs
    all_goals first
      | (simp at hs; done)
      | (
          simp only [Option.map_eq_some_iff] at hs
          obtain ⟨⟨p', isNew⟩, hg, heq⟩ := hs
          simp only [Prod.mk.injEq] at heq
          obtain ⟨rfl, rfl⟩ := heq
          simp only [hpc, filledA, hasLg, copiedQ, resetW, preImplicit, beforeServe] at h1 h2 h3 h4 h5 h6 h7
          constructor <;>
            simp [upd, filledA, hasLg, copiedQ, resetW, preImplicit, beforeServe,
              lastHeader_snoc, hasPanicked_snoc, finCode, cmpOr] <;> simp_all)
  | tick i' =>
    obtain rfl : i' = i := by simpa [actor] using ha
    have hfill : holdsA (s.th i').pc = true →
        fillAttrs (s.mA (s.th i').a) (inp i') = attrsOf (inp i') := fun hh =>
      fillAttrs_eq _ _ (hL _ (hP.1.own_lt i' _ (by simp [ownedA, hh])))
    simp only [step, stepTick] at hs
    cases hpc : (s.th i').pc <;> simp only [hpc] at hs
    all_goals try (split at hs)
    all_goals first
      | (simp at hs; done)
      | (
          simp only [Option.some.injEq, Prod.mk.injEq] at hs
          obtain ⟨rfl, rfl⟩ := hs
          simp only [hpc, filledA, hasLg, copiedQ, resetW, preImplicit, beforeServe, holdsA] at h1 h2 h3 h4 h5 h6 h7 hfill
          constructor <;>
            simp [setTh, upd, filledA, hasLg, copiedQ, resetW, preImplicit, beforeServe,
              lastHeader_snoc, hasPanicked_snoc, finCode, cmpOr] <;> simp_all)
  | handler i' op =>
    obtain rfl : i' = i := by simpa [actor] using ha
    simp only [step, stepHandler] at hs
    cases hpc : (s.th i').pc <;> simp only [hpc] at hs
    all_goals first
      | (simp at hs; done)
      | (
          cases op <;>
          · simp only [Option.some.injEq, Prod.mk.injEq] at hs
            obtain ⟨rfl, rfl⟩ := hs
            simp only [hpc, filledA, hasLg, copiedQ, resetW, preImplicit, beforeServe] at h1 h2 h3 h4 h5 h6 h7
            constructor <;>
              simp [setTh, upd, filledA, hasLg, copiedQ, resetW, preImplicit, beforeServe,
                lastHeader_snoc, hasPanicked_snoc, finCode, cmpOr] <;> simp_all)
  | gc p ob => simp [actor] at ha

/-! ### The invariant and its induction over executions -/

structure Inv (inp : Rid → ReqData) (s : St) (tr : List Obs) : Prop where
  pools : PoolsInv s
  len : LenInv s
  good : ∀ i, Good inp s tr i

theorem exec_inv {inp : Rid → ReqData} {s : St} {tr : List Obs} (h : Exec inp s tr) : Inv inp s tr := by
  induction h with
  | init => exact ⟨init_pools, init_len, init_good inp⟩
  | step _ hs ih =>
    refine ⟨step_pools ih.pools hs, step_len ih.len hs, fun i => ?_⟩
    rename_i a0 _ _
    by_cases ha : actor a0 = some i
    · exact step_good_self ih.pools ih.len (ih.good i) hs ha
    · exact (ih.good i).frame (step_frame ih.pools hs i ha)

/-- what an observation must look like, given the observations before it -/
def ObsOk (inp : Rid → ReqData) (tr : List Obs) : Obs → Prop
  | .silent => True
  | .started i la => la = attrsOf (inp i)
  | .seen i d la => d = some (inp i) ∧ la = attrsOf (inp i)
  | .hlog i la => la = attrsOf (inp i)
  | .wroteHeader i cl _ => cl = some i
  | .wrote i cl _ => cl = some i
  | .finished i la c => la = attrsOf (inp i) ∧ c = finCode (lastHeader i tr) (hasPanicked i tr)
  | .handlerPanic _ => True
  | .goPanic _ => False

theorem step_obs_ok {inp : Rid → ReqData} {s s' : St} {tr : List Obs} {a : Act} {o : Obs}
    (hI : Inv inp s tr) (hs : step inp s a = some (s', o)) : ObsOk inp tr o := by
  cases a with
  | arrive i =>
    simp only [step] at hs
    split at hs
    · simp only [Option.some.injEq, Prod.mk.injEq] at hs
      obtain ⟨-, rfl⟩ := hs
      trivial
    · simp at hs
  | get i ob =>
    simp only [step, stepGet] at hs
    cases hpc : (s.th i).pc <;> simp only [hpc] at hs
    all_goals first
      | (simp at hs; done)
      | (
          simp only [Option.map_eq_some_iff] at hs
          obtain ⟨⟨p', isNew⟩, -, heq⟩ := hs
          simp only [Prod.mk.injEq] at heq
          obtain ⟨-, rfl⟩ := heq
          trivial)
  | tick i =>
    obtain ⟨h1, h2, h3, h4, h5, h6, h7⟩ := hI.good i
    have hlen : holdsA (s.th i).pc = true → (s.mA (s.th i).a).length = Gen.C20Skel.logMwAttrNum :=
      fun hh => hI.len _ (hI.pools.1.own_lt i _ (by simp [ownedA, hh]))
    simp only [step, stepTick] at hs
    cases hpc : (s.th i).pc <;> simp only [hpc] at hs
    all_goals try (split at hs)
    all_goals first
      | (simp at hs; done)
      | (
          simp only [Option.some.injEq, Prod.mk.injEq] at hs
          obtain ⟨-, rfl⟩ := hs
          simp only [hpc, filledA, hasLg, copiedQ, resetW, preImplicit, beforeServe, holdsA] at h1 h2 h3 h4 h5 h6 h7 hlen
          simp [ObsOk] <;> simp_all <;> (try (simp [Gen.C20Skel.logMwAttrNum] at *)))
  | handler i op =>
    obtain ⟨h1, h2, h3, h4, h5, h6, h7⟩ := hI.good i
    simp only [step, stepHandler] at hs
    cases hpc : (s.th i).pc <;> simp only [hpc] at hs
    all_goals first
      | (simp at hs; done)
      | (
          cases op <;>
          · simp only [Option.some.injEq, Prod.mk.injEq] at hs
            obtain ⟨-, rfl⟩ := hs
            simp only [hpc, filledA, hasLg, copiedQ, resetW, preImplicit, beforeServe] at h1 h2 h3 h4 h5 h6 h7
            simp [ObsOk, ctxAttrs] <;> simp_all)
  | gc p ob =>
    simp only [step, stepGc] at hs
    cases p <;>
    · simp only [Option.map_eq_some_iff] at hs
      obtain ⟨p', -, heq⟩ := hs
      simp only [Prod.mk.injEq] at heq
      obtain ⟨-, rfl⟩ := heq
      trivial

/-- an execution's trace can be cut before any of its observations -/
theorem exec_split {inp : Rid → ReqData} {s : St} {tr : List Obs} (h : Exec inp s tr) :
    ∀ pre o post, tr = pre ++ o :: post →
      ∃ s0 s1 a, Exec inp s0 pre ∧ step inp s0 a = some (s1, o) := by
  induction h with
  | init => intro pre o post h; simp at h
  | step hex hs ih =>
    rename_i s0 s1 tr0 a o0
    intro pre o post h
    rcases List.eq_nil_or_concat post with hp | ⟨post', x, hp⟩
    · subst hp
      have : tr0 = pre ∧ o0 = o := by
        have h' : tr0 ++ [o0] = pre ++ [o] := h
        exact ⟨List.append_inj_left' h' rfl, by simpa using List.append_inj_right' h' rfl⟩
      obtain ⟨rfl, rfl⟩ := this
      exact ⟨s0, s1, a, hex, hs⟩
    · subst hp
      have h' : tr0 ++ [o0] = (pre ++ o :: post') ++ [x] := by
        rw [h]; simp
      have := List.append_inj_left' h' rfl
      exact ih pre o post' this

end GolibsVerif.C20
