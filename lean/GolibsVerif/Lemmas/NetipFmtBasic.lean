/-
`net/netip` formatter model, part 1: closed forms of `appendDecimal`, `appendHex`,
`appendTo4`, the zero-run search and the emitting loop of `appendTo6`.
-/
import GolibsVerif.Go.NetipFmt
import GolibsVerif.Lemmas.C04V4
import GolibsVerif.Lemmas.C02IPv6

namespace GolibsVerif.Netip
open GolibsVerif GolibsVerif.Str GolibsVerif.C04 GolibsVerif.Netutil

/-! ### digits -/

theorem hexVal_digitAt : ∀ k < 16, hexVal (digitAt k) = some k := by decide

theorem digitAt_dec (k : Nat) (h : k < 10) : digitAt k = 48 + k := by simp [digitAt, h]

/-- the text `appendHex` appends -/
def hexStr (x : Nat) : Bytes := appendHex [] x

theorem appendHex_eq (ret : Bytes) (x : Nat) : appendHex ret x = ret ++ hexStr x := by
  unfold hexStr appendHex
  by_cases h1 : x ≥ 0x1000 <;> by_cases h2 : x ≥ 0x100 <;> by_cases h3 : x ≥ 0x10 <;> simp [h1, h2, h3]

theorem appendDecimal_eq (ret : Bytes) (x : Nat) (hx : x < 256) : appendDecimal ret x = ret ++ dec x := by
  rw [← itoa_eq_dec x (by omega)]
  unfold appendDecimal itoa
  by_cases h1 : x < 10
  · have : ¬ x ≥ 100 := by omega
    have h10 : ¬ x ≥ 10 := by omega
    simp [h1, this, h10, digitAt_dec (x % 10) (by omega)]
  · by_cases h2 : x < 100
    · have : ¬ x ≥ 100 := by omega
      have h10 : x ≥ 10 := by omega
      simp [h1, h2, this, h10, digitAt_dec (x % 10) (by omega), digitAt_dec (x / 10 % 10) (by omega)]; omega
    · have : x ≥ 100 := by omega
      have h10 : x ≥ 10 := by omega
      simp [h1, h2, this, h10, digitAt_dec (x % 10) (by omega), digitAt_dec (x / 10 % 10) (by omega),
        digitAt_dec (x / 100) (by omega)]

/-- `appendTo4` writes the canonical dotted-decimal spelling -/
theorem appendTo4_eq (ret : Bytes) (v : Nat → Nat) (h : ∀ i < 4, v i < 256) :
    appendTo4 ret v = ret ++ joinDot ([v 0, v 1, v 2, v 3].map dec) := by
  unfold appendTo4
  simp only [appendDecimal_eq _ _ (h 0 (by omega)), appendDecimal_eq _ _ (h 1 (by omega)),
    appendDecimal_eq _ _ (h 2 (by omega)), appendDecimal_eq _ _ (h 3 (by omega)),
    List.map_cons, List.map_nil, joinDot_cons_cons, joinDot]
  simp

/-! ### one hex group -/

/-- the shape of `hexStr x` for a 16-bit `x`: 1..4 lower-case hex digits without leading
zeros, whose value is `x` -/
theorem hexStr_spec (x : Nat) (hx : x < 65536) :
    (∀ c ∈ hexStr x, (hexVal c).isSome = true) ∧ 1 ≤ (hexStr x).length ∧ (hexStr x).length ≤ 4 ∧
    C02.accOf (hexStr x) = x := by
  have hv := hexVal_digitAt
  have e0 := hv (x % 16) (by omega)
  have e1 := hv (x / 16 % 16) (by omega)
  have e2 := hv (x / 256 % 16) (by omega)
  have e3 := hv (x / 4096) (by omega)
  unfold hexStr appendHex C02.accOf
  by_cases h1 : x ≥ 0x1000 <;> by_cases h2 : x ≥ 0x100 <;> by_cases h3 : x ≥ 0x10 <;>
    simp [h1, h2, h3, e0, e1, e2, e3] <;> omega

theorem hexStr_fieldOK (x : Nat) (hx : x < 65536) (r : Bytes)
    (hr : ∀ c, r.head? = some c → hexVal c = none) : C02.FieldOK (hexStr x) r :=
  let ⟨h1, h2, h3, _⟩ := hexStr_spec x hx
  ⟨h1, h2, h3, hr⟩

theorem hexStr_head (x : Nat) (hx : x < 65536) :
    ∃ c r, hexStr x = c :: r ∧ (hexVal c).isSome = true := by
  obtain ⟨h1, h2, _, _⟩ := hexStr_spec x hx
  cases hs : hexStr x with
  | nil => rw [hs] at h2; simp at h2
  | cons c r => exact ⟨c, r, rfl, h1 c (by rw [hs]; simp)⟩

/-! ### the zero-run search -/

theorem zeroRunEnd_spec (g : Nat → Nat) : ∀ fuel j,
    j ≤ zeroRunEnd g fuel j ∧ (j ≤ 8 → zeroRunEnd g fuel j ≤ 8) ∧
    ∀ k, j ≤ k → k < zeroRunEnd g fuel j → g k = 0 := by
  intro fuel
  induction fuel with
  | zero => intro j; simp only [zeroRunEnd]; exact ⟨Nat.le_refl _, fun h => h, fun k h1 h2 => by omega⟩
  | succ fuel ih =>
    intro j
    unfold zeroRunEnd
    by_cases h : j < 8 ∧ g j = 0
    · simp only [h, and_self, if_true]
      obtain ⟨h1, h2, h3⟩ := ih (j + 1)
      refine ⟨by omega, fun _ => h2 (by omega), ?_⟩
      intro k hk1 hk2
      by_cases hkj : k = j
      · rw [hkj]; exact h.2
      · exact h3 k (by omega) hk2
    · simp only [h, if_false]
      exact ⟨Nat.le_refl _, fun h => h, fun k h1 h2 => by omega⟩

/-- what the round trip needs of `(zeroStart, zeroEnd)`: either no run was selected, or the
selected groups are all zero (that the run is the first longest one is irrelevant here) -/
def RunOK (g : Nat → Nat) (z : Nat × Nat) : Prop :=
  8 ≤ z.1 ∨ (z.1 < z.2 ∧ z.2 ≤ 8 ∧ ∀ k, z.1 ≤ k → k < z.2 → g k = 0)

theorem findZeroRun_ok (g : Nat → Nat) : ∀ fuel i z, RunOK g z → RunOK g (findZeroRun g fuel i z) := by
  intro fuel
  induction fuel with
  | zero => intro i z h; exact h
  | succ fuel ih =>
    intro i z h
    unfold findZeroRun
    by_cases hi : i < 8
    · simp only [hi, if_true]
      apply ih
      obtain ⟨h1, h2, h3⟩ := zeroRunEnd_spec g 8 i
      by_cases hl : zeroRunEnd g 8 i - i ≥ 2 ∧ zeroRunEnd g 8 i - i > z.2 - z.1
      · simp only [hl, and_self, if_true]
        exact Or.inr ⟨by omega, h2 (by omega), h3⟩
      · simp only [hl, if_false]; exact h
    · simp only [hi, if_false]; exact h

theorem findZeroRun_top (g : Nat → Nat) : RunOK g (findZeroRun g 8 0 (255, 255)) :=
  findZeroRun_ok g 8 0 _ (Or.inl (by decide))

/-! ### the emitting loop -/

/-- `:x` for every group -/
def sepGroups (xs : List Nat) : Bytes := xs.flatMap (fun x => 58 :: hexStr x)

/-- groups joined by `':'` -/
def colonJoin : List Nat → Bytes
  | [] => []
  | x :: xs => hexStr x ++ sepGroups xs

theorem sepGroups_cons (x : Nat) (xs : List Nat) : sepGroups (x :: xs) = 58 :: (hexStr x ++ sepGroups xs) := by
  simp [sepGroups]

theorem sepGroups_cons' (x : Nat) (xs : List Nat) : sepGroups (x :: xs) = 58 :: colonJoin (x :: xs) := by
  simp [sepGroups, colonJoin]

theorem emit6_stop (g : Nat → Nat) (zs ze k i : Nat) (ret : Bytes) (h : 8 ≤ i) :
    emit6 g zs ze k i ret = ret := by
  cases k with
  | zero => rfl
  | succ k => unfold emit6; simp [show ¬ i < 8 by omega]

theorem emit6_plain (g : Nat → Nat) (zs ze : Nat) : ∀ n k i ret, i + n = 8 → 0 < i → (zs < i ∨ 8 ≤ zs) →
    emit6 g zs ze (n + k) i ret = ret ++ sepGroups ((List.range' i n).map g) := by
  intro n
  induction n with
  | zero =>
    intro k i ret hin _ _
    rw [emit6_stop _ _ _ _ _ _ (by omega)]; simp [sepGroups]
  | succ n ih =>
    intro k i ret hin hi hz
    rw [show n + 1 + k = (n + k) + 1 by omega, emit6]
    have h8 : i < 8 := by omega
    have hne : i ≠ zs := by omega
    simp only [h8, hne, hi, if_true, if_false, appendHex_eq]
    rw [ih k (i + 1) _ (by omega) (by omega) (by omega)]
    simp [List.range'_succ, sepGroups_cons]

theorem emit6_pre (g : Nat → Nat) (zs ze : Nat) : ∀ n k i ret, i + n = zs → 0 < i → zs < 8 →
    emit6 g zs ze (n + k) i ret = emit6 g zs ze k zs (ret ++ sepGroups ((List.range' i n).map g)) := by
  intro n
  induction n with
  | zero =>
    intro k i ret hin _ _
    have : i = zs := by omega
    subst this
    simp [sepGroups]
  | succ n ih =>
    intro k i ret hin hi hz
    rw [show n + 1 + k = (n + k) + 1 by omega, emit6]
    have h8 : i < 8 := by omega
    have hne : i ≠ zs := by omega
    simp only [h8, hne, hi, if_true, if_false, appendHex_eq]
    rw [ih k (i + 1) _ (by omega) (by omega) hz]
    simp [List.range'_succ, sepGroups_cons]

theorem emit6_at (g : Nat → Nat) (zs ze k : Nat) (ret : Bytes) (hz : zs < 8) :
    emit6 g zs ze (k + 1) zs ret =
      if ze ≥ 8 then ret ++ [58, 58]
      else emit6 g zs ze k (ze + 1) (ret ++ [58, 58] ++ hexStr (g ze)) := by
  rw [emit6]
  simp only [hz, if_true, appendHex_eq]

/-- after the `::`: the groups from `zeroEnd` on -/
theorem emit6_after (g : Nat → Nat) (zs ze k : Nat) (ret : Bytes) (hz : zs < 8) (hze : zs < ze) (h8 : ze ≤ 8)
    (hk : 8 - zs ≤ k + 1) :
    emit6 g zs ze (k + 1) zs ret = ret ++ [58, 58] ++ colonJoin ((List.range' ze (8 - ze)).map g) := by
  rw [emit6_at _ _ _ _ _ hz]
  by_cases h : ze ≥ 8
  · have : 8 - ze = 0 := by omega
    simp [h, this, colonJoin]
  · simp only [h, if_false]
    obtain ⟨k', hk'⟩ : ∃ k', k = (7 - ze) + k' := ⟨k - (7 - ze), by omega⟩
    rw [hk', emit6_plain g zs ze (7 - ze) k' (ze + 1) _ (by omega) (by omega) (Or.inl (by omega))]
    rw [show 8 - ze = (7 - ze) + 1 by omega, List.range'_succ]
    simp [colonJoin]

/-- **closed form of the second loop of `appendTo6`** -/
theorem emit6_eq (g : Nat → Nat) (z : Nat × Nat) (ret : Bytes) (hz : RunOK g z) :
    emit6 g z.1 z.2 8 0 ret =
      if 8 ≤ z.1 then ret ++ colonJoin ((List.range' 0 8).map g)
      else ret ++ colonJoin ((List.range' 0 z.1).map g) ++ [58, 58] ++
        colonJoin ((List.range' z.2 (8 - z.2)).map g) := by
  obtain ⟨zs, ze⟩ := z
  simp only
  by_cases h8 : 8 ≤ zs
  · simp only [h8, if_true]
    rw [emit6]
    have : ¬ 0 = zs := by omega
    simp only [this, if_false, Nat.lt_irrefl, appendHex_eq, show (0 : Nat) < 8 by omega, if_true]
    rw [emit6_plain g zs ze 7 0 1 _ rfl (by omega) (Or.inr h8)]
    rw [show List.range' 0 8 = 0 :: List.range' 1 7 from rfl]
    simp [colonJoin]
  · simp only [h8, if_false]
    rcases hz with hz | ⟨h1, h2, _⟩
    · exact absurd hz h8
    · simp only at h1 h2
      by_cases h0 : zs = 0
      · subst h0
        rw [emit6_after g 0 ze 7 ret (by omega) h1 h2 (by omega)]
        simp [colonJoin]
      · rw [emit6]
        have : ¬ 0 = zs := by omega
        simp only [this, if_false, Nat.lt_irrefl, appendHex_eq, show (0 : Nat) < 8 by omega, if_true]
        rw [show (7 : Nat) = (zs - 1) + (8 - zs) by omega,
          emit6_pre g zs ze (zs - 1) (8 - zs) 1 _ (by omega) (by omega) (by omega)]
        rw [show 8 - zs = (7 - zs) + 1 by omega,
          emit6_after g zs ze (7 - zs) _ (by omega) h1 h2 (by omega)]
        rw [show List.range' 0 zs = 0 :: List.range' 1 (zs - 1) by
          rw [show zs = (zs - 1) + 1 by omega, List.range'_succ]; simp]
        simp [colonJoin]

end GolibsVerif.Netip
