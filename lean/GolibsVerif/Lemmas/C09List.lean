/-
C09 — lemmas about the pointer-level usage list (`Model/C09List.lean`):

1. the algebra of single-field stores on the heap (`nx`/`pv` after `setNext`/`setPrev`);
2. symbolic execution of the `list.go` functions: on live arguments they succeed and the
   resulting heap is an explicit composition of single-field stores;
3. `Path h a l b` ("from `a`, following `next`, one visits exactly `l` in order and then
   reaches `b`; `prev` goes back the same way") and how it changes under the stores done by
   `listUnlink` and `listAppend`;
4. `Repr h s l := Path h s l s ∧ (s :: l).Nodup` and the representation theorems.
-/
import GolibsVerif.Spec.C09List

namespace GolibsVerif.C09.LL

/-! ### 1. Single-field stores -/

namespace Heap
theorem live_iff {h : Heap} {a : Ptr} : h.live a ↔ ∃ n, h a = some n := by
  unfold live; cases h a <;> simp

theorem live_of_nx {h : Heap} {a b : Ptr} (e : h.nx a = some b) : h.live a := by
  unfold nx at e; unfold live; cases hh : h a <;> simp_all

theorem live_of_pv {h : Heap} {a b : Ptr} (e : h.pv a = some b) : h.live a := by
  unfold pv at e; unfold live; cases hh : h a <;> simp_all

@[simp] theorem live_setNext {h : Heap} {a c : Ptr} {v} : (h.setNext a v).live c ↔ h.live c := by
  unfold live setNext; by_cases hc : c = a <;> simp [hc]

@[simp] theorem live_setPrev {h : Heap} {a c : Ptr} {v} : (h.setPrev a v).live c ↔ h.live c := by
  unfold live setPrev; by_cases hc : c = a <;> simp [hc]

theorem nx_setNext_same {h : Heap} {a : Ptr} {v} (ha : h.live a) : (h.setNext a v).nx a = v := by
  obtain ⟨n, hn⟩ := live_iff.1 ha
  simp [nx, setNext, hn]

theorem nx_setNext_ne {h : Heap} {a c : Ptr} {v} (hc : c ≠ a) : (h.setNext a v).nx c = h.nx c := by
  simp [nx, setNext, hc]

@[simp] theorem nx_setPrev {h : Heap} {a c : Ptr} {v} : (h.setPrev a v).nx c = h.nx c := by
  unfold nx setPrev; by_cases hc : c = a
  · subst hc; cases h c <;> simp
  · simp [hc]

theorem pv_setPrev_same {h : Heap} {a : Ptr} {v} (ha : h.live a) : (h.setPrev a v).pv a = v := by
  obtain ⟨n, hn⟩ := live_iff.1 ha
  simp [pv, setPrev, hn]

theorem pv_setPrev_ne {h : Heap} {a c : Ptr} {v} (hc : c ≠ a) : (h.setPrev a v).pv c = h.pv c := by
  simp [pv, setPrev, hc]

@[simp] theorem pv_setNext {h : Heap} {a c : Ptr} {v} : (h.setNext a v).pv c = h.pv c := by
  unfold pv setNext; by_cases hc : c = a
  · subst hc; cases h c <;> simp
  · simp [hc]

theorem setNext_other {h : Heap} {a c : Ptr} {v} (hc : c ≠ a) : h.setNext a v c = h c := by
  simp [setNext, hc]
theorem setPrev_other {h : Heap} {a c : Ptr} {v} (hc : c ≠ a) : h.setPrev a v c = h c := by
  simp [setPrev, hc]

theorem node_eq {h : Heap} {a : Ptr} {n p : Option Ptr} (ha : h.live a) (hn : h.nx a = n) (hp : h.pv a = p) :
    h a = some ⟨n, p⟩ := by
  obtain ⟨m, hm⟩ := live_iff.1 ha
  simp [nx, pv, hm] at hn hp
  subst hn; subst hp; exact hm

end Heap

open Heap

/-! ### 2. Symbolic execution of `list.go` -/
theorem deref_some {h : Heap} {a : Ptr} {n : Node} (hn : h a = some n) : deref h (some a) = .ok (a, n) := by
  simp [deref, hn]

theorem storeNext_ok {h : Heap} {a : Ptr} {v} (ha : h.live a) :
    storeNext (some a) v h = .ok (h.setNext a v) := by
  obtain ⟨n, hn⟩ := live_iff.1 ha
  simp [storeNext, deref, hn, bind, Except.bind, pure, Except.pure]

theorem storePrev_ok {h : Heap} {a : Ptr} {v} (ha : h.live a) :
    storePrev (some a) v h = .ok (h.setPrev a v) := by
  obtain ⟨n, hn⟩ := live_iff.1 ha
  simp [storePrev, deref, hn, bind, Except.bind, pure, Except.pure]

theorem listLink2_ok {h : Heap} {a b : Ptr} (ha : h.live a) (hb : h.live b) :
    listLink2 (some a) (some b) h = .ok ((h.setNext a (some b)).setPrev b (some a)) := by
  have hb' : (h.setNext a (some b)).live b := live_setNext.2 hb
  simp [listLink2, storeNext_ok ha, storePrev_ok hb', bind, Except.bind]

theorem listInit_ok {h : Heap} {s : Ptr} (hs : h.live s) :
    listInit (some s) h = .ok ((h.setNext s (some s)).setPrev s (some s)) := listLink2_ok hs hs

theorem listFirst_ok {h : Heap} {s : Ptr} (hs : h.live s) : listFirst (some s) h = .ok (h.nx s) := by
  obtain ⟨n, hn⟩ := live_iff.1 hs
  simp [listFirst, deref, hn, nx, bind, Except.bind, pure, Except.pure]

theorem listLast_ok {h : Heap} {s : Ptr} (hs : h.live s) : listLast (some s) h = .ok (h.pv s) := by
  obtain ⟨n, hn⟩ := live_iff.1 hs
  simp [listLast, deref, hn, pv, bind, Except.bind, pure, Except.pure]

/-- `listUnlink(x)` when `x.prev = p`, `x.next = n` are live: `p.next = n; n.prev = p`. -/
theorem listUnlink_ok {h : Heap} {x p n : Ptr} (hp : h.pv x = some p) (hn : h.nx x = some n)
    (lp : h.live p) (ln : h.live n) :
    listUnlink (some x) h = .ok ((h.setNext p (some n)).setPrev n (some p)) := by
  have hx := node_eq (live_of_nx hn) hn hp
  simp [listUnlink, deref, hx, bind, Except.bind, listLink2_ok lp ln]

/-- the heap after `listAppend(x, t)` when `t.next = n` -/
def appended (h : Heap) (x t n : Ptr) : Heap :=
  (((h.setNext x (some n)).setPrev n (some x)).setNext t (some x)).setPrev x (some t)

theorem listAppend_ok {h : Heap} {x t n : Ptr} (lx : h.live x) (hn : h.nx t = some n) (ln : h.live n) :
    listAppend (some x) (some t) h = .ok (appended h x t n) := by
  have lt := live_of_nx hn
  obtain ⟨m, hm⟩ := live_iff.1 lt
  have hmn : m.next = some n := by simpa [nx, hm] using hn
  have l1 : ((h.setNext x (some n)).setPrev n (some x)).live t := by simpa using lt
  have l2 : ((h.setNext x (some n)).setPrev n (some x)).live x := by simpa using lx
  simp [listAppend, deref, hm, hmn, bind, Except.bind, listLink2_ok lx ln, listLink2_ok l1 l2, appended]

/-- `listUnlink` of a node whose two fields are nil (never linked): `listLink2(nil, nil)`
panics on `l.next = r`. -/
theorem listUnlink_zero {h : Heap} {x : Ptr} (hx : h x = some Node.zero) :
    listUnlink (some x) h = .error .nilDeref := by
  simp [listUnlink, deref, hx, bind, Except.bind, listLink2, storeNext, Node.zero]

theorem listUnlink_nil (h : Heap) : listUnlink none h = .error .nilDeref := by
  simp [listUnlink, deref, bind, Except.bind]


/-! ### 3. Paths -/

theorem Path.append {h : Heap} {b : Ptr} : ∀ {l1 : List Ptr} {a y : Ptr} {l2 : List Ptr},
    Path h a (l1 ++ y :: l2) b ↔ Path h a l1 y ∧ Path h y l2 b
  | [], a, y, l2 => by simp [Path]
  | x :: xs, a, y, l2 => by simp [Path, Path.append (l1 := xs), and_assoc]

/-- `Path h a l b` reads `next` of `a :: l` and `prev` of `l ++ [b]` only. -/
theorem Path.congr {h h' : Heap} {b : Ptr} : ∀ {l : List Ptr} {a : Ptr},
    (∀ c ∈ a :: l, h'.nx c = h.nx c) → (∀ c ∈ l ++ [b], h'.pv c = h.pv c) →
    Path h a l b → Path h' a l b
  | [], a, hn, hp, hl => by
    simp only [Path, Link] at *
    rw [hn a (by simp), hp b (by simp)]; exact hl
  | x :: xs, a, hn, hp, hl => by
    simp only [Path, Link] at *
    refine ⟨⟨by rw [hn a (by simp)]; exact hl.1.1, by rw [hp x (by simp)]; exact hl.1.2⟩, ?_⟩
    exact Path.congr (fun c hc => hn c (List.mem_cons_of_mem _ hc))
      (fun c hc => hp c (by simp at hc ⊢; exact Or.inr hc)) hl.2

theorem Path.live_start {h : Heap} {a b : Ptr} {l : List Ptr} (hp : Path h a l b) : h.live a := by
  cases l with
  | nil => exact live_of_nx hp.1
  | cons x xs => exact live_of_nx hp.1.1

theorem Path.live_end {h : Heap} {b : Ptr} : ∀ {l : List Ptr} {a : Ptr}, Path h a l b → h.live b
  | [], _, hp => live_of_pv hp.2
  | _ :: _, _, hp => Path.live_end hp.2

/-- every node of the path has its two neighbours on the path -/
theorem Path.nbrs {h : Heap} {b x : Ptr} : ∀ {l : List Ptr} {a : Ptr}, Path h a l b → x ∈ l →
    ∃ p n, h.pv x = some p ∧ h.nx x = some n ∧ p ∈ a :: l ∧ n ∈ l ++ [b]
  | y :: ys, a, hp, hx => by
    rcases List.mem_cons.1 hx with rfl | hx
    · cases ys with
      | nil => exact ⟨a, b, hp.1.2, hp.2.1, by simp, by simp⟩
      | cons z zs => exact ⟨a, z, hp.1.2, hp.2.1.1, by simp, by simp⟩
    · obtain ⟨p, n, h1, h2, h3, h4⟩ := Path.nbrs hp.2 hx
      exact ⟨p, n, h1, h2, List.mem_cons_of_mem _ h3, by simp at h4 ⊢; exact Or.inr h4⟩

theorem Path.live_mem {h : Heap} {a b x : Ptr} {l : List Ptr} (hp : Path h a l b) (hx : x ∈ l) :
    h.live x := by
  obtain ⟨_, _, h1, _⟩ := hp.nbrs hx
  exact live_of_pv h1

/-- the node before `b` is the last one of `a :: l` -/
theorem Path.last {h : Heap} {b : Ptr} : ∀ {l : List Ptr} {a : Ptr}, Path h a l b →
    ∃ t, h.pv b = some t ∧ h.nx t = some b ∧ t ∈ a :: l ∧ (l = [] → t = a) ∧ (l ≠ [] → t ∈ l)
  | [], a, hp => ⟨a, hp.2, hp.1, by simp, by simp, by simp⟩
  | y :: ys, a, hp => by
    obtain ⟨t, h1, h2, h3, _, _⟩ := Path.last hp.2
    exact ⟨t, h1, h2, List.mem_cons_of_mem _ h3, by simp, fun _ => h3⟩

/-- the node before the end of a path is the last element of `a :: l` -/
theorem Path.pv_end {h : Heap} {b : Ptr} : ∀ {l : List Ptr} {a : Ptr}, Path h a l b →
    h.pv b = (a :: l).getLast?
  | [], a, hp => by simpa using hp.2
  | y :: ys, a, hp => by rw [Path.pv_end hp.2]; simp [List.getLast?_cons_cons]

/-- the node after `a` is the head of `l ++ [b]` -/
theorem Path.first {h : Heap} {a b : Ptr} {l : List Ptr} (hp : Path h a l b) :
    h.nx a = (l ++ [b]).head? := by
  cases l with
  | nil => exact hp.1
  | cons x xs => exact hp.1.1


/-- the heap after `listUnlink(x)` when `x.prev = p`, `x.next = n` -/
def unlinked (h : Heap) (p n : Ptr) : Heap := (h.setNext p (some n)).setPrev n (some p)

theorem nx_unlinked_ne {h : Heap} {p n c : Ptr} (hc : c ≠ p) : (unlinked h p n).nx c = h.nx c := by
  simp [unlinked, nx_setNext_ne hc]

theorem pv_unlinked_ne {h : Heap} {p n c : Ptr} (hc : c ≠ n) : (unlinked h p n).pv c = h.pv c := by
  simp [unlinked, pv_setPrev_ne hc]

theorem link_unlinked {h : Heap} {p n : Ptr} (lp : h.live p) (ln : h.live n) :
    Link (unlinked h p n) p n := by
  constructor
  · simp [unlinked, nx_setNext_same lp]
  · exact pv_setPrev_same (live_setNext.2 ln)

/-- Unlinking `x ∈ l` (with `p = x.prev`, `n = x.next`) turns a path through `l` into a
path through `l.erase x`. -/
theorem Path.unlink {h : Heap} {b x p n : Ptr} (hpx : h.pv x = some p) (hnx : h.nx x = some n) :
    ∀ {l : List Ptr} {a : Ptr}, Path h a l b → (a :: l).Nodup → b ∉ l → x ∈ l →
      Path (unlinked h p n) a (l.erase x) b
  | y :: ys, a, hp, hnd, hb, hx => by
    have hnd' : (y :: ys).Nodup := (List.nodup_cons.1 hnd).2
    have hay : a ∉ y :: ys := (List.nodup_cons.1 hnd).1
    have hyys : y ∉ ys := (List.nodup_cons.1 hnd').1
    have hby : b ≠ y := fun e => hb (e ▸ List.mem_cons_self)
    have hbys : b ∉ ys := fun e => hb (List.mem_cons_of_mem _ e)
    by_cases hxy : x = y
    · subst hxy
      rw [List.erase_cons_head]
      have hpa : p = a := by have := hp.1.2; rw [hpx] at this; exact Option.some.inj this
      subst hpa
      have la : h.live p := live_of_nx hp.1.1
      cases ys with
      | nil =>
        have hnb : n = b := by have := hp.2.1; rw [hnx] at this; exact Option.some.inj this
        subst hnb
        exact link_unlinked la (live_of_pv hp.2.2)
      | cons z zs =>
        have hnz : n = z := by have := hp.2.1.1; rw [hnx] at this; exact Option.some.inj this
        subst hnz
        refine ⟨link_unlinked la (live_of_pv hp.2.1.2), ?_⟩
        refine Path.congr (fun c hc => nx_unlinked_ne ?_) (fun c hc => pv_unlinked_ne ?_) hp.2.2
        · rintro rfl; exact hay (List.mem_cons_of_mem _ hc)
        · rintro rfl
          rcases List.mem_append.1 hc with hc | hc
          · exact (List.nodup_cons.1 (List.nodup_cons.1 hnd').2).1 hc
          · simp at hc; exact hb (by simp [hc])
    · have hxys : x ∈ ys := by
        rcases List.mem_cons.1 hx with e | e
        · exact absurd e hxy
        · exact e
      rw [List.erase_cons_tail (by simpa using fun e => hxy e.symm)]
      obtain ⟨p', n', h1, h2, h3, h4⟩ := hp.2.nbrs hxys
      have hpp : p' = p := by rw [hpx] at h1; exact (Option.some.inj h1).symm
      have hnn : n' = n := by rw [hnx] at h2; exact (Option.some.inj h2).symm
      subst hpp; subst hnn
      refine ⟨⟨?_, ?_⟩, Path.unlink hpx hnx hp.2 hnd' hbys hxys⟩
      · rw [nx_unlinked_ne (by rintro rfl; exact hay h3)]; exact hp.1.1
      · rw [pv_unlinked_ne]; exact hp.1.2
        rintro rfl
        rcases List.mem_append.1 h4 with hc | hc
        · exact hyys hc
        · simp at hc; exact hby hc.symm


theorem nx_appended_ne {h : Heap} {x t n c : Ptr} (h1 : c ≠ x) (h2 : c ≠ t) :
    (appended h x t n).nx c = h.nx c := by
  simp [appended, nx_setNext_ne h1, nx_setNext_ne h2]

theorem pv_appended_ne {h : Heap} {x t n c : Ptr} (h1 : c ≠ x) (h2 : c ≠ n) :
    (appended h x t n).pv c = h.pv c := by
  simp [appended, pv_setPrev_ne h1, pv_setPrev_ne h2]

theorem appended_other {h : Heap} {x t n c : Ptr} (h1 : c ≠ x) (h2 : c ≠ t) (h3 : c ≠ n) :
    appended h x t n c = h c := by
  simp [appended, setPrev_other h1, setNext_other h2, setPrev_other h3, setNext_other h1]

/-- the two links made by `listAppend(x, t)` with `t.next = n`, `x` a different node -/
theorem links_appended {h : Heap} {x t n : Ptr} (lx : h.live x) (lt : h.live t) (ln : h.live n)
    (hxt : x ≠ t) (hxn : x ≠ n) : Link (appended h x t n) t x ∧ Link (appended h x t n) x n := by
  refine ⟨⟨?_, ?_⟩, ?_, ?_⟩
  · simp only [appended, nx_setPrev]
    exact nx_setNext_same (by simpa using lt)
  · exact pv_setPrev_same (by simpa using lx)
  · simp only [appended, nx_setPrev]
    rw [nx_setNext_ne hxt, nx_setPrev]
    exact nx_setNext_same lx
  · simp only [appended]
    rw [pv_setPrev_ne (Ne.symm hxn), pv_setNext]
    exact pv_setPrev_same (by simpa using ln)

/-- Appending a node `x` that is not on the path after its last node `t` (`t = b.prev`). -/
theorem Path.push {h : Heap} {b x t : Ptr} (lx : h.live x) (hxb : x ≠ b) (ht : h.pv b = some t) :
    ∀ {l : List Ptr} {a : Ptr}, Path h a l b → (a :: l).Nodup → b ∉ l → x ∉ a :: l →
      Path (appended h x t b) a (l ++ [x]) b
  | [], a, hp, _, _, hx => by
    have hta : t = a := by have := hp.2; rw [ht] at this; exact Option.some.inj this
    subst hta
    exact links_appended lx (live_of_nx hp.1) (live_of_pv hp.2) (by simpa using hx) hxb
  | y :: ys, a, hp, hnd, hb, hx => by
    have hnd' : (y :: ys).Nodup := (List.nodup_cons.1 hnd).2
    have hay : a ∉ y :: ys := (List.nodup_cons.1 hnd).1
    obtain ⟨t', h1, _, h3, _, _⟩ := hp.2.last
    have htt : t' = t := by rw [ht] at h1; exact (Option.some.inj h1).symm
    subst htt
    refine ⟨⟨?_, ?_⟩, Path.push lx hxb ht hp.2 hnd' (fun e => hb (List.mem_cons_of_mem _ e))
      (fun e => hx (List.mem_cons_of_mem _ e))⟩
    · rw [nx_appended_ne (by rintro rfl; exact hx (by simp)) (by rintro rfl; exact hay h3)]
      exact hp.1.1
    · rw [pv_appended_ne (by rintro rfl; exact hx (by simp)) (by rintro rfl; exact hb (by simp))]
      exact hp.1.2


/-- position-free facts about the neighbours of a path node: they are different from it -/
theorem Path.nbrs_ne {h : Heap} {b x : Ptr} : ∀ {l : List Ptr} {a : Ptr}, Path h a l b →
    (a :: l).Nodup → b ∉ l → x ∈ l → h.pv x ≠ some x ∧ h.nx x ≠ some x
  | y :: ys, a, hp, hnd, hb, hx => by
    have hnd' : (y :: ys).Nodup := (List.nodup_cons.1 hnd).2
    have hay : a ∉ y :: ys := (List.nodup_cons.1 hnd).1
    rcases List.mem_cons.1 hx with rfl | hx
    · constructor
      · rw [hp.1.2]; intro e; exact hay (by simp [Option.some.inj e])
      · cases ys with
        | nil => rw [hp.2.1]; intro e; exact hb (by simp [Option.some.inj e])
        | cons z zs =>
          rw [hp.2.1.1]; intro e
          exact (List.nodup_cons.1 hnd').1 (by simp [Option.some.inj e])
    · exact Path.nbrs_ne hp.2 hnd' (fun e => hb (List.mem_cons_of_mem _ e)) hx

/-- the path from `a` to `b` (not on it) is determined by the heap -/
theorem Path.unique {h : Heap} {b : Ptr} : ∀ {l l' : List Ptr} {a : Ptr}, Path h a l b →
    Path h a l' b → b ∉ l → b ∉ l' → l = l'
  | [], [], _, _, _, _, _ => rfl
  | [], x :: xs, a, h1, h2, _, hb' => by
    have : b = x := Option.some.inj (h1.1.symm.trans h2.1.1)
    exact absurd (this ▸ List.mem_cons_self) hb'
  | x :: xs, [], a, h1, h2, hb, _ => by
    have : x = b := Option.some.inj (h1.1.1.symm.trans h2.1)
    exact absurd (this ▸ List.mem_cons_self) hb
  | x :: xs, y :: ys, a, h1, h2, hb, hb' => by
    have : x = y := Option.some.inj (h1.1.1.symm.trans h2.1.1)
    subst this
    rw [Path.unique h1.2 h2.2 (fun e => hb (List.mem_cons_of_mem _ e))
      (fun e => hb' (List.mem_cons_of_mem _ e))]


/-! ### 4. The representation invariant -/

namespace Repr

variable {h : Heap} {s : Ptr} {l : List Ptr}

theorem s_notin (hr : Repr h s l) : s ∉ l := (List.nodup_cons.1 hr.nodup).1

theorem nodup_l (hr : Repr h s l) : l.Nodup := (List.nodup_cons.1 hr.nodup).2

theorem live_s (hr : Repr h s l) : h.live s := hr.path.live_start

theorem live (hr : Repr h s l) {a : Ptr} (ha : a ∈ s :: l) : h.live a := by
  rcases List.mem_cons.1 ha with rfl | ha
  · exact hr.live_s
  · exact hr.path.live_mem ha

/-- The heap determines the list it represents. -/
theorem unique {l' : List Ptr} (hr : Repr h s l) (hr' : Repr h s l') : l = l' :=
  Path.unique hr.path hr'.path hr.s_notin hr'.s_notin

/-- Only the objects at `s :: l` matter. -/
theorem frame {h' : Heap} (hr : Repr h s l) (hf : ∀ a ∈ s :: l, h' a = h a) : Repr h' s l := by
  refine ⟨Path.congr (fun c hc => ?_) (fun c hc => ?_) hr.path, hr.nodup⟩
  · simp [Heap.nx, hf c hc]
  · have : c ∈ s :: l := by
      rcases List.mem_append.1 hc with hc | hc
      · exact List.mem_cons_of_mem _ hc
      · simp at hc; simp [hc]
    simp [Heap.pv, hf c this]

/-- **Closure** (memory safety of the structure): both fields of every node of the
structure (sentinel included) are non-nil and point to nodes of the structure — so to live
objects, and never to an unlinked (dropped) item. -/
theorem closed (hr : Repr h s l) {a : Ptr} (ha : a ∈ s :: l) :
    ∃ n p, h a = some ⟨some n, some p⟩ ∧ n ∈ s :: l ∧ p ∈ s :: l := by
  have mem_app : ∀ {c}, c ∈ l ++ [s] → c ∈ s :: l := by
    intro c hc
    rcases List.mem_append.1 hc with hc | hc
    · exact List.mem_cons_of_mem _ hc
    · simp at hc; simp [hc]
  rcases List.mem_cons.1 ha with rfl | ha
  · obtain ⟨t, h1, _, h3, _, _⟩ := hr.path.last
    have hf := hr.path.first
    cases l with
    | nil => exact ⟨a, t, node_eq hr.live_s hf h1, by simp, h3⟩
    | cons x xs => exact ⟨x, t, node_eq hr.live_s hf h1, by simp, h3⟩
  · obtain ⟨p, n, h1, h2, h3, h4⟩ := hr.path.nbrs ha
    exact ⟨n, p, node_eq (live_of_nx h2) h2 h1, mem_app h4, h3⟩

end Repr

/-- `listInit(&c.usage)` on a live sentinel: the heap represents `[]`; nothing else changes. -/
theorem listInit_repr' {h : Heap} {s : Ptr} (hs : h.live s) :
    ∃ h', listInit (some s) h = .ok h' ∧ Repr h' s [] ∧ (∀ a, a ≠ s → h' a = h a) ∧
      (∀ a, h'.live a ↔ h.live a) := by
  refine ⟨_, listInit_ok hs, ⟨⟨?_, ?_⟩, by simp⟩, ?_, by simp⟩
  · simp [nx_setNext_same hs]
  · exact pv_setPrev_same (live_setNext.2 hs)
  · intro a ha; simp [setPrev_other ha, setNext_other ha]

/-- `listFirst(&c.usage)`: the head of the list, the sentinel itself when it is empty. -/
theorem first_repr' {h : Heap} {s : Ptr} {l : List Ptr} (hr : Repr h s l) :
    listFirst (some s) h = .ok ((l ++ [s]).head?) := by
  rw [listFirst_ok hr.live_s, hr.path.first]

/-- `listLast(&c.usage)`: the last node of the list, the sentinel itself when it is empty. -/
theorem last_repr' {h : Heap} {s : Ptr} {l : List Ptr} (hr : Repr h s l) :
    listLast (some s) h = .ok ((s :: l).getLast?) := by
  rw [listLast_ok hr.live_s, hr.path.pv_end]

/-- `listAppend(x, listLast(&c.usage))` for a live node `x` that is not in the structure:
succeeds, the heap represents `l ++ [x]`; only `x`, the old last node and the sentinel are
written. -/
theorem append_last_repr' {h : Heap} {s x : Ptr} {l : List Ptr} (hr : Repr h s l)
    (hx : x ∉ s :: l) (lx : h.live x) :
    ∃ h', pushBack s x h = .ok h' ∧ Repr h' s (l ++ [x]) ∧ (∀ a, h'.live a ↔ h.live a) ∧
      (∀ a, a ∉ x :: s :: l → h' a = h a) := by
  obtain ⟨t, h1, h2, h3, _, _⟩ := hr.path.last
  refine ⟨appended h x t s, ?_, ⟨?_, ?_⟩, ?_, ?_⟩
  · simp [pushBack, listLast_ok hr.live_s, h1, bind, Except.bind, listAppend_ok lx h2 hr.live_s]
  · exact Path.push lx (fun e => hx (by simp [e])) h1 hr.path hr.nodup hr.s_notin hx
  · have := hr.nodup
    simp only [List.nodup_cons, List.mem_cons, not_or] at this hx ⊢
    rw [List.nodup_append]
    simp only [List.mem_append, List.mem_singleton, not_or]
    refine ⟨⟨this.1, fun e => hx.1 e.symm⟩, this.2, by simp, ?_⟩
    intro a ha b hb; subst hb; rintro rfl; exact hx.2 ha
  · intro a; simp [appended]
  · intro a ha
    simp only [List.mem_cons, not_or] at ha
    exact appended_other ha.1 (by rintro rfl; rcases List.mem_cons.1 h3 with e | e
                                  · exact ha.2.1 e
                                  · exact ha.2.2 e) ha.2.1

/-- `listUnlink(x)` for a node of the list: succeeds, the heap represents `l.erase x`;
`x`'s own `next`/`prev` are left as they were (dangling into the structure); only the two
neighbours are written. -/
theorem unlink_repr' {h : Heap} {s x : Ptr} {l : List Ptr} (hr : Repr h s l) (hx : x ∈ l) :
    ∃ h', listUnlink (some x) h = .ok h' ∧ Repr h' s (l.erase x) ∧ (∀ a, h'.live a ↔ h.live a) ∧
      h' x = h x ∧ (∀ a, a ∉ s :: l → h' a = h a) := by
  obtain ⟨p, n, h1, h2, h3, h4⟩ := hr.path.nbrs hx
  obtain ⟨hpx, hnx⟩ := hr.path.nbrs_ne hr.nodup hr.s_notin hx
  have hn' : n ∈ s :: l := by
    rcases List.mem_append.1 h4 with hc | hc
    · exact List.mem_cons_of_mem _ hc
    · simp at hc; simp [hc]
  have hother : ∀ a, a ≠ p → a ≠ n → unlinked h p n a = h a := by
    intro a ha1 ha2; simp [unlinked, setPrev_other ha2, setNext_other ha1]
  refine ⟨unlinked h p n, listUnlink_ok h1 h2 (hr.live h3) (hr.live hn'), ⟨?_, ?_⟩, ?_, ?_, ?_⟩
  · exact Path.unlink h1 h2 hr.path hr.nodup hr.s_notin hx
  · have := hr.nodup
    simp only [List.nodup_cons] at this ⊢
    exact ⟨fun e => this.1 (List.mem_of_mem_erase e), this.2.erase x⟩
  · intro a; simp [unlinked]
  · exact hother x (by rintro rfl; exact hpx h1) (by rintro rfl; exact hnx h2)
  · intro a ha
    exact hother a (by rintro rfl; exact ha h3) (by rintro rfl; exact ha hn')


/-- One eviction, list part, on a non-empty list: `first` is the head node (not the
sentinel) and the heap represents the tail. -/
theorem popFront_repr' {h : Heap} {s x : Ptr} {l : List Ptr} (hr : Repr h s (x :: l)) :
    ∃ h', popFront s h = .ok (some x, h') ∧ Repr h' s l ∧ (∀ a, h'.live a ↔ h.live a) := by
  obtain ⟨h', h1, h2, h3, _⟩ := unlink_repr' hr (List.mem_cons_self)
  refine ⟨h', ?_, by simpa using h2, h3⟩
  simp [popFront, first_repr' hr, bind, Except.bind, h1, pure, Except.pure]

/-- On the empty list the same code does not fail *in the list functions*: `listFirst`
returns the sentinel, unlinking it is a no-op on the structure, and the caller gets the
sentinel where it expects the `used` field of an item (see `itemOf_sentinel_not_item`). -/
theorem popFront_empty {h : Heap} {s : Ptr} (hr : Repr h s []) :
    ∃ h', popFront s h = .ok (some s, h') ∧ Repr h' s [] := by
  have hn : h.nx s = some s := hr.path.1
  have hp : h.pv s = some s := hr.path.2
  refine ⟨unlinked h s s, ?_, ⟨link_unlinked hr.live_s hr.live_s, hr.nodup⟩⟩
  simp [popFront, first_repr' hr, bind, Except.bind, listUnlink_ok hp hn hr.live_s hr.live_s,
    pure, Except.pure, unlinked]

/-- `Get` with LRU: unlink, then append at the back. -/
theorem moveBack_repr' {h : Heap} {s x : Ptr} {l : List Ptr} (hr : Repr h s l) (hx : x ∈ l) :
    ∃ h', moveBack s x h = .ok h' ∧ Repr h' s (l.erase x ++ [x]) ∧ (∀ a, h'.live a ↔ h.live a) := by
  obtain ⟨h1, e1, r1, l1, _⟩ := unlink_repr' hr hx
  have hx1 : x ∉ s :: l.erase x := by
    simp only [List.mem_cons, not_or]
    exact ⟨fun e => hr.s_notin (e ▸ hx), fun e => (List.Nodup.mem_erase_iff hr.nodup_l).1 e |>.1 rfl⟩
  obtain ⟨h2, e2, r2, l2, _⟩ :=
    append_last_repr' r1 hx1 ((l1 x).2 (hr.live (List.mem_cons_of_mem _ hx)))
  exact ⟨h2, by simp [moveBack, e1, bind, Except.bind, e2], r2, fun a => (l2 a).trans (l1 a)⟩

/-! ### 5. Simulation of the abstract list machine -/

theorem live_alloc {h : Heap} {x a : Ptr} : (h.alloc x).live a ↔ a = x ∨ h.live a := by
  unfold Heap.alloc Heap.set Heap.live
  by_cases e : a = x <;> simp [e]

theorem alloc_other {h : Heap} {x a : Ptr} (e : a ≠ x) : h.alloc x a = h a := by
  simp [Heap.alloc, Heap.set, e]

/-- One instruction: under its side condition the pointer code succeeds and the simulation
relation is kept. -/
theorem sim_step {h : Heap} {s : Ptr} {a : LAbs} (hs : Sim h s a) (op : LOp) (hl : Legal s op a) :
    ∃ h', execOp s op h = .ok h' ∧ Sim h' s (absStep op a) := by
  cases op with
  | alloc x =>
    refine ⟨h.alloc x, rfl, hs.repr.frame (fun c hc => alloc_other ?_), ?_⟩
    · rintro rfl; exact hl hc
    · intro y hy
      rcases List.mem_cons.1 hy with rfl | hy
      · exact live_alloc.2 (Or.inl rfl)
      · exact live_alloc.2 (Or.inr (hs.objs y hy))
  | append x =>
    obtain ⟨h', e, r, lv, _⟩ := append_last_repr' hs.repr hl.2 (hs.objs x hl.1)
    exact ⟨h', e, r, fun y hy => (lv y).2 (hs.objs y hy)⟩
  | unlink x =>
    obtain ⟨h', e, r, lv, _⟩ := unlink_repr' hs.repr hl
    exact ⟨h', e, r, fun y hy => (lv y).2 (hs.objs y hy)⟩
  | moveBack x =>
    obtain ⟨h', e, r, lv⟩ := moveBack_repr' hs.repr hl
    exact ⟨h', e, r, fun y hy => (lv y).2 (hs.objs y hy)⟩
  | popFront =>
    have hl' : a.list ≠ [] := hl
    have hr := hs.repr
    revert hl' hr
    cases hlist : a.list with
    | nil => intro hl' _; exact absurd rfl hl'
    | cons x xs =>
      intro _ hr
      obtain ⟨h', e, r, lv⟩ := popFront_repr' hr
      refine ⟨h', by simp [execOp, e, bind, Except.bind, pure, Except.pure], ?_, fun y hy => (lv y).2 (hs.objs y hy)⟩
      simpa [absStep, hlist] using r
  | clear =>
    obtain ⟨h', e, r, _, lv⟩ := listInit_repr' hs.repr.live_s
    exact ⟨h', e, r, fun y hy => (lv y).2 (hs.objs y hy)⟩

theorem sim_run {s : Ptr} : ∀ (ops : List LOp) {h : Heap} {a : LAbs}, Sim h s a → LegalRun s ops a →
    ∃ h', execOps s ops h = .ok h' ∧ Sim h' s (absRun ops a)
  | [], h, a, hs, _ => ⟨h, rfl, hs⟩
  | op :: rest, h, a, hs, hl => by
    obtain ⟨h1, e1, s1⟩ := sim_step hs op hl.1
    obtain ⟨h2, e2, s2⟩ := sim_run rest s1 hl.2
    exact ⟨h2, by simp [execOps, e1, bind, Except.bind, e2], s2⟩

theorem newList_sim (s : Ptr) : ∃ h, newList s = .ok h ∧ Sim h s LAbs.init := by
  obtain ⟨h, e, r, _⟩ := listInit_repr' (h := Heap.empty.alloc s) (s := s) (live_alloc.2 (Or.inl rfl))
  exact ⟨h, e, r, by simp [LAbs.init]⟩


/-! ### 6. Traversal and `structPtr` -/

theorem Path.walkNext {h : Heap} {b : Ptr} : ∀ {l : List Ptr} {a : Ptr} {fuel : Nat}, Path h a l b →
    b ∉ l → l.length < fuel → walkNext h b fuel (h.nx a) = (l, .sentinel)
  | [], a, fuel + 1, hp, _, _ => by
    have : h.nx a = some b := hp.1
    simp [this, LL.walkNext]
  | x :: xs, a, fuel + 1, hp, hb, hf => by
    have h1 : h.nx a = some x := hp.1.1
    have hxb : x ≠ b := fun e => hb (by simp [e])
    have lx : h.live x := live_of_pv hp.1.2
    obtain ⟨n, hn⟩ := live_iff.1 lx
    have hnx : n.next = h.nx x := by simp [Heap.nx, hn]
    rw [h1]
    simp only [LL.walkNext, hxb, if_false, hn, hnx]
    rw [Path.walkNext hp.2 (fun e => hb (List.mem_cons_of_mem _ e)) (by simpa using hf)]

/-- the mirror image of a heap: `next` and `prev` exchanged -/
def Heap.swap (h : Heap) : Heap := fun a => (h a).map fun n => ⟨n.prev, n.next⟩

theorem nx_swap {h : Heap} {a : Ptr} : h.swap.nx a = h.pv a := by
  simp only [Heap.swap, Heap.nx, Heap.pv]; cases h a <;> rfl

theorem pv_swap {h : Heap} {a : Ptr} : h.swap.pv a = h.nx a := by
  simp only [Heap.swap, Heap.nx, Heap.pv]; cases h a <;> rfl

theorem Path.swap {h : Heap} {b : Ptr} : ∀ {l : List Ptr} {a : Ptr}, Path h a l b →
    Path h.swap b l.reverse a
  | [], a, hp => ⟨by rw [nx_swap]; exact hp.2, by rw [pv_swap]; exact hp.1⟩
  | x :: xs, a, hp => by
    rw [List.reverse_cons, Path.append]
    exact ⟨Path.swap hp.2, by rw [nx_swap]; exact hp.1.2, by rw [pv_swap]; exact hp.1.1⟩

theorem walkPrev_eq (h : Heap) (s : Ptr) : ∀ (fuel : Nat) (p : Option Ptr),
    walkPrev h s fuel p = walkNext h.swap s fuel p
  | 0, _ => by simp [LL.walkPrev, LL.walkNext]
  | _ + 1, none => by simp [LL.walkPrev, LL.walkNext]
  | fuel + 1, some a => by
    simp only [LL.walkPrev, LL.walkNext]
    split
    · rfl
    · cases hh : h a with
      | none => simp [Heap.swap, hh]
      | some n => simp [Heap.swap, hh, walkPrev_eq h s fuel]

/-- What `VerifSnapshot` (and the list tie) reads: walking `next` from the sentinel lists
exactly `l`, walking `prev` lists it backwards. -/
theorem Repr.walk {h : Heap} {s : Ptr} {l : List Ptr} (hr : Repr h s l) {fuel : Nat}
    (hf : l.length < fuel) :
    walkNext h s fuel (h.nx s) = (l, .sentinel) ∧
    walkPrev h s fuel (h.pv s) = (l.reverse, .sentinel) := by
  refine ⟨hr.path.walkNext hr.s_notin hf, ?_⟩
  rw [walkPrev_eq, ← nx_swap]
  exact hr.path.swap.walkNext (by simpa using hr.s_notin) (by simpa using hf)

/-- wrapping subtraction, the two cases -/
theorem wrap_sub {M p k : Nat} (hp : p < M) (hk : k ≤ M) :
    (p + k) % M = if p + k < M then p + k else p + k - M := by
  split
  · next h => exact Nat.mod_eq_of_lt h
  · next h => rw [Nat.mod_eq_sub_mod (by omega)]; exact Nat.mod_eq_of_lt (by omega)

theorem wrap_sub_eq {M p off : Nat} (hp : p < M) (ho : off < M) :
    (p + (M - off)) % M = if off ≤ p then p - off else p + M - off := by
  rw [wrap_sub hp (Nat.sub_le _ _)]
  split <;> split <;> omega

theorem structPtr_eq {p off : Nat} (hp : p < addrMod) (ho : off < addrMod) :
    structPtr p off = if off ≤ p then p - off else p + addrMod - off := by
  unfold structPtr
  rw [Nat.mod_eq_of_lt ho]
  exact wrap_sub_eq hp ho

theorem structPtr_ge {p off : Nat} (hp : p < addrMod) (h : off ≤ p) : structPtr p off = p - off := by
  rw [structPtr_eq hp (by omega), if_pos h]

theorem structPtr_lt {p off : Nat} (hp : p < addrMod) (ho : off < addrMod) (h : p < off) :
    structPtr p off = p + addrMod - off := by
  rw [structPtr_eq hp ho, if_neg (by omega)]

/-- `structPtr` inverts `&obj.field` (the object does not wrap around the address space). -/
theorem structPtr_fieldPtr {obj off : Nat} (h : obj + off < addrMod) :
    structPtr (fieldPtr obj off) off = obj := by
  unfold fieldPtr
  rw [Nat.mod_eq_of_lt h, structPtr_ge h (by omega)]
  show @Eq Nat _ _
  omega

theorem fieldPtr_structPtr {p off : Nat} (h1 : off ≤ p) (h2 : p < addrMod) :
    fieldPtr (structPtr p off) off = p := by
  unfold fieldPtr
  rw [structPtr_ge h2 h1, Nat.sub_add_cancel h1, Nat.mod_eq_of_lt h2]

/-- `&it.used ↦ it` is injective on addresses: two different list nodes are the `used`
fields of two different items. -/
theorem itemOf_inj {p q : Ptr} (hp : p < addrMod) (hq : q < addrMod) (h : itemOf p = itemOf q) :
    p = q := by
  unfold itemOf at h
  have ho : usedOff < addrMod := by decide
  by_cases h1 : usedOff ≤ p <;> by_cases h2 : usedOff ≤ q
  · rw [structPtr_ge hp h1, structPtr_ge hq h2] at h
    unfold Ptr at *
    omega
  · rw [structPtr_ge hp h1, structPtr_lt hq ho (by omega)] at h
    unfold Ptr at *
    omega
  · rw [structPtr_lt hp ho (by omega), structPtr_ge hq h2] at h
    unfold Ptr at *
    omega
  · rw [structPtr_lt hp ho (by omega), structPtr_lt hq ho (by omega)] at h
    unfold Ptr at *
    omega

theorem itemOf_usedOf {it : Ptr} (h : it + usedOff < addrMod) : itemOf (usedOf it) = it :=
  structPtr_fieldPtr h

/-- The pointer the eviction loop would compute from the sentinel `&c.usage` of a `cache`
object at address `c` lies 40 bytes *before* the object: outside it, whatever lives there. -/
theorem itemOf_sentinel {c : Ptr} (h1 : usedOff - usageOff ≤ c) (h2 : c + usageOff < addrMod) :
    itemOf (fieldPtr c usageOff) + (usedOff - usageOff) = c := by
  unfold itemOf fieldPtr
  simp only [usedOff, usageOff] at *
  rw [Nat.mod_eq_of_lt h2, structPtr_ge h2 (by omega)]
  show @Eq Nat _ _
  omega

end GolibsVerif.C09.LL
