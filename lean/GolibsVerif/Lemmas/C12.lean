/-
C12 — helper lemmas: byte facts (kernel-evaluated tables), `simpleMaskLength` against
`cidrMask`, masked equality against division of big-endian values.
-/
import GolibsVerif.Spec.C12

set_option linter.unusedSimpArgs false

namespace GolibsVerif.C12

/-! ### Byte tables -/

def byteOk (v : Nat) : Bool :=
  match byteOnes v with
  | some j => decide (j < 8 ∧ v = topBits j)
  | none => true

theorem byteOk_all : ∀ v, v < 256 → v ≠ 255 → byteOk v = true := by decide +kernel

theorem byteOnes_spec (v j : Nat) (hv : v < 256) (h255 : v ≠ 255) (h : byteOnes v = some j) :
    j < 8 ∧ v = topBits j := by
  have := byteOk_all v hv h255
  simp only [byteOk, h] at this
  exact of_decide_eq_true this

theorem byteOnes_topBits : ∀ j, j < 8 → byteOnes (topBits j) = some j := by decide +kernel

theorem topBits_ne_255 : ∀ j, j < 8 → topBits j ≠ 255 := by decide +kernel

theorem and_topBits : ∀ a, a < 256 → ∀ j, j < 9 → a &&& (256 - 2 ^ j) = (a / 2 ^ j) * 2 ^ j := by
  decide +kernel

theorem and_255 : ∀ a, a < 256 → a &&& 255 = a := by decide +kernel

theorem euclid_unique (T a b qa qb : Nat) (hqa : qa < T) (hqb : qb < T)
    (h : a * T + qa = b * T + qb) : a = b ∧ qa = qb := by
  have hT : 0 < T := by omega
  have h1 : (a * T + qa) / T = a := by
    rw [Nat.mul_comm, Nat.mul_add_div hT, Nat.div_eq_of_lt hqa]; rfl
  have h2 : (b * T + qb) / T = b := by
    rw [Nat.mul_comm, Nat.mul_add_div hT, Nat.div_eq_of_lt hqb]; rfl
  have hab : a = b := by rw [← h1, ← h2, h]
  subst hab
  exact ⟨rfl, by omega⟩

/-! ### IsByte -/

theorem IsByte.head {a : Nat} {as : Bytes} (h : IsByte (a :: as)) : a < 256 :=
  h a (List.mem_cons_self ..)

theorem IsByte.tail {a : Nat} {as : Bytes} (h : IsByte (a :: as)) : IsByte as :=
  fun x hx => h x (List.mem_cons_of_mem _ hx)

theorem IsByte.drop {b : Bytes} (h : IsByte b) (n : Nat) : IsByte (b.drop n) :=
  fun x hx => h x (List.mem_of_mem_drop hx)

theorem IsByte.append {a b : Bytes} (ha : IsByte a) (hb : IsByte b) : IsByte (a ++ b) := by
  intro x hx
  rcases List.mem_append.mp hx with h | h
  · exact ha x h
  · exact hb x h

theorem isByte_v4InV6Prefix : IsByte v4InV6Prefix := by
  intro x hx
  simp [v4InV6Prefix] at hx
  omega

/-! ### cidrMask -/

theorem cidrMask_length (k n : Nat) : (cidrMask k n).length = n := by
  induction n generalizing k with
  | zero => rfl
  | succ n ih => simp [cidrMask, ih]

theorem cidrMask_zero (n : Nat) : cidrMask 0 n = List.replicate n 0 := by
  induction n with
  | zero => rfl
  | succ n ih => simp [cidrMask, ih, topBits, List.replicate_succ]

theorem allZero_eq_replicate (l : Bytes) (h : l.all (· == 0) = true) : l = List.replicate l.length 0 := by
  induction l with
  | nil => rfl
  | cons a t ih =>
    simp only [List.all_cons, Bool.and_eq_true, beq_iff_eq] at h
    simp [List.replicate_succ, h.1]
    exact ih h.2

/-- `simpleMaskLength` answers `k` only for the canonical mask with `k` ones. -/
theorem simpleMaskLength_some (m : Bytes) (hm : IsByte m) (k : Nat) (h : simpleMaskLength m = some k) :
    k ≤ 8 * m.length ∧ m = cidrMask k m.length := by
  induction m generalizing k with
  | nil =>
    simp [simpleMaskLength] at h
    subst h
    exact ⟨by simp, rfl⟩
  | cons v rest ih =>
    have hv := hm.head
    have hr := hm.tail
    unfold simpleMaskLength at h
    by_cases h255 : v = 255
    · simp only [h255, if_true, Option.map_eq_some_iff] at h
      obtain ⟨k', hk', rfl⟩ := h
      have := ih hr k' hk'
      refine ⟨by simp [List.length_cons]; omega, ?_⟩
      simp only [List.length_cons, cidrMask]
      have h1 : min (k' + 8) 8 = 8 := by omega
      have h2 : k' + 8 - 8 = k' := by omega
      rw [h1, h2, ← this.2, h255]
      rfl
    · simp only [h255, if_false] at h
      cases hbo : byteOnes v with
      | none => simp [hbo] at h
      | some j =>
        simp only [hbo] at h
        by_cases hz : rest.all (· == 0) = true
        · simp only [hz, if_true, Option.some.injEq] at h
          subst h
          obtain ⟨hj, hvj⟩ := byteOnes_spec v j hv h255 hbo
          refine ⟨by simp [List.length_cons]; omega, ?_⟩
          simp only [List.length_cons, cidrMask]
          have h1 : min j 8 = j := by omega
          have h2 : j - 8 = 0 := by omega
          rw [h1, h2, cidrMask_zero, ← allZero_eq_replicate rest hz, hvj]
        · simp [hz] at h

/-- and it does answer `k` for that mask -/
theorem simpleMaskLength_cidrMask (k n : Nat) (hk : k ≤ 8 * n) : simpleMaskLength (cidrMask k n) = some k := by
  induction n generalizing k with
  | zero =>
    have : k = 0 := by omega
    subst this; rfl
  | succ n ih =>
    simp only [cidrMask, simpleMaskLength]
    by_cases h8 : 8 ≤ k
    · have h1 : min k 8 = 8 := by omega
      have : topBits 8 = 255 := by decide
      rw [h1, this]
      simp only [if_true]
      rw [ih (k - 8) (by omega)]
      simp
      omega
    · have h1 : min k 8 = k := by omega
      have hk8 : k < 8 := by omega
      have hne : topBits k ≠ 255 := topBits_ne_255 k hk8
      have h2 : k - 8 = 0 := by omega
      rw [h1, h2, cidrMask_zero]
      simp only [hne, if_false, byteOnes_topBits k hk8]
      simp

/-! ### Big-endian values and masked equality -/

theorem pow256 (n : Nat) : 256 ^ n = 2 ^ (8 * n) := by
  rw [Nat.pow_mul]

theorem beNat_lt (b : Bytes) (h : IsByte b) : beNat b < 256 ^ b.length := by
  induction b with
  | nil => simp [beNat]
  | cons a t ih =>
    have ha := h.head
    have := ih h.tail
    simp only [beNat, List.length_cons, Nat.pow_succ]
    have h1 : a * 256 ^ t.length ≤ 255 * 256 ^ t.length := Nat.mul_le_mul_right _ (by omega)
    generalize 256 ^ t.length = X at *
    omega

theorem maskedEq_zero (as bs : Bytes) (n : Nat) : maskedEq as (List.replicate n 0) bs = true := by
  induction as generalizing bs n with
  | nil => cases n <;> simp [maskedEq, List.replicate_succ]
  | cons a t ih =>
    cases n with
    | zero => simp [maskedEq]
    | succ n =>
      cases bs with
      | nil => simp [maskedEq]
      | cons b bt => simp [maskedEq, List.replicate_succ, ih]

/-- The loop of `IPNet.Contains` under a canonical mask with `k` ones compares the `k`
leading bits of the two big-endian values. -/
theorem maskedEq_cidr (as bs : Bytes) (k : Nat) (hl : as.length = bs.length) (ha : IsByte as)
    (hb : IsByte bs) (hk : k ≤ 8 * as.length) :
    maskedEq as (cidrMask k as.length) bs = true ↔
      beNat as / 2 ^ (8 * as.length - k) = beNat bs / 2 ^ (8 * as.length - k) := by
  induction as generalizing bs k with
  | nil =>
    cases bs with
    | nil => simp [maskedEq]
    | cons b bt => simp at hl
  | cons a at' ih =>
    cases bs with
    | nil => simp at hl
    | cons b bt =>
      have hl' : at'.length = bt.length := by simpa using hl
      have ha0 := ha.head
      have hb0 := hb.head
      have hra := beNat_lt at' ha.tail
      have hrb := beNat_lt bt hb.tail
      rw [← hl'] at hrb
      simp only [List.length_cons, cidrMask, maskedEq, beNat, Bool.and_eq_true, beq_iff_eq]
      rw [← hl']
      by_cases h8 : 8 ≤ k
      · -- the first mask byte is 0xff
        have h1 : min k 8 = 8 := by omega
        have htb : topBits 8 = 255 := by decide
        rw [h1, htb, and_255 a ha0, and_255 b hb0]
        have hk' : k - 8 ≤ 8 * at'.length := by simp only [List.length_cons] at hk; omega
        rw [ih bt (k - 8) hl' ha.tail hb.tail hk']
        have hs : 8 * (at'.length + 1) - k = 8 * at'.length - (k - 8) := by omega
        rw [hs]
        generalize hsdef : 8 * at'.length - (k - 8) = s
        have hsle : s ≤ 8 * at'.length := by omega
        -- 256^n = 2^s * T
        have hT : 256 ^ at'.length = 2 ^ s * 2 ^ (8 * at'.length - s) := by
          rw [pow256, ← Nat.pow_add]; congr 1; omega
        generalize 2 ^ (8 * at'.length - s) = T at hT
        have h2s : 0 < 2 ^ s := Nat.pow_pos (by omega)
        rw [hT] at hra hrb ⊢
        have e1 : ∀ c r, (c * (2 ^ s * T) + r) / 2 ^ s = c * T + r / 2 ^ s := by
          intro c r
          have : c * (2 ^ s * T) = 2 ^ s * (c * T) := by
            rw [Nat.mul_left_comm]
          rw [this, Nat.mul_add_div h2s]
        rw [e1, e1]
        have q1 : beNat at' / 2 ^ s < T := by
          rw [Nat.div_lt_iff_lt_mul h2s, Nat.mul_comm]; exact hra
        have q2 : beNat bt / 2 ^ s < T := by
          rw [Nat.div_lt_iff_lt_mul h2s, Nat.mul_comm]; exact hrb
        constructor
        · rintro ⟨rfl, h⟩
          rw [h]
        · intro h
          exact euclid_unique T a b _ _ q1 q2 h
      · -- the first mask byte has k < 8 ones, the rest of the mask is zero
        have h1 : min k 8 = k := by omega
        have h2 : k - 8 = 0 := by omega
        rw [h1, h2, cidrMask_zero, maskedEq_zero]
        simp only [and_true]
        have hs : 8 * (at'.length + 1) - k = 8 * at'.length + (8 - k) := by omega
        rw [hs, Nat.pow_add, ← pow256]
        have hpos : 0 < 256 ^ at'.length := Nat.pow_pos (by omega)
        have e1 : ∀ c r, r < 256 ^ at'.length →
            (c * 256 ^ at'.length + r) / (256 ^ at'.length * 2 ^ (8 - k)) = c / 2 ^ (8 - k) := by
          intro c r hr
          rw [← Nat.div_div_eq_div_mul, Nat.mul_comm c, Nat.mul_add_div hpos, Nat.div_eq_of_lt hr]
          simp
        rw [e1 a _ hra, e1 b _ hrb]
        unfold topBits
        rw [and_topBits a ha0 (8 - k) (by omega), and_topBits b hb0 (8 - k) (by omega)]
        exact Nat.mul_right_cancel_iff (Nat.pow_pos (by omega))

/-- under a canonical mask with at least `8 * j` ones the first `j` bytes must agree -/
theorem maskedEq_cidr_take (as bs : Bytes) (k j : Nat) (hl : as.length = bs.length) (ha : IsByte as)
    (hb : IsByte bs) (hj : 8 * j ≤ k) (h : maskedEq as (cidrMask k as.length) bs = true) :
    as.take j = bs.take j := by
  induction as generalizing bs k j with
  | nil =>
    cases bs with
    | nil => rfl
    | cons b bt => simp at hl
  | cons a at' ih =>
    cases bs with
    | nil => simp at hl
    | cons b bt =>
      cases j with
      | zero => rfl
      | succ j =>
        have hl' : at'.length = bt.length := by simpa using hl
        simp only [List.length_cons, cidrMask, maskedEq, Bool.and_eq_true, beq_iff_eq] at h
        have h1 : min k 8 = 8 := by omega
        have htb : topBits 8 = 255 := by decide
        rw [h1, htb, and_255 a ha.head, and_255 b hb.head] at h
        simp only [List.take_succ_cons, h.1]
        rw [ih bt (k - 8) j hl' ha.tail hb.tail (by omega) h.2]

/-! ### `To4`, `To16`, `Is4In6` -/

theorem to4_some_length {ip b4 : Bytes} (h : to4 ip = some b4) : b4.length = 4 := by
  unfold to4 at h
  split at h
  · simp at h; subst h; assumption
  · split at h
    · simp at h; subst h; simp; omega
    · simp at h

theorem to4_of_length4 {ip : Bytes} (h : ip.length = 4) : to4 ip = some ip := by
  simp [to4, h]

theorem to4_idem {ip b4 : Bytes} (h : to4 ip = some b4) : to4 b4 = some b4 :=
  to4_of_length4 (to4_some_length h)

/-- `To4` is non-nil exactly for 4-byte values and IPv4-mapped 16-byte values -/
theorem to4_cases (ip : Bytes) :
    (ip.length = 4 ∧ to4 ip = some ip) ∨
    (ip.length = 16 ∧ ip.take 12 = v4InV6Prefix ∧ to4 ip = some (ip.drop 12)) ∨
    ((ip.length ≠ 4 ∧ ¬(ip.length = 16 ∧ ip.take 12 = v4InV6Prefix)) ∧ to4 ip = none) := by
  unfold to4
  by_cases h4 : ip.length = 4
  · simp [h4]
  · by_cases h16 : ip.length = 16 ∧ ip.take 12 = v4InV6Prefix
    · simp [h4, h16]
    · simp [h4, h16]

theorem to16_cases (ip : Bytes) :
    (ip.length = 4 ∧ to16 ip = some (v4InV6Prefix ++ ip)) ∨
    (ip.length = 16 ∧ to16 ip = some ip) ∨
    (ip.length ≠ 4 ∧ ip.length ≠ 16 ∧ to16 ip = none) := by
  unfold to16
  by_cases h4 : ip.length = 4
  · simp [h4]
  · by_cases h16 : ip.length = 16
    · simp [h16]
    · simp [h4, h16]

theorem to16_some_length {ip b : Bytes} (h : to16 ip = some b) : b.length = 16 := by
  rcases to16_cases ip with ⟨h4, e⟩ | ⟨h16, e⟩ | ⟨_, _, e⟩
  · rw [e] at h; simp at h; subst h; simp [v4InV6Prefix, h4]
  · rw [e] at h; simp at h; subst h; exact h16
  · rw [e] at h; simp at h

theorem is4In6_v6 (b z : Bytes) : (Addr.v6 b z).is4In6 = true ↔ b.take 12 = v4InV6Prefix := by
  simp [Addr.is4In6]

/-! ### `lexCmp`, `Addr.compare` -/

theorem lexCmp_refl (a : Bytes) : lexCmp a a = 0 := by
  induction a with
  | nil => rfl
  | cons x t ih => simp [lexCmp, ih]

theorem lexCmp_antisymm (a b : Bytes) : lexCmp a b = - lexCmp b a := by
  induction a generalizing b with
  | nil => cases b <;> simp [lexCmp]
  | cons x t ih =>
    cases b with
    | nil => simp [lexCmp]
    | cons y u =>
      simp only [lexCmp]
      by_cases h1 : x < y
      · have : ¬ y < x := by omega
        have h3 : ¬ x > y := by omega
        simp [h1, this]
      · by_cases h2 : y < x
        · simp [h1, h2]
        · simp [h1, h2, ih u]

theorem lexCmp_range (a b : Bytes) : lexCmp a b = -1 ∨ lexCmp a b = 0 ∨ lexCmp a b = 1 := by
  induction a generalizing b with
  | nil => cases b <;> simp [lexCmp]
  | cons x t ih =>
    cases b with
    | nil => simp [lexCmp]
    | cons y u =>
      simp only [lexCmp]
      split
      · simp
      · split
        · simp
        · exact ih u

theorem lexCmp_eq_zero {a b : Bytes} (h : lexCmp a b = 0) : a = b := by
  induction a generalizing b with
  | nil => cases b with
    | nil => rfl
    | cons y u => simp [lexCmp] at h
  | cons x t ih =>
    cases b with
    | nil => simp [lexCmp] at h
    | cons y u =>
      simp only [lexCmp] at h
      split at h
      · simp at h
      · split at h
        · simp at h
        · have : x = y := by omega
          rw [this, ih h]

theorem lexCmp_trans {a b c : Bytes} (h1 : lexCmp a b < 0) (h2 : lexCmp b c < 0) : lexCmp a c < 0 := by
  induction a generalizing b c with
  | nil =>
    cases c with
    | nil => cases b <;> simp [lexCmp] at h1 h2
    | cons z w => simp [lexCmp]
  | cons x t ih =>
    cases b with
    | nil => simp [lexCmp] at h1
    | cons y u =>
      cases c with
      | nil => simp [lexCmp] at h2
      | cons z w =>
        simp only [lexCmp] at h1 h2 ⊢
        by_cases hxy : x < y
        · by_cases hyz : y < z
          · have : x < z := by omega
            simp [this]
          · by_cases hzy : y > z
            · simp [hyz, hzy] at h2
            · have : y = z := by omega
              subst this
              simp [hxy]
        · by_cases hyx : x > y
          · simp [hxy, hyx] at h1
          · have : x = y := by omega
            subst this
            simp only [hxy, if_false] at h1
            by_cases hyz : x < z
            · simp [hyz]
            · by_cases hzy : x > z
              · simp [hyz, hzy] at h2
              · simp only [hyz, hzy, if_false] at h2 ⊢
                exact ih h1 h2

/-! ### `IPNetToPrefix`, `networkNumberAndMask`, `Prefix.Contains` unfolded -/

/-- what a successful `IPNetToPrefix` (repaired) went through -/
theorem ipNetToPrefix_ok {n : IPNet} {fam : Nat} {p : Prefix}
    (h : ipNetToPrefix (some n) fam = .ok (.ok p)) :
    ∃ addr ones, ipToAddr n.ip fam = .ok (.ok addr) ∧
      simpleMaskLength (orNil n.mask) = some ones ∧ orNil n.mask ≠ [] ∧
      ones ≤ addr.bitLen ∧ addr.isValid = true ∧ p = ⟨addr.withoutZone, ones + 1⟩ := by
  unfold ipNetToPrefix at h
  cases hc : ipToAddr n.ip fam with
  | error e => simp [hc, bind, Except.bind] at h
  | ok r =>
    cases r with
    | error e => simp [hc, bind, Except.bind, pure, Except.pure] at h
    | ok addr =>
      simp only [hc, bind, Except.bind, pure, Except.pure] at h
      cases hs : simpleMaskLength (orNil n.mask) with
      | none => simp [maskSize, hs] at h
      | some ones =>
        simp only [maskSize, hs] at h
        by_cases hl : (orNil n.mask).length * 8 = 0
        · simp [hl] at h
        · simp only [hl, if_false] at h
          by_cases hv : (prefixFrom addr (ones : Int)).isValid = true
          · simp only [hv, Bool.not_true, Bool.false_eq_true, if_false] at h
            simp at h
            refine ⟨addr, ones, rfl, rfl, ?_, ?_, ?_, ?_⟩
            · intro he; rw [he] at hl; simp at hl
            · simp [prefixFrom, Prefix.isValid] at hv
              by_cases hc2 : addr.isValid = true ∧ ones ≤ addr.bitLen
              · exact hc2.2
              · simp [hc2] at hv
            · simp [prefixFrom, Prefix.isValid] at hv
              by_cases hc2 : addr.isValid = true ∧ ones ≤ addr.bitLen
              · exact hc2.1
              · simp [hc2] at hv
            · rw [← h]
              simp [prefixFrom, Prefix.isValid] at hv ⊢
              by_cases hc2 : addr.isValid = true ∧ ones ≤ addr.bitLen
              · simp [hc2]
              · simp [hc2] at hv
          · simp [hv] at h

theorem nnm_to4 {n : IPNet} {b4 : Bytes} (h : to4 (orNil n.ip) = some b4) :
    networkNumberAndMask n =
      if (orNil n.mask).length = 4 then (b4, orNil n.mask)
      else if (orNil n.mask).length = 16 then (b4, (orNil n.mask).drop 12) else ([], []) := by
  have hl := to4_some_length h
  simp [networkNumberAndMask, h, hl]

theorem nnm_16 {n : IPNet} (h : to4 (orNil n.ip) = none) (h16 : (orNil n.ip).length = 16) :
    networkNumberAndMask n =
      if (orNil n.mask).length = 16 then (orNil n.ip, orNil n.mask) else ([], []) := by
  simp [networkNumberAndMask, h, h16]
  by_cases hm : (orNil n.mask).length = 16
  · simp [hm]
  · simp [hm]

theorem contains_eq (pa x : Addr) (ones : Nat) (hb : pa.bitLen = x.bitLen) (h0 : x.bitLen ≠ 0)
    (hz : x.zoneOf = []) :
    (Prefix.mk pa (ones + 1)).contains x =
      decide (beNat x.bytes / 2 ^ (x.bitLen - ones) = beNat pa.bytes / 2 ^ (x.bitLen - ones)) := by
  simp [Prefix.contains, Prefix.isValid, Addr.hasZone, hz, hb, h0, Nat.shiftRight_eq_div_pow]
  by_cases he : beNat x.bytes / 2 ^ (x.bitLen - ones) = beNat pa.bytes / 2 ^ (x.bitLen - ones)
  · simp [he]
  · simp [he]


theorem contains_iff (pa x : Addr) (ones : Nat) (hb : pa.bitLen = x.bitLen) (h0 : x.bitLen ≠ 0)
    (hz : x.zoneOf = []) :
    (Prefix.mk pa (ones + 1)).contains x = true ↔
      beNat x.bytes / 2 ^ (x.bitLen - ones) = beNat pa.bytes / 2 ^ (x.bitLen - ones) := by
  rw [contains_eq pa x ones hb h0 hz]
  simp


theorem ipToAddr_total (ip : Option Bytes) (fam : Nat) (hf : fam = famV4 ∨ fam = famV6) :
    ∃ r, ipToAddr ip fam = .ok r := by
  cases ip with
  | none => exact ⟨_, rfl⟩
  | some b =>
    rcases hf with rfl | rfl
    · cases h : to4 b <;> simp [ipToAddr, h, pure, Except.pure]
    · simp [ipToAddr, famV4, famV6, pure, Except.pure]

theorem ipNetToPrefix_total (n : Option IPNet) (fam : Nat) (hf : fam = famV4 ∨ fam = famV6) :
    ∃ r, ipNetToPrefix n fam = .ok r := by
  cases n with
  | none => exact ⟨_, rfl⟩
  | some n =>
    obtain ⟨r, hr⟩ := ipToAddr_total n.ip fam hf
    unfold ipNetToPrefix
    simp only [hr, bind, Except.bind]
    cases r with
    | error e => exact ⟨_, rfl⟩
    | ok addr =>
      simp only [pure, Except.pure]
      split
      · exact ⟨_, rfl⟩
      · split <;> exact ⟨_, rfl⟩


/-- shape of a successful `IPToAddr` -/
theorem ipToAddr_ok_shape {ip : Option Bytes} {fam : Nat} {a : Addr} (h : ipToAddr ip fam = .ok (.ok a)) :
    ∃ b, ip = some b ∧
      ((fam = famV4 ∧ ∃ b4, to4 b = some b4 ∧ a = .v4 b4) ∨
       (fam = famV6 ∧ ∃ b16, to16 b = some b16 ∧ a = .v6 b16 [])) := by
  cases ip with
  | none => simp [ipToAddr, pure, Except.pure] at h
  | some b =>
    refine ⟨b, rfl, ?_⟩
    by_cases hf4 : fam = famV4
    · subst hf4
      cases h4 : to4 b with
      | none => simp [ipToAddr, h4, pure, Except.pure] at h
      | some b4 =>
        have hl4 := to4_some_length h4
        simp [ipToAddr, h4, fromSlice, orNil, addrFromSlice, hl4, pure, Except.pure] at h
        exact Or.inl ⟨rfl, b4, rfl, h.symm⟩
    · by_cases hf6 : fam = famV6
      · subst hf6
        cases h16 : to16 b with
        | none => simp [ipToAddr, hf4, h16, fromSlice, orNil, addrFromSlice, pure, Except.pure] at h
        | some b16 =>
          have hl16 := to16_some_length h16
          simp [ipToAddr, hf4, h16, fromSlice, orNil, addrFromSlice, hl16, pure, Except.pure] at h
          exact Or.inr ⟨rfl, b16, rfl, h.symm⟩
      · simp [ipToAddr, hf4, hf6] at h

theorem to16_of_to4_none {b b16 : Bytes} (h4 : to4 b = none) (h16 : to16 b = some b16) :
    b16 = b ∧ b.length = 16 ∧ ¬ b.take 12 = v4InV6Prefix := by
  rcases to16_cases b with ⟨l4, _⟩ | ⟨l16, e⟩ | ⟨_, _, e⟩
  · rw [to4_of_length4 l4] at h4; simp at h4
  · rw [e] at h16; simp at h16
    refine ⟨h16.symm, l16, ?_⟩
    rcases to4_cases b with ⟨_, e4⟩ | ⟨_, _, e4⟩ | ⟨⟨_, hnm⟩, _⟩
    · rw [e4] at h4; simp at h4
    · rw [e4] at h4; simp at h4
    · intro hm; exact hnm ⟨l16, hm⟩
  · rw [e] at h16; simp at h16


/-! ### Sort key -/

/-- a family predicate that separates bit lengths among valid addresses (`Is4`, `Is6`) -/
def FamSeparates (f : Addr → Bool) : Prop :=
  ∀ a b : Addr, a.isValid = true → b.isValid = true → f a = f b → a.bitLen = b.bitLen

theorem famSeparates_is4 : FamSeparates Addr.is4 := by
  intro a b ha hb h
  cases a <;> cases b <;> simp_all [Addr.is4, Addr.bitLen, Addr.isValid]

theorem famSeparates_is6 : FamSeparates Addr.is6 := by
  intro a b ha hb h
  cases a <;> cases b <;> simp_all [Addr.is6, Addr.bitLen, Addr.isValid]

theorem compare_lt_iff (a b : Addr) (hbl : a.bitLen = b.bitLen) :
    a.compare b < 0 ↔ beNat a.bytes < beNat b.bytes ∨
      (beNat a.bytes = beNat b.bytes ∧ a.is6 = true ∧ lexCmp a.zoneOf b.zoneOf < 0) := by
  unfold Addr.compare
  have h1 : ¬ a.bitLen < b.bitLen := by omega
  have h2 : ¬ a.bitLen > b.bitLen := by omega
  simp only [h1, h2, if_false]
  by_cases hlt : beNat a.bytes < beNat b.bytes
  · simp [hlt]
  · by_cases hgt : beNat a.bytes > beNat b.bytes
    · simp [hlt, hgt]; omega
    · have heq : beNat a.bytes = beNat b.bytes := by omega
      by_cases h6 : a.is6 = true
      · simp [hlt, hgt, heq, h6]
      · simp [hlt, hgt, heq, h6]

theorem prefer_key_gen (f : Addr → Bool) (hf : FamSeparates f) (a b : Addr) :
    prefer a b f < 0 ↔ keyLt (key f a) (key f b) := by
  unfold prefer keyLt key cls
  by_cases ha : a.isValid = true
  · by_cases hb : b.isValid = true
    · by_cases hfab : f a = f b
      · have hbl := hf a b ha hb hfab
        have h6 : a.is6 = b.is6 := by
          cases a <;> cases b <;> simp_all [Addr.is6, Addr.bitLen, Addr.isValid]
        simp only [ha, hb, hfab, Bool.not_true, Bool.false_eq_true, if_false, beq_self_eq_true, if_true,
          compare_lt_iff a b hbl]
        by_cases h6b : b.is6 = true
        · simp [h6, h6b]
        · simp [h6, h6b, lexCmp]
      · cases hfa : f a <;> cases hfb : f b <;> simp_all
    · simp [ha, hb]
      split <;> omega
  · simp [ha]
    have : a = .zero := by cases a <;> simp_all [Addr.isValid]
    subst this
    by_cases hb : b.isValid = true
    · simp [hb]; split <;> omega
    · have : b = .zero := by cases b <;> simp_all [Addr.isValid]
      subst this
      simp [Addr.isValid, Addr.bytes, Addr.is6, lexCmp]


theorem keyLt_irrefl (k : Nat × Nat × Bytes) : ¬ keyLt k k := by
  unfold keyLt
  have := lexCmp_refl k.2.2
  omega

theorem keyLt_trans {k1 k2 k3 : Nat × Nat × Bytes} (h1 : keyLt k1 k2) (h2 : keyLt k2 k3) : keyLt k1 k3 := by
  unfold keyLt at *
  rcases h1 with h1 | ⟨e1, h1 | ⟨e1', h1⟩⟩ <;> rcases h2 with h2 | ⟨e2, h2 | ⟨e2', h2⟩⟩
  · left; omega
  · left; omega
  · left; omega
  · left; omega
  · right; exact ⟨by omega, Or.inl (by omega)⟩
  · right; exact ⟨by omega, Or.inl (by omega)⟩
  · left; omega
  · right; exact ⟨by omega, Or.inl (by omega)⟩
  · right; exact ⟨by omega, Or.inr ⟨by omega, lexCmp_trans h1 h2⟩⟩

theorem keyLt_connected {k1 k2 : Nat × Nat × Bytes} (h1 : ¬ keyLt k1 k2) (h2 : ¬ keyLt k2 k1) : k1 = k2 := by
  unfold keyLt at *
  have a1 : k1.1 = k2.1 := by omega
  have a2 : k1.2.1 = k2.2.1 := by omega
  have hz : lexCmp k1.2.2 k2.2.2 = 0 := by
    have := lexCmp_antisymm k1.2.2 k2.2.2
    have r := lexCmp_range k1.2.2 k2.2.2
    omega
  have a3 := lexCmp_eq_zero hz
  obtain ⟨x, y, z⟩ := k1
  obtain ⟨x', y', z'⟩ := k2
  simp_all


theorem compare_antisymm (a b : Addr) : a.compare b = - b.compare a := by
  unfold Addr.compare
  by_cases h1 : a.bitLen < b.bitLen
  · have : ¬ b.bitLen < a.bitLen := by omega
    simp [h1, this]
  · by_cases h2 : a.bitLen > b.bitLen
    · simp [h1, h2]
    · have hbl : a.bitLen = b.bitLen := by omega
      have h6 : a.is6 = b.is6 := by
        cases a <;> cases b <;> simp_all [Addr.is6, Addr.bitLen]
      have h1' : ¬ b.bitLen < a.bitLen := by omega
      have h2' : ¬ b.bitLen > a.bitLen := by omega
      simp only [h1, h2, h1', h2', if_false]
      by_cases h3 : beNat a.bytes < beNat b.bytes
      · have : ¬ beNat b.bytes < beNat a.bytes := by omega
        simp [h3, this]
      · by_cases h4 : beNat a.bytes > beNat b.bytes
        · simp [h3, h4]
        · have h3' : ¬ beNat b.bytes < beNat a.bytes := by omega
          have h4' : ¬ beNat b.bytes > beNat a.bytes := by omega
          simp only [h3, h4, h3', h4', if_false, h6]
          by_cases hb6 : b.is6 = true
          · simp [hb6, lexCmp_antisymm a.zoneOf b.zoneOf]
          · simp [hb6]

theorem prefer_strict_weak_gen (f : Addr → Bool) (hf : FamSeparates f) :
    StrictWeakOrder (fun a b => prefer a b f < 0) := by
  refine ⟨?_, ?_, ?_⟩
  · intro a h
    exact keyLt_irrefl _ ((prefer_key_gen f hf a a).mp h)
  · intro a b c h1 h2
    exact (prefer_key_gen f hf a c).mpr
      (keyLt_trans ((prefer_key_gen f hf a b).mp h1) ((prefer_key_gen f hf b c).mp h2))
  · intro a b c ⟨h1, h2⟩ ⟨h3, h4⟩
    simp only [prefer_key_gen f hf] at *
    have e1 := keyLt_connected h1 h2
    have e2 := keyLt_connected h3 h4
    rw [e1, e2]
    exact ⟨keyLt_irrefl _, keyLt_irrefl _⟩

theorem sorted_stated_gen (f : Addr → Bool) (hf : FamSeparates f) (l : List Addr)
    (h : Sorted (fun a b => prefer a b f) l) : StatedOrder f l := by
  unfold Sorted at h
  unfold StatedOrder
  refine h.imp ?_
  intro a b hba
  rw [prefer_key_gen f hf] at hba
  by_cases hc : cls f a < cls f b
  · exact Or.inl hc
  · right
    have hle : ¬ cls f b < cls f a := by
      intro hlt; exact hba (Or.inl hlt)
    have heq : cls f a = cls f b := by omega
    refine ⟨heq, ?_⟩
    by_cases h2 : cls f a = 2
    · exact Or.inl h2
    · right
      -- both valid, same family: `prefer b a` is `b.Compare(a)`
      have hva : a.isValid = true := by
        unfold cls at h2; cases hv : a.isValid <;> simp_all
      have hvb : b.isValid = true := by
        rw [heq] at h2; unfold cls at h2; cases hv : b.isValid <;> simp_all
      have hfab : f b = f a := by
        unfold cls at heq
        simp only [hva, hvb, Bool.not_true, Bool.false_eq_true, if_false] at heq
        cases hfa : f a <;> cases hfb : f b <;> simp_all
      have hp : prefer b a f = b.compare a := by
        simp [prefer, hva, hvb, hfab]
      have hnlt : ¬ b.compare a < 0 := by
        rw [← hp, prefer_key_gen f hf]; exact hba
      rw [compare_antisymm a b]
      omega


/-! ### Insertion sort -/

theorem insertBy_perm (cmp : Addr → Addr → Int) (x : Addr) (l : List Addr) :
    (insertBy cmp x l).Perm (x :: l) := by
  induction l with
  | nil => exact List.Perm.refl _
  | cons y ys ih =>
    unfold insertBy
    split
    · exact List.Perm.refl _
    · exact (List.Perm.cons y ih).trans (List.Perm.swap x y ys)

theorem insertBy_sorted (cmp : Addr → Addr → Int) (hw : StrictWeakOrder (fun a b => cmp a b < 0))
    (x : Addr) (l : List Addr) (hl : Sorted cmp l) : Sorted cmp (insertBy cmp x l) := by
  induction l with
  | nil => simp [insertBy, Sorted]
  | cons y ys ih =>
    unfold Sorted at hl ih ⊢
    rw [List.pairwise_cons] at hl
    unfold insertBy
    by_cases hxy : cmp x y < 0
    · simp only [hxy, if_true]
      rw [List.pairwise_cons]
      refine ⟨?_, List.pairwise_cons.mpr hl⟩
      intro z hz
      rcases List.mem_cons.mp hz with rfl | hz
      · intro hzx; exact hw.irrefl _ (hw.trans _ _ _ hzx hxy)
      · intro hzx
        exact hl.1 z hz (hw.trans _ _ _ hzx hxy)
    · simp only [hxy, if_false]
      rw [List.pairwise_cons]
      refine ⟨?_, ih hl.2⟩
      intro z hz
      have := (insertBy_perm cmp x ys).mem_iff.mp hz
      rcases List.mem_cons.mp this with rfl | hz'
      · exact hxy
      · exact hl.1 z hz'

end GolibsVerif.C12
