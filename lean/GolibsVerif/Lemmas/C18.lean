/-
C18 — observation functions on traces and helper lemmas for `Theorems/C18.lean`.
-/
import GolibsVerif.Model.C18

set_option linter.unusedSimpArgs false

namespace GolibsVerif.C18
open GolibsVerif.Gen.Consts (ExitCodeSuccess ExitCodeFailure)

/-! ## Part 1 — the reverse loop -/

theorem idxSvc_lt (svcs : List Outcome) (i : Nat) (h : i < svcs.length) :
    idxSvc svcs i = .ok svcs[i] := by
  simp [idxSvc, List.getElem?_eq_getElem h]

theorem range_succ_reverse (n : Nat) : (List.range (n + 1)).reverse = n :: (List.range n).reverse := by
  simp [List.range_succ]

theorem take_succ_all_nil (svcs : List Outcome) (n : Nat) (h : n < svcs.length) :
    (svcs.take (n + 1)).all (· == Outcome.nil) = ((svcs.take n).all (· == Outcome.nil) && (svcs[n] == Outcome.nil)) := by
  rw [List.take_succ_eq_append_getElem h, List.all_append]
  simp

/-- The loop started at `i = n - 1` with `n ≤ len`: no index panic, every index below `n` is
called exactly once in descending order, and the status is failure unless all of them
returned nil. -/
theorem shutdownLoop_spec (svcs : List Outcome) :
    ∀ (n st : Nat) (calls : List Nat), n ≤ svcs.length →
      shutdownLoop true svcs n st calls =
        { calls := calls ++ (List.range n).reverse,
          result := .ok (if (svcs.take n).all (· == Outcome.nil) then st else ExitCodeFailure) } := by
  intro n
  induction n with
  | zero => intro st calls _; simp [shutdownLoop]
  | succ n ih =>
    intro st calls hn
    have hlt : n < svcs.length := by omega
    rw [shutdownLoop, idxSvc_lt svcs n hlt, range_succ_reverse, take_succ_all_nil svcs n hlt]
    cases ho : svcs[n] with
    | nil =>
      simp only [shutdownService]
      rw [ih st (calls ++ [n]) (by omega)]
      simp
    | err =>
      simp only [shutdownService]
      rw [ih ExitCodeFailure (calls ++ [n]) (by omega)]
      simp
    | panic =>
      simp only [shutdownService, if_true]
      rw [ih ExitCodeFailure (calls ++ [n]) (by omega)]
      simp

theorem all_nil_iff (svcs : List Outcome) :
    svcs.all (· == Outcome.nil) = true ↔ ∀ o ∈ svcs, o = Outcome.nil := by
  simp [List.all_eq_true]

/-! ## Part 2 — observations on worker traces -/

/-- all outputs of a grouped trace, in order -/
def flat (tr : List (List Out)) : List Out := tr.flatten

def isLoopRefresh : Out → Bool
  | .refresh (.cons .start) => true
  | _ => false

def isFinalRefresh : Out → Bool
  | .refresh (.cons .shutdown) => true
  | _ => false

def isRefresh : Out → Bool
  | .refresh _ => true
  | _ => false

def isAfter : Out → Bool
  | .after _ => true
  | _ => false

def isUntilNext : Out → Bool
  | .untilNext => true
  | _ => false

/-- the durations handed to `clock.After`, in order -/
def afters (os : List Out) : List Nat := os.filterMap fun | .after d => some d | _ => none

/-- the errors handed to the error handler, in order -/
def handled (os : List Out) : List Nat := os.filterMap fun | .handle _ e => some e | _ => none

/-- what `Shutdown` returned (at most once per call that got past `close`) -/
def shutdownRets (os : List Out) : List Nat := os.filterMap fun | .shutdownReturns e => some e | _ => none

/-- An event can happen in a state: a tick needs an armed timer the loop is waiting on, a
return needs the corresponding call in flight; `Shutdown` can always be called. -/
def enabled (s : St) : Ev → Bool
  | .tick => s.loop == .waiting
  | .refreshReturns .loop _ => s.loop == .refreshing
  | .refreshReturns .shutdown _ => s.fin == .refreshing
  | .shutdown => true

/-- the events of a history that were enabled when they occurred -/
def acceptedFrom (env : Env) (ros : Bool) (s : St) : List Ev → List Ev
  | [] => []
  | e :: es =>
    (if enabled s e then [e] else []) ++ acceptedFrom env ros (step env ros s e).1 es

def accepted (env : Env) (ros : Bool) (evs : List Ev) : List Ev :=
  acceptedFrom env ros (init env).1 evs

/-- error code of a completed loop refresh -/
def loopErr : Ev → Option Nat
  | .refreshReturns .loop e => some e
  | _ => none

/-- error code of a completed final refresh -/
def finalErr : Ev → Option Nat
  | .refreshReturns .shutdown e => some e
  | _ => none

/-- `1` when the last armed timer did not (yet) lead to a refresh: it is pending (`waiting`)
or was cancelled by `done` (`exited`). -/
def pend (s : St) : Nat := if s.loop = .refreshing then 0 else 1

/-- Reachable states satisfy: the loop only blocks in the select while `done` is open, and
`done` is closed exactly when `Shutdown` has been called. -/
def Inv (s : St) : Prop :=
  (s.loop = .waiting → s.closed = false) ∧ (s.fin = .idle ↔ s.closed = false)

/-- after `close(done)`: never waiting again -/
def Closed (s : St) : Prop := s.closed = true ∧ s.loop ≠ .waiting ∧ s.fin ≠ .idle

@[simp] theorem loopErr_tick : loopErr .tick = none := rfl
@[simp] theorem loopErr_shutdown : loopErr .shutdown = none := rfl
@[simp] theorem loopErr_loop (e : Nat) : loopErr (.refreshReturns .loop e) = some e := rfl
@[simp] theorem loopErr_final (e : Nat) : loopErr (.refreshReturns .shutdown e) = none := rfl
@[simp] theorem finalErr_tick : finalErr .tick = none := rfl
@[simp] theorem finalErr_shutdown : finalErr .shutdown = none := rfl
@[simp] theorem finalErr_loop (e : Nat) : finalErr (.refreshReturns .loop e) = none := rfl
@[simp] theorem finalErr_final (e : Nat) : finalErr (.refreshReturns .shutdown e) = some e := rfl

@[simp] theorem isLoopRefresh_start : isLoopRefresh (.refresh (.cons .start)) = true := rfl
@[simp] theorem isLoopRefresh_shut : isLoopRefresh (.refresh (.cons .shutdown)) = false := rfl
@[simp] theorem isLoopRefresh_u : isLoopRefresh .untilNext = false := rfl
@[simp] theorem isLoopRefresh_a (d : Nat) : isLoopRefresh (.after d) = false := rfl
@[simp] theorem isLoopRefresh_h (c : Ctx) (e : Nat) : isLoopRefresh (.handle c e) = false := rfl
@[simp] theorem isLoopRefresh_s (e : Nat) : isLoopRefresh (.shutdownReturns e) = false := rfl
@[simp] theorem isLoopRefresh_p : isLoopRefresh .panicClose = false := rfl
@[simp] theorem isFinalRefresh_start : isFinalRefresh (.refresh (.cons .start)) = false := rfl
@[simp] theorem isFinalRefresh_shut : isFinalRefresh (.refresh (.cons .shutdown)) = true := rfl
@[simp] theorem isFinalRefresh_u : isFinalRefresh .untilNext = false := rfl
@[simp] theorem isFinalRefresh_a (d : Nat) : isFinalRefresh (.after d) = false := rfl
@[simp] theorem isFinalRefresh_h (c : Ctx) (e : Nat) : isFinalRefresh (.handle c e) = false := rfl
@[simp] theorem isFinalRefresh_s (e : Nat) : isFinalRefresh (.shutdownReturns e) = false := rfl
@[simp] theorem isFinalRefresh_p : isFinalRefresh .panicClose = false := rfl
@[simp] theorem isRefresh_r (c : Ctx) : isRefresh (.refresh c) = true := rfl
@[simp] theorem isRefresh_u : isRefresh .untilNext = false := rfl
@[simp] theorem isRefresh_a (d : Nat) : isRefresh (.after d) = false := rfl
@[simp] theorem isRefresh_h (c : Ctx) (e : Nat) : isRefresh (.handle c e) = false := rfl
@[simp] theorem isRefresh_s (e : Nat) : isRefresh (.shutdownReturns e) = false := rfl
@[simp] theorem isRefresh_p : isRefresh .panicClose = false := rfl
@[simp] theorem isAfter_r (c : Ctx) : isAfter (.refresh c) = false := rfl
@[simp] theorem isAfter_u : isAfter .untilNext = false := rfl
@[simp] theorem isAfter_a (d : Nat) : isAfter (.after d) = true := rfl
@[simp] theorem isAfter_h (c : Ctx) (e : Nat) : isAfter (.handle c e) = false := rfl
@[simp] theorem isAfter_s (e : Nat) : isAfter (.shutdownReturns e) = false := rfl
@[simp] theorem isAfter_p : isAfter .panicClose = false := rfl
@[simp] theorem isUntilNext_r (c : Ctx) : isUntilNext (.refresh c) = false := rfl
@[simp] theorem isUntilNext_u : isUntilNext .untilNext = true := rfl
@[simp] theorem isUntilNext_a (d : Nat) : isUntilNext (.after d) = false := rfl
@[simp] theorem isUntilNext_h (c : Ctx) (e : Nat) : isUntilNext (.handle c e) = false := rfl
@[simp] theorem isUntilNext_s (e : Nat) : isUntilNext (.shutdownReturns e) = false := rfl
@[simp] theorem isUntilNext_p : isUntilNext .panicClose = false := rfl

theorem flat_cons (o : List Out) (tr : List (List Out)) : flat (o :: tr) = o ++ flat tr := by
  simp [flat]

theorem flat_nil : flat [] = [] := rfl

/-! ### The loop top -/

/-- every way through `loopTop` of the repaired code -/
theorem loopTop_cases (env : Env) (s : St) :
    ((loopTop true env s).1 = { s with k := s.k + 1, loop := .exited } ∧
        (loopTop true env s).2 = [.untilNext, .after (env.dur s.k)] ∧ s.closed = true) ∨
    ((loopTop true env s).1 = { s with k := s.k + 1, loop := .waiting } ∧
        (loopTop true env s).2 = [.untilNext, .after (env.dur s.k)] ∧ s.closed = false ∧
        env.imm s.k = false) ∨
    ((loopTop true env s).1 = { s with k := s.k + 1, loop := .refreshing } ∧
        (loopTop true env s).2 = [.untilNext, .after (env.dur s.k), .refresh (.cons .start)] ∧
        s.closed = false ∧ env.imm s.k = true) := by
  unfold loopTop selectDoneTimer timerCase refreshStart
  cases hc : s.closed <;> cases hi : env.imm s.k <;> cases hp : env.pick s.k <;> simp [hc]

theorem inv_init (env : Env) : Inv (init env).1 := by
  unfold init initG
  rcases loopTop_cases env { loop := .waiting, closed := false, fin := .idle, k := 0 } with h | h | h <;>
    (rw [h.1]; simp_all [Inv])

theorem inv_step (env : Env) (ros : Bool) (s : St) (ev : Ev) (h : Inv s) : Inv (step env ros s ev).1 := by
  obtain ⟨h1, h2⟩ := h
  cases ev with
  | tick =>
    cases hl : s.loop <;> simp [step, stepG, hl, Inv, timerCase] <;> simp_all
  | refreshReturns c e =>
    cases c with
    | loop =>
      cases hl : s.loop <;> simp only [step, stepG, hl] <;> try exact ⟨by simp_all, h2⟩
      rcases loopTop_cases env s with h | h | h <;> (rw [h.1]; simp_all [Inv])
    | shutdown =>
      cases hf : s.fin <;> simp only [step, stepG, hf] <;> try exact ⟨h1, h2⟩
      refine ⟨h1, ?_⟩
      cases hc : s.closed <;> simp_all
  | shutdown =>
    cases hc : s.closed <;> cases ros <;> cases hl : s.loop <;> simp [step, stepG, hc, hl, Inv, refreshStart]
      <;> simp_all

theorem inv_runFrom (env : Env) (ros : Bool) (evs : List Ev) :
    ∀ s, Inv s → Inv (runFrom env ros s evs).1 := by
  induction evs with
  | nil => intro s h; simpa [runFrom, runFromG] using h
  | cons e es ih =>
    intro s h
    simp only [runFrom, runFromG]
    exact ih _ (inv_step env ros s e h)

theorem closed_step (env : Env) (ros : Bool) (s : St) (ev : Ev) (h : Closed s) :
    Closed (step env ros s ev).1 := by
  obtain ⟨h1, h2, h3⟩ := h
  cases ev with
  | tick => cases hl : s.loop <;> simp_all [step, stepG, Closed, timerCase]
  | refreshReturns c e =>
    cases c with
    | loop =>
      cases hl : s.loop <;> simp only [step, stepG, hl] <;> try exact ⟨h1, by simp_all, h3⟩
      rcases loopTop_cases env s with h | h | h <;> (rw [h.1]; simp_all [Closed])
    | shutdown =>
      cases hf : s.fin <;> simp only [step, stepG, hf] <;> try exact ⟨h1, h2, by simp_all⟩
  | shutdown => simp [step, stepG, h1, Closed, h2, h3]

/-! ### Per-step observations -/

theorem cnt_step (env : Env) (ros : Bool) (s : St) (ev : Ev) (h : Inv s) :
    ((step env ros s ev).2.countP isLoopRefresh) + pend (step env ros s ev).1 =
      ((step env ros s ev).2.countP isAfter) + pend s := by
  cases ev with
  | tick =>
    cases hl : s.loop <;> simp [step, stepG, hl, pend]
    have hc : s.closed = false := h.1 hl
    simp [timerCase, hc, refreshStart, isLoopRefresh, isAfter]
  | refreshReturns c e =>
    cases c with
    | loop =>
      cases hl : s.loop <;> simp [step, stepG, hl, pend]
      rcases loopTop_cases env s with h | h | h <;>
        (rw [h.1]; simp only [List.countP_append]; by_cases he : e = 0 <;>
          simp_all [isLoopRefresh, isAfter, List.countP_cons])
    | shutdown =>
      cases hf : s.fin <;> simp [step, stepG, hf, pend, isLoopRefresh, isAfter]
  | shutdown =>
    cases hc : s.closed <;> cases ros <;> cases hl : s.loop <;>
      simp [step, stepG, hc, hl, pend, refreshStart, isLoopRefresh, isAfter]

theorem handled_step (env : Env) (ros : Bool) (s : St) (ev : Ev) :
    handled (step env ros s ev).2 =
      ((if enabled s ev then [ev] else []).filterMap loopErr).filter (· ≠ 0) := by
  cases ev with
  | tick =>
    cases hl : s.loop <;> simp [step, stepG, hl, handled, enabled, loopErr, timerCase, refreshStart]
    cases hc : s.closed <;> simp
  | refreshReturns c e =>
    cases c with
    | loop =>
      cases hl : s.loop <;> simp [step, stepG, hl, handled, enabled, loopErr]
      rcases loopTop_cases env s with h | h | h <;>
        (rw [h.2.1]; by_cases he : e = 0 <;> simp [he, List.filterMap_append])
    | shutdown =>
      cases hf : s.fin <;> simp [step, stepG, hf, handled, enabled, loopErr]
  | shutdown =>
    cases hc : s.closed <;> cases ros <;>
      simp [step, stepG, hc, handled, enabled, loopErr, refreshStart]

/-- how the schedule is consulted by one event: `UntilNext` is called exactly when a loop
refresh completes, and the very next `After` gets its answer -/
theorem sched_step (env : Env) (ros : Bool) (s : St) (ev : Ev) :
    (step env ros s ev).2.countP isUntilNext = ((if enabled s ev then [ev] else []).filterMap loopErr).length ∧
    (step env ros s ev).1.k = s.k + (step env ros s ev).2.countP isUntilNext ∧
    afters (step env ros s ev).2 = (List.range' s.k ((step env ros s ev).2.countP isUntilNext)).map env.dur := by
  cases ev with
  | tick =>
    cases hl : s.loop <;> simp [step, stepG, hl, enabled, afters, timerCase, refreshStart, List.filterMap_cons]
    cases hc : s.closed <;> simp [List.filterMap_cons]
  | refreshReturns c e =>
    cases c with
    | loop =>
      cases hl : s.loop <;> simp [step, stepG, hl, enabled, afters]
      rcases loopTop_cases env s with h | h | h <;>
        (rw [h.1, h.2.1]; by_cases he : e = 0 <;>
          simp [he, List.filterMap_append, List.countP_append, List.countP_cons, List.range'])
    | shutdown =>
      cases hf : s.fin <;> simp [step, stepG, hf, enabled, afters, List.filterMap_cons]
  | shutdown =>
    cases hc : s.closed <;> cases ros <;>
      simp [step, stepG, hc, enabled, afters, refreshStart, List.filterMap_cons]

/-- once `done` is closed no event starts a refresh; `Shutdown` returns at most once more, with
the error of the final refresh -/
theorem closed_step_obs (env : Env) (ros : Bool) (s : St) (ev : Ev) (h : Closed s) :
    (step env ros s ev).2.countP isRefresh = 0 ∧
    shutdownRets (step env ros s ev).2 =
      (if s.fin = .refreshing then ([ev].filterMap finalErr) else []) ∧
    ((step env ros s ev).1.fin = .refreshing ↔ (s.fin = .refreshing ∧ finalErr ev = none)) := by
  obtain ⟨h1, h2, h3⟩ := h
  cases ev with
  | tick => cases hl : s.loop <;> simp_all [step, stepG, shutdownRets, finalErr, isRefresh]
  | refreshReturns c e =>
    cases c with
    | loop =>
      cases hl : s.loop <;> simp [step, stepG, hl, shutdownRets, finalErr, isRefresh]
      rcases loopTop_cases env s with h | h | h
      · rw [h.1, h.2.1]; by_cases he : e = 0 <;> simp [he, isRefresh]
      · simp_all
      · simp_all
    | shutdown =>
      cases hf : s.fin <;> simp [step, stepG, hf, shutdownRets, finalErr, isRefresh]
  | shutdown => simp [step, stepG, h1, shutdownRets, finalErr, isRefresh]

/-! ### Whole histories (induction over the event list) -/

theorem cnt_runFrom (env : Env) (ros : Bool) (evs : List Ev) :
    ∀ s, Inv s →
      (flat (runFrom env ros s evs).2).countP isLoopRefresh + pend (runFrom env ros s evs).1 =
        (flat (runFrom env ros s evs).2).countP isAfter + pend s := by
  induction evs with
  | nil => intro s _; simp [runFrom, runFromG, flat_nil]
  | cons e es ih =>
    intro s h
    have h1 := cnt_step env ros s e h
    have h2 := ih _ (inv_step env ros s e h)
    simp only [runFrom, runFromG, flat_cons, List.countP_append] at h2 ⊢
    simp only [step] at h1 h2
    omega

theorem refresh_ctx_runFrom (env : Env) (ros : Bool) (evs : List Ev) :
    ∀ s, ∀ o ∈ flat (runFrom env ros s evs).2, isRefresh o = true →
      o = .refresh (.cons .start) ∨ o = .refresh (.cons .shutdown) := by
  induction evs with
  | nil => intro s o ho; simp [runFrom, runFromG, flat_nil] at ho
  | cons e es ih =>
    intro s o ho hr
    simp only [runFrom, runFromG, flat_cons, List.mem_append] at ho
    rcases ho with ho | ho
    · cases e with
      | tick =>
        cases hl : s.loop <;> simp [stepG, hl, timerCase, refreshStart] at ho
        split at ho <;> simp_all
      | refreshReturns c e =>
        cases c with
        | loop =>
          cases hl : s.loop <;> simp only [stepG, hl] at ho <;> try simp at ho
          rcases loopTop_cases env s with h | h | h <;>
            (rw [h.2.1] at ho; by_cases he : e = 0 <;> simp [he] at ho <;>
              rcases ho with rfl | rfl | rfl | rfl <;> simp_all)
        | shutdown =>
          cases hf : s.fin <;> simp [stepG, hf] at ho
          subst ho; simp at hr
      | shutdown =>
        cases hc : s.closed <;> cases ros <;> simp [stepG, hc, refreshStart] at ho <;> subst ho <;> simp_all
    · exact ih _ o ho hr

theorem handled_runFrom (env : Env) (ros : Bool) (evs : List Ev) :
    ∀ s, handled (flat (runFrom env ros s evs).2) =
      ((acceptedFrom env ros s evs).filterMap loopErr).filter (· ≠ 0) := by
  induction evs with
  | nil => intro s; simp [runFrom, runFromG, flat_nil, handled, acceptedFrom]
  | cons e es ih =>
    intro s
    have h1 := handled_step env ros s e
    have h2 := ih (step env ros s e).1
    simp only [runFrom, runFromG, flat_cons, acceptedFrom, List.filterMap_append, List.filter_append] at h2 ⊢
    simp only [handled, List.filterMap_append] at h1 h2 ⊢
    simp only [step] at h1 h2
    rw [h1, h2]

theorem sched_runFrom (env : Env) (ros : Bool) (evs : List Ev) :
    ∀ s, (flat (runFrom env ros s evs).2).countP isUntilNext =
        ((acceptedFrom env ros s evs).filterMap loopErr).length ∧
      (runFrom env ros s evs).1.k = s.k + (flat (runFrom env ros s evs).2).countP isUntilNext ∧
      afters (flat (runFrom env ros s evs).2) =
        (List.range' s.k ((flat (runFrom env ros s evs).2).countP isUntilNext)).map env.dur := by
  induction evs with
  | nil => intro s; simp [runFrom, runFromG, flat_nil, afters, acceptedFrom]
  | cons e es ih =>
    intro s
    obtain ⟨a1, a2, a3⟩ := sched_step env ros s e
    obtain ⟨b1, b2, b3⟩ := ih (step env ros s e).1
    simp only [runFrom, runFromG, flat_cons, List.countP_append, acceptedFrom, List.filterMap_append,
      List.length_append, afters] at b1 b2 b3 ⊢
    simp only [afters] at a3
    simp only [step] at a1 a2 a3 b1 b2 b3 ⊢
    refine ⟨by rw [a1, b1], by omega, ?_⟩
    rw [a3, b3, ← List.map_append, a2, List.range'_append_1]

theorem closed_runFrom (env : Env) (ros : Bool) (evs : List Ev) :
    ∀ s, Closed s →
      (flat (runFrom env ros s evs).2).countP isRefresh = 0 ∧
      shutdownRets (flat (runFrom env ros s evs).2) =
        (if s.fin = .refreshing then (evs.filterMap finalErr).take 1 else []) := by
  induction evs with
  | nil => intro s _; simp [runFrom, runFromG, flat_nil, shutdownRets]
  | cons e es ih =>
    intro s h
    obtain ⟨a1, a2, a3⟩ := closed_step_obs env ros s e h
    obtain ⟨b1, b2⟩ := ih _ (closed_step env ros s e h)
    simp only [step] at a1 a2 a3 b1 b2
    simp only [runFrom, runFromG, flat_cons, List.countP_append, shutdownRets, List.filterMap_append] at b1 b2 ⊢
    simp only [shutdownRets] at a2
    refine ⟨by omega, ?_⟩
    rw [a2, b2]
    by_cases hf : s.fin = .refreshing
    · cases hfe : finalErr e with
      | none =>
        have : (stepG true env ros s e).1.fin = .refreshing := a3.2 ⟨hf, hfe⟩
        simp [hf, hfe, this]
      | some x =>
        have : ¬ (stepG true env ros s e).1.fin = .refreshing := fun hh => by
          have := (a3.1 hh).2; simp [hfe] at this
        simp [hf, hfe, this]
    · have : ¬ (stepG true env ros s e).1.fin = .refreshing := fun hh => hf (a3.1 hh).1
      simp [hf, this]

end GolibsVerif.C18
