/- Helper lemmas about checked indexing / slicing (`GoM.idx`, `GoM.slice`). -/
import GolibsVerif.Go.Basic

namespace GolibsVerif.GoM

@[simp] theorem idx_zero_cons (a : Nat) (t : Bytes) : idx (a :: t) 0 = .ok a := by
  simp [idx]

theorem idx_ofNat_lt (s : Bytes) (i : Nat) (h : i < s.length) : idx s (i : Int) = .ok s[i] := by
  simp [idx, h]

theorem idx_ofNat_ge (s : Bytes) (i : Nat) (h : s.length ≤ i) :
    idx s (i : Int) = .error (.indexOutOfRange i s.length) := by
  simp [idx, List.getElem?_eq_none h]

theorem idx_neg (s : Bytes) (i : Int) (h : i < 0) :
    idx s i = .error (.indexOutOfRange i s.length) := by
  simp [idx, h]

/-- last byte of `a :: (mid ++ [z])` -/
theorem idx_last_snoc (a : Nat) (mid : Bytes) (z : Nat) :
    idx (a :: (mid ++ [z])) (((a :: (mid ++ [z])).length : Int) - 1) = .ok z := by
  have : (((a :: (mid ++ [z])).length : Int) - 1) = ((mid.length + 1 : Nat) : Int) := by
    simp
  rw [this, idx_ofNat_lt _ _ (by simp)]
  simp

theorem slice_ofNat (s : Bytes) (lo hi : Nat) (h1 : lo ≤ hi) (h2 : hi ≤ s.length) :
    slice s (lo : Int) (hi : Int) = .ok ((s.drop lo).take (hi - lo)) := by
  unfold slice
  have : (0 : Int) ≤ lo ∧ (lo : Int) ≤ hi ∧ (hi : Int) ≤ s.length := by omega
  simp [this]

/-- `l[1:len(l)-1]` of `a :: (mid ++ [z])` is `mid` -/
theorem slice_mid_snoc (a : Nat) (mid : Bytes) (z : Nat) :
    slice (a :: (mid ++ [z])) 1 (((a :: (mid ++ [z])).length : Int) - 1) = .ok mid := by
  have : (((a :: (mid ++ [z])).length : Int) - 1) = ((mid.length + 1 : Nat) : Int) := by
    simp
  rw [this]
  have h := slice_ofNat (a :: (mid ++ [z])) 1 (mid.length + 1) (by omega) (by simp)
  rw [show ((1 : Nat) : Int) = 1 from rfl] at h
  rw [h]
  simp

theorem sliceFrom_one_cons (a : Nat) (t : Bytes) : sliceFrom (a :: t) 1 = .ok t := by
  unfold sliceFrom
  have h := slice_ofNat (a :: t) 1 (a :: t).length (by simp) (by simp)
  rw [show ((1 : Nat) : Int) = 1 from rfl] at h
  rw [h]; simp

/-- every non-empty list with at least two elements is `a :: (mid ++ [z])` -/
theorem exists_cons_snoc (a b : Nat) (t : Bytes) : ∃ mid z, a :: b :: t = a :: (mid ++ [z]) := by
  refine ⟨(b :: t).dropLast, (b :: t).getLast (by simp), ?_⟩
  rw [List.dropLast_concat_getLast]

end GolibsVerif.GoM
