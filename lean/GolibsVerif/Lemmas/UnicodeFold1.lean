/-
Contract FOLD-1 (`C13.Fold1`, `Spec/C13.lean`) as a theorem about the model
`Unicode.simpleFold` of Go's `unicode.SimpleFold` over the tables regenerated from the
toolchain's `src/unicode/tables.go`: `fold1_model`, for all runes `a : Nat`.

* A rune that is not ASCII, not a `caseOrbit` key and in no `CaseRange` is a fixed point
  (`simpleFold_cases`, a proof about the two binary searches for every `Nat`).
* On the remaining ≈ 3000 runes the Lean kernel evaluates the model
  (`Lemmas/UnicodeEval0…3.lean`).
-/
import GolibsVerif.Spec.C13
import GolibsVerif.Lemmas.Unicode
import GolibsVerif.Lemmas.UnicodeEval0
import GolibsVerif.Lemmas.UnicodeEval1
import GolibsVerif.Lemmas.UnicodeEval2
import GolibsVerif.Lemmas.UnicodeEval3

namespace GolibsVerif.Unicode
open GolibsVerif.Gen.UniFold
open GolibsVerif.C13 (Fold1 iter lowerASCII orbitFuel orbitMem orbitMem_of_iter iter_of_orbitMem)

/-- the period check holds on every range of `CaseRanges` (the 16 pieces put together) -/
theorem periodOk_caseRanges : caseRanges.all (rangeOk periodOk) = true := by
  refine restAll_zero ?_
  have h := periodOk_piece15
  have h := restAll_step periodOk_piece14 h
  have h := restAll_step periodOk_piece13 h
  have h := restAll_step periodOk_piece12 h
  have h := restAll_step periodOk_piece11 h
  have h := restAll_step periodOk_piece10 h
  have h := restAll_step periodOk_piece9 h
  have h := restAll_step periodOk_piece8 h
  have h := restAll_step periodOk_piece7 h
  have h := restAll_step periodOk_piece6 h
  have h := restAll_step periodOk_piece5 h
  have h := restAll_step periodOk_piece4 h
  have h := restAll_step periodOk_piece3 h
  have h := restAll_step periodOk_piece2 h
  have h := restAll_step periodOk_piece1 h
  exact restAll_step periodOk_piece0 h

/-- every `SimpleFold` cycle has at most `orbitFuel` members -/
theorem simpleFold_period (a : Nat) : ∃ n, 0 < n ∧ n ≤ orbitFuel ∧ iter simpleFold n a = a := by
  rcases simpleFold_cases a with h | h
  · exact ⟨1, by decide, by decide, h⟩
  · exact periodOk_spec (special_spec periodOk_ascii periodOk_orbitKeys periodOk_caseRanges a h)

/-- **FOLD-1 holds for the model of `unicode.SimpleFold`.** -/
theorem fold1_model : Fold1 simpleFold where
  period := simpleFold_period
  fffd := simpleFold_fffd
  ascii := by
    intro a b ha hb
    have hA := rangeAll_spec _ _ asciiOk_all a (by omega) (by omega)
    rw [← asciiOk_spec hA ha hb]
    exact ⟨fun ⟨n, hn⟩ => orbitMem_of_iter (simpleFold_period a) n b hn, iter_of_orbitMem⟩

end GolibsVerif.Unicode
