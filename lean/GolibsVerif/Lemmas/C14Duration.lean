/-
C14 — lemmas about the model of `time.Duration.String` and the suffix cuts of
`timeutil.Duration.String`.
-/
import GolibsVerif.Model.C14
import GolibsVerif.Spec.C14

namespace GolibsVerif.C14

/-! ### decimal digits -/

theorem decLoop_zero (tail : Bytes) : decLoop 0 tail = tail := by
  rw [decLoop]; simp

theorem decLoop_pos {v : Nat} (h : v ≠ 0) (tail : Bytes) :
    decLoop v tail = decLoop (v / 10) ((v % 10 + 48) :: tail) := by
  rw [decLoop]; simp [h]

/-- the digits of `v` (most significant first; none for `0`) -/
def digits (v : Nat) : Bytes := decLoop v []

theorem decLoop_eq (v : Nat) (tail : Bytes) : decLoop v tail = digits v ++ tail := by
  induction v using Nat.strongRecOn generalizing tail with
  | _ v ih =>
    by_cases h : v = 0
    · subst h; simp [digits, decLoop_zero]
    · have hlt : v / 10 < v := by omega
      rw [digits, decLoop_pos h, decLoop_pos h, ih _ hlt, ih _ hlt]
      simp

theorem digits_zero : digits 0 = [] := by simp [digits, decLoop_zero]

theorem digits_pos {v : Nat} (h : v ≠ 0) : digits v = digits (v / 10) ++ [v % 10 + 48] := by
  rw [digits, decLoop_pos h, decLoop_eq]

/-- the text of `fmtInt`: `"0"` for zero, else the digits -/
def intText (v : Nat) : Bytes := if v = 0 then [48] else digits v

theorem fmtInt_eq (tail : Bytes) (v : Nat) : fmtInt tail v = intText v ++ tail := by
  unfold fmtInt intText
  by_cases h : v = 0
  · simp [h]
  · simp [h, decLoop_eq]

/-- `intText v` ends with the last digit; when `v ≥ 10` the byte before it is a digit too. -/
theorem intText_last (v : Nat) :
    ∃ pre, intText v = pre ++ [v % 10 + 48] ∧ (v < 10 → pre = []) ∧
      (10 ≤ v → ∃ pre', pre = pre' ++ [v / 10 % 10 + 48]) := by
  unfold intText
  by_cases h : v = 0
  · subst h; exact ⟨[], by simp, by simp, by omega⟩
  · simp only [h, if_false]
    refine ⟨digits (v / 10), digits_pos h, ?_, ?_⟩
    · intro hlt
      have : v / 10 = 0 := by omega
      rw [this, digits_zero]
    · intro hge
      have h10 : v / 10 ≠ 0 := by omega
      exact ⟨_, digits_pos h10⟩

/-! ### fmtFrac -/

theorem fmtFracLoop_spec (prec : Nat) : ∀ (v : Nat) (print : Bool) (tail : Bytes),
    ∃ pre, (fmtFracLoop prec v print tail).1 = pre ++ tail ∧
      (fmtFracLoop prec v print tail).2.1 = v / 10 ^ prec ∧
      (print = true → (fmtFracLoop prec v print tail).2.2 = true) ∧
      (print = false → v % 10 ^ prec = 0 → pre = [] ∧ (fmtFracLoop prec v print tail).2.2 = false) ∧
      (print = false → v % 10 ^ prec ≠ 0 →
        (fmtFracLoop prec v print tail).2.2 = true ∧ ∃ pre' c, pre = pre' ++ [c] ∧ c ≠ 48) := by
  induction prec with
  | zero =>
    intro v print tail
    refine ⟨[], by simp [fmtFracLoop], by simp [fmtFracLoop], by simp [fmtFracLoop], by intro h _; simp [fmtFracLoop, h], ?_⟩
    intro _ h; simp [Nat.mod_one] at h
  | succ p ih =>
    intro v print tail
    have hdiv : v / 10 / 10 ^ p = v / 10 ^ (p + 1) := by
      rw [Nat.div_div_eq_div_mul, Nat.pow_succ, Nat.mul_comm]
    have hmod : v % 10 ^ (p + 1) = v % 10 + 10 * (v / 10 % 10 ^ p) := by
      rw [Nat.pow_succ, Nat.mul_comm, Nat.mod_mul]
    simp only [fmtFracLoop]
    cases print with
    | true =>
      obtain ⟨pre, h1, h2, h3, -, -⟩ := ih (v / 10) true ((v % 10 + 48) :: tail)
      simp only [Bool.true_or, if_true]
      refine ⟨pre ++ [v % 10 + 48], by rw [h1]; simp, by rw [h2, hdiv], fun _ => h3 rfl, by simp, by simp⟩
    | false =>
      by_cases hd : v % 10 = 0
      · obtain ⟨pre, h1, h2, -, h4, h5⟩ := ih (v / 10) false tail
        simp only [hd, Bool.false_or, bne_self_eq_false, Bool.false_eq_true, if_false]
        refine ⟨pre, h1, by rw [h2, hdiv], by simp, ?_, ?_⟩
        · intro _ hz
          exact h4 rfl (by omega)
        · intro _ hnz
          exact h5 rfl (by omega)
      · obtain ⟨pre, h1, h2, h3, -, -⟩ := ih (v / 10) true ((v % 10 + 48) :: tail)
        have hb : (v % 10 != 0) = true := by simp [hd]
        simp only [Bool.false_or, hb, if_true]
        refine ⟨pre ++ [v % 10 + 48], by rw [h1]; simp, by rw [h2, hdiv], by simp, ?_, ?_⟩
        · intro _ hz; omega
        · intro _ _
          exact ⟨h3 rfl, pre, v % 10 + 48, rfl, by omega⟩

/-- `fmtFrac`: the new tail is `frac ++ tail`, `frac` is empty exactly when the fraction is
zero and otherwise ends in a non-zero digit; the value returned is `v / 10^prec`. -/
theorem fmtFrac_spec (tail : Bytes) (v prec : Nat) :
    ∃ frac, (fmtFrac tail v prec).1 = frac ++ tail ∧ (fmtFrac tail v prec).2 = v / 10 ^ prec ∧
      (v % 10 ^ prec = 0 → frac = []) ∧
      (v % 10 ^ prec ≠ 0 → ∃ pre c, frac = pre ++ [c] ∧ c ≠ 48) := by
  obtain ⟨pre, h1, h2, -, h4, h5⟩ := fmtFracLoop_spec prec v false tail
  unfold fmtFrac
  by_cases hz : v % 10 ^ prec = 0
  · obtain ⟨hp, hf⟩ := h4 rfl hz
    refine ⟨[], ?_, h2, fun _ => rfl, fun h => absurd hz h⟩
    simp [hf, h1, hp]
  · obtain ⟨hf, pre', c, hp, hc⟩ := h5 rfl hz
    refine ⟨46 :: pre, ?_, h2, fun h => absurd h hz, fun _ => ⟨46 :: pre', c, by simp [hp], hc⟩⟩
    simp [hf, h1]

/-! ### suffix cuts -/

theorem not_suffix3_of_last2 {x y z a b : Nat} (pre : Bytes) (h : ¬ (y = a ∧ z = b)) :
    ¬ ([x, y, z] <:+ pre ++ [a, b]) := by
  rintro ⟨t, ht⟩
  have := congrArg List.reverse ht
  simp at this
  exact h ⟨this.2.1, this.1⟩

theorem not_suffix3_of_last3 {x y z a b c : Nat} (pre : Bytes) (h : ¬ (x = a ∧ y = b ∧ z = c)) :
    ¬ ([x, y, z] <:+ pre ++ [a, b, c]) := by
  rintro ⟨t, ht⟩
  have := congrArg List.reverse ht
  simp at this
  exact h ⟨this.2.2.1, this.2.1, this.1⟩

theorem cut2If_no {suf s : Bytes} (h : ¬ suf <:+ s) : cut2If suf s = s := by
  simp [cut2If, h]

theorem cut2If_yes (pre : Bytes) (x y z : Nat) : cut2If [x, y, z] (pre ++ [x, y, z]) = pre ++ [x] := by
  have hs : [x, y, z] <:+ pre ++ [x, y, z] := List.suffix_append _ _
  have : pre ++ [x, y, z] = (pre ++ [x]) ++ [y, z] := by simp
  rw [cut2If, if_pos hs, this, List.take_left']
  simp

/-- either nothing is cut, or `s = s' ++ [y, z]` with `s'` ending in `x` and the result is `s'` -/
theorem cut2If_cases (x y z : Nat) (s : Bytes) :
    cut2If [x, y, z] s = s ∨
      ∃ s', s = s' ++ [y, z] ∧ s'.getLast? = some x ∧ cut2If [x, y, z] s = s' := by
  by_cases h : [x, y, z] <:+ s
  · right
    obtain ⟨t, rfl⟩ := h
    refine ⟨t ++ [x], by simp, by simp, ?_⟩
    exact cut2If_yes t x y z
  · left; exact cut2If_no h

/-- `GoM.sliceTo` with the length minus the length of a suffix -/
theorem sliceTo_drop_suffix (pre suf : Bytes) (k : Int) (hk : k = suf.length) :
    GoM.sliceTo (pre ++ suf) (((pre ++ suf).length : Int) - k) = .ok pre := by
  subst hk
  unfold GoM.sliceTo GoM.slice
  have h1 : ((pre ++ suf).length : Int) - (suf.length : Int) = (pre.length : Int) := by
    simp [List.length_append]
  rw [h1]
  have hc : (0 : Int) ≤ 0 ∧ (0 : Int) ≤ (pre.length : Int) ∧ (pre.length : Int) ≤ ((pre ++ suf).length : Nat) := by
    refine ⟨Int.le_refl _, Int.natCast_nonneg _, ?_⟩
    simp only [List.length_append]
    omega
  rw [if_pos hc]
  simp

/-! ### the shape of `time.Duration.String` -/

/-- hours and minutes groups for `S` whole seconds -/
def hmText (S : Nat) : Bytes :=
  if S / 60 > 0 then
    (if S / 60 / 60 > 0 then intText (S / 60 / 60) ++ [104] else []) ++ (intText (S / 60 % 60) ++ [109])
  else []

theorem stdString_big (d : Int) (h : second ≤ d.natAbs) :
    ∃ frac, (d.natAbs % 10 ^ 9 = 0 → frac = []) ∧
      (d.natAbs % 10 ^ 9 ≠ 0 → ∃ pre c, frac = pre ++ [c] ∧ c ≠ 48) ∧
      stdString d = signBytes d ++ (hmText (d.natAbs / 10 ^ 9) ++
        (intText (d.natAbs / 10 ^ 9 % 60) ++ (frac ++ [115]))) := by
  obtain ⟨frac, h1, h2, h3, h4⟩ := fmtFrac_spec [115] d.natAbs 9
  refine ⟨frac, h3, h4, ?_⟩
  have hn : ¬ d.natAbs < second := by omega
  unfold stdString
  simp only [hn, if_false, h1, h2, fmtInt_eq, hmText]
  by_cases hm : d.natAbs / 10 ^ 9 / 60 > 0
  · simp only [hm, if_true]
    by_cases hh : d.natAbs / 10 ^ 9 / 60 / 60 > 0
    · simp [hh]
    · simp [hh]
  · simp [hm]

theorem stdString_small (d : Int) (h : d.natAbs < second) (h0 : d.natAbs ≠ 0) :
    ∃ pre a, stdString d = pre ++ [a, 115] ∧ a ≠ 48 := by
  unfold stdString
  simp only [h, if_true, h0, if_false]
  by_cases h1 : d.natAbs < 1000
  · obtain ⟨frac, e1, -, -, -⟩ := fmtFrac_spec [110, 115] d.natAbs 0
    simp only [h1, if_true, fmtInt_eq, e1]
    exact ⟨signBytes d ++ (intText (fmtFrac [110, 115] d.natAbs 0).2 ++ frac), 110, by simp, by decide⟩
  · by_cases h2 : d.natAbs < 1000000
    · obtain ⟨frac, e1, -, -, -⟩ := fmtFrac_spec [0xC2, 0xB5, 115] d.natAbs 3
      simp only [h1, h2, if_true, if_false, fmtInt_eq, e1]
      exact ⟨signBytes d ++ (intText (fmtFrac [0xC2, 0xB5, 115] d.natAbs 3).2 ++ (frac ++ [0xC2])), 0xB5, by simp, by decide⟩
    · obtain ⟨frac, e1, -, -, -⟩ := fmtFrac_spec [109, 115] d.natAbs 6
      simp only [h1, h2, if_false, fmtInt_eq, e1]
      exact ⟨signBytes d ++ (intText (fmtFrac [109, 115] d.natAbs 6).2 ++ frac), 109, by simp, by decide⟩

/-! ### the truncating arithmetic of `Duration.String` in terms of `|d|` -/

theorem tdiv_nat (u k : Nat) : (u : Int).tdiv (k : Int) = ((u / k : Nat) : Int) := (Int.ofNat_tdiv u k).symm
theorem tmod_nat (u k : Nat) : (u : Int).tmod (k : Int) = ((u % k : Nat) : Int) := (Int.ofNat_tmod u k).symm

theorem duration_conds (d : Int) (hd : inInt64 d) :
    (d.tdiv 1000000000 = 0 ↔ d.natAbs / 10 ^ 9 = 0) ∧
    (wrap64 (d.tdiv 1000000000 * 1000000000) ≠ d ↔ d.natAbs % 10 ^ 9 ≠ 0) ∧
    ((d.tdiv 1000000000).tmod 60 ≠ 0 ↔ d.natAbs / 10 ^ 9 % 60 ≠ 0) ∧
    (((d.tdiv 1000000000).tmod 3600).tdiv 60 ≠ 0 ↔ d.natAbs / 10 ^ 9 / 60 % 60 ≠ 0) := by
  unfold inInt64 at hd
  have e9 : (10 : Nat) ^ 9 = 1000000000 := by decide
  rw [e9]
  unfold wrap64
  rcases Int.eq_nat_or_neg d with ⟨u, rfl | rfl⟩
  · have t1 : (u : Int).tdiv 1000000000 = ((u / 1000000000 : Nat) : Int) := tdiv_nat u 1000000000
    have t2 : ((u / 1000000000 : Nat) : Int).tmod 60 = ((u / 1000000000 % 60 : Nat) : Int) := tmod_nat _ 60
    have t3 : ((u / 1000000000 : Nat) : Int).tmod 3600 = ((u / 1000000000 % 3600 : Nat) : Int) := tmod_nat _ 3600
    have t4 : ((u / 1000000000 % 3600 : Nat) : Int).tdiv 60 = ((u / 1000000000 % 3600 / 60 : Nat) : Int) := tdiv_nat _ 60
    rw [t1, t2, t3, t4, Int.natAbs_natCast]
    omega
  · have t1 : (-(u : Int)).tdiv 1000000000 = -((u / 1000000000 : Nat) : Int) := by
      rw [Int.neg_tdiv]; exact congrArg _ (tdiv_nat u 1000000000)
    have t2 : (-((u / 1000000000 : Nat) : Int)).tmod 60 = -((u / 1000000000 % 60 : Nat) : Int) := by
      rw [Int.neg_tmod]; exact congrArg _ (tmod_nat _ 60)
    have t3 : (-((u / 1000000000 : Nat) : Int)).tmod 3600 = -((u / 1000000000 % 3600 : Nat) : Int) := by
      rw [Int.neg_tmod]; exact congrArg _ (tmod_nat _ 3600)
    have t4 : (-((u / 1000000000 % 3600 : Nat) : Int)).tdiv 60 = -((u / 1000000000 % 3600 / 60 : Nat) : Int) := by
      rw [Int.neg_tdiv]; exact congrArg _ (tdiv_nat _ 60)
    rw [t1, t2, t3, t4, Int.natAbs_neg, Int.natAbs_natCast]
    omega

/-! ### `stripRedundant` on the shapes that occur -/

theorem strip_noop_2 (pre : Bytes) (a : Nat) (ha : a ≠ 48) :
    stripRedundant (pre ++ [a, 115]) = pre ++ [a, 115] := by
  unfold stripRedundant
  rw [cut2If_no (not_suffix3_of_last2 pre (by intro h; exact ha h.1.symm))]
  exact cut2If_no (not_suffix3_of_last2 pre (by intro h; exact absurd h.2 (by decide)))

theorem strip_noop_3 (pre : Bytes) (a b : Nat) (ha : a ≠ 109) :
    stripRedundant (pre ++ [a, b, 115]) = pre ++ [a, b, 115] := by
  unfold stripRedundant
  rw [cut2If_no (not_suffix3_of_last3 pre (by intro h; exact ha h.1.symm))]
  exact cut2If_no (not_suffix3_of_last3 pre (by intro h; exact absurd h.2.2 (by decide)))

/-- a non-zero number below 60 followed by `unit`: the two or three last bytes -/
theorem intText_unit_shape (v : Nat) (hv : v ≠ 0) (hlt : v < 60) (X : Bytes) (unit : Nat) :
    (∃ b, b ≠ 48 ∧ X ++ (intText v ++ [unit]) = X ++ [b, unit]) ∨
    (∃ pre a b, a ≤ 57 ∧ X ++ (intText v ++ [unit]) = pre ++ [a, b, unit]) := by
  obtain ⟨pre, e, hs, hl⟩ := intText_last v
  by_cases h10 : v < 10
  · left
    refine ⟨v % 10 + 48, by omega, ?_⟩
    rw [e, hs h10]; simp
  · right
    obtain ⟨pre', hp⟩ := hl (by omega)
    refine ⟨X ++ pre', v / 10 % 10 + 48, v % 10 + 48, by omega, ?_⟩
    rw [e, hp]; simp

/-- The whole of `Duration.String` against the reference rendering. -/
theorem durationString_eq (d : Int) (hd : inInt64 d) :
    durationString d = .ok (stripRedundant (stdString d)) := by
  obtain ⟨c1, c2, c3, c4⟩ := duration_conds d hd
  have e9 : (10 : Nat) ^ 9 = second := by decide
  unfold durationString
  simp only [c1, c2, c3, c4]
  by_cases hA : d.natAbs / 10 ^ 9 = 0 ∨ d.natAbs % 10 ^ 9 ≠ 0 ∨ d.natAbs / 10 ^ 9 % 60 ≠ 0
  · -- nothing is cut
    rw [if_pos hA]
    show Except.ok (stdString d) = Except.ok (stripRedundant (stdString d))
    congr 1
    by_cases hS : d.natAbs / 10 ^ 9 = 0
    · have hlt : d.natAbs < second := by rw [← e9]; omega
      by_cases h0 : d.natAbs = 0
      · have : stdString d = [48, 115] := by
          unfold stdString; simp [h0, second]
        rw [this]; decide
      · obtain ⟨pre, a, e, ha⟩ := stdString_small d hlt h0
        rw [e, strip_noop_2 pre a ha]
    · have hge : second ≤ d.natAbs := by rw [← e9]; omega
      obtain ⟨frac, f0, f1, e⟩ := stdString_big d hge
      by_cases hf : d.natAbs % 10 ^ 9 = 0
      · have hs60 : d.natAbs / 10 ^ 9 % 60 ≠ 0 := by
          rcases hA with h | h | h
          · exact absurd h hS
          · exact absurd hf h
          · exact h
        rw [e, f0 hf, List.nil_append]
        rcases intText_unit_shape (d.natAbs / 10 ^ 9 % 60) hs60 (by omega)
            (signBytes d ++ hmText (d.natAbs / 10 ^ 9)) 115 with ⟨b, hb, eb⟩ | ⟨pre, a, b, ha, eb⟩
        · have : signBytes d ++ (hmText (d.natAbs / 10 ^ 9) ++ (intText (d.natAbs / 10 ^ 9 % 60) ++ [115]))
              = (signBytes d ++ hmText (d.natAbs / 10 ^ 9)) ++ [b, 115] := by
            rw [← eb]; simp
          rw [this, strip_noop_2 _ b hb]
        · have : signBytes d ++ (hmText (d.natAbs / 10 ^ 9) ++ (intText (d.natAbs / 10 ^ 9 % 60) ++ [115]))
              = pre ++ [a, b, 115] := by
            rw [← eb]; simp
          rw [this, strip_noop_3 _ a b (by omega)]
      · obtain ⟨pre, c, ef, hc⟩ := f1 hf
        have : signBytes d ++ (hmText (d.natAbs / 10 ^ 9) ++ (intText (d.natAbs / 10 ^ 9 % 60) ++ (frac ++ [115])))
            = (signBytes d ++ (hmText (d.natAbs / 10 ^ 9) ++ (intText (d.natAbs / 10 ^ 9 % 60) ++ pre))) ++ [c, 115] := by
          rw [ef]; simp
        rw [e, this, strip_noop_2 _ c hc]
  · -- whole minutes: `0s` is cut, and `0m` too when the minutes are zero
    rw [if_neg hA]
    have hS : d.natAbs / 10 ^ 9 ≠ 0 := fun h => hA (Or.inl h)
    have hf : d.natAbs % 10 ^ 9 = 0 := by
      apply Classical.byContradiction; intro h; exact hA (Or.inr (Or.inl h))
    have hs60 : d.natAbs / 10 ^ 9 % 60 = 0 := by
      apply Classical.byContradiction; intro h; exact hA (Or.inr (Or.inr h))
    have hge : second ≤ d.natAbs := by rw [← e9]; omega
    obtain ⟨frac, f0, -, e⟩ := stdString_big d hge
    have hM : d.natAbs / 10 ^ 9 / 60 > 0 := by omega
    have i0 : intText 0 = [48] := by simp [intText]
    rw [f0 hf, hs60, i0] at e
    have eB : stdString d = (signBytes d ++ (if d.natAbs / 10 ^ 9 / 60 / 60 > 0
          then intText (d.natAbs / 10 ^ 9 / 60 / 60) ++ [104] else [])) ++
          (intText (d.natAbs / 10 ^ 9 / 60 % 60) ++ [109, 48, 115]) := by
      rw [e, hmText, if_pos hM]; simp
    by_cases hm : d.natAbs / 10 ^ 9 / 60 % 60 ≠ 0
    · rw [if_pos hm]
      generalize signBytes d ++ (if d.natAbs / 10 ^ 9 / 60 / 60 > 0
          then intText (d.natAbs / 10 ^ 9 / 60 / 60) ++ [104] else []) = X at eB
      generalize hv : d.natAbs / 10 ^ 9 / 60 % 60 = v at eB hm
      have hvlt : v < 60 := by omega
      have e1 : stdString d = (X ++ (intText v ++ [109])) ++ [48, 115] := by rw [eB]; simp
      have e2 : stdString d = (X ++ intText v) ++ [109, 48, 115] := by rw [eB]; simp
      have e3 : (X ++ intText v) ++ [109] = X ++ (intText v ++ [109]) := by simp
      have hsl : GoM.sliceTo (stdString d) (((stdString d).length : Int) - 2)
          = .ok (X ++ (intText v ++ [109])) := by
        rw [e1]; exact sliceTo_drop_suffix _ _ 2 rfl
      rw [hsl]
      congr 1
      unfold stripRedundant
      rw [e2, cut2If_yes, e3]
      rcases intText_unit_shape v hm hvlt X 109 with ⟨b, hb, eb⟩ | ⟨pre, a, b, ha, eb⟩
      · rw [eb]
        exact (cut2If_no (not_suffix3_of_last2 X (by intro h; exact hb h.1.symm))).symm
      · rw [eb]
        exact (cut2If_no (not_suffix3_of_last3 pre (by intro h; omega))).symm
    · rw [if_neg hm]
      have hm0 : d.natAbs / 10 ^ 9 / 60 % 60 = 0 := by omega
      have hH : d.natAbs / 10 ^ 9 / 60 / 60 > 0 := by omega
      rw [hm0, i0, if_pos hH] at eB
      have eB' : stdString d = (signBytes d ++ intText (d.natAbs / 10 ^ 9 / 60 / 60)) ++ [104, 48, 109, 48, 115] := by
        rw [eB]; simp
      clear eB
      generalize signBytes d ++ intText (d.natAbs / 10 ^ 9 / 60 / 60) = P at eB'
      have eB := eB'
      have e1 : stdString d = (P ++ [104]) ++ [48, 109, 48, 115] := by
        rw [eB]; simp
      have e2 : stdString d = (P ++ [104, 48]) ++ [109, 48, 115] := by rw [eB]; simp
      have e3 : (P ++ [104, 48]) ++ [109] = P ++ [104, 48, 109] := by simp
      have hsl : GoM.sliceTo (stdString d) (((stdString d).length : Int) - 4) = .ok (P ++ [104]) := by
        rw [e1]; exact sliceTo_drop_suffix _ _ 4 rfl
      rw [hsl]
      congr 1
      unfold stripRedundant
      rw [e2, cut2If_yes, e3, cut2If_yes]

end GolibsVerif.C14
