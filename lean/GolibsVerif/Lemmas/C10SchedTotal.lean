/-
C10 — the scheduled-script interpreter never fails: for every configuration `New` accepts and
every script, `runSched` returns (no modelled panic, the fuel of its loops always suffices).
-/
import GolibsVerif.Lemmas.C10Progress
import GolibsVerif.Lemmas.C10Sched

namespace GolibsVerif.C10
open GolibsVerif.C09

/-! ### the step functions are total on reachable states -/

theorem frameHead_total {c : Conf} (ok : ConfOk c) {σ : FSt} (hinv : Inv c σ.cache)
    (hok : FramesOk c σ) {i : Nat} {f : Frame} (hf : σ.frames[i]? = some f)
    (hh : f.atLoopHead c σ.cache) : ∃ σ' ev, frameHead c σ i f = .ok (σ', ev) := by
  obtain ⟨hadd, hor⟩ := atLoopHead_ok (hok i f hf) hh
  obtain ⟨hev, ⟨s2, r2, hcm⟩, _, _⟩ := sections_total ok hinv f.key f.val
  unfold frameHead
  cases hfull : full c σ.cache f.add with
  | true =>
    have hl : c.lru = true := by
      rcases hor with h1 | h1
      · exact h1
      · rw [hfull] at h1; cases h1
    obtain ⟨s', e, he⟩ := hev f.add hl hadd hfull
    simp [he]
  | false => simp [hcm]

theorem frameSec_total {c : Conf} (ok : ConfOk c) {σ : FSt} (hinv : Inv c σ.cache)
    (hok : FramesOk c σ) {i : Nat} {f : Frame} (hf : σ.frames[i]? = some f)
    (hnd : f.phase ≠ .done) : ∃ σ' ev, frameSec c σ i = .ok (σ', ev) := by
  unfold frameSec
  rw [hf]
  simp only
  cases hp : f.phase with
  | start =>
    simp only
    by_cases hc : setCheck c σ.cache f.key f.val = .proceed
    · simp only [hc, if_true]
      exact frameHead_total ok hinv hok hf (Or.inl ⟨hp, hc⟩)
    · simp [hc]
  | loop => exact frameHead_total ok hinv hok hf (Or.inr hp)
  | cb k v => exact ⟨_, _, rfl⟩
  | done => exact absurd hp hnd

/-- what `doSec` does for a running `Set` -/
theorem doSec_set {c : Conf} {σ σ1 : KSt} {id i : Nat} {k v : Bytes} {ev : Ev}
    (hc : σ.calls[id]? = some ⟨.set k v, .running (some i)⟩)
    (h : doSec c σ id = .ok (σ1, ev)) :
    σ1.calls = σ.calls.set id ⟨.set k v, statusAfter (some i) ev⟩ ∧
    FStep c σ.f (.sec (some i) ev) σ1.f := by
  unfold doSec at h
  rw [hc] at h
  simp only at h
  split at h
  · next f' ev' hf =>
    injection h with h; injection h with h1 h2; subst h1; subst h2
    exact ⟨rfl, frameSec_fstep hf⟩
  · cases h

theorem doSec_set_total {c : Conf} (ok : ConfOk c) {s : Sched} (hok : s.Ok c) {id i : Nat}
    {k v : Bytes} (hc : s.σ.calls[id]? = some ⟨.set k v, .running (some i)⟩) :
    ∃ σ1 ev, doSec c s.σ id = .ok (σ1, ev) := by
  obtain ⟨hinv, hfok⟩ := ctrace_inv hok
  obtain ⟨f, hf, hnd, _⟩ := (callFrames_reachable hok).own id _ i hc
  obtain ⟨f', ev, hfs⟩ := frameSec_total ok hinv hfok hf hnd
  unfold doSec
  rw [hc]
  simp only [hfs]
  exact ⟨_, _, rfl⟩

/-! ### `runSet` -/

def lruLen (s : Sched) : Nat := s.σ.f.cache.lru.length

/-- is frame `i` between an eviction and the `OnDelete` call -/
def inCb (σ : KSt) (i : Nat) : Prop := ∃ f k v, σ.f.frames[i]? = some f ∧ f.phase = .cb k v

/-- sections `runSet` may still need -/
def need (σ : KSt) (i : Nat) : Nat :=
  match σ.f.frames[i]? with
  | some ⟨_, _, .cb _ _⟩ => 1
  | _ => σ.f.cache.lru.length + 1

theorem show_eq (s : Sched) (o : SOut) : (s.show o).σ = s.σ ∧ (s.show o).sets = s.sets ∧
    (s.show o).log = s.log := ⟨rfl, rfl, rfl⟩

theorem push_eq (s : Sched) (ev : KEv) (σ' : KSt) : (s.push ev σ').σ = σ' ∧
    (s.push ev σ').sets = s.sets := ⟨rfl, rfl⟩

/-- `runSet` returns when given enough fuel; afterwards the call has returned, or the cache has
shrunk, or (started between an eviction and its callback) the cache is as it was -/
theorem runSet_total {c : Conf} (ok : ConfOk c) {resumed : Bool} {n id i : Nat} {k v : Bytes} :
    ∀ (fuel : Nat) (s : Sched), s.Ok c →
      s.σ.calls[id]? = some ⟨.set k v, .running (some i)⟩ → need s.σ i ≤ fuel →
      ∃ s', runSet c resumed n id fuel s = .ok s' ∧ s'.sets = s.sets ∧
        ((∃ r, s'.σ.calls[id]? = some ⟨.set k v, .returned r⟩) ∨ lruLen s' < lruLen s ∨
          (inCb s.σ i ∧ lruLen s' = lruLen s)) := by
  intro fuel
  induction fuel with
  | zero =>
    intro s _ _ hneed
    exfalso
    unfold need at hneed
    split at hneed <;> omega
  | succ fuel ih =>
    intro s hok hc hneed
    obtain ⟨σ1, ev, hsec⟩ := doSec_set_total ok hok hc
    obtain ⟨hcalls, hfstep⟩ := doSec_set hc hsec
    have hok1 : (s.push (.sec id ev) σ1).Ok c := hok.push (doSec_kstep hsec)
    obtain ⟨f, hf, _, _⟩ := (callFrames_reachable hok).own id _ i hc
    have hopev := fstep_frame_ev hfstep hf
    unfold runSet
    simp only [hsec]
    -- the call entry after the section
    have hc1 : σ1.calls[id]? = some ⟨.set k v, statusAfter (some i) ev⟩ := by
      rw [hcalls]; exact getElem?_set_self' hc
    -- a section that fixes the result: the call returns
    have fin : ∀ b, resOf ev = some (.set b) →
        ∃ σ2, doRet σ1 id = .ok (σ2, .set b) ∧
          σ2.calls[id]? = some ⟨.set k v, .returned (.set b)⟩ := by
      intro b hr
      have : σ1.calls[id]? = some ⟨.set k v, .finished (.set b)⟩ := by
        rw [hc1]; simp [statusAfter, hr]
      refine ⟨{ σ1 with calls := σ1.calls.set id ⟨.set k v, .returned (.set b)⟩ }, ?_, ?_⟩
      · unfold doRet; rw [this]
      · exact getElem?_set_self' this
    cases ev with
    | onDelete k' v' =>
      -- the frame was between an eviction and its callback
      refine ⟨_, rfl, rfl, Or.inr (Or.inr ?_)⟩
      generalize hf1 : σ1.f = f1 at hfstep
      generalize hev : FEv.sec (some i) (.onDelete k' v') = lab at hfstep
      cases hfstep with
      | onDelete j g k2 v2 hg hp =>
        injection hev with hw _; injection hw with hw; subst hw
        exact ⟨⟨g, k2, v2, hg, hp⟩, by simp [lruLen, FSt.move, Sched.show, Sched.push, hf1]⟩
      | _ => cases hev
    | evict k' v' =>
      simp only
      -- one entry less; the call is still running with frame `i`
      have hlen : lruLen (s.push (.sec id (.evict k' v')) σ1) + 1 = lruLen s ∧ ¬ inCb s.σ i := by
        generalize hf1 : σ1.f = f1 at hfstep
        generalize hev : FEv.sec (some i) (.evict k' v') = lab at hfstep
        cases hfstep with
        | evict j g s' e hg hh hfull he =>
          injection hev with hw _; injection hw with hw; subst hw
          have := (evictOne_ok he).1
          refine ⟨by simp [lruLen, FSt.move, Sched.push, this, hf1], ?_⟩
          rintro ⟨g2, k2, v2, hg2, hp2⟩
          rw [hg] at hg2; injection hg2 with hg2; subst hg2
          rcases hh with ⟨h1, _⟩ | h1 <;> rw [hp2] at h1 <;> cases h1
        | _ => cases hev
      have hc1' : (s.push (.sec id (.evict k' v')) σ1).σ.calls[id]? =
          some ⟨.set k v, .running (some i)⟩ := by
        rw [(push_eq _ _ _).1, hc1]; simp [statusAfter, resOf]
      have hneed1 : need (s.push (.sec id (.evict k' v')) σ1).σ i ≤ fuel := by
        have h0 : need s.σ i = lruLen s + 1 := by
          unfold need
          split
          · next x y k2 v2 hx => exact absurd ⟨_, k2, v2, hx, rfl⟩ hlen.2
          · rfl
        have h1 := hlen.1
        unfold need
        split
        · omega
        · simp only [lruLen] at h1 h0 ⊢; omega
      obtain ⟨s', hrun, hsets, hpost⟩ := ih _ hok1 hc1' hneed1
      refine ⟨s', hrun, by rw [hsets]; rfl, ?_⟩
      have h1 := hlen.1
      rcases hpost with h | h | ⟨_, h⟩
      · exact Or.inl h
      · exact Or.inr (Or.inl (by omega))
      · exact Or.inr (Or.inl (by omega))
    | refused k' v' =>
      obtain ⟨σ2, hret, hc2⟩ := fin false rfl
      simp only [hret]
      exact ⟨_, rfl, rfl, Or.inl ⟨_, hc2⟩⟩
    | commit k' v' rep =>
      obtain ⟨σ2, hret, hc2⟩ := fin rep rfl
      simp only [hret]
      exact ⟨_, rfl, rfl, Or.inl ⟨_, hc2⟩⟩
    | get k' r => simp [OpEv, IsSecOf] at hopev
    | del k' => simp [OpEv, IsSecOf] at hopev
    | clear => simp [OpEv, IsSecOf] at hopev
    | stats st => simp [OpEv, IsSecOf] at hopev

/-! ### one-section calls -/

theorem oneSec_total {c : Conf} (ok : ConfOk c) {σ : FSt} (hinv : Inv c σ.cache) {op : Call}
    (hop : ∀ k v, op ≠ .set k v) :
    ∃ f' ev r, oneSec c σ op = .ok (f', ev) ∧ resOf ev = some r := by
  cases op with
  | set k v => exact absurd rfl (hop k v)
  | get k =>
    obtain ⟨_, _, ⟨sg, rg, hg⟩, _⟩ := sections_total ok hinv k []
    exact ⟨{ σ with cache := sg }, .get k rg, .get rg, by simp only [oneSec, hg], rfl⟩
  | del k =>
    obtain ⟨_, _, _, ⟨sd, hd⟩⟩ := sections_total ok hinv k []
    exact ⟨{ σ with cache := sd }, .del k, .del, by simp only [oneSec, hd], rfl⟩
  | clear => exact ⟨_, _, _, rfl, rfl⟩
  | stats => exact ⟨_, _, _, rfl, rfl⟩

theorem inv_calls_one (σ : KSt) {op : Call} (hop : ∀ k v, op ≠ .set k v) :
    (σ.inv op).calls = σ.calls ++ [⟨op, .running none⟩] ∧ (σ.inv op).f = σ.f := by
  cases op with
  | set k v => exact absurd rfl (hop k v)
  | _ => exact ⟨rfl, rfl⟩

theorem runOne_total {c : Conf} (ok : ConfOk c) {op : Call} (hop : ∀ k v, op ≠ .set k v)
    {s : Sched} (hok : s.Ok c) : ∃ s', runOne c op s = .ok s' := by
  have hok0 : (s.push (.inv s.σ.calls.length op) (s.σ.inv op)).Ok c := hok.push (inv_kstep c _ _)
  obtain ⟨hinv0, _⟩ := ctrace_inv hok0
  obtain ⟨hcalls, hf⟩ := inv_calls_one s.σ hop
  obtain ⟨f', ev, r, hone, hres⟩ := oneSec_total ok (σ := (s.σ.inv op).f) hinv0 hop
  have hc : (s.σ.inv op).calls[s.σ.calls.length]? = some ⟨op, .running none⟩ := by
    rw [hcalls]; simp
  have hsec : doSec c (s.σ.inv op) s.σ.calls.length =
      .ok ({ f := f', calls := (s.σ.inv op).calls.set s.σ.calls.length ⟨op, statusAfter none ev⟩ }, ev) := by
    unfold doSec
    rw [hc]
    simp only [hone]
  have hret : doRet { f := f', calls := (s.σ.inv op).calls.set s.σ.calls.length ⟨op, statusAfter none ev⟩ }
      s.σ.calls.length =
      .ok (KSt.mk f' (List.set ((s.σ.inv op).calls.set s.σ.calls.length ⟨op, statusAfter none ev⟩)
        s.σ.calls.length ⟨op, .returned r⟩), r) := by
    have : ((s.σ.inv op).calls.set s.σ.calls.length ⟨op, statusAfter none ev⟩)[s.σ.calls.length]? =
        some ⟨op, .finished r⟩ := by
      rw [getElem?_set_self' hc]; simp [statusAfter, hres]
    unfold doRet
    simp only [this]
  unfold runOne
  simp only [Sched.push, hsec, hret]
  exact ⟨_, rfl⟩

/-! ### parked `Set`s and draining -/

theorem parkedId_some {s : Sched} {n id : Nat} (h : parkedId s n = some id) :
    s.sets[n]? = some id ∧ ∃ (op : Call) (i : Nat) (f : Frame),
      s.σ.calls[id]? = some ⟨op, .running (some i)⟩ ∧ s.σ.f.frames[i]? = some f ∧ f.phase = .loop := by
  unfold parkedId at h
  split at h
  · cases h
  · next id' hs =>
    split at h
    · next op i hc =>
      split at h
      · next f hf =>
        split at h
        · next hp =>
          injection h with h; subst h
          exact ⟨hs, op, i, f, hc, hf, hp⟩
        · cases h
      · cases h
    · cases h

theorem parkedId_returned {s : Sched} {n id : Nat} {op : Call} {r : Res}
    (hs : s.sets[n]? = some id) (hc : s.σ.calls[id]? = some ⟨op, .returned r⟩) :
    parkedId s n = none := by
  unfold parkedId
  simp only [hs, hc]

theorem drain_not_parked {c : Conf} {n : Nat} {s : Sched} (h : parkedId s n = none) (fuel : Nat) :
    drain c n fuel s = .ok s := by
  cases fuel <;> simp [drain, h]

theorem drain_total {c : Conf} (ok : ConfOk c) {n : Nat} : ∀ (fuel : Nat) (s : Sched),
    s.Ok c → lruLen s + 1 ≤ fuel → ∃ s', drain c n fuel s = .ok s' := by
  intro fuel
  induction fuel with
  | zero => intro s _ h; omega
  | succ fuel ih =>
    intro s hok hfuel
    cases hp : parkedId s n with
    | none => exact ⟨s, drain_not_parked hp _⟩
    | some id =>
      obtain ⟨hs, op, i, f, hc, hf, hph⟩ := parkedId_some hp
      obtain ⟨f0, hf0, _, hop⟩ := (callFrames_reachable hok).own id op i hc
      rw [hf] at hf0; injection hf0 with hf0; subst hf0
      subst hop
      have hneed : need s.σ i ≤ fuelFor s := by
        unfold need fuelFor
        rw [hf]
        obtain ⟨fk, fv, fp⟩ := f
        simp only at hph
        subst hph
        simp
      obtain ⟨s1, hrun, hsets, hpost⟩ := runSet_total (resumed := true) (n := n) ok (fuelFor s) s hok hc hneed
      have hok1 : s1.Ok c := runSet_ok _ hrun hok
      unfold drain
      simp only [hp, hrun]
      rcases hpost with ⟨r, hr⟩ | hlt | ⟨⟨g, k2, v2, hg, hgp⟩, _⟩
      · exact ⟨s1, drain_not_parked (parkedId_returned (by rw [hsets]; exact hs) hr) _⟩
      · exact ih s1 hok1 (by omega)
      · rw [hf] at hg; injection hg with hg; subst hg
        rw [hph] at hgp; cases hgp

theorem drainAll_total {c : Conf} (ok : ConfOk c) : ∀ (ns : List Nat) (s : Sched),
    s.Ok c → ∃ s', drainAll c ns s = .ok s' := by
  intro ns
  induction ns with
  | nil => intro s _; exact ⟨s, rfl⟩
  | cons n rest ih =>
    intro s hok
    obtain ⟨s1, h1⟩ := drain_total (n := n) ok (s.σ.f.cache.lru.length + 2) s hok (by simp [lruLen])
    obtain ⟨s2, h2⟩ := ih s1 (drain_ok _ h1 hok)
    exact ⟨s2, by simp only [drainAll, h1, h2]⟩

/-! ### scripts -/

theorem schedStep_total {c : Conf} (ok : ConfOk c) {s : Sched} (hok : s.Ok c) (st : SStep) :
    ∃ s', schedStep c s st = .ok s' := by
  cases st with
  | set k v =>
    simp only [schedStep]
    have hok0 : Sched.Ok c { s.push (.inv s.σ.calls.length (.set k v)) (s.σ.inv (.set k v)) with
        sets := s.sets ++ [s.σ.calls.length] } := hok.push (inv_kstep c _ _)
    have hc : (s.σ.inv (.set k v)).calls[s.σ.calls.length]? =
        some ⟨.set k v, .running (some s.σ.f.frames.length)⟩ := by simp [KSt.inv]
    have hneed : need (s.σ.inv (.set k v)) s.σ.f.frames.length ≤
        fuelFor { s.push (.inv s.σ.calls.length (.set k v)) (s.σ.inv (.set k v)) with
          sets := s.sets ++ [s.σ.calls.length] } := by
      simp [need, fuelFor, KSt.inv, Sched.push]
    obtain ⟨s', hrun, _⟩ := runSet_total (resumed := false) (n := s.sets.length) ok _ _ hok0 hc hneed
    exact ⟨s', hrun⟩
  | resume n =>
    simp only [schedStep]
    cases hp : parkedId s n with
    | none => exact ⟨_, rfl⟩
    | some id =>
      obtain ⟨_, op, i, f, hc, hf, hph⟩ := parkedId_some hp
      obtain ⟨f0, hf0, _, hop⟩ := (callFrames_reachable hok).own id op i hc
      rw [hf] at hf0; injection hf0 with hf0; subst hf0
      subst hop
      have hneed : need s.σ i ≤ fuelFor s := by
        unfold need fuelFor
        rw [hf]
        obtain ⟨fk, fv, fp⟩ := f
        simp only at hph
        subst hph
        simp
      obtain ⟨s', hrun, _⟩ := runSet_total (resumed := true) (n := n) ok _ _ hok hc hneed
      exact ⟨s', hrun⟩
  | get k => exact runOne_total ok (by intro k v h; cases h) hok
  | del k => exact runOne_total ok (by intro k v h; cases h) hok
  | clear => exact runOne_total ok (by intro k v h; cases h) hok
  | stats => exact runOne_total ok (by intro k v h; cases h) hok

theorem schedSteps_total {c : Conf} (ok : ConfOk c) : ∀ (steps : List SStep) (s : Sched),
    s.Ok c → ∃ s', schedSteps c steps s = .ok s' := by
  intro steps
  induction steps with
  | nil => intro s _; exact ⟨s, rfl⟩
  | cons st rest ih =>
    intro s hok
    obtain ⟨s1, h1⟩ := schedStep_total ok hok st
    obtain ⟨s2, h2⟩ := ih s1 (schedStep_ok h1 hok)
    exact ⟨s2, by simp only [schedSteps, h1, h2]⟩

theorem runSched_total (r : RawConf) (steps : List SStep) : ∃ s, runSched r steps = .ok s := by
  have ok := newConf_ok r
  obtain ⟨s1, h1⟩ := schedSteps_total ok steps Sched.init (Sched.Ok.init _)
  obtain ⟨s2, h2⟩ := drainAll_total ok (List.range s1.sets.length) s1
    (schedSteps_ok steps h1 (Sched.Ok.init _))
  exact ⟨s2, by simp only [runSched, h1, h2]⟩

end GolibsVerif.C10
