/-
`reverseRangeCmpFunc`, `breakPatternsCmpFunc`, `choosePivotCmpFunc` of `Go/Sort.lean`: they
succeed, only permute `[a, b)`, and the chosen pivot index is in `[a, b)`.  (What they compute
beyond that influences the running time of pdqsort, not its result being sorted.)
-/
import GolibsVerif.Lemmas.SortInsertion

namespace GolibsVerif.Slices

variable {α : Type}

/-! ### reverseRangeCmpFunc -/

theorem reverseLoop_spec (a b : Int) : ∀ (n : Nat) (d : Array α) (i j : Int),
    (j - i).toNat ≤ n → 0 ≤ a → a ≤ i → j < b → b ≤ d.size →
    ∃ d', reverseLoop d i j = .ok d' ∧ Frame d d' a b := by
  intro n
  induction n with
  | zero =>
    intro d i j hn ha hai hjb hb
    have : ¬ i < j := by omega
    rw [reverseLoop]
    simp only [this, if_false]
    exact ⟨d, rfl, Frame.refl ..⟩
  | succ n ih =>
    intro d i j hn ha hai hjb hb
    rw [reverseLoop]
    by_cases hij : i < j
    case neg =>
      simp only [hij, if_false]
      exact ⟨d, rfl, Frame.refl ..⟩
    simp only [hij, if_true]
    obtain ⟨d1, hs, hf1, _⟩ := swap_frame (d := d) (i := i) (j := j) (a := a) (b := b) ha hb (by omega) (by omega)
    simp only [hs, ok_bind]
    obtain ⟨d2, h2, hf2⟩ := ih d1 (i + 1) (j - 1) (by omega) ha (by omega) (by omega) (by rw [hf1.size]; exact hb)
    exact ⟨d2, h2, hf1.trans hf2⟩

theorem reverseRange_spec (d : Array α) (a b : Int) (ha : 0 ≤ a) (hb : b ≤ d.size) :
    ∃ d', reverseRange d a b = .ok d' ∧ Frame d d' a b :=
  reverseLoop_spec a b _ d a (b - 1) (Nat.le_refl _) ha (Int.le_refl _) (by omega) hb

/-! ### breakPatternsCmpFunc -/

theorem two_pow_bitsLen_le (n : Nat) (hn : n ≠ 0) : 2 ^ bitsLen n ≤ 2 * n := by
  have := Nat.log2_self_le hn
  simp only [bitsLen, hn, if_false, Nat.pow_succ]
  omega

/-- the index `other` computed by `breakPatterns` is in `[0, length)` -/
theorem breakPatterns_other (length : Int) (hl : 8 ≤ length) (r : UInt64) :
    let other : Int := ((r.toNat &&& (nextPowerOfTwo length.toNat - 1) : Nat) : Int)
    0 ≤ (if other ≥ length then other - length else other) ∧
      (if other ≥ length then other - length else other) < length := by
  intro other
  have h1 : r.toNat &&& (nextPowerOfTwo length.toNat - 1) < 2 ^ bitsLen length.toNat := by
    apply Nat.and_lt_two_pow
    rw [nextPowerOfTwo, Nat.one_shiftLeft]
    have : 0 < 2 ^ bitsLen length.toNat := Nat.two_pow_pos _
    omega
  have h2 := two_pow_bitsLen_le length.toNat (by omega)
  have h3 : other < 2 * length := by
    show ((r.toNat &&& (nextPowerOfTwo length.toNat - 1) : Nat) : Int) < 2 * length
    omega
  have h4 : 0 ≤ other := Int.natCast_nonneg _
  split <;> omega

theorem breakPatternsLoop_spec (a b : Int) (modulus : Nat) (hmod : modulus = nextPowerOfTwo (b - a).toNat)
    (hl : 8 ≤ b - a) : ∀ (n : Nat) (d : Array α) (random : UInt64) (idx last : Int),
    (last + 1 - idx).toNat = n → 0 ≤ a → a ≤ idx → last < b → b ≤ d.size →
    ∃ d', breakPatternsLoop d a (b - a) modulus random idx last = .ok d' ∧ Frame d d' a b := by
  intro n
  induction n with
  | zero =>
    intro d random idx last hn ha hai hlb hb
    have : ¬ idx ≤ last := by omega
    rw [breakPatternsLoop]
    simp only [this, if_false]
    exact ⟨d, rfl, Frame.refl ..⟩
  | succ n ih =>
    intro d random idx last hn ha hai hlb hb
    have hle : idx ≤ last := by omega
    rw [breakPatternsLoop]
    simp only [hle, if_true]
    have ho := breakPatterns_other (b - a) hl (xorshiftNext random)
    simp only [← hmod] at ho
    obtain ⟨d1, hs, hf1, _⟩ := swap_frame (d := d) (i := idx)
      (j := a + (if ((xorshiftNext random).toNat &&& (modulus - 1) : Nat) ≥ b - a
        then (((xorshiftNext random).toNat &&& (modulus - 1) : Nat) : Int) - (b - a)
        else (((xorshiftNext random).toNat &&& (modulus - 1) : Nat) : Int))) (a := a) (b := b) ha hb (by omega) (by omega)
    simp only [hs, ok_bind]
    obtain ⟨d2, h2, hf2⟩ := ih d1 (xorshiftNext random) (idx + 1) last (by omega) ha (by omega) hlb
      (by rw [hf1.size]; exact hb)
    exact ⟨d2, h2, hf1.trans hf2⟩

theorem breakPatterns_spec (d : Array α) (a b : Int) (ha : 0 ≤ a) (hb : b ≤ d.size) :
    ∃ d', breakPatterns d a b = .ok d' ∧ Frame d d' a b := by
  unfold breakPatterns
  by_cases hl : b - a ≥ 8
  · simp only [hl, if_true]
    have h0 : (0 : Int) ≤ b - a := by omega
    rw [Int.tdiv_eq_ediv_of_nonneg h0]
    exact breakPatternsLoop_spec a b _ rfl hl _ d _ _ _ rfl ha (by omega) (by omega) hb
  · simp only [hl, if_false]
    exact ⟨d, rfl, Frame.refl ..⟩

/-! ### choosePivotCmpFunc -/

theorem order2_spec (cmp : α → α → Int) (d : Array α) (a b swaps : Int)
    (ha : 0 ≤ a ∧ a < d.size) (hb : 0 ≤ b ∧ b < d.size) :
    ∃ x y s, order2 cmp d a b swaps = .ok (x, y, s) ∧ ((x = a ∧ y = b) ∨ (x = b ∧ y = a)) := by
  obtain ⟨u, hu⟩ := at?_eq_some (d := d) (i := b) hb.1 hb.2
  obtain ⟨v, hv⟩ := at?_eq_some (d := d) (i := a) ha.1 ha.2
  simp only [order2, get_ok hu, get_ok hv, ok_bind]
  split
  · exact ⟨b, a, _, rfl, Or.inr ⟨rfl, rfl⟩⟩
  · exact ⟨a, b, _, rfl, Or.inl ⟨rfl, rfl⟩⟩

theorem median_spec (cmp : α → α → Int) (d : Array α) (a b c swaps : Int)
    (ha : 0 ≤ a ∧ a < d.size) (hb : 0 ≤ b ∧ b < d.size) (hc : 0 ≤ c ∧ c < d.size) :
    ∃ m s, median cmp d a b c swaps = .ok (m, s) ∧ (m = a ∨ m = b ∨ m = c) := by
  obtain ⟨x1, y1, s1, h1, e1⟩ := order2_spec cmp d a b swaps ha hb
  have hy1 : 0 ≤ y1 ∧ y1 < d.size := by rcases e1 with ⟨_, rfl⟩ | ⟨_, rfl⟩ <;> assumption
  have hx1 : 0 ≤ x1 ∧ x1 < d.size := by rcases e1 with ⟨rfl, _⟩ | ⟨rfl, _⟩ <;> assumption
  obtain ⟨x2, y2, s2, h2, e2⟩ := order2_spec cmp d y1 c s1 hy1 hc
  have hx2 : 0 ≤ x2 ∧ x2 < d.size := by rcases e2 with ⟨rfl, _⟩ | ⟨rfl, _⟩ <;> assumption
  obtain ⟨x3, y3, s3, h3, e3⟩ := order2_spec cmp d x1 x2 s2 hx1 hx2
  simp only [median, h1, h2, h3, ok_bind]
  refine ⟨y3, s3, rfl, ?_⟩
  rcases e1 with ⟨rfl, rfl⟩ | ⟨rfl, rfl⟩ <;> rcases e2 with ⟨rfl, rfl⟩ | ⟨rfl, rfl⟩ <;>
    rcases e3 with ⟨rfl, rfl⟩ | ⟨rfl, rfl⟩ <;> simp

theorem choosePivot_spec (cmp : α → α → Int) (d : Array α) (a b : Int) (ha : 0 ≤ a) (hab : a < b)
    (hb : b ≤ d.size) :
    ∃ pivot hint, choosePivot cmp d a b = .ok (pivot, hint) ∧ a ≤ pivot ∧ pivot < b := by
  have h0 : (0 : Int) ≤ b - a := by omega
  have fin : ∀ (j s : Int), a ≤ j → j < b → ∃ pivot hint,
      (if s = 0 then (pure (j, SortedHint.increasing) : GoM (Int × SortedHint))
        else if s = maxSwaps then pure (j, SortedHint.decreasing) else pure (j, SortedHint.unknown)) =
        .ok (pivot, hint) ∧ a ≤ pivot ∧ pivot < b := by
    intro j s h1 h2
    split
    · exact ⟨j, _, rfl, h1, h2⟩
    · split
      · exact ⟨j, _, rfl, h1, h2⟩
      · exact ⟨j, _, rfl, h1, h2⟩
  unfold choosePivot
  simp only [Int.tdiv_eq_ediv_of_nonneg h0]
  by_cases h8 : b - a ≥ 8
  · simp only [h8, if_true]
    by_cases h50 : b - a ≥ shortestNinther
    · simp only [h50, if_true]
      have h50' : b - a ≥ 50 := h50
      obtain ⟨i1, s1, e1, m1⟩ := median_spec cmp d (a + (b - a) / 4 * 1 - 1) (a + (b - a) / 4 * 1) (a + (b - a) / 4 * 1 + 1) 0
        (by omega) (by omega) (by omega)
      obtain ⟨j1, s2, e2, m2⟩ := median_spec cmp d (a + (b - a) / 4 * 2 - 1) (a + (b - a) / 4 * 2) (a + (b - a) / 4 * 2 + 1) s1
        (by omega) (by omega) (by omega)
      obtain ⟨k1, s3, e3, m3⟩ := median_spec cmp d (a + (b - a) / 4 * 3 - 1) (a + (b - a) / 4 * 3) (a + (b - a) / 4 * 3 + 1) s2
        (by omega) (by omega) (by omega)
      obtain ⟨m, s4, e4, m4⟩ := median_spec cmp d i1 j1 k1 s3 (by omega) (by omega) (by omega)
      simp only [medianAdjacent, e1, e2, e3, e4, ok_bind, pure_ok]
      exact fin m s4 (by omega) (by omega)
    · simp only [h50, if_false]
      obtain ⟨m, s4, e4, m4⟩ := median_spec cmp d (a + (b - a) / 4 * 1) (a + (b - a) / 4 * 2) (a + (b - a) / 4 * 3) 0
        (by omega) (by omega) (by omega)
      simp only [e4, ok_bind, pure_ok]
      exact fin m s4 (by omega) (by omega)
  · simp only [h8, if_false, ok_bind, pure_ok]
    exact fin _ 0 (by omega) (by omega)

end GolibsVerif.Slices
