/-
C14 — lemmas for the host:port round trip: byte search, checked slices of appended strings,
decimal formatting/parsing of a `uint16`, bracket trimming.
-/
import GolibsVerif.Model.C14
import GolibsVerif.Lemmas.C14Duration

namespace GolibsVerif.C14

/-! ### byte search -/

theorem indexByteAux_not_mem (c : Nat) : ∀ (s : Bytes) (n : Nat), c ∉ s → indexByteAux c s n = -1 := by
  intro s
  induction s with
  | nil => intro n _; rfl
  | cons b rest ih =>
    intro n h
    have hb : b ≠ c := fun e => h (by simp [e])
    have hr : c ∉ rest := fun e => h (by simp [e])
    simp [indexByteAux, hb, ih (n + 1) hr]

theorem indexByteAux_append (c : Nat) : ∀ (a b : Bytes) (n : Nat), c ∉ a →
    indexByteAux c (a ++ c :: b) n = ((n + a.length : Nat) : Int) := by
  intro a
  induction a with
  | nil => intro b n _; simp [indexByteAux]
  | cons x rest ih =>
    intro b n h
    have hx : x ≠ c := fun e => h (by simp [e])
    have hr : c ∉ rest := fun e => h (by simp [e])
    simp only [List.cons_append, indexByteAux, hx, if_false, ih b (n + 1) hr, List.length_cons]
    congr 1; omega

theorem indexByte_not_mem {c : Nat} {s : Bytes} (h : c ∉ s) : indexByte s c = -1 :=
  indexByteAux_not_mem c s 0 h

theorem indexByte_append {c : Nat} (a b : Bytes) (h : c ∉ a) : indexByte (a ++ c :: b) c = (a.length : Int) := by
  rw [indexByte, indexByteAux_append c a b 0 h]; simp

theorem indexByteAux_mem (c : Nat) : ∀ (s : Bytes) (n : Nat), c ∈ s → 0 ≤ indexByteAux c s n := by
  intro s
  induction s with
  | nil => intro n h; simp at h
  | cons b rest ih =>
    intro n h
    by_cases hb : b = c
    · simp only [indexByteAux, hb, if_true]; exact Int.natCast_nonneg _
    · have : c ∈ rest := by
        rcases List.mem_cons.1 h with e | e
        · exact absurd e.symm hb
        · exact e
      simp only [indexByteAux, hb, if_false]
      exact ih (n + 1) this

theorem indexByte_nonneg_iff {c : Nat} {s : Bytes} : 0 ≤ indexByte s c ↔ c ∈ s := by
  constructor
  · intro h
    apply Classical.byContradiction
    intro hn
    rw [indexByte_not_mem hn] at h
    exact absurd h (by decide)
  · exact indexByteAux_mem c s 0

theorem lastIndexByteAux_not_mem (c : Nat) : ∀ (s : Bytes) (n : Nat) (last : Int), c ∉ s →
    lastIndexByteAux c s n last = last := by
  intro s
  induction s with
  | nil => intro n last _; rfl
  | cons b rest ih =>
    intro n last h
    have hb : b ≠ c := fun e => h (by simp [e])
    have hr : c ∉ rest := fun e => h (by simp [e])
    simp [lastIndexByteAux, hb, ih (n + 1) last hr]

theorem lastIndexByteAux_append (c : Nat) : ∀ (a b : Bytes) (n : Nat) (last : Int), c ∉ b →
    lastIndexByteAux c (a ++ c :: b) n last = ((n + a.length : Nat) : Int) := by
  intro a
  induction a with
  | nil =>
    intro b n last h
    simp [lastIndexByteAux, lastIndexByteAux_not_mem c b (n + 1) _ h]
  | cons x rest ih =>
    intro b n last h
    simp only [List.cons_append, lastIndexByteAux, ih b (n + 1) _ h, List.length_cons]
    congr 1; omega

theorem lastIndexByte_append {c : Nat} (a b : Bytes) (h : c ∉ b) :
    lastIndexByte (a ++ c :: b) c = (a.length : Int) := by
  rw [lastIndexByte, lastIndexByteAux_append c a b 0 _ h]; simp

/-! ### checked slices of appended strings -/

theorem slice_mid (a b c : Bytes) (lo hi : Int) (hlo : lo = a.length) (hhi : hi = a.length + b.length) :
    GoM.slice (a ++ (b ++ c)) lo hi = .ok b := by
  subst hlo hhi
  unfold GoM.slice
  have hc : (0 : Int) ≤ (a.length : Int) ∧ (a.length : Int) ≤ (a.length : Int) + (b.length : Int) ∧
      (a.length : Int) + (b.length : Int) ≤ ((a ++ (b ++ c)).length : Nat) := by
    simp only [List.length_append]; omega
  rw [if_pos hc]
  have h1 : ((a.length : Int) + (b.length : Int)).toNat - (a.length : Int).toNat = b.length := by omega
  rw [h1, Int.toNat_natCast, List.drop_left' rfl, List.take_left' rfl]

theorem sliceTo_left (a b : Bytes) (hi : Int) (h : hi = a.length) : GoM.sliceTo (a ++ b) hi = .ok a := by
  have := slice_mid [] a b 0 hi (by simp) (by simp [h])
  simpa [GoM.sliceTo] using this

theorem sliceFrom_right (a b : Bytes) (lo : Int) (h : lo = a.length) : GoM.sliceFrom (a ++ b) lo = .ok b := by
  have := slice_mid a b [] lo ((a ++ b).length) h (by simp [List.length_append])
  simpa [GoM.sliceFrom] using this

theorem idx_zero_cons (x : Nat) (s : Bytes) : GoM.idx (x :: s) 0 = .ok x := by
  simp [GoM.idx]

theorem idx_last (a : Bytes) (x : Nat) : GoM.idx (a ++ [x]) (((a ++ [x]).length : Int) - 1) = .ok x := by
  unfold GoM.idx
  have h1 : ¬ (((a ++ [x]).length : Int) - 1 < 0) := by simp [List.length_append]
  have h2 : (((a ++ [x]).length : Int) - 1).toNat = a.length := by simp [List.length_append]
  rw [if_neg h1, h2]
  simp

/-! ### decimal text of a `uint16` (U16-RT, proved) -/

theorem digits_range (v : Nat) : ∀ b ∈ digits v, 48 ≤ b ∧ b ≤ 57 := by
  induction v using Nat.strongRecOn with
  | _ v ih =>
    by_cases h : v = 0
    · subst h; simp [digits_zero]
    · rw [digits_pos h]
      intro b hb
      rcases List.mem_append.1 hb with hb | hb
      · exact ih (v / 10) (by omega) b hb
      · simp at hb; omega

theorem formatUint_range (v : Nat) : ∀ b ∈ formatUint v, 48 ≤ b ∧ b ≤ 57 := by
  unfold formatUint
  rw [fmtInt_eq, List.append_nil]
  unfold intText
  by_cases h : v = 0
  · simp [h]
  · simp only [h, if_false]; exact digits_range v

theorem parse_digits (n : Nat) (hn : n ≤ 65535) : ∀ rest : Bytes,
    parseUintLoop 65535 (digits n ++ rest) 0 = parseUintLoop 65535 rest n := by
  induction n using Nat.strongRecOn with
  | _ n ih =>
    intro rest
    by_cases h : n = 0
    · subst h; simp [digits_zero]
    · rw [digits_pos h, List.append_assoc, ih (n / 10) (by omega) (by omega)]
      simp only [List.singleton_append, parseUintLoop]
      have hc : 48 ≤ n % 10 + 48 ∧ n % 10 + 48 ≤ 57 := by omega
      rw [if_pos hc]
      have h1 : ¬ (n / 10 ≥ maxUint64 / 10 + 1) := by unfold maxUint64; omega
      rw [if_neg h1]
      have h2 : (n / 10 * 10 + (n % 10 + 48 - 48)) % (maxUint64 + 1) = n := by unfold maxUint64; omega
      simp only [h2]
      have h3 : ¬ (n < n / 10 * 10 ∨ n > 65535) := by omega
      rw [if_neg h3]

/-- **U16-RT**: `strconv.ParseUint(strconv.FormatUint(p, 10), 10, 16) = p` for every `uint16`. -/
theorem parseUint16_formatUint (p : Nat) (hp : p < 65536) : parseUint16 (formatUint p) = .ok p := by
  unfold formatUint
  rw [fmtInt_eq, List.append_nil]
  unfold intText parseUint16
  by_cases h : p = 0
  · subst h; simp [parseUintLoop, maxUint64]
  · simp only [h, if_false]
    have hne : digits p ≠ [] := by rw [digits_pos h]; simp
    rw [if_neg hne]
    have := parse_digits p (by omega) []
    simpa [parseUintLoop] using this

/-! ### `strings.Trim(host, "[]")` -/

theorem dropWhile_none {p : Nat → Bool} : ∀ {s : Bytes}, (∀ b ∈ s, p b = false) → s.dropWhile p = s
  | [], _ => rfl
  | b :: rest, h => by simp [List.dropWhile, h b (by simp)]

theorem trimBrackets_id {s : Bytes} (h : ∀ b ∈ s, isBracket b = false) : trimBrackets s = s := by
  unfold trimBrackets
  rw [dropWhile_none h, dropWhile_none (by intro b hb; exact h b (List.mem_reverse.1 hb)), List.reverse_reverse]

/-! ### `net.SplitHostPort ∘ net.JoinHostPort` -/

theorem splitTail_ok (hp host port : Bytes) (j k i : Int) (sj sk : Bytes)
    (h1 : GoM.sliceFrom hp j = .ok sj) (h2 : 91 ∉ sj)
    (h3 : GoM.sliceFrom hp k = .ok sk) (h4 : 93 ∉ sk)
    (h5 : GoM.sliceFrom hp (i + 1) = .ok port) :
    splitTail hp host j k i = .ok (.ok (host, port)) := by
  unfold splitTail
  have e1 : ¬ (indexByte sj 91 ≥ 0) := by rw [indexByte_not_mem h2]; decide
  have e2 : ¬ (indexByte sk 93 ≥ 0) := by rw [indexByte_not_mem h4]; decide
  simp only [h1, h3, h5, bind, Except.bind, e1, e2, if_false]
  rfl

theorem netSplit_join (h p : Bytes) (hl : 91 ∉ h) (hr : 93 ∉ h)
    (pc : 58 ∉ p) (pl : 91 ∉ p) (pr : 93 ∉ p) :
    netSplitHostPort (netJoinHostPort h p) = .ok (.ok (h, p)) := by
  unfold netJoinHostPort
  by_cases hc : 58 ∈ h
  · -- "[" host "]:" port
    have hi : indexByte h 58 ≥ 0 := indexByte_nonneg_iff.2 hc
    rw [if_pos hi]
    generalize hS : [91] ++ h ++ [93, 58] ++ p = s
    have s1 : s = (91 :: h ++ [93]) ++ 58 :: p := by rw [← hS]; simp
    have s2 : s = (91 :: h) ++ 93 :: (58 :: p) := by rw [← hS]; simp
    have s3 : s = 91 :: (h ++ 93 :: 58 :: p) := by rw [← hS]; simp
    have s4 : s = [91] ++ (h ++ (93 :: 58 :: p)) := by rw [← hS]; simp
    have s5 : s = (91 :: h ++ [93, 58]) ++ p := by rw [← hS]; simp
    have s6 : s = [91] ++ (h ++ 93 :: 58 :: p) := by rw [← hS]; simp
    have hlen : s.length = h.length + 3 + p.length := by rw [← hS]; simp; omega
    have li : lastIndexByte s 58 = ((h.length + 2 : Nat) : Int) := by
      rw [s1, lastIndexByte_append _ _ pc]; simp; omega
    have ei : indexByte s 93 = ((h.length + 1 : Nat) : Int) := by
      have : 93 ∉ (91 :: h) := by simp [hr]
      rw [s2, indexByte_append _ _ this]; simp
    unfold netSplitHostPort
    simp only [li, ei]
    have c1 : ¬ (((h.length + 2 : Nat) : Int) < 0) := by omega
    rw [if_neg c1]
    have i0 : GoM.idx s 0 = .ok 91 := by rw [s3]; exact idx_zero_cons _ _
    simp only [i0, bind, Except.bind, if_true]
    have c2 : ¬ (((h.length + 1 : Nat) : Int) < 0) := by omega
    have c3 : ¬ (((h.length + 1 : Nat) : Int) + 1 = (s.length : Int)) := by rw [hlen]; omega
    have c4 : ((h.length + 1 : Nat) : Int) + 1 = ((h.length + 2 : Nat) : Int) := by omega
    rw [if_neg c2, if_neg c3, if_pos c4]
    have sl : GoM.slice s 1 ((h.length + 1 : Nat) : Int) = .ok h := by
      rw [s4]; exact slice_mid [91] h _ 1 _ (by simp) (by simp; omega)
    simp only [sl]
    apply splitTail_ok s h p 1 _ _ (h ++ 93 :: 58 :: p) (58 :: p)
    · rw [s6]; exact sliceFrom_right _ _ _ (by simp)
    · simp [hl, pl]
    · rw [s1]; exact sliceFrom_right _ _ _ (by simp)
    · simp [pr]
    · rw [s5]; exact sliceFrom_right _ _ _ (by simp)
  · -- host ":" port
    have hi : ¬ (indexByte h 58 ≥ 0) := fun hh => hc (indexByte_nonneg_iff.1 hh)
    rw [if_neg hi]
    generalize hS : h ++ [58] ++ p = s
    have s1 : s = h ++ 58 :: p := by rw [← hS]; simp
    have s2 : s = (h ++ [58]) ++ p := by rw [← hS]
    have s3 : s = [] ++ s := by simp
    have li : lastIndexByte s 58 = (h.length : Int) := by rw [s1, lastIndexByte_append _ _ pc]
    unfold netSplitHostPort
    simp only [li]
    have c1 : ¬ ((h.length : Int) < 0) := by omega
    rw [if_neg c1]
    obtain ⟨c0, i0, hc0⟩ : ∃ c0, GoM.idx s 0 = .ok c0 ∧ c0 ≠ 91 := by
      cases h with
      | nil => exact ⟨58, by rw [s1]; exact idx_zero_cons _ _, by decide⟩
      | cons x t =>
        refine ⟨x, by rw [s1]; exact idx_zero_cons _ _, ?_⟩
        intro e; exact hl (by simp [e])
    simp only [i0, bind, Except.bind, hc0, if_false]
    have sl : GoM.sliceTo s (h.length : Int) = .ok h := by rw [s1]; exact sliceTo_left _ _ _ rfl
    simp only [sl, hi, if_false]
    have n91 : 91 ∉ s := by rw [s1]; simp [hl, pl]
    have n93 : 93 ∉ s := by rw [s1]; simp [hr, pr]
    apply splitTail_ok s h p 0 0 _ s s
    · rw [s3]; exact sliceFrom_right [] s 0 (by simp)
    · exact n91
    · rw [s3]; exact sliceFrom_right [] s 0 (by simp)
    · exact n93
    · rw [s2]; exact sliceFrom_right _ _ _ (by simp)

end GolibsVerif.C14
