/-
C08 — helper lemmas: `Parse` as a fold of per-line events; association-list maps; the
abstraction of a `Storage` to two functions into ordered sets; ordered-set folds against
`firstSeenBy`.
-/
import GolibsVerif.Spec.C08
import GolibsVerif.Theorems.C07

namespace GolibsVerif.C08
open GolibsVerif GolibsVerif.Netip GolibsVerif.C07

/-! ### Parse -/

def freshRec (srcName : Bytes) : Record := { addr := .invalid, source := srcName, names := [] }

/-- the event of one line, computed from the closed form of `UnmarshalText` -/
def eventOf (toASCII : Bytes → Option Bytes) (srcName : Bytes) (lineNum : Nat) (l : Bytes) : Event :=
  match refUnmarshal toASCII (freshRec srcName) (fields l) with
  | (r, none) => .delivered r
  | (_, some e) => .reported l lineNum e

def eventsFrom (toASCII : Bytes → Option Bytes) (srcName : Bytes) : List Bytes → Nat → List Event
  | [], _ => []
  | l :: ls, k => eventOf toASCII srcName k l :: eventsFrom toASCII srcName ls (k + 1)

def applyEvent (isHandleSet : Bool) (srcName : Bytes) (st : PState) : Event → PState
  | .delivered r => { st with calls := st.calls ++ [.add r] }
  | .reported d n e =>
    if isHandleSet then { st with calls := st.calls ++ [.handleInvalid srcName d { line := n, err := e }] }
    else { st with errs := st.errs ++ [{ line := n, err := e }] }

theorem parseLoop_eq (toASCII : Bytes → Option Bytes) (hs : Bool) (src : Bytes) :
    ∀ (ls : List Bytes) (k : Nat) (st : PState),
      parseLoop toASCII hs src ls k st =
        .ok ((eventsFrom toASCII src ls k).foldl (applyEvent hs src) st) := by
  intro ls
  induction ls with
  | nil => intro k st; rfl
  | cons l ls ih =>
    intro k st
    simp only [parseLoop, bind, Except.bind, unmarshalText_eq, eventsFrom, List.foldl_cons]
    rw [ih]
    congr 2
    unfold eventOf freshRec
    rcases h : refUnmarshal toASCII { addr := .invalid, source := src, names := [] } (fields l) with ⟨r, e⟩
    cases e with
    | none => simp [applyEvent]
    | some e => cases hs <;> simp [applyEvent]

theorem foldl_applyEvent (hs : Bool) (src : Bytes) (evs : List Event) (st : PState) :
    evs.foldl (applyEvent hs src) st =
      { calls := st.calls ++ callsOf hs src evs,
        errs := st.errs ++ (if hs then [] else errsOf evs) } := by
  induction evs generalizing st with
  | nil => cases hs <;> simp [callsOf, errsOf]
  | cons ev evs ih =>
    rw [List.foldl_cons, ih]
    cases ev with
    | delivered r => cases hs <;> simp [applyEvent, callsOf, errsOf]
    | reported d n e => cases hs <;> simp [applyEvent, callsOf, errsOf]

theorem eventOf_outcome (toASCII : Bytes → Option Bytes) (src : Bytes) (k : Nat) (l : Bytes) :
    LineOutcome toASCII src k l (eventOf toASCII src (k + 1) l) := by
  have hu := unmarshalText_eq toASCII (freshRec src) l
  unfold eventOf
  rcases h : refUnmarshal toASCII (freshRec src) (fields l) with ⟨r, e⟩
  rw [h] at hu
  cases e with
  | none =>
    have := (unmarshal_iff toASCII (freshRec src) l).2 r hu
    exact ⟨this.1, this.2⟩
  | some e =>
    refine ⟨?_, rfl, rfl⟩
    rintro ⟨a, names, hwf⟩
    have := (unmarshal_iff toASCII (freshRec src) l).1 a names hwf
    rw [hu] at this
    injection this with this
    simp at this

theorem eventsFrom_outcomes (toASCII : Bytes → Option Bytes) (src : Bytes) :
    ∀ (ls : List Bytes) (k : Nat), Outcomes toASCII src k ls (eventsFrom toASCII src ls (k + 1)) := by
  intro ls
  induction ls with
  | nil => intro k; trivial
  | cons l ls ih => intro k; exact ⟨eventOf_outcome toASCII src k l, ih (k + 1)⟩

/-! ### association-list maps -/

theorem get_put_self {K V : Type} [DecidableEq K] (m : Map K V) (k : K) (v : V) :
    (m.put k v).get k = some v := by
  induction m with
  | nil => simp [Map.put, Map.get]
  | cons e rest ih =>
    obtain ⟨k', v'⟩ := e
    by_cases h : k' = k
    · simp [Map.put, Map.get, h]
    · simp [Map.put, Map.get, h, ih]

theorem get_put_ne {K V : Type} [DecidableEq K] (m : Map K V) (k k' : K) (v : V) (hne : k' ≠ k) :
    (m.put k v).get k' = m.get k' := by
  induction m with
  | nil => simp [Map.put, Map.get, Ne.symm hne]
  | cons e rest ih =>
    obtain ⟨k0, v0⟩ := e
    by_cases h : k0 = k
    · subst h
      simp [Map.put, Map.get, Ne.symm hne]
    · by_cases h2 : k0 = k'
      · subst h2; simp [Map.put, Map.get, h]
      · simp [Map.put, Map.get, h, h2, ih]

/-! ### abstraction of a storage -/

/-- the ordered set of names under an address (empty when the key is absent) -/
def namesAt (s : Storage) (a : Addr) : OSet Bytes := (s.names.get a).getD OSet.empty

/-- the ordered set of addresses under a lower-cased name -/
def addrsAt (s : Storage) (k : Bytes) : OSet Addr := (s.addrs.get k).getD OSet.empty

theorem byAddr_eq (s : Storage) (a : Addr) : byAddr s a = (namesAt s a).vals := by
  unfold byAddr namesAt
  cases s.names.get a <;> rfl

theorem byName_eq (lower : Bytes → Bytes) (s : Storage) (n : Bytes) :
    byName lower s n = (addrsAt s (lower n)).vals := by
  unfold byName addrsAt
  cases s.addrs.get (lower n) <;> rfl

/-- abstract effect of adding the pair `(a, name)` -/
def stepN (lower : Bytes → Bytes) (a' : Addr) (os : OSet Bytes) (p : Addr × Bytes) : OSet Bytes :=
  if p.1 = a' then os.add (lower p.2) p.2 else os

def stepA (lower : Bytes → Bytes) (k : Bytes) (os : OSet Addr) (p : Addr × Bytes) : OSet Addr :=
  if lower p.2 = k then os.add p.1 p.1 else os

theorem addName_spec (lower : Bytes → Bytes) (a : Addr) (s : Storage) (name : Bytes)
    (h : s.names.get a ≠ none) :
    ∃ s', addName lower a s name = .ok s' ∧ s'.names.get a ≠ none ∧
      (∀ a', namesAt s' a' = stepN lower a' (namesAt s a') (a, name)) ∧
      (∀ k, addrsAt s' k = stepA lower k (addrsAt s k) (a, name)) := by
  unfold addName
  cases hg : s.names.get a with
  | none => exact absurd hg h
  | some ns =>
    refine ⟨_, rfl, ?_, ?_, ?_⟩
    · simp [get_put_self]
    · intro a'
      unfold namesAt stepN
      by_cases ha : a = a'
      · subst ha; simp [get_put_self, hg]
      · simp only [ha, if_false]
        rw [get_put_ne _ _ _ _ (Ne.symm ha)]
    · intro k
      unfold addrsAt stepA
      by_cases hk : lower name = k
      · subst hk
        simp only [get_put_self, if_true, Option.getD_some]
        cases s.addrs.get (lower name) <;> rfl
      · simp only [hk, if_false]
        rw [get_put_ne _ _ _ _ (Ne.symm hk)]

theorem foldlM_addName (lower : Bytes → Bytes) (a : Addr) :
    ∀ (names : List Bytes) (s : Storage), s.names.get a ≠ none →
      ∃ s', names.foldlM (addName lower a) s = .ok s' ∧
        (∀ a', namesAt s' a' = (names.map fun n => (a, n)).foldl (stepN lower a') (namesAt s a')) ∧
        (∀ k, addrsAt s' k = (names.map fun n => (a, n)).foldl (stepA lower k) (addrsAt s k)) := by
  intro names
  induction names with
  | nil => intro s _; exact ⟨s, rfl, fun _ => rfl, fun _ => rfl⟩
  | cons n ns ih =>
    intro s h
    obtain ⟨s1, h1, h2, h3, h4⟩ := addName_spec lower a s n h
    obtain ⟨s2, g1, g2, g3⟩ := ih s1 h2
    refine ⟨s2, ?_, ?_, ?_⟩
    · simp only [List.foldlM, bind, Except.bind, h1]; exact g1
    · intro a'; rw [g2, h3]; rfl
    · intro k; rw [g3, h4]; rfl

/-- `Add` never dereferences a nil pointer, and its abstract effect is that of adding the
record's `(addr, name)` pairs one after the other -/
theorem add_spec (lower : Bytes → Bytes) (s : Storage) (r : Record) :
    ∃ s', add lower s r = .ok s' ∧
      (∀ a', namesAt s' a' = (pairs [r]).foldl (stepN lower a') (namesAt s a')) ∧
      (∀ k, addrsAt s' k = (pairs [r]).foldl (stepA lower k) (addrsAt s k)) := by
  have hp : pairs [r] = r.names.map fun n => (r.addr, n) := by simp [pairs]
  rw [hp]
  unfold add
  by_cases h0 : r.names.length = 0
  · have : r.names = [] := List.eq_nil_of_length_eq_zero h0
    simp only [this]
    exact ⟨s, rfl, fun _ => rfl, fun _ => rfl⟩
  · simp only [h0, if_false]
    unfold addBody
    cases hg : s.names.get r.addr with
    | some os =>
      simp only []
      exact foldlM_addName lower r.addr r.names s (by simp [hg])
    | none =>
      simp only []
      obtain ⟨s', h1, h2, h3⟩ := foldlM_addName lower r.addr r.names
        { s with names := s.names.put r.addr OSet.empty } (by simp [get_put_self])
      refine ⟨s', h1, ?_, ?_⟩
      · intro a'
        rw [h2]
        congr 1
        unfold namesAt
        by_cases ha : r.addr = a'
        · subst ha; simp [get_put_self, hg]
        · simp only []; rw [get_put_ne _ _ _ _ (Ne.symm ha)]
      · intro k; rw [h3]; rfl

theorem adds_spec (lower : Bytes → Bytes) :
    ∀ (rs : List Record) (s : Storage),
      ∃ s', adds lower s rs = .ok s' ∧
        (∀ a', namesAt s' a' = (pairs rs).foldl (stepN lower a') (namesAt s a')) ∧
        (∀ k, addrsAt s' k = (pairs rs).foldl (stepA lower k) (addrsAt s k)) := by
  intro rs
  induction rs with
  | nil => intro s; exact ⟨s, rfl, fun _ => rfl, fun _ => rfl⟩
  | cons r rs ih =>
    intro s
    obtain ⟨s1, h1, h2, h3⟩ := add_spec lower s r
    obtain ⟨s2, g1, g2, g3⟩ := ih s1
    have hp : pairs (r :: rs) = pairs [r] ++ pairs rs := by simp [pairs]
    refine ⟨s2, ?_, ?_, ?_⟩
    · simp only [adds, List.foldlM, bind, Except.bind, h1]; exact g1
    · intro a'; rw [g2, h2, hp, List.foldl_append]
    · intro k; rw [g3, h3, hp, List.foldl_append]

/-! ### ordered-set folds against `firstSeenBy` -/

/-- folding `add (key v) v` over a list, from an ordered set whose `set` lists the keys of
its `vals` -/
theorem foldl_add_eq {α : Type} [DecidableEq α] (key : α → α) :
    ∀ (l : List α) (os : OSet α),
      l.foldl (fun os v => os.add (key v) v) os =
        { set := os.set ++ (firstSeenAux key os.set l).map key,
          vals := os.vals ++ firstSeenAux key os.set l } := by
  intro l
  induction l with
  | nil => intro os; simp [firstSeenAux]
  | cons x xs ih =>
    intro os
    rw [List.foldl_cons, ih]
    unfold OSet.add
    by_cases h : key x ∈ os.set
    · simp [h, firstSeenAux]
    · simp [h, firstSeenAux]

theorem foldl_stepN (lower : Bytes → Bytes) (a : Addr) (ps : List (Addr × Bytes)) (os : OSet Bytes) :
    ps.foldl (stepN lower a) os =
      ((ps.filter fun p => p.1 = a).map (·.2)).foldl (fun os v => os.add (lower v) v) os := by
  induction ps generalizing os with
  | nil => rfl
  | cons p ps ih =>
    rw [List.foldl_cons, ih]
    unfold stepN
    by_cases h : p.1 = a <;> simp [h]

theorem foldl_stepA (lower : Bytes → Bytes) (k : Bytes) (ps : List (Addr × Bytes)) (os : OSet Addr) :
    ps.foldl (stepA lower k) os =
      ((ps.filter fun p => lower p.2 = k).map (·.1)).foldl (fun os v => os.add (id v) v) os := by
  induction ps generalizing os with
  | nil => rfl
  | cons p ps ih =>
    rw [List.foldl_cons, ih]
    unfold stepA
    by_cases h : lower p.2 = k <;> simp [h]

/-! ### properties of `firstSeenBy` -/

theorem firstSeenAux_sub {α β : Type} [DecidableEq β] (key : α → β) :
    ∀ (l : List α) (seen : List β) (x : α), x ∈ firstSeenAux key seen l → x ∈ l ∧ key x ∉ seen := by
  intro l
  induction l with
  | nil => intro seen x h; simp [firstSeenAux] at h
  | cons y ys ih =>
    intro seen x h
    unfold firstSeenAux at h
    by_cases hy : key y ∈ seen
    · simp only [hy, if_true] at h
      have := ih seen x h
      exact ⟨by simp [this.1], this.2⟩
    · simp only [hy, if_false, List.mem_cons] at h
      rcases h with rfl | h
      · exact ⟨by simp, hy⟩
      · have := ih _ x h
        refine ⟨by simp [this.1], fun hc => this.2 (by simp [hc])⟩

theorem firstSeenAux_cover {α β : Type} [DecidableEq β] (key : α → β) :
    ∀ (l : List α) (seen : List β) (x : α), x ∈ l → key x ∉ seen →
      ∃ y ∈ firstSeenAux key seen l, key y = key x := by
  intro l
  induction l with
  | nil => intro seen x h; simp at h
  | cons y ys ih =>
    intro seen x hx hns
    unfold firstSeenAux
    by_cases hy : key y ∈ seen
    · simp only [hy, if_true]
      simp only [List.mem_cons] at hx
      rcases hx with rfl | hx
      · exact absurd hy hns
      · exact ih seen x hx hns
    · simp only [hy, if_false]
      by_cases hk : key y = key x
      · exact ⟨y, by simp, hk⟩
      · simp only [List.mem_cons] at hx
        rcases hx with rfl | hx
        · exact absurd rfl hk
        · obtain ⟨z, hz, hkz⟩ := ih (seen ++ [key y]) x hx (by
            simp only [List.mem_append, List.mem_singleton, not_or]
            exact ⟨hns, fun h => hk h.symm⟩)
          exact ⟨z, by simp [hz], hkz⟩

theorem firstSeenAux_nodup {α β : Type} [DecidableEq β] (key : α → β) :
    ∀ (l : List α) (seen : List β), ((firstSeenAux key seen l).map key).Nodup := by
  intro l
  induction l with
  | nil => intro seen; simp [firstSeenAux]
  | cons y ys ih =>
    intro seen
    unfold firstSeenAux
    by_cases hy : key y ∈ seen
    · simp only [hy, if_true]; exact ih seen
    · simp only [hy, if_false, List.map_cons, List.nodup_cons]
      refine ⟨?_, ih _⟩
      intro hmem
      rw [List.mem_map] at hmem
      obtain ⟨z, hz, hkz⟩ := hmem
      have := (firstSeenAux_sub key ys _ z hz).2
      apply this
      simp [hkz]

theorem mem_firstSeenBy_id {α : Type} [DecidableEq α] (l : List α) (x : α) :
    x ∈ firstSeenBy id l ↔ x ∈ l := by
  constructor
  · intro h; exact (firstSeenAux_sub id l [] x h).1
  · intro h
    obtain ⟨y, hy, hk⟩ := firstSeenAux_cover id l [] x h (by simp)
    simp only [id] at hk
    subst hk; exact hy

/-! ### `scanLines` -/

theorem scanLinesAux_line (l : Bytes) (hl : ∀ b ∈ l, b ≠ 10) (rest cur : Bytes) :
    scanLinesAux (l ++ 10 :: rest) cur = dropCR (cur.reverse ++ l) :: scanLinesAux rest [] := by
  induction l generalizing cur with
  | nil => simp [scanLinesAux]
  | cons b t ih =>
    have hb : b ≠ 10 := hl b (by simp)
    simp only [List.cons_append, scanLinesAux, hb, if_false]
    rw [ih (fun x hx => hl x (by simp [hx]))]
    simp

end GolibsVerif.C08
