/-
Lemmas for C10, package L (lock discipline): soundness of the checker with respect to the
path semantics, and the invariant of the thread system.
-/
import GolibsVerif.Model.C10IR

namespace GolibsVerif.C10.Lock

/-! ## The checker is monotone in its continuations -/

mutual
theorem anaS_mono : ∀ (x : Stmt) (kr1 kr2 k1 k2 : St → Bool) (s : St),
    (∀ s', kr1 s' = true → kr2 s' = true) → (∀ s', k1 s' = true → k2 s' = true) →
    anaS x kr1 k1 s = true → anaS x kr2 k2 s = true
  | .lock, kr1, kr2, k1, k2, s, hr, hk, h => by
    simp only [anaS] at h ⊢; split <;> simp_all
  | .unlock, kr1, kr2, k1, k2, s, hr, hk, h => by
    simp only [anaS] at h ⊢; split <;> simp_all
  | .acc a l, kr1, kr2, k1, k2, s, hr, hk, h => by
    simp only [anaS] at h ⊢; split <;> simp_all
  | .publish, kr1, kr2, k1, k2, s, hr, hk, h => by
    simp only [anaS] at h ⊢; split <;> simp_all
  | .callOnDelete, kr1, kr2, k1, k2, s, hr, hk, h => by
    simp only [anaS] at h ⊢; split <;> simp_all
  | .ret, kr1, kr2, k1, k2, s, hr, hk, h => by
    simp only [anaS] at h ⊢; exact hr s h
  | .ite c t e, kr1, kr2, k1, k2, s, hr, hk, h => by
    simp only [anaS] at h ⊢
    refine anaB_mono c _ _ _ _ s hr ?_ h
    intro s' hs'
    simp only [Bool.and_eq_true] at hs' ⊢
    exact ⟨anaB_mono t kr1 kr2 k1 k2 s' hr hk hs'.1, anaB_mono e kr1 kr2 k1 k2 s' hr hk hs'.2⟩
  | .loop c b, kr1, kr2, k1, k2, s, hr, hk, h => by
    simp only [anaS] at h ⊢
    refine anaB_mono c _ _ _ _ s hr ?_ h
    intro s' hs'
    simp only [Bool.and_eq_true] at hs' ⊢
    exact ⟨anaB_mono b kr1 kr2 _ _ s' hr (fun _ h => h) hs'.1, hk s' hs'.2⟩
  | .call _ b, kr1, kr2, k1, k2, s, hr, hk, h => by
    simp only [anaS] at h ⊢
    exact anaB_mono b k1 k2 k1 k2 s hk hk h
theorem anaB_mono : ∀ (b : List Stmt) (kr1 kr2 k1 k2 : St → Bool) (s : St),
    (∀ s', kr1 s' = true → kr2 s' = true) → (∀ s', k1 s' = true → k2 s' = true) →
    anaB b kr1 k1 s = true → anaB b kr2 k2 s = true
  | [], kr1, kr2, k1, k2, s, hr, hk, h => by
    simp only [anaB] at h ⊢; exact hk s h
  | x :: r, kr1, kr2, k1, k2, s, hr, hk, h => by
    simp only [anaB] at h ⊢
    exact anaS_mono x _ _ _ _ s hr (fun s' hs' => anaB_mono r kr1 kr2 k1 k2 s' hr hk hs') h
end

/-- monotonicity in the fall-through continuation only -/
theorem anaB_mono_k (b : List Stmt) (kr k1 k2 : St → Bool) (s : St)
    (hk : ∀ s', k1 s' = true → k2 s' = true) (h : anaB b kr k1 s = true) : anaB b kr k2 s = true :=
  anaB_mono b kr kr k1 k2 s (fun _ h => h) hk h

theorem anaB_append (a b : List Stmt) (kr k : St → Bool) (s : St) :
    anaB (a ++ b) kr k s = anaB a kr (fun s' => anaB b kr k s') s := by
  induction a generalizing s k with
  | nil => simp [anaB]
  | cons x r ih =>
    simp only [List.cons_append, anaB]
    congr 1
    funext s'
    exact ih k s'

/-! ## Soundness with respect to `Exec` -/

theorem walk_append (s : St) (p q : List Ev) :
    walk s (p ++ q) = (walk s p).bind fun s' => walk s' q := by
  induction p generalizing s with
  | nil => simp [walk]
  | cons e p ih =>
    simp only [List.cons_append, walk]
    cases h : s.step e with
    | none => simp
    | some s1 => simp [ih]

/-- Every path through `b`, from a state the checker accepts with continuations `kr`, `k`: all
events are permitted; a path that ends in a `return` ends in a state satisfying `kr`; a path that
falls off the end of `b` ends in a state satisfying `k`. -/
theorem exec_sound {b : List Stmt} {p : List Ev} {o : Bool} (hx : Exec b p o) :
    ∀ (kr k : St → Bool) (s : St), anaB b kr k s = true →
      ∃ s', walk s p = some s' ∧ (if o then kr s' = true else k s' = true) := by
  induction hx with
  | nil =>
    intro kr k s h
    exact ⟨s, rfl, by simpa [anaB] using h⟩
  | lock _ ih | unlock _ ih | acc _ ih | publish _ ih | callOnDelete _ ih =>
    intro kr k s h
    simp only [anaB, anaS] at h
    split at h
    · rename_i s1 hs1
      obtain ⟨s', hw, hk⟩ := ih kr k s1 h
      exact ⟨s', by simp [walk, hs1, hw], hk⟩
    · cases h
  | ret =>
    intro kr k s h
    simp only [anaB, anaS] at h
    exact ⟨s, rfl, by simpa using h⟩
  | iteThen _ ih =>
    intro kr k s h
    apply ih kr k s
    simp only [anaB, anaS] at h
    rw [anaB_append]
    refine anaB_mono_k _ _ _ _ s ?_ h
    intro s1 hs1
    simp only [Bool.and_eq_true] at hs1
    rw [anaB_append]
    exact hs1.1
  | iteElse _ ih =>
    intro kr k s h
    apply ih kr k s
    simp only [anaB, anaS] at h
    rw [anaB_append]
    refine anaB_mono_k _ _ _ _ s ?_ h
    intro s1 hs1
    simp only [Bool.and_eq_true] at hs1
    rw [anaB_append]
    exact hs1.2
  | loopExit _ ih =>
    intro kr k s h
    apply ih kr k s
    simp only [anaB, anaS] at h
    rw [anaB_append]
    refine anaB_mono_k _ _ _ _ s ?_ h
    intro s1 hs1
    simp only [Bool.and_eq_true] at hs1
    exact hs1.2
  | loopIter _ ih =>
    intro kr k s h
    apply ih kr k s
    have h0 := h
    simp only [anaB, anaS] at h
    rw [anaB_append]
    refine anaB_mono_k _ _ _ _ s ?_ h
    intro s1 hs1
    simp only [Bool.and_eq_true] at hs1
    rw [anaB_append]
    refine anaB_mono_k _ _ _ _ s1 ?_ hs1.1
    intro s2 hs2
    have : s2 = s := by simpa using hs2
    subst this
    exact h0
  | @call n b r p q o' o _ _ ih1 ih2 =>
    -- the callee's path, whether it returned or fell off its end, ends in a state from which
    -- the rest of the caller is accepted
    intro kr k s h
    simp only [anaB, anaS] at h
    obtain ⟨s1, hw1, hk1⟩ := ih1 _ _ s h
    have hk1' : anaB r kr k s1 = true := by
      cases o' <;> simpa using hk1
    obtain ⟨s', hw2, hk2⟩ := ih2 kr k s1 hk1'
    exact ⟨s', by simp [walk_append, hw1, hw2], hk2⟩

/-! ## Thread level -/

theorem accOK_unpublished {h pb : Bool} {a : Acc} {l : Loc} (hk : accOK h pb a l = true) :
    accOK h false a l = true := by
  cases l with
  | itemKV f => cases f <;> cases a <;> simp_all [accOK]
  | _ => exact hk

theorem step_stepH {s s' : St} {e : Ev} (h : s.step e = some s') : stepH s.held e = some s'.held := by
  cases e with
  | acc a l =>
    simp only [St.step] at h
    split at h
    · rename_i hk
      cases h
      simp [stepH, accOK_unpublished hk]
    · cases h
  | _ =>
    simp only [St.step] at h
    split at h <;> cases h <;> simp_all [stepH]

theorem walk_walkH {s s' : St} {p : List Ev} (h : walk s p = some s') : walkH s.held p = some s'.held := by
  induction p generalizing s with
  | nil => simp only [walk] at h; cases h; rfl
  | cons e p ih =>
    simp only [walk] at h
    cases hs : s.step e with
    | none => simp [hs] at h
    | some s1 =>
      simp only [hs, Option.bind_some] at h
      simp [walkH, step_stepH hs, ih h]

theorem walkH_append (h : Bool) (p q : List Ev) :
    walkH h (p ++ q) = (walkH h p).bind fun h' => walkH h' q := by
  induction p generalizing h with
  | nil => simp [walkH]
  | cons e p ih =>
    simp only [List.cons_append, walkH]
    cases hs : stepH h e with
    | none => simp
    | some h1 => simp [ih]

theorem walkH_prefix {h : Bool} {p q : List Ev} (hs : (walkH h (p ++ q)).isSome = true) :
    (walkH h p).isSome = true := by
  rw [walkH_append] at hs
  cases hp : walkH h p with
  | none => simp [hp] at hs
  | some _ => rfl

theorem analyse_path {m : Method} (hm : analyse m = true) {p : List Ev} (hp : Path m.body p) :
    WellLocked p := by
  rcases hp with hx | ⟨p', hx, rfl⟩
  · obtain ⟨s', hw, hk⟩ := exec_sound hx _ _ init hm
    exact ⟨s', hw, by simpa using hk⟩
  · obtain ⟨s', hw, hk⟩ := exec_sound hx _ _ init hm
    have hh : s'.held = false := by simpa using hk
    refine ⟨s', ?_, hh⟩
    simp [walk_append, hw, walk, St.step, hh]

/-- A thread that only runs analysed methods walks (at thread level) from "not held" back to
"not held" over any whole number of calls. -/
theorem threadTrace_walkH {prog : List Method} (hprog : ∀ m ∈ prog, analyse m = true)
    {evs : List Ev} (ht : ThreadTrace prog evs) : walkH false evs = some false := by
  induction ht with
  | nil => rfl
  | call hm hp _ ih =>
    obtain ⟨s', hw, hh⟩ := analyse_path (hprog _ hm) hp
    have := walk_walkH hw
    simp only [init] at this
    rw [walkH_append, this, hh]
    simpa using ih
  | @reenter a b q _ _ ih1 ih2 =>
    -- the callback is called without the lock, and the inserted calls return without it
    rw [walkH_append] at ih1 ⊢
    cases ha : walkH false a with
    | none => rw [ha] at ih1; simp at ih1
    | some h1 =>
      rw [ha] at ih1
      simp only [Option.bind_some, walkH] at ih1 ⊢
      cases hc : stepH h1 .callOnDelete with
      | none => rw [hc] at ih1; simp at ih1
      | some h2 =>
        rw [hc] at ih1
        simp only [Option.bind_some] at ih1 ⊢
        have : h2 = false := by
          simp only [stepH] at hc
          split at hc <;> simp_all
        subst this
        rw [walkH_append, ih2]
        simpa using ih1

theorem threadOf_walkH {prog : List Method} (hprog : ∀ m ∈ prog, analyse m = true)
    {evs : List Ev} (ht : ThreadOf prog evs) : (walkH false evs).isSome = true := by
  obtain ⟨rest, hr⟩ := ht
  apply walkH_prefix (q := rest)
  rw [threadTrace_walkH hprog hr]
  rfl

/-! ## The thread system -/

theorem proj_append (t : Tid) (a b : Trace) : proj t (a ++ b) = proj t a ++ proj t b := by
  induction a with
  | nil => rfl
  | cons x r ih =>
    obtain ⟨u, e⟩ := x
    simp only [List.cons_append, proj]
    split <;> simp [ih]

theorem mrun_append (o : Option Tid) (a b : Trace) :
    mrun o (a ++ b) = (mrun o a).bind fun o' => mrun o' b := by
  induction a generalizing o with
  | nil => simp [mrun]
  | cons x r ih =>
    obtain ⟨u, e⟩ := x
    simp only [List.cons_append, mrun]
    cases mstep o u e with
    | none => simp
    | some o1 => simp [ih]

theorem grun_append (o : Option Tid) (a b : Trace) :
    grun o (a ++ b) = (grun o a).bind fun o' => grun o' b := by
  induction a generalizing o with
  | nil => simp [grun]
  | cons x r ih =>
    obtain ⟨u, e⟩ := x
    simp only [List.cons_append, grun]
    cases gstep o u e with
    | none => simp
    | some o1 => simp [ih]

theorem stepH_held_of_other {h h' : Bool} {e : Ev} (hs : stepH h e = some h')
    (hl : e ≠ .lock) (hu : e ≠ .unlock) : h' = h := by
  cases e with
  | lock => exact absurd rfl hl
  | unlock => exact absurd rfl hu
  | _ =>
    simp only [stepH] at hs
    split at hs <;> simp_all

/-- The central invariant.  `h t` is the `held` flag of thread `t`, `o` the owner of the mutex;
if they agree (`h t ↔ o = some t`), every thread's remaining events are well locked at thread
level and the remaining trace respects the mutex, then the combined machine accepts the
remaining trace, and at its end the flags and the owner agree again. -/
theorem grun_of_threads (tr : Trace) :
    ∀ (h : Tid → Bool) (o : Option Tid),
      (∀ t, h t = true ↔ o = some t) →
      (∀ t, (walkH (h t) (proj t tr)).isSome = true) →
      (mrun o tr).isSome = true →
      ∃ o', grun o tr = some o' ∧ ∀ t, walkH (h t) (proj t tr) = some (decide (o' = some t)) := by
  induction tr with
  | nil =>
    intro h o hinv _ _
    refine ⟨o, rfl, fun t => ?_⟩
    simp only [proj, walkH]
    congr 1
    have := hinv t
    cases ht : h t <;> simp_all
  | cons x r ih =>
    obtain ⟨u, e⟩ := x
    intro h o hinv hth hmx
    -- the step of thread u
    have hu := hth u
    simp only [proj, if_true, walkH] at hu
    cases hs : stepH (h u) e with
    | none => simp [hs] at hu
    | some h1 =>
      simp only [hs, Option.bind_some] at hu
      simp only [mrun] at hmx
      cases hm : mstep o u e with
      | none => simp [hm] at hmx
      | some o1 =>
        simp only [hm, Option.bind_some] at hmx
        -- the new flags
        let h' : Tid → Bool := fun t => if t = u then h1 else h t
        have hproj : ∀ t, walkH (h t) (proj t ((u, e) :: r)) = walkH (h' t) (proj t r) := by
          intro t
          by_cases htu : t = u
          · subst htu
            simp [proj, walkH, hs, h']
          · have : ¬ u = t := fun h => htu h.symm
            simp [proj, this, h', htu]
        have hth' : ∀ t, (walkH (h' t) (proj t r)).isSome = true := by
          intro t; rw [← hproj t]; exact hth t
        -- the step of the combined machine, and the invariant afterwards
        have key : gstep o u e = some o1 ∧ ∀ t, h' t = true ↔ o1 = some t := by
          by_cases hl : e = .lock
          · subst hl
            simp only [stepH] at hs
            split at hs
            · cases hs
            · rename_i hhu
              cases hs
              simp only [mstep] at hm
              split at hm
              · rename_i ho
                cases hm
                refine ⟨by simp [gstep, ho], fun t => ?_⟩
                by_cases htu : t = u
                · simp [h', htu]
                · have hne : ¬ u = t := fun h => htu h.symm
                  have := hinv t
                  simp only [ho] at this
                  simp [h', htu, hne]
                  cases hht : h t
                  · rfl
                  · exact absurd (this.mp hht) (by simp)
              · cases hm
          · by_cases hul : e = .unlock
            · subst hul
              simp only [stepH] at hs
              split at hs
              · rename_i hhu
                cases hs
                simp only [mstep] at hm
                cases hm
                have hou : o = some u := (hinv u).mp hhu
                refine ⟨by simp [gstep, hou], fun t => ?_⟩
                by_cases htu : t = u
                · simp [h', htu]
                · have := hinv t
                  simp only [hou] at this
                  have hne : ¬ u = t := fun h => htu h.symm
                  simp [h', htu]
                  cases hht : h t
                  · rfl
                  · have := this.mp hht
                    simp at this
                    exact absurd this hne
              · cases hs
            · have hh1 : h1 = h u := stepH_held_of_other hs hl hul
              have ho1 : o1 = o := by
                cases e <;> simp_all [mstep]
              subst ho1
              have hdec : decide (o1 = some u) = h u := by
                have := hinv u
                cases hhu : h u <;> simp_all
              refine ⟨?_, fun t => ?_⟩
              · cases e <;> simp_all [gstep]
              · by_cases htu : t = u
                · subst htu
                  simp only [h', if_true, hh1]
                  exact hinv t
                · simp only [h', htu, if_false]
                  exact hinv t
        obtain ⟨o', hg, hfin⟩ := ih h' o1 key.2 hth' hmx
        refine ⟨o', by simp [grun, key.1, hg], fun t => ?_⟩
        rw [hproj t]
        exact hfin t

/-! ## Facts about accepted traces of the combined machine -/

/-- From owner `o ≠ some t2` to owner `some t2`: thread `t2` locked on the way. -/
theorem grun_reach_owner {t2 : Tid} (m : Trace) :
    ∀ (o : Option Tid), o ≠ some t2 → grun o m = some (some t2) →
      ∃ m2 m3, m = m2 ++ (t2, Ev.lock) :: m3 := by
  induction m with
  | nil =>
    intro o hne h
    simp only [grun] at h
    cases h
    exact absurd rfl hne
  | cons x r ih =>
    obtain ⟨u, e⟩ := x
    intro o hne h
    simp only [grun] at h
    cases hs : gstep o u e with
    | none => simp [hs] at h
    | some o1 =>
      simp only [hs, Option.bind_some] at h
      by_cases ho1 : o1 = some t2
      · -- this very step made t2 the owner: it is a lock by t2
        have : u = t2 ∧ e = .lock := by
          cases e with
          | lock =>
            simp only [gstep] at hs
            split at hs
            · cases hs; simp at ho1; exact ⟨ho1, rfl⟩
            · cases hs
          | unlock =>
            simp only [gstep] at hs
            split at hs
            · cases hs; cases ho1
            · cases hs
          | _ =>
            simp only [gstep] at hs
            split at hs
            · cases hs; exact absurd ho1 hne
            · cases hs
        obtain ⟨rfl, rfl⟩ := this
        exact ⟨[], r, rfl⟩
      · obtain ⟨m2, m3, hm⟩ := ih o1 ho1 h
        exact ⟨(u, e) :: m2, m3, by simp [hm]⟩

/-- From owner `some t1` to owner `some t2` with `t1 ≠ t2`: an unlock by `t1`, later a lock by
`t2`. -/
theorem grun_handover {t1 t2 : Tid} (hne : t1 ≠ t2) (m : Trace) :
    grun (some t1) m = some (some t2) →
      ∃ m1 m2 m3, m = m1 ++ (t1, Ev.unlock) :: m2 ++ (t2, Ev.lock) :: m3 := by
  induction m with
  | nil =>
    intro h
    simp only [grun] at h
    cases h
    exact absurd rfl hne
  | cons x r ih =>
    obtain ⟨u, e⟩ := x
    intro h
    simp only [grun] at h
    cases hs : gstep (some t1) u e with
    | none => simp [hs] at h
    | some o1 =>
      simp only [hs, Option.bind_some] at h
      by_cases ho1 : o1 = some t1
      · subst ho1
        obtain ⟨m1, m2, m3, hm⟩ := ih h
        exact ⟨(u, e) :: m1, m2, m3, by simp [hm]⟩
      · -- the owner changed: only an unlock by t1 can do that
        have : u = t1 ∧ e = .unlock ∧ o1 = none := by
          cases e with
          | lock => simp [gstep] at hs
          | unlock =>
            simp only [gstep] at hs
            split at hs
            · rename_i hou
              cases hs
              simp at hou
              exact ⟨hou.symm, rfl, rfl⟩
            · cases hs
          | _ =>
            simp only [gstep] at hs
            split at hs
            · cases hs; exact absurd rfl ho1
            · cases hs
        obtain ⟨rfl, rfl, rfl⟩ := this
        obtain ⟨m2, m3, hm⟩ := grun_reach_owner r none (by simp) h
        exact ⟨[], m2, m3, by simp [hm]⟩

/-- A permitted access to a lock-protected location, or a racy-looking access pair on an
unprotected one. -/
theorem gstep_acc {o o' : Option Tid} {t : Tid} {a : Acc} {l : Loc}
    (h : gstep o t (.acc a l) = some o') :
    o' = o ∧ accOK (decide (o = some t)) false a l = true := by
  simp only [gstep] at h
  split at h
  · rename_i hk
    cases h
    refine ⟨rfl, ?_⟩
    simp only [stepH] at hk
    split at hk
    · assumption
    · cases hk
  · cases h

/-- Under the hypotheses of the race-freedom theorems the combined machine accepts every prefix
of the trace, and the owner it computes is exactly the thread whose own events put it inside a
critical section. -/
theorem system_accepts {prog : List Method} (hprog : ∀ m ∈ prog, analyse m = true) {tr : Trace}
    (hthreads : ∀ t, ThreadOf prog (proj t tr)) (hmutex : MutexOK tr)
    {pre post : Trace} (hsplit : tr = pre ++ post) :
    ∃ o', grun none pre = some o' ∧ ∀ t, walkH false (proj t pre) = some (decide (o' = some t)) := by
  subst hsplit
  apply grun_of_threads pre (fun _ => false) none
  · intro t; simp
  · intro t
    have := threadOf_walkH hprog (hthreads t)
    rw [proj_append] at this
    exact walkH_prefix this
  · have : (mrun none (pre ++ post)).isSome = true := hmutex
    rw [mrun_append] at this
    cases hp : mrun none pre with
    | none => simp [hp] at this
    | some _ => rfl

/-- Once the local item is published, it stays published and is never written again on a
permitted path. -/
theorem walk_published {s s' : St} {p : List Ev} (h : walk s p = some s') (hp : s.published = true) :
    s'.published = true ∧ ∀ e ∈ p, e ≠ Ev.acc .write (.itemKV true) := by
  induction p generalizing s with
  | nil => simp only [walk] at h; cases h; exact ⟨hp, by simp⟩
  | cons e p ih =>
    simp only [walk] at h
    cases hs : s.step e with
    | none => simp [hs] at h
    | some s1 =>
      simp only [hs, Option.bind_some] at h
      have h1 : s1.published = true ∧ e ≠ Ev.acc .write (.itemKV true) := by
        cases e with
        | acc a l =>
          simp only [St.step] at hs
          split at hs
          · rename_i hk
            cases hs
            refine ⟨hp, ?_⟩
            intro he
            cases he
            simp [accOK, hp] at hk
          · cases hs
        | _ =>
          simp only [St.step] at hs
          split at hs <;> cases hs <;> simp_all
      obtain ⟨h2, h3⟩ := ih h h1.1
      refine ⟨h2, ?_⟩
      intro e' he'
      cases he' with
      | head => exact h1.2
      | tail _ hm => exact h3 e' hm

end GolibsVerif.C10.Lock
