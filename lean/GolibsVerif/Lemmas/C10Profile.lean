/-
Lemmas for C10, package L: the critical-section profile computed by `flowB`
(Model/C10IR.lean) covers every control path (`flow_sound`).
-/
import GolibsVerif.Model.C10IR

namespace GolibsVerif.C10.Lock

/-! ## Lists as sets -/

theorem mem_dedup {α} [DecidableEq α] {a : α} {l : List α} : a ∈ dedup l ↔ a ∈ l := by
  induction l with
  | nil => simp [dedup]
  | cons x r ih =>
    simp only [dedup]
    split
    · rename_i h
      constructor
      · intro h'; exact List.mem_cons_of_mem _ (ih.mp h')
      · intro h'
        cases h' with
        | head => exact h
        | tail _ h'' => exact ih.mpr h''
    · simp [ih]

theorem mem_union {α} [DecidableEq α] {a : α} {x y : List α} : a ∈ union x y ↔ a ∈ x ∨ a ∈ y := by
  simp [union, mem_dedup]

/-! ## Membership in the results of the combinators -/

theorem Res.join_falls (a b : Res) (x : PSt) : x ∈ (a.join b).falls ↔ x ∈ a.falls ∨ x ∈ b.falls := by
  cases a; cases b; simp [Res.join, mem_union]
theorem Res.join_rets (a b : Res) (x : PSt) : x ∈ (a.join b).rets ↔ x ∈ a.rets ∨ x ∈ b.rets := by
  cases a; cases b; simp [Res.join, mem_union]
theorem Res.join_facts (a b : Res) (x : Fact) : x ∈ (a.join b).facts ↔ x ∈ a.facts ∨ x ∈ b.facts := by
  cases a; cases b; simp [Res.join, mem_union]

theorem Res.from_cons (s : PSt) (S : List PSt) (g : PSt → Res) :
    Res.from (s :: S) g = (g s).join (Res.from S g) := rfl

theorem Res.from_falls (S : List PSt) (g : PSt → Res) (x : PSt) :
    x ∈ (Res.from S g).falls ↔ ∃ s ∈ S, x ∈ (g s).falls := by
  induction S with
  | nil => simp [Res.from]
  | cons s r ih => simp [Res.from_cons, Res.join_falls, ih]
theorem Res.from_rets (S : List PSt) (g : PSt → Res) (x : PSt) :
    x ∈ (Res.from S g).rets ↔ ∃ s ∈ S, x ∈ (g s).rets := by
  induction S with
  | nil => simp [Res.from]
  | cons s r ih => simp [Res.from_cons, Res.join_rets, ih]
theorem Res.from_facts (S : List PSt) (g : PSt → Res) (x : Fact) :
    x ∈ (Res.from S g).facts ↔ ∃ s ∈ S, x ∈ (g s).facts := by
  induction S with
  | nil => simp [Res.from]
  | cons s r ih => simp [Res.from_cons, Res.join_facts, ih]

theorem Res.bind_falls (r : Res) (g : PSt → Res) (x : PSt) :
    x ∈ (r.bind g).falls ↔ ∃ s ∈ r.falls, x ∈ (g s).falls := by
  obtain ⟨f, rt, fa⟩ := r
  have h := Res.from_falls f g x
  simp only [Res.bind]
  cases hR : Res.from f g with
  | mk f2 r2 a2 => rw [hR] at h; simpa using h
theorem Res.bind_rets (r : Res) (g : PSt → Res) (x : PSt) :
    x ∈ (r.bind g).rets ↔ x ∈ r.rets ∨ ∃ s ∈ r.falls, x ∈ (g s).rets := by
  obtain ⟨f, rt, fa⟩ := r
  have h := Res.from_rets f g x
  simp only [Res.bind]
  cases hR : Res.from f g with
  | mk f2 r2 a2 => rw [hR] at h; simp only [mem_union]; simp only at h; rw [h]
theorem Res.bind_facts (r : Res) (g : PSt → Res) (x : Fact) :
    x ∈ (r.bind g).facts ↔ x ∈ r.facts ∨ ∃ s ∈ r.falls, x ∈ (g s).facts := by
  obtain ⟨f, rt, fa⟩ := r
  have h := Res.from_facts f g x
  simp only [Res.bind]
  cases hR : Res.from f g with
  | mk f2 r2 a2 => rw [hR] at h; simp only [mem_union]; simp only at h; rw [h]

theorem Res.loop_falls (a b : Res) (x : PSt) : x ∈ (a.loop b).falls ↔ x ∈ b.falls := by
  cases a; cases b; simp [Res.loop]
theorem Res.loop_rets (a b : Res) (x : PSt) : x ∈ (a.loop b).rets ↔ x ∈ a.rets ∨ x ∈ b.rets := by
  cases a; cases b; simp [Res.loop, mem_union]
theorem Res.loop_facts (a b : Res) (x : Fact) : x ∈ (a.loop b).facts ↔ x ∈ a.facts ∨ x ∈ b.facts := by
  cases a; cases b; simp [Res.loop, mem_union]

/-! ## The order on results -/

/-- `a ≤ b`: everything `a` allows, `b` allows -/
def Res.le (a b : Res) : Prop :=
  (∀ x ∈ a.falls, x ∈ b.falls) ∧ (∀ x ∈ a.rets, x ∈ b.rets) ∧ (∀ x ∈ a.facts, x ∈ b.facts)

theorem Res.le_refl (a : Res) : a.le a := ⟨fun _ h => h, fun _ h => h, fun _ h => h⟩

theorem Res.le_trans {a b c : Res} (h1 : a.le b) (h2 : b.le c) : a.le c :=
  ⟨fun x h => h2.1 x (h1.1 x h), fun x h => h2.2.1 x (h1.2.1 x h), fun x h => h2.2.2 x (h1.2.2 x h)⟩

theorem Res.join_le_left (a b : Res) : a.le (a.join b) :=
  ⟨fun x h => (Res.join_falls a b x).mpr (.inl h), fun x h => (Res.join_rets a b x).mpr (.inl h),
   fun x h => (Res.join_facts a b x).mpr (.inl h)⟩

theorem Res.join_le_right (a b : Res) : b.le (a.join b) :=
  ⟨fun x h => (Res.join_falls a b x).mpr (.inr h), fun x h => (Res.join_rets a b x).mpr (.inr h),
   fun x h => (Res.join_facts a b x).mpr (.inr h)⟩

/-- the general way to bound a `bind` -/
theorem Res.bind_le_of {r t : Res} {k : PSt → Res}
    (hr : ∀ x ∈ r.rets, x ∈ t.rets) (hf : ∀ x ∈ r.facts, x ∈ t.facts)
    (hk : ∀ s ∈ r.falls, (k s).le t) : (r.bind k).le t := by
  refine ⟨fun x h => ?_, fun x h => ?_, fun x h => ?_⟩
  · obtain ⟨s, hs, hx⟩ := (Res.bind_falls r k x).mp h
    exact (hk s hs).1 x hx
  · rcases (Res.bind_rets r k x).mp h with h | ⟨s, hs, hx⟩
    · exact hr x h
    · exact (hk s hs).2.1 x hx
  · rcases (Res.bind_facts r k x).mp h with h | ⟨s, hs, hx⟩
    · exact hf x h
    · exact (hk s hs).2.2 x hx

theorem Res.bind_mono {r r' : Res} {g g' : PSt → Res} (hr : r.le r') (hg : ∀ s, (g s).le (g' s)) :
    (r.bind g).le (r'.bind g') := by
  refine Res.bind_le_of (fun x h => ?_) (fun x h => ?_) (fun s hs => ?_)
  · exact (Res.bind_rets r' g' x).mpr (.inl (hr.2.1 x h))
  · exact (Res.bind_facts r' g' x).mpr (.inl (hr.2.2 x h))
  · refine ⟨fun x h => ?_, fun x h => ?_, fun x h => ?_⟩
    · exact (Res.bind_falls r' g' x).mpr ⟨s, hr.1 s hs, (hg s).1 x h⟩
    · exact (Res.bind_rets r' g' x).mpr (.inr ⟨s, hr.1 s hs, (hg s).2.1 x h⟩)
    · exact (Res.bind_facts r' g' x).mpr (.inr ⟨s, hr.1 s hs, (hg s).2.2 x h⟩)

theorem Res.bind_assoc_le (r : Res) (g h : PSt → Res) :
    (r.bind fun s => (g s).bind h).le ((r.bind g).bind h) := by
  refine Res.bind_le_of (fun x hx => ?_) (fun x hx => ?_) (fun s hs => ?_)
  · exact (Res.bind_rets _ h x).mpr (.inl ((Res.bind_rets r g x).mpr (.inl hx)))
  · exact (Res.bind_facts _ h x).mpr (.inl ((Res.bind_facts r g x).mpr (.inl hx)))
  · refine Res.bind_le_of (fun x hx => ?_) (fun x hx => ?_) (fun s2 hs2 => ?_)
    · exact (Res.bind_rets _ h x).mpr (.inl ((Res.bind_rets r g x).mpr (.inr ⟨s, hs, hx⟩)))
    · exact (Res.bind_facts _ h x).mpr (.inl ((Res.bind_facts r g x).mpr (.inr ⟨s, hs, hx⟩)))
    · have hs2' : s2 ∈ (r.bind g).falls := (Res.bind_falls r g s2).mpr ⟨s, hs, hs2⟩
      refine ⟨fun x hx => ?_, fun x hx => ?_, fun x hx => ?_⟩
      · exact (Res.bind_falls _ h x).mpr ⟨s2, hs2', hx⟩
      · exact (Res.bind_rets _ h x).mpr (.inr ⟨s2, hs2', hx⟩)
      · exact (Res.bind_facts _ h x).mpr (.inr ⟨s2, hs2', hx⟩)

theorem Res.from_mono {S S' : List PSt} {g : PSt → Res} (h : ∀ x ∈ S, x ∈ S') :
    (Res.from S g).le (Res.from S' g) := by
  refine ⟨fun x hx => ?_, fun x hx => ?_, fun x hx => ?_⟩
  · obtain ⟨s, hs, hx⟩ := (Res.from_falls S g x).mp hx
    exact (Res.from_falls S' g x).mpr ⟨s, h s hs, hx⟩
  · obtain ⟨s, hs, hx⟩ := (Res.from_rets S g x).mp hx
    exact (Res.from_rets S' g x).mpr ⟨s, h s hs, hx⟩
  · obtain ⟨s, hs, hx⟩ := (Res.from_facts S g x).mp hx
    exact (Res.from_facts S' g x).mpr ⟨s, h s hs, hx⟩

theorem Res.le_from {S : List PSt} {g : PSt → Res} {s : PSt} (hs : s ∈ S) : (g s).le (Res.from S g) :=
  ⟨fun x hx => (Res.from_falls S g x).mpr ⟨s, hs, hx⟩, fun x hx => (Res.from_rets S g x).mpr ⟨s, hs, hx⟩,
   fun x hx => (Res.from_facts S g x).mpr ⟨s, hs, hx⟩⟩

/-! ## The fixpoint iteration reaches a closed set: there are only 12 states -/

def allPSt : List PSt :=
  [⟨.pre, .zero⟩, ⟨.pre, .one⟩, ⟨.pre, .many⟩, ⟨.held, .zero⟩, ⟨.held, .one⟩, ⟨.held, .many⟩,
   ⟨.free false, .zero⟩, ⟨.free false, .one⟩, ⟨.free false, .many⟩,
   ⟨.free true, .zero⟩, ⟨.free true, .one⟩, ⟨.free true, .many⟩]

theorem mem_allPSt (s : PSt) : s ∈ allPSt := by
  obtain ⟨r, n⟩ := s
  cases r with
  | free cb => cases cb <;> cases n <;> simp [allPSt]
  | _ => cases n <;> simp [allPSt]

/-- how many states are not in `S` -/
def missing (S : List PSt) : Nat := (allPSt.filter fun x => decide (x ∉ S)).length

theorem filter_length_lt {α} {l : List α} {p q : α → Bool} (hpq : ∀ x, p x = true → q x = true)
    {y : α} (hy : y ∈ l) (hq : q y = true) (hp : p y = false) :
    (l.filter p).length < (l.filter q).length := by
  induction l with
  | nil => cases hy
  | cons x r ih =>
    have hle : (r.filter p).length ≤ (r.filter q).length := by
      clear ih hy
      induction r with
      | nil => simp
      | cons z r ih =>
        simp only [List.filter_cons]
        cases hpz : p z
        · cases hqz : q z <;> simp <;> omega
        · simp [hpq z hpz]; omega
    cases hy with
    | head =>
      simp only [List.filter_cons, hq, hp]
      simp
      omega
    | tail _ hy' =>
      have := ih hy'
      simp only [List.filter_cons]
      cases hpx : p x
      · cases hqx : q x <;> simp <;> omega
      · simp [hpq x hpx]; omega

theorem missing_le (S : List PSt) : missing S ≤ 12 := by
  have : (allPSt.filter fun x => decide (x ∉ S)).length ≤ allPSt.length := List.length_filter_le _ _
  simpa [missing, allPSt] using this

/-- with enough fuel the iteration returns a set that contains the start set and is closed -/
theorem lfp_closed (f : PSt → List PSt) : ∀ (n : Nat) (S : List PSt), missing S < n →
    (∀ x ∈ S, x ∈ lfp f n S) ∧ ∀ x ∈ lfp f n S, ∀ y ∈ f x, y ∈ lfp f n S := by
  intro n
  induction n with
  | zero => intro S h; omega
  | succ n ih =>
    intro S hm
    simp only [lfp]
    split
    · rename_i hc
      refine ⟨fun x h => h, fun x hx y hy => ?_⟩
      have := List.all_eq_true.mp hc y (List.mem_flatMap.mpr ⟨x, hx, hy⟩)
      simpa using this
    · rename_i hc
      -- some new state appears: fewer states are missing afterwards
      have : ∃ y ∈ S.flatMap f, y ∉ S := by
        false_or_by_contra
        rename_i hno
        apply hc
        apply List.all_eq_true.mpr
        intro y hy
        simp only [decide_eq_true_eq]
        false_or_by_contra
        rename_i hny
        exact hno ⟨y, hy, hny⟩
      obtain ⟨y, hy, hyS⟩ := this
      have hlt : missing (union S (S.flatMap f)) < missing S := by
        apply filter_length_lt (y := y)
        · intro x hx
          simp only [decide_eq_true_eq] at hx ⊢
          intro hxS
          exact hx (mem_union.mpr (.inl hxS))
        · exact mem_allPSt y
        · simpa using hyS
        · simp only [decide_eq_false_iff_not, Decidable.not_not]
          exact mem_union.mpr (.inr hy)
      obtain ⟨h1, h2⟩ := ih (union S (S.flatMap f)) (by omega)
      exact ⟨fun x hx => h1 x (mem_union.mpr (.inl hx)), h2⟩

/-- the iteration stays inside every closed set that contains the start set -/
theorem lfp_least (f : PSt → List PSt) (I : List PSt) (hI : ∀ x ∈ I, ∀ y ∈ f x, y ∈ I) :
    ∀ (n : Nat) (S : List PSt), (∀ x ∈ S, x ∈ I) → ∀ x ∈ lfp f n S, x ∈ I := by
  intro n
  induction n with
  | zero => intro S hS x hx; exact hS x (by simpa [lfp] using hx)
  | succ n ih =>
    intro S hS x hx
    simp only [lfp] at hx
    split at hx
    · exact hS x hx
    · refine ih _ (fun z hz => ?_) x hx
      rcases mem_union.mp hz with hz | hz
      · exact hS z hz
      · obtain ⟨w, hw, hzw⟩ := List.mem_flatMap.mp hz
        exact hI w (hS w hw) z hzw

/-! ## Unfolding `flowB` / `flowS` -/

theorem flowB_nil (s : PSt) : flowB [] s = ⟨[s], [], []⟩ := by simp [flowB]

theorem flowB_cons (x : Stmt) (r : List Stmt) (s : PSt) :
    flowB (x :: r) s = (flowS x s).bind (flowB r) := by simp [flowB]

/-- the loop-head invariant computed for a loop entered in state `s` -/
def loopInv (c b : List Stmt) (s : PSt) : List PSt :=
  lfp (fun s0 => ((flowB c s0).bind (flowB b)).falls) 13 [s]

theorem flowS_loop (c b : List Stmt) (s : PSt) :
    flowS (.loop c b) s =
      Res.loop (Res.from (loopInv c b s) fun s0 => (flowB c s0).bind (flowB b))
        (Res.from (loopInv c b s) (flowB c)) := by
  simp [flowS, loopInv]

theorem loopInv_spec (c b : List Stmt) (s : PSt) :
    s ∈ loopInv c b s ∧
    ∀ x ∈ loopInv c b s, ∀ y ∈ ((flowB c x).bind (flowB b)).falls, y ∈ loopInv c b s := by
  have hm : missing [s] < 13 := by have := missing_le [s]; omega
  obtain ⟨h1, h2⟩ := lfp_closed (fun s0 => ((flowB c s0).bind (flowB b)).falls) 13 [s] hm
  exact ⟨h1 s (by simp), h2⟩

/-- entering the loop in a state of the invariant computed for `s` gives nothing new -/
theorem flowS_loop_le {c b : List Stmt} {s s2 : PSt} (h2 : s2 ∈ loopInv c b s) :
    (flowS (.loop c b) s2).le (flowS (.loop c b) s) := by
  have hsub : ∀ x ∈ loopInv c b s2, x ∈ loopInv c b s := by
    apply lfp_least _ _ (loopInv_spec c b s).2
    intro x hx
    have : x = s2 := by simpa using hx
    subst this
    exact h2
  rw [flowS_loop, flowS_loop]
  have hi := Res.from_mono (g := fun s0 => (flowB c s0).bind (flowB b)) hsub
  have he := Res.from_mono (g := flowB c) hsub
  refine ⟨fun x hx => ?_, fun x hx => ?_, fun x hx => ?_⟩
  · exact (Res.loop_falls _ _ x).mpr (he.1 x ((Res.loop_falls _ _ x).mp hx))
  · rcases (Res.loop_rets _ _ x).mp hx with h | h
    · exact (Res.loop_rets _ _ x).mpr (.inl (hi.2.1 x h))
    · exact (Res.loop_rets _ _ x).mpr (.inr (he.2.1 x h))
  · rcases (Res.loop_facts _ _ x).mp hx with h | h
    · exact (Res.loop_facts _ _ x).mpr (.inl (hi.2.2 x h))
    · exact (Res.loop_facts _ _ x).mpr (.inr (he.2.2 x h))

theorem flowB_append_le (a b : List Stmt) (s : PSt) :
    (flowB (a ++ b) s).le ((flowB a s).bind (flowB b)) := by
  induction a generalizing s with
  | nil =>
    simp only [List.nil_append, flowB_nil]
    refine ⟨fun x hx => ?_, fun x hx => ?_, fun x hx => ?_⟩
    · exact (Res.bind_falls _ _ x).mpr ⟨s, by simp, hx⟩
    · exact (Res.bind_rets _ _ x).mpr (.inr ⟨s, by simp, hx⟩)
    · exact (Res.bind_facts _ _ x).mpr (.inr ⟨s, by simp, hx⟩)
  | cons x r ih =>
    simp only [List.cons_append, flowB_cons]
    exact Res.le_trans (Res.bind_mono (Res.le_refl _) fun s1 => ih s1) (Res.bind_assoc_le _ _ _)

/-! ## Soundness with respect to `Exec` -/

theorem pathFacts_append (s : PSt) (p q : List Ev) :
    pathFacts s (p ++ q) = pathFacts s p ++ pathFacts (pwalk s p) q := by
  induction p generalizing s with
  | nil => simp [pathFacts, pwalk]
  | cons e p ih => simp [pathFacts, pwalk, ih]

theorem pwalk_append (s : PSt) (p q : List Ev) : pwalk s (p ++ q) = pwalk (pwalk s p) q := by
  induction p generalizing s with
  | nil => simp [pwalk]
  | cons e p ih => simp [pwalk, ih]

/-- the result `R` covers the path `p` started in `s` with outcome `o` -/
def Cov (R : Res) (s : PSt) (p : List Ev) (o : Bool) : Prop :=
  (∀ f ∈ pathFacts s p, f ∈ R.facts) ∧ (if o then pwalk s p ∈ R.rets else pwalk s p ∈ R.falls)

theorem Cov.mono {R R' : Res} {s : PSt} {p : List Ev} {o : Bool} (h : R.le R') (hc : Cov R s p o) :
    Cov R' s p o := by
  refine ⟨fun f hf => h.2.2 f (hc.1 f hf), ?_⟩
  have := hc.2
  cases o
  · simpa using h.1 _ (by simpa using this)
  · simpa using h.2.1 _ (by simpa using this)

theorem Cov.bind {R : Res} {g : PSt → Res} {s : PSt} {p q : List Ev} {o : Bool}
    (h1 : Cov R s p false) (h2 : Cov (g (pwalk s p)) (pwalk s p) q o) : Cov (R.bind g) s (p ++ q) o := by
  have hfall : pwalk s p ∈ R.falls := by simpa using h1.2
  refine ⟨fun f hf => ?_, ?_⟩
  · rw [pathFacts_append] at hf
    rcases List.mem_append.mp hf with hf | hf
    · exact (Res.bind_facts R g f).mpr (.inl (h1.1 f hf))
    · exact (Res.bind_facts R g f).mpr (.inr ⟨_, hfall, h2.1 f hf⟩)
  · rw [pwalk_append]
    have := h2.2
    cases o
    · exact (Res.bind_falls R g _).mpr ⟨_, hfall, by simpa using this⟩
    · exact (Res.bind_rets R g _).mpr (.inr ⟨_, hfall, by simpa using this⟩)

theorem Cov.bind_ret {R : Res} {g : PSt → Res} {s : PSt} {p : List Ev}
    (h1 : Cov R s p true) : Cov (R.bind g) s p true := by
  refine ⟨fun f hf => (Res.bind_facts R g f).mpr (.inl (h1.1 f hf)), ?_⟩
  have := h1.2
  exact (Res.bind_rets R g _).mpr (.inl (by simpa using this))

theorem cov_prim (s : PSt) (e : Ev) : Cov (Res.prim s e) s [e] false := by
  refine ⟨fun f hf => ?_, ?_⟩
  · simpa [pathFacts, Res.prim] using hf
  · simp [pwalk, Res.prim]

/-- Every path through `b` from profile state `s` is covered by `flowB b s`: the facts of all its
events are collected, and its final state is among the fall-through states (or, if it ended in
a `return`, among the return states). -/
theorem flow_sound {b : List Stmt} {p : List Ev} {o : Bool} (hx : Exec b p o) :
    ∀ s, Cov (flowB b s) s p o := by
  induction hx with
  | nil =>
    intro s
    rw [flowB_nil]
    exact ⟨by simp [pathFacts], by simp [pwalk]⟩
  | @lock r p o _ ih =>
    intro s
    rw [flowB_cons]
    have : flowS .lock s = Res.prim s .lock := by simp [flowS]
    rw [this]
    exact Cov.bind (p := [Ev.lock]) (cov_prim s .lock) (ih _)
  | @unlock r p o _ ih =>
    intro s
    rw [flowB_cons]
    have : flowS .unlock s = Res.prim s .unlock := by simp [flowS]
    rw [this]
    exact Cov.bind (p := [Ev.unlock]) (cov_prim s .unlock) (ih _)
  | @acc a l r p o _ ih =>
    intro s
    rw [flowB_cons]
    have : flowS (.acc a l) s = Res.prim s (.acc a l) := by simp [flowS]
    rw [this]
    exact Cov.bind (p := [Ev.acc a l]) (cov_prim s (.acc a l)) (ih _)
  | @publish r p o _ ih =>
    intro s
    rw [flowB_cons]
    have : flowS .publish s = Res.prim s .publish := by simp [flowS]
    rw [this]
    exact Cov.bind (p := [Ev.publish]) (cov_prim s .publish) (ih _)
  | @callOnDelete r p o _ ih =>
    intro s
    rw [flowB_cons]
    have : flowS .callOnDelete s = Res.prim s .callOnDelete := by simp [flowS]
    rw [this]
    exact Cov.bind (p := [Ev.callOnDelete]) (cov_prim s .callOnDelete) (ih _)
  | @ret r =>
    intro s
    rw [flowB_cons]
    have : flowS .ret s = ⟨[], [s], []⟩ := by simp [flowS]
    rw [this]
    exact Cov.bind_ret ⟨by simp [pathFacts], by simp [pwalk]⟩
  | @iteThen c t e r p o _ ih =>
    intro s
    refine Cov.mono ?_ (ih s)
    rw [flowB_cons]
    have hS : flowS (.ite c t e) s = (flowB c s).bind fun s1 => (flowB t s1).join (flowB e s1) := by
      simp [flowS]
    rw [hS]
    refine Res.le_trans (flowB_append_le c (t ++ r) s) ?_
    refine Res.le_trans (Res.bind_mono (Res.le_refl _) fun s1 => ?_) (Res.bind_assoc_le _ _ _)
    exact Res.le_trans (flowB_append_le t r s1) (Res.bind_mono (Res.join_le_left _ _) fun _ => Res.le_refl _)
  | @iteElse c t e r p o _ ih =>
    intro s
    refine Cov.mono ?_ (ih s)
    rw [flowB_cons]
    have hS : flowS (.ite c t e) s = (flowB c s).bind fun s1 => (flowB t s1).join (flowB e s1) := by
      simp [flowS]
    rw [hS]
    refine Res.le_trans (flowB_append_le c (e ++ r) s) ?_
    refine Res.le_trans (Res.bind_mono (Res.le_refl _) fun s1 => ?_) (Res.bind_assoc_le _ _ _)
    exact Res.le_trans (flowB_append_le e r s1) (Res.bind_mono (Res.join_le_right _ _) fun _ => Res.le_refl _)
  | @loopExit c b r p o _ ih =>
    intro s
    refine Cov.mono ?_ (ih s)
    rw [flowB_cons, flowS_loop]
    refine Res.le_trans (flowB_append_le c r s) (Res.bind_mono ?_ fun _ => Res.le_refl _)
    have hs := (loopInv_spec c b s).1
    have he := Res.le_from (g := flowB c) hs
    refine ⟨fun x hx => ?_, fun x hx => ?_, fun x hx => ?_⟩
    · exact (Res.loop_falls _ _ x).mpr (he.1 x hx)
    · exact (Res.loop_rets _ _ x).mpr (.inr (he.2.1 x hx))
    · exact (Res.loop_facts _ _ x).mpr (.inr (he.2.2 x hx))
  | @loopIter c b r p o _ ih =>
    intro s
    refine Cov.mono ?_ (ih s)
    -- condition, body, then the loop again from a state of the invariant
    have hinv := loopInv_spec c b s
    have hi := Res.le_from (g := fun s0 => (flowB c s0).bind (flowB b)) hinv.1
    refine Res.le_trans (flowB_append_le c (b ++ .loop c b :: r) s) ?_
    refine Res.le_trans (Res.bind_mono (Res.le_refl _) fun s1 => flowB_append_le b (.loop c b :: r) s1) ?_
    refine Res.le_trans (Res.bind_assoc_le _ _ _) ?_
    rw [flowB_cons]
    refine Res.bind_le_of (fun x hx => ?_) (fun x hx => ?_) (fun s2 hs2 => ?_)
    · refine (Res.bind_rets _ _ x).mpr (.inl ?_)
      rw [flowS_loop]
      exact (Res.loop_rets _ _ x).mpr (.inl (hi.2.1 x hx))
    · refine (Res.bind_facts _ _ x).mpr (.inl ?_)
      rw [flowS_loop]
      exact (Res.loop_facts _ _ x).mpr (.inl (hi.2.2 x hx))
    · rw [flowB_cons]
      exact Res.bind_mono (flowS_loop_le (hinv.2 s hinv.1 s2 hs2)) fun _ => Res.le_refl _
  | @call n b r p q o' o _ _ ih1 ih2 =>
    intro s
    rw [flowB_cons]
    refine Cov.bind ?_ (ih2 _)
    have h1 := ih1 s
    have hS : flowS (.call n b) s = match flowB b s with | ⟨f, rt, fa⟩ => ⟨union f rt, [], fa⟩ := by
      simp [flowS]
    rw [hS]
    rcases hR : flowB b s with ⟨f, rt, fa⟩
    rw [hR] at h1
    refine ⟨h1.1, ?_⟩
    have := h1.2
    cases o'
    · simpa using mem_union.mpr (.inl (by simpa using this))
    · simpa using mem_union.mpr (.inr (by simpa using this))

/-! ## From the collected facts to the normalised profile -/

def Loc.decode : Nat → Option Loc
  | 0 => some .items | 1 => some .usage | 2 => some .size | 3 => some .hit | 4 => some .miss
  | 5 => some .conf | 6 => some (.itemKV true) | 7 => some (.itemKV false) | _ => none

def Acc.decode : Nat → Option Acc
  | 0 => some .read | 1 => some .write | 2 => some .atomic | _ => none

def Item.decode (n : Nat) : Option Item :=
  if n = 100 then some .publish else if n = 101 then some .callOnDelete else
    match Loc.decode (n / 3), Acc.decode (n % 3) with
    | some l, some a => some (.acc a l)
    | _, _ => none

theorem Item.decode_code (x : Item) : Item.decode x.code = some x := by
  cases x with
  | publish => rfl
  | callOnDelete => rfl
  | acc a l =>
    cases l with
    | itemKV f => cases f <;> cases a <;> rfl
    | _ => cases a <;> rfl

theorem Item.code_inj {x y : Item} (h : x.code = y.code) : x = y := by
  have := Item.decode_code x
  rw [h, Item.decode_code y] at this
  exact (Option.some.inj this).symm

theorem mem_insertItem {x y : Item} {l : List Item} : y ∈ insertItem x l ↔ y = x ∨ y ∈ l := by
  induction l with
  | nil => simp [insertItem]
  | cons z r ih =>
    simp only [insertItem]
    split
    · simp
    · split
      · rename_i h
        have := Item.code_inj h
        subst this
        simp
      · simp [ih, or_left_comm]

theorem mem_foldr_insertItem {y : Item} {l : List Item} : y ∈ l.foldr insertItem [] ↔ y ∈ l := by
  induction l with
  | nil => simp
  | cons x r ih => simp [mem_insertItem, ih]

/-- `S` accounts for `i`: it contains it, or `i` is a read and `S` contains the write of the same
location (the normal form drops a read that is subsumed by a write). -/
def covers (S : List Item) (i : Item) : Prop := i ∈ S ∨ ∃ l, i = .acc .read l ∧ .acc .write l ∈ S

theorem normItems_covers {l : List Item} {i : Item} (h : i ∈ l) : covers (normItems l) i := by
  have hs : i ∈ l.foldr insertItem [] := mem_foldr_insertItem.mpr h
  simp only [covers, normItems, List.mem_filter, Bool.not_eq_true']
  cases hsub : i.subsumedIn (l.foldr insertItem [])
  · exact .inl ⟨hs, rfl⟩
  · right
    -- only a read can be subsumed; the write that subsumes it is never dropped
    cases i with
    | publish => simp [Item.subsumedIn] at hsub
    | callOnDelete => simp [Item.subsumedIn] at hsub
    | acc a loc =>
      cases a with
      | write => simp [Item.subsumedIn] at hsub
      | atomic => simp [Item.subsumedIn] at hsub
      | read =>
        refine ⟨loc, rfl, ?_, ?_⟩
        · simpa [Item.subsumedIn] using hsub
        · simp [Item.subsumedIn]

theorem normItems_atomic {l : List Item} {loc : Loc} (h : Item.acc .atomic loc ∈ l) :
    Item.acc .atomic loc ∈ normItems l := by
  rcases normItems_covers h with h | ⟨_, h, _⟩
  · exact h
  · cases h

theorem normItems_nonread {l : List Item} {i : Item} (h : i ∈ l) (hn : ∀ loc, i ≠ .acc .read loc) :
    i ∈ normItems l := by
  rcases normItems_covers h with h | ⟨loc, h, _⟩
  · exact h
  · exact absurd h (hn loc)

def Profile.region (P : Profile) : RegKind → List Item
  | .pre => P.pre | .held => P.held | .free => P.free

/-- what a fact of a path means for a profile -/
def Profile.has (P : Profile) : Fact → Prop
  | .item r i => covers (P.region r) i
  | .atomic i => i ∈ P.atomics ∨ ∀ loc, i ≠ .acc .atomic loc
  | .sections n => n ≤ P.sections
  | .relockBare => P.relockBare = true

theorem foldl_sections_ge (fs : List Fact) (n0 k : Nat) (h : Fact.sections k ∈ fs ∨ k ≤ n0) :
    k ≤ fs.foldl (fun n f => match f with | .sections k => max n k | _ => n) n0 := by
  induction fs generalizing n0 with
  | nil =>
    rcases h with h | h
    · cases h
    · simpa using h
  | cons f r ih =>
    simp only [List.foldl_cons]
    apply ih
    rcases h with h | h
    · cases h with
      | head => right; simp; omega
      | tail _ h => exact .inl h
    · right
      cases f <;> simp <;> omega

theorem profileOfFacts_has (name : String) (fs : List Fact) {f : Fact} (hf : f ∈ fs) :
    (profileOfFacts name fs).has f := by
  cases f with
  | item r i =>
    cases r
    · exact normItems_covers (List.mem_filterMap.mpr ⟨_, hf, rfl⟩)
    · exact normItems_covers (List.mem_filterMap.mpr ⟨_, hf, rfl⟩)
    · exact normItems_covers (List.mem_filterMap.mpr ⟨_, hf, rfl⟩)
  | atomic i =>
    simp only [Profile.has, profileOfFacts]
    cases i with
    | acc a loc =>
      cases a with
      | atomic => exact .inl (normItems_atomic (List.mem_filterMap.mpr ⟨_, hf, rfl⟩))
      | _ => right; intro l h; cases h
    | _ => right; intro l h; cases h
  | sections n => exact foldl_sections_ge fs 0 n (.inl hf)
  | relockBare =>
    simp only [Profile.has, profileOfFacts]
    simpa using hf

/-! ## Locks on a path and the section count -/

theorem sections_two_of_lock (p : List Ev) : ∀ (s : PSt), s.nsec ≠ .zero → 1 ≤ p.count .lock →
    Fact.sections 2 ∈ pathFacts s p := by
  induction p with
  | nil => intro s _ h; simp at h
  | cons e p ih =>
    intro s hs h
    simp only [pathFacts, List.mem_append]
    by_cases he : e = .lock
    · subst he
      left
      simp only [PSt.facts, List.mem_append]
      right
      have : s.nsec.succ.toNat = 2 := by
        cases hn : s.nsec <;> simp_all [NSec.succ, NSec.toNat]
      simp [this]
    · right
      apply ih
      · cases e <;> simp_all [PSt.step]
        split <;> simp_all
      · rw [List.count_cons] at h
        simpa [he] using h

theorem sections_two_of_locks (p : List Ev) : ∀ (s : PSt), 2 ≤ p.count .lock →
    Fact.sections 2 ∈ pathFacts s p := by
  induction p with
  | nil => intro s h; simp at h
  | cons e p ih =>
    intro s h
    simp only [pathFacts, List.mem_append]
    right
    by_cases he : e = .lock
    · subst he
      apply sections_two_of_lock
      · cases hn : s.nsec <;> simp [PSt.step, NSec.succ, hn]
      · rw [List.count_cons] at h
        simp only [beq_self_eq_true, ↓reduceIte] at h
        omega
    · apply ih
      rw [List.count_cons] at h
      simpa [he] using h

end GolibsVerif.C10.Lock
