/-
`partitionCmpFunc` and `partitionEqualCmpFunc` of `Go/Sort.lean`.  Nothing is assumed about the
comparator: the postconditions are what the tests performed by the loops establish.
-/
import GolibsVerif.Lemmas.SortInsertion

namespace GolibsVerif.Slices

variable {α : Type}

/-! ### the scanning loops -/

theorem scanLess_spec (cmp : α → α → Int) (p : α) : ∀ (n : Nat) (d : Array α) (a i j : Int),
    (j + 1 - i).toNat = n → at? d a = some p → 0 ≤ i → i ≤ j + 1 → j < d.size →
    ∃ i', scanLess cmp d a i j = .ok i' ∧ i ≤ i' ∧ i' ≤ j + 1 ∧
      (∀ k x, i ≤ k → k < i' → at? d k = some x → cmp x p < 0) ∧
      (i' ≤ j → ∀ x, at? d i' = some x → ¬ cmp x p < 0) := by
  intro n
  induction n with
  | zero =>
    intro d a i j hn hp hi hij hj
    have : ¬ i ≤ j := by omega
    rw [scanLess]
    simp only [this, if_false]
    exact ⟨i, rfl, Int.le_refl _, hij, by intro k x; omega, by intro h; omega⟩
  | succ n ih =>
    intro d a i j hn hp hi hij hj
    have hle : i ≤ j := by omega
    obtain ⟨x, hx⟩ := at?_eq_some (d := d) (i := i) (by omega) (by omega)
    rw [scanLess]
    simp only [hle, if_true, get_ok hx, get_ok hp, ok_bind]
    split
    · rename_i hc
      obtain ⟨i', h1, h2, h3, h4, h5⟩ := ih d a (i + 1) j (by omega) hp (by omega) (by omega) hj
      refine ⟨i', h1, by omega, h3, ?_, h5⟩
      intro k y hk1 hk2 hy
      by_cases hk : k = i
      · subst hk; rw [hx] at hy; cases hy; exact hc
      · exact h4 k y (by omega) hk2 hy
    · rename_i hc
      refine ⟨i, rfl, Int.le_refl _, by omega, by intro k x; omega, ?_⟩
      intro _ y hy
      rw [hx] at hy; cases hy; exact hc

theorem scanNotLess_spec (cmp : α → α → Int) (p : α) : ∀ (n : Nat) (d : Array α) (a i j : Int),
    (j + 1 - i).toNat = n → at? d a = some p → 0 ≤ i → i ≤ j + 1 → j < d.size →
    ∃ j', scanNotLess cmp d a i j = .ok j' ∧ j' ≤ j ∧ i ≤ j' + 1 ∧
      (∀ k x, j' < k → k ≤ j → at? d k = some x → ¬ cmp x p < 0) ∧
      (i ≤ j' → ∀ x, at? d j' = some x → cmp x p < 0) := by
  intro n
  induction n with
  | zero =>
    intro d a i j hn hp hi hij hj
    have : ¬ i ≤ j := by omega
    rw [scanNotLess]
    simp only [this, if_false]
    exact ⟨j, rfl, Int.le_refl _, hij, by intro k x; omega, by intro h; omega⟩
  | succ n ih =>
    intro d a i j hn hp hi hij hj
    have hle : i ≤ j := by omega
    obtain ⟨x, hx⟩ := at?_eq_some (d := d) (i := j) (by omega) (by omega)
    rw [scanNotLess]
    simp only [hle, if_true, get_ok hx, get_ok hp, ok_bind]
    split
    · rename_i hc
      have hc' : ¬ cmp x p < 0 := by simpa using hc
      obtain ⟨j', h1, h2, h3, h4, h5⟩ := ih d a i (j - 1) (by omega) hp hi (by omega) (by omega)
      refine ⟨j', h1, by omega, h3, ?_, h5⟩
      intro k y hk1 hk2 hy
      by_cases hk : k = j
      · subst hk; rw [hx] at hy; cases hy; exact hc'
      · exact h4 k y hk1 (by omega) hy
    · rename_i hc
      have hc' : cmp x p < 0 := by simpa using hc
      refine ⟨j, rfl, Int.le_refl _, by omega, by intro k x; omega, ?_⟩
      intro _ y hy
      rw [hx] at hy; cases hy; exact hc'

/-! ### the main loop of `partitionCmpFunc` -/

theorem partitionLoop_spec (cmp : α → α → Int) (p : α) (b : Int) : ∀ (fuel : Nat) (d : Array α) (a i j : Int),
    (j + 1 - i).toNat < fuel → at? d a = some p → 0 ≤ a → a < i → i ≤ j + 1 → j < b → b ≤ d.size →
    AllOn (fun x => cmp x p < 0) d (a + 1) i → AllOn (fun x => ¬ cmp x p < 0) d (j + 1) b →
    ∃ d' j', partitionLoop cmp fuel d a i j = .ok (d', j') ∧ Frame d d' (a + 1) b ∧ a ≤ j' ∧ j' < b ∧
      AllOn (fun x => cmp x p < 0) d' (a + 1) (j' + 1) ∧ AllOn (fun x => ¬ cmp x p < 0) d' (j' + 1) b := by
  intro fuel
  induction fuel with
  | zero => intro d a i j hf; omega
  | succ fuel ih =>
    intro d a i j hf hp ha hai hij hjb hb hL hR
    obtain ⟨i', h1, hi1, hi2, hi3, hi4⟩ := scanLess_spec cmp p _ d a i j rfl hp (by omega) hij (by omega)
    obtain ⟨j', h2, hj1, hj2, hj3, hj4⟩ := scanNotLess_spec cmp p _ d a i' j rfl hp (by omega) hi2 (by omega)
    simp only [partitionLoop, h1, h2, ok_bind]
    split
    · rename_i hgt
      refine ⟨d, j', rfl, Frame.refl .., by omega, by omega, ?_, ?_⟩
      · simp only [AllOn] at hL ⊢
        intro k x hk1 hk2 hx
        by_cases hk : k < i
        · exact hL k x hk1 hk hx
        · exact hi3 k x (by omega) (by omega) hx
      · simp only [AllOn] at hR ⊢
        intro k x hk1 hk2 hx
        by_cases hk : k ≤ j
        · exact hj3 k x (by omega) hk hx
        · exact hR k x (by omega) hk2 hx
    · rename_i hgt
      have hle : i' ≤ j' := by omega
      have hlt : i' < j' := by
        obtain ⟨x, hx⟩ := at?_eq_some (d := d) (i := i') (by omega) (by omega)
        have h1 := hi4 (by omega) x hx
        by_cases e : i' = j'
        · subst e; exact absurd (hj4 (Int.le_refl _) x hx) h1
        · omega
      obtain ⟨d1, hs, hf1, hat⟩ := swap_frame (d := d) (i := i') (j := j') (a := a + 1) (b := b) (by omega) hb
        (by omega) (by omega)
      simp only [hs, ok_bind]
      have hp1 : at? d1 a = some p := by rw [hf1.out a (by omega)]; exact hp
      obtain ⟨d2, j2, h3, hf2, hj2a, hj2b, hL2, hR2⟩ := ih d1 a (i' + 1) (j' - 1) (by omega) hp1 ha (by omega)
        (by omega) (by omega) (by rw [hf1.size]; exact hb)
        (by
          simp only [AllOn] at hL ⊢
          intro k x hk1 hk2 hx
          rw [hat] at hx
          have := hj4 hle
          grind)
        (by
          simp only [AllOn] at hR ⊢
          intro k x hk1 hk2 hx
          rw [hat] at hx
          have := hi4 (by omega)
          grind)
      exact ⟨d2, j2, h3, hf1.trans hf2, hj2a, hj2b, hL2, hR2⟩

theorem partition_spec (cmp : α → α → Int) (d : Array α) (a b pivot : Int) (p : α)
    (ha : 0 ≤ a) (hap : a ≤ pivot) (hpb : pivot < b) (hb : b ≤ d.size) (hp : at? d pivot = some p) :
    ∃ d' mid ap, partition cmp d a b pivot = .ok (d', mid, ap) ∧ Frame d d' a b ∧ a ≤ mid ∧ mid < b ∧
      at? d' mid = some p ∧ AllOn (fun x => cmp x p < 0) d' a mid ∧
      AllOn (fun x => ¬ cmp x p < 0) d' (mid + 1) b := by
  obtain ⟨d0, hs0, hf0, hat0⟩ := swap_frame (d := d) (i := a) (j := pivot) (a := a) (b := b) ha hb
    (by omega) (by omega)
  have hp0 : at? d0 a = some p := by rw [hat0]; simp [hp]
  have hb0 : b ≤ d0.size := by rw [hf0.size]; exact hb
  obtain ⟨i, h1, hi1, hi2, hi3, hi4⟩ := scanLess_spec cmp p _ d0 a (a + 1) (b - 1) rfl hp0 (by omega) (by omega) (by omega)
  obtain ⟨j, h2, hj1, hj2, hj3, hj4⟩ := scanNotLess_spec cmp p _ d0 a i (b - 1) rfl hp0 (by omega) hi2 (by omega)
  simp only [partition, hs0, h1, h2, ok_bind]
  split
  · rename_i hgt
    obtain ⟨d1, hs1, hf1, hat1⟩ := swap_frame (d := d0) (i := j) (j := a) (a := a) (b := b) ha hb0
      (by omega) (by omega)
    simp only [hs1, ok_bind]
    refine ⟨d1, j, true, rfl, hf0.trans hf1, by omega, by omega, ?_, ?_, ?_⟩
    · rw [hat1]; simp [hp0]
    · simp only [AllOn]
      intro k x hk1 hk2 hx
      rw [hat1] at hx
      grind
    · simp only [AllOn]
      intro k x hk1 hk2 hx
      rw [hat1] at hx
      grind
  · rename_i hgt
    have hle : i ≤ j := by omega
    have hlt : i < j := by
      obtain ⟨x, hx⟩ := at?_eq_some (d := d0) (i := i) (by omega) (by omega)
      have h1 := hi4 (by omega) x hx
      by_cases e : i = j
      · subst e; exact absurd (hj4 (Int.le_refl _) x hx) h1
      · omega
    obtain ⟨d1, hs1, hf1, hat1⟩ := swap_frame (d := d0) (i := i) (j := j) (a := a + 1) (b := b) (by omega) hb0
      (by omega) (by omega)
    have hp1 : at? d1 a = some p := by rw [hf1.out a (by omega)]; exact hp0
    have hb1 : b ≤ d1.size := by rw [hf1.size]; exact hb0
    obtain ⟨d2, j2, h3, hf2, hj2a, hj2b, hL2, hR2⟩ := partitionLoop_spec cmp p b (b - a).toNat.succ d1 a (i + 1) (j - 1)
      (by omega) hp1 ha (by omega) (by omega) (by omega) hb1
      (by
        simp only [AllOn]
        intro k x hk1 hk2 hx
        rw [hat1] at hx
        have := hj4 hle
        grind)
      (by
        simp only [AllOn]
        intro k x hk1 hk2 hx
        rw [hat1] at hx
        have := hi4 (by omega)
        grind)
    have hp2 : at? d2 a = some p := by rw [hf2.out a (by omega)]; exact hp1
    have hb2 : b ≤ d2.size := by rw [hf2.size]; exact hb1
    obtain ⟨d3, hs3, hf3, hat3⟩ := swap_frame (d := d2) (i := j2) (j := a) (a := a) (b := b) ha hb2
      (by omega) (by omega)
    simp only [hs1, h3, hs3, ok_bind]
    refine ⟨d3, j2, false, rfl, hf0.trans (((hf1.trans hf2).mono (by omega) (Int.le_refl _)).trans hf3),
      hj2a, hj2b, ?_, ?_, ?_⟩
    · rw [hat3]; simp [hp2]
    · simp only [AllOn] at hL2 ⊢
      intro k x hk1 hk2 hx
      rw [hat3] at hx
      grind
    · simp only [AllOn] at hR2 ⊢
      intro k x hk1 hk2 hx
      rw [hat3] at hx
      grind

/-! ### `partitionEqualCmpFunc` -/

theorem scanEqUp_spec (cmp : α → α → Int) (p : α) : ∀ (n : Nat) (d : Array α) (a i j : Int),
    (j + 1 - i).toNat = n → at? d a = some p → 0 ≤ i → i ≤ j + 1 → j < d.size →
    ∃ i', scanEqUp cmp d a i j = .ok i' ∧ i ≤ i' ∧ i' ≤ j + 1 ∧
      (∀ k x, i ≤ k → k < i' → at? d k = some x → ¬ cmp p x < 0) ∧
      (i' ≤ j → ∀ x, at? d i' = some x → cmp p x < 0) := by
  intro n
  induction n with
  | zero =>
    intro d a i j hn hp hi hij hj
    have : ¬ i ≤ j := by omega
    rw [scanEqUp]
    simp only [this, if_false]
    exact ⟨i, rfl, Int.le_refl _, hij, by intro k x; omega, by intro h; omega⟩
  | succ n ih =>
    intro d a i j hn hp hi hij hj
    have hle : i ≤ j := by omega
    obtain ⟨x, hx⟩ := at?_eq_some (d := d) (i := i) (by omega) (by omega)
    rw [scanEqUp]
    simp only [hle, if_true, get_ok hx, get_ok hp, ok_bind]
    split
    · rename_i hc
      have hc' : ¬ cmp p x < 0 := by simpa using hc
      obtain ⟨i', h1, h2, h3, h4, h5⟩ := ih d a (i + 1) j (by omega) hp (by omega) (by omega) hj
      refine ⟨i', h1, by omega, h3, ?_, h5⟩
      intro k y hk1 hk2 hy
      by_cases hk : k = i
      · subst hk; rw [hx] at hy; cases hy; exact hc'
      · exact h4 k y (by omega) hk2 hy
    · rename_i hc
      have hc' : cmp p x < 0 := by simpa using hc
      refine ⟨i, rfl, Int.le_refl _, by omega, by intro k x; omega, ?_⟩
      intro _ y hy
      rw [hx] at hy; cases hy; exact hc'

theorem scanEqDown_spec (cmp : α → α → Int) (p : α) : ∀ (n : Nat) (d : Array α) (a i j : Int),
    (j + 1 - i).toNat = n → at? d a = some p → 0 ≤ i → i ≤ j + 1 → j < d.size →
    ∃ j', scanEqDown cmp d a i j = .ok j' ∧ j' ≤ j ∧ i ≤ j' + 1 ∧
      (∀ k x, j' < k → k ≤ j → at? d k = some x → cmp p x < 0) ∧
      (i ≤ j' → ∀ x, at? d j' = some x → ¬ cmp p x < 0) := by
  intro n
  induction n with
  | zero =>
    intro d a i j hn hp hi hij hj
    have : ¬ i ≤ j := by omega
    rw [scanEqDown]
    simp only [this, if_false]
    exact ⟨j, rfl, Int.le_refl _, hij, by intro k x; omega, by intro h; omega⟩
  | succ n ih =>
    intro d a i j hn hp hi hij hj
    have hle : i ≤ j := by omega
    obtain ⟨x, hx⟩ := at?_eq_some (d := d) (i := j) (by omega) (by omega)
    rw [scanEqDown]
    simp only [hle, if_true, get_ok hx, get_ok hp, ok_bind]
    split
    · rename_i hc
      obtain ⟨j', h1, h2, h3, h4, h5⟩ := ih d a i (j - 1) (by omega) hp hi (by omega) (by omega)
      refine ⟨j', h1, by omega, h3, ?_, h5⟩
      intro k y hk1 hk2 hy
      by_cases hk : k = j
      · subst hk; rw [hx] at hy; cases hy; exact hc
      · exact h4 k y hk1 (by omega) hy
    · rename_i hc
      refine ⟨j, rfl, Int.le_refl _, by omega, by intro k x; omega, ?_⟩
      intro _ y hy
      rw [hx] at hy; cases hy; exact hc

theorem partitionEqualLoop_spec (cmp : α → α → Int) (p : α) (b : Int) :
    ∀ (fuel : Nat) (d : Array α) (a i j : Int),
    (j + 1 - i).toNat < fuel → at? d a = some p → 0 ≤ a → a < i → i ≤ j + 1 → j < b → b ≤ d.size →
    AllOn (fun x => ¬ cmp p x < 0) d (a + 1) i → AllOn (fun x => cmp p x < 0) d (j + 1) b →
    ∃ d' i', partitionEqualLoop cmp fuel d a i j = .ok (d', i') ∧ Frame d d' (a + 1) b ∧ a < i' ∧ i' ≤ b ∧
      AllOn (fun x => ¬ cmp p x < 0) d' (a + 1) i' ∧ AllOn (fun x => cmp p x < 0) d' i' b := by
  intro fuel
  induction fuel with
  | zero => intro d a i j hf; omega
  | succ fuel ih =>
    intro d a i j hf hp ha hai hij hjb hb hL hR
    obtain ⟨i', h1, hi1, hi2, hi3, hi4⟩ := scanEqUp_spec cmp p _ d a i j rfl hp (by omega) hij (by omega)
    obtain ⟨j', h2, hj1, hj2, hj3, hj4⟩ := scanEqDown_spec cmp p _ d a i' j rfl hp (by omega) hi2 (by omega)
    simp only [partitionEqualLoop, h1, h2, ok_bind]
    split
    · rename_i hgt
      refine ⟨d, i', rfl, Frame.refl .., by omega, by omega, ?_, ?_⟩
      · simp only [AllOn] at hL ⊢
        intro k x hk1 hk2 hx
        by_cases hk : k < i
        · exact hL k x hk1 hk hx
        · exact hi3 k x (by omega) (by omega) hx
      · simp only [AllOn] at hR ⊢
        intro k x hk1 hk2 hx
        by_cases hk : k ≤ j
        · exact hj3 k x (by omega) hk hx
        · exact hR k x (by omega) hk2 hx
    · rename_i hgt
      have hle : i' ≤ j' := by omega
      have hlt : i' < j' := by
        obtain ⟨x, hx⟩ := at?_eq_some (d := d) (i := i') (by omega) (by omega)
        have h1 := hi4 (by omega) x hx
        by_cases e : i' = j'
        · subst e; exact absurd h1 (hj4 (Int.le_refl _) x hx)
        · omega
      obtain ⟨d1, hs, hf1, hat⟩ := swap_frame (d := d) (i := i') (j := j') (a := a + 1) (b := b) (by omega) hb
        (by omega) (by omega)
      simp only [hs, ok_bind]
      have hp1 : at? d1 a = some p := by rw [hf1.out a (by omega)]; exact hp
      obtain ⟨d2, i2, h3, hf2, hi2a, hi2b, hL2, hR2⟩ := ih d1 a (i' + 1) (j' - 1) (by omega) hp1 ha (by omega)
        (by omega) (by omega) (by rw [hf1.size]; exact hb)
        (by
          simp only [AllOn] at hL ⊢
          intro k x hk1 hk2 hx
          rw [hat] at hx
          have := hj4 hle
          grind)
        (by
          simp only [AllOn] at hR ⊢
          intro k x hk1 hk2 hx
          rw [hat] at hx
          have := hi4 (by omega)
          grind)
      exact ⟨d2, i2, h3, hf1.trans hf2, hi2a, hi2b, hL2, hR2⟩

theorem partitionEqual_spec (cmp : α → α → Int) (d : Array α) (a b pivot : Int) (p : α)
    (ha : 0 ≤ a) (hap : a ≤ pivot) (hpb : pivot < b) (hb : b ≤ d.size) (hp : at? d pivot = some p) :
    ∃ d' mid, partitionEqual cmp d a b pivot = .ok (d', mid) ∧ Frame d d' a b ∧ a < mid ∧ mid ≤ b ∧
      at? d' a = some p ∧ AllOn (fun x => ¬ cmp p x < 0) d' (a + 1) mid ∧
      AllOn (fun x => cmp p x < 0) d' mid b := by
  obtain ⟨d0, hs0, hf0, hat0⟩ := swap_frame (d := d) (i := a) (j := pivot) (a := a) (b := b) ha hb
    (by omega) (by omega)
  have hp0 : at? d0 a = some p := by rw [hat0]; simp [hp]
  have hb0 : b ≤ d0.size := by rw [hf0.size]; exact hb
  obtain ⟨d1, mid, h1, hf1, hm1, hm2, hL, hR⟩ := partitionEqualLoop_spec cmp p b (b - a).toNat.succ d0 a (a + 1) (b - 1)
    (by omega) hp0 ha (by omega) (by omega) (by omega) hb0
    (by simp only [AllOn]; intro k x; omega) (by simp only [AllOn]; intro k x; omega)
  simp only [partitionEqual, hs0, h1, ok_bind]
  refine ⟨d1, mid, rfl, hf0.trans (hf1.mono (by omega) (Int.le_refl _)), hm1, hm2, ?_, hL, hR⟩
  rw [hf1.out a (by omega)]; exact hp0

end GolibsVerif.Slices
