/-
Lemmas about the model `Unicode.simpleFold` of `unicode.SimpleFold` (`Go/Unicode.lean`) on the
way to contract FOLD-1 (`Lemmas/UnicodeFold1.lean`, theorem `fold1_model`):

* soundness of the two binary searches (whatever they return is an entry of the table that
  matches the rune), hence `simpleFold_cases`: a rune that is not ASCII, not a `caseOrbit`
  key and in no `CaseRange` folds to itself — for *all* `Nat`;
* the checkers (`periodOk`, `asciiOk`, `rangeOk`) that the Lean kernel evaluates on the
  finitely many remaining runes (`Lemmas/UnicodeEval*.lean`), with their soundness lemmas.

The checkers force every intermediate rune to a numeral (`force`) before it is used again:
the kernel evaluates lazily and would otherwise re-evaluate `simpleFold (simpleFold a)` at
each use.
-/
import GolibsVerif.Go.Unicode
import GolibsVerif.Lemmas.C13

namespace GolibsVerif.Unicode
open GolibsVerif.Gen.UniFold
open GolibsVerif.C13 (iter lowerASCII orbitFuel orbitMem folds)

/-! ## The searches only return entries of their table -/

/-- `r` lies in the range `cr`: `cr.Lo ≤ r ≤ cr.Hi` -/
def inRange (cr : CaseRange) (r : Nat) : Prop := cr.1 ≤ r ∧ r ≤ cr.2.1

instance (cr : CaseRange) (r : Nat) : Decidable (inRange cr r) := by
  unfold inRange; infer_instance

theorem lookupCaseRangeLoop_some {tbl : Array CaseRange} {r : Nat} {cr : CaseRange} :
    ∀ (fuel lo hi : Nat) (hh : hi ≤ tbl.size),
      lookupCaseRangeLoop tbl r fuel lo hi hh = some cr → cr ∈ tbl.toList ∧ inRange cr r
  | 0, _, _, _, h => by simp [lookupCaseRangeLoop] at h
  | fuel + 1, lo, hi, hh, h => by
    unfold lookupCaseRangeLoop at h
    split at h
    · simp only at h
      split at h
      · next hc =>
        cases h
        exact ⟨Array.getElem_mem_toList _, hc⟩
      · split at h
        · exact lookupCaseRangeLoop_some fuel _ _ _ h
        · exact lookupCaseRangeLoop_some fuel _ _ _ h
    · cases h

/-- `lookupCaseRange` returns a range of the table that contains the rune (so
`convertCase` is called with `cr.Lo ≤ r ≤ cr.Hi`). -/
theorem lookupCaseRange_some {tbl : Array CaseRange} {r : Nat} {cr : CaseRange}
    (h : lookupCaseRange r tbl = some cr) : cr ∈ tbl.toList ∧ inRange cr r :=
  lookupCaseRangeLoop_some _ _ _ _ h

/-- a rune in no range of `CaseRanges` is left alone by the tail of `SimpleFold` -/
theorem foldByCaseRange_eq_self {r : Nat} (h : ∀ cr ∈ caseRanges, ¬ inRange cr r) :
    foldByCaseRange r = r := by
  unfold foldByCaseRange
  split
  · next cr hcr =>
    have := lookupCaseRange_some hcr
    exact absurd this.2 (h cr (by simpa [caseRangesA] using this.1))
  · rfl

theorem asciiFoldA_size : asciiFoldA.size = 128 := by decide +kernel

/-- **Where `SimpleFold` can move a rune at all**: a rune that is not below 128, is not a
`From` of `caseOrbit` and lies in no range of `CaseRanges` is a fixed point.  (Holds for every
natural number, in particular beyond `MaxRune`.) -/
theorem simpleFold_cases (r : Nat) :
    simpleFold r = r ∨ r < 128 ∨ (∃ e ∈ caseOrbit, e.1 = r) ∨ (∃ cr ∈ caseRanges, inRange cr r) := by
  by_cases hr : ∃ cr ∈ caseRanges, inRange cr r
  · exact .inr (.inr (.inr hr))
  have hF : foldByCaseRange r = r := foldByCaseRange_eq_self (by
    intro cr hcr hc; exact hr ⟨cr, hcr, hc⟩)
  unfold simpleFold
  split
  · exact .inl rfl
  · split
    · next h => exact .inr (.inl (by rw [asciiFoldA_size] at h; exact h))
    · simp only
      split
      · split
        · next hlo hk =>
          refine .inr (.inr (.inl ⟨caseOrbitA[_], ?_, hk⟩))
          simp [caseOrbitA]
        · exact .inl hF
      · exact .inl hF

/-! ## Checkers for kernel evaluation -/

/-- `k n`, with `n` evaluated first (a match on `n` makes the kernel compute it) -/
def force {β : Type} (n : Nat) (k : Nat → β) : β :=
  match n with
  | 0 => k 0
  | m + 1 => k (m + 1)

@[simp] theorem force_eq {β : Type} (n : Nat) (k : Nat → β) : force n k = k n := by
  cases n <;> rfl

/-- `p lo ∧ p (lo+1) ∧ … ∧ p (lo+n-1)` -/
def rangeAll (p : Nat → Bool) : Nat → Nat → Bool
  | _, 0 => true
  | lo, n + 1 => force lo fun l => p l && rangeAll p (l + 1) n

theorem rangeAll_spec {p : Nat → Bool} : ∀ (n lo : Nat), rangeAll p lo n = true →
    ∀ r, lo ≤ r → r < lo + n → p r = true
  | 0, _, _, _, _, _ => by omega
  | n + 1, lo, h, r, h1, h2 => by
    simp only [rangeAll, force_eq, Bool.and_eq_true] at h
    by_cases hr : r = lo
    · subst hr; exact h.1
    · exact rangeAll_spec n (lo + 1) h.2 r (by omega) (by omega)

/-- `p` on every rune of the range `cr` -/
def rangeOk (p : Nat → Bool) (cr : CaseRange) : Bool := rangeAll p cr.1 (cr.2.1 + 1 - cr.1)

/-- `p` on every rune `SimpleFold` can move (`simpleFold_cases`): the ASCII runes, the `From`s of
`caseOrbit`, the runes of every range of `CaseRanges`. -/
theorem special_spec {p : Nat → Bool} (h1 : rangeAll p 0 128 = true)
    (h2 : caseOrbit.all (fun e => p e.1) = true) (h3 : caseRanges.all (rangeOk p) = true) (r : Nat)
    (hr : r < 128 ∨ (∃ e ∈ caseOrbit, e.1 = r) ∨ (∃ cr ∈ caseRanges, inRange cr r)) : p r = true := by
  simp only [List.all_eq_true] at h2 h3
  rcases hr with hr | ⟨e, he, rfl⟩ | ⟨cr, hcr, hc1, hc2⟩
  · exact rangeAll_spec _ _ h1 r (by omega) (by omega)
  · exact h2 e he
  · exact rangeAll_spec _ _ (h3 cr hcr) r hc1 (by omega)

/-! The sweep over `CaseRanges` costs the kernel about half a minute, and more than
proportionally more when done in one evaluation; it is cut into 16 pieces of `pieceLen`
consecutive table entries (the last piece takes whatever remains, so the cut adapts to
regenerated tables of any length), proved in `Lemmas/UnicodeEval0…3.lean`, which Lake builds
in parallel. -/

def pieceLen : Nat := 21

/-- `q` on the entries `[i, i+n)` of `CaseRanges` -/
def pieceAll (q : CaseRange → Bool) (i n : Nat) : Bool := ((caseRanges.drop i).take n).all q

/-- `q` on the entries from `i` on -/
def restAll (q : CaseRange → Bool) (i : Nat) : Bool := (caseRanges.drop i).all q

theorem restAll_step {q : CaseRange → Bool} {i n : Nat} (h : pieceAll q i n = true)
    (hr : restAll q (i + n) = true) : restAll q i = true := by
  unfold restAll pieceAll at *
  rw [← List.take_append_drop n (caseRanges.drop i), List.all_append, h, List.drop_drop, hr]
  rfl

theorem restAll_zero {q : CaseRange → Bool} (h : restAll q 0 = true) : caseRanges.all q = true := by
  simpa [restAll] using h

/-- the walk `cur, f cur, f (f cur), …` meets `a` within `n` steps -/
def returnsWithin (f : Nat → Nat) (a : Nat) : Nat → Nat → Bool
  | 0, _ => false
  | n + 1, cur => force cur fun c => c == a || returnsWithin f a n (f c)

theorem returnsWithin_spec {f : Nat → Nat} {a : Nat} : ∀ (n cur : Nat), returnsWithin f a n cur = true →
    ∃ k, k < n ∧ iter f k cur = a
  | 0, _, h => by simp [returnsWithin] at h
  | n + 1, cur, h => by
    simp only [returnsWithin, force_eq, Bool.or_eq_true, beq_iff_eq] at h
    rcases h with h | h
    · exact ⟨0, by omega, h⟩
    · obtain ⟨k, hk, hk'⟩ := returnsWithin_spec n (f cur) h
      exact ⟨k + 1, by omega, hk'⟩

/-! ## A twin of the model that the kernel evaluates faster

The kernel evaluates lazily: in `orbitSearch` / `lookupCaseRangeLoop` the midpoint
`m := (lo + hi) >>> 1` is substituted unevaluated into `tbl[m]`, `m + 1`, … and recomputed at
every use (and nested ever deeper from one iteration to the next).  The twins below are the
same loops with `m` (and the result of the `caseOrbit` search) forced to a numeral first;
`simpleFoldK_eq` shows that they compute the same function, so the evaluations of
`Lemmas/UnicodeEval*.lean`, done on the twin, are statements about `simpleFold`. -/

def orbitSearchK (tbl : Array (Nat × Nat)) (r : Nat) :
    (fuel lo hi : Nat) → hi ≤ tbl.size → Nat
  | 0, lo, _, _ => lo
  | fuel + 1, lo, hi, hh =>
    if lo < hi then
      force ((lo + hi) >>> 1) fun m =>
        if hm : m < tbl.size then
          if tbl[m].1 < r then orbitSearchK tbl r fuel (m + 1) hi hh
          else orbitSearchK tbl r fuel lo m (Nat.le_of_lt hm)
        else lo
    else lo

def lookupCaseRangeLoopK (tbl : Array CaseRange) (r : Nat) :
    (fuel lo hi : Nat) → hi ≤ tbl.size → Option CaseRange
  | 0, _, _, _ => none
  | fuel + 1, lo, hi, hh =>
    if lo < hi then
      force ((lo + hi) >>> 1) fun m =>
        if hm : m < tbl.size then
          let cr := tbl[m]
          if cr.1 ≤ r ∧ r ≤ cr.2.1 then some cr
          else if r < cr.1 then lookupCaseRangeLoopK tbl r fuel lo m (Nat.le_of_lt hm)
          else lookupCaseRangeLoopK tbl r fuel (m + 1) hi hh
        else none
    else none

def lookupCaseRangeK (r : Nat) (tbl : Array CaseRange) : Option CaseRange :=
  lookupCaseRangeLoopK tbl r tbl.size 0 tbl.size (Nat.le_refl _)

def foldByCaseRangeK (r : Nat) : Nat :=
  match lookupCaseRangeK r caseRangesA with
  | some cr =>
    let l := convertCase LowerCase r cr
    if l ≠ r then l else convertCase UpperCase r cr
  | none => r

def simpleFoldK (r : Nat) : Nat :=
  if r > maxRune then r
  else if h : r < asciiFoldA.size then asciiFoldA[r]
  else
    force (orbitSearchK caseOrbitA r caseOrbitA.size 0 caseOrbitA.size (Nat.le_refl _)) fun lo =>
      if h : lo < caseOrbitA.size then
        if caseOrbitA[lo].1 = r then caseOrbitA[lo].2 else foldByCaseRangeK r
      else foldByCaseRangeK r

theorem mid_lt {lo hi n : Nat} (h : lo < hi) (hh : hi ≤ n) : (lo + hi) >>> 1 < n := by
  simp only [Nat.shiftRight_eq_div_pow]; omega

theorem orbitSearchK_eq (tbl : Array (Nat × Nat)) (r : Nat) : ∀ (fuel lo hi : Nat) (hh : hi ≤ tbl.size),
    orbitSearchK tbl r fuel lo hi hh = orbitSearch tbl r fuel lo hi hh
  | 0, _, _, _ => rfl
  | fuel + 1, lo, hi, hh => by
    rw [orbitSearchK, orbitSearch]
    by_cases h : lo < hi
    · rw [if_pos h, dif_pos h, force_eq, dif_pos (mid_lt h hh)]
      simp only
      split
      · exact orbitSearchK_eq tbl r fuel _ _ _
      · exact orbitSearchK_eq tbl r fuel _ _ _
    · rw [if_neg h, dif_neg h]

theorem lookupCaseRangeLoopK_eq (tbl : Array CaseRange) (r : Nat) : ∀ (fuel lo hi : Nat) (hh : hi ≤ tbl.size),
    lookupCaseRangeLoopK tbl r fuel lo hi hh = lookupCaseRangeLoop tbl r fuel lo hi hh
  | 0, _, _, _ => rfl
  | fuel + 1, lo, hi, hh => by
    rw [lookupCaseRangeLoopK, lookupCaseRangeLoop]
    by_cases h : lo < hi
    · rw [if_pos h, dif_pos h, force_eq, dif_pos (mid_lt h hh)]
      simp only
      split
      · rfl
      · split
        · exact lookupCaseRangeLoopK_eq tbl r fuel _ _ _
        · exact lookupCaseRangeLoopK_eq tbl r fuel _ _ _
    · rw [if_neg h, dif_neg h]

theorem foldByCaseRangeK_eq (r : Nat) : foldByCaseRangeK r = foldByCaseRange r := by
  have h : lookupCaseRangeK r caseRangesA = lookupCaseRange r caseRangesA := lookupCaseRangeLoopK_eq _ _ _ _ _ _
  unfold foldByCaseRangeK foldByCaseRange
  rw [h]
  cases lookupCaseRange r caseRangesA <;> rfl

/-- the twin is the model -/
theorem simpleFoldK_eq : simpleFoldK = simpleFold := by
  funext r
  unfold simpleFoldK simpleFold
  simp only [force_eq, orbitSearchK_eq, foldByCaseRangeK_eq]

/-- the `SimpleFold` cycle through `a` closes within `orbitFuel` steps (evaluated on the twin) -/
def periodOk (a : Nat) : Bool := returnsWithin simpleFoldK a orbitFuel (simpleFoldK a)

theorem periodOk_spec {a : Nat} (h : periodOk a = true) :
    ∃ n, 0 < n ∧ n ≤ orbitFuel ∧ iter simpleFold n a = a := by
  unfold periodOk at h
  rw [simpleFoldK_eq] at h
  obtain ⟨k, hk, hk'⟩ := returnsWithin_spec _ _ h
  exact ⟨k + 1, by omega, by omega, hk'⟩

/-- the other letter case of an ASCII letter -/
def otherCase (a : Nat) : Nat :=
  if 0x41 ≤ a ∧ a ≤ 0x5A then a + 32 else if 0x61 ≤ a ∧ a ≤ 0x7A then a - 32 else a

theorem lowerASCII_eq {a b : Nat} (h : lowerASCII a = lowerASCII b) (ha : a < 128) (hb : b < 128) :
    b = a ∨ b = otherCase a := by
  unfold lowerASCII at h; unfold otherCase
  repeat' split at h
  all_goals (repeat' split) <;> omega

/-- The ASCII clause of FOLD-1 for one rune `a`: every ASCII member of the fold orbit of `a`
has the ASCII lower case of `a`, and the other letter case of `a` is in the orbit. -/
def asciiOk (a : Nat) : Bool :=
  let fs := folds simpleFoldK a
  fs.all (fun c => decide (128 ≤ c) || lowerASCII c == lowerASCII a) &&
    (otherCase a == a || fs.contains (otherCase a))

theorem asciiOk_spec {a : Nat} (h : asciiOk a = true) (ha : a < 128) {b : Nat} (hb : b < 128) :
    orbitMem simpleFold a b = true ↔ lowerASCII a = lowerASCII b := by
  simp only [asciiOk, simpleFoldK_eq, Bool.and_eq_true, List.all_eq_true, Bool.or_eq_true, decide_eq_true_eq, beq_iff_eq,
    List.contains_iff_mem] at h
  simp only [orbitMem, Bool.or_eq_true, decide_eq_true_eq, List.contains_iff_mem]
  constructor
  · rintro (rfl | hm)
    · rfl
    · rcases h.1 b hm with h' | h'
      · omega
      · exact h'.symm
  · intro hl
    rcases lowerASCII_eq hl ha hb with rfl | rfl
    · exact .inl rfl
    · rcases h.2 with h' | h'
      · exact .inl h'
      · exact .inr h'

end GolibsVerif.Unicode
