/-
C05 helper lemmas, part 1: checked indexing into `a ++ b`, `strings.LastIndexByte`, and the
correspondence between a byte string and its `'.'`-separated labels, in the form the
right-to-left loops of `reversed.go` need (`frontOf R ++ l`: the labels `R` — nearest first —
each followed by a dot, then the last label `l`).
-/
import GolibsVerif.Spec.C05
import GolibsVerif.Lemmas.GoM
import GolibsVerif.Lemmas.Strings

namespace GolibsVerif.C05
open GolibsVerif.Netutil GolibsVerif.Str GolibsVerif.Netip GolibsVerif

/-! ### `GoM` accessors on concatenations -/

theorem idx_app (a b : Bytes) (c : Nat) (i : Int) (h : i = a.length) :
    GoM.idx (a ++ c :: b) i = .ok c := by
  subst h
  rw [GoM.idx_ofNat_lt _ _ (by simp)]
  simp

theorem idx_app_lt (a b : Bytes) (i : Nat) (h : i < a.length) :
    GoM.idx (a ++ b) (i : Int) = GoM.idx a (i : Int) := by
  rw [GoM.idx_ofNat_lt _ _ h, GoM.idx_ofNat_lt _ _ (by simp; omega)]
  simp [List.getElem_append_left h]

theorem sliceTo_app (a b : Bytes) (i : Int) (h : i = a.length) :
    GoM.sliceTo (a ++ b) i = .ok a := by
  subst h
  unfold GoM.sliceTo
  have := GoM.slice_ofNat (a ++ b) 0 a.length (by omega) (by simp)
  rw [show ((0 : Nat) : Int) = 0 from rfl] at this
  rw [this]; simp

theorem sliceFrom_app (a b : Bytes) (i : Int) (h : i = a.length) :
    GoM.sliceFrom (a ++ b) i = .ok b := by
  subst h
  unfold GoM.sliceFrom
  rw [GoM.slice_ofNat (a ++ b) a.length (a ++ b).length (by simp) (by simp)]
  simp

theorem slice_app (a m b : Bytes) (i j : Int) (hi : i = a.length) (hj : j = a.length + m.length) :
    GoM.slice (a ++ m ++ b) i j = .ok m := by
  subst hi
  have : j = ((a.length + m.length : Nat) : Int) := by omega
  subst this
  rw [GoM.slice_ofNat _ _ _ (by omega) (by simp)]
  simp [List.append_assoc]

/-! ### `strings.IndexByte`, `strings.LastIndexByte` -/

theorem indexByteFrom_absent (c : Nat) (a : Bytes) (i : Nat) (h : c ∉ a) :
    indexByteFrom c a i = -1 := by
  induction a generalizing i with
  | nil => rfl
  | cons b a ih =>
    have hb : b ≠ c := by intro e; apply h; simp [e]
    have ha : c ∉ a := by intro e; apply h; simp [e]
    simp [indexByteFrom, hb, ih (i + 1) ha]

theorem indexByteFrom_first (c : Nat) (a b : Bytes) (i : Nat) (h : c ∉ a) :
    indexByteFrom c (a ++ c :: b) i = ((i + a.length : Nat) : Int) := by
  induction a generalizing i with
  | nil => simp [indexByteFrom]
  | cons x a ih =>
    have hb : x ≠ c := by intro e; apply h; simp [e]
    have ha : c ∉ a := by intro e; apply h; simp [e]
    simp only [List.cons_append, indexByteFrom, hb, if_false, ih (i + 1) ha, List.length_cons]
    congr 1; omega

theorem lastIndexByte_absent (c : Nat) (l : Bytes) (h : c ∉ l) : lastIndexByte l c = -1 := by
  unfold lastIndexByte indexByte
  rw [indexByteFrom_absent c l.reverse 0 (by simpa using h)]
  rfl

theorem lastIndexByte_last (c : Nat) (a l : Bytes) (h : c ∉ l) :
    lastIndexByte (a ++ c :: l) c = a.length := by
  unfold lastIndexByte indexByte
  have : (a ++ c :: l).reverse = l.reverse ++ c :: a.reverse := by simp
  rw [this, indexByteFrom_first c l.reverse a.reverse 0 (by simpa using h)]
  show (((a ++ c :: l).length : Int) - 1 - ((0 + l.reverse.length : Nat) : Int)) = _
  simp; omega

/-! ### labels -/

/-- no dot inside -/
def DotFree (l : Bytes) : Prop := 46 ∉ l

/-- the labels `R` (nearest to the end first), each followed by a dot -/
def frontOf : List Bytes → Bytes
  | [] => []
  | l :: R => frontOf R ++ l ++ [46]

theorem frontOf_append (A B : List Bytes) : frontOf (A ++ B) = frontOf B ++ frontOf A := by
  induction A with
  | nil => simp [frontOf]
  | cons l A ih => simp [frontOf, ih, List.append_assoc]

theorem frontOf_eq_nil (R : List Bytes) : frontOf R = [] ↔ R = [] := by
  cases R <;> simp [frontOf]

theorem splitOn_dotfree (l : Bytes) (h : DotFree l) : splitOn 46 l = [l] := by
  induction l with
  | nil => rfl
  | cons b l ih =>
    have hb : b ≠ 46 := by intro e; apply h; simp [e]
    have hl : DotFree l := by intro e; apply h; simp [e]
    simp [splitOn, hb, ih hl]

theorem splitOn_dotfree_append (l t : Bytes) (h : DotFree l) :
    splitOn 46 (l ++ 46 :: t) = l :: splitOn 46 t := by
  induction l with
  | nil => simp [splitOn]
  | cons b l ih =>
    have hb : b ≠ 46 := by intro e; apply h; simp [e]
    have hl : DotFree l := by intro e; apply h; simp [e]
    simp [splitOn, hb, ih hl]

theorem splitOn_frontOf (R : List Bytes) (t : Bytes) (h : ∀ l ∈ R, DotFree l) :
    splitOn 46 (frontOf R ++ t) = R.reverse ++ splitOn 46 t := by
  induction R generalizing t with
  | nil => simp [frontOf]
  | cons l R ih =>
    have hl : DotFree l := h l (by simp)
    have hR : ∀ x ∈ R, DotFree x := fun x hx => h x (by simp [hx])
    have : frontOf (l :: R) ++ t = frontOf R ++ (l ++ 46 :: t) := by simp [frontOf]
    rw [this, ih _ hR, splitOn_dotfree_append l t hl]
    simp

theorem splitOn_pieces_dotfree (s : Bytes) : ∀ l ∈ splitOn 46 s, DotFree l := by
  induction s with
  | nil => intro l hl; simp [splitOn] at hl; subst hl; simp [DotFree]
  | cons b s ih =>
    intro l hl
    unfold splitOn at hl
    by_cases hb : b = 46
    · simp only [hb, if_true, List.mem_cons] at hl
      rcases hl with rfl | hl
      · simp [DotFree]
      · exact ih l hl
    · simp only [hb, if_false] at hl
      cases hs : splitOn 46 s with
      | nil => exact absurd hs (splitOn_ne_nil 46 s)
      | cons p ps =>
        rw [hs] at hl ih
        simp only [List.mem_cons] at hl
        rcases hl with rfl | hl
        · have := ih p (by simp)
          intro e
          simp only [List.mem_cons] at e
          rcases e with e | e
          · exact hb e.symm
          · exact this e
        · exact ih l (by simp [hl])

theorem frontOf_splitOn (s : Bytes) : frontOf (splitOn 46 s).reverse = s ++ [46] := by
  induction s with
  | nil => simp [splitOn, frontOf]
  | cons b s ih =>
    unfold splitOn
    by_cases hb : b = 46
    · simp only [hb, if_true, List.reverse_cons, frontOf_append, ih]
      simp [frontOf]
    · simp only [hb, if_false]
      cases hs : splitOn 46 s with
      | nil => exact absurd hs (splitOn_ne_nil 46 s)
      | cons p ps =>
        rw [hs] at ih
        simp only [List.reverse_cons, frontOf_append] at ih ⊢
        simp only [frontOf, List.nil_append, List.append_assoc, List.cons_append] at ih ⊢
        rw [ih]

/-- every byte string is its dot-terminated leading labels followed by its last label -/
theorem exists_frontOf (a : Bytes) :
    ∃ l R, DotFree l ∧ (∀ x ∈ R, DotFree x) ∧ a = frontOf R ++ l ∧
      splitOn 46 a = R.reverse ++ [l] := by
  have h1 := frontOf_splitOn a
  have h2 := splitOn_pieces_dotfree a
  cases hs : (splitOn 46 a).reverse with
  | nil => simp at hs; exact absurd hs (splitOn_ne_nil 46 a)
  | cons l R =>
    have hsp : splitOn 46 a = R.reverse ++ [l] := by
      have := congrArg List.reverse hs; simpa using this
    refine ⟨l, R, h2 l (by simp [hsp]), fun x hx => h2 x (by simp [hsp, hx]), ?_, hsp⟩
    rw [hs] at h1
    simp only [frontOf] at h1
    exact (List.append_cancel_right h1).symm

theorem frontOf_dot_or_nil (R : List Bytes) : R = [] ∨ ∃ x, frontOf R = x ++ [46] := by
  cases R with
  | nil => exact Or.inl rfl
  | cons l R => exact Or.inr ⟨frontOf R ++ l, rfl⟩

/-- `strings.LastIndexByte(addr, '.') + 1` is the offset of the last label -/
theorem lastIndexByte_frontOf (R : List Bytes) (l : Bytes) (h : DotFree l) :
    lastIndexByte (frontOf R ++ l) 46 + 1 = (frontOf R).length := by
  cases R with
  | nil => simp [frontOf, lastIndexByte_absent 46 l h]
  | cons x R =>
    have : frontOf (x :: R) ++ l = (frontOf R ++ x) ++ 46 :: l := by simp [frontOf]
    rw [this, lastIndexByte_last 46 _ l h]
    simp [frontOf]; omega

/-- a string that ends with a dot is `frontOf` of dot-free labels -/
theorem exists_frontOf_of_dot (f : Bytes) :
    ∃ R, R ≠ [] ∧ (∀ x ∈ R, DotFree x) ∧ f ++ [46] = frontOf R := by
  obtain ⟨l, R, hl, hR, ha, _⟩ := exists_frontOf f
  refine ⟨l :: R, by simp, ?_, by simp [frontOf, ha]⟩
  intro x hx
  simp only [List.mem_cons] at hx
  rcases hx with rfl | hx
  · exact hl
  · exact hR x hx

theorem count_dot_frontOf (R : List Bytes) (h : ∀ x ∈ R, DotFree x) :
    countByte (frontOf R) 46 = R.length := by
  induction R with
  | nil => rfl
  | cons l R ih =>
    have hl : List.count 46 l = 0 := List.count_eq_zero.2 (h l (by simp))
    have := ih (fun x hx => h x (by simp [hx]))
    unfold countByte at this ⊢
    simp [frontOf, List.count_append, this, hl]

theorem count_dot_dotfree (l : Bytes) (h : DotFree l) : countByte l 46 = 0 :=
  List.count_eq_zero.2 h

/-! ### suffix tests -/

theorem hasSuffix_iff (s p : Bytes) : hasSuffix s p = true ↔ ∃ t, s = t ++ p := by
  unfold hasSuffix
  rw [List.isSuffixOf_iff_suffix]
  constructor
  · rintro ⟨t, h⟩; exact ⟨t, h.symm⟩
  · rintro ⟨t, h⟩; exact ⟨t, h.symm⟩

end GolibsVerif.C05
