/-
Kernel evaluation of the period clause of FOLD-1 (`periodOk`: the `SimpleFold` cycle through
the rune closes within `orbitFuel` steps) on the runes of the pieces 3, 7, 11, 15 of `CaseRanges`
(`pieceLen` = 21 table entries each; see `Lemmas/Unicode.lean`).  One of four files that Lake
builds in parallel; the tables are those regenerated from `$GOROOT/src/unicode/tables.go`
(`Gen/UniFold.lean`).  `decide +kernel`: the Lean kernel evaluates the model; no axioms.
-/
import GolibsVerif.Lemmas.Unicode

namespace GolibsVerif.Unicode
open GolibsVerif.Gen.UniFold

theorem periodOk_piece3 : pieceAll (rangeOk periodOk) (3 * pieceLen) pieceLen = true := by decide +kernel

theorem periodOk_piece7 : pieceAll (rangeOk periodOk) (7 * pieceLen) pieceLen = true := by decide +kernel

theorem periodOk_piece11 : pieceAll (rangeOk periodOk) (11 * pieceLen) pieceLen = true := by decide +kernel

/-- the last piece: every entry from `15 * pieceLen` on -/
theorem periodOk_piece15 : restAll (rangeOk periodOk) (15 * pieceLen) = true := by decide +kernel

end GolibsVerif.Unicode
