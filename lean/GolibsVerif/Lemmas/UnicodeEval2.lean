/-
Kernel evaluation of the period clause of FOLD-1 (`periodOk`: the `SimpleFold` cycle through
the rune closes within `orbitFuel` steps) on the runes of the pieces 2, 6, 10, 14 of `CaseRanges`
(`pieceLen` = 21 table entries each; see `Lemmas/Unicode.lean`).  One of four files that Lake
builds in parallel; the tables are those regenerated from `$GOROOT/src/unicode/tables.go`
(`Gen/UniFold.lean`).  `decide +kernel`: the Lean kernel evaluates the model; no axioms.
-/
import GolibsVerif.Lemmas.Unicode

namespace GolibsVerif.Unicode
open GolibsVerif.Gen.UniFold

theorem periodOk_piece2 : pieceAll (rangeOk periodOk) (2 * pieceLen) pieceLen = true := by decide +kernel

theorem periodOk_piece6 : pieceAll (rangeOk periodOk) (6 * pieceLen) pieceLen = true := by decide +kernel

theorem periodOk_piece10 : pieceAll (rangeOk periodOk) (10 * pieceLen) pieceLen = true := by decide +kernel

theorem periodOk_piece14 : pieceAll (rangeOk periodOk) (14 * pieceLen) pieceLen = true := by decide +kernel

end GolibsVerif.Unicode
