/-
C18 — the coarse event-driven system of `Model/C18.lean` inside the fine-grained system of
`Model/C18Fine.lean`: every coarse event is a block of script commands of the fine system
(stimulus + run to quiescence), and the block produces exactly the coarse outputs.  Helper
definitions and the per-event lemma for `coarse_embeds_in_fine` (`Theorems/C18Fine.lean`).
-/
import GolibsVerif.Lemmas.C18
import GolibsVerif.Lemmas.C18Fine

set_option linter.unusedSimpArgs false
set_option linter.unusedVariables false

namespace GolibsVerif.C18
open Fine

/-- the coarse output a fine event stands for (the other events are internal to the coarse
step: returns of callbacks, `New`, select / re-check, `close(done)`) -/
def outOf : FEv → Option Out
  | .untilCall => some .untilNext
  | .after d _ => some (.after d)
  | .refreshCall _ ctx => some (.refresh ctx)
  | .handleCall e => some (.handle .start e)
  | .shutRet e => some (.shutdownReturns e)
  | _ => none

def lpcOf : Loop → LPc
  | .waiting => .select
  | .refreshing => .inRefresh
  | .exited => .exited

/-- A quiescent fine state that a coarse state stands for: the loop goroutine blocked in the
select on an unfired timer / inside `Refresh` / gone; `Shutdown` not called / inside the final
`Refresh` / returned. -/
def Rel (s : St) (fs : FSt) : Prop :=
  fs.lpc = lpcOf s.loop ∧
  (match s.fin with
   | .idle => fs.spc = .idle
   | .refreshing => fs.spc = .inRefresh
   | .returned => ∃ e, fs.spc = .returned e) ∧
  fs.closed = s.closed ∧
  (s.loop ≠ .exited → fs.ready = false)

/-- the script commands one coarse event stands for; commands that do not apply in the state
(a return without a call in flight, …) are no-ops of the fine system, as the event is a no-op
of the coarse one -/
def expandEv (env : Env) (s : St) : Ev → List Cmd
  | .tick => [.tick, .newL]
  | .refreshReturns .loop e => [.refL e, .hdlL, .untL (env.dur s.k) (env.imm s.k), .newL]
  | .refreshReturns .shutdown e => [.refF e]
  | .shutdown => [.shut, .newF]

/-- the actions of a list of script commands -/
def cmdsActs (ros : Bool) : FSt → List Cmd → List Act
  | _, [] => []
  | fs, c :: cs => cmdActs ros fs c ++ cmdsActs ros (frun ros fs (cmdActs ros fs c)) cs

theorem cmdsActs_append (ros : Bool) (xs ys : List Cmd) :
    ∀ fs, cmdsActs ros fs (xs ++ ys) = cmdsActs ros fs xs ++ cmdsActs ros (frun ros fs (cmdsActs ros fs xs)) ys := by
  induction xs with
  | nil => intro fs; simp [cmdsActs, frun]
  | cons c cs ih => intro fs; simp [cmdsActs, ih, frun_append]

/-- the coarse history as a script of the fine system -/
def expand (env : Env) (ros : Bool) : St → List Ev → List Cmd
  | _, [] => []
  | s, ev :: evs => expandEv env s ev ++ expand env ros (step env ros s ev).1 evs

/-- the script of a whole coarse run: `Start` (the loop reaches its first `UntilNext`), the
first schedule answer, then the events -/
def coarseScript (env : Env) (ros : Bool) (evs : List Ev) : List Cmd :=
  [.untL (env.dur 0) (env.imm 0), .newL] ++ expand env ros (init env).1 evs

/-- … and its actions: ONE execution of the fine system -/
def coarseAsFineActs (env : Env) (ros : Bool) (evs : List Ev) : List Act :=
  startActs ros ++ cmdsActs ros (frun ros finit (startActs ros)) (coarseScript env ros evs)

/-- One coarse event = one block of the fine system: the block leads from a related state to
a related state and its observable events are exactly the coarse outputs.  (`Shutdown` is
called at most once: the fine system models the first call only.) -/
theorem embed_step (env : Env) (ros : Bool) (s : St) (fs : FSt) (ev : Ev) (hinv : Inv s) (hR : Rel s fs)
    (hsh : ev = .shutdown → s.closed = false) :
    Rel (step env ros s ev).1 (frun ros fs (cmdsActs ros fs (expandEv env s ev))) ∧
    (ftrace ros fs (cmdsActs ros fs (expandEv env s ev))).filterMap outOf = (step env ros s ev).2 := by
  obtain ⟨l, sp, c, r⟩ := fs
  obtain ⟨sl, sc, sf, sk⟩ := s
  obtain ⟨h1, h2, h3, h4⟩ := hR
  obtain ⟨i1, i2⟩ := hinv
  simp only at h1 h2 h3 h4 i1 i2 hsh
  subst h1 h3
  cases ev with
  | tick =>
    cases sl <;> cases sf <;> cases c <;> simp at i1 i2 h4 h2 <;>
      (try obtain ⟨e0, h2⟩ := h2) <;> subst_vars <;>
      simp [step, stepG, timerCase, refreshStart, expandEv, cmdsActs, cmdActs, Cmd.act, Cmd.imm, settleShut, settleLoop,
        shutRunnable, loopRunnable, fstep, frun, ftrace, outOf, Rel, lpcOf, selectDoneTimer, List.filterMap_cons]
  | refreshReturns who e =>
    cases who with
    | loop =>
      cases hi : env.imm sk <;> cases hp : env.pick sk <;>
      cases sl <;> cases sf <;> cases c <;> simp at i1 i2 h4 h2 <;>
        (try obtain ⟨e0, h2⟩ := h2) <;> subst_vars <;>
        (by_cases he : e = 0
         · subst he
           simp [step, stepG, timerCase, loopTop, refreshStart, expandEv, cmdsActs, cmdActs, Cmd.act, Cmd.imm, settleShut, settleLoop,
             shutRunnable, loopRunnable, fstep, frun, ftrace, outOf, Rel, lpcOf, selectDoneTimer, List.filterMap_cons, hi, hp]
         · simp [step, stepG, timerCase, loopTop, refreshStart, expandEv, cmdsActs, cmdActs, Cmd.act, Cmd.imm, settleShut, settleLoop,
             shutRunnable, loopRunnable, fstep, frun, ftrace, outOf, Rel, lpcOf, selectDoneTimer, List.filterMap_cons, he, hi, hp])
    | shutdown =>
      cases sl <;> cases sf <;> cases c <;> simp at i1 i2 h4 h2 <;>
        (try obtain ⟨e0, h2⟩ := h2) <;> subst_vars <;>
        simp [step, stepG, timerCase, refreshStart, expandEv, cmdsActs, cmdActs, Cmd.act, Cmd.imm, settleShut, settleLoop,
          shutRunnable, loopRunnable, fstep, frun, ftrace, outOf, Rel, lpcOf, selectDoneTimer, List.filterMap_cons]
  | shutdown =>
    have hc := hsh rfl
    subst hc
    cases ros <;> cases sl <;> cases sf <;> simp at i1 i2 h4 h2 <;>
      (try obtain ⟨e0, h2⟩ := h2) <;> subst_vars <;>
      simp [step, stepG, timerCase, refreshStart, expandEv, cmdsActs, cmdActs, Cmd.act, Cmd.imm, settleShut, settleLoop,
        shutRunnable, loopRunnable, fstep, frun, ftrace, outOf, Rel, lpcOf, selectDoneTimer, List.filterMap_cons]

theorem embed_init (env : Env) (ros : Bool) :
    Rel (init env).1 (frun ros finit (startActs ros ++
      cmdsActs ros (frun ros finit (startActs ros)) [.untL (env.dur 0) (env.imm 0), .newL])) ∧
    (ftrace ros finit (startActs ros ++
      cmdsActs ros (frun ros finit (startActs ros)) [.untL (env.dur 0) (env.imm 0), .newL])).filterMap outOf =
      (init env).2 := by
  cases hi : env.imm 0 <;> cases hp : env.pick 0 <;>
    simp [init, initG, loopTop, timerCase, refreshStart, startActs, cmdsActs, cmdActs, Cmd.act, Cmd.imm, settleShut,
      settleLoop, shutRunnable, loopRunnable, fstep, frun, ftrace, finit, outOf, Rel, lpcOf, selectDoneTimer,
      List.filterMap_cons, hi, hp]

/-- only a `Shutdown` call closes `done` (coarse system) -/
theorem step_closed_of_ne_shutdown (env : Env) (ros : Bool) (s : St) (ev : Ev) (h : ev ≠ .shutdown) :
    (step env ros s ev).1.closed = s.closed := by
  cases ev with
  | tick => cases hl : s.loop <;> simp [step, stepG, hl, timerCase] <;> split <;> simp
  | refreshReturns c e =>
    cases c with
    | loop =>
      cases hl : s.loop <;> simp only [step, stepG, hl]
      rcases loopTop_cases env s with h | h | h <;> rw [h.1]
    | shutdown => cases hf : s.fin <;> simp [step, stepG, hf]
  | shutdown => exact absurd rfl h

theorem embed_runFrom (env : Env) (ros : Bool) :
    ∀ (evs : List Ev) (s : St) (fs : FSt), Inv s → Rel s fs →
      (s.closed = true → Ev.shutdown ∉ evs) → evs.count .shutdown ≤ 1 →
      (ftrace ros fs (cmdsActs ros fs (expand env ros s evs))).filterMap outOf =
        flat (runFrom env ros s evs).2 := by
  intro evs
  induction evs with
  | nil => intro s fs _ _ _ _; simp [expand, cmdsActs, ftrace, runFrom, runFromG, flat_nil]
  | cons ev evs ih =>
    intro s fs hinv hR hcl hcnt
    have hsh : ev = .shutdown → s.closed = false := by
      intro he
      cases hc : s.closed with
      | false => rfl
      | true => exact absurd (he ▸ List.mem_cons_self ..) (hcl hc)
    obtain ⟨hR', hout⟩ := embed_step env ros s fs ev hinv hR hsh
    have hinv' := inv_step env ros s ev hinv
    have hcl' : (step env ros s ev).1.closed = true → Ev.shutdown ∉ evs := by
      intro hc
      by_cases he : ev = .shutdown
      · subst he
        intro hm
        have : 0 < evs.count Ev.shutdown := List.count_pos_iff.2 hm
        simp [List.count_cons] at hcnt
        omega
      · rw [step_closed_of_ne_shutdown env ros s ev he] at hc
        exact fun hm => hcl hc (List.mem_cons_of_mem _ hm)
    have hcnt' : evs.count .shutdown ≤ 1 := by
      have := List.count_le_count_cons (a := Ev.shutdown) (b := ev) (l := evs)
      omega
    have hrest := ih _ _ hinv' hR' hcl' hcnt'
    simp only [expand, cmdsActs_append, ftrace_append, List.filterMap_append, runFrom, runFromG, flat_cons]
    simp only [runFrom, step] at hrest hout
    rw [hout, hrest]

end GolibsVerif.C18
