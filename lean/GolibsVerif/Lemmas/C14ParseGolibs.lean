/-
C14 — the text of `timeutil.Duration.String` (redundant `0s` / `0m0s` cut) still parses, by
the model of `time.ParseDuration`, to the duration it was made from.
-/
import GolibsVerif.Model.C14Parse
import GolibsVerif.Lemmas.C14Duration
import GolibsVerif.Lemmas.C14ParseMain

namespace GolibsVerif.C14

local macro "le_omega" : tactic => `(tactic| (apply Nat.le_of_not_lt; intro _; omega))
local macro "eq_omega" : tactic => `(tactic| (apply Nat.le_antisymm <;> le_omega))

/-- `time.ParseDuration(time.Duration(d).String()) = d` on the models, for every `int64` -/
theorem parse_stdString_all (d : Int) (hd : inInt64 d) : parseDuration (stdString d) = some d := by
  by_cases h : d.natAbs < second
  · exact parse_stdString_small d hd h
  · exact parse_stdString_big d hd (by omega)

/-- `Duration.String` either returns `time.Duration`'s text unchanged, or (whole minutes)
the sign, the hours group if any and the non-zero minutes group, or (whole hours) the sign
and the hours group. -/
theorem durationString_explicit (d : Int) (hd : inInt64 d) :
    durationString d = .ok (stdString d) ∨
    (d.natAbs % 1000000000 = 0 ∧ d.natAbs / 1000000000 % 60 = 0 ∧
      d.natAbs / 1000000000 / 60 % 60 ≠ 0 ∧
      durationString d = .ok (signBytes d ++
        (if d.natAbs / 1000000000 / 60 / 60 > 0 then
          intText (d.natAbs / 1000000000 / 60 / 60) ++ ([104] ++
            (intText (d.natAbs / 1000000000 / 60 % 60) ++ ([109] ++ [])))
         else intText (d.natAbs / 1000000000 / 60 % 60) ++ ([109] ++ [])))) ∨
    (d.natAbs % 1000000000 = 0 ∧ d.natAbs / 1000000000 % 60 = 0 ∧
      d.natAbs / 1000000000 / 60 % 60 = 0 ∧ d.natAbs / 1000000000 / 60 / 60 > 0 ∧
      durationString d = .ok (signBytes d ++
        (intText (d.natAbs / 1000000000 / 60 / 60) ++ ([104] ++ [])))) := by
  obtain ⟨c1, c2, c3, c4⟩ := duration_conds d hd
  have e9' : (10 : Nat) ^ 9 = second := by decide
  rw [e9] at c1 c2 c3 c4
  unfold durationString
  simp only [c1, c2, c3, c4]
  by_cases hA : d.natAbs / 1000000000 = 0 ∨ d.natAbs % 1000000000 ≠ 0 ∨ d.natAbs / 1000000000 % 60 ≠ 0
  · left; rw [if_pos hA]; rfl
  · right
    rw [if_neg hA]
    have hS : d.natAbs / 1000000000 ≠ 0 := fun h => hA (Or.inl h)
    have hf : d.natAbs % 1000000000 = 0 := by
      apply Classical.byContradiction; intro h; exact hA (Or.inr (Or.inl h))
    have hs60 : d.natAbs / 1000000000 % 60 = 0 := by
      apply Classical.byContradiction; intro h; exact hA (Or.inr (Or.inr h))
    have hge : second ≤ d.natAbs := by unfold second; omega
    obtain ⟨frac, f0, -, e⟩ := stdString_big d hge
    rw [e9] at f0 e
    have hM : d.natAbs / 1000000000 / 60 > 0 := by omega
    have i0 : intText 0 = [48] := by simp [intText]
    rw [f0 hf, hs60, i0] at e
    by_cases hm : d.natAbs / 1000000000 / 60 % 60 ≠ 0
    · left
      refine ⟨hf, hs60, hm, ?_⟩
      rw [if_pos hm]
      have e1 : stdString d = (signBytes d ++
          (if d.natAbs / 1000000000 / 60 / 60 > 0 then
            intText (d.natAbs / 1000000000 / 60 / 60) ++ ([104] ++
              (intText (d.natAbs / 1000000000 / 60 % 60) ++ ([109] ++ [])))
           else intText (d.natAbs / 1000000000 / 60 % 60) ++ ([109] ++ []))) ++ [48, 115] := by
        rw [e, hmText, if_pos hM]
        by_cases hh : d.natAbs / 1000000000 / 60 / 60 > 0 <;> simp [hh]
      rw [e1]
      exact sliceTo_drop_suffix _ _ 2 rfl
    · right
      have hm0 : d.natAbs / 1000000000 / 60 % 60 = 0 := by omega
      have hH : d.natAbs / 1000000000 / 60 / 60 > 0 := by omega
      refine ⟨hf, hs60, hm0, hH, ?_⟩
      rw [if_neg hm]
      have e1 : stdString d = (signBytes d ++
          (intText (d.natAbs / 1000000000 / 60 / 60) ++ ([104] ++ []))) ++ [48, 109, 48, 115] := by
        rw [e, hmText, if_pos hM, if_pos hH, hm0, i0]; simp
      rw [e1]
      exact sliceTo_drop_suffix _ _ 4 rfl

/-- the text of `timeutil.Duration.String` parses back to `d` -/
theorem parse_durationString (d : Int) (hd : inInt64 d) :
    ∃ s, durationString d = .ok s ∧ parseDuration s = some d := by
  have hle : d.natAbs ≤ 9223372036854775808 := by unfold inInt64 at hd; omega
  rcases durationString_explicit d hd with h | ⟨hf, hs, hm, h⟩ | ⟨hf, hs, hm, hH, h⟩
  · exact ⟨_, h, parse_stdString_all d hd⟩
  · refine ⟨_, h, ?_⟩
    generalize hu : d.natAbs = u at hf hs hm hle
    have hsum : u / 1000000000 / 60 / 60 * 3600000000000 + u / 1000000000 / 60 % 60 * 60000000000 = u := by
      omega
    by_cases hh : u / 1000000000 / 60 / 60 > 0
    · simp only [hh, if_true]
      apply parseDuration_of_loop d hd _ _ (by simp)
      rw [hu]
      apply parseLoop_hm _ _ [] numHead_nil 0 (by unfold two63; le_omega)
      rw [hsum]; rfl
    · simp only [hh, if_false]
      apply parseDuration_of_loop d hd _ _ (by simp)
      rw [hu]
      apply parseLoop_m _ [] numHead_nil 0 (by unfold two63; le_omega)
      have : u / 1000000000 / 60 % 60 * 60000000000 = u := by eq_omega
      rw [this]; rfl
  · refine ⟨_, h, ?_⟩
    generalize hu : d.natAbs = u at hf hs hm hH hle
    have hsum : u / 1000000000 / 60 / 60 * 3600000000000 = u := by eq_omega
    apply parseDuration_of_loop d hd _ _ (by simp)
    rw [hu]
    have g := parseGroup_int (u / 1000000000 / 60 / 60) [104] [] 3600000000000 ub_h (by simp) unitOf_h
      (by omega) numHead_nil (by unfold two63; le_omega)
    rw [parseLoop_step _ _ 0 _ g (by unfold two63; omega), Nat.zero_add, hsum]
    rfl

end GolibsVerif.C14
