/-
C10 — the linearization invariant.  Along every concurrent execution we keep the list `lin` of
the calls whose linearization point has passed (the section that fixed their result), in the
order of those points.  `LinInv` says that `lin` is a linearization of the history so far whose
sequential run ends in the register the cache stands for NOW; each step of the concurrent
system preserves it (`linInv_step`).
-/
import GolibsVerif.Lemmas.C10

namespace GolibsVerif.C10
open GolibsVerif.C09

def ids (lin : List LinOp) : List Nat := lin.map (·.id)

structure LinInv (c : Conf) (h : History) (σ : KSt) (lin : List LinOp) : Prop where
  nodup : (ids lin).Nodup
  /-- a linearized call has fixed exactly that result -/
  done : ∀ x ∈ lin, ∃ cs, σ.calls[x.id]? = some cs ∧ cs.op = x.op ∧
    (cs.st = .finished x.res ∨ cs.st = .returned x.res)
  /-- every call whose result is fixed is linearized -/
  all : ∀ id cs, σ.calls[id]? = some cs → (∀ fr, cs.st ≠ .running fr) → id ∈ ids lin
  /-- calls are invoked in the history with their arguments -/
  invd : ∀ id cs, σ.calls[id]? = some cs → HEv.inv id cs.op ∈ h
  /-- a response in the history is the result of a returned call -/
  retd : ∀ id r, HEv.ret id r ∈ h → ∃ cs, σ.calls[id]? = some cs ∧ cs.st = .returned r
  rt : ∀ a b, RtBefore h a b → b ∈ ids lin → Before (ids lin) a b
  /-- a running `Set` owns a frame with its key and value -/
  frame : ∀ (id : Nat) (k v : Bytes) (i : Nat),
    σ.calls[id]? = some (CallSt.mk (.set k v) (.running (some i))) →
    ∃ f : Frame, σ.f.frames[i]? = some f ∧ f.key = k ∧ f.val = v
  run : Run c Reg.empty lin (absReg σ.f.cache)

/-- frames keep their key and value from `σ` to `σ'` -/
def FramesKept (σ σ' : FSt) : Prop :=
  ∀ (j : Nat) (f : Frame), σ.frames[j]? = some f →
    ∃ f2 : Frame, σ'.frames[j]? = some f2 ∧ f2.key = f.key ∧ f2.val = f.val

theorem LinInv.init (c : Conf) : LinInv c [] KSt.init [] where
  nodup := by simp [ids]
  done := by simp
  all := by simp [KSt.init]
  invd := by simp [KSt.init]
  retd := by simp
  rt := by intro a b _ hb; simp [ids] at hb
  frame := by simp [KSt.init]
  run := Run.nil _

theorem ids_lt {c : Conf} {h : History} {σ : KSt} {lin : List LinOp} (hi : LinInv c h σ lin)
    {id : Nat} (hm : id ∈ ids lin) : id < σ.calls.length := by
  obtain ⟨x, hx, rfl⟩ := List.mem_map.1 hm
  obtain ⟨cs, hcs, _⟩ := hi.done x hx
  exact lt_of_getElem? hcs

theorem getElem?_snoc_lt {α : Type} {l : List α} {a b : α} {j : Nat}
    (h : (l ++ [a])[j]? = some b) : l[j]? = some b ∨ (j = l.length ∧ b = a) := by
  simp only [List.getElem?_append] at h
  by_cases hj : j < l.length
  · simp only [hj, if_true] at h; exact Or.inl h
  · simp only [hj, if_false] at h
    cases hd : j - l.length with
    | zero => rw [hd] at h; right; exact ⟨by omega, by simpa using h.symm⟩
    | succ n => rw [hd] at h; simp at h

theorem getElem?_append_some {α : Type} {l : List α} (l' : List α) {j : Nat} {b : α}
    (h : l[j]? = some b) : (l ++ l')[j]? = some b := by
  rw [List.getElem?_append_left (lt_of_getElem? h)]; exact h

theorem getElem?_set_cases {α : Type} {l : List α} {i j : Nat} {a b : α}
    (h : (l.set i a)[j]? = some b) : (j = i ∧ b = a) ∨ (j ≠ i ∧ l[j]? = some b) := by
  rw [List.getElem?_set] at h
  by_cases hij : i = j
  · subst hij
    by_cases hl : i < l.length
    · simp [hl] at h; exact Or.inl ⟨rfl, h.symm⟩
    · simp [hl] at h
  · simp only [hij, if_false] at h
    exact Or.inr ⟨fun hc => hij hc.symm, h⟩

theorem getElem?_set_self' {α : Type} {l : List α} {i : Nat} {a b : α} (h : l[i]? = some b) :
    (l.set i a)[i]? = some a := by
  have := lt_of_getElem? h
  simp [this]

theorem getElem?_set_ne' {α : Type} {l : List α} {i j : Nat} {a : α} (h : j ≠ i) :
    (l.set i a)[j]? = l[j]? := by
  have : ¬ i = j := fun hc => h hc.symm
  simp [this]

/-- an invocation: nothing is linearized, the new call is running -/
theorem linInv_inv {c : Conf} {h : History} {σ : KSt} {lin : List LinOp} (hi : LinInv c h σ lin)
    (op : Call) (fr : Option Nat) (f' : FSt) (hcache : f'.cache = σ.f.cache)
    (hold : ∀ (i : Nat) (f : Frame), σ.f.frames[i]? = some f → f'.frames[i]? = some f)
    (hnew : ∀ (k v : Bytes) (i : Nat), op = .set k v → fr = some i →
      ∃ f : Frame, f'.frames[i]? = some f ∧ f.key = k ∧ f.val = v) :
    LinInv c (h ++ [.inv σ.calls.length op]) ⟨f', σ.calls ++ [⟨op, .running fr⟩]⟩ lin where
  nodup := hi.nodup
  done := by
    intro x hx
    obtain ⟨cs, hcs, h2⟩ := hi.done x hx
    exact ⟨cs, getElem?_append_some _ hcs, h2⟩
  all := by
    intro id cs hcs hnr
    rcases getElem?_snoc_lt hcs with h1 | ⟨_, rfl⟩
    · exact hi.all id cs h1 hnr
    · exact absurd rfl (hnr fr)
  invd := by
    intro id cs hcs
    rcases getElem?_snoc_lt hcs with h1 | ⟨rfl, rfl⟩
    · exact List.mem_append_left _ (hi.invd id cs h1)
    · simp
  retd := by
    intro id r hr
    have hr' : HEv.ret id r ∈ h := by simpa using hr
    obtain ⟨cs, hcs, h2⟩ := hi.retd id r hr'
    exact ⟨cs, getElem?_append_some _ hcs, h2⟩
  rt := by
    intro a b hab hb
    rcases rt_snoc hab with h1 | ⟨⟨op', he⟩, _⟩
    · exact hi.rt a b h1 hb
    · injection he with he1 _
      have := ids_lt hi hb
      omega
  frame := by
    intro id k v i hcs
    rcases getElem?_snoc_lt hcs with h1 | ⟨_, heq⟩
    · obtain ⟨f, hf, hk⟩ := hi.frame id k v i h1
      exact ⟨f, hold i f hf, hk⟩
    · injection heq with h1 h2
      injection h2 with h2
      exact hnew k v i h1.symm h2.symm
  run := by simpa [hcache] using hi.run

/-- a response: nothing is linearized, the call becomes `returned` -/
theorem linInv_ret {c : Conf} {h : History} {σ : KSt} {lin : List LinOp} (hi : LinInv c h σ lin)
    {id : Nat} {op : Call} {r : Res} (hc : σ.calls[id]? = some ⟨op, .finished r⟩) :
    LinInv c (h ++ [.ret id r]) { σ with calls := σ.calls.set id ⟨op, .returned r⟩ } lin where
  nodup := hi.nodup
  done := by
    intro x hx
    obtain ⟨cs, hcs, hop, hst⟩ := hi.done x hx
    by_cases hxi : x.id = id
    · rw [hxi] at hcs; rw [hc] at hcs; injection hcs with hcs; subst hcs
      refine ⟨⟨op, .returned r⟩, by rw [hxi]; exact getElem?_set_self' hc, hop, ?_⟩
      rcases hst with h1 | h1
      · injection h1 with h1; right; rw [h1]
      · cases h1
    · exact ⟨cs, by rw [getElem?_set_ne' hxi]; exact hcs, hop, hst⟩
  all := by
    intro j cs hcs hnr
    rcases getElem?_set_cases hcs with ⟨rfl, _⟩ | ⟨_, h1⟩
    · exact hi.all _ _ hc (by intro fr hh; cases hh)
    · exact hi.all j cs h1 hnr
  invd := by
    intro j cs hcs
    rcases getElem?_set_cases hcs with ⟨rfl, rfl⟩ | ⟨_, h1⟩
    · exact List.mem_append_left _ (hi.invd _ ⟨op, .finished r⟩ hc)
    · exact List.mem_append_left _ (hi.invd j cs h1)
  retd := by
    intro j r' hr
    rcases List.mem_append.1 hr with hr | hr
    · obtain ⟨cs, hcs, hst⟩ := hi.retd j r' hr
      by_cases hji : j = id
      · subst hji; rw [hc] at hcs; injection hcs with hcs; subst hcs; cases hst
      · exact ⟨cs, by rw [getElem?_set_ne' hji]; exact hcs, hst⟩
    · simp only [List.mem_singleton] at hr
      injection hr with h1 h2; subst h1; subst h2
      exact ⟨_, getElem?_set_self' hc, rfl⟩
  rt := by
    intro a b hab hb
    rcases rt_snoc hab with h1 | ⟨⟨op', he⟩, _⟩
    · exact hi.rt a b h1 hb
    · cases he
  frame := by
    intro j k v i hcs
    rcases getElem?_set_cases hcs with ⟨_, heq⟩ | ⟨_, h1⟩
    · injection heq with _ h2; cases h2
    · exact hi.frame j k v i h1
  run := hi.run

/-- a section that does not fix the result (an eviction or an `OnDelete` call of a `Set`):
nothing is linearized; the register is unchanged or loses an entry -/
theorem linInv_tau {c : Conf} {h : History} {σ : KSt} {lin : List LinOp} (hi : LinInv c h σ lin)
    {id i : Nat} {k v : Bytes} (hc : σ.calls[id]? = some ⟨.set k v, .running (some i)⟩) (f' : FSt)
    (hfr : FramesKept σ.f f')
    (hreg : absReg f'.cache = absReg σ.f.cache ∨ ∃ q, absReg f'.cache = (absReg σ.f.cache).erase q) :
    LinInv c h ⟨f', σ.calls.set id ⟨.set k v, .running (some i)⟩⟩ lin := by
  have hsame : σ.calls.set id ⟨.set k v, .running (some i)⟩ = σ.calls := by
    apply List.ext_getElem?
    intro j
    by_cases hj : j = id
    · subst hj; rw [getElem?_set_self' hc, hc]
    · rw [getElem?_set_ne' hj]
  rw [hsame]
  refine ⟨hi.nodup, hi.done, hi.all, hi.invd, hi.retd, hi.rt, ?_, ?_⟩
  · intro j k' v' i' hcs
    obtain ⟨f, hf, hk, hv⟩ := hi.frame j k' v' i' hcs
    obtain ⟨f2, hf2, hk2, hv2⟩ := hfr i' f hf
    exact ⟨f2, hf2, hk2.trans hk, hv2.trans hv⟩
  · rcases hreg with h1 | ⟨q, h1⟩
    · rw [h1]; exact hi.run
    · rw [h1]; exact run_snoc_drop q hi.run

/-- the section that fixes the result of call `id`: the call is linearized HERE -/
theorem linInv_lin {c : Conf} {h : History} {σ : KSt} {lin : List LinOp} (hi : LinInv c h σ lin)
    {id : Nat} {op : Call} {fr : Option Nat} {r : Res}
    (hc : σ.calls[id]? = some ⟨op, .running fr⟩) (f' : FSt)
    (hfr : FramesKept σ.f f')
    (hstep : SeqStep c (absReg σ.f.cache) op r (absReg f'.cache)) :
    LinInv c h ⟨f', σ.calls.set id ⟨op, .finished r⟩⟩ (lin ++ [⟨id, op, r⟩]) := by
  have hnot : id ∉ ids lin := by
    intro hm
    obtain ⟨x, hx, hxi⟩ := List.mem_map.1 hm
    obtain ⟨cs, hcs, _, hst⟩ := hi.done x hx
    rw [hxi, hc] at hcs; injection hcs with hcs; subst hcs
    rcases hst with h1 | h1 <;> cases h1
  have hids : ids (lin ++ [⟨id, op, r⟩]) = ids lin ++ [id] := by simp [ids]
  refine ⟨?_, ?_, ?_, ?_, ?_, ?_, ?_, run_snoc_op hi.run hstep⟩
  · rw [hids, List.nodup_append]
    refine ⟨hi.nodup, by simp, ?_⟩
    intro a ha b hb
    simp only [List.mem_singleton] at hb
    subst hb
    intro hab; subst hab; exact hnot ha
  · intro x hx
    rcases List.mem_append.1 hx with hx | hx
    · obtain ⟨cs, hcs, h2⟩ := hi.done x hx
      have hne : x.id ≠ id := fun he => hnot (he ▸ List.mem_map.2 ⟨x, hx, rfl⟩)
      exact ⟨cs, by rw [getElem?_set_ne' hne]; exact hcs, h2⟩
    · simp only [List.mem_singleton] at hx; subst hx
      exact ⟨_, getElem?_set_self' hc, rfl, Or.inl rfl⟩
  · intro j cs hcs hnr
    rw [hids]
    rcases getElem?_set_cases hcs with ⟨rfl, _⟩ | ⟨_, h1⟩
    · simp
    · exact List.mem_append_left _ (hi.all j cs h1 hnr)
  · intro j cs hcs
    rcases getElem?_set_cases hcs with ⟨rfl, rfl⟩ | ⟨_, h1⟩
    · exact hi.invd _ ⟨op, .running fr⟩ hc
    · exact hi.invd j cs h1
  · intro j r' hr
    obtain ⟨cs, hcs, hst⟩ := hi.retd j r' hr
    have hji : j ≠ id := by
      intro he; subst he; rw [hc] at hcs; injection hcs with hcs; subst hcs; cases hst
    exact ⟨cs, by rw [getElem?_set_ne' hji]; exact hcs, hst⟩
  · intro a b hab hb
    rw [hids] at hb ⊢
    rcases List.mem_append.1 hb with hb | hb
    · exact before_append _ (hi.rt a b hab hb)
    · simp only [List.mem_singleton] at hb; subst hb
      obtain ⟨h1, h2, h3, ra, opb, heq⟩ := hab
      have hmem : HEv.ret a ra ∈ h := by rw [heq]; simp
      obtain ⟨cs, hcs, hst⟩ := hi.retd a ra hmem
      have ha : a ∈ ids lin := hi.all a cs hcs (by intro fr' hh; rw [hst] at hh; cases hh)
      exact before_snoc b ha
  · intro j k v i hcs
    rcases getElem?_set_cases hcs with ⟨_, heq⟩ | ⟨_, h1⟩
    · injection heq with _ h2; cases h2
    · obtain ⟨f, hf, hk, hv⟩ := hi.frame j k v i h1
      obtain ⟨f2, hf2, hk2, hv2⟩ := hfr i f hf
      exact ⟨f2, hf2, hk2.trans hk, hv2.trans hv⟩

/-- frames keep their key and value across a section -/
theorem fstep_sec_frames {c : Conf} {σ σ' : FSt} {who : Option Nat} {ev : Ev}
    (hs : FStep c σ (.sec who ev) σ') :
    FramesKept σ σ' := by
  have moved : ∀ {i : Nat} {g : Frame} {p : Phase} {s : St}, σ.frames[i]? = some g →
      FramesKept σ (σ.move i g p s) := by
    intro i g p s hg j f hf
    rw [move_frames p s hg j]
    by_cases hji : j = i
    · subst hji; rw [hg] at hf; injection hf with hf; subst hf
      exact ⟨{ g with phase := p }, by simp, rfl, rfl⟩
    · exact ⟨f, by simp [hji, hf], rfl, rfl⟩
  generalize hev : FEv.sec who ev = lab at hs
  cases hs with
  | call => cases hev
  | refuse i g hg _ _ => exact moved hg
  | evict i g s' e hg _ _ _ => exact moved hg
  | onDelete i g k v hg _ => exact moved hg
  | commit i g s' r hg _ _ _ => exact moved hg
  | get s' k r _ => intro j f hf; exact ⟨f, hf, rfl, rfl⟩
  | del s' k _ => intro j f hf; exact ⟨f, hf, rfl, rfl⟩
  | clear => intro j f hf; exact ⟨f, hf, rfl, rfl⟩
  | stats => intro j f hf; exact ⟨f, hf, rfl, rfl⟩

/-- **every step of the concurrent system preserves the linearization invariant**, for a
suitably extended linearization -/
theorem linInv_step {c : Conf} {l : List KRec} {σ σ' : KSt} {ev : KEv} {lin : List LinOp}
    (ht : CTrace c KSt.init l σ) (hi : LinInv c (historyOf l) σ lin) (hs : KStep c σ ev σ') :
    ∃ lin', LinInv c (historyOf (l ++ [⟨ev, σ'⟩])) σ' lin' := by
  obtain ⟨hinv, hok⟩ := ctrace_inv ht
  rw [historyOf_snoc]
  have hsec : ∀ id e, ev = .sec id e → C09.CStep c σ.f.cache e σ'.f.cache := by
    intro id e he; subst he; exact ksec_cstep hok hs
  cases hs with
  | invSet k v f' hf =>
    refine ⟨lin, ?_⟩
    simp only [KEv.hist]
    cases hf with
    | call =>
      apply linInv_inv hi (.set k v) (some σ.f.frames.length)
        { σ.f with frames := σ.f.frames ++ [⟨k, v, .start⟩] } rfl
      · intro i f hfi
        exact getElem?_append_some _ hfi
      · intro k' v' i hop hfr
        injection hop with h1 h2; injection hfr with h3
        subst h1; subst h2; subst h3
        exact ⟨⟨k, v, .start⟩, by simp, rfl, rfl⟩
  | inv op hop =>
    refine ⟨lin, ?_⟩
    simp only [KEv.hist]
    apply linInv_inv hi op none σ.f rfl (fun _ _ h => h)
    intro k v i _ hfr; cases hfr
  | secSet id i k v e f' hc hf =>
    have hcs := hsec id e rfl
    simp only [KEv.hist, List.append_nil]
    obtain ⟨f, hff, hk, hv⟩ := hi.frame id k v i hc
    have hop : OpEv (.set k v) e := by
      have := fstep_frame_ev hf hff
      rwa [hk, hv] at this
    cases hr : resOf e with
    | none =>
      refine ⟨lin, ?_⟩
      simp only [statusAfter, hr]
      exact linInv_tau hi hc f' (fstep_sec_frames hf) (section_is_tau hcs hinv hr)
    | some r =>
      refine ⟨lin ++ [⟨id, .set k v, r⟩], ?_⟩
      simp only [statusAfter, hr]
      exact linInv_lin hi hc f' (fstep_sec_frames hf) (section_is_seqStep hcs hinv hop hr)
  | secOne id op e f' hc hsecof hf =>
    have hcs := hsec id e rfl
    simp only [KEv.hist, List.append_nil]
    have hop : OpEv op e := opEv_of_isSecOf hsecof
    cases hr : resOf e with
    | none =>
      exfalso
      cases op <;> cases e <;> simp_all [IsSecOf, resOf]
    | some r =>
      refine ⟨lin ++ [⟨id, op, r⟩], ?_⟩
      simp only [statusAfter, hr]
      exact linInv_lin hi hc f' (fstep_sec_frames hf) (section_is_seqStep hcs hinv hop hr)
  | ret id op r hc =>
    refine ⟨lin, ?_⟩
    simp only [KEv.hist]
    exact linInv_ret hi hc

/-- the invariant holds along every concurrent execution -/
theorem linInv_reachable {c : Conf} {log : List KRec} {σ : KSt} (ht : CTrace c KSt.init log σ) :
    ∃ lin, LinInv c (historyOf log) σ lin := by
  refine ctrace_snoc_ind (P := fun l σ => ∃ lin, LinInv c (historyOf l) σ lin) ?_ ?_ ht
  · exact ⟨[], by simpa [historyOf] using LinInv.init c⟩
  · intro l σ ev σ' htl ⟨lin, hi⟩ hstep
    exact linInv_step htl hi hstep

end GolibsVerif.C10
