import GolibsVerif.Spec.C03
import GolibsVerif.Lemmas.GoM

namespace GolibsVerif.C03
open GolibsVerif.Netutil GolibsVerif.Str GolibsVerif.Gen.Consts GolibsVerif

theorem outer_iff (r : Nat) : isValidHostOuterRune r = true ↔ (isValidHostInnerRune r = true ∧ r ≠ 45) := by
  unfold isValidHostInnerRune isValidHostOuterRune isLower isUpper isDigit
  constructor
  · intro h
    refine ⟨by simp [h], ?_⟩
    intro h45; subst h45; simp at h
  · rintro ⟨h, hne⟩
    simp at h
    rcases h with h | h
    · exact absurd h hne
    · simpa using h

/-- closed form on a one-byte label -/
theorem vhl_single (a : Nat) :
    validateHostnameLabel [a] =
      .ok (if isValidHostOuterRune a then none else some (.label .lblHost [a] (.rune .lblHost a))) := by
  by_cases h : isValidHostOuterRune a = true <;>
    simp [validateHostnameLabel, validateDomainNameLabel, MaxDomainLabelLen, bind, Except.bind, pure, Except.pure, h]

end GolibsVerif.C03

namespace GolibsVerif.C03
open GolibsVerif.Netutil GolibsVerif.Str GolibsVerif.Gen.Consts GolibsVerif

theorem vhl_nil : validateHostnameLabel [] =
    .ok (some (.label .lblHost [] (.length .lblHost [] 0 0))) := by
  simp [validateHostnameLabel, validateDomainNameLabel, replaceKind, Err.unwrap, bind, Except.bind, pure, Except.pure]

/-- closed form on a label of at least two bytes -/
theorem vhl_cons_snoc (a : Nat) (mid : Bytes) (z : Nat) :
    validateHostnameLabel (a :: (mid ++ [z])) =
      let l := a :: (mid ++ [z])
      .ok (if l.length > MaxDomainLabelLen then
             some (.label .lblHost l (.length .lblHost [] MaxDomainLabelLen l.length))
           else if !isValidHostOuterRune a then some (.label .lblHost l (.rune .lblHost a))
           else match mid.find? (fun r => !isValidHostInnerRune r) with
             | some r => some (.label .lblHost l (.rune .lblHost r))
             | none => if !isValidHostOuterRune z then some (.label .lblHost l (.rune .lblHost z)) else none) := by
  unfold validateHostnameLabel validateDomainNameLabel
  simp only [List.cons_ne_nil, if_false]
  by_cases hlen : (a :: (mid ++ [z])).length > MaxDomainLabelLen
  · simp only [hlen, if_true]
    simp [replaceKind, Err.unwrap, bind, Except.bind, pure, Except.pure]
  · simp only [hlen, if_false]
    have hne1 : ((a :: (mid ++ [z])).length : Int) ≠ 1 := by simp; omega
    simp only [bind, Except.bind, pure, Except.pure, GoM.idx_zero_cons, GoM.slice_mid_snoc, GoM.idx_last_snoc, hne1, if_false]
    by_cases ha : isValidHostOuterRune a = true
    · simp only [ha]
      cases hf : mid.find? (fun r => !isValidHostInnerRune r) with
      | some r => simp
      | none =>
        by_cases hz : isValidHostOuterRune z = true <;> simp [hz]
    · simp [ha]

theorem vhl_total (l : Bytes) : ∃ r, validateHostnameLabel l = .ok r := by
  match l with
  | [] => exact ⟨_, vhl_nil⟩
  | [a] => exact ⟨_, vhl_single a⟩
  | a :: b :: t =>
    obtain ⟨mid, z, h⟩ := GoM.exists_cons_snoc a b t
    rw [h]; exact ⟨_, vhl_cons_snoc a mid z⟩

end GolibsVerif.C03

namespace GolibsVerif.C03
open GolibsVerif.Netutil GolibsVerif.Str GolibsVerif.Gen.Consts GolibsVerif

theorem maxLabel_eq : MaxDomainLabelLen = 63 := rfl
theorem maxName_eq : MaxDomainNameLen = 253 := rfl
theorem maxSrv_eq : MaxServiceLabelLen = 16 := rfl

theorem getLast?_cons_snoc (a : Nat) (mid : Bytes) (z : Nat) :
    (a :: (mid ++ [z])).getLast? = some z := by
  have : a :: (mid ++ [z]) = (a :: mid) ++ [z] := rfl
  rw [this, List.getLast?_append]; simp

theorem vhl_none_iff (l : Bytes) : validateHostnameLabel l = .ok none ↔ HostLabel l := by
  match l with
  | [] =>
    rw [vhl_nil]
    constructor
    · intro h; simp at h
    · intro h; exact absurd h.len_pos (by simp)
  | [a] =>
    rw [vhl_single]
    constructor
    · intro h
      by_cases ha : isValidHostOuterRune a = true
      · have := (outer_iff a).1 ha
        exact ⟨by simp, by simp, by simpa using this.1, by simpa using this.2, by simpa using this.2⟩
      · simp [ha] at h
    · intro h
      have : isValidHostOuterRune a = true :=
        (outer_iff a).2 ⟨h.chars a (by simp), by simpa using h.first⟩
      simp [this]
  | a :: b :: t =>
    obtain ⟨mid, z, h⟩ := GoM.exists_cons_snoc a b t
    rw [h, vhl_cons_snoc]
    simp only [maxLabel_eq]
    constructor
    · intro hr
      by_cases hlen : 63 < mid.length + 1 + 1
      · simp [hlen] at hr
      · simp only [List.length_cons, List.length_append, List.length_nil, gt_iff_lt, hlen, if_false] at hr
        by_cases ha : isValidHostOuterRune a = true
        · simp only [ha, Bool.not_true, if_false] at hr
          cases hf : mid.find? (fun r => !isValidHostInnerRune r) with
          | some r => simp [hf] at hr
          | none =>
            simp only [hf] at hr
            by_cases hz : isValidHostOuterRune z = true
            · have ha' := (outer_iff a).1 ha
              have hz' := (outer_iff z).1 hz
              have hmid : ∀ b ∈ mid, isValidHostInnerRune b = true := by
                intro b hb
                have := List.find?_eq_none.1 hf b hb
                simpa using this
              refine ⟨by simp, by simp; omega, ?_, by simpa using ha'.2, ?_⟩
              · intro b hb
                simp at hb
                rcases hb with rfl | hb | rfl
                · exact ha'.1
                · exact hmid b hb
                · exact hz'.1
              · rw [getLast?_cons_snoc]; simpa using hz'.2
            · simp [hz] at hr
        · simp [ha] at hr
    · intro hl
      have hlen : ¬ 63 < mid.length + 1 + 1 := by have := hl.len_le; simp at this; omega
      have ha : isValidHostOuterRune a = true :=
        (outer_iff a).2 ⟨hl.chars a (by simp), by simpa using hl.first⟩
      have hlast := getLast?_cons_snoc a mid z
      have hz : isValidHostOuterRune z = true :=
        (outer_iff z).2 ⟨hl.chars z (by simp), by have := hl.last; rw [hlast] at this; simpa using this⟩
      have hf : mid.find? (fun r => !isValidHostInnerRune r) = none := by
        apply List.find?_eq_none.2
        intro b hb
        have := hl.chars b (by simp [hb])
        simp [this]
      simp [hlen, ha, hz, hf]

end GolibsVerif.C03

namespace GolibsVerif.C03
open GolibsVerif.Netutil GolibsVerif.Str GolibsVerif.Gen.Consts GolibsVerif

/-- the inner errors `replaceKind` is applied to are always length or rune errors -/
inductive Leaf : Err → Prop where
  | length (k al m n) : Leaf (.length k al m n)
  | rune (k r) : Leaf (.rune k r)

/-- `replaceKind` on a leaf, as a total function -/
def rekind (k : Kind) : Err → Err
  | .length _ al m n => .length k al m n
  | .rune _ r => .rune k r
  | e => e

theorem replaceKind_leaf (e : Err) (k : Kind) (h : Leaf e) : replaceKind (some e) k = .ok (rekind k e) := by
  cases h <;> rfl

theorem leaf_rekind (e : Err) (k : Kind) (h : Leaf e) : Leaf (rekind k e) := by
  cases h <;> constructor

/-- shape of every error `validateHostnameLabel` returns -/
theorem vhl_err_shape (l : Bytes) (e : Err) (h : validateHostnameLabel l = .ok (some e)) :
    ∃ i, e = .label .lblHost l i ∧ Leaf i := by
  match l with
  | [] => rw [vhl_nil] at h; cases h; exact ⟨_, rfl, .length ..⟩
  | [a] =>
    rw [vhl_single] at h
    by_cases ha : isValidHostOuterRune a = true
    · simp [ha] at h
    · simp [ha] at h; subst h; exact ⟨_, rfl, .rune ..⟩
  | a :: b :: t =>
    obtain ⟨mid, z, hl⟩ := GoM.exists_cons_snoc a b t
    rw [hl] at h ⊢
    rw [vhl_cons_snoc] at h
    simp only [Except.ok.injEq] at h
    split at h
    · cases h; exact ⟨_, rfl, .length ..⟩
    · split at h
      · cases h; exact ⟨_, rfl, .rune ..⟩
      · split at h
        · cases h; exact ⟨_, rfl, .rune ..⟩
        · split at h
          · cases h; exact ⟨_, rfl, .rune ..⟩
          · cases h

/-- closed form of `validateTLDLabel` in terms of the result of `validateHostnameLabel` -/
theorem vtld_of_some (l : Bytes) (i : Err) (hi : Leaf i)
    (h : validateHostnameLabel l = .ok (some (.label .lblHost l i))) :
    validateTLDLabel l = .ok (some (.label .lblTLD l (rekind .lblTLD i))) := by
  simp [validateTLDLabel, h, Err.unwrap, replaceKind_leaf _ _ hi, bind, Except.bind, pure, Except.pure]

theorem vtld_of_none (l : Bytes) (h : validateHostnameLabel l = .ok none) :
    validateTLDLabel l =
      .ok (if hasValidTLDChars l then none else some (.label .lblTLD l (.const .allNumeric))) := by
  by_cases hc : hasValidTLDChars l = true <;>
    simp [validateTLDLabel, h, hc, bind, Except.bind, pure, Except.pure]

theorem vtld_total (l : Bytes) : ∃ r, validateTLDLabel l = .ok r := by
  obtain ⟨r, hr⟩ := vhl_total l
  cases r with
  | none => exact ⟨_, vtld_of_none l hr⟩
  | some e =>
    obtain ⟨i, rfl, hi⟩ := vhl_err_shape l e hr
    exact ⟨_, vtld_of_some l i hi hr⟩

theorem hasValidTLDChars_iff (l : Bytes) : hasValidTLDChars l = true ↔ ∃ b ∈ l, isDigit b = false := by
  simp [hasValidTLDChars]

theorem vtld_none_iff (l : Bytes) : validateTLDLabel l = .ok none ↔ TLDLabel l := by
  obtain ⟨r, hr⟩ := vhl_total l
  cases r with
  | none =>
    rw [vtld_of_none l hr]
    have hl := (vhl_none_iff l).1 hr
    constructor
    · intro h
      by_cases hc : hasValidTLDChars l = true
      · exact ⟨hl, (hasValidTLDChars_iff l).1 hc⟩
      · simp [hc] at h
    · intro h
      have := (hasValidTLDChars_iff l).2 h.2
      simp [this]
  | some e =>
    obtain ⟨i, rfl, hi⟩ := vhl_err_shape l e hr
    rw [vtld_of_some l i hi hr]
    constructor
    · intro h; simp at h
    · intro h
      have := (vhl_none_iff l).2 h.1
      rw [hr] at this; simp at this

/-- shape of every error `validateTLDLabel` returns -/
theorem vtld_err_shape (l : Bytes) (e : Err) (h : validateTLDLabel l = .ok (some e)) :
    ∃ i, e = .label .lblTLD l i := by
  obtain ⟨r, hr⟩ := vhl_total l
  cases r with
  | none =>
    rw [vtld_of_none l hr] at h
    by_cases hc : hasValidTLDChars l = true
    · simp [hc] at h
    · simp [hc] at h; exact ⟨_, h.symm⟩
  | some e' =>
    obtain ⟨i, rfl, hi⟩ := vhl_err_shape l e' hr
    rw [vtld_of_some l i hi hr] at h
    simp at h; exact ⟨_, h.symm⟩

end GolibsVerif.C03

namespace GolibsVerif.C03
open GolibsVerif.Netutil GolibsVerif.Str GolibsVerif.Gen.Consts GolibsVerif

theorem vsrv_total (l : Bytes) : ∃ r, validateServiceNameLabel l = .ok r := by
  match l with
  | [] => exact ⟨_, by simp [validateServiceNameLabel, bind, Except.bind, pure, Except.pure]; rfl⟩
  | a :: t =>
    unfold validateServiceNameLabel
    by_cases h1 : (a :: t = [] ∨ a :: t = [95])
    · exact ⟨_, by simp only [h1, if_true]; rfl⟩
    · simp only [h1, if_false, GoM.idx_zero_cons, bind, Except.bind, pure, Except.pure]
      by_cases ha : a ≠ 95
      · exact ⟨_, by simp only [ha, ne_eq, not_false_eq_true, if_true]; rfl⟩
      · simp only [ha, if_false]
        by_cases hlen : (a :: t).length > MaxServiceLabelLen
        · exact ⟨_, by simp only [hlen, if_true]; rfl⟩
        · simp only [hlen, if_false, GoM.sliceFrom_one_cons]
          obtain ⟨r, hr⟩ := vhl_total t
          cases r with
          | none => exact ⟨_, by simp only [hr]; rfl⟩
          | some e =>
            obtain ⟨i, rfl, hi⟩ := vhl_err_shape t e hr
            exact ⟨_, by simp only [hr, Err.unwrap, replaceKind_leaf _ _ hi]; rfl⟩

theorem vsrv_none_iff (l : Bytes) : validateServiceNameLabel l = .ok none ↔ SRVLabel l := by
  match l with
  | [] =>
    constructor
    · intro h; simp [validateServiceNameLabel, bind, Except.bind, pure, Except.pure] at h
    · rintro ⟨_, r, h, _⟩; cases h
  | a :: t =>
    unfold validateServiceNameLabel SRVLabel
    by_cases h1 : (a :: t = [] ∨ a :: t = [95])
    · simp only [h1, if_true]
      constructor
      · intro h; cases h
      · rintro ⟨_, r, h, hr⟩
        have : t = [] := by have := h1; simp at this; exact this.2
        subst this
        cases h
        exact absurd hr.len_pos (by simp)
    · simp only [h1, if_false, GoM.idx_zero_cons, bind, Except.bind, pure, Except.pure]
      by_cases ha : a ≠ 95
      · simp only [ha, ne_eq, not_false_eq_true, if_true]
        constructor
        · intro h; cases h
        · rintro ⟨_, r, h, _⟩
          cases h; exact absurd rfl ha
      · have ha' : a = 95 := by simpa using ha
        subst ha'
        simp only [ha, if_false]
        by_cases hlen : (95 :: t).length > MaxServiceLabelLen
        · simp only [hlen, if_true]
          constructor
          · intro h; cases h
          · rintro ⟨hle, _⟩
            simp only [maxSrv_eq] at hlen; omega
        · simp only [hlen, if_false, GoM.sliceFrom_one_cons]
          obtain ⟨r, hr⟩ := vhl_total t
          cases r with
          | none =>
            simp only [hr]
            constructor
            · intro _
              simp only [maxSrv_eq] at hlen
              exact ⟨by omega, t, rfl, (vhl_none_iff t).1 hr⟩
            · intro _; trivial
          | some e =>
            obtain ⟨i, rfl, hi⟩ := vhl_err_shape t e hr
            simp only [hr, Err.unwrap, replaceKind_leaf _ _ hi]
            constructor
            · intro h; cases h
            · rintro ⟨_, r, h, hr'⟩
              cases h
              have := (vhl_none_iff t).2 hr'
              rw [hr] at this; cases this

end GolibsVerif.C03

namespace GolibsVerif.C03
open GolibsVerif.Netutil GolibsVerif.Str GolibsVerif.Gen.Consts GolibsVerif

/-- a per-label validator that never panics and accepts exactly `P` -/
structure LabelValidator (f : Bytes → GoM (Option Err)) (P : Bytes → Prop) : Prop where
  total : ∀ l, ∃ r, f l = .ok r
  none_iff : ∀ l, f l = .ok none ↔ P l

theorem validateLabels_total {f P} (hf : LabelValidator f P) (ls : List Bytes) :
    ∃ r, validateLabels f ls = .ok r := by
  induction ls with
  | nil => exact ⟨none, rfl⟩
  | cons l rest ih =>
    cases rest with
    | nil => exact vtld_total l
    | cons l' rest' =>
      obtain ⟨r, hr⟩ := hf.total l
      cases r with
      | some e => exact ⟨some e, by simp [validateLabels, hr, bind, Except.bind, pure, Except.pure]⟩
      | none =>
        obtain ⟨r', hr'⟩ := ih
        exact ⟨r', by simp [validateLabels, hr, bind, Except.bind] ; exact hr'⟩

theorem validateLabels_none_iff {f P} (hf : LabelValidator f P) (ls : List Bytes) (hne : ls ≠ []) :
    validateLabels f ls = .ok none ↔ LabelsOK P ls := by
  induction ls with
  | nil => exact absurd rfl hne
  | cons l rest ih =>
    cases rest with
    | nil => exact vtld_none_iff l
    | cons l' rest' =>
      obtain ⟨r, hr⟩ := hf.total l
      cases r with
      | some e =>
        have h1 : validateLabels f (l :: l' :: rest') = .ok (some e) := by
          simp [validateLabels, hr, bind, Except.bind, pure, Except.pure]
        rw [h1]
        constructor
        · intro h; cases h
        · intro h
          have := (hf.none_iff l).2 h.1
          rw [hr] at this; cases this
      | none =>
        have h1 : validateLabels f (l :: l' :: rest') = validateLabels f (l' :: rest') := by
          simp [validateLabels, hr, bind, Except.bind]
        rw [h1, ih (by simp)]
        have := (hf.none_iff l).1 hr
        simp [LabelsOK, this]

theorem hostValidator : LabelValidator validateHostnameLabel HostLabel := ⟨vhl_total, vhl_none_iff⟩

theorem domainValidator : LabelValidator (fun l => pure (validateDomainNameLabel l)) DomainLabel := by
  refine ⟨fun l => ⟨_, rfl⟩, fun l => ?_⟩
  show Except.ok (validateDomainNameLabel l) = Except.ok none ↔ _
  unfold validateDomainNameLabel DomainLabel
  simp only [maxLabel_eq]
  by_cases h0 : l = []
  · subst h0; simp
  · have : 1 ≤ l.length := List.length_pos_iff.2 h0
    by_cases h1 : l.length > 63 <;> simp [h0, h1] <;> omega

theorem srvValidator : LabelValidator
    (fun l => if hasPrefix l [95] then validateServiceNameLabel l else validateHostnameLabel l)
    (fun l => HostLabel l ∨ SRVLabel l) := by
  refine ⟨fun l => ?_, fun l => ?_⟩
  · by_cases h : hasPrefix l [95] = true
    · simp only [h, if_true]; exact vsrv_total l
    · have h' : hasPrefix l [95] = false := by simpa using h
      simp only [h', Bool.false_eq_true, if_false]; exact vhl_total l
  · by_cases h : hasPrefix l [95] = true
    · simp only [h, if_true]
      rw [vsrv_none_iff]
      constructor
      · exact Or.inr
      · rintro (hh | hs)
        · -- a hostname label cannot start with '_'
          exfalso
          match l, h, hh with
          | [], h, _ => simp [hasPrefix] at h
          | a :: t, h, hh =>
            have ha : a = 95 := by have := h; simp [hasPrefix] at this; exact this.symm
            have := hh.chars a (by simp)
            subst ha
            simp [isValidHostInnerRune, isValidHostOuterRune, isLower, isUpper, isDigit] at this
        · exact hs
    · have h' : hasPrefix l [95] = false := by simpa using h
      simp only [h', Bool.false_eq_true, if_false]
      rw [vhl_none_iff]
      constructor
      · exact Or.inl
      · rintro (hh | ⟨_, r, hl, _⟩)
        · exact hh
        · subst hl; simp [hasPrefix] at h

end GolibsVerif.C03
