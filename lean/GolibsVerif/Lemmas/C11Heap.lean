/-
C11 — the storage-level model of `Model/C11Heap.lean` refines the value-level register file.
-/
import GolibsVerif.Model.C11Heap
import GolibsVerif.Lemmas.C11Sets

namespace GolibsVerif.C11.Heap
open GolibsVerif.C11

variable {T : Type} [GoOrdered T]

/-! ### value-level results in closed form -/

theorem add_value (l : List T) (v : T) :
    SSS.add ⟨l⟩ v = .ok ⟨if (binarySearch l v).2 then l else inserted l (binarySearch l v).1 v⟩ := by
  have hle : (binarySearch l v).1 ≤ l.length := lowerBound_le v l
  simp only [SSS.add, inserted]
  cases hf : (binarySearch l v).2
  · simp [insertAt, hle, bind, Except.bind]
  · simp

theorem found_lt (l : List T) (v : T) (h : (binarySearch l v).2 = true) :
    (binarySearch l v).1 < l.length := by
  simp only [binarySearch] at h ⊢
  cases hg : l[lowerBound v l]? with
  | none => simp [hg] at h
  | some x => exact (List.getElem?_eq_some_iff.1 hg).1

theorem delete_value (l : List T) (v : T) :
    SSS.delete ⟨l⟩ v = .ok ⟨if (binarySearch l v).2 then removed l (binarySearch l v).1 else l⟩ := by
  simp only [SSS.delete, removed]
  cases hf : (binarySearch l v).2
  · simp
  · have := found_lt l v hf
    have hle : (binarySearch l v).1 + 1 ≤ l.length := by omega
    simp [deleteRange, hle, bind, Except.bind]

omit [GoOrdered T] in
theorem inserted_length (s : List T) (i : Nat) (v : T) (h : i ≤ s.length) :
    (inserted s i v).length = s.length + 1 := by
  simp [inserted]; omega

omit [GoOrdered T] in
theorem removed_length (s : List T) (i : Nat) (h : i < s.length) :
    (removed s i).length = s.length - 1 := by
  simp [removed]; omega

/-! ### heap frames -/

omit [GoOrdered T] in
theorem arrAt_set_self (arrays : List (List T)) (a : Nat) (x : List T) (h : a < arrays.length) :
    arrAt (arrays.set a x) a = x := by
  simp [arrAt, List.getD_eq_getElem?_getD, h]

omit [GoOrdered T] in
theorem arrAt_set_ne (arrays : List (List T)) (a b : Nat) (x : List T) (h : a ≠ b) :
    arrAt (arrays.set a x) b = arrAt arrays b := by
  simp [arrAt, List.getD_eq_getElem?_getD, List.getElem?_set_ne h]

omit [GoOrdered T] in
theorem arrAt_append_old (arrays : List (List T)) (x : List T) (b : Nat) (h : b < arrays.length) :
    arrAt (arrays ++ [x]) b = arrAt arrays b := by
  simp [arrAt, List.getD_eq_getElem?_getD, List.getElem?_append_left h]

omit [GoOrdered T] in
theorem arrAt_append_new (arrays : List (List T)) (x : List T) :
    arrAt (arrays ++ [x]) arrays.length = x := by
  simp [arrAt, List.getD_eq_getElem?_getD]

/-- `arrays'` extends `arrays` and agrees with it on every array except possibly `own` -/
def Frame (arrays arrays' : List (List T)) (own : Option Nat) : Prop :=
  arrays.length ≤ arrays'.length ∧
  ∀ b, b < arrays.length → some b ≠ own → arrAt arrays' b = arrAt arrays b

omit [GoOrdered T] in
theorem frame_append (arrays : List (List T)) (x : List T) (own : Option Nat) :
    Frame arrays (arrays ++ [x]) own :=
  ⟨by simp, fun b hb _ => arrAt_append_old arrays x b hb⟩

omit [GoOrdered T] in
theorem frame_set (arrays : List (List T)) (a : Nat) (x : List T) :
    Frame arrays (arrays.set a x) (some a) :=
  ⟨by simp, fun b _ hne => arrAt_set_ne arrays a b x (fun e => hne (by rw [e]))⟩

omit [GoOrdered T] in
theorem frame_refl (arrays : List (List T)) (own : Option Nat) : Frame arrays arrays own :=
  ⟨Nat.le_refl _, fun _ _ _ => rfl⟩

/-! ### well-formed states -/

/-- every non-nil register points at an existing array with enough room for its length, and
no two registers share an array -/
structure WF (s : St T) : Prop where
  valid : ∀ i h, s.regs i = some h → h.arr < s.arrays.length ∧ h.len ≤ (arrAt s.arrays h.arr).length
  disjoint : ∀ i j h h', i ≠ j → s.regs i = some h → s.regs j = some h' → h.arr ≠ h'.arr

omit [GoOrdered T] in
theorem wf_init : WF (init : St T) :=
  ⟨fun _ _ h => by simp [init] at h, fun _ _ _ _ _ h => by simp [init] at h⟩

omit [GoOrdered T] in
/-- storing a header into register `j` after a heap change that only touched `own` -/
theorem wf_update {s : St T} (hwf : WF s) (arrays' : List (List T)) (j : Nat) (h' : Hdr)
    (own : Option Nat) (hframe : Frame s.arrays arrays' own)
    (hown : ∀ k g, k ≠ j → s.regs k = some g → some g.arr ≠ own)
    (hvalid : h'.arr < arrays'.length ∧ h'.len ≤ (arrAt arrays' h'.arr).length)
    (hfresh : ∀ k g, k ≠ j → s.regs k = some g → g.arr ≠ h'.arr) :
    WF ⟨arrays', setReg s.regs j (some h')⟩ ∧
    ∀ k, k ≠ j → valueOf ⟨arrays', setReg s.regs j (some h')⟩ k = valueOf s k := by
  constructor
  · constructor
    · intro i h hi
      simp only [setReg] at hi
      by_cases hij : i = j
      · simp only [hij, if_true, Option.some.injEq] at hi; subst hi; exact hvalid
      · simp only [hij, if_false] at hi
        have hv := hwf.valid i h hi
        have := hframe.2 h.arr hv.1 (hown i h hij hi)
        exact ⟨Nat.lt_of_lt_of_le hv.1 hframe.1, by show h.len ≤ (arrAt arrays' h.arr).length; rw [this]; exact hv.2⟩
    · intro i k h g hik hi hk
      simp only [setReg] at hi hk
      by_cases hij : i = j
      · simp only [hij, if_true, Option.some.injEq] at hi; subst hi
        have hkj : k ≠ j := fun e => hik (by rw [hij, e])
        simp only [hkj, if_false] at hk
        exact fun e => hfresh k g hkj hk e.symm
      · simp only [hij, if_false] at hi
        by_cases hkj : k = j
        · simp only [hkj, if_true, Option.some.injEq] at hk; subst hk
          exact hfresh i h hij hi
        · simp only [hkj, if_false] at hk
          exact hwf.disjoint i k h g hik hi hk
  · intro k hkj
    simp only [valueOf, setReg, hkj, if_false]
    cases hk : s.regs k with
    | none => rfl
    | some g =>
      have hv := hwf.valid k g hk
      have := hframe.2 g.arr hv.1 (hown k g hkj hk)
      simp only [Option.map_some, view, this]

omit [GoOrdered T] in
theorem wf_setNil {s : St T} (hwf : WF s) (j : Nat) :
    WF ⟨s.arrays, setReg s.regs j none⟩ ∧
    ∀ k, k ≠ j → valueOf ⟨s.arrays, setReg s.regs j none⟩ k = valueOf s k := by
  constructor
  · constructor
    · intro i h hi
      simp only [setReg] at hi
      by_cases hij : i = j
      · simp [hij] at hi
      · simp only [hij, if_false] at hi; exact hwf.valid i h hi
    · intro i k h g hik hi hk
      simp only [setReg] at hi hk
      by_cases hij : i = j
      · simp [hij] at hi
      · by_cases hkj : k = j
        · simp [hkj] at hk
        · simp only [hij, hkj, if_false] at hi hk; exact hwf.disjoint i k h g hik hi hk
  · intro k hkj
    simp [valueOf, setReg, hkj]

/-! ### what each method does to its own object -/

omit [GoOrdered T] in
theorem view_length (arrays : List (List T)) (h : Hdr) (hv : h.len ≤ (arrAt arrays h.arr).length) :
    (view arrays h).length = h.len := by
  simp [view]; omega

omit [GoOrdered T] in
theorem take_prefix (x y : List T) (n : Nat) (h : x.length = n) : (x ++ y).take n = x := by
  rw [List.take_append_of_le_length (by omega), List.take_of_length_le (by omega)]

/-- the facts `wf_update` needs about a method's result -/
structure Result (arrays : List (List T)) (own : Option Nat) (r : List (List T) × Hdr) (value : List T) : Prop where
  value : view r.1 r.2 = value
  lt : r.2.arr < r.1.length
  room : r.2.len ≤ (arrAt r.1 r.2.arr).length
  frame : Frame arrays r.1 own
  where_ : some r.2.arr = own ∨ r.2.arr = arrays.length

theorem newSet_spec (zero : T) (arrays : List (List T)) (vals : List T) :
    Result arrays none (newSet zero arrays vals) (SSS.new vals).elems := by
  refine ⟨?_, by simp [newSet], ?_, frame_append _ _ _, Or.inr rfl⟩
  · simp only [newSet, view, arrAt_append_new]
    exact take_prefix _ _ _ rfl
  · simp only [newSet, arrAt_append_new]
    simp

theorem add_spec (zero : T) (arrays : List (List T)) (h : Hdr) (v : T) (ha : h.arr < arrays.length)
    (hl : h.len ≤ (arrAt arrays h.arr).length) :
    ∃ value, SSS.add ⟨view arrays h⟩ v = .ok ⟨value⟩ ∧
      Result arrays (some h.arr) (add zero arrays h v) value := by
  have hlen : (view arrays h).length = h.len := view_length arrays h hl
  have hle : (binarySearch (view arrays h) v).1 ≤ (view arrays h).length := lowerBound_le v _
  refine ⟨_, add_value _ v, ?_⟩
  unfold add
  by_cases hf : (binarySearch (view arrays h) v).2 = true
  · rw [if_pos hf, if_pos hf]
    exact ⟨rfl, ha, hl, frame_refl _ _, Or.inl rfl⟩
  · rw [if_neg hf, if_neg hf]
    have hs' := inserted_length (view arrays h) _ v hle
    rw [hlen] at hs'
    by_cases hcap : h.len + 1 ≤ (arrAt arrays h.arr).length
    · rw [if_pos hcap]
      refine ⟨?_, by simpa using ha, ?_, frame_set _ _ _, Or.inl rfl⟩
      · simp only [view, arrAt_set_self _ _ _ ha]
        exact take_prefix _ _ _ hs'
      · simp only [arrAt_set_self _ _ _ ha, List.length_append, hs', List.length_drop]; omega
    · rw [if_neg hcap]
      refine ⟨?_, by simp, ?_, frame_append _ _ _, Or.inr rfl⟩
      · simp only [view, arrAt_append_new]
        exact take_prefix _ _ _ hs'
      · simp only [arrAt_append_new, List.length_append, hs']; omega

theorem delete_spec (zero : T) (arrays : List (List T)) (h : Hdr) (v : T) (ha : h.arr < arrays.length)
    (hl : h.len ≤ (arrAt arrays h.arr).length) :
    ∃ value, SSS.delete ⟨view arrays h⟩ v = .ok ⟨value⟩ ∧
      Result arrays (some h.arr) (delete zero arrays h v) value := by
  have hlen : (view arrays h).length = h.len := view_length arrays h hl
  refine ⟨_, delete_value _ v, ?_⟩
  unfold delete
  by_cases hf : (binarySearch (view arrays h) v).2 = true
  · rw [if_pos hf, if_pos hf]
    have hlt := found_lt _ v hf
    have hs' := removed_length (view arrays h) _ hlt
    rw [hlen] at hs'
    refine ⟨?_, by simpa using ha, ?_, frame_set _ _ _, Or.inl rfl⟩
    · simp only [view, arrAt_set_self _ _ _ ha]
      exact take_prefix _ _ _ hs'
    · simp only [arrAt_set_self _ _ _ ha, List.length_append, hs', List.length_cons, List.length_drop]; omega
  · rw [if_neg hf, if_neg hf]
    exact ⟨rfl, ha, hl, frame_refl _ _, Or.inl rfl⟩

omit [GoOrdered T] in
theorem clear_spec (zero : T) (arrays : List (List T)) (h : Hdr) (ha : h.arr < arrays.length) :
    Result arrays (some h.arr) (clear zero arrays h) [] := by
  refine ⟨by simp [clear, view], by simpa [clear] using ha, by simp [clear], frame_set _ _ _, Or.inl rfl⟩

omit [GoOrdered T] in
/-- a method of register `i`'s object (header `h`) that stores its result header back into
register `i` -/
theorem update_own {s : St T} (hwf : WF s) (i : Nat) (h : Hdr) (hi : s.regs i = some h)
    (r : List (List T) × Hdr) (value : List T) (hr : Result s.arrays (some h.arr) r value) :
    WF ⟨r.1, setReg s.regs i (some r.2)⟩ ∧
    ∀ k, valueOf ⟨r.1, setReg s.regs i (some r.2)⟩ k = setVal (valueOf s) i (some ⟨value⟩) k := by
  have := wf_update hwf r.1 i r.2 (some h.arr) hr.frame
    (fun k g hk hg e => hwf.disjoint k i g h hk hg hi (by simpa using e))
    ⟨hr.lt, hr.room⟩
    (fun k g hk hg => by
      rcases hr.where_ with e | e
      · have e' : r.2.arr = h.arr := by simpa using e
        rw [e']; exact hwf.disjoint k i g h hk hg hi
      · rw [e]; exact Nat.ne_of_lt (hwf.valid k g hg).1)
  refine ⟨this.1, fun k => ?_⟩
  by_cases hk : k = i
  · subst hk; simp [valueOf, setReg, setVal, hr.value]
  · rw [this.2 k hk]; simp [setVal, hk]

omit [GoOrdered T] in
/-- a constructor (`New…`, `Clone`) whose fresh object goes into register `j` -/
theorem update_fresh {s : St T} (hwf : WF s) (j : Nat)
    (r : List (List T) × Hdr) (value : List T) (hr : Result s.arrays none r value) :
    WF ⟨r.1, setReg s.regs j (some r.2)⟩ ∧
    ∀ k, valueOf ⟨r.1, setReg s.regs j (some r.2)⟩ k = setVal (valueOf s) j (some ⟨value⟩) k := by
  have hfresh : r.2.arr = s.arrays.length := by
    rcases hr.where_ with e | e
    · simp at e
    · exact e
  have := wf_update hwf r.1 j r.2 none hr.frame (fun _ _ _ _ => by simp) ⟨hr.lt, hr.room⟩
    (fun k g _ hg => by rw [hfresh]; exact Nat.ne_of_lt (hwf.valid k g hg).1)
  refine ⟨this.1, fun k => ?_⟩
  by_cases hk : k = j
  · subst hk; simp [valueOf, setReg, setVal, hr.value]
  · rw [this.2 k hk]; simp [setVal, hk]

/-! ### one call, whole scripts -/

theorem step_refines (zero : T) {s : St T} (hwf : WF s) (op : Op T) :
    WF (step zero s op) ∧ ∀ k, valueOf (step zero s op) k = vstep (valueOf s) op k := by
  cases op with
  | new i vals =>
    exact update_fresh hwf i _ _ (newSet_spec zero s.arrays vals)
  | nil i =>
    have := wf_setNil hwf i
    refine ⟨this.1, fun k => ?_⟩
    by_cases hk : k = i
    · subst hk; simp [step, vstep, setVal, valueOf, setReg]
    · have h2 := this.2 k hk
      simp only [step, vstep, setVal, hk, if_false]
      exact h2
  | add i v =>
    cases hi : s.regs i with
    | none =>
      have hv : valueOf s i = none := by simp [valueOf, hi]
      simp only [step, hi, vstep, hv, SSS.addP]
      exact ⟨hwf, fun _ => trivial⟩
    | some h =>
      have hval := hwf.valid i h hi
      obtain ⟨value, hval', hr⟩ := add_spec zero s.arrays h v hval.1 hval.2
      have hv : valueOf s i = some ⟨view s.arrays h⟩ := by simp [valueOf, hi]
      simp only [step, hi, vstep, hv, SSS.addP, hval', Except.map]
      exact update_own hwf i h hi _ _ hr
  | delete i v =>
    cases hi : s.regs i with
    | none =>
      have hv : valueOf s i = none := by simp [valueOf, hi]
      simp only [step, hi, vstep, hv, SSS.deleteP]
      exact ⟨hwf, fun _ => trivial⟩
    | some h =>
      have hval := hwf.valid i h hi
      obtain ⟨value, hval', hr⟩ := delete_spec zero s.arrays h v hval.1 hval.2
      have hv : valueOf s i = some ⟨view s.arrays h⟩ := by simp [valueOf, hi]
      simp only [step, hi, vstep, hv, SSS.deleteP, hval', Except.map]
      exact update_own hwf i h hi _ _ hr
  | clear i =>
    cases hi : s.regs i with
    | none =>
      have hv : valueOf s i = none := by simp [valueOf, hi]
      simp only [step, hi, vstep, hv, SSS.clearP]
      refine ⟨hwf, fun k => ?_⟩
      by_cases hk : k = i
      · subst hk; simp [setVal, hv]
      · simp [setVal, hk]
    | some h =>
      have hval := hwf.valid i h hi
      have hv : valueOf s i = some ⟨view s.arrays h⟩ := by simp [valueOf, hi]
      simp only [step, hi, vstep, hv, SSS.clearP, SSS.clear]
      exact update_own hwf i h hi _ _ (clear_spec zero s.arrays h hval.1)
  | clone i j =>
    cases hi : s.regs i with
    | none =>
      have hv : valueOf s i = none := by simp [valueOf, hi]
      have := wf_setNil hwf j
      simp only [step, hi]
      refine ⟨this.1, fun k => ?_⟩
      simp only [vstep, hv, SSS.cloneP]
      by_cases hk : k = j
      · subst hk; simp [valueOf, setReg, setVal]
      · rw [this.2 k hk]; simp [setVal, hk]
    | some h =>
      have hv : valueOf s i = some ⟨view s.arrays h⟩ := by simp [valueOf, hi]
      simp only [step, hi, vstep, hv, SSS.cloneP, SSS.clone]
      exact update_fresh hwf j _ _ (newSet_spec zero s.arrays (view s.arrays h))

theorem run_refines (zero : T) {s : St T} (hwf : WF s) (ops : List (Op T)) :
    WF (run zero s ops) ∧ ∀ k, valueOf (run zero s ops) k = vrun (valueOf s) ops k := by
  induction ops generalizing s with
  | nil => exact ⟨hwf, fun _ => rfl⟩
  | cons op rest ih =>
    have h1 := step_refines zero hwf op
    have h2 := ih h1.1
    refine ⟨h2.1, fun k => ?_⟩
    have : valueOf (step zero s op) = vstep (valueOf s) op := funext h1.2
    simp only [run, vrun, List.foldl_cons] at h2 ⊢
    rw [h2.2 k, this]

/-- in the value model a call changes only its target register (by definition of `vstep`) -/
theorem vstep_other (regs : Nat → Option (SSS T)) (op : Op T) (k : Nat) (hk : k ≠ op.target) :
    vstep regs op k = regs k := by
  cases op with
  | new i vals => simp only [Op.target] at hk; simp [vstep, setVal, hk]
  | nil i => simp only [Op.target] at hk; simp [vstep, setVal, hk]
  | add i v =>
    simp only [Op.target] at hk
    simp only [vstep]
    cases SSS.addP (regs i) v <;> simp [setVal, hk]
  | delete i v =>
    simp only [Op.target] at hk
    simp only [vstep]
    cases SSS.deleteP (regs i) v <;> simp [setVal, hk]
  | clear i => simp only [Op.target] at hk; simp [vstep, setVal, hk]
  | clone i j => simp only [Op.target] at hk; simp [vstep, setVal, hk]

end GolibsVerif.C11.Heap
