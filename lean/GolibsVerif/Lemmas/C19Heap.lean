/-
C19 — lemmas about the backing-array heap: what `append`, `Clip`, `Grow`, `Record.AddAttrs`
do to the heap and to the views of existing slices.
-/
import GolibsVerif.Model.C19

namespace GolibsVerif.C19

/-- A slice header is meaningful in a heap: `len ≤ cap ≤` length of its backing array.
(A nil / zero-capacity slice is meaningful in every heap.) -/
def Slice.wf (hp : Heap) (s : Slice) : Prop :=
  s.len ≤ s.cap ∧ s.cap ≤ (arrayOf hp s.arr).length

instance (hp : Heap) (s : Slice) : Decidable (s.wf hp) := by
  unfold Slice.wf; exact inferInstance

/-- the attributes `AddAttrs` keeps -/
def keep (as : List Attr) : List Attr := as.filter fun a => !a.isEmptyGroup

theorem take_len_add {α} (A B : List α) (m n : Nat) (h : A.length = m) :
    (A ++ B).take (m + n) = A ++ B.take n := by
  subst h
  rw [List.take_append, List.take_of_length_le (by omega)]
  simp

theorem take_len_exact {α} (A B : List α) (m : Nat) (h : A.length = m) :
    (A ++ B).take m = A := by
  subst h; simp

theorem drop_len_add {α} (A B : List α) (m n : Nat) (h : A.length = m) :
    (A ++ B).drop (m + n) = B.drop n := by
  subst h; simp [List.drop_append]

theorem set_last {α} (hp : List α) (a b : α) : (hp ++ [a]).set hp.length b = hp ++ [b] := by
  simp

theorem arrayOf_append_left (hp ext : Heap) (i : Nat) (h : i < hp.length) :
    arrayOf (hp ++ ext) i = arrayOf hp i := by
  simp [arrayOf, List.getElem?_append_left h]

theorem arrayOf_lt_of_pos {hp : Heap} {i : Nat} (h : 0 < (arrayOf hp i).length) : i < hp.length := by
  unfold arrayOf at h
  by_cases hi : i < hp.length
  · exact hi
  · simp [List.getElem?_eq_none (Nat.le_of_not_lt hi)] at h

theorem arrayOf_length (hp : Heap) (a : List Attr) : arrayOf (hp ++ [a]) hp.length = a := by
  simp [arrayOf]

theorem Slice.wf_nil (hp : Heap) : Slice.nil.wf hp := by
  simp [Slice.wf, Slice.nil]

theorem view_length {hp : Heap} {s : Slice} (h : s.wf hp) : (view hp s).length = s.len := by
  unfold view
  rw [List.length_take]
  have := h.1; have := h.2
  omega

theorem view_ext {hp : Heap} {s : Slice} (h : s.wf hp) (ext : Heap) :
    view (hp ++ ext) s = view hp s := by
  unfold view
  by_cases h0 : s.len = 0
  · simp [h0]
  · have hpos : 0 < (arrayOf hp s.arr).length := by have := h.1; have := h.2; omega
    rw [arrayOf_append_left hp ext s.arr (arrayOf_lt_of_pos hpos)]

theorem Slice.wf_ext {hp : Heap} {s : Slice} (h : s.wf hp) (ext : Heap) : s.wf (hp ++ ext) := by
  by_cases h0 : s.cap = 0
  · refine ⟨h.1, ?_⟩; omega
  · have hpos : 0 < (arrayOf hp s.arr).length := by have := h.2; omega
    refine ⟨h.1, ?_⟩
    rw [arrayOf_append_left hp ext s.arr (arrayOf_lt_of_pos hpos)]
    exact h.2

theorem set_arrayOf_self (hp : Heap) (i : Nat) : hp.set i (arrayOf hp i) = hp := by
  apply List.ext_getElem?
  intro j
  by_cases hij : i = j
  · subst hij
    by_cases hi : i < hp.length
    · simp [arrayOf, hi]
    · have := Nat.le_of_not_lt hi
      simp [this]
  · simp [hij]

/-- `append` that must reallocate: a new array is pushed, nothing else changes. -/
theorem append_realloc (pol : Policy) (hp : Heap) (s : Slice) (xs : List Attr)
    (h : s.cap < s.len + xs.length) :
    append pol hp s xs =
      (hp ++ [view hp s ++ xs ++ List.replicate (pol hp.length s.len s.cap xs.length) Attr.zero],
       { arr := hp.length, len := s.len + xs.length,
         cap := s.len + xs.length + pol hp.length s.len s.cap xs.length }) := by
  unfold append
  have : ¬ (s.len + xs.length ≤ s.cap) := by omega
  simp [this]

/-- `append(slices.Clip(s), xs...)`: never writes to an existing array. -/
theorem append_clip (pol : Policy) (hp : Heap) (s : Slice) (xs : List Attr) (h : s.wf hp) :
    ∃ ext, (append pol hp (clip s) xs).1 = hp ++ ext ∧
      (append pol hp (clip s) xs).2.wf (hp ++ ext) ∧
      view (hp ++ ext) (append pol hp (clip s) xs).2 = view hp s ++ xs := by
  by_cases hx : xs = []
  · subst hx
    refine ⟨[], ?_, ?_, ?_⟩
    · simp [append, clip, set_arrayOf_self]
    · simp only [append, clip, List.length_nil, Nat.add_zero, Nat.le_refl, if_true, List.append_nil]
      exact ⟨Nat.le_refl _, Nat.le_trans h.1 h.2⟩
    · simp [append, clip, view]
  · have hlen : 0 < xs.length := List.length_pos_iff.mpr hx
    have hre : (clip s).cap < (clip s).len + xs.length := by simp [clip]; omega
    rw [append_realloc pol hp (clip s) xs hre]
    refine ⟨_, rfl, ?_, ?_⟩
    · refine ⟨by simp, ?_⟩
      simp only [arrayOf_length]
      have : (view hp { arr := s.arr, len := s.len, cap := s.len }).length = s.len := by
        have := view_length h; simpa [view] using this
      simp only [clip, List.length_append, List.length_replicate]
      omega
    · simp only [view, arrayOf_length]
      have hv : (List.take s.len (arrayOf hp s.arr)).length = s.len := by
        have := view_length h; simpa [view] using this
      simp only [clip]
      rw [List.append_assoc, take_len_add _ _ _ _ hv, take_len_exact _ _ _ rfl]

/-! ### `AddAttrs` -/

theorem fillFront_concat (f as : List Attr) :
    (fillFront f as).1 ++ keep (fillFront f as).2 = f ++ keep as := by
  induction as generalizing f with
  | nil => simp [fillFront, keep]
  | cons a rest ih =>
    unfold fillFront
    by_cases hl : f.length < nAttrsInline
    · by_cases he : a.isEmptyGroup
      · simp only [hl, he, if_true]
        rw [ih f]; simp [keep, he]
      · have he' : a.isEmptyGroup = false := by simpa using he
        simp only [hl, he', if_true, Bool.false_eq_true, if_false]
        rw [ih (f ++ [a])]; simp [keep, he']
    · simp [hl]

theorem fillFront_full (f as : List Attr) (h : f.length = nAttrsInline) :
    fillFront f as = (f, as) := by
  cases as with
  | nil => simp [fillFront]
  | cons a rest => simp [fillFront, h]

theorem keep_length (as : List Attr) : as.length - countEmptyGroups as = (keep as).length := by
  induction as with
  | nil => simp [countEmptyGroups, keep]
  | cons a rest ih =>
    by_cases he : a.isEmptyGroup
    · simp only [countEmptyGroups, keep, List.filter_cons, he, if_true, List.length_cons,
        Bool.not_true] at ih ⊢
      simp only [Bool.false_eq_true, if_false]
      omega
    · have hle : countEmptyGroups rest ≤ rest.length := List.length_filter_le _ _
      simp only [countEmptyGroups, keep, List.filter_cons, he, List.length_cons] at ih hle ⊢
      simp only [Bool.false_eq_true, if_false, Bool.not_false, if_true, List.length_cons]
      omega

/-- The last loop of `AddAttrs`, when it runs on the newest array of the heap with enough
room: everything is written into that array, no other array is touched. -/
theorem appendEach_inplace (pol : Policy) (hp : Heap) (a : List Attr) (l c : Nat) (rest : List Attr)
    (hroom : l + (keep rest).length ≤ c) (hc : c ≤ a.length) :
    appendEach pol (hp ++ [a]) { arr := hp.length, len := l, cap := c } rest =
      (hp ++ [a.take l ++ keep rest ++ a.drop (l + (keep rest).length)],
       { arr := hp.length, len := l + (keep rest).length, cap := c }) := by
  induction rest generalizing a l with
  | nil => simp [appendEach, keep]
  | cons x rest ih =>
    unfold appendEach
    by_cases he : x.isEmptyGroup
    · simp only [he, if_true]
      have hk : keep (x :: rest) = keep rest := by simp [keep, he]
      rw [hk] at hroom ⊢
      exact ih a l hroom hc
    · have hk : keep (x :: rest) = x :: keep rest := by simp [keep, he]
      rw [hk] at hroom ⊢
      simp only [List.length_cons] at hroom
      simp only [he, if_false, Bool.false_eq_true]
      have hin : l + [x].length ≤ c := by simp; omega
      have happ : append pol (hp ++ [a]) { arr := hp.length, len := l, cap := c } [x] =
          (hp ++ [a.take l ++ [x] ++ a.drop (l + 1)], { arr := hp.length, len := l + 1, cap := c }) := by
        unfold append
        rw [if_pos hin]
        simp only [arrayOf_length, List.length_cons, List.length_nil, Nat.zero_add, set_last]
      rw [happ]
      simp only
      have hlen : c ≤ (a.take l ++ [x] ++ a.drop (l + 1)).length := by
        simp only [List.length_append, List.length_take, List.length_drop, List.length_cons,
          List.length_nil]
        omega
      rw [ih (a.take l ++ [x] ++ a.drop (l + 1)) (l + 1) (by omega) hlen]
      have hl : l ≤ a.length := by omega
      have htl : (a.take l).length = l := by simp [Nat.min_eq_left hl]
      have htl1 : (a.take l ++ [x]).length = l + 1 := by simp [htl]
      have ht : (a.take l ++ [x] ++ a.drop (l + 1)).take (l + 1) = a.take l ++ [x] :=
        take_len_exact _ _ _ htl1
      have hd : (a.take l ++ [x] ++ a.drop (l + 1)).drop (l + 1 + (keep rest).length) =
          a.drop (l + ((keep rest).length + 1)) := by
        rw [drop_len_add _ _ _ _ htl1, List.drop_drop]
        congr 1; omega
      rw [ht, hd]
      have e1 : l + 1 + (keep rest).length = l + ((keep rest).length + 1) := by omega
      rw [e1]
      simp [List.append_assoc]

theorem appendEach_keep_nil (pol : Policy) (hp : Heap) (s : Slice) (rest : List Attr)
    (h : keep rest = []) : appendEach pol hp s rest = (hp, s) := by
  induction rest with
  | nil => simp [appendEach]
  | cons x rest ih =>
    unfold appendEach
    by_cases he : x.isEmptyGroup
    · simp only [he, if_true]
      apply ih; simpa [keep, he] using h
    · simp [keep, he] at h

theorem grow_zero (pol : Policy) (hp : Heap) (s : Slice) : grow pol hp s 0 = (hp, s) := by
  simp [grow]

/-- `slices.Grow` of a clipped slice by `n > 0`: a new array, the old one untouched. -/
theorem grow_clipped (pol : Policy) (hp : Heap) (arr len n : Nat) (hn : 0 < n) :
    grow pol hp { arr := arr, len := len, cap := len } n =
      (hp ++ [view hp { arr := arr, len := len, cap := len } ++
              List.replicate (n + pol hp.length len len n) Attr.zero],
       { arr := hp.length, len := len, cap := len + n + pol hp.length len len n }) := by
  unfold grow
  have hg : ¬ (n ≤ ({ arr := arr, len := len, cap := len } : Slice).cap -
      ({ arr := arr, len := len, cap := len } : Slice).len) := by simp; omega
  rw [if_neg hg]
  simp only [Nat.sub_self, Nat.sub_zero]
  have hre : ({ arr := arr, len := len, cap := len } : Slice).cap <
      ({ arr := arr, len := len, cap := len } : Slice).len + (List.replicate n Attr.zero).length := by
    simp; omega
  rw [append_realloc pol hp _ _ hre]
  simp [List.replicate_append_replicate, view]

/-- `AddAttrs` on a *cloned* record: the heap is only extended, the front is filled as the
first loop says, and the back afterwards reads as the old back followed by the kept rest. -/
theorem addAttrs_clone (pol : Policy) (hp : Heap) (r : Record) (attrs : List Attr)
    (hw : r.back.wf hp) :
    ∃ ext, (r.clone.addAttrs pol hp attrs).1 = hp ++ ext ∧
      (r.clone.addAttrs pol hp attrs).2.level = r.level ∧
      (r.clone.addAttrs pol hp attrs).2.rid = r.rid ∧
      (r.clone.addAttrs pol hp attrs).2.front = (fillFront r.front attrs).1 ∧
      view (hp ++ ext) (r.clone.addAttrs pol hp attrs).2.back =
        view hp r.back ++ keep (fillFront r.front attrs).2 := by
  unfold Record.addAttrs
  simp only [Record.clone, clip, Nat.lt_irrefl, gt_iff_lt, if_false]
  rw [keep_length]
  generalize (fillFront r.front attrs).2 = rest
  by_cases hk : keep rest = []
  · refine ⟨[], ?_⟩
    simp only [hk, List.length_nil, grow_zero, List.append_nil]
    rw [appendEach_keep_nil pol hp _ rest hk]
    simp [view]
  · have hpos : 0 < (keep rest).length := List.length_pos_iff.mpr hk
    rw [grow_clipped pol hp _ _ _ hpos]
    have hv : (List.take r.back.len (arrayOf hp r.back.arr)).length = r.back.len := by
      have := view_length hw; simpa [view] using this
    simp only
    rw [appendEach_inplace pol hp _ r.back.len _ rest (by omega) (by simp [view, hv]; omega)]
    refine ⟨_, rfl, trivial, trivial, trivial, ?_⟩
    simp only [view, arrayOf_length]
    rw [take_len_exact _ _ _ hv, List.append_assoc, take_len_add _ _ _ _ hv, take_len_exact _ _ _ rfl]

end GolibsVerif.C19
