/-
C19 — the inductive invariant of the `Handle` transition system (`Model/C19Lts.lean`),
preserved by every step of every call under every schedule.
-/
import GolibsVerif.Model.C19Lts

namespace GolibsVerif.C19.Lts

/-- the call holds a pooled buffer (between `Get` and the deferred `Put`) -/
def holds (pc : PC) : Prop := pc ≠ .start ∧ pc ≠ .done

/-- the call holds `h.mu` -/
def inLock (pc : PC) : Prop := pc = .locked ∨ pc = .writing ∨ pc = .unlocking

/-- `Encode` has returned -/
def finished (pc : PC) : Prop := pc = .unlocking ∨ pc = .putting ∨ pc = .done

/-- the line call `i` must emit -/
def lineOf (P : Prog) (i : Nat) : Bytes := P.enc i (P.line i)

def linesOf (P : Prog) (l : List Nat) : Bytes := l.flatMap (lineOf P)

structure Inv (P : Prog) (s : State) : Prop where
  excl : ∀ i j, i ≠ j → holds (s.th i).pc → holds (s.th j).pc → (s.th i).obj ≠ (s.th j).obj
  owned : ∀ i, holds (s.th i).pc → s.free (s.th i).obj = false ∧ (s.th i).obj < s.nobj
  freeLt : ∀ o, s.free o = true → o < s.nobj
  mutex : ∀ i, s.mu = some i ↔ inLock (s.th i).pc
  buf : ∀ i, ((s.th i).pc = .rendered ∨ (s.th i).pc = .locked) → s.bufs (s.th i).obj = P.line i
  bufEmpty : ∀ i, (s.th i).pc = .rendering → s.bufs (s.th i).obj = []
  wr : ∀ i, (s.th i).pc = .writing → ∃ k, (s.th i).pending = (lineOf P i).drop k ∧
    s.out = linesOf P s.completed ++ (lineOf P i).take k
  idle : (∀ i, (s.th i).pc ≠ .writing) → s.out = linesOf P s.completed
  comp : ∀ i, i ∈ s.completed ↔ finished (s.th i).pc
  nodup : s.completed.Nodup

theorem upd_same {α : Type} (f : Nat → α) (i : Nat) (v : α) : upd f i v i = v := by simp [upd]

theorem upd_other {α : Type} (f : Nat → α) (i j : Nat) (v : α) (h : j ≠ i) : upd f i v j = f j := by
  simp [upd, h]

theorem inv_init (P : Prog) : Inv P init := by
  refine ⟨?_, ?_, ?_, ?_, ?_, ?_, ?_, ?_, ?_, ?_⟩ <;> simp [init, holds, inLock, finished, linesOf]

theorem drop_cons_step {α : Type} (l : List α) (k : Nat) (c : α) (rest : List α)
    (h : l.drop k = c :: rest) : l.drop (k + 1) = rest ∧ l.take (k + 1) = l.take k ++ [c] := by
  induction l generalizing k with
  | nil => simp at h
  | cons x l ih =>
    cases k with
    | zero =>
      simp only [List.drop_zero, List.cons.injEq] at h
      obtain ⟨rfl, rfl⟩ := h
      simp
    | succ k =>
      simp only [List.drop_succ_cons] at h
      obtain ⟨h1, h2⟩ := ih k h
      simp [h1, h2]

theorem take_of_drop_nil {α : Type} (l : List α) (k : Nat) (h : l.drop k = []) : l.take k = l := by
  apply List.take_of_length_le
  exact List.drop_eq_nil_iff.mp h


/-! ### preservation, one lemma per kind of step -/

theorem inv_get_fresh (P : Prog) (s : State) (i : Nat) (hinv : Inv P s) (hpc : (s.th i).pc = .start) :
    Inv P { s with th := upd s.th i { pc := .got, obj := s.nobj, pending := [] }
                   nobj := s.nobj + 1, bufs := upd s.bufs s.nobj [] } := by
  obtain ⟨excl, owned, freeLt, mutex, buf, bufEmpty, wr, idle, comp, nodup⟩ := hinv
  refine ⟨?_, ?_, ?_, ?_, ?_, ?_, ?_, ?_, ?_, ?_⟩
  · intro a b hab ha hb
    simp only [upd] at ha hb ⊢
    by_cases h1 : a = i <;> by_cases h2 : b = i <;> simp_all [holds] <;> grind
  · intro a ha
    simp only [upd] at ha ⊢
    by_cases h1 : a = i <;> simp_all [holds] <;> grind
  · intro o ho; have := freeLt o ho; simp; omega
  · intro a; simp only [upd]; by_cases h1 : a = i <;> simp_all [inLock]
  · intro a ha
    simp only [upd] at ha ⊢
    by_cases h1 : a = i <;> simp_all [holds] <;> grind
  · intro a ha
    simp only [upd] at ha ⊢
    by_cases h1 : a = i <;> simp_all [holds] <;> grind
  · intro a ha
    simp only [upd] at ha ⊢
    by_cases h1 : a = i <;> simp_all
  · intro hall
    apply idle
    intro a
    have := hall a
    simp only [upd] at this
    by_cases h1 : a = i <;> simp_all
  · intro a; simp only [upd]; by_cases h1 : a = i <;> simp_all [finished]
  · exact nodup

theorem inv_get_reuse (P : Prog) (s : State) (i o : Nat) (hinv : Inv P s)
    (hpc : (s.th i).pc = .start) (hfree : s.free o = true) :
    Inv P { s with th := upd s.th i { pc := .got, obj := o, pending := [] }, free := upd s.free o false } := by
  obtain ⟨excl, owned, freeLt, mutex, buf, bufEmpty, wr, idle, comp, nodup⟩ := hinv
  refine ⟨?_, ?_, ?_, ?_, ?_, ?_, ?_, ?_, ?_, ?_⟩
  · intro a b hab ha hb
    simp only [upd] at ha hb ⊢
    by_cases h1 : a = i <;> by_cases h2 : b = i <;> simp_all [holds] <;> grind
  · intro a ha
    simp only [upd] at ha ⊢
    by_cases h1 : a = i <;> simp_all [holds] <;> grind
  · intro o' ho'
    simp only [upd] at ho'
    by_cases h1 : o' = o <;> simp_all
  · intro a; simp only [upd]; by_cases h1 : a = i <;> simp_all [inLock]
  · intro a ha
    simp only [upd] at ha ⊢
    by_cases h1 : a = i <;> simp_all [holds]
  · intro a ha
    simp only [upd] at ha ⊢
    by_cases h1 : a = i <;> simp_all [holds]
  · intro a ha
    simp only [upd] at ha ⊢
    by_cases h1 : a = i <;> simp_all
  · intro hall
    apply idle
    intro a
    have := hall a
    simp only [upd] at this
    by_cases h1 : a = i <;> simp_all
  · intro a; simp only [upd]; by_cases h1 : a = i <;> simp_all [finished]
  · exact nodup

theorem inv_gc (P : Prog) (s : State) (o : Nat) (hinv : Inv P s) :
    Inv P { s with free := upd s.free o false } := by
  obtain ⟨excl, owned, freeLt, mutex, buf, bufEmpty, wr, idle, comp, nodup⟩ := hinv
  refine ⟨excl, ?_, ?_, mutex, buf, bufEmpty, wr, idle, comp, nodup⟩
  · intro a ha
    have := owned a ha
    simp only [upd]
    by_cases h1 : (s.th a).obj = o <;> simp_all
  · intro o' ho'
    simp only [upd] at ho'
    by_cases h1 : o' = o <;> simp_all

theorem inv_reset (P : Prog) (s : State) (i : Nat) (hinv : Inv P s) (hpc : (s.th i).pc = .got) :
    Inv P { s with th := upd s.th i { s.th i with pc := .rendering }
                   bufs := upd s.bufs (s.th i).obj [] } := by
  obtain ⟨excl, owned, freeLt, mutex, buf, bufEmpty, wr, idle, comp, nodup⟩ := hinv
  refine ⟨?_, ?_, freeLt, ?_, ?_, ?_, ?_, ?_, ?_, nodup⟩
  · intro a b hab ha hb
    simp only [upd] at ha hb ⊢
    by_cases h1 : a = i <;> by_cases h2 : b = i <;> simp_all [holds] <;> grind
  · intro a ha
    simp only [upd] at ha ⊢
    by_cases h1 : a = i <;> simp_all [holds]
  · intro a; simp only [upd]; by_cases h1 : a = i <;> simp_all [inLock]
  · intro a ha
    simp only [upd] at ha ⊢
    by_cases h1 : a = i
    · simp_all
    · have hne := excl a i h1 (by simp_all [holds] ; grind) (by simp_all [holds])
      simp_all
  · intro a ha
    simp only [upd] at ha ⊢
    by_cases h1 : a = i
    · simp_all
    · have hne := excl a i h1 (by simp_all [holds]) (by simp_all [holds])
      simp_all
  · intro a ha
    simp only [upd] at ha ⊢
    by_cases h1 : a = i <;> simp_all
  · intro hall
    apply idle
    intro a
    have := hall a
    simp only [upd] at this
    by_cases h1 : a = i <;> simp_all
  · intro a; simp only [upd]; by_cases h1 : a = i <;> simp_all [finished]

theorem inv_render (P : Prog) (s : State) (i : Nat) (hinv : Inv P s) (hpc : (s.th i).pc = .rendering) :
    Inv P { s with th := upd s.th i { s.th i with pc := .rendered }
                   bufs := upd s.bufs (s.th i).obj (s.bufs (s.th i).obj ++ P.line i) } := by
  obtain ⟨excl, owned, freeLt, mutex, buf, bufEmpty, wr, idle, comp, nodup⟩ := hinv
  refine ⟨?_, ?_, freeLt, ?_, ?_, ?_, ?_, ?_, ?_, nodup⟩
  · intro a b hab ha hb
    simp only [upd] at ha hb ⊢
    by_cases h1 : a = i <;> by_cases h2 : b = i <;> simp_all [holds] <;> grind
  · intro a ha
    simp only [upd] at ha ⊢
    by_cases h1 : a = i <;> simp_all [holds]
  · intro a; simp only [upd]; by_cases h1 : a = i <;> simp_all [inLock]
  · intro a ha
    simp only [upd] at ha ⊢
    by_cases h1 : a = i
    · have := bufEmpty i hpc
      simp_all
    · have hne := excl a i h1 (by simp_all [holds] ; grind) (by simp_all [holds])
      simp_all
  · intro a ha
    simp only [upd] at ha ⊢
    by_cases h1 : a = i
    · simp_all
    · have hne := excl a i h1 (by simp_all [holds]) (by simp_all [holds])
      simp_all
  · intro a ha
    simp only [upd] at ha ⊢
    by_cases h1 : a = i <;> simp_all
  · intro hall
    apply idle
    intro a
    have := hall a
    simp only [upd] at this
    by_cases h1 : a = i <;> simp_all
  · intro a; simp only [upd]; by_cases h1 : a = i <;> simp_all [finished]

theorem inv_lock (P : Prog) (s : State) (i : Nat) (hinv : Inv P s) (hpc : (s.th i).pc = .rendered)
    (hmu : s.mu = none) :
    Inv P { s with th := upd s.th i { s.th i with pc := .locked }, mu := some i } := by
  obtain ⟨excl, owned, freeLt, mutex, buf, bufEmpty, wr, idle, comp, nodup⟩ := hinv
  refine ⟨?_, ?_, freeLt, ?_, ?_, ?_, ?_, ?_, ?_, nodup⟩
  · intro a b hab ha hb
    simp only [upd] at ha hb ⊢
    by_cases h1 : a = i <;> by_cases h2 : b = i <;> simp_all [holds] <;> grind
  · intro a ha
    simp only [upd] at ha ⊢
    by_cases h1 : a = i <;> simp_all [holds]
  · intro a
    simp only [upd]
    by_cases h1 : a = i
    · simp_all [inLock]
    · have := mutex a
      simp_all [inLock]
      grind
  · intro a ha
    simp only [upd] at ha ⊢
    by_cases h1 : a = i <;> simp_all
  · intro a ha
    simp only [upd] at ha ⊢
    by_cases h1 : a = i <;> simp_all
  · intro a ha
    simp only [upd] at ha ⊢
    by_cases h1 : a = i <;> simp_all
  · intro hall
    apply idle
    intro a
    have := hall a
    simp only [upd] at this
    by_cases h1 : a = i <;> simp_all
  · intro a; simp only [upd]; by_cases h1 : a = i <;> simp_all [finished]

theorem no_writer_of_lock (P : Prog) (s : State) (i : Nat) (hinv : Inv P s)
    (hi : inLock (s.th i).pc) (a : Nat) (ha : a ≠ i) : ¬ inLock (s.th a).pc := by
  intro h
  have h1 := (hinv.mutex i).mpr hi
  have h2 := (hinv.mutex a).mpr h
  rw [h1] at h2
  exact ha (Option.some.inj h2).symm

theorem inv_marshal (P : Prog) (s : State) (i : Nat) (hinv : Inv P s) (hpc : (s.th i).pc = .locked) :
    Inv P { s with th := upd s.th i { s.th i with pc := .writing, pending := P.enc i (s.bufs (s.th i).obj) } } := by
  have hnw := no_writer_of_lock P s i hinv (by simp [inLock, hpc])
  obtain ⟨excl, owned, freeLt, mutex, buf, bufEmpty, wr, idle, comp, nodup⟩ := hinv
  refine ⟨?_, ?_, freeLt, ?_, ?_, ?_, ?_, ?_, ?_, nodup⟩
  · intro a b hab ha hb
    simp only [upd] at ha hb ⊢
    by_cases h1 : a = i <;> by_cases h2 : b = i <;> simp_all [holds] <;> grind
  · intro a ha
    simp only [upd] at ha ⊢
    by_cases h1 : a = i <;> simp_all [holds]
  · intro a
    simp only [upd]
    by_cases h1 : a = i <;> simp_all [inLock]
  · intro a ha
    simp only [upd] at ha ⊢
    by_cases h1 : a = i <;> simp_all
  · intro a ha
    simp only [upd] at ha ⊢
    by_cases h1 : a = i <;> simp_all
  · intro a ha
    simp only [upd] at ha ⊢
    by_cases h1 : a = i
    · subst h1
      refine ⟨0, ?_, ?_⟩
      · simp [lineOf, buf a (Or.inr hpc)]
      · simp only [List.take_zero, List.append_nil]
        apply idle
        intro b hb
        by_cases hba : b = a
        · subst hba; simp [hpc] at hb
        · exact hnw b hba (by simp [inLock, hb])
    · have := hnw a h1
      simp_all [inLock]
  · intro hall
    have := hall i
    simp [upd] at this
  · intro a; simp only [upd]; by_cases h1 : a = i <;> simp_all [finished]

theorem inv_emit (P : Prog) (s : State) (i c : Nat) (rest : Bytes) (hinv : Inv P s)
    (hpc : (s.th i).pc = .writing) (hp : (s.th i).pending = c :: rest) :
    Inv P { s with th := upd s.th i { s.th i with pending := rest }, out := s.out ++ [c] } := by
  have hnw := no_writer_of_lock P s i hinv (by simp [inLock, hpc])
  obtain ⟨excl, owned, freeLt, mutex, buf, bufEmpty, wr, idle, comp, nodup⟩ := hinv
  refine ⟨?_, ?_, freeLt, ?_, ?_, ?_, ?_, ?_, ?_, nodup⟩
  · intro a b hab ha hb
    simp only [upd] at ha hb ⊢
    by_cases h1 : a = i <;> by_cases h2 : b = i <;> simp_all [holds] <;> grind
  · intro a ha
    simp only [upd] at ha ⊢
    by_cases h1 : a = i <;> simp_all [holds]
  · intro a
    simp only [upd]
    by_cases h1 : a = i <;> simp_all [inLock]
  · intro a ha
    simp only [upd] at ha ⊢
    by_cases h1 : a = i <;> simp_all
  · intro a ha
    simp only [upd] at ha ⊢
    by_cases h1 : a = i <;> simp_all
  · intro a ha
    simp only [upd] at ha ⊢
    by_cases h1 : a = i
    · subst h1
      obtain ⟨k, hk1, hk2⟩ := wr a hpc
      rw [hp] at hk1
      obtain ⟨d1, d2⟩ := drop_cons_step _ k c rest hk1.symm
      refine ⟨k + 1, ?_, ?_⟩
      · simp [d1]
      · simp only [hk2, d2, List.append_assoc]
    · have := hnw a h1
      simp_all [inLock]
  · intro hall
    have := hall i
    simp [upd, hpc] at this
  · intro a; simp only [upd]; by_cases h1 : a = i <;> simp_all [finished]

theorem inv_return (P : Prog) (s : State) (i : Nat) (hinv : Inv P s)
    (hpc : (s.th i).pc = .writing) (hp : (s.th i).pending = []) :
    Inv P { s with th := upd s.th i { s.th i with pc := .unlocking }, completed := s.completed ++ [i] } := by
  have hnw := no_writer_of_lock P s i hinv (by simp [inLock, hpc])
  obtain ⟨excl, owned, freeLt, mutex, buf, bufEmpty, wr, idle, comp, nodup⟩ := hinv
  have hout : s.out = linesOf P (s.completed ++ [i]) := by
    obtain ⟨k, hk1, hk2⟩ := wr i hpc
    rw [hp] at hk1
    rw [hk2, take_of_drop_nil _ k hk1.symm]
    simp [linesOf]
  have hni : i ∉ s.completed := by
    intro h; have := (comp i).mp h; simp [finished, hpc] at this
  refine ⟨?_, ?_, freeLt, ?_, ?_, ?_, ?_, ?_, ?_, ?_⟩
  · intro a b hab ha hb
    simp only [upd] at ha hb ⊢
    by_cases h1 : a = i <;> by_cases h2 : b = i <;> simp_all [holds] <;> grind
  · intro a ha
    simp only [upd] at ha ⊢
    by_cases h1 : a = i <;> simp_all [holds]
  · intro a
    simp only [upd]
    by_cases h1 : a = i <;> simp_all [inLock]
  · intro a ha
    simp only [upd] at ha ⊢
    by_cases h1 : a = i <;> simp_all
  · intro a ha
    simp only [upd] at ha ⊢
    by_cases h1 : a = i <;> simp_all
  · intro a ha
    simp only [upd] at ha ⊢
    by_cases h1 : a = i
    · simp_all
    · have := hnw a h1
      simp_all [inLock]
  · intro _
    exact hout
  · intro a
    simp only [upd, List.mem_append, List.mem_singleton]
    by_cases h1 : a = i
    · simp_all [finished]
    · have := comp a
      simp_all [finished]
  · rw [List.nodup_append]
    refine ⟨nodup, by simp, ?_⟩
    intro a ha b hb
    simp only [List.mem_singleton] at hb
    subst hb
    intro h
    subst h
    exact hni ha

theorem inv_unlock (P : Prog) (s : State) (i : Nat) (hinv : Inv P s) (hpc : (s.th i).pc = .unlocking) :
    Inv P { s with th := upd s.th i { s.th i with pc := .putting }, mu := none } := by
  have hnw := no_writer_of_lock P s i hinv (by simp [inLock, hpc])
  obtain ⟨excl, owned, freeLt, mutex, buf, bufEmpty, wr, idle, comp, nodup⟩ := hinv
  refine ⟨?_, ?_, freeLt, ?_, ?_, ?_, ?_, ?_, ?_, nodup⟩
  · intro a b hab ha hb
    simp only [upd] at ha hb ⊢
    by_cases h1 : a = i <;> by_cases h2 : b = i <;> simp_all [holds] <;> grind
  · intro a ha
    simp only [upd] at ha ⊢
    by_cases h1 : a = i <;> simp_all [holds]
  · intro a
    simp only [upd]
    by_cases h1 : a = i
    · simp_all [inLock]
    · have := hnw a h1
      simp_all
  · intro a ha
    simp only [upd] at ha ⊢
    by_cases h1 : a = i <;> simp_all
  · intro a ha
    simp only [upd] at ha ⊢
    by_cases h1 : a = i <;> simp_all
  · intro a ha
    simp only [upd] at ha ⊢
    by_cases h1 : a = i
    · simp_all
    · have := hnw a h1
      simp_all [inLock]
  · intro _
    apply idle
    intro a ha
    by_cases h1 : a = i
    · subst h1; simp [hpc] at ha
    · exact hnw a h1 (by simp [inLock, ha])
  · intro a; simp only [upd]; by_cases h1 : a = i <;> simp_all [finished]

theorem inv_put (P : Prog) (s : State) (i : Nat) (hinv : Inv P s) (hpc : (s.th i).pc = .putting) :
    Inv P { s with th := upd s.th i { s.th i with pc := .done }, free := upd s.free (s.th i).obj true } := by
  obtain ⟨excl, owned, freeLt, mutex, buf, bufEmpty, wr, idle, comp, nodup⟩ := hinv
  have hi : holds (s.th i).pc := by simp [holds, hpc]
  refine ⟨?_, ?_, ?_, ?_, ?_, ?_, ?_, ?_, ?_, nodup⟩
  · intro a b hab ha hb
    simp only [upd] at ha hb ⊢
    by_cases h1 : a = i <;> by_cases h2 : b = i <;> simp_all [holds]
  · intro a ha
    simp only [upd] at ha ⊢
    by_cases h1 : a = i
    · simp_all [holds]
    · have hne := excl a i h1 (by simp_all) hi
      have := owned a (by simp_all)
      simp_all
  · intro o ho
    simp only [upd] at ho
    by_cases h1 : o = (s.th i).obj
    · have := owned i hi; simp_all
    · simp_all
  · intro a
    simp only [upd]
    by_cases h1 : a = i <;> simp_all [inLock]
  · intro a ha
    simp only [upd] at ha ⊢
    by_cases h1 : a = i <;> simp_all
  · intro a ha
    simp only [upd] at ha ⊢
    by_cases h1 : a = i <;> simp_all
  · intro a ha
    simp only [upd] at ha ⊢
    by_cases h1 : a = i <;> simp_all
  · intro hall
    apply idle
    intro a
    have := hall a
    simp only [upd] at this
    by_cases h1 : a = i <;> simp_all
  · intro a; simp only [upd]; by_cases h1 : a = i <;> simp_all [finished]

/-- Every step of every call preserves the invariant. -/
theorem inv_next (P : Prog) (s s' : State) (l : Label) (hinv : Inv P s) (h : next P s l = some s') :
    Inv P s' := by
  cases l with
  | get i reuse =>
    unfold next at h
    simp only at h
    by_cases hpc : (s.th i).pc = .start
    · rw [if_pos hpc] at h
      cases reuse with
      | none =>
        simp only [Option.some.injEq] at h
        subst h
        exact inv_get_fresh P s i hinv hpc
      | some o =>
        simp only at h
        by_cases hf : s.free o = true
        · rw [if_pos hf] at h
          simp only [Option.some.injEq] at h
          subst h
          exact inv_get_reuse P s i o hinv hpc hf
        · rw [if_neg hf] at h; cases h
    · rw [if_neg hpc] at h; cases h
  | gc o =>
    unfold next at h
    simp only at h
    by_cases hf : s.free o = true
    · rw [if_pos hf] at h
      simp only [Option.some.injEq] at h
      subst h
      exact inv_gc P s o hinv
    · rw [if_neg hf] at h; cases h
  | adv i =>
    unfold next at h
    simp only at h
    split at h
    · cases h
    · cases h
    · rename_i hpc
      simp only [Option.some.injEq] at h; subst h
      exact inv_reset P s i hinv hpc
    · rename_i hpc
      simp only [Option.some.injEq] at h; subst h
      exact inv_render P s i hinv hpc
    · rename_i hpc
      by_cases hmu : s.mu = none
      · rw [if_pos hmu] at h
        simp only [Option.some.injEq] at h; subst h
        exact inv_lock P s i hinv hpc hmu
      · rw [if_neg hmu] at h; cases h
    · rename_i hpc
      simp only [Option.some.injEq] at h; subst h
      exact inv_marshal P s i hinv hpc
    · rename_i hpc
      split at h
      · rename_i hp
        simp only [Option.some.injEq] at h; subst h
        exact inv_return P s i hinv hpc hp
      · rename_i c rest hp
        simp only [Option.some.injEq] at h; subst h
        exact inv_emit P s i c rest hinv hpc hp
    · rename_i hpc
      simp only [Option.some.injEq] at h; subst h
      exact inv_unlock P s i hinv hpc
    · rename_i hpc
      simp only [Option.some.injEq] at h; subst h
      exact inv_put P s i hinv hpc

theorem inv_run (P : Prog) (ls : List Label) (s s' : State) (hinv : Inv P s)
    (h : run P s ls = some s') : Inv P s' := by
  induction ls generalizing s with
  | nil => simp only [run, Option.some.injEq] at h; subst h; exact hinv
  | cons l ls ih =>
    simp only [run] at h
    cases hn : next P s l with
    | none => rw [hn] at h; cases h
    | some s1 =>
      rw [hn] at h
      exact ih s1 (inv_next P s s1 l hinv hn) h

theorem inv_reachable (P : Prog) (s : State) (h : Reachable P s) : Inv P s := by
  obtain ⟨ls, hls⟩ := h
  exact inv_run P ls init s (inv_init P) hls

end GolibsVerif.C19.Lts
