/-
C08 — lemmas for the scanner theorems: `ScanLines` against `scanLines`, one `Read` against
`outcome`, the read loop, one `Scan`, the `for s.Scan()` loop.
-/
import GolibsVerif.Spec.C08Scan
import GolibsVerif.Lemmas.C08

namespace GolibsVerif.C08
open GolibsVerif GolibsVerif.Bufio

/-! ### `dropCR`, `bytes.IndexByte`, `scanLines` -/

theorem dropCR_eq (l : Bytes) : Bufio.dropCR l = C08.dropCR l := by
  unfold Bufio.dropCR C08.dropCR
  rw [List.getLast?_eq_getElem?, List.dropLast_eq_take]
  by_cases hl : l.length > 0
  · cases h : l[l.length - 1]? with
    | none => simp
    | some b =>
      by_cases hb : b = 13
      · subst hb; simp [hl]
      · simp [hb]
  · have : l = [] := by
      cases l with
      | nil => rfl
      | cons _ _ => simp at hl
    subst this
    simp

theorem indexByte_some (d : Bytes) (c i : Nat) (h : indexByte d c = some i) :
    d = d.take i ++ c :: d.drop (i + 1) ∧ c ∉ d.take i := by
  induction d generalizing i with
  | nil => simp [indexByte] at h
  | cons b t ih =>
    unfold indexByte at h
    split at h
    · rename_i hb
      simp only [Option.some.injEq] at h
      subst h; subst hb
      simp
    · rename_i hb
      cases ht : indexByte t c with
      | none => simp [ht] at h
      | some j =>
        simp only [ht, Option.map_some, Option.some.injEq] at h
        subst h
        have := ih j ht
        simp only [List.take_succ_cons, List.drop_succ_cons, List.cons_append, List.mem_cons, not_or]
        exact ⟨by rw [← this.1], fun h => hb h.symm, this.2⟩

theorem indexByte_none (d : Bytes) (c : Nat) (h : indexByte d c = none) : c ∉ d := by
  induction d with
  | nil => simp
  | cons b t ih =>
    unfold indexByte at h
    split at h
    · simp at h
    · rename_i hb
      simp only [Option.map_eq_none_iff] at h
      simp only [List.mem_cons, not_or]
      exact ⟨fun h => hb h.symm, ih h⟩

theorem scanLines_cons_line (l r : Bytes) (hl : 10 ∉ l) :
    scanLines (l ++ 10 :: r) = C08.dropCR l :: scanLines r := by
  unfold scanLines
  rw [scanLinesAux_line l (fun b hb h => hl (h ▸ hb))]
  simp

theorem scanLinesAux_tail (l : Bytes) (hl : 10 ∉ l) (cur : Bytes) :
    scanLinesAux l cur = if cur.reverse ++ l = [] then [] else [C08.dropCR (cur.reverse ++ l)] := by
  induction l generalizing cur with
  | nil => simp [scanLinesAux]
  | cons b t ih =>
    have hb : b ≠ 10 := fun h => hl (by simp [h])
    simp only [scanLinesAux, hb, if_false]
    rw [ih (fun h => hl (by simp [h]))]
    simp

theorem scanLines_tail (l : Bytes) (hl : 10 ∉ l) :
    scanLines l = if l = [] then [] else [C08.dropCR l] := by
  unfold scanLines
  rw [scanLinesAux_tail l hl []]
  by_cases h0 : l = [] <;> simp [h0]

/-- the held data contain a newline at index `i`: the first token and what remains -/
theorem scanLines_index_some (d R : Bytes) (i : Nat) (h : indexByte d 10 = some i) :
    scanLines (d ++ R) = Bufio.dropCR (d.take i) :: scanLines (d.drop (i + 1) ++ R) := by
  obtain ⟨h1, h2⟩ := indexByte_some d 10 i h
  conv => lhs; rw [h1]
  rw [List.append_assoc, List.cons_append, scanLines_cons_line _ _ h2, dropCR_eq]

/-! ### `LinesShort` -/

theorem LinesShort.suffix {s t : Bytes} {lim : Nat} (h : LinesShort s lim) (hst : t <:+ s) : LinesShort t lim :=
  fun l hl h10 => h l (List.IsInfix.trans hl hst.isInfix) h10

/-- a piece without `c` of `a ++ c :: r` lies in `a` or in `r` -/
theorem infix_split {l a r : Bytes} {c : Nat} (h : l <:+: a ++ c :: r) (hc : c ∉ l) : l <:+: a ∨ l <:+: r := by
  obtain ⟨p, q, hpq⟩ := h
  rw [List.append_assoc, List.append_eq_append_iff] at hpq
  rcases hpq with ⟨a', rfl, h2⟩ | ⟨c', rfl, h2⟩
  · -- `p ++ a' = a`, `l ++ q = a' ++ c :: r`   (here `a = p ++ a'`)
    rw [List.append_eq_append_iff] at h2
    rcases h2 with ⟨x, rfl, _⟩ | ⟨y, rfl, h3⟩
    · exact Or.inl ⟨p, x, by simp⟩
    · cases y with
      | nil => exact Or.inl ⟨p, [], by simp⟩
      | cons y0 y' =>
        simp only [List.cons_append, List.cons.injEq] at h3
        exact absurd (by simp [← h3.1]) hc
  · cases c' with
    | nil =>
      simp only [List.nil_append] at h2
      cases l with
      | nil => exact Or.inl ⟨[], a, by simp⟩
      | cons l0 l' =>
        simp only [List.cons_append, List.cons.injEq] at h2
        exact absurd (by simp [h2.1]) hc
    | cons c0 c'' =>
      simp only [List.cons_append, List.cons.injEq] at h2
      exact Or.inr ⟨c'', q, by rw [h2.2, List.append_assoc]⟩

theorem LinesShort.prefix_len {d R : Bytes} {lim : Nat} (h : LinesShort (d ++ R) lim) (h10 : 10 ∉ d) :
    d.length < lim :=
  h d (List.prefix_append d R).isInfix h10

/-! ### one `Read` against `outcome` -/

theorem take_ne_nil {l : Bytes} {n : Nat} (hn : n ≠ 0) (hl : n ≤ l.length) : l.take n ≠ [] := by
  intro h
  have := congrArg List.length h
  simp only [List.length_take, List.length_nil] at this
  omega

/-- one `Read` with `room > 0` of a reader whose script has outcome `(m, e)` after `k`
consecutive empty reads: it ends the input, or delivers bytes, or is the next empty read -/
theorem read_spec (r : Reader) (room k m : Nat) (e : Err) (hroom : room ≠ 0)
    (hout : outcome k r.script = (m, e)) (hm : m ≤ r.rest.length) :
    ((r.read room).2.1 = some e ∧ (r.read room).1 = r.rest.take m) ∨
    ((r.read room).2.1 = none ∧ (r.read room).1 ≠ [] ∧
      ∃ m', outcome 0 (r.read room).2.2.script = (m', e) ∧ m' ≤ (r.read room).2.2.rest.length ∧
        (r.read room).1 ++ (r.read room).2.2.rest.take m' = r.rest.take m) ∨
    ((r.read room).2.1 = none ∧ (r.read room).1 = [] ∧ k < maxConsecutiveEmptyReads ∧
      outcome (k + 1) (r.read room).2.2.script = (m, e) ∧ (r.read room).2.2.rest = r.rest) ∨
    ((r.read room).2.1 = none ∧ (r.read room).1 = [] ∧ maxConsecutiveEmptyReads ≤ k ∧ m = 0 ∧
      e = .noProgress) := by
  obtain ⟨rest, script⟩ := r
  simp only at hout hm
  unfold Reader.read
  simp only [hroom, if_false]
  cases script with
  | nil =>
    simp only [outcome, Prod.mk.injEq] at hout
    obtain ⟨rfl, rfl⟩ := hout
    left; simp
  | cons hd tl =>
    obtain ⟨n, x⟩ := hd
    by_cases hn : n ≤ room
    · simp only [hn, if_true]
      cases x with
      | some e' =>
        simp only [outcome, Prod.mk.injEq] at hout
        obtain ⟨rfl, rfl⟩ := hout
        left; simp
      | none =>
        by_cases h0 : n = 0
        · subst h0
          simp only [outcome, if_true] at hout
          by_cases hk : maxConsecutiveEmptyReads ≤ k
          · simp only [hk, if_true, Prod.mk.injEq] at hout
            obtain ⟨rfl, rfl⟩ := hout
            right; right; right; simp [hk]
          · simp only [hk, if_false] at hout
            right; right; left
            simp only [List.take_zero, List.drop_zero, true_and]
            exact ⟨by omega, hout, trivial⟩
        · simp only [outcome, h0, if_false, Prod.mk.injEq] at hout
          obtain ⟨hm1, he1⟩ := hout
          right; left
          refine ⟨rfl, take_ne_nil h0 (by omega), (outcome 0 tl).1, ?_, ?_, ?_⟩
          · simp [← he1]
          · simp only [List.length_drop]; omega
          · rw [← hm1, Nat.add_comm, List.take_add]
    · simp only [hn, if_false]
      right; left
      have hnr : n - room ≠ 0 := by omega
      cases x with
      | some e' =>
        simp only [outcome, Prod.mk.injEq] at hout
        obtain ⟨rfl, rfl⟩ := hout
        refine ⟨trivial, take_ne_nil hroom (by omega), n - room, ?_, ?_, ?_⟩
        · simp [outcome]
        · simp only [List.length_drop]; omega
        · rw [← List.take_add]
          congr 1; omega
      | none =>
        have h0 : n ≠ 0 := by omega
        simp only [outcome, h0, if_false, Prod.mk.injEq] at hout
        obtain ⟨hm1, he1⟩ := hout
        refine ⟨trivial, take_ne_nil hroom (by omega), (outcome 0 tl).1 + (n - room), ?_, ?_, ?_⟩
        · simp [outcome, hnr, ← he1]
        · simp only [List.length_drop]; omega
        · rw [← List.take_add]
          congr 1; omega

/-! ### the read loop -/

/-- the read loop, entered after `k` consecutive empty reads with room in the buffer, from a
state without error whose script has outcome `(m, e)`: it either delivers some bytes and
leaves a script with the same ending, or it ends the input with `e` having delivered all `m`
bytes -/
theorem fill_spec (s : Scanner) (k m : Nat) (e : Err)
    (herr : s.err = none) (hout : outcome k s.rd.script = (m, e)) (hm : m ≤ s.rd.rest.length)
    (hroom : s.end_ < s.bufLen) :
    (fill s k).maxTokenSize = s.maxTokenSize ∧ (fill s k).done = s.done ∧
    (fill s k).end_ ≤ (fill s k).bufLen ∧
    (((fill s k).err = none ∧ ∃ m', outcome 0 (fill s k).rd.script = (m', e) ∧
        m' ≤ (fill s k).rd.rest.length ∧
        (fill s k).data ++ (fill s k).rd.rest.take m' = s.data ++ s.rd.rest.take m) ∨
     ((fill s k).err = some e ∧ (fill s k).data = s.data ++ s.rd.rest.take m)) := by
  fun_induction fill s k with
  | case1 s loop res hbad =>
    have := Reader.read_length s.rd (s.bufLen - s.end_)
    simp only [res] at hbad
    omega
  | case2 s loop res hbad s' e' he' =>
    have hlen := (Reader.read_length s.rd (s.bufLen - s.end_)).2
    have hsp := read_spec s.rd (s.bufLen - s.end_) loop m e (by omega) hout hm
    simp only [s', res] at *
    generalize s.rd.read (s.bufLen - s.end_) = rr at *
    obtain ⟨bytes, err, rd'⟩ := rr
    simp only at *
    subst he'
    simp only [Option.some.injEq, reduceCtorEq, false_and, or_false] at hsp
    obtain ⟨rfl, rfl⟩ := hsp
    simp only [Scanner.setErr, herr, true_or, if_true, true_and]
    refine ⟨?_, by simp⟩
    simp only [Scanner.end_, List.length_append] at *
    omega
  | case3 s loop res hbad s' he' hpos =>
    have hlen := (Reader.read_length s.rd (s.bufLen - s.end_)).2
    have hsp := read_spec s.rd (s.bufLen - s.end_) loop m e (by omega) hout hm
    simp only [s', res] at *
    generalize s.rd.read (s.bufLen - s.end_) = rr at *
    obtain ⟨bytes, err, rd'⟩ := rr
    simp only at *
    subst he'
    have hne : bytes ≠ [] := by intro h; simp [h] at hpos
    simp only [reduceCtorEq, false_and, false_or, hne, true_and, ne_eq, not_false_eq_true, or_false] at hsp
    obtain ⟨m', h1, h2, h3⟩ := hsp
    simp only [herr, true_and]
    refine ⟨?_, Or.inl ⟨m', h1, h2, ?_⟩⟩
    · simp only [Scanner.end_, List.length_append] at *
      omega
    · rw [List.append_assoc, h3]
  | case4 s loop res hbad s' he' hpos hloop =>
    have hsp := read_spec s.rd (s.bufLen - s.end_) loop m e (by omega) hout hm
    simp only [s', res] at *
    generalize s.rd.read (s.bufLen - s.end_) = rr at *
    obtain ⟨bytes, err, rd'⟩ := rr
    simp only at *
    subst he'
    have hnil : bytes = [] := by
      cases bytes with
      | nil => rfl
      | cons _ _ => simp at hpos
    subst hnil
    have hk : ¬ loop < maxConsecutiveEmptyReads := by omega
    simp only [reduceCtorEq, false_and, false_or, ne_eq, not_true_eq_false, hk, true_and] at hsp
    obtain ⟨_, rfl, rfl⟩ := hsp
    simp only [Scanner.setErr, herr, true_or, if_true, List.append_nil, List.take_zero, true_and]
    refine ⟨?_, Or.inr trivial⟩
    simp only [Scanner.end_] at *
    omega
  | case5 s loop res hbad s' he' hpos hloop ih =>
    have hsp := read_spec s.rd (s.bufLen - s.end_) loop m e (by omega) hout hm
    simp only [s', res] at *
    generalize s.rd.read (s.bufLen - s.end_) = rr at *
    obtain ⟨bytes, err, rd'⟩ := rr
    simp only at *
    subst he'
    have hnil : bytes = [] := by
      cases bytes with
      | nil => rfl
      | cons _ _ => simp at hpos
    subst hnil
    have hk : ¬ maxConsecutiveEmptyReads ≤ loop := by omega
    simp only [reduceCtorEq, false_and, false_or, ne_eq, not_true_eq_false, hk, true_and, or_false] at hsp
    obtain ⟨_, h1, h2⟩ := hsp
    simp only [List.append_nil] at ih ⊢
    have ih := ih herr h1 (by rw [h2]; exact hm) (by simpa [Scanner.end_] using hroom)
    rw [h2] at ih
    exact ih

/-! ### buffer shifting and growth -/

/-- when what is held is shorter than the maximum token size, shifting / growing the buffer
never ends in `ErrTooLong`, changes nothing but `start` and `len(buf)`, and leaves room -/
theorem grow_shift_ok (s : Scanner) (hend : s.end_ ≤ s.bufLen) (hlen : s.data.length < s.maxTokenSize)
    (hmax : s.maxTokenSize ≤ maxInt / 2 + 1) :
    ∃ s2, grow (shift s) = some s2 ∧ s2.rd = s.rd ∧ s2.data = s.data ∧ s2.err = s.err ∧ s2.done = s.done ∧
      s2.maxTokenSize = s.maxTokenSize ∧ s2.end_ < s2.bufLen := by
  obtain ⟨rd, mt, bl, st, data, err, em, dn⟩ := s
  dsimp only [Scanner.end_] at hend hlen hmax
  simp only [Scanner.end_, maxInt, startBufSize, shift, grow] at *
  by_cases h1 : st > 0 ∧ (st + data.length = bl ∨ st > bl / 2)
  · simp only [h1, and_self, if_true, Nat.zero_add]
    by_cases h2 : data.length = bl
    · have h3 : ¬ (bl ≥ mt ∨ bl > (2 ^ 63 - 1) / 2) := by omega
      simp only [h2, if_true, h3, if_false]
      refine ⟨_, rfl, rfl, rfl, rfl, rfl, rfl, ?_⟩
      dsimp only
      split <;> omega
    · simp only [h2, if_false]
      refine ⟨_, rfl, rfl, rfl, rfl, rfl, rfl, ?_⟩
      dsimp only
      omega
  · simp only [h1, if_false]
    by_cases h2 : st + data.length = bl
    · have h3 : ¬ (bl ≥ mt ∨ bl > (2 ^ 63 - 1) / 2) := by omega
      simp only [h2, if_true, h3, if_false]
      refine ⟨_, rfl, rfl, rfl, rfl, rfl, rfl, ?_⟩
      dsimp only
      split <;> omega
    · simp only [h2, if_false]
      refine ⟨_, rfl, rfl, rfl, rfl, rfl, rfl, ?_⟩
      dsimp only
      omega

/-! ### one `Scan` -/

/-- a scanner that may still read: no error yet, room for the buffer invariant, a script with
outcome `(m, e)`; the tokens still to come are those of what is held plus the `m` bytes the
reader will deliver, all of whose lines are short -/
def Live (s : Scanner) (toks : List Bytes) (e : Err) : Prop :=
  s.err = none ∧ s.done = false ∧ s.end_ ≤ s.bufLen ∧ s.maxTokenSize ≤ maxInt / 2 + 1 ∧
  ∃ m, outcome 0 s.rd.script = (m, e) ∧ m ≤ s.rd.rest.length ∧
    LinesShort (s.data ++ s.rd.rest.take m) s.maxTokenSize ∧ scanLines (s.data ++ s.rd.rest.take m) = toks

/-- a scanner whose input has ended with `e`: the tokens still to come are those of what is held -/
def Drain (s : Scanner) (toks : List Bytes) (e : Err) : Prop :=
  s.err = some e ∧ s.done = false ∧ scanLines s.data = toks

/-- what one `Scan` does when the tokens still to come are `toks` -/
def Post (r : GoM (Option Bytes × Scanner)) : List Bytes → Err → Prop
  | [], e => ∃ s', r = .ok (none, s') ∧ s'.err = some e
  | t :: ts, e => ∃ s', r = .ok (some t, s') ∧ (Live s' ts e ∨ Drain s' ts e)

theorem scanLoop_spec (s : Scanner) :
    ∀ (toks : List Bytes) (e : Err), Live s toks e ∨ Drain s toks e → Post (scanLoop scanLinesSplit s) toks e := by
  fun_induction scanLoop scanLinesSplit s with
  | case1 s r hr =>
    intro toks e h
    cases hi : indexByte s.data 10 with
    | some i =>
      have hlt := indexByte_lt _ _ _ hi
      rw [tryToken_lines_newline s i hi] at hr
      simp only [Try.ret.injEq] at hr
      subst hr
      rcases h with ⟨herr, hdone, hend, hmax, m, hout, hm, hshort, htoks⟩ | ⟨herr, hdone, htoks⟩
      · rw [scanLines_index_some _ _ _ hi] at htoks
        subst htoks
        refine ⟨_, rfl, Or.inl ⟨herr, hdone, ?_, hmax, m, hout, hm, ?_, rfl⟩⟩
        · simp only [Scanner.end_, List.length_drop] at hend ⊢
          omega
        · refine hshort.suffix ?_
          exact ⟨s.data.take (i + 1), by simp only [← List.append_assoc, List.take_append_drop]⟩
      · have := scanLines_index_some s.data [] i hi
        simp only [List.append_nil] at this
        rw [this] at htoks
        subst htoks
        exact ⟨_, rfl, Or.inr ⟨herr, hdone, rfl⟩⟩
    | none =>
      rcases h with ⟨herr, hdone, hend, hmax, m, hout, hm, hshort, htoks⟩ | ⟨herr, hdone, htoks⟩
      · rw [tryToken_lines_more s hi herr] at hr
        simp at hr
      · have hne : s.err ≠ none := by simp [herr]
        by_cases hd : s.data = []
        · rw [tryToken_lines_end s hne hd] at hr
          simp at hr
        · rw [tryToken_lines_final s hi hne hd] at hr
          simp only [Try.ret.injEq] at hr
          subst hr
          rw [scanLines_tail _ (indexByte_none _ _ hi)] at htoks
          simp only [hd, if_false] at htoks
          subst htoks
          rw [← dropCR_eq]
          exact ⟨_, rfl, Or.inr ⟨herr, hdone, rfl⟩⟩
  | case2 s s1 hm he =>
    intro toks e h
    have hfr := tryToken_more _ _ _ hm
    rcases h with ⟨herr, hdone, hend, hmax, m, hout, hm', hshort, htoks⟩ | ⟨herr, hdone, htoks⟩
    · rw [hfr.2.1] at he
      simp [herr] at he
    · have hne : s.err ≠ none := by simp [herr]
      cases hi : indexByte s.data 10 with
      | some i =>
        rw [tryToken_lines_newline s i hi] at hm
        simp at hm
      | none =>
        by_cases hd : s.data = []
        · rw [hd] at htoks
          have : toks = [] := by rw [← htoks]; rfl
          subst this
          exact ⟨_, rfl, by simp only; rw [hfr.2.1]; exact herr⟩
        · rw [tryToken_lines_final s hi hne hd] at hm
          simp at hm
  | case3 s s1 hm he hg =>
    intro toks e h
    have hfr := tryToken_more _ _ _ hm
    rcases h with ⟨herr, hdone, hend, hmax, m, hout, hm', hshort, htoks⟩ | ⟨herr, hdone, htoks⟩
    · cases hi : indexByte s.data 10 with
      | some i =>
        rw [tryToken_lines_newline s i hi] at hm
        simp at hm
      | none =>
        rw [tryToken_lines_more s hi herr] at hm
        simp only [Try.more.injEq] at hm
        subst hm
        obtain ⟨s2, h2, _⟩ := grow_shift_ok s hend (hshort.prefix_len (indexByte_none _ _ hi)) hmax
        rw [h2] at hg
        simp at hg
    · rw [hfr.2.1, herr] at he
      simp at he
  | case4 s s1 hm he s2 hg ih =>
    intro toks e h
    have hfr := tryToken_more _ _ _ hm
    rcases h with ⟨herr, hdone, hend, hmax, m, hout, hm', hshort, htoks⟩ | ⟨herr, hdone, htoks⟩
    · cases hi : indexByte s.data 10 with
      | some i =>
        rw [tryToken_lines_newline s i hi] at hm
        simp at hm
      | none =>
        rw [tryToken_lines_more s hi herr] at hm
        simp only [Try.more.injEq] at hm
        subst hm
        obtain ⟨s2', h2, hrd, hdata, herr2, hdone2, hmt2, hroom⟩ :=
          grow_shift_ok s hend (hshort.prefix_len (indexByte_none _ _ hi)) hmax
        rw [h2] at hg
        simp only [Option.some.injEq] at hg
        subst hg
        apply ih
        obtain ⟨f1, f2, f3, f4⟩ := fill_spec s2' 0 m e (by rw [herr2, herr]) (by rw [hrd]; exact hout)
          (by rw [hrd]; exact hm') hroom
        rw [hdata, hrd] at f4
        rcases f4 with ⟨g1, m', g2, g3, g4⟩ | ⟨g1, g2⟩
        · left
          refine ⟨g1, by rw [f2, hdone2, hdone], f3, by rw [f1, hmt2]; exact hmax, m', g2, g3, ?_, ?_⟩
          · rw [g4, f1, hmt2]; exact hshort
          · rw [g4]; exact htoks
        · right
          exact ⟨g1, by rw [f2, hdone2, hdone], by rw [g2]; exact htoks⟩
    · rw [hfr.2.1, herr] at he
      simp at he

theorem scan_spec (s : Scanner) (toks : List Bytes) (e : Err) (h : Live s toks e ∨ Drain s toks e) :
    Post (scan scanLinesSplit s) toks e := by
  have hdone : s.done = false := by
    rcases h with h | h
    · exact h.2.1
    · exact h.2.1
  unfold scan
  simp only [hdone, Bool.false_eq_true, if_false]
  exact scanLoop_spec s toks e h

/-! ### the `for s.Scan()` loop -/

theorem scanAll_stop (s s' : Scanner) (h : scan scanLinesSplit s = .ok (none, s')) :
    scanAll s = .ok ([], s'.errValue) := by
  rw [scanAll]
  split
  · rename_i heq; rw [h] at heq; simp at heq
  · rename_i heq; rw [h] at heq
    simp only [Except.ok.injEq, Prod.mk.injEq, true_and] at heq
    subst heq; rfl
  · rename_i heq; rw [h] at heq; simp at heq

theorem scanAll_token (s s' : Scanner) (t : Bytes) (h : scan scanLinesSplit s = .ok (some t, s')) :
    scanAll s = match scanAll s' with
      | .error p => .error p
      | .ok (ts, e) => .ok (t :: ts, e) := by
  rw [scanAll]
  split
  · rename_i heq; rw [h] at heq; simp at heq
  · rename_i heq; rw [h] at heq; simp at heq
  · rename_i heq; rw [h] at heq
    simp only [Except.ok.injEq, Prod.mk.injEq, Option.some.injEq] at heq
    obtain ⟨rfl, rfl⟩ := heq
    rfl

theorem scanAll_spec : ∀ (toks : List Bytes) (s : Scanner) (e : Err),
    Live s toks e ∨ Drain s toks e → scanAll s = .ok (toks, errOf e) := by
  intro toks
  induction toks with
  | nil =>
    intro s e h
    obtain ⟨s', hs, herr⟩ := scan_spec s [] e h
    rw [scanAll_stop s s' hs]
    simp only [Scanner.errValue, herr, errOf, Option.some.injEq]
  | cons t ts ih =>
    intro s e h
    obtain ⟨s', hs, hinv⟩ := scan_spec s (t :: ts) e h
    rw [scanAll_token s s' t hs, ih s' e hinv]

/-- `NewScanner` + `Buffer` is a live scanner -/
theorem new_live (stream : Bytes) (script : Script) (bufCap max m : Nat) (e : Err)
    (hmax : max ≤ maxInt / 2 + 1) (hout : outcome 0 script = (m, e)) (hm : m ≤ stream.length)
    (hshort : LinesShort (stream.take m) max) :
    Live (Scanner.new { rest := stream, script := script } bufCap max) (scanLines (stream.take m)) e := by
  refine ⟨rfl, rfl, ?_, hmax, m, hout, hm, ?_, ?_⟩
  · simp [Scanner.end_, Scanner.new]
  · simpa [Scanner.new] using hshort
  · simp [Scanner.new]

/-- without a stall the outcome of a script is what it delivers and how it ends -/
theorem outcome_noStall (sc : Script) : ∀ k, NoStall k sc → outcome k sc = (delivered sc, ending sc) := by
  induction sc with
  | nil => intro k _; rfl
  | cons hd tl ih =>
    obtain ⟨n, x⟩ := hd
    intro k h
    cases x with
    | some e => rfl
    | none =>
      by_cases h0 : n = 0
      · subst h0
        simp only [NoStall, if_true] at h
        have hk : ¬ maxConsecutiveEmptyReads ≤ k := by omega
        simp only [outcome, if_true, hk, if_false, delivered, ending, Nat.zero_add]
        exact ih _ h.2
      · simp only [NoStall, h0, if_false] at h
        simp only [outcome, h0, if_false, delivered, ending, ih 0 h]
        rw [Nat.add_comm]

end GolibsVerif.C08
