/-
C07 — facts about the Lean model of `netip.ParseAddr` needed for the round trip: an accepted
text consists of hex digits, `'.'`, `':'`, at most one `'%'` followed by the zone; the zone
of the result is a piece of the text.  Hence a blank or `'#'` in an accepted text lies in
the zone, and the zone of an address parsed from a blank/`#`-free field has none.
-/
import GolibsVerif.Go.Netip
import GolibsVerif.Lemmas.C07

namespace GolibsVerif.Netip
open GolibsVerif GolibsVerif.Str

/-- the zone of an address (empty for IPv4 and for the zero value) -/
def Addr.zone : Addr → Bytes
  | .v6 _ z => z
  | _ => []

/-- bytes that can occur outside the zone -/
def okByte (c : Nat) : Prop := (hexVal c).isSome = true ∨ c = 46 ∨ c = 58

theorem okByte_of_digit {c : Nat} (h : isDigit c = true) : okByte c := by
  left
  simp only [isDigit, Bool.and_eq_true, decide_eq_true_eq] at h
  unfold hexVal
  simp [h.1, h.2]

theorem v4Fields_ok : ∀ (s : Bytes) (first prevDot : Bool) (val pos digLen : Nat) (fields f : List Nat),
    parseIPv4FieldsAux s first prevDot val pos digLen fields = some f → ∀ c ∈ s, okByte c := by
  intro s
  induction s with
  | nil => intro _ _ _ _ _ _ _ _ c hc; simp at hc
  | cons b rest ih =>
    intro first prevDot val pos digLen fields f h c hc
    unfold parseIPv4FieldsAux at h
    by_cases hd : isDigit b = true
    · simp only [hd, if_true] at h
      split at h
      · cases h
      · split at h
        · cases h
        · simp only [List.mem_cons] at hc
          rcases hc with rfl | hc
          · exact okByte_of_digit hd
          · exact ih _ _ _ _ _ _ _ h c hc
    · have hd' : isDigit b = false := by simpa using hd
      simp only [hd', Bool.false_eq_true, if_false] at h
      by_cases h46 : b = 46
      · simp only [h46, if_true] at h
        split at h
        · cases h
        · split at h
          · cases h
          · simp only [List.mem_cons] at hc
            rcases hc with rfl | hc
            · exact Or.inr (Or.inl h46)
            · exact ih _ _ _ _ _ _ _ h c hc
      · simp [h46] at h

theorem takeWhile_hex_ok (s : Bytes) : ∀ c ∈ s.takeWhile (fun c => (hexVal c).isSome), okByte c := by
  intro c hc
  have := List.all_eq_true.1 (List.all_takeWhile (p := fun c => (hexVal c).isSome) (l := s)) c hc
  exact Or.inl this

/-- one iteration of the IPv6 loop consumes only hex digits, dots and colons -/
theorem v6Step_ok (st : V6State) :
    (∀ st', v6Step st = .inl (some st') → st'.s = [] ∧ ∀ c ∈ st.s, okByte c) ∧
    (∀ st2, v6Step st = .inr st2 → ∃ pre, st.s = pre ++ st2.s ∧ ∀ c ∈ pre, okByte c) := by
  have hsplit : st.s = st.s.takeWhile (fun c => (hexVal c).isSome) ++
      st.s.drop (st.s.takeWhile (fun c => (hexVal c).isSome)).length := by
    have h1 := List.takeWhile_append_dropWhile (p := fun c => (hexVal c).isSome) (l := st.s)
    have h2 : st.s.drop (st.s.takeWhile (fun c => (hexVal c).isSome)).length =
        st.s.dropWhile (fun c => (hexVal c).isSome) := by
      generalize st.s = l
      induction l with
      | nil => rfl
      | cons b r ih => by_cases h : (hexVal b).isSome = true <;> simp [List.takeWhile, List.dropWhile, h, ih]
    rw [h2]; exact h1.symm
  have hdig := takeWhile_hex_ok st.s
  generalize hD : st.s.takeWhile (fun c => (hexVal c).isSome) = digits at hsplit hdig
  generalize hR : st.s.drop digits.length = rest at hsplit
  have hmem : ∀ (tail : Bytes) (pre : Bytes), st.s = digits ++ pre ++ tail → (∀ c ∈ pre, okByte c) →
      ∀ c ∈ digits ++ pre, okByte c := by
    intro tail pre _ hpre c hc
    rcases List.mem_append.1 hc with h | h
    · exact hdig c h
    · exact hpre c h
  unfold v6Step
  simp only [hD, hR]
  constructor
  · intro st' h
    split at h
    · cases h
    · split at h
      · cases h
      · split at h
        · -- trailing IPv4
          split at h
          · cases h
          · split at h
            · cases h
            · split at h
              · cases h
              · next f hf =>
                injection h with h; injection h with h; subst h
                exact ⟨rfl, v4Fields_ok _ _ _ _ _ _ _ _ hf⟩
        · split at h
          · injection h with h; injection h with h; subst h
            refine ⟨rfl, ?_⟩
            rw [hsplit]; simpa using hdig
          · next c rest1 _hhead =>
            split at h
            · cases h
            · next hc58 =>
              have hc : c = 58 := by simpa using hc58
              split at h
              · cases h
              · next c2 rest2 =>
                split at h
                · next hc2 =>
                  split at h
                  · cases h
                  · split at h
                    · next hr2 =>
                      injection h with h; injection h with h; subst h
                      refine ⟨rfl, ?_⟩
                      rw [hsplit, hr2]
                      intro x hx
                      simp only [List.mem_append, List.mem_cons, List.not_mem_nil, or_false] at hx
                      rcases hx with hx | rfl | rfl
                      · exact hdig x hx
                      · exact Or.inr (Or.inr hc)
                      · exact Or.inr (Or.inr hc2)
                    · cases h
                · cases h
  · intro st2 h
    split at h
    · cases h
    · split at h
      · cases h
      · split at h
        · split at h
          · cases h
          · split at h
            · cases h
            · split at h <;> cases h
        · split at h
          · cases h
          · next c rest1 _hhead =>
            split at h
            · cases h
            · next hc58 =>
              have hc : c = 58 := by simpa using hc58
              split at h
              · cases h
              · next c2 rest2 =>
                split at h
                · next hc2 =>
                  split at h
                  · cases h
                  · split at h
                    · cases h
                    · injection h with h; subst h
                      refine ⟨digits ++ [c, c2], ?_, ?_⟩
                      · rw [hsplit]; simp
                      · intro x hx
                        simp only [List.mem_append, List.mem_cons, List.not_mem_nil, or_false] at hx
                        rcases hx with hx | rfl | rfl
                        · exact hdig x hx
                        · exact Or.inr (Or.inr hc)
                        · exact Or.inr (Or.inr hc2)
                · injection h with h; subst h
                  refine ⟨digits ++ [c], ?_, ?_⟩
                  · rw [hsplit]; simp
                  · intro x hx
                    simp only [List.mem_append, List.mem_cons, List.not_mem_nil, or_false] at hx
                    rcases hx with hx | rfl
                    · exact hdig x hx
                    · exact Or.inr (Or.inr hc)

theorem v6Loop_ok : ∀ (fuel : Nat) (st st' : V6State), v6Loop fuel st = some st' → st'.s = [] →
    ∀ c ∈ st.s, okByte c := by
  intro fuel
  induction fuel with
  | zero =>
    intro st st' h hs c hc
    simp only [v6Loop] at h
    injection h with h; subst h
    rw [hs] at hc; simp at hc
  | succ fuel ih =>
    intro st st' h hs c hc
    unfold v6Loop at h
    split at h
    · split at h
      · next r hr =>
        subst h
        exact ((v6Step_ok st).1 st' hr).2 c hc
      · next st2 hr =>
        obtain ⟨pre, hpre, hok⟩ := (v6Step_ok st).2 st2 hr
        rw [hpre] at hc
        rcases List.mem_append.1 hc with hc | hc
        · exact hok c hc
        · exact ih st2 st' h hs c hc
    · injection h with h; subst h
      rw [hs] at hc; simp at hc

theorem head_dropWhile_false {p : Nat → Bool} {l : Bytes} {c : Nat} {u : Bytes}
    (h : l.dropWhile p = c :: u) : p c = false := by
  induction l with
  | nil => simp at h
  | cons b r ih =>
    by_cases hb : p b = true
    · simp [List.dropWhile, hb] at h; exact ih h
    · simp [List.dropWhile, hb] at h
      obtain ⟨rfl, _⟩ := h
      simpa using hb

theorem dispatch_cases : ∀ (rest whole : Bytes) (a : Addr), parseAddrDispatch rest whole = some a →
    parseIPv4 whole = some a ∨ parseIPv6 whole = some a := by
  intro rest
  induction rest with
  | nil => intro whole a h; simp [parseAddrDispatch] at h
  | cons c r ih =>
    intro whole a h
    unfold parseAddrDispatch at h
    split at h
    · exact Or.inl h
    · split at h
      · exact Or.inr h
      · split at h
        · cases h
        · exact ih whole a h

/-- shape of a text accepted by `parseIPv6`: hex digits, dots and colons, optionally followed
by `'%'` and the (non-empty) zone, which is the zone of the result -/
theorem parseIPv6_shape (input : Bytes) (a : Addr) (h : parseIPv6 input = some a) :
    ∃ s, (∀ c ∈ s, okByte c) ∧ ((input = s ∧ a.zone = []) ∨ input = s ++ 37 :: a.zone) := by
  unfold parseIPv6 at h
  -- the split at '%'
  have hz : ∀ (s zone : Bytes),
      (if indexByte input 37 = -1 then some (input, ([] : Bytes))
       else if input.drop ((indexByte input 37).toNat + 1) = [] then none
       else some (input.take (indexByte input 37).toNat, input.drop ((indexByte input 37).toNat + 1))) = some (s, zone) →
      input = s ∧ zone = [] ∨ input = s ++ 37 :: zone := by
    intro s zone hsz
    unfold indexByte at hsz
    rcases C07.indexByteFrom_spec 37 input 0 with ⟨h1, _⟩ | h1
    · simp only [h1, if_true] at hsz
      injection hsz with hsz; injection hsz with e1 e2
      exact Or.inl ⟨e1, e2.symm⟩
    · rw [h1] at hsz
      have hne : ∀ n : Nat, ¬ ((n : Int) = -1) := by omega
      simp only [Nat.zero_add] at hsz
      simp only [hne, if_false, Int.toNat_natCast] at hsz
      split at hsz
      · cases hsz
      · next hzne =>
        injection hsz with hsz; injection hsz with e1 e2
        right
        rw [← e1, ← e2, C07.take_length_takeWhile]
        have hd := C07.drop_length_takeWhile (fun b => b != 37) input
        have happ := List.takeWhile_append_dropWhile (p := fun b => b != 37) (l := input)
        cases hdw : input.dropWhile (fun b => b != 37) with
        | nil =>
          exfalso; apply hzne
          have : input.drop ((input.takeWhile (fun b => b != 37)).length) = [] := by rw [hd, hdw]
          rw [← List.drop_drop]; simp [this]
        | cons x rest =>
          have hx : x = 37 := by
            have := head_dropWhile_false hdw
            simpa using this
          have : input.drop ((input.takeWhile (fun b => b != 37)).length + 1) = rest := by
            rw [← List.drop_drop, hd, hdw]; rfl
          subst hx
          rw [this, ← hdw, happ]
  simp only [] at h
  split at h
  · cases h
  · next s zone hsz =>
    have hshape := hz s zone hsz
    have key : (∀ c ∈ s, okByte c) → ∀ b, a = .v6 b zone →
        ∃ s, (∀ c ∈ s, okByte c) ∧ ((input = s ∧ a.zone = []) ∨ input = s ++ 37 :: a.zone) := by
      intro hok b ha
      refine ⟨s, hok, ?_⟩
      subst ha
      rcases hshape with ⟨e, ez⟩ | e
      · exact Or.inl ⟨e, ez⟩
      · exact Or.inr e
    have colon : okByte 58 := Or.inr (Or.inr rfl)
    split at h
    · next t =>
      simp only [if_true, true_and, List.drop_succ_cons, List.drop_zero] at h
      by_cases ht : t = []
      · subst ht
        simp only [if_true] at h
        injection h with h
        refine key ?_ _ h.symm
        intro c hc
        simp only [List.mem_cons, List.not_mem_nil, or_false] at hc
        rcases hc with rfl | rfl <;> exact colon
      · simp only [ht, if_false] at h
        split at h
        · cases h
        · next st hst =>
          split at h
          · cases h
          · next hs0 =>
            have hs0' : st.s = [] := by simpa using hs0
            have hloop := v6Loop_ok 9 _ st hst hs0'
            simp only [] at hloop
            have hsok : ∀ c ∈ (58 :: 58 :: t), okByte c := by
              intro c hc
              simp only [List.mem_cons] at hc
              rcases hc with rfl | rfl | hc
              · exact colon
              · exact colon
              · exact hloop c hc
            split at h
            · split at h
              · cases h
              · injection h with h; exact key hsok _ h.symm
            · split at h
              · cases h
              · injection h with h; exact key hsok _ h.symm
    · simp only [Bool.false_eq_true, false_and, if_false] at h
      split at h
      · cases h
      · next st hst =>
        split at h
        · cases h
        · next hs0 =>
          have hs0' : st.s = [] := by simpa using hs0
          have hloop := v6Loop_ok 9 _ st hst hs0'
          simp only [] at hloop
          have hsok : ∀ c ∈ s, okByte c := by
            intro c hc
            exact hloop c hc
          split at h
          · split at h
            · cases h
            · injection h with h; exact key hsok _ h.symm
          · split at h
            · cases h
            · injection h with h; exact key hsok _ h.symm

/-- **Shape of accepted address texts.**  If `ParseAddr s = a` then every byte of `s` that is
not a hex digit, `'.'`, `':'` or `'%'` belongs to the zone of `a`, and the zone of `a` is
made of bytes of `s`. -/
theorem parseAddr_shape (s : Bytes) (a : Addr) (h : parseAddr s = some a) :
    (∀ b ∈ s, okByte b ∨ b = 37 ∨ b ∈ a.zone) ∧ (∀ b ∈ a.zone, b ∈ s) := by
  rcases dispatch_cases s s a h with h4 | h6
  · unfold parseIPv4 at h4
    cases hf : parseIPv4Fields s with
    | none => simp [hf] at h4
    | some f =>
      simp only [hf, Option.map_some, Option.some.injEq] at h4
      subst h4
      exact ⟨fun b hb => Or.inl (v4Fields_ok _ _ _ _ _ _ _ _ hf b hb), fun b hb => by simp [Addr.zone] at hb⟩
  · obtain ⟨p, hp, ⟨e, ez⟩ | e⟩ := parseIPv6_shape s a h6
    · subst e
      refine ⟨fun b hb => Or.inl (hp b hb), ?_⟩
      intro b hb
      rw [ez] at hb; simp at hb
    · constructor
      · intro b hb
        rw [e] at hb
        simp only [List.mem_append, List.mem_cons] at hb
        rcases hb with hb | rfl | hb
        · exact Or.inl (hp b hb)
        · exact Or.inr (Or.inl rfl)
        · exact Or.inr (Or.inr hb)
      · intro b hb; rw [e]; simp [hb]

end GolibsVerif.Netip

namespace GolibsVerif.C07
open GolibsVerif GolibsVerif.Netip

theorem isSep_iff (b : Nat) : isSep b = true ↔ b = 32 ∨ b = 9 ∨ b = 35 := by
  simp only [isSep, Bool.or_eq_true, isSpace_iff, hash, beq_iff_eq, or_assoc]

theorem sep_not_ok {b : Nat} (h : isSep b = true) : ¬ okByte b ∧ b ≠ 37 := by
  rcases (isSep_iff b).1 h with rfl | rfl | rfl <;> (unfold okByte; decide)

/-- If a blank/`#`-free field parses to `a`, then any other text that parses to `a` — in
particular `a.String()` under ADDR-RT — is blank/`#`-free as well: such a byte could only sit
in the zone, and the zone of `a` was cut out of the field. -/
theorem addr_text_clean (f txt : Bytes) (a : Addr) (hf : ∀ b ∈ f, isSep b = false)
    (hp : parseAddr f = some a) (hrt : parseAddr txt = some a) : ∀ b ∈ txt, isSep b = false := by
  intro b hb
  cases hs : isSep b with
  | false => rfl
  | true =>
    exfalso
    obtain ⟨hno, h37⟩ := sep_not_ok hs
    rcases (parseAddr_shape txt a hrt).1 b hb with h | h | h
    · exact hno h
    · exact h37 h
    · have := hf b ((parseAddr_shape f a hp).2 b h)
      rw [hs] at this; cases this

end GolibsVerif.C07
