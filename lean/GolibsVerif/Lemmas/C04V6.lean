/- C04 helper lemmas, part 2: the fixed-length walk of `ipv6FromReversed`. -/
import GolibsVerif.Lemmas.C04Basic

namespace GolibsVerif.C04
open GolibsVerif.Netutil GolibsVerif.Str GolibsVerif.Netip GolibsVerif.Gen.Consts GolibsVerif

/-- the four bytes the canonical name spends on one address byte -/
def nib (x : Nat) : Bytes := [hexChar (x % 16), 46, hexChar (x / 16), 46]

/-- `"ip6.arpa"` -/
def ip6Arpa : Bytes := [105, 112, 54, 46, 97, 114, 112, 97]

theorem ptr6_eq (b : List Nat) : ptr6 b = b.reverse.flatMap nib ++ ip6Arpa := by
  unfold ptr6
  rw [joinDot_append_two]
  congr 1
  generalize b.reverse = l
  induction l with
  | nil => rfl
  | cons x l ih => simp [nibbleLabels, nib, ih]

theorem flatMap_nib_length (l : List Nat) : (l.flatMap nib).length = 4 * l.length := by
  induction l with
  | nil => rfl
  | cons x l ih => simp [List.flatMap_cons, nib, ih]; omega

theorem ptr6_length (b : List Nat) : (ptr6 b).length = 4 * b.length + 8 := by
  rw [ptr6_eq, List.length_append, flatMap_nib_length]; simp [ip6Arpa]

/-- one iteration, when four bytes are available at position `4 * i` -/
theorem loop_step (arpa : Bytes) (n i : Nat) (ip : List Nat) (c0 d1 c2 d3 : Nat) (rest : Bytes)
    (h : arpa.drop (4 * i) = c0 :: d1 :: c2 :: d3 :: rest) :
    ipv6FromReversedLoop arpa (n + 1) i ip =
      if fromHexByte c0 = 255 then .ok (.error (.rune .arpa c0))
      else if fromHexByte c2 = 255 then .ok (.error (.rune .arpa c2))
      else if d1 ≠ 46 then .ok (.error (.const .notAReversedIP))
      else if d3 ≠ 46 then .ok (.error (.const .notAReversedIP))
      else ipv6FromReversedLoop arpa n (i + 1) ((fromHexByte c2 * 16 + fromHexByte c0) :: ip) := by
  have e0 : GoM.idx arpa ((i : Int) * 4) = .ok c0 :=
    idx_of_drop arpa (4 * i) 0 c0 _ (by omega) (by rw [h]; rfl)
  have e1 : GoM.idx arpa ((i : Int) * 4 + 1) = .ok d1 :=
    idx_of_drop arpa (4 * i) 1 d1 _ (by omega) (by rw [h]; rfl)
  have e2 : GoM.idx arpa ((i : Int) * 4 + 2) = .ok c2 :=
    idx_of_drop arpa (4 * i) 2 c2 _ (by omega) (by rw [h]; rfl)
  have e3 : GoM.idx arpa ((i : Int) * 4 + 3) = .ok d3 :=
    idx_of_drop arpa (4 * i) 3 d3 _ (by omega) (by rw [h]; rfl)
  rw [ipv6FromReversedLoop]
  simp only [bind, Except.bind, pure, Except.pure, e0, e1, e2, e3]

theorem drop_four (arpa : Bytes) (k : Nat) (h : k + 4 ≤ arpa.length) :
    ∃ c0 d1 c2 d3 rest, arpa.drop k = c0 :: d1 :: c2 :: d3 :: rest := by
  have hl : (arpa.drop k).length = arpa.length - k := List.length_drop
  match hd : arpa.drop k, hl with
  | c0 :: d1 :: c2 :: d3 :: rest, _ => exact ⟨c0, d1, c2, d3, rest, rfl⟩
  | [], hl => simp at hl; omega
  | [_], hl => simp at hl; omega
  | [_, _], hl => simp at hl; omega
  | [_, _, _], hl => simp at hl; omega

theorem drop_next (arpa : Bytes) (i : Nat) (c0 d1 c2 d3 : Nat) (rest : Bytes)
    (h : arpa.drop (4 * i) = c0 :: d1 :: c2 :: d3 :: rest) : arpa.drop (4 * (i + 1)) = rest := by
  have : 4 * (i + 1) = 4 * i + 4 := by omega
  rw [this, ← List.drop_drop, h]; rfl

/-- no index of the walk is out of range when the string is long enough (it is checked to
be exactly 72 bytes before the walk starts) -/
theorem loop_total (arpa : Bytes) : ∀ (n i : Nat) (ip : List Nat), 4 * (i + n) ≤ arpa.length →
    ∃ r, ipv6FromReversedLoop arpa n i ip = .ok r := by
  intro n
  induction n with
  | zero => intro i ip _; exact ⟨_, rfl⟩
  | succ n ih =>
    intro i ip hlen
    obtain ⟨c0, d1, c2, d3, rest, hd⟩ := drop_four arpa (4 * i) (by omega)
    rw [loop_step arpa n i ip c0 d1 c2 d3 rest hd]
    split
    · exact ⟨_, rfl⟩
    · split
      · exact ⟨_, rfl⟩
      · split
        · exact ⟨_, rfl⟩
        · split
          · exact ⟨_, rfl⟩
          · exact ih (i + 1) _ (by omega)

/-- what the walk accepts, read position by position: on a string without upper-case
letters, the `4 * n` bytes from position `4 * i` are the canonical spelling of the bytes
it returns -/
theorem loop_accept (arpa : Bytes) (hlow : ∀ c ∈ arpa, ¬ (65 ≤ c ∧ c ≤ 90)) :
    ∀ (n i : Nat) (ip r : List Nat), 4 * (i + n) ≤ arpa.length →
      ipv6FromReversedLoop arpa n i ip = .ok (.ok r) →
      ∃ bs : List Nat, bs.length = n ∧ (∀ b ∈ bs, b < 256) ∧ r = bs.reverse ++ ip ∧
        (arpa.drop (4 * i)).take (4 * n) = bs.flatMap nib := by
  intro n
  induction n with
  | zero =>
    intro i ip r _ h
    rw [ipv6FromReversedLoop] at h
    cases h
    exact ⟨[], rfl, by simp, by simp, by simp⟩
  | succ n ih =>
    intro i ip r hlen h
    obtain ⟨c0, d1, c2, d3, rest, hd⟩ := drop_four arpa (4 * i) (by omega)
    rw [loop_step arpa n i ip c0 d1 c2 d3 rest hd] at h
    have hmem : ∀ c ∈ arpa.drop (4 * i), ¬ (65 ≤ c ∧ c ≤ 90) :=
      fun c hc => hlow c (List.mem_of_mem_drop hc)
    rw [hd] at hmem
    split at h
    · cases h
    · rename_i h0
      split at h
      · cases h
      · rename_i h2
        split at h
        · cases h
        · rename_i h1
          split at h
          · cases h
          · rename_i h3
            have h1' : d1 = 46 := by simpa using h1
            have h3' : d3 = 46 := by simpa using h3
            obtain ⟨bs, hbl, hbb, hr, htake⟩ := ih (i + 1) _ r (by omega) h
            rw [drop_next arpa i c0 d1 c2 d3 rest hd] at htake
            obtain ⟨hlo, elo⟩ := fromHexByte_inv c0 (hmem c0 (by simp)) h0
            obtain ⟨hhi, ehi⟩ := fromHexByte_inv c2 (hmem c2 (by simp)) h2
            refine ⟨(fromHexByte c2 * 16 + fromHexByte c0) :: bs, by simp [hbl], ?_, ?_, ?_⟩
            · intro b hb
              simp only [List.mem_cons] at hb
              rcases hb with rfl | hb
              · omega
              · exact hbb b hb
            · rw [hr]; simp
            · have hm : (fromHexByte c2 * 16 + fromHexByte c0) % 16 = fromHexByte c0 := by omega
              have hq : (fromHexByte c2 * 16 + fromHexByte c0) / 16 = fromHexByte c2 := by omega
              have e4 : 4 * (n + 1) = (4 * n) + 1 + 1 + 1 + 1 := by omega
              rw [hd, e4]
              simp only [List.take_succ_cons, List.flatMap_cons, nib, hm, hq, ← elo, ← ehi, h1', h3',
                htake]
              rfl

/-- the walk decodes the canonical spelling -/
theorem loop_roundtrip : ∀ (bs : List Nat) (i : Nat) (ip : List Nat) (pre tail : Bytes),
    pre.length = 4 * i → (∀ b ∈ bs, b < 256) →
    ipv6FromReversedLoop (pre ++ (bs.flatMap nib ++ tail)) bs.length i ip = .ok (.ok (bs.reverse ++ ip)) := by
  intro bs
  induction bs with
  | nil => intro i ip pre tail _ _; rfl
  | cons b bs ih =>
    intro i ip pre tail hpre hb
    have hb256 : b < 256 := hb b (by simp)
    have hd : (pre ++ ((b :: bs).flatMap nib ++ tail)).drop (4 * i) =
        hexChar (b % 16) :: 46 :: hexChar (b / 16) :: 46 :: (bs.flatMap nib ++ tail) := by
      rw [← hpre, List.drop_left]
      simp [List.flatMap_cons, nib]
    rw [List.length_cons, loop_step _ _ _ _ _ _ _ _ _ hd]
    have hlo := fromHexByte_hexChar (b % 16) (by omega)
    have hhi := fromHexByte_hexChar (b / 16) (by omega)
    rw [hlo, hhi]
    have n0 : ¬ (b % 16 = 255) := by omega
    have n2 : ¬ (b / 16 = 255) := by omega
    simp only [n0, n2, if_false, ne_eq, not_true_eq_false]
    have hv : b / 16 * 16 + b % 16 = b := by omega
    rw [hv]
    have hre : pre ++ ((b :: bs).flatMap nib ++ tail) = (pre ++ nib b) ++ (bs.flatMap nib ++ tail) := by
      simp [List.flatMap_cons]
    rw [hre, ih (i + 1) (b :: ip) (pre ++ nib b) tail (by simp [nib, hpre]; omega)
      (fun x hx => hb x (by simp [hx]))]
    simp

/-- `ipv6FromReversed` never panics on a string of at least 64 bytes -/
theorem ipv6FromReversed_total (arpa : Bytes) (hlen : 64 ≤ arpa.length) :
    ∃ r, ipv6FromReversed arpa = .ok r := by
  obtain ⟨r, hr⟩ := loop_total arpa 16 0 [] (by omega)
  unfold ipv6FromReversed
  cases r with
  | error e => simp only [hr, bind, Except.bind, pure, Except.pure]; exact ⟨_, rfl⟩
  | ok ip => simp only [hr, bind, Except.bind, pure, Except.pure]; exact ⟨_, rfl⟩

/-- accepted 72-byte lower-case names ending in `.ip6.arpa` are canonical -/
theorem ipv6FromReversed_accept (arpa : Bytes) (a : Addr) (hlen : arpa.length = 72)
    (hsuf : hasSuffix arpa arpaV6Suffix = true) (hlow : ∀ c ∈ arpa, ¬ (65 ≤ c ∧ c ≤ 90))
    (h : ipv6FromReversed arpa = .ok (.ok a)) :
    ∃ b, a = .v6 b [] ∧ b.length = 16 ∧ (∀ x ∈ b, x < 256) ∧ arpa = ptr6 b := by
  obtain ⟨r, hr⟩ := loop_total arpa 16 0 [] (by omega)
  unfold ipv6FromReversed at h
  cases r with
  | error e => simp [hr, bind, Except.bind, pure, Except.pure] at h
  | ok ip =>
    simp [hr, bind, Except.bind, pure, Except.pure] at h
    obtain ⟨bs, hbl, hbb, hip, htake⟩ := loop_accept arpa hlow 16 0 [] ip (by omega) hr
    simp only [Nat.mul_zero, List.drop_zero, List.append_nil] at htake hip
    refine ⟨ip, h.symm, by rw [hip]; simp [hbl], ?_, ?_⟩
    · intro x hx; rw [hip] at hx; exact hbb x (by simpa using hx)
    · rw [ptr6_eq, hip, List.reverse_reverse, ← htake]
      have hs : arpaV6Suffix <:+ arpa := by simpa [hasSuffix] using hsuf
      obtain ⟨t, ht⟩ := hs
      have htl : t.length = 63 := by
        have := congrArg List.length ht
        simp [arpaV6Suffix] at this; omega
      have hdrop : arpa.drop 64 = ip6Arpa := by
        rw [← ht, List.drop_append, htl]
        have : List.drop 64 t = [] := List.drop_eq_nil_of_le (by omega)
        rw [this]; rfl
      rw [← hdrop]
      exact (List.take_append_drop 64 arpa).symm

/-- the canonical IPv6 name decodes to its address -/
theorem ipv6FromReversed_ptr6 (b : List Nat) (hb : ∀ x ∈ b, x < 256) (hl : b.length = 16) :
    ipv6FromReversed (ptr6 b) = .ok (.ok (.v6 b [])) := by
  have h := loop_roundtrip b.reverse 0 [] [] ip6Arpa rfl (fun x hx => hb x (by simpa using hx))
  simp only [List.nil_append, List.length_reverse, hl, List.reverse_reverse, List.append_nil] at h
  unfold ipv6FromReversed
  rw [ptr6_eq, h]
  rfl

end GolibsVerif.C04
