/-
C09 — the nested interpreter (`runOp` / `runOps` / `evictLoop` of `Model/C09.lean`, the one the
differential tie drives) produces framed executions: a `Set` is a `call` label, then the
sections of its frame in the order of the code, and what a callback does runs — as frames of
its own — between the `onDelete` label of the calling frame and that frame's next section.
-/
import GolibsVerif.Lemmas.C09Frames

namespace GolibsVerif.C09

def AllDone (l : List Frame) : Prop := ∀ f ∈ l, f.phase = .done

/-- a run fragment from `σ` is a framed execution that ends with cache `s'`, projects to
`log`, leaves the frames that existed alone and has finished every frame it created -/
def RunF (c : Conf) (σ : FSt) (s' : St) (log : List Rec) : Prop :=
  ∃ flog σ' extra, FTrace c σ flog σ' ∧ projLog flog = log ∧ σ'.cache = s' ∧
    σ'.frames = σ.frames ++ extra ∧ AllDone extra

/-- the eviction loop of the frame `⟨k, v, _⟩` standing between `F` and `E`: a framed
execution after which that frame is at the loop head again, its `Set` fits, the frames
around it are as they were, and every frame created on the way has finished -/
def LoopF (c : Conf) (σ : FSt) (F E : List Frame) (k v : Bytes) (s' : St) (log : List Rec) : Prop :=
  ∃ flog σ' ph' extra, FTrace c σ flog σ' ∧ projLog flog = log ∧ σ'.cache = s' ∧
    σ'.frames = F ++ ⟨k, v, ph'⟩ :: (E ++ extra) ∧ AllDone extra ∧
    (⟨k, v, ph'⟩ : Frame).atLoopHead c s' ∧ full c s' (k.length + v.length) = false

theorem frames_mid_get {α : Type} (F E : List α) (a : α) : (F ++ a :: E)[F.length]? = some a := by
  induction F with
  | nil => simp
  | cons x xs ih => simp

theorem frames_mid_set {α : Type} (F E : List α) (a b : α) :
    (F ++ a :: E).set F.length b = F ++ b :: E := by
  induction F with
  | nil => simp
  | cons x xs ih => simp

theorem gom_bind_eq_ok {α β : Type} {x : GoM α} {f : α → GoM β} {b : β}
    (h : (x >>= f) = .ok b) : ∃ a, x = .ok a ∧ f a = .ok b := by
  cases x with
  | error e => cases h
  | ok a => exact ⟨a, rfl, h⟩

/-- one iteration of the loop, as framed steps: the eviction, and the callback label if a
callback is configured -/
theorem iter_framed {c : Conf} {σ : FSt} {F E : List Frame} {k v : Bytes} {ph : Phase} {s1 : St}
    {e : Entry} (hfr : σ.frames = F ++ ⟨k, v, ph⟩ :: E)
    (hh : (⟨k, v, ph⟩ : Frame).atLoopHead c σ.cache)
    (hfull : full c σ.cache (k.length + v.length) = true) (he : evictOne σ.cache = .ok (s1, e)) :
    ∃ flog σ', FTrace c σ flog σ' ∧ projLog flog = evictEvents c e s1 ∧ σ'.cache = s1 ∧
      σ'.frames = F ++ ⟨k, v, .loop⟩ :: E := by
  have hget : σ.frames[F.length]? = some ⟨k, v, ph⟩ := by rw [hfr]; exact frames_mid_get _ _ _
  have step1 := FStep.evict σ F.length ⟨k, v, ph⟩ s1 e hget hh hfull he
  cases hcb : c.hasCb with
  | false =>
    simp only [hcb, Bool.false_eq_true, if_false] at step1
    refine ⟨_, _, ftrace_single step1, ?_, rfl, ?_⟩
    · simp [projLog, FRec.proj, evictEvents, hcb, FSt.move]
    · simp only [FSt.move, hfr]; exact frames_mid_set _ _ _ _
  | true =>
    simp only [hcb, if_true] at step1
    have hget2 : (σ.move F.length ⟨k, v, ph⟩ (.cb e.key e.val) s1).frames[F.length]? =
        some ⟨k, v, .cb e.key e.val⟩ := by
      rw [move_frames _ _ hget]; simp
    have step2 := FStep.onDelete (c := c) _ F.length ⟨k, v, .cb e.key e.val⟩ e.key e.val hget2 rfl
    refine ⟨_, _, FTrace.cons step1 (ftrace_single step2), ?_, rfl, ?_⟩
    · simp [projLog, FRec.proj, evictEvents, hcb, FSt.move]
    · simp only [FSt.move, hfr, frames_mid_set]

theorem loopF_stop {c : Conf} {σ : FSt} {F E : List Frame} {k v : Bytes} {ph : Phase}
    (hfr : σ.frames = F ++ ⟨k, v, ph⟩ :: E) (hh : (⟨k, v, ph⟩ : Frame).atLoopHead c σ.cache)
    (hfull : full c σ.cache (k.length + v.length) = false) :
    LoopF c σ F E k v σ.cache [] :=
  ⟨[], σ, ph, [], FTrace.nil σ, rfl, rfl, by simpa using hfr, by simp [AllDone], hh, hfull⟩

/-- prepend an iteration (and what its callback did) to the rest of the loop -/
theorem loopF_step {c : Conf} {σ σb σc : FSt} {F E extra1 : List Frame} {k v : Bytes}
    {l1 l2 : List FRec} {s' : St} {log3 : List Rec}
    (h1 : FTrace c σ l1 σb) (h2 : FTrace c σb l2 σc)
    (hd1 : AllDone extra1)
    (h3 : LoopF c σc F (E ++ extra1) k v s' log3) :
    LoopF c σ F E k v s' (projLog l1 ++ projLog l2 ++ log3) := by
  obtain ⟨flog, σ', ph', extra, ht, hp, hc, hf, hd, hh, hfull⟩ := h3
  refine ⟨l1 ++ l2 ++ flog, σ', ph', extra1 ++ extra, ftrace_append (ftrace_append h1 h2) ht, ?_, hc,
    by simpa using hf, ?_, hh, hfull⟩
  · simp [projLog_append, hp]
  · intro f hf'
    rcases List.mem_append.1 hf' with h | h
    · exact hd1 f h
    · exact hd f h

theorem evictQuiet_framed {c : Conf} {F E : List Frame} {k v : Bytes} :
    ∀ (n : Nat) (σ : FSt) (ph : Phase) (s' : St) (log : List Rec),
      σ.frames = F ++ ⟨k, v, ph⟩ :: E → (⟨k, v, ph⟩ : Frame).atLoopHead c σ.cache →
      evictQuiet c (k.length + v.length) n σ.cache = .ok (s', log) → LoopF c σ F E k v s' log := by
  intro n
  induction n with
  | zero =>
    intro σ ph s' log hfr hh h
    cases hfull : full c σ.cache (k.length + v.length) with
    | true => simp [evictQuiet, hfull] at h
    | false =>
      simp only [evictQuiet, hfull, Bool.false_eq_true, if_false, pure, Except.pure,
        Except.ok.injEq, Prod.mk.injEq] at h
      obtain ⟨rfl, rfl⟩ := h
      exact loopF_stop hfr hh hfull
  | succ n ih =>
    intro σ ph s' log hfr hh h
    cases hfull : full c σ.cache (k.length + v.length) with
    | false =>
      simp only [evictQuiet, hfull, Bool.false_eq_true, if_false, pure, Except.pure,
        Except.ok.injEq, Prod.mk.injEq] at h
      obtain ⟨rfl, rfl⟩ := h
      exact loopF_stop hfr hh hfull
    | true =>
      simp only [evictQuiet, hfull, if_true] at h
      obtain ⟨⟨s1, e⟩, he, h⟩ := gom_bind_eq_ok h
      simp only [] at h
      obtain ⟨⟨s2, l2⟩, hq, h⟩ := gom_bind_eq_ok h
      simp only [pure, Except.pure, Except.ok.injEq, Prod.mk.injEq] at h
      obtain ⟨rfl, rfl⟩ := h
      obtain ⟨fl1, σb, ht1, hp1, hc1, hf1⟩ := iter_framed hfr hh hfull he
      have h3 := ih σb .loop s2 l2 hf1 (Or.inr rfl) (by rw [hc1]; exact hq)
      have := loopF_step ht1 (FTrace.nil σb) (extra1 := [])
        (by simp [AllDone]) (by simpa using h3)
      simp only [hp1] at this
      simpa [projLog] using this

theorem runF_atomic {c : Conf} {σ σ' : FSt} {ev : Ev} (hs : FStep c σ (.sec none ev) σ')
    (hf : σ'.frames = σ.frames) : RunF c σ σ'.cache [⟨ev, σ'.cache⟩] :=
  ⟨_, σ', [], ftrace_single hs, by simp [projLog, FRec.proj], rfl, by simpa using hf,
    by simp [AllDone]⟩

/-- a refused `Set`: the call, then the refusing section -/
theorem runF_refuse {c : Conf} {σ : FSt} {k v : Bytes} (hc : setCheck c σ.cache k v ≠ .proceed) :
    RunF c σ σ.cache [⟨.refused k v, σ.cache⟩] := by
  have step1 := FStep.call (c := c) σ k v
  have hget : ({ σ with frames := σ.frames ++ [⟨k, v, .start⟩] } : FSt).frames[σ.frames.length]? =
      some ⟨k, v, .start⟩ := frames_mid_get _ _ _
  have step2 := FStep.refuse (c := c) _ σ.frames.length ⟨k, v, .start⟩ hget rfl hc
  refine ⟨_, _, [⟨k, v, .done⟩], FTrace.cons step1 (ftrace_single step2), ?_, rfl, ?_, ?_⟩
  · simp [projLog, List.filterMap_cons, FRec.proj, FSt.move]
  · simp only [FSt.move]; exact frames_mid_set _ _ _ _
  · intro f hf; simp at hf; subst hf; rfl

theorem runF_append {c : Conf} {σ : FSt} {s1 s2 : St} {l1 l2 : List Rec}
    (h1 : RunF c σ s1 l1) (h2 : ∀ σ1, σ1.cache = s1 → RunF c σ1 s2 l2) :
    RunF c σ s2 (l1 ++ l2) := by
  obtain ⟨fl1, σ1, e1, ht1, hp1, hc1, hf1, hd1⟩ := h1
  obtain ⟨fl2, σ2, e2, ht2, hp2, hc2, hf2, hd2⟩ := h2 σ1 hc1
  refine ⟨fl1 ++ fl2, σ2, e1 ++ e2, ftrace_append ht1 ht2, by simp [projLog_append, hp1, hp2], hc2,
    by rw [hf2, hf1, List.append_assoc], ?_⟩
  intro f hf
  rcases List.mem_append.1 hf with h | h
  · exact hd1 f h
  · exact hd2 f h

/-- the nested interpreter produces framed executions -/
theorem run_framed (c : Conf) :
    (∀ (op : Op) (s : St) (σ : FSt) (s' : St) (log : List Rec), σ.cache = s →
      runOp c op s = .ok (s', log) → RunF c σ s' log) ∧
    (∀ (add : Nat) (cbs : List (List Op)) (s : St) (σ : FSt) (F E : List Frame) (k v : Bytes)
      (ph : Phase) (s' : St) (log : List Rec), σ.cache = s → σ.frames = F ++ ⟨k, v, ph⟩ :: E →
      k.length + v.length = add → (⟨k, v, ph⟩ : Frame).atLoopHead c s →
      evictLoop c add cbs s = .ok (s', log) → LoopF c σ F E k v s' log) ∧
    (∀ (ops : List Op) (s : St) (σ : FSt) (s' : St) (log : List Rec), σ.cache = s →
      runOps c ops s = .ok (s', log) → RunF c σ s' log) := by
  apply runOp.mutual_induct c
    (motive_1 := fun op s => ∀ (σ : FSt) (s' : St) (log : List Rec), σ.cache = s →
      runOp c op s = .ok (s', log) → RunF c σ s' log)
    (motive_2 := fun add cbs s => ∀ (σ : FSt) (F E : List Frame) (k v : Bytes)
      (ph : Phase) (s' : St) (log : List Rec), σ.cache = s → σ.frames = F ++ ⟨k, v, ph⟩ :: E →
      k.length + v.length = add → (⟨k, v, ph⟩ : Frame).atLoopHead c s →
      evictLoop c add cbs s = .ok (s', log) → LoopF c σ F E k v s' log)
    (motive_3 := fun ops s => ∀ (σ : FSt) (s' : St) (log : List Rec), σ.cache = s →
      runOps c ops s = .ok (s', log) → RunF c σ s' log)
  · -- Set: too large
    intro k v cbs s hchk σ s' log hσ h
    subst hσ
    simp only [runOp, hchk, pure, Except.pure, Except.ok.injEq, Prod.mk.injEq] at h
    obtain ⟨rfl, rfl⟩ := h
    exact runF_refuse (by simp [hchk])
  · intro k v cbs s hchk σ s' log hσ h
    subst hσ
    simp only [runOp, hchk, pure, Except.pure, Except.ok.injEq, Prod.mk.injEq] at h
    obtain ⟨rfl, rfl⟩ := h
    exact runF_refuse (by simp [hchk])
  · -- Set: the call, the loop, the storing section
    intro k v cbs s hchk ih σ s' log hσ h
    subst hσ
    simp only [runOp, hchk] at h
    obtain ⟨⟨s1, l1⟩, hl, h⟩ := gom_bind_eq_ok h
    simp only [] at h
    obtain ⟨⟨s2, r⟩, hc, h⟩ := gom_bind_eq_ok h
    simp only [pure, Except.pure, Except.ok.injEq, Prod.mk.injEq] at h
    obtain ⟨rfl, rfl⟩ := h
    have step1 := FStep.call (c := c) σ k v
    obtain ⟨fl, σ2, ph', extra, ht, hp, hc2, hf2, hd, hh, hfull⟩ :=
      ih { σ with frames := σ.frames ++ [⟨k, v, .start⟩] } σ.frames [] k v .start s1 l1 rfl rfl rfl
        (Or.inl ⟨rfl, hchk⟩) hl
    have hget : σ2.frames[σ.frames.length]? = some ⟨k, v, ph'⟩ := by
      rw [hf2]; exact frames_mid_get _ _ _
    have step3 := FStep.commit σ2 σ.frames.length ⟨k, v, ph'⟩ s2 r hget (by rw [hc2]; exact hh)
      (by rw [hc2]; exact hfull) (by rw [hc2]; exact hc)
    refine ⟨(⟨_, _⟩ :: fl) ++ [⟨_, _⟩], _, ⟨k, v, .done⟩ :: extra,
      ftrace_append (FTrace.cons step1 ht) (ftrace_single step3), ?_, rfl, ?_, ?_⟩
    · simp [projLog, List.filterMap_cons, FRec.proj, FSt.move] at hp ⊢
      exact hp
    · simp only [FSt.move, hf2, frames_mid_set]; simp
    · intro f hf
      rcases List.mem_cons.1 hf with rfl | hf
      · rfl
      · exact hd f hf
  · -- Get
    intro k s σ s' log hσ h
    subst hσ
    simp only [runOp] at h
    obtain ⟨⟨s1, r⟩, hg, h⟩ := gom_bind_eq_ok h
    simp only [pure, Except.pure, Except.ok.injEq, Prod.mk.injEq] at h
    obtain ⟨rfl, rfl⟩ := h
    exact runF_atomic (FStep.get σ s1 k r hg) rfl
  · -- Del
    intro k s σ s' log hσ h
    subst hσ
    simp only [runOp] at h
    obtain ⟨s1, hd, h⟩ := gom_bind_eq_ok h
    simp only [pure, Except.pure, Except.ok.injEq, Prod.mk.injEq] at h
    obtain ⟨rfl, rfl⟩ := h
    exact runF_atomic (FStep.del σ s1 k hd) rfl
  · -- Clear
    intro s σ s' log hσ h
    subst hσ
    simp only [runOp, pure, Except.pure, Except.ok.injEq, Prod.mk.injEq] at h
    obtain ⟨rfl, rfl⟩ := h
    exact runF_atomic (FStep.clear σ) rfl
  · -- Stats
    intro s σ s' log hσ h
    subst hσ
    simp only [runOp, pure, Except.pure, Except.ok.injEq, Prod.mk.injEq] at h
    obtain ⟨rfl, rfl⟩ := h
    exact runF_atomic (FStep.stats σ) rfl
  · -- loop, callback script exhausted
    intro add s σ F E k v ph s' log hσ hfr hadd hh h
    subst hσ; subst hadd
    simp only [evictLoop] at h
    exact evictQuiet_framed _ σ ph s' log hfr hh h
  · -- loop, one more iteration with a callback script
    intro add ops rest s hfull ihrest ihops σ F E k v ph s' log hσ hfr hadd hh h
    subst hσ; subst hadd
    simp only [evictLoop, hfull, if_true] at h
    obtain ⟨⟨s1, e⟩, he, h⟩ := gom_bind_eq_ok h
    simp only [] at h
    have key : ∃ s2 l2 s3 l3,
        (if c.hasCb then runOps c ops s1 else pure (s1, [])) = .ok (s2, l2) ∧
        evictLoop c (k.length + v.length) rest s2 = .ok (s3, l3) ∧ s3 = s' ∧
        evictEvents c e s1 ++ l2 ++ l3 = log := by
      cases hcb : c.hasCb with
      | true =>
        simp only [hcb, if_true] at h ⊢
        obtain ⟨⟨s2, l2⟩, h2, h⟩ := gom_bind_eq_ok h
        simp only [] at h
        obtain ⟨⟨s3, l3⟩, h3, h⟩ := gom_bind_eq_ok h
        simp only [pure, Except.pure, Except.ok.injEq, Prod.mk.injEq] at h
        exact ⟨s2, l2, s3, l3, h2, h3, h.1, h.2⟩
      | false =>
        simp only [hcb, Bool.false_eq_true, if_false, gom_pure, gom_bind_ok] at h ⊢
        obtain ⟨⟨s3, l3⟩, h3, h⟩ := gom_bind_eq_ok h
        simp only [Except.ok.injEq, Prod.mk.injEq] at h
        exact ⟨s1, [], s3, l3, rfl, h3, h.1, h.2⟩
    obtain ⟨s2, l2, s3, l3, h2, h3, rfl, rfl⟩ := key
    obtain ⟨fl1, σb, ht1, hp1, hc1, hf1⟩ := iter_framed hfr hh hfull he
    -- what the callback does
    have hcbrun : RunF c σb s2 l2 := by
      cases hcb : c.hasCb with
      | true => simp only [hcb, if_true] at h2; exact ihops s1 σb s2 l2 hc1 h2
      | false =>
        simp only [hcb, Bool.false_eq_true, if_false, pure, Except.pure, Except.ok.injEq,
          Prod.mk.injEq] at h2
        obtain ⟨rfl, rfl⟩ := h2
        exact ⟨[], σb, [], FTrace.nil σb, rfl, hc1, by simp, by simp [AllDone]⟩
    obtain ⟨fl2, σc, extra1, ht2, hp2, hc2, hf2, hd1⟩ := hcbrun
    have hfc : σc.frames = F ++ ⟨k, v, .loop⟩ :: (E ++ extra1) := by rw [hf2, hf1]; simp
    have hloop := ihrest s2 σc F (E ++ extra1) k v .loop s3 l3 hc2 hfc rfl (Or.inr rfl) h3
    have := loopF_step ht1 ht2 hd1 hloop
    simpa [hp1, hp2] using this
  · -- loop, the `Set` fits
    intro add ops rest s hfull σ F E k v ph s' log hσ hfr hadd hh h
    subst hσ; subst hadd
    have hf' : full c σ.cache (k.length + v.length) = false := by simpa using hfull
    simp only [evictLoop, hf', Bool.false_eq_true, if_false, pure, Except.pure, Except.ok.injEq,
      Prod.mk.injEq] at h
    obtain ⟨rfl, rfl⟩ := h
    exact loopF_stop hfr hh hf'
  · -- no more calls
    intro s σ s' log hσ h
    subst hσ
    simp only [runOps, pure, Except.pure, Except.ok.injEq, Prod.mk.injEq] at h
    obtain ⟨rfl, rfl⟩ := h
    exact ⟨[], σ, [], FTrace.nil σ, rfl, rfl, by simp, by simp [AllDone]⟩
  · -- a call, then the rest
    intro op rest s ihop ihrest σ s' log hσ h
    subst hσ
    simp only [runOps] at h
    obtain ⟨⟨s1, l1⟩, h1, h⟩ := gom_bind_eq_ok h
    simp only [] at h
    obtain ⟨⟨s2, l2⟩, h2, h⟩ := gom_bind_eq_ok h
    simp only [pure, Except.pure, Except.ok.injEq, Prod.mk.injEq] at h
    obtain ⟨rfl, rfl⟩ := h
    exact runF_append (ihop σ s1 l1 rfl h1) (fun σ1 hσ1 => ihrest s1 σ1 s2 l2 hσ1 h2)

end GolibsVerif.C09
