/-
From the array-level specification of the model of `pdqsortCmpFunc` (`Lemmas/SortPdq.lean`) to
`slices.SortFunc` on lists and to the vocabulary of `Spec/C12.lean` (`StrictWeakOrder`, `Sorted`).
-/
import GolibsVerif.Lemmas.SortPdq
import GolibsVerif.Spec.C12

namespace GolibsVerif.Slices

variable {α : Type}

theorem WeakCmp.of_strictWeakOrder {cmp : α → α → Int}
    (h : C12.StrictWeakOrder (fun a b => cmp a b < 0)) : WeakCmp cmp := by
  refine ⟨h.irrefl, h.trans, ?_⟩
  intro a b c hab hbc hca
  -- a ≤ b ≤ c and c < a
  by_cases h1 : cmp a b < 0
  · exact hbc (h.trans c a b hca h1)
  · by_cases h2 : cmp b c < 0
    · exact hab (h.trans b c a h2 hca)
    · exact (h.incomp_trans a b c ⟨h1, hab⟩ ⟨h2, hbc⟩).2 hca

theorem sortFuncArray_spec (cmp : α → α → Int) (d : Array α) :
    ∃ d', sortFuncArray cmp d = .ok d' ∧ d'.size = d.size ∧ d'.toList.Perm d.toList ∧
      (WeakCmp cmp → SortedOn cmp d' 0 d.size) := by
  obtain ⟨d', h1, hf, hw⟩ := pdqsort_spec cmp (d.size + 1) d 0 (d.size : Int) (bitsLen d.size) true true
    (by omega) (Int.le_refl _) (by omega) (Int.le_refl _)
  refine ⟨d', h1, hf.size, hf.perm, fun hw' => (hw hw' ?_).2⟩
  intro h0
  omega

theorem sortedOn_toList {cmp : α → α → Int} {d : Array α} (h : SortedOn cmp d 0 d.size) :
    C12.Sorted cmp d.toList := by
  unfold C12.Sorted
  rw [List.pairwise_iff_getElem]
  intro i j hi hj hij
  simp only [Array.length_toList] at hi hj
  apply h (i : Int) (j : Int) _ _ (by omega) (by omega) (by omega)
  · rw [at?_ofNat]; simp [hi]
  · rw [at?_ofNat]; simp [hj]

theorem sortFunc_spec (cmp : α → α → Int) (l : List α) :
    ∃ r, sortFunc cmp l = .ok r ∧ r.Perm l ∧ (WeakCmp cmp → C12.Sorted cmp r) := by
  obtain ⟨d', h1, hsz, hp, hs⟩ := sortFuncArray_spec cmp l.toArray
  refine ⟨d'.toList, by simp [sortFunc, h1, Except.map], by simpa using hp, ?_⟩
  intro hw
  apply sortedOn_toList
  rw [hsz]
  exact hs hw

theorem sortFunc_eq_val (cmp : α → α → Int) (l : List α) : sortFunc cmp l = .ok (sortFuncVal cmp l) := by
  obtain ⟨r, h, _⟩ := sortFunc_spec cmp l
  simp [sortFuncVal, h]

end GolibsVerif.Slices
