/-
C10 — the executable steps `KSt.inv`, `doSec`, `doRet` are steps of the concurrent system, so
the scheduled-script interpreter (`runSched`, the one tied to the Go code with real goroutines)
produces concurrent executions.
-/
import GolibsVerif.Lemmas.C10

namespace GolibsVerif.C10
open GolibsVerif.C09

theorem inv_kstep (c : Conf) (σ : KSt) (op : Call) :
    KStep c σ (.inv σ.calls.length op) (σ.inv op) := by
  cases op with
  | set k v => exact KStep.invSet σ k v _ (FStep.call σ.f k v)
  | get k => exact KStep.inv σ _ (by intro k v h; cases h)
  | del k => exact KStep.inv σ _ (by intro k v h; cases h)
  | clear => exact KStep.inv σ _ (by intro k v h; cases h)
  | stats => exact KStep.inv σ _ (by intro k v h; cases h)

theorem frameHead_fstep {c : Conf} {σ σ' : FSt} {i : Nat} {f : Frame} {ev : Ev}
    (hf : σ.frames[i]? = some f) (hh : f.atLoopHead c σ.cache)
    (h : frameHead c σ i f = .ok (σ', ev)) : FStep c σ (.sec (some i) ev) σ' := by
  unfold frameHead at h
  split at h
  · next hfull =>
    split at h
    · next s' e he =>
      injection h with h; injection h with h1 h2; subst h1; subst h2
      exact FStep.evict σ i f s' e hf hh hfull he
    · cases h
  · next hfull =>
    split at h
    · next s' r hc =>
      injection h with h; injection h with h1 h2; subst h1; subst h2
      exact FStep.commit σ i f s' r hf hh (by simpa using hfull) hc
    · cases h

theorem frameSec_fstep {c : Conf} {σ σ' : FSt} {i : Nat} {ev : Ev}
    (h : frameSec c σ i = .ok (σ', ev)) : FStep c σ (.sec (some i) ev) σ' := by
  unfold frameSec at h
  split at h
  · cases h
  · next f hf =>
    split at h
    · next hp =>
      split at h
      · next hc => exact frameHead_fstep hf (Or.inl ⟨hp, hc⟩) h
      · next hc =>
        injection h with h; injection h with h1 h2; subst h1; subst h2
        exact FStep.refuse σ i f hf hp hc
    · next hp => exact frameHead_fstep hf (Or.inr hp) h
    · next k v hp =>
      injection h with h; injection h with h1 h2; subst h1; subst h2
      exact FStep.onDelete σ i f k v hf hp
    · cases h

theorem oneSec_fstep {c : Conf} {σ σ' : FSt} {op : Call} {ev : Ev}
    (h : oneSec c σ op = .ok (σ', ev)) : FStep c σ (.sec none ev) σ' ∧ IsSecOf op ev := by
  cases op with
  | set k v => cases h
  | get k =>
    simp only [oneSec] at h
    split at h
    · next s' r hg =>
      injection h with h; injection h with h1 h2; subst h1; subst h2
      exact ⟨FStep.get σ s' k r hg, rfl⟩
    · cases h
  | del k =>
    simp only [oneSec] at h
    split at h
    · next s' hd =>
      injection h with h; injection h with h1 h2; subst h1; subst h2
      exact ⟨FStep.del σ s' k hd, rfl⟩
    · cases h
  | clear =>
    injection h with h; injection h with h1 h2; subst h1; subst h2
    exact ⟨FStep.clear σ, trivial⟩
  | stats =>
    injection h with h; injection h with h1 h2; subst h1; subst h2
    exact ⟨FStep.stats σ, trivial⟩

theorem doSec_kstep {c : Conf} {σ σ' : KSt} {id : Nat} {ev : Ev}
    (h : doSec c σ id = .ok (σ', ev)) : KStep c σ (.sec id ev) σ' := by
  unfold doSec at h
  split at h
  · next k v i hc =>
    split at h
    · next f' ev' hf =>
      injection h with h; injection h with h1 h2; subst h1; subst h2
      exact KStep.secSet σ id i k v ev' f' hc (frameSec_fstep hf)
    · cases h
  · next _ op hc =>
    split at h
    · next f' ev' hf =>
      injection h with h; injection h with h1 h2; subst h1; subst h2
      obtain ⟨h1, h2⟩ := oneSec_fstep hf
      exact KStep.secOne σ id op ev' f' hc h2 h1
    · cases h
  · cases h

theorem doRet_kstep {c : Conf} {σ σ' : KSt} {id : Nat} {r : Res}
    (h : doRet σ id = .ok (σ', r)) : KStep c σ (.ret id r) σ' := by
  unfold doRet at h
  split at h
  · next op r' hc =>
    injection h with h; injection h with h1 h2; subst h1; subst h2
    exact KStep.ret σ id op r' hc
  · cases h

/-! ### the interpreter keeps a concurrent execution -/

/-- the interpreter's log is a concurrent execution from the fresh cache to its state -/
def Sched.Ok (c : Conf) (s : Sched) : Prop := CTrace c KSt.init s.log s.σ

theorem Sched.Ok.init (c : Conf) : Sched.init.Ok c := CTrace.nil _

theorem Sched.Ok.push {c : Conf} {s : Sched} {ev : KEv} {σ' : KSt} (h : s.Ok c)
    (hs : KStep c s.σ ev σ') : (s.push ev σ').Ok c := ctrace_snoc h hs

theorem Sched.Ok.show {c : Conf} {s : Sched} (o : SOut) (h : s.Ok c) : (s.show o).Ok c := h

theorem runSet_ok {c : Conf} {resumed : Bool} {n id : Nat} :
    ∀ (fuel : Nat) {s s' : Sched}, runSet c resumed n id fuel s = .ok s' → s.Ok c → s'.Ok c := by
  intro fuel
  induction fuel with
  | zero => intro s s' h; cases h
  | succ fuel ih =>
    intro s s' h hok
    unfold runSet at h
    split at h
    · cases h
    · next σ1 ev hsec =>
      have hok1 : (s.push (.sec id ev) σ1).Ok c := hok.push (doSec_kstep hsec)
      simp only at h
      split at h
      · injection h with h; subst h; exact hok1.show _
      · exact ih h hok1
      · split at h
        · cases h
        · next σ2 b hret =>
          injection h with h; subst h
          exact (hok1.push (doRet_kstep hret)).show _
        · cases h

theorem runOne_ok {c : Conf} {op : Call} {s s' : Sched} (h : runOne c op s = .ok s')
    (hok : s.Ok c) : s'.Ok c := by
  unfold runOne at h
  simp only at h
  have hok0 : (s.push (.inv s.σ.calls.length op) (s.σ.inv op)).Ok c := hok.push (inv_kstep c _ _)
  split at h
  · cases h
  · next σ1 ev hsec =>
    have hok1 := hok0.push (doSec_kstep hsec)
    split at h
    · cases h
    · next σ2 r hret =>
      injection h with h; subst h
      exact (hok1.push (doRet_kstep hret)).show _

theorem schedStep_ok {c : Conf} {s s' : Sched} {st : SStep} (h : schedStep c s st = .ok s')
    (hok : s.Ok c) : s'.Ok c := by
  cases st with
  | set k v =>
    simp only [schedStep] at h
    refine runSet_ok _ h ?_
    exact hok.push (inv_kstep c _ _)
  | resume n =>
    simp only [schedStep] at h
    split at h
    · exact runSet_ok _ h hok
    · injection h with h; subst h; exact hok.show _
  | get k => exact runOne_ok h hok
  | del k => exact runOne_ok h hok
  | clear => exact runOne_ok h hok
  | stats => exact runOne_ok h hok

theorem schedSteps_ok {c : Conf} : ∀ (steps : List SStep) {s s' : Sched},
    schedSteps c steps s = .ok s' → s.Ok c → s'.Ok c := by
  intro steps
  induction steps with
  | nil => intro s s' h hok; injection h with h; subst h; exact hok
  | cons st rest ih =>
    intro s s' h hok
    unfold schedSteps at h
    split at h
    · next s1 h1 => exact ih h (schedStep_ok h1 hok)
    · cases h

theorem drain_ok {c : Conf} {n : Nat} : ∀ (fuel : Nat) {s s' : Sched},
    drain c n fuel s = .ok s' → s.Ok c → s'.Ok c := by
  intro fuel
  induction fuel with
  | zero =>
    intro s s' h hok
    unfold drain at h
    split at h
    · injection h with h; subst h; exact hok
    · cases h
  | succ fuel ih =>
    intro s s' h hok
    unfold drain at h
    split at h
    · injection h with h; subst h; exact hok
    · split at h
      · next s1 h1 => exact ih h (runSet_ok _ h1 hok)
      · cases h

theorem drainAll_ok {c : Conf} : ∀ (ns : List Nat) {s s' : Sched},
    drainAll c ns s = .ok s' → s.Ok c → s'.Ok c := by
  intro ns
  induction ns with
  | nil => intro s s' h hok; injection h with h; subst h; exact hok
  | cons n rest ih =>
    intro s s' h hok
    unfold drainAll at h
    split at h
    · next s1 h1 => exact ih h (drain_ok _ h1 hok)
    · cases h

theorem runSched_ok {r : RawConf} {steps : List SStep} {s : Sched}
    (h : runSched r steps = .ok s) : s.Ok (newConf r) := by
  unfold runSched at h
  split at h
  · next s1 h1 => exact drainAll_ok _ h (schedSteps_ok steps h1 (Sched.Ok.init _))
  · cases h

end GolibsVerif.C10
