/-
C10 — lemmas behind the observation theorems: the section events of an execution, "latest
surviving Set" read positionally, where a result comes from, where a call comes from.
-/
import GolibsVerif.Lemmas.C10Lin

namespace GolibsVerif.C10
open GolibsVerif.C09

/-! ### the section events of an execution -/

def KRec.secEv (r : KRec) : Option Ev :=
  match r.ev with
  | .sec _ e => some e
  | _ => none

/-- the events of all critical sections of an execution, in order -/
def secEvs (l : List KRec) : List Ev := l.filterMap KRec.secEv

theorem evsOf_projLog_flogFrom : ∀ (l : List KRec) (σ0 : KSt),
    evsOf (projLog (flogFrom σ0 l)) = secEvs l := by
  intro l
  induction l with
  | nil => intro σ0; simp [flogFrom, projLog, evsOf, secEvs]
  | cons r rest ih =>
    intro σ0
    obtain ⟨ev, after⟩ := r
    simp only [flogFrom, projLog_append, evsOf_append, ih, secEvs, List.filterMap_cons, KRec.secEv]
    cases ev with
    | inv id op => cases op <;> simp [projLog, FRec.proj, evsOf]
    | sec id e => simp [projLog, FRec.proj, evsOf]
    | ret id r => simp [projLog, evsOf]

/-- the event overwrites or removes whatever `k` held -/
def Supersedes (k : Bytes) : Ev → Prop
  | .commit k' _ _ => k' = k
  | .evict k' _ => k' = k
  | .del k' => k' = k
  | .clear => True
  | _ => False

/-- "latest surviving Set", positionally (history newest first) -/
theorem lastSurvivingRev_some {l : List Ev} {k v : Bytes} (h : lastSurvivingRev l k = some v) :
    ∃ l1 l2 rep, l = l1 ++ .commit k v rep :: l2 ∧ ∀ e ∈ l1, ¬ Supersedes k e := by
  induction l with
  | nil => simp [lastSurvivingRev] at h
  | cons e rest ih =>
    have keep : lastSurvivingRev rest k = some v → ¬ Supersedes k e →
        ∃ l1 l2 rep, e :: rest = l1 ++ .commit k v rep :: l2 ∧ ∀ e ∈ l1, ¬ Supersedes k e := by
      intro h' hns
      obtain ⟨l1, l2, rep, hl, hn⟩ := ih h'
      refine ⟨e :: l1, l2, rep, by rw [hl]; rfl, ?_⟩
      intro x hx
      rcases List.mem_cons.1 hx with rfl | hx
      · exact hns
      · exact hn x hx
    cases e with
    | commit k' v' r =>
      simp only [lastSurvivingRev] at h
      by_cases hk : k' = k
      · simp only [hk, if_true, Option.some.injEq] at h
        subst hk; subst h
        exact ⟨[], rest, r, rfl, by simp⟩
      · simp only [hk, if_false] at h
        exact keep h (by simpa [Supersedes] using hk)
    | evict k' v' =>
      simp only [lastSurvivingRev] at h
      by_cases hk : k' = k
      · simp [hk] at h
      · simp only [hk, if_false] at h
        exact keep h (by simpa [Supersedes] using hk)
    | del k' =>
      simp only [lastSurvivingRev] at h
      by_cases hk : k' = k
      · simp [hk] at h
      · simp only [hk, if_false] at h
        exact keep h (by simpa [Supersedes] using hk)
    | clear => simp [lastSurvivingRev] at h
    | get k' r => exact keep (by simpa [lastSurvivingRev] using h) (by simp [Supersedes])
    | refused k' v' => exact keep (by simpa [lastSurvivingRev] using h) (by simp [Supersedes])
    | onDelete k' v' => exact keep (by simpa [lastSurvivingRev] using h) (by simp [Supersedes])
    | stats st => exact keep (by simpa [lastSurvivingRev] using h) (by simp [Supersedes])

/-- the same for a chronological history: the storing `commit`, and nothing after it touches `k` -/
theorem lastSurviving_some {evs : List Ev} {k v : Bytes} (h : lastSurviving evs k = some v) :
    ∃ e1 e2 rep, evs = e1 ++ .commit k v rep :: e2 ∧ ∀ e ∈ e2, ¬ Supersedes k e := by
  obtain ⟨l1, l2, rep, hl, hn⟩ := lastSurvivingRev_some h
  refine ⟨l2.reverse, l1.reverse, rep, ?_, ?_⟩
  · have := congrArg List.reverse hl
    simpa using this
  · intro e he; exact hn e (List.mem_reverse.1 he)

/-- a section event found in the section events of a log sits in a record of the log -/
theorem secEvs_split {l : List KRec} {e1 e2 : List Ev} {e : Ev} (h : secEvs l = e1 ++ e :: e2) :
    ∃ p1 p2 id σ1, l = p1 ++ ⟨.sec id e, σ1⟩ :: p2 ∧ secEvs p1 = e1 ∧ secEvs p2 = e2 := by
  unfold secEvs at h
  obtain ⟨la, lb, rfl, ha, hb⟩ := List.filterMap_eq_append_iff.1 h
  obtain ⟨lb1, r, lb2, rfl, hnone, hr, hb2⟩ := List.filterMap_eq_cons_iff.1 hb
  obtain ⟨ev, σ1⟩ := r
  cases ev with
  | sec id e' =>
    simp only [KRec.secEv, Option.some.injEq] at hr
    subst hr
    refine ⟨la ++ lb1, lb2, id, σ1, by simp, ?_, hb2⟩
    unfold secEvs
    rw [List.filterMap_append, ha]
    have : List.filterMap KRec.secEv lb1 = [] := by
      rw [List.filterMap_eq_nil_iff]; exact hnone
    simp [this]
  | inv id op => simp [KRec.secEv] at hr
  | ret id r => simp [KRec.secEv] at hr

/-! ### where a result comes from -/

/-- a call whose result is fixed has run the section that fixed it -/
def ResInv (log : List KRec) (σ : KSt) : Prop :=
  ∀ (id : Nat) (cs : CallSt) (r : Res), σ.calls[id]? = some cs →
    (cs.st = .finished r ∨ cs.st = .returned r) →
    ∃ pre post σ1 ev, log = pre ++ ⟨.sec id ev, σ1⟩ :: post ∧ resOf ev = some r ∧ OpEv cs.op ev

theorem resInv_reachable {c : Conf} {log : List KRec} {σ : KSt} (ht : CTrace c KSt.init log σ) :
    ResInv log σ := by
  refine ctrace_snoc_ind (P := fun l σ => ResInv l σ) ?_ ?_ ht
  · intro id cs r h; simp [KSt.init] at h
  · intro l σ ev σ' htl ih hstep
    have old : ∀ (id : Nat) (cs : CallSt) (r : Res), σ.calls[id]? = some cs →
        (cs.st = .finished r ∨ cs.st = .returned r) →
        ∃ pre post σ1 e, l ++ [⟨ev, σ'⟩] = pre ++ ⟨.sec id e, σ1⟩ :: post ∧ resOf e = some r ∧
          OpEv cs.op e := by
      intro id cs r hcs hst
      obtain ⟨pre, post, σ1, e, hl, hr, hop⟩ := ih id cs r hcs hst
      exact ⟨pre, post ++ [⟨ev, σ'⟩], σ1, e, by rw [hl]; simp, hr, hop⟩
    obtain ⟨lin, hi⟩ := linInv_reachable htl
    intro id cs r hcs hst
    cases hstep with
    | invSet k v f' hf =>
      rcases getElem?_snoc_lt hcs with h1 | ⟨_, rfl⟩
      · exact old id cs r h1 hst
      · rcases hst with h | h <;> cases h
    | inv op hop =>
      rcases getElem?_snoc_lt hcs with h1 | ⟨_, rfl⟩
      · exact old id cs r h1 hst
      · rcases hst with h | h <;> cases h
    | secSet id' i k v e f' hc hf =>
      rcases getElem?_set_cases hcs with ⟨rfl, rfl⟩ | ⟨_, h1⟩
      · obtain ⟨f, hff, hk, hv⟩ := hi.frame _ k v i hc
        have hop : OpEv (.set k v) e := by
          have := fstep_frame_ev hf hff
          rwa [hk, hv] at this
        refine ⟨l, [], _, e, rfl, ?_, hop⟩
        simp only [statusAfter] at hst
        cases hr : resOf e with
        | none => rw [hr] at hst; rcases hst with h | h <;> cases h
        | some r' =>
          rw [hr] at hst
          rcases hst with h | h
          · injection h with h; rw [h]
          · cases h
      · exact old id cs r h1 hst
    | secOne id' op e f' hc hsecof hf =>
      rcases getElem?_set_cases hcs with ⟨rfl, rfl⟩ | ⟨_, h1⟩
      · refine ⟨l, [], _, e, rfl, ?_, opEv_of_isSecOf hsecof⟩
        simp only [statusAfter] at hst
        cases hr : resOf e with
        | none => rw [hr] at hst; rcases hst with h | h <;> cases h
        | some r' =>
          rw [hr] at hst
          rcases hst with h | h
          · injection h with h; rw [h]
          · cases h
      · exact old id cs r h1 hst
    | ret id' op r' hc =>
      rcases getElem?_set_cases hcs with ⟨rfl, rfl⟩ | ⟨_, h1⟩
      · rcases hst with h | h
        · cases h
        · injection h with h; subst h
          exact old _ ⟨op, .finished r'⟩ r' hc (Or.inl rfl)
      · exact old id cs r h1 hst

/-- an invocation event of the history is an `inv` record of the log -/
theorem inv_mem_history {l : List KRec} {id : Nat} {op : Call} (h : HEv.inv id op ∈ historyOf l) :
    ∃ p1 p2 σa, l = p1 ++ ⟨.inv id op, σa⟩ :: p2 := by
  unfold historyOf at h
  obtain ⟨r, hr, hh⟩ := List.mem_filterMap.1 h
  obtain ⟨p1, p2, rfl⟩ := List.append_of_mem hr
  obtain ⟨ev, σa⟩ := r
  cases ev with
  | inv id' op' =>
    simp only [KEv.hist, Option.some.injEq] at hh
    injection hh with h1 h2; subst h1; subst h2
    exact ⟨p1, p2, σa, rfl⟩
  | sec id' e => simp [KEv.hist] at hh
  | ret id' r' => simp [KEv.hist] at hh

theorem ret_mem_history {l : List KRec} {id : Nat} {r : Res} (h : HEv.ret id r ∈ historyOf l) :
    ∃ p1 p2 σa, l = p1 ++ ⟨.ret id r, σa⟩ :: p2 := by
  unfold historyOf at h
  obtain ⟨x, hx, hh⟩ := List.mem_filterMap.1 h
  obtain ⟨p1, p2, rfl⟩ := List.append_of_mem hx
  obtain ⟨ev, σa⟩ := x
  cases ev with
  | ret id' r' =>
    simp only [KEv.hist, Option.some.injEq] at hh
    injection hh with h1 h2; subst h1; subst h2
    exact ⟨p1, p2, σa, rfl⟩
  | sec id' e => simp [KEv.hist] at hh
  | inv id' op' => simp [KEv.hist] at hh

/-- a section of call `id`, looked at from the state before it: the call is running, invoked
earlier with arguments that fit the event -/
theorem sec_call {c : Conf} {pre : List KRec} {σ0 σ1 : KSt} {id : Nat} {e : Ev}
    (hpre : CTrace c KSt.init pre σ0) (hs : KStep c σ0 (.sec id e) σ1) :
    ∃ op fr, σ0.calls[id]? = some ⟨op, .running fr⟩ ∧ OpEv op e ∧
      ∃ p1 p2 σa, pre = p1 ++ ⟨.inv id op, σa⟩ :: p2 := by
  obtain ⟨lin, hi⟩ := linInv_reachable hpre
  generalize hev : KEv.sec id e = lab at hs
  cases hs with
  | invSet => cases hev
  | inv => cases hev
  | ret => cases hev
  | secSet id' i k v e' f' hc hf =>
    injection hev with h1 h2; subst h1; subst h2
    obtain ⟨f, hff, hk, hv⟩ := hi.frame _ k v i hc
    have hop : OpEv (.set k v) e := by
      have := fstep_frame_ev hf hff
      rwa [hk, hv] at this
    exact ⟨_, _, hc, hop, inv_mem_history (hi.invd _ _ hc)⟩
  | secOne id' op e' f' hc hsecof hf =>
    injection hev with h1 h2; subst h1; subst h2
    exact ⟨_, _, hc, opEv_of_isSecOf hsecof, inv_mem_history (hi.invd _ _ hc)⟩

end GolibsVerif.C10
