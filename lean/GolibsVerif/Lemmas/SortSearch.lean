/-
`slices.BinarySearch` / `BinarySearchFunc` of `Go/Sort.lean`: the loop never indexes out of range
and, on a slice partitioned by `lt` (every element satisfying `lt` precedes every element that
does not — true of a sorted slice), returns the number of elements satisfying `lt`.
-/
import GolibsVerif.Lemmas.SortInsertion

namespace GolibsVerif.Slices

variable {α : Type}

/-- `lt` holds on a prefix of the slice only -/
def PartitionedBy (lt : α → Bool) (d : Array α) : Prop :=
  ∀ p q x y, p < q → at? d p = some x → at? d q = some y → lt y = true → lt x = true

theorem binarySearchLoop_spec (lt : α → Bool) (d : Array α) : ∀ (n : Nat) (i j : Int),
    (j - i).toNat ≤ n → 0 ≤ i → i ≤ j → j ≤ d.size →
    ∃ r, binarySearchLoop lt d i j = .ok r ∧ i ≤ r ∧ r ≤ j ∧
      (PartitionedBy lt d → (∀ k x, k < i → at? d k = some x → lt x = true) →
        (∀ k x, j ≤ k → at? d k = some x → lt x = false) →
        (∀ k x, k < r → at? d k = some x → lt x = true) ∧ (∀ k x, r ≤ k → at? d k = some x → lt x = false)) := by
  intro n
  induction n with
  | zero =>
    intro i j hn hi hij hj
    have : ¬ i < j := by omega
    rw [binarySearchLoop]
    rw [if_neg this]
    have e : j = i := by omega
    subst e
    exact ⟨j, rfl, Int.le_refl _, Int.le_refl _, fun _ h1 h2 => ⟨h1, h2⟩⟩
  | succ n ih =>
    intro i j hn hi hij hj
    rw [binarySearchLoop]
    by_cases hlt : i < j
    · rw [if_pos hlt]
      obtain ⟨x, hx⟩ := at?_eq_some (d := d) (i := (i + j) / 2) (by omega) (by omega)
      simp only [get_ok hx, ok_bind]
      cases hl : lt x with
      | true =>
        simp only [if_true]
        obtain ⟨r, h1, h2, h3, h4⟩ := ih ((i + j) / 2 + 1) j (by omega) (by omega) (by omega) hj
        refine ⟨r, h1, by omega, h3, ?_⟩
        intro hp hlo hhi
        apply h4 hp _ hhi
        intro k y hk hy
        by_cases hk' : k = (i + j) / 2
        · subst hk'; rw [hx] at hy; cases hy; exact hl
        · exact hp k ((i + j) / 2) y x (by omega) hy hx hl
      | false =>
        simp only [Bool.false_eq_true, if_false]
        obtain ⟨r, h1, h2, h3, h4⟩ := ih i ((i + j) / 2) (by omega) hi (by omega) (by omega)
        refine ⟨r, h1, h2, by omega, ?_⟩
        intro hp hlo hhi
        apply h4 hp hlo
        intro k y hk hy
        by_cases hk' : k = (i + j) / 2
        · subst hk'; rw [hx] at hy; cases hy; exact hl
        · cases hy' : lt y with
          | false => rfl
          | true => rw [hp ((i + j) / 2) k x y (by omega) hx hy hy'] at hl; cases hl
    · rw [if_neg hlt]
      have e : j = i := by omega
      subst e
      exact ⟨j, rfl, Int.le_refl _, Int.le_refl _, fun _ h1 h2 => ⟨h1, h2⟩⟩

/-- `BinarySearch(Func)`: always succeeds; on a slice partitioned by `lt` the index `i` is the
boundary of `lt`, and the flag is `eq` of the element there, if any -/
theorem binarySearchBy_spec (lt eq : α → Bool) (l : List α) :
    ∃ i : Nat, i ≤ l.length ∧
      binarySearchBy lt eq l = .ok ((i : Int), match l[i]? with | some x => eq x | none => false) ∧
      (PartitionedBy lt l.toArray → (∀ k x, k < i → l[k]? = some x → lt x = true) ∧
        (∀ k x, i ≤ k → l[k]? = some x → lt x = false)) := by
  obtain ⟨r, h1, h2, h3, h4⟩ := binarySearchLoop_spec lt l.toArray _ 0 (l.toArray.size : Int) (Nat.le_refl _)
    (Int.le_refl _) (by omega) (Int.le_refl _)
  have hsz : l.toArray.size = l.length := by simp
  refine ⟨r.toNat, by omega, ?_, ?_⟩
  · have hr : ((r.toNat : Nat) : Int) = r := by omega
    simp only [binarySearchBy, h1, ok_bind, hr]
    by_cases hlt : r < (l.toArray.size : Int)
    · rw [if_pos hlt]
      obtain ⟨x, hx⟩ := at?_eq_some (d := l.toArray) (i := r) h2 hlt
      have hx' : l[r.toNat]? = some x := by
        rw [← hr, at?_ofNat] at hx; simpa using hx
      simp only [get_ok hx, ok_bind, pure_ok, hx']
    · rw [if_neg hlt]
      have : l[r.toNat]? = none := by
        apply List.getElem?_eq_none; omega
      simp only [pure_ok, this]
  · intro hp
    obtain ⟨h5, h6⟩ := h4 hp (by intro k x hk hx; have := at?_bounds hx; omega)
      (by intro k x hk hx; have := at?_bounds hx; omega)
    constructor
    · intro k x hk hx
      apply h5 (k : Int) x (by omega)
      rw [at?_ofNat]; simpa using hx
    · intro k x hk hx
      apply h6 (k : Int) x (by omega)
      rw [at?_ofNat]; simpa using hx

end GolibsVerif.Slices
