/- C04 helper lemmas, part 4: the prologue (trim, domain-name validation, re-kinding), the
suffix switch, and domain-name validity of every case variant of a canonical PTR name. -/
import GolibsVerif.Lemmas.C04Basic
import GolibsVerif.Lemmas.C04V6
import GolibsVerif.Theorems.C03

namespace GolibsVerif.C04
open GolibsVerif.Netutil GolibsVerif.Str GolibsVerif.Netip GolibsVerif.Gen.Consts GolibsVerif
open GolibsVerif.C03 (validateName_spec domainValidator validateDomainName_iff DomainNameOK NameOK
  LabelsOK DomainLabel TLDLabel HostLabel)

/-! ### the prologue -/

theorem prologue_accept (toASCII : Bytes → Option Bytes) (s : Bytes)
    (h : validateDomainName toASCII (trimSuffix s [46]) = .ok none) :
    arpaPrologue toASCII s = .ok (.ok (trimSuffix s [46])) := by
  simp [arpaPrologue, h, bind, Except.bind, pure, Except.pure]

theorem prologue_reject (toASCII : Bytes → Option Bytes) (s : Bytes) (e : Err)
    (h : validateDomainName toASCII (trimSuffix s [46]) = .ok (some e)) :
    ∃ inner, arpaPrologue toASCII s = .ok (.error (.addr .arpa (trimSuffix s [46]) (some inner))) := by
  obtain ⟨inner, rfl⟩ :=
    (validateName_spec .domainName domainValidator toASCII (trimSuffix s [46])).2.2 e h
  exact ⟨inner, by simp [arpaPrologue, h, replaceKind, bind, Except.bind, pure, Except.pure]⟩

/-- the prologue never panics; it passes the trimmed name on or rejects with an ARPA
`*AddrError` for the trimmed name -/
theorem prologue_cases (toASCII : Bytes → Option Bytes) (s : Bytes) :
    (validateDomainName toASCII (trimSuffix s [46]) = .ok none ∧
      arpaPrologue toASCII s = .ok (.ok (trimSuffix s [46]))) ∨
    (∃ inner, arpaPrologue toASCII s = .ok (.error (.addr .arpa (trimSuffix s [46]) (some inner)))) := by
  obtain ⟨r, hr⟩ := (validateName_spec .domainName domainValidator toASCII (trimSuffix s [46])).1
  cases r with
  | none => exact Or.inl ⟨hr, prologue_accept toASCII s hr⟩
  | some e => exact Or.inr (prologue_reject toASCII s e hr)

/-! ### suffixes and slicing -/

theorem hasSuffix_iff (s p : Bytes) : hasSuffix s p = true ↔ p <:+ s := by
  simp [hasSuffix]

theorem sliceTo_suffix (t p : Bytes) :
    GoM.sliceTo (t ++ p) (((t ++ p).length : Int) - p.length) = .ok t := by
  have e : (((t ++ p).length : Int) - p.length) = ((t.length : Nat) : Int) := by simp
  rw [e]
  unfold GoM.sliceTo
  have h := GoM.slice_ofNat (t ++ p) 0 t.length (by omega) (by simp)
  rw [show ((0 : Nat) : Int) = 0 from rfl] at h
  rw [h]; simp

theorem trimSuffix_nodot (v : Bytes) (h : v.getLast? ≠ some 46) : trimSuffix v [46] = v := by
  unfold trimSuffix
  have : hasSuffix v [46] = false := by
    cases hs : hasSuffix v [46] with
    | false => rfl
    | true =>
      obtain ⟨t, ht⟩ := (hasSuffix_iff v [46]).1 hs
      rw [← ht] at h; simp at h
  simp [this]

theorem trimSuffix_dot (v : Bytes) : trimSuffix (v ++ [46]) [46] = v := by
  unfold trimSuffix
  have : hasSuffix (v ++ [46]) [46] = true := (hasSuffix_iff _ _).2 ⟨v, rfl⟩
  simp [this]

theorem v6suffix_not_v4 (s : Bytes) (h6 : arpaV6Suffix <:+ s) : hasSuffix s arpaV4Suffix = false := by
  cases hs : hasSuffix s arpaV4Suffix with
  | false => rfl
  | true =>
    have h4 := (hasSuffix_iff s arpaV4Suffix).1 hs
    have := List.suffix_of_suffix_length_le h6 h4 (by decide)
    revert this; decide

/-! ### `joinDot` -/

theorem joinDot_append (ls ms : List Bytes) (h1 : ls ≠ []) (h2 : ms ≠ []) :
    joinDot (ls ++ ms) = joinDot ls ++ 46 :: joinDot ms := by
  induction ls with
  | nil => exact absurd rfl h1
  | cons l rest ih =>
    cases rest with
    | nil =>
      cases ms with
      | nil => exact absurd rfl h2
      | cons m ms' => simp [joinDot]
    | cons l' rest' =>
      have : (l :: l' :: rest') ++ ms = l :: (l' :: (rest' ++ ms)) := rfl
      rw [this, joinDot_cons_cons, joinDot_cons_cons]
      have ih' := ih (by simp)
      simp only [List.cons_append] at ih'
      rw [ih']; simp

theorem mem_joinDot (ls : List Bytes) (c : Nat) (h : c ∈ joinDot ls) : c = 46 ∨ ∃ l ∈ ls, c ∈ l := by
  induction ls with
  | nil => simp [joinDot] at h
  | cons l rest ih =>
    cases rest with
    | nil => simp [joinDot] at h; exact Or.inr ⟨l, by simp, h⟩
    | cons l' rest' =>
      rw [joinDot_cons_cons] at h
      simp only [List.mem_append, List.mem_cons] at h
      rcases h with h | h | h
      · exact Or.inr ⟨l, by simp, h⟩
      · exact Or.inl h
      · rcases ih h with h | ⟨x, hx, hc⟩
        · exact Or.inl h
        · exact Or.inr ⟨x, by simp [hx], hc⟩

/-! ### case variants of `arpa` form a TLD label -/

theorem lowerByte_letter (c k : Nat) (h : lowerByte c = k) (hk : 97 ≤ k ∧ k ≤ 122) :
    c = k ∨ c + 32 = k := by
  have := hk.1
  unfold lowerByte at h; split at h <;> omega

theorem inner_of_lower_letter (c k : Nat) (h : lowerByte c = k) (hk : 97 ≤ k ∧ k ≤ 122) :
    isValidHostInnerRune c = true ∧ c ≠ 45 ∧ isDigit c = false := by
  have hc := lowerByte_letter c k h hk
  have h1 : isLower c = true ∨ isUpper c = true := by
    rcases hc with hc | hc
    · left; simp [isLower]; omega
    · right; simp [isUpper]; omega
  refine ⟨?_, by omega, ?_⟩
  · unfold isValidHostInnerRune isValidHostOuterRune
    rcases h1 with h1 | h1 <;> simp [h1]
  · simp [isDigit]; omega

theorem tld_of_lower_arpa (x : Bytes) (h : asciiLower x = lblArpa) : TLDLabel x := by
  match x, h with
  | [c1, c2, c3, c4], h =>
    simp only [asciiLower, lblArpa, List.map_cons, List.map_nil, List.cons.injEq, and_true] at h
    obtain ⟨e1, e2, e3, e4⟩ := h
    have p1 := inner_of_lower_letter c1 97 e1 (by omega)
    have p2 := inner_of_lower_letter c2 114 e2 (by omega)
    have p3 := inner_of_lower_letter c3 112 e3 (by omega)
    have p4 := inner_of_lower_letter c4 97 e4 (by omega)
    refine ⟨⟨by simp, by simp, ?_, ?_, ?_⟩, c1, by simp, p1.2.2⟩
    · intro b hb
      simp only [List.mem_cons, List.not_mem_nil, or_false] at hb
      rcases hb with rfl | rfl | rfl | rfl
      · exact p1.1
      · exact p2.1
      · exact p3.1
      · exact p4.1
    · simpa using p1.2.1
    · simpa using p4.2.1
  | [], h => simp [asciiLower, lblArpa] at h
  | [_], h => simp [asciiLower, lblArpa] at h
  | [_, _], h => simp [asciiLower, lblArpa] at h
  | [_, _, _], h => simp [asciiLower, lblArpa] at h
  | _ :: _ :: _ :: _ :: _ :: _, h => simp [asciiLower, lblArpa] at h

theorem labelsOK_of_lower : ∀ (L Lv : List Bytes), Lv.map asciiLower = L ++ [lblArpa] →
    (∀ l ∈ L, 1 ≤ l.length ∧ l.length ≤ 63) → LabelsOK DomainLabel Lv := by
  intro L
  induction L with
  | nil =>
    intro Lv h _
    match Lv, h with
    | [x], h => simp at h; exact tld_of_lower_arpa x h
    | [], h => simp at h
    | _ :: _ :: _, h => simp at h
  | cons l L ih =>
    intro Lv h hl
    match Lv, h with
    | [], h => simp at h
    | x :: Lv', h =>
      simp only [List.map_cons, List.cons_append, List.cons.injEq] at h
      obtain ⟨hx, hrest⟩ := h
      have ihr := ih Lv' hrest (fun y hy => hl y (by simp [hy]))
      match Lv', hrest, ihr with
      | [], hrest, _ => simp at hrest
      | y :: ys, _, ihr =>
        refine ⟨?_, ihr⟩
        have := hl l (by simp)
        rw [← hx, asciiLower_length] at this
        exact this

/-- every ASCII case variant of a dot-joined list of ordinary labels ending in `arpa` is a
valid domain name, under the contract IDNA-1 -/
theorem domain_ok_of_labels (toASCII : Bytes → Option Bytes)
    (hT : ∀ s, (∀ b ∈ s, b < 128) → NoXnLabel s → toASCII s = some s)
    (v : Bytes) (L : List Bytes) (hv : asciiLower v = joinDot (L ++ [lblArpa]))
    (hL : ∀ l ∈ L, 1 ≤ l.length ∧ l.length ≤ 63 ∧ (∀ c ∈ l, c ≠ 46 ∧ c < 128) ∧ l.head? ≠ some 120)
    (hlen : (joinDot (L ++ [lblArpa])).length ≤ 253) :
    validateDomainName toASCII v = .ok none := by
  have hLa : ∀ l ∈ L ++ [lblArpa], (∀ c ∈ l, c ≠ 46 ∧ c < 128) ∧ l.head? ≠ some 120 := by
    intro l hl
    simp only [List.mem_append, List.mem_singleton] at hl
    rcases hl with hl | rfl
    · exact (hL l hl).2.2
    · constructor
      · intro c hc; simp [lblArpa] at hc; omega
      · simp [lblArpa]
  -- the labels of `v`, lower-cased, are `L ++ [arpa]`
  have hsplit : (splitOn 46 v).map asciiLower = L ++ [lblArpa] := by
    rw [← splitOn_asciiLower, hv, splitOn_joinDot _ (by simp) (fun l hl c hc => ((hLa l hl).1 c hc).1)]
  -- `v` is ASCII
  have hascii : ∀ b ∈ v, b < 128 := by
    intro b hb
    apply lowerByte_lt128
    have : lowerByte b ∈ asciiLower v := List.mem_map.2 ⟨b, hb, rfl⟩
    rw [hv] at this
    rcases mem_joinDot _ _ this with h | ⟨l, hl, hc⟩
    · omega
    · exact ((hLa l hl).1 _ hc).2
  -- no label of `v` is an A-label
  have hxn : NoXnLabel v := by
    intro l hl hpre
    have hmem : asciiLower l ∈ L ++ [lblArpa] := by
      rw [← hsplit]; exact List.mem_map.2 ⟨l, hl, rfl⟩
    obtain ⟨t, ht⟩ := hpre
    have := (hLa _ hmem).2
    rw [← ht] at this
    simp at this
  rw [validateDomainName_iff]
  refine ⟨v, hT v hascii hxn, ?_, ?_, ?_⟩
  · have h1 : 1 ≤ (asciiLower v).length := by
      rw [hv]
      cases L with
      | nil => simp [joinDot, lblArpa]
      | cons l L' => rw [joinDot_append _ _ (by simp) (by simp)]; simp; omega
    rwa [asciiLower_length] at h1
  · rw [← asciiLower_length, hv]; exact hlen
  · exact labelsOK_of_lower L _ hsplit (fun l hl => ⟨(hL l hl).1, (hL l hl).2.1⟩)

end GolibsVerif.C04
