/-
C16 — helper definitions and lemmas about the URL heap of `Model/C16.lean`.
-/
import GolibsVerif.Model.C16

namespace GolibsVerif.C16

/-- `h'` keeps every cell of `h` as it was (the call modified no existing `url.URL`). -/
def Heap.Preserves (h h' : Heap) : Prop :=
  ∀ (p : Ptr) (v : URL), h.get p = .ok v → h'.get p = .ok v

theorem alloc_preserves (h : Heap) (u : URL) : h.Preserves (h.alloc u).1 := by
  intro p v hp
  cases p with
  | none => simp [Heap.get] at hp
  | some a =>
    simp only [Heap.get, Heap.alloc] at hp ⊢
    cases hc : h.cells[a]? with
    | none => simp [hc] at hp
    | some w =>
      have hlt : a < h.cells.length := by
        rcases List.getElem?_eq_some_iff.mp hc with ⟨hlt, _⟩
        exact hlt
      rw [List.getElem?_append_left hlt, hc]
      simpa [hc] using hp

theorem redact_some (h : Heap) (p : Ptr) (u : URL) (ui : Userinfo)
    (hp : h.get p = .ok u) (hus : u.user = some ui) :
    redact h p = .ok (h.alloc { u with user := some redactedUserinfo }) := by
  simp [redact, hp, hus, bind, Except.bind, pure, Except.pure]

theorem alloc_get (h : Heap) (u : URL) : (h.alloc u).1.get (h.alloc u).2 = .ok u := by
  simp [Heap.alloc, Heap.get]

end GolibsVerif.C16
