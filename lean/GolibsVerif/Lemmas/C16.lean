/-
C16 — helper definitions and lemmas about the URL heap of `Model/C16.lean`.
-/
import GolibsVerif.Model.C16

namespace GolibsVerif.C16

/-- `h'` keeps every cell of `h` as it was (the call modified no existing `url.URL`). -/
def Heap.Preserves (h h' : Heap) : Prop :=
  ∀ (p : Ptr) (v : URL), h.get p = .ok v → h'.get p = .ok v

theorem alloc_preserves (h : Heap) (u : URL) : h.Preserves (h.alloc u).1 := by
  intro p v hp
  cases p with
  | none => simp [Heap.get] at hp
  | some a =>
    simp only [Heap.get, Heap.alloc] at hp ⊢
    cases hc : h.cells[a]? with
    | none => simp [hc] at hp
    | some w =>
      have hlt : a < h.cells.length := by
        rcases List.getElem?_eq_some_iff.mp hc with ⟨hlt, _⟩
        exact hlt
      rw [List.getElem?_append_left hlt, hc]
      simpa [hc] using hp

theorem redact_some (h : Heap) (p : Ptr) (u : URL) (ui : Userinfo)
    (hp : h.get p = .ok u) (hus : u.user = some ui) :
    redact h p = .ok (h.alloc { u with user := some redactedUserinfo }) := by
  simp [redact, hp, hus, bind, Except.bind, pure, Except.pure]

theorem alloc_get (h : Heap) (u : URL) : (h.alloc u).1.get (h.alloc u).2 = .ok u := by
  simp [Heap.alloc, Heap.get]

/-- `p` points to a `url.URL` that exists in `h` (it was allocated before). -/
def Heap.Allocated (h : Heap) (p : Ptr) : Prop := ∃ v, h.get p = .ok v

theorem allocated_iff (h : Heap) (p : Ptr) :
    h.Allocated p ↔ ∃ a, p = some a ∧ a < h.cells.length := by
  unfold Heap.Allocated
  cases p with
  | none => simp [Heap.get]
  | some a =>
    simp only [Heap.get, Option.some.injEq, exists_eq_left']
    by_cases hlt : a < h.cells.length
    · simp [hlt]
    · simp [hlt]

/-- A store through `q` leaves every other cell as it was and makes no cell. -/
theorem set_get_other (h h' : Heap) (q p : Ptr) (v u : URL) (hs : h.set q v = .ok h')
    (hne : q ≠ p) (hp : h.get p = .ok u) : h'.get p = .ok u := by
  cases q with
  | none => simp [Heap.set] at hs
  | some b =>
    cases p with
    | none => simp [Heap.get] at hp
    | some a =>
      unfold Heap.set at hs
      by_cases hlt : b < h.cells.length
      · simp only [hlt, if_true, Except.ok.injEq] at hs
        subst hs
        have hba : b ≠ a := fun e => hne (by rw [e])
        simpa [Heap.get, List.getElem?_set_ne hba] using hp
      · simp [hlt] at hs

theorem set_length (h h' : Heap) (q : Ptr) (v : URL) (hs : h.set q v = .ok h') :
    h'.cells.length = h.cells.length := by
  cases q with
  | none => simp [Heap.set] at hs
  | some b =>
    unfold Heap.set at hs
    by_cases hlt : b < h.cells.length
    · simp only [hlt, if_true, Except.ok.injEq] at hs
      subst hs
      simp
    · simp [hlt] at hs

/-- no step of `ms` stores through `p` -/
def NoStoreTo (p : Ptr) (ms : List Mut) : Prop := ∀ q v, Mut.store q v ∈ ms → q ≠ p

/-- Stores through other pointers and new allocations leave the cell of `p` as it was, and
the heap only grows. -/
theorem apply_get_other (h h' : Heap) (ms : List Mut) (p : Ptr) (u : URL)
    (ha : h.apply ms = .ok h') (hno : NoStoreTo p ms) (hp : h.get p = .ok u) :
    h'.get p = .ok u ∧ h.cells.length ≤ h'.cells.length := by
  induction ms generalizing h with
  | nil =>
    simp only [Heap.apply, Except.ok.injEq] at ha
    subst ha
    exact ⟨hp, Nat.le_refl _⟩
  | cons m rest ih =>
    have hrest : NoStoreTo p rest := fun q v hm => hno q v (List.mem_cons_of_mem _ hm)
    cases m with
    | store q v =>
      have hq : q ≠ p := hno q v (List.mem_cons_self ..)
      simp only [Heap.apply] at ha
      cases hs : h.set q v with
      | error e => simp [hs] at ha
      | ok h₁ =>
        simp only [hs] at ha
        have := ih h₁ ha hrest (set_get_other h h₁ q p v u hs hq hp)
        exact ⟨this.1, by rw [← set_length h h₁ q v hs]; exact this.2⟩
    | new v =>
      simp only [Heap.apply] at ha
      have := ih (h.alloc v).1 ha hrest (alloc_preserves h v p u hp)
      refine ⟨this.1, Nat.le_trans ?_ this.2⟩
      simp [Heap.alloc]

end GolibsVerif.C16
