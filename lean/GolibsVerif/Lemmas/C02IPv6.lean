import GolibsVerif.Lemmas.C02IPv4

/-! C02, IPv6 part: one-step closed forms of the golibs scanner (`v6FieldsLoop`) and of the
netip scanner (`v6Loop`) on every shape of the remaining input, and the simulation. -/
namespace GolibsVerif.C02
open GolibsVerif.Netutil GolibsVerif.Str GolibsVerif.Netip GolibsVerif

/-- the hex-digit predicate both scanners use -/
abbrev hexP : Nat → Bool := fun c => (hexVal c).isSome

/-- `d` is a complete hex field in front of `r`: 1..4 hex digits, and `r` does not go on with
a hex digit -/
structure FieldOK (d r : Bytes) : Prop where
  hex : ∀ c ∈ d, (hexVal c).isSome = true
  pos : 1 ≤ d.length
  le4 : d.length ≤ 4
  stop : ∀ c, r.head? = some c → hexVal c = none

theorem FieldOK.takeWhile {d r : Bytes} (h : FieldOK d r) : (d ++ r).takeWhile hexP = d := by
  rw [List.takeWhile_append_of_pos (by simpa using h.hex)]
  cases r with
  | nil => simp
  | cons c r' =>
    have := h.stop c rfl
    simp [this]

theorem FieldOK.ne_nil {d r : Bytes} (h : FieldOK d r) : d ≠ [] := by
  intro hd; have := h.pos; simp [hd] at this

theorem mem_takeWhile_sat (p : Nat → Bool) (s : Bytes) : ∀ c ∈ s.takeWhile p, p c = true := by
  induction s with
  | nil => simp
  | cons a t ih =>
    intro c hc
    by_cases ha : p a = true
    · simp [ha] at hc
      rcases hc with rfl | hc
      · exact ha
      · exact ih c hc
    · simp [ha] at hc

theorem head_dropWhile_unsat (p : Nat → Bool) (s : Bytes) :
    ∀ c, (s.dropWhile p).head? = some c → p c = false := by
  induction s with
  | nil => simp
  | cons a t ih =>
    intro c hc
    by_cases ha : p a = true
    · simp [ha] at hc; exact ih c (by simpa using hc)
    · simp [ha] at hc; subst hc; simpa using ha

/-- every input either has no valid leading hex field, or splits as field ++ rest -/
theorem field_cases (s : Bytes) :
    ((s.takeWhile hexP).length = 0 ∨ (s.takeWhile hexP).length > 4) ∨
    ∃ d r, s = d ++ r ∧ FieldOK d r := by
  by_cases h : (s.takeWhile hexP).length = 0 ∨ (s.takeWhile hexP).length > 4
  · exact Or.inl h
  · right
    refine ⟨s.takeWhile hexP, s.dropWhile hexP, (List.takeWhile_append_dropWhile).symm, ?_, by omega, by omega, ?_⟩
    · intro c hc; exact mem_takeWhile_sat hexP s c hc
    · intro c hc
      have := head_dropWhile_unsat hexP s c hc
      simpa using this

/-! ### netip side -/

/-- the checks of `parseIPv6` after its loop -/
def fin6 (st : V6State) : Bool :=
  st.s.isEmpty && (if st.ip.length < 16 then st.ellipsis.isSome else st.ellipsis.isNone)

/-- "netip accepts from loop state `st`" -/
def accN (fuel : Nat) (st : V6State) : Bool :=
  match v6Loop fuel st with
  | none => false
  | some st' => fin6 st'

theorem accN_succ (k : Nat) (st : V6State) (h : st.ip.length < 16) :
    accN (k + 1) st = match v6Step st with
      | .inl none => false
      | .inl (some st') => fin6 st'
      | .inr st' => accN k st' := by
  simp only [accN, v6Loop, h, if_true]
  rcases v6Step st with (_ | _) | _ <;> rfl

theorem N_bad0 (k : Nat) (s : Bytes) (ip : List Nat) (el : Option Nat) (hlen : ip.length < 16)
    (h : (s.takeWhile hexP).length = 0 ∨ (s.takeWhile hexP).length > 4) :
    accN (k + 1) ⟨s, ip, el⟩ = false := by
  rw [accN_succ _ _ hlen]
  unfold v6Step
  rcases h with h | h
  · simp [h]
  · simp only [h, if_true]

/-- the field value netip accumulates (irrelevant for acceptance) -/
def accOf (d : Bytes) : Nat := d.foldl (fun a c => a * 16 + (hexVal c).getD 0) 0

theorem v6Step_field {d r : Bytes} (h : FieldOK d r) (ip : List Nat) (el : Option Nat) :
    v6Step ⟨d ++ r, ip, el⟩ =
      if r.head? = some 46 then
        if el.isNone ∧ ip.length ≠ 12 then .inl none
        else if ip.length + 4 > 16 then .inl none
        else match parseIPv4Fields (d ++ r) with
          | none => .inl none
          | some f => .inl (some ⟨[], ip ++ f, el⟩)
      else
        let ip' := ip ++ [accOf d / 256, accOf d % 256]
        match r with
        | [] => .inl (some ⟨[], ip', el⟩)
        | c :: rest1 =>
          if c ≠ 58 then .inl none
          else match rest1 with
            | [] => .inl none
            | c2 :: rest2 =>
              if c2 = 58 then
                if el.isSome then .inl none
                else if rest2 = [] then .inl (some ⟨[], ip', some (ip.length + 2)⟩)
                else .inr ⟨rest2, ip', some (ip.length + 2)⟩
              else .inr ⟨c2 :: rest2, ip', el⟩ := by
  have h4 : ¬ d.length > 4 := by have := h.le4; omega
  have h0 : ¬ d.length = 0 := by have := h.pos; omega
  unfold v6Step
  simp only [h.takeWhile, h4, h0, if_false, List.drop_left, accOf]
  rcases r with _ | ⟨c, _ | ⟨c2, rest2⟩⟩ <;> rfl

theorem N_whole (k n : Nat) {d : Bytes} (h : FieldOK d []) (ip : List Nat) (el : Option Nat)
    (hip : ip.length = 2 * n) (hn : n < 8) :
    accN (k + 1) ⟨d, ip, el⟩ = (el.isSome == decide (n + 1 < 8)) := by
  rw [accN_succ _ _ (by simp; omega)]
  have := v6Step_field h ip el
  simp only [List.append_nil] at this
  rw [this]
  by_cases hn1 : n + 1 < 8
  · have : 2 * n + 2 < 16 := by omega
    simp [fin6, hip, hn1, this]
  · cases el <;> simp [fin6, hip, hn1] <;> omega

theorem N_dot (k n : Nat) {d r : Bytes} (h : FieldOK d (46 :: r)) (ip : List Nat) (el : Option Nat)
    (hip : ip.length = 2 * n) (hn : n < 8) :
    accN (k + 1) ⟨d ++ 46 :: r, ip, el⟩ =
      (decide (n ≤ 6) && (el.isSome == decide (n < 6)) && (parseIPv4Fields (d ++ 46 :: r)).isSome) := by
  rw [accN_succ _ _ (by simp; omega), v6Step_field h]
  simp only [List.head?_cons, if_true, hip]
  by_cases h1 : el.isNone = true ∧ 2 * n ≠ 12
  · have : (el.isSome == decide (n < 6)) = false ∨ decide (n ≤ 6) = false := by
      obtain ⟨h1, h2⟩ := h1
      cases el with
      | some _ => simp at h1
      | none =>
        by_cases h6 : n < 6
        · left; simp [h6]
        · right; simp; omega
    rcases this with h | h <;> simp [h1, h]
  · simp only [h1, if_false]
    by_cases h2 : 2 * n + 4 > 16
    · have : ¬ n ≤ 6 := by omega
      simp [h2, this]
    · have h6 : n ≤ 6 := by omega
      simp only [h2, if_false]
      cases hp : parseIPv4Fields (d ++ 46 :: r) with
      | none => simp
      | some f =>
        have hf := parseIPv4Fields_len _ _ hp
        simp only [fin6, List.isEmpty_nil, List.length_append, hf, hip, Bool.true_and, Option.isSome_some,
          Bool.and_true, h6, decide_true]
        by_cases h66 : n < 6
        · have : 2 * n + 4 < 16 := by omega
          simp [this, h66]
        · have : ¬ 2 * n + 4 < 16 := by omega
          cases el <;> simp [this, h66]

theorem N_other (k n : Nat) {d r : Bytes} {c : Nat} (h : FieldOK d (c :: r)) (ip : List Nat)
    (el : Option Nat) (hip : ip.length = 2 * n) (hn : n < 8) (h46 : c ≠ 46) (h58 : c ≠ 58) :
    accN (k + 1) ⟨d ++ c :: r, ip, el⟩ = false := by
  rw [accN_succ _ _ (by simp; omega), v6Step_field h]
  simp [h46, h58]

theorem N_colonEnd (k n : Nat) {d : Bytes} (h : FieldOK d [58]) (ip : List Nat)
    (el : Option Nat) (hip : ip.length = 2 * n) (hn : n < 8) :
    accN (k + 1) ⟨d ++ [58], ip, el⟩ = false := by
  rw [accN_succ _ _ (by simp; omega), v6Step_field h]
  simp

theorem N_dcolon_had (k n : Nat) {d r : Bytes} (h : FieldOK d (58 :: 58 :: r)) (ip : List Nat)
    (el : Option Nat) (hip : ip.length = 2 * n) (hn : n < 8) (he : el.isSome = true) :
    accN (k + 1) ⟨d ++ 58 :: 58 :: r, ip, el⟩ = false := by
  rw [accN_succ _ _ (by simp; omega), v6Step_field h]
  simp [he]

theorem N_dcolon_end (k n : Nat) {d : Bytes} (h : FieldOK d [58, 58]) (ip : List Nat)
    (el : Option Nat) (hip : ip.length = 2 * n) (hn : n < 8) (he : el.isSome = false) :
    accN (k + 1) ⟨d ++ [58, 58], ip, el⟩ = decide (n + 1 < 8) := by
  rw [accN_succ _ _ (by simp; omega), v6Step_field h]
  simp [he, fin6, hip]
  omega

theorem N_dcolon (k n : Nat) {d r : Bytes} (h : FieldOK d (58 :: 58 :: r)) (ip : List Nat)
    (el : Option Nat) (hip : ip.length = 2 * n) (hn : n < 8) (he : el.isSome = false)
    (hr : r ≠ []) :
    ∃ ip' el', ip'.length = 2 * (n + 1) ∧ el'.isSome = true ∧
      accN (k + 1) ⟨d ++ 58 :: 58 :: r, ip, el⟩ = accN k ⟨r, ip', el'⟩ := by
  refine ⟨ip ++ [accOf d / 256, accOf d % 256], some (ip.length + 2), by simp; omega, rfl, ?_⟩
  rw [accN_succ _ _ (by simp; omega), v6Step_field h]
  simp [he, hr]

theorem N_colon (k n : Nat) {d r : Bytes} {c2 : Nat} (h : FieldOK d (58 :: c2 :: r)) (ip : List Nat)
    (el : Option Nat) (hip : ip.length = 2 * n) (hn : n < 8) (hc2 : c2 ≠ 58) :
    ∃ ip', ip'.length = 2 * (n + 1) ∧
      accN (k + 1) ⟨d ++ 58 :: c2 :: r, ip, el⟩ = accN k ⟨c2 :: r, ip', el⟩ := by
  refine ⟨ip ++ [accOf d / 256, accOf d % 256], by simp; omega, ?_⟩
  rw [accN_succ _ _ (by simp; omega), v6Step_field h]
  simp [hc2]

/-! ### golibs side -/

theorem countAux_eq (s : Bytes) (k : Nat) (hk : k ≤ 4) :
    countIPv6FieldRunesAux s k =
      if k + (s.takeWhile hexP).length > 4 then 0 else k + (s.takeWhile hexP).length := by
  induction s generalizing k with
  | nil => simp [countIPv6FieldRunesAux]; omega
  | cons c t ih =>
    unfold countIPv6FieldRunesAux
    cases hv : hexVal c with
    | none => simp [hv]; omega
    | some v =>
      have hp : hexP c = true := by simp [hexP, hv]
      simp only [Option.isNone_some, Bool.false_eq_true, if_false, List.takeWhile_cons,
        hp, if_true, List.length_cons]
      by_cases h3 : k > 3
      · have : k + ((t.takeWhile hexP).length + 1) > 4 := by omega
        simp [h3, this]
      · simp only [h3, if_false]
        rw [ih (k + 1) (by omega)]
        simp only [Nat.add_assoc, Nat.add_comm 1]

theorem count_bad (s : Bytes) (h : (s.takeWhile hexP).length = 0 ∨ (s.takeWhile hexP).length > 4) :
    countIPv6FieldRunes s = 0 := by
  unfold countIPv6FieldRunes
  rw [countAux_eq _ _ (by omega)]
  rcases h with h | h
  · simp [h]
  · simp [h]

theorem count_field {d r : Bytes} (h : FieldOK d r) : countIPv6FieldRunes (d ++ r) = d.length := by
  unfold countIPv6FieldRunes
  rw [countAux_eq _ _ (by omega), h.takeWhile]
  have := h.le4
  simp; omega

theorem idx_append_len (d r : Bytes) (c : Nat) : GoM.idx (d ++ c :: r) (d.length : Int) = .ok c := by
  simp [GoM.idx]

theorem sliceFrom_append_len (d r : Bytes) : GoM.sliceFrom (d ++ r) (d.length : Int) = .ok r := by
  unfold GoM.sliceFrom
  rw [GoM.slice_ofNat _ _ _ (by simp) (Nat.le_refl _)]
  simp

theorem trim_bad (s : Bytes) (n : Nat) (e : Bool)
    (h : (s.takeWhile hexP).length = 0 ∨ (s.takeWhile hexP).length > 4) :
    trimValidIPv6Field s n e = .ok ([], false) := by
  simp [trimValidIPv6Field, count_bad s h, pure, Except.pure]

theorem trim_whole {d : Bytes} (h : FieldOK d []) (n : Nat) (e : Bool) :
    trimValidIPv6Field d n e = .ok ([], e == decide (n + 1 < 8)) := by
  have hc := count_field h
  simp only [List.append_nil] at hc
  have h0 : d.length ≠ 0 := by have := h.pos; omega
  simp [trimValidIPv6Field, hc, h0, maxIPv6FieldsNum, pure, Except.pure]
  rfl

theorem trim_dot {d r : Bytes} (h : FieldOK d (46 :: r)) (n : Nat) (e : Bool) :
    trimValidIPv6Field (d ++ 46 :: r) n e =
      .ok ([], decide (n ≤ 6) && (e == decide (n < 6)) && (parseIPv4Fields (d ++ 46 :: r)).isSome) := by
  have hc := count_field h
  have h0 : d.length ≠ 0 := by have := h.pos; omega
  have hl : ¬ d.length = (d ++ 46 :: r).length := by simp
  unfold trimValidIPv6Field
  simp only [hc, h0, hl, if_false, bind, Except.bind, pure, Except.pure, idx_append_len, if_true,
    maxIPv6FieldsNum, isValidIPv4String_eq]
  cases e <;> by_cases h6 : n < 6 <;> by_cases h66 : n ≤ 6 <;> simp [h6, h66] <;> omega

theorem trim_other {d r : Bytes} {c : Nat} (h : FieldOK d (c :: r)) (n : Nat) (e : Bool)
    (h46 : c ≠ 46) : trimValidIPv6Field (d ++ c :: r) n e = .ok (c :: r, true) := by
  have hc := count_field h
  have h0 : d.length ≠ 0 := by have := h.pos; omega
  have hl : ¬ d.length = (d ++ c :: r).length := by simp
  unfold trimValidIPv6Field
  simp only [hc, h0, hl, if_false, bind, Except.bind, pure, Except.pure, idx_append_len, h46,
    sliceFrom_append_len]

theorem G_nil (f n : Nat) (e : Bool) : v6FieldsLoop f [] n e = .ok (e == decide (n < 8)) := by
  cases f <;> simp [v6FieldsLoop, maxIPv6FieldsNum, pure, Except.pure] <;> rfl

theorem G_bad0 (f n : Nat) (e : Bool) (s : Bytes) (hs : s ≠ [])
    (h : (s.takeWhile hexP).length = 0 ∨ (s.takeWhile hexP).length > 4) :
    v6FieldsLoop (f + 1) s n e = .ok false := by
  simp [v6FieldsLoop, hs, trim_bad s n e h, bind, Except.bind, pure, Except.pure]

theorem G_whole (f n : Nat) (e : Bool) {d : Bytes} (h : FieldOK d []) :
    v6FieldsLoop (f + 1) d n e = .ok (e == decide (n + 1 < 8)) := by
  simp only [v6FieldsLoop, h.ne_nil, if_false, trim_whole h, bind, Except.bind, pure, Except.pure]
  cases (e == decide (n + 1 < 8)) <;> simp

theorem G_dot (f n : Nat) (e : Bool) {d r : Bytes} (h : FieldOK d (46 :: r)) :
    v6FieldsLoop (f + 1) (d ++ 46 :: r) n e =
      .ok (decide (n ≤ 6) && (e == decide (n < 6)) && (parseIPv4Fields (d ++ 46 :: r)).isSome) := by
  have hne : d ++ 46 :: r ≠ [] := by simp
  simp only [v6FieldsLoop, hne, if_false, trim_dot h, bind, Except.bind, pure, Except.pure]
  cases (decide (n ≤ 6) && (e == decide (n < 6)) && (parseIPv4Fields (d ++ 46 :: r)).isSome) <;> simp

theorem G_other (f n : Nat) (e : Bool) {d r : Bytes} {c : Nat} (h : FieldOK d (c :: r))
    (h46 : c ≠ 46) (h58 : c ≠ 58) : v6FieldsLoop (f + 1) (d ++ c :: r) n e = .ok false := by
  have hne : d ++ c :: r ≠ [] := by simp
  simp [v6FieldsLoop, hne, trim_other h n e h46, countIPv6SepRunes, h58, bind, Except.bind, pure,
    Except.pure]

theorem G_colonEnd (f n : Nat) (e : Bool) {d : Bytes} (h : FieldOK d [58]) :
    v6FieldsLoop (f + 1) (d ++ [58]) n e = .ok false := by
  have hne : d ++ [58] ≠ [] := by simp
  simp [v6FieldsLoop, hne, trim_other h n e (by decide), countIPv6SepRunes, bind, Except.bind, pure,
    Except.pure]

theorem idx_one (a b : Nat) (r : Bytes) : GoM.idx (a :: b :: r) 1 = .ok b := by
  simp [GoM.idx]

theorem sliceFrom_two (a b : Nat) (r : Bytes) : GoM.sliceFrom (a :: b :: r) 2 = .ok r := by
  have := sliceFrom_append_len [a, b] r
  simpa using this

theorem G_dcolon (f n : Nat) (e : Bool) {d r : Bytes} (h : FieldOK d (58 :: 58 :: r)) :
    v6FieldsLoop (f + 1) (d ++ 58 :: 58 :: r) n e =
      if e then .ok false else v6FieldsLoop f r (n + 1) true := by
  have hne : d ++ 58 :: 58 :: r ≠ [] := by simp
  cases e <;>
  simp [v6FieldsLoop, hne, trim_other h n _ (by decide), countIPv6SepRunes, bind, Except.bind, pure,
    Except.pure, sliceFrom_two, idx_one]

theorem G_colon (f n : Nat) (e : Bool) {d r : Bytes} {c2 : Nat} (h : FieldOK d (58 :: c2 :: r))
    (hc2 : c2 ≠ 58) :
    v6FieldsLoop (f + 1) (d ++ 58 :: c2 :: r) n e = v6FieldsLoop f (c2 :: r) (n + 1) e := by
  have hne : d ++ 58 :: c2 :: r ≠ [] := by simp
  simp [v6FieldsLoop, hne, trim_other h n e (by decide), countIPv6SepRunes, bind, Except.bind, pure,
    Except.pure, hc2, GoM.sliceFrom_one_cons, idx_one]

/-! ### the simulation -/

/-- From any pair of related loop states — same remaining input `s ≠ ""`, golibs
`fieldsNum = n` ↔ netip `i = 2·n`, golibs `hasEllipsis` ↔ netip `ellipsis >= 0` — golibs
returns exactly "netip's loop and final checks succeed". -/
theorem sim (f : Nat) : ∀ (s : Bytes) (n : Nat) (ip : List Nat) (el : Option Nat),
    s ≠ [] → ip.length = 2 * n → n + f = 8 →
    v6FieldsLoop f s n el.isSome = .ok (accN (f + 1) ⟨s, ip, el⟩) := by
  induction f with
  | zero =>
    intro s n ip el hs hip hn
    have h16 : ¬ ip.length < 16 := by omega
    simp [v6FieldsLoop, accN, v6Loop, h16, fin6, hs, pure, Except.pure]
  | succ f ih =>
    intro s n ip el hs hip hn
    have hn8 : n < 8 := by omega
    have hlen : ip.length < 16 := by omega
    rcases field_cases s with hbad | ⟨d, r, rfl, h⟩
    · rw [G_bad0 f n _ s hs hbad, N_bad0 _ s ip el hlen hbad]
    · match r, h with
      | [], h =>
        simp only [List.append_nil]
        rw [G_whole f n _ h, N_whole _ n h ip el hip hn8]
      | c :: r', h =>
        by_cases h46 : c = 46
        · subst h46
          rw [G_dot f n _ h, N_dot _ n h ip el hip hn8]
        · by_cases h58 : c = 58
          · subst h58
            match r', h with
            | [], h => rw [G_colonEnd f n _ h, N_colonEnd _ n h ip el hip hn8]
            | c2 :: r2, h =>
              by_cases hc2 : c2 = 58
              · subst hc2
                rw [G_dcolon f n _ h]
                cases he : el.isSome with
                | true =>
                  rw [N_dcolon_had _ n h ip el hip hn8 he]; simp
                | false =>
                  simp only [Bool.false_eq_true, if_false]
                  by_cases hr2 : r2 = []
                  · subst hr2
                    rw [G_nil, N_dcolon_end _ n h ip el hip hn8 he]
                    simp
                  · obtain ⟨ip', el', hip', hel', hacc⟩ := N_dcolon (f + 1) n h ip el hip hn8 he hr2
                    rw [hacc, ← hel']
                    exact ih r2 (n + 1) ip' el' hr2 hip' (by omega)
              · rw [G_colon f n _ h hc2]
                obtain ⟨ip', hip', hacc⟩ := N_colon (f + 1) n h ip el hip hn8 hc2
                rw [hacc]
                exact ih (c2 :: r2) (n + 1) ip' el (by simp) hip' (by omega)
          · rw [G_other f n _ h h46 h58, N_other _ n h ip el hip hn8 h46 h58]

/-! ### the whole functions -/

/-- `parseIPv6` after the zone has been split off: does the zone-free part parse? -/
def v6core (s : Bytes) : Bool :=
  let lead : Bool := match s with | 58 :: 58 :: _ => true | _ => false
  let s' := if lead then s.drop 2 else s
  if lead ∧ s' = [] then true
  else accN 9 ⟨s', [], if lead then some 0 else none⟩

theorem hasPrefix_cc (s : Bytes) :
    hasPrefix s [58, 58] = true ↔ ∃ t, s = 58 :: 58 :: t := by
  match s with
  | [] => simp [hasPrefix]
  | [a] => simp [hasPrefix, List.isPrefixOf]
  | a :: b :: t =>
    simp only [hasPrefix, List.isPrefixOf, Bool.and_true, Bool.and_eq_true, beq_iff_eq]
    constructor
    · rintro ⟨h1, h2⟩; exact ⟨t, by rw [← h1, ← h2]⟩
    · rintro ⟨t', h⟩; injection h with h1 h; injection h with h2 h; exact ⟨h1.symm, h2.symm⟩

theorem lead_eq (s : Bytes) :
    (match s with | 58 :: 58 :: _ => true | _ => false) = hasPrefix s [58, 58] := by
  by_cases hp : hasPrefix s [58, 58] = true
  · obtain ⟨t, rfl⟩ := (hasPrefix_cc s).1 hp
    rw [hp]; rfl
  · have hp' : hasPrefix s [58, 58] = false := by simpa using hp
    rw [hp']
    split
    · exact absurd ((hasPrefix_cc _).2 ⟨_, rfl⟩) hp
    · rfl

theorem isValidIPv6String_eq_core (s : Bytes) : isValidIPv6String s = .ok (v6core s) := by
  unfold isValidIPv6String v6core
  rw [lead_eq]
  by_cases hp : hasPrefix s [58, 58] = true
  · obtain ⟨t, rfl⟩ := (hasPrefix_cc s).1 hp
    simp only [hp, if_true, sliceFrom_two, bind, Except.bind, maxIPv6FieldsNum, List.drop_succ_cons,
      List.drop_zero, true_and]
    by_cases ht : t = []
    · subst ht; simp [G_nil]
    · simp only [ht, if_false]
      exact sim 8 t 0 [] (some 0) ht rfl rfl
  · simp only [hp, Bool.false_eq_true, if_false, bind, Except.bind, pure, Except.pure, maxIPv6FieldsNum, false_and]
    by_cases hs : s = []
    · subst hs
      rw [G_nil, N_bad0 _ _ _ _ (by simp) (by simp)]
      simp
    · exact sim 8 s 0 [] none hs rfl rfl

/-! ### `parseIPv6` in terms of `v6core` and the zone split -/

/-- the part of `parseIPv6` after the zone split (a copy of the model text, tied by `rfl`) -/
def parseIPv6Split (sz : Option (Bytes × Bytes)) : Option Addr :=
  match sz with
  | none => none
  | some (s, zone) =>
    let lead : Bool := match s with | 58 :: 58 :: _ => true | _ => false
    let s' := if lead then s.drop 2 else s
    if lead ∧ s' = [] then some (.v6 (List.replicate 16 0) zone)
    else
      match v6Loop 9 { s := s', ip := [], ellipsis := if lead then some 0 else none } with
      | none => none
      | some st =>
        if st.s ≠ [] then none
        else
          let i := st.ip.length
          if i < 16 then
            match st.ellipsis with
            | none => none
            | some e => some (.v6 (st.ip.take e ++ List.replicate (16 - i) 0 ++ st.ip.drop e) zone)
          else if st.ellipsis.isSome then none
          else some (.v6 st.ip zone)

theorem parseIPv6_eq_split (input : Bytes) :
    parseIPv6 input = parseIPv6Split
      (if indexByte input 37 = -1 then some (input, [])
       else if input.drop ((indexByte input 37).toNat + 1) = [] then none
       else some (input.take (indexByte input 37).toNat, input.drop ((indexByte input 37).toNat + 1))) := rfl

theorem parseIPv6Split_isSome (s zone : Bytes) :
    (parseIPv6Split (some (s, zone))).isSome = v6core s := by
  unfold parseIPv6Split v6core
  simp only []
  generalize (match s with | 58 :: 58 :: _ => true | _ => false) = lead
  by_cases h1 : lead = true ∧ (if lead = true then s.drop 2 else s) = []
  · obtain ⟨hl, hs'⟩ := h1
    subst hl
    simp only [if_true] at hs'
    simp [hs']
  · simp only [h1, if_false]
    cases hv : v6Loop 9 { s := if lead = true then s.drop 2 else s, ip := [], ellipsis := if lead = true then some 0 else none } with
    | none => simp [accN, hv]
    | some st =>
      simp only [accN, hv, fin6]
      by_cases hs : st.s = []
      · by_cases hl : st.ip.length < 16
        · cases he : st.ellipsis <;> simp [hs, hl]
        · cases he : st.ellipsis <;> simp [hs, hl]
      · simp [hs]

/-- a successful `parseIPv6` is never an IPv4 address -/
theorem parseIPv6Split_is6 (sz : Option (Bytes × Bytes)) (a : Addr) (h : parseIPv6Split sz = some a) :
    a.is6 = true := by
  match sz with
  | none => simp [parseIPv6Split] at h
  | some (s, zone) =>
    unfold parseIPv6Split at h
    simp only [] at h
    generalize (match s with | 58 :: 58 :: _ => true | _ => false) = lead at h
    by_cases h1 : lead = true ∧ (if lead = true then s.drop 2 else s) = []
    · rw [if_pos h1] at h; injection h with h; subst h; rfl
    · rw [if_neg h1] at h
      cases hv : v6Loop 9 { s := if lead = true then s.drop 2 else s, ip := [], ellipsis := if lead = true then some 0 else none } with
      | none => rw [hv] at h; simp at h
      | some st =>
        rw [hv] at h
        simp only [] at h
        by_cases hs : st.s ≠ []
        · rw [if_pos hs] at h; simp at h
        · rw [if_neg hs] at h
          by_cases hl : st.ip.length < 16
          · rw [if_pos hl] at h
            cases he : st.ellipsis with
            | none => rw [he] at h; simp at h
            | some e => rw [he] at h; simp only [] at h; injection h with h; subst h; rfl
          · rw [if_neg hl] at h
            by_cases he : st.ellipsis.isSome = true
            · rw [if_pos he] at h; simp at h
            · rw [if_neg he] at h; injection h with h; subst h; rfl

end GolibsVerif.C02
