/-
C14 — locality of `time.ParseDuration` (model): a text `s` that ends with a unit byte `e`
(neither `.` nor a digit) and the same text followed by a further group `z` (which begins
with a digit) are parsed alike up to the end of `s`.  From this: appending `0s` after a final
`m`, or `0m` after a final `h`, does not change the result — the two "drop" clauses of the
contract DUR-RT, for every text.
-/
import GolibsVerif.Model.C14Parse
import GolibsVerif.Lemmas.C14ParseLoop

namespace GolibsVerif.C14

/-- `e` can only be part of a unit: it is neither `.` nor a decimal digit -/
def IsUnitByte (e : Nat) : Prop := ¬ (e = 46 ∨ (48 ≤ e ∧ e ≤ 57))

/-! ### `leadingInt` -/

theorem leadingInt_local (e : Nat) (he : IsUnitByte e) (z : Bytes) : ∀ (pre : Bytes) (x : Nat),
    leadingInt (pre ++ e :: z) x = (leadingInt (pre ++ [e]) x).map (fun vr => (vr.1, vr.2 ++ z)) := by
  unfold IsUnitByte at he
  intro pre
  induction pre with
  | nil =>
    intro x
    have h1 : e < 48 ∨ e > 57 := by omega
    simp [leadingInt, h1]
  | cons c p ih =>
    intro x
    simp only [List.cons_append, leadingInt]
    by_cases h1 : c < 48 ∨ c > 57
    · simp [h1]
    · simp only [h1, if_false]
      by_cases h2 : x > two63 / 10
      · simp [h2]
      · simp only [h2, if_false]
        by_cases h3 : x * 10 + c - 48 > two63
        · simp [h3]
        · simp only [h3, if_false]
          exact ih _

theorem leadingInt_rest (e : Nat) (he : IsUnitByte e) : ∀ (pre : Bytes) (x v : Nat) (r : Bytes),
    leadingInt (pre ++ [e]) x = some (v, r) → ∃ r', r = r' ++ [e] := by
  unfold IsUnitByte at he
  intro pre
  induction pre with
  | nil =>
    intro x v r h
    have h1 : e < 48 ∨ e > 57 := by omega
    simp [leadingInt, h1] at h
    exact ⟨[], by simp [h.2]⟩
  | cons c p ih =>
    intro x v r h
    simp only [List.cons_append, leadingInt] at h
    by_cases h1 : c < 48 ∨ c > 57
    · simp only [h1, if_true, Option.some.injEq, Prod.mk.injEq] at h
      exact ⟨c :: p, by rw [← h.2]; rfl⟩
    · simp only [h1, if_false] at h
      by_cases h2 : x > two63 / 10
      · simp [h2] at h
      · simp only [h2, if_false] at h
        by_cases h3 : x * 10 + c - 48 > two63
        · simp [h3] at h
        · simp only [h3, if_false] at h
          exact ih _ _ _ h

/-! ### `leadingFraction` -/

theorem leadingFraction_local (e : Nat) (he : IsUnitByte e) (z : Bytes) :
    ∀ (pre : Bytes) (x : Nat) (sc : F64) (ov : Bool),
    leadingFraction (pre ++ e :: z) x sc ov =
      ((leadingFraction (pre ++ [e]) x sc ov).1, (leadingFraction (pre ++ [e]) x sc ov).2.1,
        (leadingFraction (pre ++ [e]) x sc ov).2.2 ++ z) := by
  unfold IsUnitByte at he
  intro pre
  induction pre with
  | nil =>
    intro x sc ov
    have h1 : e < 48 ∨ e > 57 := by omega
    simp [leadingFraction, h1]
  | cons c p ih =>
    intro x sc ov
    simp only [List.cons_append, leadingFraction]
    by_cases h1 : c < 48 ∨ c > 57
    · simp [h1]
    · simp only [h1, if_false]
      split
      · exact ih _ _ _
      · split
        · exact ih _ _ _
        · split
          · exact ih _ _ _
          · exact ih _ _ _

theorem leadingFraction_rest (e : Nat) (he : IsUnitByte e) :
    ∀ (pre : Bytes) (x : Nat) (sc : F64) (ov : Bool),
    ∃ r', (leadingFraction (pre ++ [e]) x sc ov).2.2 = r' ++ [e] := by
  unfold IsUnitByte at he
  intro pre
  induction pre with
  | nil =>
    intro x sc ov
    have h1 : e < 48 ∨ e > 57 := by omega
    exact ⟨[], by simp [leadingFraction, h1]⟩
  | cons c p ih =>
    intro x sc ov
    simp only [List.cons_append, leadingFraction]
    by_cases h1 : c < 48 ∨ c > 57
    · exact ⟨c :: p, by simp [h1]⟩
    · simp only [h1, if_false]
      split
      · exact ih _ _ _
      · split
        · exact ih _ _ _
        · split
          · exact ih _ _ _
          · exact ih _ _ _

/-! ### the optional fraction -/

theorem bne_add_right (a b k : Nat) : (a + k != b + k) = (a != b) := by
  rw [Bool.eq_iff_iff]; simp

theorem parseFrac_local (e : Nat) (he : IsUnitByte e) (z : Bytes) (pre : Bytes) :
    parseFrac (pre ++ e :: z) =
      ((parseFrac (pre ++ [e])).1, (parseFrac (pre ++ [e])).2.1, (parseFrac (pre ++ [e])).2.2.1,
        (parseFrac (pre ++ [e])).2.2.2 ++ z) := by
  have he' := he
  unfold IsUnitByte at he'
  cases pre with
  | nil =>
    have h1 : ¬ e = 46 := by omega
    simp [parseFrac, h1]
  | cons c p =>
    simp only [List.cons_append, parseFrac]
    by_cases h : c = 46
    · simp only [h, if_true]
      rw [leadingFraction_local e he z p]
      have hb : ((p ++ e :: z).length != ((leadingFraction (p ++ [e]) 0 F64.one false).2.2 ++ z).length)
          = ((p ++ [e]).length != (leadingFraction (p ++ [e]) 0 F64.one false).2.2.length) := by
        simp only [List.length_append, List.length_cons, List.length_nil]
        rw [← bne_add_right (p.length + (0 + 1)) _ z.length]
        congr 1
        omega
      simp only [hb]
    · simp [h]

theorem parseFrac_rest (e : Nat) (he : IsUnitByte e) (pre : Bytes) :
    ∃ r', (parseFrac (pre ++ [e])).2.2.2 = r' ++ [e] := by
  cases pre with
  | nil =>
    unfold IsUnitByte at he
    have h1 : ¬ e = 46 := by omega
    exact ⟨[], by simp [parseFrac, h1]⟩
  | cons c p =>
    simp only [List.cons_append, parseFrac]
    by_cases h : c = 46
    · simp only [h, if_true]
      exact leadingFraction_rest e he p _ _ _
    · exact ⟨c :: p, by simp [h]⟩

/-! ### the unit -/

theorem unitSpan_local (z : Bytes) (hz : NumHead z) : ∀ s : Bytes,
    unitSpan (s ++ z) = ((unitSpan s).1, (unitSpan s).2 ++ z) := by
  intro s
  induction s with
  | nil =>
    cases z with
    | nil => rfl
    | cons c t => have := hz c t rfl; simp [unitSpan, this]
  | cons c t ih =>
    simp only [List.cons_append, unitSpan]
    by_cases h : c = 46 ∨ (48 ≤ c ∧ c ≤ 57)
    · simp [h]
    · simp only [h, if_false, ih]

theorem unitSpan_rest (e : Nat) : ∀ pre : Bytes,
    (unitSpan (pre ++ [e])).2 = [] ∨ ∃ r', (unitSpan (pre ++ [e])).2 = r' ++ [e] := by
  intro pre
  induction pre with
  | nil =>
    simp only [List.nil_append, unitSpan]
    by_cases h : e = 46 ∨ (48 ≤ e ∧ e ≤ 57)
    · right; exact ⟨[], by simp [h]⟩
    · left; simp [h]
  | cons c p ih =>
    simp only [List.cons_append, unitSpan]
    by_cases h : c = 46 ∨ (48 ≤ c ∧ c ≤ 57)
    · right; exact ⟨c :: p, by simp [h]⟩
    · simp only [h, if_false]; exact ih

theorem parseUnit_local (z : Bytes) (hz : NumHead z) (v f : Nat) (sc : F64) (s : Bytes) :
    parseUnit v f sc (s ++ z) = (parseUnit v f sc s).map (fun vr => (vr.1, vr.2 ++ z)) := by
  unfold parseUnit
  simp only [unitSpan_local z hz s]
  by_cases h1 : (unitSpan s).1 = []
  · simp [h1]
  · simp only [h1, if_false]
    cases hu : unitOf (unitSpan s).1 with
    | none => simp
    | some unit =>
      simp only []
      split
      · simp
      · split
        · split
          · simp
          · simp
        · simp

theorem parseUnit_rest (e : Nat) (v f : Nat) (sc : F64) (pre : Bytes) (v' : Nat) (r : Bytes)
    (h : parseUnit v f sc (pre ++ [e]) = some (v', r)) : r = [] ∨ ∃ r', r = r' ++ [e] := by
  unfold parseUnit at h
  have key : r = (unitSpan (pre ++ [e])).2 := by
    by_cases h1 : (unitSpan (pre ++ [e])).1 = []
    · simp [h1] at h
    · simp only [h1, if_false] at h
      cases hu : unitOf (unitSpan (pre ++ [e])).1 with
      | none => simp [hu] at h
      | some unit =>
        simp only [hu] at h
        split at h
        · cases h
        · split at h
          · split at h
            · cases h
            · simp only [Option.some.injEq, Prod.mk.injEq] at h; exact h.2.symm
          · simp only [Option.some.injEq, Prod.mk.injEq] at h; exact h.2.symm
  rw [key]; exact unitSpan_rest e pre

/-! ### one round -/

theorem parseGroup_local (e : Nat) (he : IsUnitByte e) (z : Bytes) (hz : NumHead z) (pre : Bytes) :
    parseGroup (pre ++ e :: z) = (parseGroup (pre ++ [e])).map (fun vr => (vr.1, vr.2 ++ z)) := by
  -- both texts begin with the same byte
  have hs1 : ∃ c t1 t2, pre ++ [e] = c :: t1 ∧ pre ++ e :: z = c :: t2 := by
    cases pre with
    | nil => exact ⟨e, [], z, rfl, rfl⟩
    | cons c' p => exact ⟨c', p ++ [e], p ++ e :: z, rfl, rfl⟩
  obtain ⟨c, t1, t2, e1, e2⟩ := hs1
  have hL := leadingInt_local e he z pre 0
  rw [e2] at hL ⊢
  unfold parseGroup
  rw [e1] at hL ⊢
  by_cases h0 : ¬ (c = 46 ∨ (48 ≤ c ∧ c ≤ 57))
  · simp [h0]
  · simp only [h0, if_false]
    cases hI : leadingInt (c :: t1) 0 with
    | none => rw [hI] at hL; simp [hL]
    | some vr =>
      obtain ⟨v, r⟩ := vr
      rw [hI] at hL
      simp only [Option.map] at hL
      obtain ⟨r', rfl⟩ := leadingInt_rest e he pre 0 v r (by rw [e1]; exact hI)
      simp only [hL]
      have hlen : ((c :: t2).length != (r' ++ [e] ++ z).length) = ((c :: t1).length != (r' ++ [e]).length) := by
        have l1 := congrArg List.length e1
        have l2 := congrArg List.length e2
        simp only [List.length_append, List.length_cons, List.length_nil] at l1 l2 ⊢
        have := bne_add_right (t1.length + 1) (r'.length + 1) z.length
        rw [← this]
        congr 1 <;> omega
      have hfr : r' ++ [e] ++ z = r' ++ e :: z := by simp
      rw [hlen, hfr, parseFrac_local e he z r']
      simp only []
      split
      · rfl
      · obtain ⟨r'', er⟩ := parseFrac_rest e he r'
        rw [er]
        exact parseUnit_local z hz _ _ _ _

theorem parseGroup_rest (e : Nat) (he : IsUnitByte e) (pre : Bytes) (v : Nat) (r : Bytes)
    (h : parseGroup (pre ++ [e]) = some (v, r)) : r = [] ∨ ∃ r', r = r' ++ [e] := by
  obtain ⟨c, t1, e1⟩ : ∃ c t1, pre ++ [e] = c :: t1 := by
    cases pre with
    | nil => exact ⟨e, [], rfl⟩
    | cons c p => exact ⟨c, p ++ [e], rfl⟩
  have e1' := e1
  rw [e1] at h
  unfold parseGroup at h
  by_cases h0 : ¬ (c = 46 ∨ (48 ≤ c ∧ c ≤ 57))
  · simp [h0] at h
  · simp only [h0, if_false] at h
    cases hI : leadingInt (c :: t1) 0 with
    | none => simp [hI] at h
    | some vr =>
      obtain ⟨v1, r1⟩ := vr
      simp only [hI] at h
      obtain ⟨r', rfl⟩ := leadingInt_rest e he pre 0 v1 r1 (by rw [e1]; exact hI)
      split at h
      · cases h
      · obtain ⟨r'', er⟩ := parseFrac_rest e he r'
        rw [er] at h
        exact parseUnit_rest e _ _ _ _ _ _ h

end GolibsVerif.C14
