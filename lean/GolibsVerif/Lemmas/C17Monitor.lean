/-
C17 — the monitor (`mstep`, `acceptsOnce`) simulates the OnceConstructor transition system:
every observable trace of the LTS is accepted.  Hence an observed history that the acceptor
rejects is a behaviour the model cannot exhibit.
-/
import GolibsVerif.Model.C17
import GolibsVerif.Lemmas.C17

namespace GolibsVerif.C17

variable {K V : Type} [DecidableEq K]

def absTh : PC K V → MTh K
  | .idle => .fresh
  | .done _ _ => .returned
  | .load k | .mk k | .send k | .los k | .recv k _ | .construct k _ | .inCtor k _ | .close k _
  | .readCached k _ | .panicked k => .inGet k

def PC.isInCtor : PC K V → Bool
  | .inCtor .. => true
  | _ => false

def PhOk (s : OState K V) (k : K) : MPh V → Prop
  | .notStarted => s.ctorCalls k = 0
  | .running => ∃ t l, s.pc t = .inCtor k l
  | .built v => ∃ l, s.stored k = some l ∧ s.cached l = some v

structure Sim (s : OState K V) (m : MState K V) : Prop where
  th : ∀ t, m.th t = absTh (s.pc t)
  ph : ∀ k, PhOk s k (m.ph k)
  called : ∀ t k, (s.pc t).key = some k → m.called k = true

omit [DecidableEq K] in
theorem sim_init : Sim (OState.init : OState K V) (MState.init : MState K V) := by
  constructor <;> simp [OState.init, MState.init, absTh, PhOk, PC.key]

/-- silent steps that only move one program counter inside `Get` (not into / out of the
constructor) and leave map, cached values and construction counts alone -/
theorem sim_tau_pc {s s' : OState K V} {m : MState K V} {t : Nat} {p' : PC K V} (hs : Sim s m)
    (hpc : s'.pc = upd s.pc t p') (hst : s'.stored = s.stored) (hca : s'.cached = s.cached)
    (hcc : s'.ctorCalls = s.ctorCalls) (hab : absTh p' = absTh (s.pc t)) (hkey : p'.key = (s.pc t).key)
    (hold : (s.pc t).isInCtor = false) : Sim s' m := by
  constructor
  · intro t'
    rw [hpc, upd_apply]
    split
    · rename_i h; subst h; rw [hab]; exact hs.th t'
    · exact hs.th t'
  · intro k
    have := hs.ph k
    cases hm : m.ph k with
    | notStarted => rw [hm] at this; simpa [PhOk, hcc] using this
    | running =>
      rw [hm] at this
      obtain ⟨w, l, hw⟩ := this
      refine ⟨w, l, ?_⟩
      rw [hpc, upd_apply]
      split
      · rename_i h; subst h; simp [hw, PC.isInCtor] at hold
      · exact hw
    | built v => rw [hm] at this; simpa [PhOk, hst, hca] using this
  · intro t' k hk
    rw [hpc, upd_apply] at hk
    split at hk
    · rename_i h; subst h; rw [hkey] at hk; exact hs.called t' k hk
    · exact hs.called t' k hk

theorem sim_step [DecidableEq V] {s s' : OState K V} {m : MState K V} {t : Nat} {i : In K V}
    {e : Option (Ev K V)} (inv : Inv s) (hs : Sim s m) (hn : next s t i = some (s', e)) :
    match e with
    | none => Sim s' m
    | some ev => ∃ m', mstep m ev = some m' ∧ Sim s' m' := by
  cases hpc : s.pc t with
  | idle =>
    cases i with
    | call k =>
      simp only [next, hpc] at hn
      -- call
      simp only [Option.some.injEq, Prod.mk.injEq] at hn
      obtain ⟨rfl, rfl⟩ := hn
      have hth := hs.th t
      rw [hpc] at hth
      refine ⟨_, by simp only [mstep, hth]; rfl, ?_⟩
      constructor
      · intro t'
        simp only [upd_apply]
        split
        · simp [absTh]
        · exact hs.th t'
      · intro k'
        have := hs.ph k'
        cases hm : m.ph k' with
        | notStarted => rw [hm] at this; exact this
        | running =>
          rw [hm] at this
          obtain ⟨w, l, hw⟩ := this
          refine ⟨w, l, ?_⟩
          simp only [upd_apply]
          split
          · rename_i h; subst h; simp [hpc] at hw
          · exact hw
        | built v => rw [hm] at this; exact this
      · intro t' k' hk
        simp only [upd_apply] at hk ⊢
        split at hk
        · simp only [PC.key, Option.some.injEq] at hk; subst hk; simp
        · have := hs.called t' k' hk
          split <;> simp [this]
    | _ => simp [next, hpc] at hn
  | load k =>
    cases i with
    | tau =>
      simp only [next, hpc] at hn
      -- load
      split at hn
      next l hst =>
        simp only [Option.some.injEq, Prod.mk.injEq] at hn
        obtain ⟨rfl, rfl⟩ := hn
        exact sim_tau_pc hs rfl rfl rfl rfl (by simp [hpc, absTh]) (by simp [hpc, PC.key]) (by simp [hpc, PC.isInCtor])
      next hst =>
        simp only [Option.some.injEq, Prod.mk.injEq] at hn
        obtain ⟨rfl, rfl⟩ := hn
        exact sim_tau_pc hs rfl rfl rfl rfl (by simp [hpc, absTh]) (by simp [hpc, PC.key]) (by simp [hpc, PC.isInCtor])
    | _ => simp [next, hpc] at hn
  | mk k =>
    cases i with
    | tau =>
      simp only [next, hpc] at hn
      -- mk: `cached` of the unpublished loader `t` is reset
      simp only [Option.some.injEq, Prod.mk.injEq] at hn
      obtain ⟨rfl, rfl⟩ := hn
      have hns := not_stored_of_before inv (t := t) (by simp [hpc, PC.afterLos])
      have h0 : Sim ({ s with pc := upd s.pc t (.send k) } : OState K V) m :=
        sim_tau_pc hs rfl rfl rfl rfl (by simp [hpc, absTh]) (by simp [hpc, PC.key]) (by simp [hpc, PC.isInCtor])
      refine ⟨h0.th, ?_, h0.called⟩
      intro k'
      have := h0.ph k'
      cases hm : m.ph k' with
      | notStarted => rw [hm] at this; exact this
      | running => rw [hm] at this; exact this
      | built v =>
        rw [hm] at this
        obtain ⟨l, hl, hc⟩ := this
        refine ⟨l, hl, ?_⟩
        have : l ≠ t := fun h => hns k' (h ▸ hl)
        simp only [upd_apply, this, if_false]
        exact hc
    | _ => simp [next, hpc] at hn
  | send k =>
    cases i with
    | tau =>
      simp only [next, hpc] at hn
      -- send
      split at hn
      · rename_i hcl
        have := (inv.atSend t k hpc).1
        rw [this] at hcl; simp at hcl
      · split at hn
        · simp only [Option.some.injEq, Prod.mk.injEq] at hn
          obtain ⟨rfl, rfl⟩ := hn
          exact sim_tau_pc hs rfl rfl rfl rfl (by simp [hpc, absTh]) (by simp [hpc, PC.key]) (by simp [hpc, PC.isInCtor])
        · simp at hn
    | _ => simp [next, hpc] at hn
  | los k =>
    cases i with
    | tau =>
      simp only [next, hpc] at hn
      -- LoadOrStore
      split at hn
      next l hst =>
        simp only [Option.some.injEq, Prod.mk.injEq] at hn
        obtain ⟨rfl, rfl⟩ := hn
        exact sim_tau_pc hs rfl rfl rfl rfl (by simp [hpc, absTh]) (by simp [hpc, PC.key]) (by simp [hpc, PC.isInCtor])
      next hst =>
        simp only [Option.some.injEq, Prod.mk.injEq] at hn
        obtain ⟨rfl, rfl⟩ := hn
        have h0 : Sim ({ s with pc := upd s.pc t (.recv k t) } : OState K V) m :=
          sim_tau_pc hs rfl rfl rfl rfl (by simp [hpc, absTh]) (by simp [hpc, PC.key]) (by simp [hpc, PC.isInCtor])
        refine ⟨h0.th, ?_, h0.called⟩
        intro k'
        have := h0.ph k'
        cases hm : m.ph k' with
        | notStarted => rw [hm] at this; exact this
        | running => rw [hm] at this; exact this
        | built v =>
          rw [hm] at this
          obtain ⟨l, hl, hc⟩ := this
          have hk : k' ≠ k := by
            intro h; subst h; simp only at hl; rw [hst] at hl; simp at hl
          exact ⟨l, by simpa [upd_apply, hk] using hl, hc⟩
    | _ => simp [next, hpc] at hn
  | recv k l =>
    cases i with
    | tau =>
      simp only [next, hpc] at hn
      -- receive
      split at hn
      · simp only [Option.some.injEq, Prod.mk.injEq] at hn
        obtain ⟨rfl, rfl⟩ := hn
        exact sim_tau_pc hs rfl rfl rfl rfl (by simp [hpc, absTh]) (by simp [hpc, PC.key]) (by simp [hpc, PC.isInCtor])
      · split at hn
        · simp only [Option.some.injEq, Prod.mk.injEq] at hn
          obtain ⟨rfl, rfl⟩ := hn
          exact sim_tau_pc hs rfl rfl rfl rfl (by simp [hpc, absTh]) (by simp [hpc, PC.key]) (by simp [hpc, PC.isInCtor])
        · simp at hn
    | _ => simp [next, hpc] at hn
  | construct k l =>
    cases i with
    | tau =>
      simp only [next, hpc] at hn
      -- ctorStart
      simp only [Option.some.injEq, Prod.mk.injEq] at hn
      obtain ⟨rfl, rfl⟩ := hn
      have hc0 := (inv.atConstruct t k l hpc).1
      have hst := inv.usesStored t k l (by simp [hpc, PC.uses])
      have hph : m.ph k = .notStarted := by
        have := hs.ph k
        cases hm : m.ph k with
        | notStarted => rfl
        | running =>
          rw [hm] at this
          obtain ⟨w, l', hw⟩ := this
          have := (inv.atInCtor w k l' hw).1
          omega
        | built v =>
          rw [hm] at this
          obtain ⟨l', hl', hc⟩ := this
          rw [hst] at hl'; cases hl'
          have := (inv.atConstruct t k l hpc).2
          rw [this] at hc; simp at hc
      have hcalled := hs.called t k (by simp [hpc, PC.key])
      refine ⟨_, by simp only [mstep, hph, hcalled]; rfl, ?_⟩
      constructor
      · intro t'
        simp only [upd_apply]
        split
        · rename_i h; subst h; have := hs.th t'; rw [hpc] at this; simpa [absTh] using this
        · exact hs.th t'
      · intro k'
        simp only [upd_apply]
        split
        · rename_i h; subst h
          exact ⟨t, l, by simp⟩
        · rename_i hk
          have := hs.ph k'
          cases hm : m.ph k' with
          | notStarted => rw [hm] at this; simpa [PhOk, upd_apply, hk] using this
          | running =>
            rw [hm] at this
            obtain ⟨w, l', hw⟩ := this
            refine ⟨w, l', ?_⟩
            simp only [upd_apply]
            split
            · rename_i h; subst h; rw [hpc] at hw; simp at hw
            · exact hw
          | built v => rw [hm] at this; exact this
      · intro t' k' hk'
        simp only [upd_apply] at hk'
        split at hk'
        · rename_i h; subst h
          exact hs.called t' k' (by simpa [hpc, PC.key] using hk')
        · exact hs.called t' k' hk'
    | _ => simp [next, hpc] at hn
  | inCtor k l =>
    cases i with
    | ctorRet v =>
      simp only [next, hpc] at hn
      -- ctorEnd
      simp only [Option.some.injEq, Prod.mk.injEq] at hn
      obtain ⟨rfl, rfl⟩ := hn
      have hc1 := inv.atInCtor t k l hpc
      have hst := inv.usesStored t k l (by simp [hpc, PC.uses])
      have hkey : ∀ k', s.stored k' = some l → k' = k := by
        intro k' hk'
        have a := (inv.storedWf k' l hk').1
        have b := (inv.storedWf k l hst).1
        simp [a] at b; exact b
      have hph : m.ph k = .running := by
        have := hs.ph k
        cases hm : m.ph k with
        | notStarted => rw [hm] at this; simp only [PhOk] at this; omega
        | running => rfl
        | built v' =>
          rw [hm] at this
          obtain ⟨l', hl', hc⟩ := this
          rw [hst] at hl'; cases hl'
          rw [hc1.2] at hc; simp at hc
      refine ⟨_, by simp only [mstep, hph]; rfl, ?_⟩
      constructor
      · intro t'
        simp only [upd_apply]
        split
        · rename_i h; subst h; have := hs.th t'; rw [hpc] at this; simpa [absTh] using this
        · exact hs.th t'
      · intro k'
        simp only [upd_apply]
        split
        · rename_i h; subst h
          exact ⟨l, hst, by simp⟩
        · rename_i hk
          have := hs.ph k'
          cases hm : m.ph k' with
          | notStarted => rw [hm] at this; exact this
          | running =>
            rw [hm] at this
            obtain ⟨w, l', hw⟩ := this
            refine ⟨w, l', ?_⟩
            simp only [upd_apply]
            split
            · rename_i h; subst h; rw [hpc] at hw; simp at hw; exact absurd hw.1.symm hk
            · exact hw
          | built v' =>
            rw [hm] at this
            obtain ⟨l', hl', hc⟩ := this
            have : l' ≠ l := fun h => hk (hkey k' (h ▸ hl'))
            exact ⟨l', hl', by simpa [upd_apply, this] using hc⟩
      · intro t' k' hk'
        simp only [upd_apply] at hk'
        split at hk'
        · rename_i h; subst h
          exact hs.called t' k' (by simpa [hpc, PC.key] using hk')
        · exact hs.called t' k' hk'
    | _ => simp [next, hpc] at hn
  | close k l =>
    cases i with
    | tau =>
      simp only [next, hpc] at hn
      -- close
      split at hn
      · rename_i hcl
        have := (inv.holds t k l (by simp [hpc, PC.holds])).2
        rw [this] at hcl; simp at hcl
      · simp only [Option.some.injEq, Prod.mk.injEq] at hn
        obtain ⟨rfl, rfl⟩ := hn
        exact sim_tau_pc hs rfl rfl rfl rfl (by simp [hpc, absTh]) (by simp [hpc, PC.key]) (by simp [hpc, PC.isInCtor])
    | _ => simp [next, hpc] at hn
  | readCached k l =>
    cases i with
    | tau =>
      simp only [next, hpc] at hn
      -- return cached
      simp only [Option.some.injEq, Prod.mk.injEq] at hn
      obtain ⟨rfl, rfl⟩ := hn
      have hcl := inv.atRead t k l hpc
      have hst := inv.usesStored t k l (by simp [hpc, PC.uses])
      have hclosed := inv.closed k l hst hcl
      have hth := hs.th t
      rw [hpc] at hth
      simp only [absTh] at hth
      obtain ⟨v, hph, hv⟩ : ∃ v, m.ph k = .built v ∧ s.cached l = some v := by
        have := hs.ph k
        cases hm : m.ph k with
        | notStarted => rw [hm] at this; simp only [PhOk] at this; omega
        | running =>
          rw [hm] at this
          obtain ⟨w, l', hw⟩ := this
          have hst' := inv.usesStored w k l' (by simp [hw, PC.uses])
          rw [hst] at hst'; cases hst'
          have := (inv.holds w k l (by simp [hw, PC.holds])).2
          rw [this] at hcl; simp at hcl
        | built v =>
          rw [hm] at this
          obtain ⟨l', hl', hc⟩ := this
          rw [hst] at hl'; cases hl'
          exact ⟨v, rfl, hc⟩
      refine ⟨{ m with th := upd m.th t .returned }, by simp [mstep, hth, hph, hv], ?_⟩
      constructor
      · intro t'
        simp only [upd_apply]
        split
        · simp [absTh]
        · exact hs.th t'
      · intro k'
        have := hs.ph k'
        cases hm : m.ph k' with
        | notStarted => rw [hm] at this; exact this
        | running =>
          rw [hm] at this
          obtain ⟨w, l', hw⟩ := this
          refine ⟨w, l', ?_⟩
          simp only [upd_apply]
          split
          · rename_i h; subst h; rw [hpc] at hw; simp at hw
          · exact hw
        | built v' => rw [hm] at this; exact this
      · intro t' k' hk'
        simp only [upd_apply] at hk'
        split at hk'
        · rename_i h; subst h
          exact hs.called t' k' (by simpa [hpc, PC.key] using hk')
        · exact hs.called t' k' hk'
    | _ => simp [next, hpc] at hn
  | done k r => cases i <;> simp [next, hpc] at hn
  | panicked k => cases i <;> simp [next, hpc] at hn

theorem mrun_append [DecidableEq V] (m : MState K V) (es : List (Ev K V)) (e : Ev K V) (m' m'' : MState K V)
    (h₁ : mrun m es = some m') (h₂ : mstep m' e = some m'') : mrun m (es ++ [e]) = some m'' := by
  induction es generalizing m with
  | nil => simp only [mrun, Option.some.injEq] at h₁; subst h₁; simp [mrun, h₂]
  | cons a as ih =>
    simp only [mrun, List.cons_append] at h₁ ⊢
    split at h₁
    · rename_i m₁ hm₁; exact ih m₁ h₁
    · cases h₁

theorem trace_reachable {s : OState K V} {es : List (Ev K V)} {s' : OState K V}
    (hr : Reachable s) (ht : Trace s es s') : Reachable s' := by
  induction ht with
  | nil => exact hr
  | tau _ hn ih => exact .step ih hn
  | vis _ hn ih => exact .step ih hn

theorem trace_sim [DecidableEq V] {es : List (Ev K V)} {s : OState K V}
    (ht : Trace (OState.init : OState K V) es s) :
    ∃ m, mrun (MState.init : MState K V) es = some m ∧ Sim s m := by
  induction ht with
  | nil => exact ⟨_, rfl, sim_init⟩
  | tau ht' hn ih =>
    obtain ⟨m, hm, hsim⟩ := ih
    have inv := reachable_inv (trace_reachable .init ht')
    exact ⟨m, hm, sim_step inv hsim hn⟩
  | vis ht' hn ih =>
    obtain ⟨m, hm, hsim⟩ := ih
    have inv := reachable_inv (trace_reachable .init ht')
    obtain ⟨m', hm', hsim'⟩ := sim_step inv hsim hn
    exact ⟨m', mrun_append _ _ _ _ _ hm hm', hsim'⟩

/-! ### What accepted histories satisfy -/

theorem mstep_built [DecidableEq V] {m m' : MState K V} {e : Ev K V} (h : mstep m e = some m')
    {k : K} {v : V} (hb : m.ph k = .built v) : m'.ph k = .built v := by
  cases e with
  | call t k' =>
    simp only [mstep] at h
    split at h <;> simp at h
    subst h; exact hb
  | ctorStart k' =>
    simp only [mstep] at h
    split at h <;> simp at h
    subst h
    rename_i hph _
    simp only [upd_apply]
    split
    · rename_i hk; subst hk; rw [hb] at hph; simp at hph
    · exact hb
  | ctorEnd k' v' =>
    simp only [mstep] at h
    split at h <;> simp at h
    subst h
    rename_i hph
    simp only [upd_apply]
    split
    · rename_i hk; subst hk; rw [hb] at hph; simp at hph
    · exact hb
  | ret t k' r =>
    simp only [mstep] at h
    split at h
    · split at h <;> simp at h
      subst h; exact hb
    · simp at h

theorem mrun_built [DecidableEq V] {m m' : MState K V} {es : List (Ev K V)} (h : mrun m es = some m')
    {k : K} {v : V} (hb : m.ph k = .built v) : m'.ph k = .built v := by
  induction es generalizing m with
  | nil => simp only [mrun, Option.some.injEq] at h; subst h; exact hb
  | cons e es ih =>
    simp only [mrun] at h
    split at h
    · rename_i m₁ hm₁; exact ih h (mstep_built hm₁ hb)
    · cases h

theorem mrun_starts [DecidableEq V] {m m' : MState K V} {es : List (Ev K V)} (h : mrun m es = some m')
    (k : K) : es.countP (Ev.isStart k) + (m.ph k).started = (m'.ph k).started := by
  induction es generalizing m with
  | nil => simp only [mrun, Option.some.injEq] at h; subst h; simp
  | cons e es ih =>
    simp only [mrun] at h
    split at h
    · rename_i m₁ hm₁
      have := ih h
      rw [List.countP_cons]
      cases e with
      | call t k' =>
        simp only [mstep] at hm₁
        split at hm₁ <;> simp at hm₁
        subst hm₁
        simp only [Ev.isStart] at this ⊢
        simpa using this
      | ctorStart k' =>
        simp only [mstep] at hm₁
        split at hm₁ <;> simp at hm₁
        subst hm₁
        rename_i hph _
        simp only [Ev.isStart, upd_apply] at this ⊢
        by_cases hk : k' = k
        · subst hk
          simp only [if_true, MPh.started, hph, decide_true] at this ⊢
          omega
        · have hk' : ¬ k = k' := fun h => hk h.symm
          simp only [hk', if_false] at this
          simp only [hk, decide_false, Bool.false_eq_true, if_false]
          omega
      | ctorEnd k' v' =>
        simp only [mstep] at hm₁
        split at hm₁ <;> simp at hm₁
        subst hm₁
        rename_i hph
        simp only [Ev.isStart, upd_apply] at this ⊢
        by_cases hk : k = k'
        · subst hk
          simp only [if_true, MPh.started, hph] at this ⊢
          simpa using this
        · simp only [hk, if_false] at this
          simpa using this
      | ret t k' r =>
        simp only [mstep] at hm₁
        split at hm₁
        · split at hm₁ <;> simp at hm₁
          subst hm₁
          simp only [Ev.isStart] at this ⊢
          simpa using this
        · simp at hm₁
    · cases h

theorem mrun_rets [DecidableEq V] {m m' : MState K V} {es : List (Ev K V)} (h : mrun m es = some m')
    {t : Nat} {k : K} {r : Option V} (hr : Ev.ret t k r ∈ es) : ∃ v, r = some v ∧ m'.ph k = .built v := by
  induction es generalizing m with
  | nil => simp at hr
  | cons e es ih =>
    simp only [mrun] at h
    split at h
    · rename_i m₁ hm₁
      rcases List.mem_cons.1 hr with hhead | htail
      · subst hhead
        simp only [mstep] at hm₁
        split at hm₁
        · rename_i k' v v' _ hph
          split at hm₁ <;> simp at hm₁
          rename_i hcond
          subst hm₁
          obtain ⟨_, rfl⟩ := hcond
          exact ⟨v', rfl, mrun_built h hph⟩
        · simp at hm₁
      · exact ih h htail
    · cases h

theorem runSteps_reachable {s s' : OState K V} (hr : Reachable s) (l : List (Nat × In K V))
    (h : runSteps s l = some s') : Reachable s' := by
  induction l generalizing s with
  | nil => simp only [runSteps, Option.some.injEq] at h; subst h; exact hr
  | cons a l ih =>
    obtain ⟨t, i⟩ := a
    simp only [runSteps] at h
    split at h
    · rename_i s₁ e hs₁; exact ih (.step hr hs₁) h
    · cases h

/-! ### Enabledness -/

/-- enabledness of the next step of invocation `t`, read off the code: only a channel
operation can block -/
def canStep (s : OState K V) (t : Nat) : Prop :=
  match s.pc t with
  | .send _ => (s.chan t).closed = true ∨ (s.chan t).buf < 1
  | .recv _ l => 0 < (s.chan l).buf ∨ (s.chan l).closed = true
  | .done _ _ => False
  | .panicked _ => False
  | _ => True

theorem enabled_iff_canStep [Inhabited K] [Inhabited V] (s : OState K V) (t : Nat) :
    Enabled s t ↔ canStep s t := by
  unfold Enabled canStep
  constructor
  · rintro ⟨i, r, hn⟩
    cases hpc : s.pc t with
    | send k =>
      simp only
      by_cases hc : (s.chan t).closed = true
      · exact Or.inl hc
      · by_cases hb : (s.chan t).buf < 1
        · exact Or.inr hb
        · exfalso; cases i <;> simp [next, hpc, hc, hb] at hn
    | recv k l =>
      simp only
      by_cases hb : 0 < (s.chan l).buf
      · exact Or.inl hb
      · by_cases hc : (s.chan l).closed = true
        · exact Or.inr hc
        · exfalso; cases i <;> simp [next, hpc, hc, hb] at hn
    | done k r => exfalso; cases i <;> simp [next, hpc] at hn
    | panicked k => exfalso; cases i <;> simp [next, hpc] at hn
    | _ => trivial
  · intro hc
    cases hpc : s.pc t with
    | idle => exact ⟨.call default, _, by simp [next, hpc]; rfl⟩
    | load k =>
      cases hst : s.stored k with
      | none => exact ⟨.tau, _, by simp [next, hpc, hst]; rfl⟩
      | some l => exact ⟨.tau, _, by simp [next, hpc, hst]; rfl⟩
    | mk k => exact ⟨.tau, _, by simp [next, hpc]; rfl⟩
    | send k =>
      simp only [hpc] at hc
      by_cases hcl : (s.chan t).closed = true
      · exact ⟨.tau, _, by simp [next, hpc, hcl]; rfl⟩
      · have hb : (s.chan t).buf < 1 := by
          rcases hc with h | h
          · exact absurd h hcl
          · exact h
        exact ⟨.tau, _, by simp only [next, hpc, hcl, hb, if_true]; rfl⟩
    | los k =>
      cases hst : s.stored k with
      | none => exact ⟨.tau, _, by simp [next, hpc, hst]; rfl⟩
      | some l => exact ⟨.tau, _, by simp [next, hpc, hst]; rfl⟩
    | recv k l =>
      simp only [hpc] at hc
      by_cases hb : 0 < (s.chan l).buf
      · exact ⟨.tau, _, by simp only [next, hpc, hb, if_true]; rfl⟩
      · have hcl : (s.chan l).closed = true := by
          rcases hc with h | h
          · exact absurd h hb
          · exact h
        exact ⟨.tau, _, by simp only [next, hpc, hb, hcl, if_true, if_false]; rfl⟩
    | construct k l => exact ⟨.tau, _, by simp [next, hpc]; rfl⟩
    | inCtor k l => exact ⟨.ctorRet default, _, by simp [next, hpc]; rfl⟩
    | close k l =>
      by_cases hcl : (s.chan l).closed = true
      · exact ⟨.tau, _, by simp [next, hpc, hcl]; rfl⟩
      · exact ⟨.tau, _, by simp only [next, hpc, hcl]; rfl⟩
    | readCached k l => exact ⟨.tau, _, by simp [next, hpc]; rfl⟩
    | done k r => simp [hpc] at hc
    | panicked k => simp [hpc] at hc

/-! ### Semaphore runs -/

theorem srun_iff_trace (s : SState) (ls : List SLabel) (s' : SState) :
    srun s ls = some s' ↔ STrace s ls s' := by
  induction ls generalizing s with
  | nil =>
    simp only [srun, Option.some.injEq]
    constructor
    · rintro rfl; exact .nil _
    · intro h; cases h; rfl
  | cons l ls ih =>
    simp only [srun]
    constructor
    · intro h
      split at h
      · rename_i s₁ hs₁; exact .cons hs₁ ((ih s₁).1 h)
      · simp at h
    · intro h
      cases h with
      | cons hs₁ ht => rw [hs₁]; exact (ih _).2 ht


end GolibsVerif.C17
