/-
C05 helper lemmas, part 3 (IPv6 family): nibble labels, the loops of `ipv6NetFromReversed`
and `ipv6FromReversed`, and `subnetFromReversedV6` against the reference decoder.
-/
import GolibsVerif.Lemmas.C05V4

namespace GolibsVerif.C05
open GolibsVerif.Netutil GolibsVerif.Str GolibsVerif.Netip GolibsVerif GolibsVerif.Gen.Consts

/-! ### hex digits -/

/-- no ASCII upper-case letter (what `toLowerASCII` guarantees) -/
def NoUpper (s : Bytes) : Prop := ∀ b ∈ s, ¬ (65 ≤ b ∧ b ≤ 90)

theorem fromHexByte_lt (c : Nat) (h : fromHexByte c ≠ 255) : fromHexByte c < 16 := by
  unfold fromHexByte hexVal at *
  by_cases h1 : 48 ≤ c ∧ c ≤ 57
  · simp [h1]; omega
  · by_cases h2 : 97 ≤ c ∧ c ≤ 102
    · simp [h1, h2]; omega
    · by_cases h3 : 65 ≤ c ∧ c ≤ 70
      · simp [h1, h2, h3]; omega
      · simp [h1, h2, h3] at h

theorem nibbleVal_of_hex (c : Nat) (h : fromHexByte c ≠ 255) (hu : ¬ (65 ≤ c ∧ c ≤ 90)) :
    nibbleVal [c] = some (fromHexByte c) := by
  unfold fromHexByte hexVal at *
  unfold nibbleVal
  by_cases h1 : 48 ≤ c ∧ c ≤ 57
  · simp [h1]
  · by_cases h2 : 97 ≤ c ∧ c ≤ 102
    · simp [h1, h2]; omega
    · by_cases h3 : 65 ≤ c ∧ c ≤ 70
      · omega
      · simp [h1, h2, h3] at h

theorem hex_of_nibbleVal (l : Bytes) (v : Nat) (h : nibbleVal l = some v) :
    ∃ c, l = [c] ∧ fromHexByte c = v ∧ fromHexByte c ≠ 255 := by
  match l with
  | [] => simp [nibbleVal] at h
  | _ :: _ :: _ => simp [nibbleVal] at h
  | [c] =>
    refine ⟨c, rfl, ?_⟩
    unfold nibbleVal at h
    unfold fromHexByte hexVal
    by_cases h1 : 48 ≤ c ∧ c ≤ 57
    · simp [h1] at h ⊢; omega
    · by_cases h2 : 97 ≤ c ∧ c ≤ 102
      · simp [h1, h2] at h ⊢; omega
      · simp [h1, h2] at h

theorem hex_ne_dot (c : Nat) (h : fromHexByte c ≠ 255) : c ≠ 46 := by
  intro e; subst e; simp [fromHexByte, hexVal] at h

/-! ### strings of one-byte labels -/

/-- every byte followed by a dot -/
def dotted : List Nat → Bytes
  | [] => []
  | c :: fs => c :: 46 :: dotted fs

theorem dotted_append (a b : List Nat) : dotted (a ++ b) = dotted a ++ dotted b := by
  induction a with
  | nil => rfl
  | cons c a ih => simp [dotted, ih]

theorem length_dotted (fs : List Nat) : (dotted fs).length = 2 * fs.length := by
  induction fs with
  | nil => rfl
  | cons c fs ih => simp [dotted, ih]; omega

theorem frontOf_singles (fs : List Nat) : frontOf (fs.map fun c => [c]).reverse = dotted fs := by
  induction fs with
  | nil => rfl
  | cons c fs ih => simp [frontOf_append, frontOf, dotted, ih]

theorem mem_dotted (fs : List Nat) (c : Nat) (h : c ∈ fs) : c ∈ dotted fs := by
  induction fs with
  | nil => cases h
  | cons x fs ih =>
    simp only [List.mem_cons] at h
    rcases h with rfl | h
    · simp [dotted]
    · simp [dotted, ih h]

/-! ### the loop of `ipv6NetFromReversed` -/

/-- the result of the loop as a function of the bytes before the root, read backwards -/
def v6Scan : List Nat → List Nat → Option (List Nat)
  | d :: c :: rest, nibs =>
    if d = 46 ∧ fromHexByte c ≠ 255 then v6Scan rest (nibs ++ [fromHexByte c]) else none
  | _, nibs => some nibs

theorem ipv6NetLoop_spec (m : Nat) : ∀ (q t : Bytes) (fuel : Nat) (nibs : List Nat),
    q.length = 2 * m → m + 1 ≤ fuel → nibs.length + m ≤ 32 →
    ∃ r, ipv6NetLoop (q.reverse ++ t) fuel ((q.length : Int) - 2) nibs = .ok r ∧
      okVal r = v6Scan q nibs := by
  induction m with
  | zero =>
    intro q t fuel nibs hq hf _
    obtain ⟨f, rfl⟩ : ∃ f, fuel = f + 1 := ⟨fuel - 1, by omega⟩
    have : q = [] := List.length_eq_zero_iff.1 (by omega)
    subst this
    exact ⟨.ok nibs, by simp [ipv6NetLoop, pure, Except.pure], by simp [okVal, v6Scan]⟩
  | succ m ih =>
    intro q t fuel nibs hq hf hn
    obtain ⟨f, rfl⟩ : ∃ f, fuel = f + 1 := ⟨fuel - 1, by omega⟩
    match q, hq with
    | d :: c :: rest, hq =>
      have hrl : rest.length = 2 * m := by simp at hq; omega
      have h0 : ¬ (((d :: c :: rest).length : Int) - 2 < 0) := by simp; omega
      have harpa : (d :: c :: rest).reverse ++ t = rest.reverse ++ c :: d :: t := by simp
      unfold ipv6NetLoop
      simp only [h0, if_false, bind, Except.bind, pure, Except.pure]
      rw [harpa]
      have e1 : (rest.reverse ++ c :: d :: t) = (rest.reverse ++ [c]) ++ d :: t := by simp
      rw [e1, idx_app (rest.reverse ++ [c]) t d _ (by simp; omega), ← e1]
      simp only
      by_cases hd : d = 46
      · simp only [hd, ne_eq, not_true_eq_false, if_false]
        rw [idx_app rest.reverse (46 :: t) c _ (by simp; omega)]
        simp only
        by_cases hc : fromHexByte c = 255
        · simp only [hc, if_true]
          exact ⟨_, rfl, by simp [okVal, v6Scan, hc]⟩
        · simp only [hc, if_false]
          have hov : ¬ (nibs.length / 2 ≥ 16) := by omega
          simp only [hov, if_false]
          obtain ⟨r, hr1, hr2⟩ := ih rest (c :: 46 :: t) f (nibs ++ [fromHexByte c]) hrl (by omega)
            (by simp; omega)
          have e2 : ((46 :: c :: rest).length : Int) - 2 - 2 = (rest.length : Int) - 2 := by
            simp; omega
          rw [e2, hr1]
          exact ⟨r, rfl, by rw [hr2]; simp [v6Scan, hc]⟩
      · simp only [ne_eq, hd, not_false_eq_true, if_true]
        exact ⟨_, rfl, by simp [okVal, v6Scan, hd]⟩


theorem v6Scan_dotted (gs : List Nat) : ∀ nibs, (∀ c ∈ gs, fromHexByte c ≠ 255) →
    v6Scan (dotted gs.reverse).reverse nibs = some (nibs ++ gs.map fromHexByte) := by
  induction gs with
  | nil => intro nibs _; simp [dotted, v6Scan]
  | cons c gs ih =>
    intro nibs h
    have hc := h c (by simp)
    have : (dotted (c :: gs).reverse).reverse = 46 :: c :: (dotted gs.reverse).reverse := by
      simp [dotted_append, dotted]
    rw [this, v6Scan]
    simp only [hc, ne_eq, not_false_eq_true, and_self, if_true]
    rw [ih _ (fun x hx => h x (by simp [hx]))]
    simp

theorem v6Scan_some (m : Nat) : ∀ (q nibs r : List Nat), q.length = 2 * m → v6Scan q nibs = some r →
    ∃ gs : List Nat, q = (dotted gs.reverse).reverse ∧ (∀ c ∈ gs, fromHexByte c ≠ 255) ∧
      r = nibs ++ gs.map fromHexByte := by
  induction m with
  | zero =>
    intro q nibs r hq h
    have : q = [] := List.length_eq_zero_iff.1 (by omega)
    subst this
    simp [v6Scan] at h
    exact ⟨[], by simp [dotted], by simp, by simp [h]⟩
  | succ m ih =>
    intro q nibs r hq h
    match q, hq with
    | d :: c :: rest, hq =>
      rw [v6Scan] at h
      split at h
      · rename_i hdc
        obtain ⟨gs, h1, h2, h3⟩ := ih rest _ r (by simp at hq; omega) h
        refine ⟨c :: gs, ?_, ?_, ?_⟩
        · simp [dotted_append, dotted, hdc.1, ← h1]
        · intro x hx
          simp only [List.mem_cons] at hx
          rcases hx with rfl | hx
          · exact hdc.2
          · exact h2 x hx
        · simp [h3]
      · cases h

/-! ### the loop of `ipv6FromReversed` -/

/-- the result of the loop as a function of the bytes still to be read -/
def v6Full : Nat → List Nat → List Nat → Option (List Nat)
  | 0, _, ip => some ip
  | n + 1, c0 :: d0 :: c1 :: d1 :: rest, ip =>
    if fromHexByte c0 ≠ 255 ∧ fromHexByte c1 ≠ 255 ∧ d0 = 46 ∧ d1 = 46 then
      v6Full n rest ((fromHexByte c1 * 16 + fromHexByte c0) :: ip)
    else none
  | _ + 1, _, _ => none

theorem ipv6FromReversedLoop_spec (n : Nat) : ∀ (done rest : Bytes) (i : Nat) (ip : List Nat),
    done.length = 4 * i → 4 * n ≤ rest.length →
    ∃ r, ipv6FromReversedLoop (done ++ rest) n i ip = .ok r ∧ okVal r = v6Full n rest ip := by
  induction n with
  | zero =>
    intro done rest i ip _ _
    exact ⟨.ok ip, by simp [ipv6FromReversedLoop, pure, Except.pure], by simp [okVal, v6Full]⟩
  | succ n ih =>
    intro done rest i ip hd hr
    match rest, hr with
    | c0 :: d0 :: c1 :: d1 :: rest', hr =>
      unfold ipv6FromReversedLoop
      simp only [bind, Except.bind, pure, Except.pure]
      rw [idx_app done _ c0 _ (by omega)]
      simp only
      by_cases h0 : fromHexByte c0 = 255
      · simp only [h0, if_true]
        exact ⟨_, rfl, by simp [okVal, v6Full, h0]⟩
      · simp only [h0, if_false]
        have e2 : done ++ c0 :: d0 :: c1 :: d1 :: rest' = (done ++ [c0, d0]) ++ c1 :: d1 :: rest' := by simp
        rw [e2, idx_app (done ++ [c0, d0]) _ c1 _ (by simp; omega), ← e2]
        simp only
        by_cases h1 : fromHexByte c1 = 255
        · simp only [h1, if_true]
          exact ⟨_, rfl, by simp [okVal, v6Full, h1]⟩
        · simp only [h1, if_false]
          have e1 : done ++ c0 :: d0 :: c1 :: d1 :: rest' = (done ++ [c0]) ++ d0 :: c1 :: d1 :: rest' := by simp
          rw [e1, idx_app (done ++ [c0]) _ d0 _ (by simp; omega), ← e1]
          simp only
          by_cases hd0 : d0 = 46
          · simp only [hd0, ne_eq, not_true_eq_false, if_false]
            have e3 : done ++ c0 :: 46 :: c1 :: d1 :: rest' = (done ++ [c0, 46, c1]) ++ d1 :: rest' := by simp
            rw [e3, idx_app (done ++ [c0, 46, c1]) _ d1 _ (by simp; omega), ← e3]
            simp only
            by_cases hd1 : d1 = 46
            · simp only [hd1, not_true_eq_false, if_false]
              have e4 : done ++ c0 :: 46 :: c1 :: 46 :: rest' = (done ++ [c0, 46, c1, 46]) ++ rest' := by simp
              obtain ⟨r, hr1, hr2⟩ := ih (done ++ [c0, 46, c1, 46]) rest' (i + 1)
                ((fromHexByte c1 * 16 + fromHexByte c0) :: ip) (by simp; omega) (by simp at hr; omega)
              rw [e4, hr1]
              exact ⟨r, rfl, by rw [hr2]; simp [v6Full, h0, h1]⟩
            · simp only [hd1, not_false_eq_true, if_true]
              exact ⟨_, rfl, by simp [okVal, v6Full, hd1]⟩
          · simp only [ne_eq, hd0, not_false_eq_true, if_true]
            exact ⟨_, rfl, by simp [okVal, v6Full, hd0]⟩


/-! ### packing nibbles -/

theorem nib_snoc2 (n : Nat) : ∀ (xs : List Nat), xs.length = 2 * n → ∀ a b,
    nibblesToBytes (xs ++ [a, b]) = nibblesToBytes xs ++ [a * 16 + b] := by
  induction n with
  | zero =>
    intro xs h a b
    have : xs = [] := List.length_eq_zero_iff.1 (by omega)
    subst this; simp [nibblesToBytes]
  | succ n ih =>
    intro xs h a b
    match xs, h with
    | x :: y :: xs', h =>
      simp only [List.cons_append, nibblesToBytes]
      rw [ih xs' (by simp at h; omega)]

theorem nib_length : ∀ (ns : List Nat), (nibblesToBytes ns).length = (ns.length + 1) / 2
  | [] => rfl
  | [_] => by simp [nibblesToBytes]
  | _ :: _ :: rest => by
    simp only [nibblesToBytes, List.length_cons, nib_length rest]; omega

theorem nib_getD : ∀ (ns : List Nat) (i : Nat),
    (nibblesToBytes ns).getD i 0 = 16 * ns.getD (2 * i) 0 + ns.getD (2 * i + 1) 0
  | [], i => by simp [nibblesToBytes]
  | [hi], i => by
    cases i with
    | zero => simp [nibblesToBytes]; omega
    | succ i => simp [nibblesToBytes]
  | hi :: lo :: rest, i => by
    cases i with
    | zero => simp [nibblesToBytes]; omega
    | succ i =>
      have := nib_getD rest i
      simp only [nibblesToBytes, List.getD_cons_succ, this]
      have e1 : 2 * (i + 1) = (2 * i + 1) + 1 := by omega
      rw [e1]
      simp only [List.getD_cons_succ]

theorem pad_eq_range (n : Nat) (l : List Nat) (h : l.length ≤ n) :
    pad n l = (List.range n).map fun i => l.getD i 0 := by
  apply List.ext_getElem
  · simp [pad]; omega
  · intro i h1 h2
    simp only [pad, List.getElem_map, List.getElem_range]
    by_cases hi : i < l.length
    · rw [List.getElem_append_left hi]; simp [List.getD_eq_getElem?_getD, hi]
    · rw [List.getElem_append_right (by omega)]
      simp [List.getD_eq_getElem?_getD, List.getElem?_eq_none (Nat.le_of_not_lt hi)]

theorem v6_model_prefix (ns : List Nat) (h : ns.length ≤ 32) :
    ({ addr := .v6 (pad 16 (nibblesToBytes ns)) [], bits := ns.length * 4 } : Prefix) = v6Prefix ns := by
  unfold v6Prefix
  have h1 : pad 16 (nibblesToBytes ns) =
      (List.range 16).map fun i => 16 * ns.getD (2 * i) 0 + ns.getD (2 * i + 1) 0 := by
    rw [pad_eq_range 16 _ (by rw [nib_length]; omega)]
    apply List.map_congr_left
    intro i _
    exact nib_getD ns i
  have h2 : ns.length * 4 = 4 * ns.length := by omega
  rw [h1, h2]

theorem pad_self (n : Nat) (l : List Nat) (h : l.length = n) : pad n l = l := by
  simp [pad, h]

/-! ### the two loops on a string of one-byte labels -/

theorem v6Full_dotted (n : Nat) : ∀ (fs t ip : List Nat), fs.length = 2 * n →
    (∀ c ∈ fs, fromHexByte c ≠ 255) →
    v6Full n (dotted fs ++ t) ip = some (nibblesToBytes (fs.reverse.map fromHexByte) ++ ip) := by
  induction n with
  | zero =>
    intro fs t ip h _
    have : fs = [] := List.length_eq_zero_iff.1 (by omega)
    subst this; simp [v6Full, nibblesToBytes]
  | succ n ih =>
    intro fs t ip h hx
    match fs, h with
    | c0 :: c1 :: fs', h =>
      have h0 := hx c0 (by simp)
      have h1 := hx c1 (by simp)
      simp only [dotted, List.cons_append, v6Full, h0, h1, ne_eq, not_false_eq_true, and_self, if_true]
      rw [ih fs' t _ (by simp at h; omega) (fun c hc => hx c (by simp [hc]))]
      have : (c0 :: c1 :: fs').reverse.map fromHexByte =
          fs'.reverse.map fromHexByte ++ [fromHexByte c1, fromHexByte c0] := by simp
      rw [this, nib_snoc2 n _ (by simp at h ⊢; omega)]
      simp

theorem v6Full_some (n : Nat) : ∀ (rest ip r : List Nat), v6Full n rest ip = some r →
    ∃ fs t : List Nat, fs.length = 2 * n ∧ (∀ c ∈ fs, fromHexByte c ≠ 255) ∧ rest = dotted fs ++ t ∧
      r = nibblesToBytes (fs.reverse.map fromHexByte) ++ ip := by
  induction n with
  | zero =>
    intro rest ip r h
    simp [v6Full] at h
    exact ⟨[], rest, rfl, by simp, by simp [dotted], by simp [nibblesToBytes, h]⟩
  | succ n ih =>
    intro rest ip r h
    match rest with
    | c0 :: d0 :: c1 :: d1 :: rest' =>
      rw [v6Full] at h
      split at h
      · rename_i hc
        obtain ⟨fs, t, h1, h2, h3, h4⟩ := ih _ _ _ h
        refine ⟨c0 :: c1 :: fs, t, by simp [h1]; omega, ?_, by simp [dotted, hc.2.2.1, hc.2.2.2, h3], ?_⟩
        · intro c hcm
          simp only [List.mem_cons] at hcm
          rcases hcm with rfl | rfl | hcm
          · exact hc.1
          · exact hc.2.1
          · exact h2 c hcm
        · have : (c0 :: c1 :: fs).reverse.map fromHexByte =
              fs.reverse.map fromHexByte ++ [fromHexByte c1, fromHexByte c0] := by simp
          rw [this, nib_snoc2 n _ (by simp [h1])]
          simp [h4]
      · cases h
    | [] => simp [v6Full] at h
    | [_] => simp [v6Full] at h
    | [_, _] => simp [v6Full] at h
    | [_, _, _] => simp [v6Full] at h

theorem tmod_lemma (x : Nat) : (((x : Int) - 2).tmod 2 ≠ 0) ↔ x % 2 = 1 := by
  match x with
  | 0 => decide
  | 1 => decide
  | x + 2 =>
    rw [Int.tmod_eq_emod_of_nonneg (by omega)]
    omega

/-! ### `subnetFromReversedV6` against the reference decoder -/

theorem traverse_singles (gs : List Nat) (hx : ∀ c ∈ gs, fromHexByte c ≠ 255)
    (hu : ∀ c ∈ gs, ¬ (65 ≤ c ∧ c ≤ 90)) :
    traverse nibbleVal (gs.map fun c => [c]) = some (gs.map fromHexByte) := by
  induction gs with
  | nil => rfl
  | cons c gs ih =>
    have := nibbleVal_of_hex c (hx c (by simp)) (hu c (by simp))
    simp only [List.map_cons]
    rw [traverse_cons_some _ _ _ _ this, ih (fun x h => hx x (by simp [h])) (fun x h => hu x (by simp [h]))]
    rfl

theorem traverse_nibble_some (R : List Bytes) : ∀ (ns : List Nat), traverse nibbleVal R = some ns →
    ∃ gs : List Nat, R = gs.map (fun c => [c]) ∧ (∀ c ∈ gs, fromHexByte c ≠ 255) ∧ ns = gs.map fromHexByte := by
  induction R with
  | nil => intro ns h; simp [traverse] at h; exact ⟨[], rfl, by simp, by simp [h]⟩
  | cons l R ih =>
    intro ns h
    cases hf : nibbleVal l with
    | none => rw [traverse_cons_none _ _ _ hf] at h; cases h
    | some v =>
      rw [traverse_cons_some _ _ _ _ hf] at h
      cases ht : traverse nibbleVal R with
      | none => simp [ht] at h
      | some ws =>
        simp [ht] at h
        obtain ⟨gs, h1, h2, h3⟩ := ih ws ht
        obtain ⟨c, hc1, hc2, hc3⟩ := hex_of_nibbleVal l v hf
        refine ⟨c :: gs, by simp [hc1, h1], ?_, by simp [← h, hc2, h3]⟩
        intro x hx
        simp only [List.mem_cons] at hx
        rcases hx with rfl | hx
        · exact hc3
        · exact h2 x hx

theorem append_ip6_ne_inaddr (l : Bytes) : l ++ lblIp6 ≠ lblInAddr := by
  intro h
  have := congrArg List.getLast? h
  simp [lblInAddr, lblIp6] at this

theorem dotfree_singles (gs : List Nat) (hx : ∀ c ∈ gs, fromHexByte c ≠ 255) :
    ∀ x ∈ gs.map (fun c => [c]), DotFree x := by
  intro x hx'
  simp only [List.mem_map] at hx'
  obtain ⟨c, hc, rfl⟩ := hx'
  have := hex_ne_dot c (hx c hc)
  simp [DotFree]; omega

/-- what the reference decoder accepts in the IPv6 family, as a statement about the bytes
before `"ip6.arpa"` -/
theorem spec_v6_iff (pre : Bytes) (hu : NoUpper pre) (p : Prefix) :
    arpaPrefixSpec (splitOn 46 (pre ++ v6tail)) = some p ↔
      ∃ fs : List Nat, pre = dotted fs ∧ fs.length ≤ 32 ∧ (∀ c ∈ fs, fromHexByte c ≠ 255) ∧
        p = v6Prefix (fs.reverse.map fromHexByte) := by
  constructor
  · intro h
    obtain ⟨l, R, hl, hR, hpre, _⟩ := exists_frontOf pre
    have hrev := labels_tail R l lblIp6 hR hl dotfree_ip6
    rw [← hpre] at hrev
    have hspec := spec_of_rev _ _ _ hrev
    change arpaPrefixSpec (splitOn 46 (pre ++ v6tail)) = _ at hspec
    rw [hspec, if_neg (append_ip6_ne_inaddr l)] at h
    split at h
    · rename_i hfam
      have hl0 : l = [] := by
        have := congrArg List.length hfam
        simp at this
        exact this
      subst hl0
      cases ht : traverse nibbleVal R with
      | none => simp [ht] at h
      | some ns =>
        simp only [ht] at h
        split at h
        · rename_i hlen
          obtain ⟨gs, h1, h2, h3⟩ := traverse_nibble_some R ns ht
          refine ⟨gs.reverse, ?_, by simp [h3] at hlen; simpa using hlen, by simpa using h2, ?_⟩
          · rw [hpre, h1, ← frontOf_singles gs.reverse]; simp
          · simp at h; simp [← h, h3]
        · cases h
    · cases h
  · rintro ⟨fs, hpre, hlen, hx, hp⟩
    have hR := dotfree_singles fs.reverse (by simpa using hx)
    have hrev := labels_tail (fs.reverse.map fun c => [c]) [] lblIp6 hR (by simp [DotFree]) dotfree_ip6
    have hfr : frontOf (fs.reverse.map fun c => [c]) = dotted fs := by
      rw [← frontOf_singles fs]; simp
    rw [hfr, List.append_nil, ← hpre] at hrev
    have hspec := spec_of_rev _ _ _ hrev
    change arpaPrefixSpec (splitOn 46 (pre ++ v6tail)) = _ at hspec
    rw [hspec, if_neg (append_ip6_ne_inaddr []), if_pos (by simp)]
    have hu' : ∀ c ∈ fs.reverse, ¬ (65 ≤ c ∧ c ≤ 90) := by
      intro c hc
      exact hu c (by rw [hpre]; exact mem_dotted fs c (by simpa using hc))
    rw [traverse_singles fs.reverse (by simpa using hx) hu']
    simp [hlen, hp]


theorem v6tail_length : v6tail.length = 8 := rfl

theorem dotted_inj_of_append (fs : List Nat) (pre t t' : Bytes) (h : pre ++ t = dotted fs ++ t')
    (hl : pre.length = 2 * fs.length) : pre = dotted fs :=
  List.append_inj_left h (by rw [hl, length_dotted])

theorem dotted_inj : ∀ (a b : List Nat), dotted a = dotted b → a = b
  | [], [], _ => rfl
  | [], _ :: _, h => by simp [dotted] at h
  | _ :: _, [], h => by simp [dotted] at h
  | x :: a, y :: b, h => by
    simp [dotted] at h
    rw [h.1, dotted_inj a b h.2]

theorem subnetV6_model (pre : Bytes) :
    ∃ r, subnetFromReversedV6 (pre ++ v6tail) = .ok r ∧
      ∀ p, r = .ok p ↔ ∃ fs : List Nat, pre = dotted fs ∧ fs.length ≤ 32 ∧
        (∀ c ∈ fs, fromHexByte c ≠ 255) ∧ p = v6Prefix (fs.reverse.map fromHexByte) := by
  unfold subnetFromReversedV6
  have hlen : (pre ++ v6tail).length = pre.length + 8 := by simp [v6tail_length]
  simp only [hlen, arpaV6MaxLen, bind, Except.bind, pure, Except.pure]
  by_cases h64 : pre.length = 64
  · have : pre.length + 8 = 72 := by omega
    simp only [this, if_true]
    unfold ipv6FromReversed
    obtain ⟨r, hr1, hr2⟩ := ipv6FromReversedLoop_spec 16 [] (pre ++ v6tail) 0 [] (by simp) (by simp; omega)
    simp only [List.nil_append] at hr1
    simp only [bind, Except.bind, pure, Except.pure, hr1]
    cases r with
    | error e =>
      refine ⟨_, rfl, ?_⟩
      intro p
      constructor
      · intro h; simp [mapAddr] at h
      · rintro ⟨fs, hpre, hl, hx, _⟩
        have hfl : fs.length = 32 := by
          have := length_dotted fs; rw [← hpre] at this; omega
        have := v6Full_dotted 16 fs v6tail [] (by omega) hx
        rw [← hpre, ← hr2] at this
        simp [okVal] at this
    | ok ip =>
      simp only [okVal] at hr2
      obtain ⟨fs, t, h1, h2, h3, h4⟩ := v6Full_some 16 _ _ _ hr2.symm
      have hpre : pre = dotted fs := dotted_inj_of_append fs pre v6tail t h3 (by omega)
      simp only [List.append_nil] at h4
      have hnl : (fs.reverse.map fromHexByte).length = 32 := by simp [h1]
      have hpf : ({ addr := .v6 ip [], bits := 128 } : Prefix) = v6Prefix (fs.reverse.map fromHexByte) := by
        rw [← v6_model_prefix _ (by omega), hnl, ← h4, pad_self 16 ip (by rw [h4, nib_length, hnl])]
      refine ⟨.ok (v6Prefix (fs.reverse.map fromHexByte)), by simp [mapAddr, hpf], ?_⟩
      intro p
      constructor
      · intro h; cases h; exact ⟨fs, hpre, by omega, h2, rfl⟩
      · rintro ⟨fs', hpre', _, _, hp⟩
        have : fs' = fs := dotted_inj _ _ (hpre'.symm.trans hpre)
        subst this; rw [hp]
  · have : ¬ (pre.length + 8 = 72) := by omega
    simp only [this, if_false]
    by_cases hgt : pre.length + 8 > 72
    · simp only [hgt, if_true]
      refine ⟨_, rfl, ?_⟩
      intro p; constructor
      · intro h; cases h
      · rintro ⟨fs, hpre, hl, _, _⟩
        have := length_dotted fs; rw [← hpre] at this; omega
    · simp only [hgt, if_false]
      unfold ipv6NetFromReversed
      have hidx : (((pre ++ v6tail).length : Int) - (arpaV6Suffix.length : Int) + 1 - 2) = (pre.length : Int) - 2 := by
        simp [hlen, arpaV6Suffix]; omega
      simp only [hidx, bind, Except.bind, pure, Except.pure]
      by_cases hodd : pre.length % 2 = 1
      · rw [if_pos ((tmod_lemma pre.length).2 hodd)]
        refine ⟨_, rfl, ?_⟩
        intro p; constructor
        · intro h; cases h
        · rintro ⟨fs, hpre, hl, _, _⟩
          have := length_dotted fs; rw [← hpre] at this; omega
      · have hnt : ¬ (((pre.length : Int) - 2).tmod 2 ≠ 0) := fun h => hodd ((tmod_lemma pre.length).1 h)
        rw [if_neg hnt]
        obtain ⟨r, hr1, hr2⟩ := ipv6NetLoop_spec (pre.length / 2) pre.reverse v6tail
          ((pre ++ v6tail).length + 1) [] (by simp; omega) (by simp; omega) (by simp; omega)
        simp only [List.reverse_reverse, List.length_reverse] at hr1
        simp only [hr1]
        cases r with
        | error e =>
          refine ⟨_, rfl, ?_⟩
          intro p; constructor
          · intro h; cases h
          · rintro ⟨fs, hpre, hl, hx, _⟩
            have := v6Scan_dotted fs.reverse [] (by simpa using hx)
            rw [List.reverse_reverse, ← hpre, ← hr2] at this
            simp [okVal] at this
        | ok nibs =>
          simp only [okVal] at hr2
          obtain ⟨gs, h1, h2, h3⟩ := v6Scan_some (pre.length / 2) pre.reverse [] nibs (by simp; omega) hr2.symm
          have hpre : pre = dotted gs.reverse := by
            have := congrArg List.reverse h1; simpa using this
          simp only [List.nil_append] at h3
          have hgl : gs.length ≤ 32 := by
            have := length_dotted gs.reverse; rw [← hpre] at this; simp at this; omega
          have hpf := v6_model_prefix nibs (by rw [h3]; simpa using hgl)
          refine ⟨.ok (v6Prefix nibs), by simp [hpf], ?_⟩
          intro p; constructor
          · intro h; cases h
            exact ⟨gs.reverse, hpre, by simpa using hgl, by simpa using h2, by simp [h3]⟩
          · rintro ⟨fs, hpre', _, hx, hp⟩
            have := v6Scan_dotted fs.reverse [] (by simpa using hx)
            rw [List.reverse_reverse, ← hpre', ← hr2] at this
            simp at this
            rw [hp, this, List.map_reverse]


/-- shape of an accepted IPv6 prefix -/
def V6Shape (p : Prefix) : Prop :=
  ∃ ns : List Nat, ns.length ≤ 32 ∧ (∀ v ∈ ns, v < 16) ∧ p = v6Prefix ns

theorem option_ext {α : Type} (a b : Option α) (h : ∀ p, a = some p ↔ b = some p) : a = b := by
  cases a with
  | none =>
    cases b with
    | none => rfl
    | some y => exact absurd ((h y).2 rfl) (by simp)
  | some x => exact ((h x).1 rfl).symm

theorem subnetV6_total (pre : Bytes) :
    ∃ r, subnetFromReversedV6 (pre ++ v6tail) = .ok r ∧ (∀ p, r = .ok p → V6Shape p) := by
  obtain ⟨r, hr, hiff⟩ := subnetV6_model pre
  refine ⟨r, hr, ?_⟩
  intro p hp
  obtain ⟨fs, _, hl, hx, rfl⟩ := (hiff p).1 hp
  refine ⟨_, by simpa using hl, ?_, rfl⟩
  intro v hv
  simp only [List.mem_map, List.mem_reverse] at hv
  obtain ⟨c, hc, rfl⟩ := hv
  exact fromHexByte_lt c (hx c hc)

theorem subnetV6_spec (pre : Bytes) (hu : NoUpper pre) :
    ∃ r, subnetFromReversedV6 (pre ++ v6tail) = .ok r ∧
      okVal r = arpaPrefixSpec (splitOn 46 (pre ++ v6tail)) := by
  obtain ⟨r, hr, hiff⟩ := subnetV6_model pre
  refine ⟨r, hr, option_ext _ _ ?_⟩
  intro p
  rw [spec_v6_iff pre hu p, ← hiff p]
  cases r <;> simp [okVal]

end GolibsVerif.C05
