/-
`net/netip` formatter model, part 2: the IPv6 loop of the parser model (`v6Loop`) run on
colon-joined canonical hex groups, with and without a `::`.
-/
import GolibsVerif.Lemmas.NetipFmtBasic

namespace GolibsVerif.Netip
open GolibsVerif GolibsVerif.Str GolibsVerif.C04 GolibsVerif.Netutil

/-- the two bytes of every group -/
def bytesOf (gs : List Nat) : List Nat := gs.flatMap (fun x => [x / 256, x % 256])

theorem bytesOf_cons (x : Nat) (gs : List Nat) : bytesOf (x :: gs) = x / 256 :: x % 256 :: bytesOf gs := by
  simp [bytesOf]

theorem bytesOf_length (gs : List Nat) : (bytesOf gs).length = 2 * gs.length := by
  induction gs with
  | nil => rfl
  | cons x gs ih => rw [bytesOf_cons]; simp [ih]; omega

theorem bytesOf_append (a b : List Nat) : bytesOf (a ++ b) = bytesOf a ++ bytesOf b := by
  simp [bytesOf]

theorem bytesOf_replicate_zero (n : Nat) : bytesOf (List.replicate n 0) = List.replicate (2 * n) 0 := by
  induction n with
  | zero => rfl
  | succ n ih =>
    rw [List.replicate_succ, bytesOf_cons, ih, show 2 * (n + 1) = 2 * n + 1 + 1 by omega,
      List.replicate_succ, List.replicate_succ]

theorem hexVal_58 : hexVal 58 = none := by decide
theorem hexVal_46 : hexVal 46 = none := by decide
theorem hexVal_37 : hexVal 37 = none := by decide

theorem hex_ne {c : Nat} (h : (hexVal c).isSome = true) : c ≠ 58 ∧ c ≠ 46 ∧ c ≠ 37 := by
  refine ⟨?_, ?_, ?_⟩ <;> (intro e; subst e; revert h; decide)

/-! ### single steps -/

theorem step_last (x : Nat) (hx : x < 65536) (ip : List Nat) (el : Option Nat) :
    v6Step ⟨hexStr x, ip, el⟩ = .inl (some ⟨[], ip ++ [x / 256, x % 256], el⟩) := by
  have h := C02.v6Step_field (hexStr_fieldOK x hx [] (by simp)) ip el
  rw [List.append_nil] at h
  rw [h, (hexStr_spec x hx).2.2.2]
  simp

theorem step_colon (x : Nat) (hx : x < 65536) (c : Nat) (rest : Bytes) (hc : (hexVal c).isSome = true)
    (ip : List Nat) (el : Option Nat) :
    v6Step ⟨hexStr x ++ 58 :: c :: rest, ip, el⟩ = .inr ⟨c :: rest, ip ++ [x / 256, x % 256], el⟩ := by
  have hf : C02.FieldOK (hexStr x) (58 :: c :: rest) :=
    hexStr_fieldOK x hx _ (by intro c' h; simp at h; subst h; exact hexVal_58)
  rw [C02.v6Step_field hf, (hexStr_spec x hx).2.2.2]
  simp [(hex_ne hc).1]

theorem step_dcolon (x : Nat) (hx : x < 65536) (rest : Bytes) (ip : List Nat) :
    v6Step ⟨hexStr x ++ 58 :: 58 :: rest, ip, none⟩ =
      if rest = [] then .inl (some ⟨[], ip ++ [x / 256, x % 256], some (ip.length + 2)⟩)
      else .inr ⟨rest, ip ++ [x / 256, x % 256], some (ip.length + 2)⟩ := by
  have hf : C02.FieldOK (hexStr x) (58 :: 58 :: rest) :=
    hexStr_fieldOK x hx _ (by intro c' h; simp at h; subst h; exact hexVal_58)
  rw [C02.v6Step_field hf, (hexStr_spec x hx).2.2.2]
  simp

theorem colonJoin_head (y : Nat) (hy : y < 65536) (gs : List Nat) :
    ∃ c r, colonJoin (y :: gs) = c :: r ∧ (hexVal c).isSome = true := by
  obtain ⟨c, r, h1, h2⟩ := hexStr_head y hy
  exact ⟨c, r ++ sepGroups gs, by simp [colonJoin, h1], h2⟩

theorem colonJoin_cons_cons (x y : Nat) (gs : List Nat) :
    colonJoin (x :: y :: gs) = hexStr x ++ 58 :: colonJoin (y :: gs) := by
  simp [colonJoin, sepGroups_cons]

theorem v6Loop_succ (k : Nat) (st : V6State) (h : st.ip.length < 16) :
    v6Loop (k + 1) st = match v6Step st with
      | .inl r => r
      | .inr st' => v6Loop k st' := by
  simp only [v6Loop, h, if_true]
  rcases v6Step st with _ | _ <;> rfl

/-! ### runs of groups -/

/-- groups up to the end of the text -/
theorem loop_groups : ∀ (gs : List Nat) (x k : Nat) (ip : List Nat) (el : Option Nat),
    (∀ y ∈ x :: gs, y < 65536) → ip.length + 2 * (gs.length + 1) ≤ 16 →
    v6Loop (gs.length + 1 + k) ⟨colonJoin (x :: gs), ip, el⟩ = some ⟨[], ip ++ bytesOf (x :: gs), el⟩ := by
  intro gs
  induction gs with
  | nil =>
    intro x k ip el hlt hlen
    have hx := hlt x (by simp)
    rw [show ([] : List Nat).length + 1 + k = k + 1 by simp; omega,
      v6Loop_succ _ _ (by simp at hlen ⊢; omega)]
    simp only [colonJoin, sepGroups, List.flatMap_nil, List.append_nil]
    rw [step_last x hx]
    simp [bytesOf]
  | cons y gs ih =>
    intro x k ip el hlt hlen
    have hx := hlt x (by simp)
    have hy := hlt y (by simp)
    obtain ⟨c, r, hcr, hc⟩ := colonJoin_head y hy gs
    rw [show (y :: gs).length + 1 + k = (gs.length + 1 + k) + 1 by simp; omega,
      v6Loop_succ _ _ (by simp at hlen ⊢; omega)]
    simp only [colonJoin_cons_cons, hcr]
    rw [step_colon x hx c r hc]
    simp only
    rw [← hcr, ih y k _ el (fun z hz => hlt z (by simp at hz ⊢; exact Or.inr hz)) (by simp at hlen ⊢; omega)]
    simp [bytesOf_cons]

/-- groups followed by `::` -/
theorem loop_groups_ell : ∀ (gs : List Nat) (x k : Nat) (ip : List Nat) (t : Bytes) (e : Nat),
    (∀ y ∈ x :: gs, y < 65536) → ip.length + 2 * (gs.length + 1) ≤ 16 →
    e = ip.length + 2 * (gs.length + 1) →
    v6Loop (gs.length + 1 + k) ⟨colonJoin (x :: gs) ++ 58 :: 58 :: t, ip, none⟩ =
      if t = [] then some ⟨[], ip ++ bytesOf (x :: gs), some e⟩
      else v6Loop k ⟨t, ip ++ bytesOf (x :: gs), some e⟩ := by
  intro gs
  induction gs with
  | nil =>
    intro x k ip t e hlt hlen he
    have hx := hlt x (by simp)
    rw [show ([] : List Nat).length + 1 + k = k + 1 by simp; omega,
      v6Loop_succ _ _ (by simp at hlen ⊢; omega)]
    simp only [colonJoin, sepGroups, List.flatMap_nil, List.append_nil]
    rw [step_dcolon x hx]
    simp only [List.length_nil] at he
    subst he
    by_cases ht : t = []
    · simp [ht, bytesOf]
    · simp [ht, bytesOf]
  | cons y gs ih =>
    intro x k ip t e hlt hlen he
    have hx := hlt x (by simp)
    have hy := hlt y (by simp)
    obtain ⟨c, r, hcr, hc⟩ := colonJoin_head y hy gs
    rw [show (y :: gs).length + 1 + k = (gs.length + 1 + k) + 1 by simp; omega,
      v6Loop_succ _ _ (by simp at hlen ⊢; omega)]
    simp only [colonJoin_cons_cons, hcr, List.append_assoc, List.cons_append]
    rw [step_colon x hx c _ hc]
    simp only
    rw [show c :: (r ++ 58 :: 58 :: t) = colonJoin (y :: gs) ++ 58 :: 58 :: t by rw [hcr]; simp]
    rw [ih y k _ t e (fun z hz => hlt z (by simp at hz ⊢; exact Or.inr hz)) (by simp at hlen ⊢; omega)
      (by simp at he ⊢; omega)]
    simp [bytesOf_cons]

end GolibsVerif.Netip
