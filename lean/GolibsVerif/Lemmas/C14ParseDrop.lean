/-
C14 — the contract DUR-RT (`Spec/C14.lean`), verbatim, for the model of `time.ParseDuration`:
the round trip on every `int64`, and the two "drop" clauses for *every* text (a text ending in
`m` parses like the same text followed by `0s`; one ending in `h` like the same text followed
by `0m`).
-/
import GolibsVerif.Model.C14Parse
import GolibsVerif.Spec.C14
import GolibsVerif.Lemmas.C14ParseLocal
import GolibsVerif.Lemmas.C14ParseGolibs

namespace GolibsVerif.C14

/-- the running sum stays `≤ 2^63` (the test after `d += v`) -/
theorem parseLoop_bound : ∀ (n : Nat) (s : Bytes) (d d' : Nat), d ≤ two63 →
    parseLoop n s d = some d' → d' ≤ two63 := by
  intro n
  induction n with
  | zero =>
    intro s d d' hd h
    cases s with
    | nil => simp [parseLoop] at h; omega
    | cons c t => simp [parseLoop] at h
  | succ n ih =>
    intro s d d' hd h
    cases s with
    | nil => simp [parseLoop] at h; omega
    | cons c t =>
      simp only [parseLoop] at h
      cases hg : parseGroup (c :: t) with
      | none => simp [hg] at h
      | some vr =>
        obtain ⟨v, r⟩ := vr
        simp only [hg] at h
        split at h
        · cases h
        · exact ih _ _ _ (by omega) h

/-- the loop on `pre ++ [e] ++ z` is the loop on `pre ++ [e]` followed by the loop on `z` -/
theorem parseLoop_local (e : Nat) (he : IsUnitByte e) (z : Bytes) (hz : NumHead z) :
    ∀ (m : Nat) (pre : Bytes) (n d : Nat), (pre ++ [e]).length ≤ m → (pre ++ e :: z).length ≤ n →
    parseLoop n (pre ++ e :: z) d
      = (parseLoop m (pre ++ [e]) d).bind (fun d' => parseLoop z.length z d') := by
  intro m
  induction m with
  | zero => intro pre n d hm; simp at hm
  | succ m ih =>
    intro pre n d hm hn
    cases n with
    | zero => simp at hn
    | succ n =>
      have hs1 : ∃ c t1 t2, pre ++ [e] = c :: t1 ∧ pre ++ e :: z = c :: t2 := by
        cases pre with
        | nil => exact ⟨e, [], z, rfl, rfl⟩
        | cons c' p => exact ⟨c', p ++ [e], p ++ e :: z, rfl, rfl⟩
      obtain ⟨c, t1, t2, e1, e2⟩ := hs1
      have hg := parseGroup_local e he z hz pre
      rw [e1, e2] at hg
      rw [e1] at hm
      rw [e2] at hn
      rw [e1, e2]
      simp only [parseLoop, hg]
      cases hG : parseGroup (c :: t1) with
      | none => simp
      | some vr =>
        obtain ⟨v, r⟩ := vr
        have hlen1 := parseGroup_length _ _ _ hG
        have hlen2 : (r ++ z).length < (c :: t2).length :=
          parseGroup_length _ v _ (by rw [hg, hG]; rfl)
        simp only [Option.map]
        split
        · simp
        · rcases parseGroup_rest e he pre v r (by rw [e1]; exact hG) with rfl | ⟨r', rfl⟩
          · simp only [List.nil_append, parseLoop, Option.bind]
            simp only [List.nil_append, List.length_cons] at hlen2 hn
            cases m <;> exact parseLoop_fuel n z _ (by omega)
          · have : r' ++ [e] ++ z = r' ++ e :: z := by simp
            rw [this] at hlen2 ⊢
            simp only [List.length_cons] at hlen1 hlen2 hm hn
            exact ih r' n _ (by omega) (by omega)

/-- after the sign: a further group `0<u>` behind a text ending in the unit byte `e` -/
theorem parseAfterSign_append_zero (e u : Nat) (he : IsUnitByte e)
    (hu : parseGroup [48, u] = some (0, [])) (neg : Bool) (pre : Bytes) :
    parseAfterSign neg (pre ++ e :: [48, u]) = parseAfterSign neg (pre ++ [e]) := by
  have hz : NumHead [48, u] := by intro c t h; cases h; omega
  have h1 : pre ++ e :: [48, u] ≠ [48] := by
    intro h; have := congrArg List.length h
    simp only [List.length_append, List.length_cons, List.length_nil] at this; omega
  have h2 : pre ++ e :: [48, u] ≠ [] := by simp
  have h3 : pre ++ [e] ≠ [48] := by
    intro h
    have := congrArg List.getLast? h
    simp at this
    unfold IsUnitByte at he; omega
  have h4 : pre ++ [e] ≠ [] := by simp
  unfold parseAfterSign
  simp only [h1, h2, h3, h4, if_false]
  rw [parseLoop_local e he [48, u] hz (pre ++ [e]).length pre _ 0 (Nat.le_refl _) (Nat.le_refl _)]
  cases hl : parseLoop (pre ++ [e]).length (pre ++ [e]) 0 with
  | none => rfl
  | some d' =>
    have hb := parseLoop_bound _ _ 0 d' (by unfold two63; omega) hl
    have hm : (d' + 0) % 18446744073709551616 = d' := by
      unfold two63 at hb; rw [Nat.add_zero]; exact Nat.mod_eq_of_lt (by omega)
    have : parseLoop [48, u].length [48, u] d' = some d' := by
      show parseLoop (1 + 1) (48 :: [u]) d' = some d'
      have hc : ¬ (d' > two63) := by omega
      simp only [parseLoop, hu, hm, hc, if_false]
    simp only [Option.bind, this]

/-- a further group `0<u>` behind a text ending in `m` / `h` does not change what
`ParseDuration` returns (value or error) -/
theorem parseDuration_append_zero (e u : Nat) (he : IsUnitByte e) (hs : e ≠ 45 ∧ e ≠ 43)
    (hu : parseGroup [48, u] = some (0, [])) (pre : Bytes) :
    parseDuration ((pre ++ [e]) ++ [48, u]) = parseDuration (pre ++ [e]) := by
  cases pre with
  | nil =>
    show parseDuration (e :: [48, u]) = parseDuration [e]
    unfold parseDuration
    have h : ¬ (e = 45 ∨ e = 43) := by omega
    simp only [h, if_false]
    exact parseAfterSign_append_zero e u he hu false []
  | cons c p =>
    show parseDuration (c :: ((p ++ [e]) ++ [48, u])) = parseDuration (c :: (p ++ [e]))
    have e0 : (p ++ [e]) ++ [48, u] = p ++ e :: [48, u] := by simp
    unfold parseDuration
    by_cases h : c = 45 ∨ c = 43
    · simp only [h, if_true, e0]
      exact parseAfterSign_append_zero e u he hu _ p
    · simp only [h, if_false, e0]
      exact parseAfterSign_append_zero e u he hu false (c :: p)

/-- **DUR-RT holds for the model of `time.ParseDuration`.** -/
theorem durRT_parseDuration : DurRT parseDuration where
  rt := parse_stdString_all
  drop0s := by
    intro s d hl h
    obtain ⟨pre, rfl⟩ := List.getLast?_eq_some_iff.1 hl
    rw [parseDuration_append_zero 109 115 (by unfold IsUnitByte; omega) (by omega) (by decide) pre] at h
    exact h
  drop0m := by
    intro s d hl h
    obtain ⟨pre, rfl⟩ := List.getLast?_eq_some_iff.1 hl
    rw [parseDuration_append_zero 104 109 (by unfold IsUnitByte; omega) (by omega) (by decide) pre] at h
    exact h

end GolibsVerif.C14
