/-
The two binary searches of `unicode.SimpleFold` are complete on the regenerated tables:
`caseOrbit` has strictly increasing keys and `CaseRanges` consists of non-empty, increasing,
disjoint ranges (checked by kernel evaluation on the tables of `Gen/UniFold.lean`), so
`orbitSearch` finds the entry with a given key and `lookupCaseRange` the range containing a
given rune whenever there is one.  With the soundness lemmas of `Lemmas/Unicode.lean` this
gives the table semantics of the model: `simpleFold_ascii`, `simpleFold_of_orbit`,
`simpleFold_of_range` (and `simpleFold_cases` for the runes outside all tables).

Not needed for FOLD-1 (`fold1_model` uses only soundness of the searches plus evaluation);
it says that the model computes what the tables mean.
-/
import GolibsVerif.Lemmas.Unicode
namespace GolibsVerif.Unicode
open GolibsVerif.Gen.UniFold

/-! ## Completeness of the two binary searches on sorted tables -/

/-- keys strictly increasing (adjacent check) -/
def sortedKeys : List (Nat × Nat) → Bool
  | a :: b :: t => decide (a.1 < b.1) && sortedKeys (b :: t)
  | _ => true

/-- ranges non-empty, increasing and disjoint (adjacent check) -/
def sortedRanges : List CaseRange → Bool
  | a :: b :: t => decide (a.1 ≤ a.2.1) && decide (a.2.1 < b.1) && sortedRanges (b :: t)
  | [a] => decide (a.1 ≤ a.2.1)
  | [] => true

theorem sortedKeys_pairwise : ∀ (l : List (Nat × Nat)), sortedKeys l = true → l.Pairwise (fun a b => a.1 < b.1)
  | [], _ => List.Pairwise.nil
  | [a], _ => List.pairwise_singleton _ _
  | a :: b :: t, h => by
    simp only [sortedKeys, Bool.and_eq_true, decide_eq_true_eq] at h
    have ih := sortedKeys_pairwise (b :: t) h.2
    refine List.Pairwise.cons ?_ ih
    intro c hc
    rcases List.mem_cons.mp hc with rfl | hc
    · exact h.1
    · exact Nat.lt_trans h.1 (List.rel_of_pairwise_cons ih hc)

theorem sortedRanges_pairwise : ∀ (l : List CaseRange), sortedRanges l = true →
    l.Pairwise (fun a b => a.2.1 < b.1) ∧ ∀ a ∈ l, a.1 ≤ a.2.1
  | [], _ => ⟨List.Pairwise.nil, by simp⟩
  | [a], h => by
    simp only [sortedRanges, decide_eq_true_eq] at h
    exact ⟨List.pairwise_singleton _ _, by simpa using h⟩
  | a :: b :: t, h => by
    simp only [sortedRanges, Bool.and_eq_true, decide_eq_true_eq] at h
    obtain ⟨ih1, ih2⟩ := sortedRanges_pairwise (b :: t) h.2
    refine ⟨List.Pairwise.cons ?_ ih1, ?_⟩
    · intro c hc
      rcases List.mem_cons.mp hc with rfl | hc
      · exact h.1.2
      · have h1 := List.rel_of_pairwise_cons ih1 hc
        have h2 := ih2 b List.mem_cons_self
        omega
    · intro c hc
      rcases List.mem_cons.mp hc with rfl | hc
      · exact h.1.1
      · exact ih2 c hc

/-- On a table with strictly increasing keys the search loop of `SimpleFold` computes the
partition point of `[lo, hi)`: the keys before the result are `< r`, those from it on are `≥ r`. -/
theorem orbitSearch_spec {tbl : Array (Nat × Nat)} {r : Nat}
    (hs : ∀ (a b : Nat) (_ : a < b) (hb : b < tbl.size), tbl[a].1 < tbl[b].1) :
    ∀ (fuel lo hi : Nat) (hh : hi ≤ tbl.size), lo ≤ hi → hi - lo ≤ fuel →
      lo ≤ orbitSearch tbl r fuel lo hi hh ∧ orbitSearch tbl r fuel lo hi hh ≤ hi ∧
      (∀ (a : Nat) (ha : a < tbl.size), lo ≤ a → a < orbitSearch tbl r fuel lo hi hh → tbl[a].1 < r) ∧
      (∀ (a : Nat) (ha : a < tbl.size), orbitSearch tbl r fuel lo hi hh ≤ a → a < hi → r ≤ tbl[a].1)
  | 0, lo, hi, hh, h1, h2 => by
    simp only [orbitSearch]
    exact ⟨Nat.le_refl _, h1, fun a _ _ _ => by omega, fun a _ _ _ => by omega⟩
  | fuel + 1, lo, hi, hh, h1, h2 => by
    rw [orbitSearch]
    by_cases h : lo < hi
    · rw [dif_pos h]
      simp only
      have hm := mid_lt h hh
      have hm1 : lo ≤ (lo + hi) >>> 1 := by simp only [Nat.shiftRight_eq_div_pow]; omega
      have hm2 : (lo + hi) >>> 1 < hi := by simp only [Nat.shiftRight_eq_div_pow]; omega
      split
      · next hlt =>
        obtain ⟨i1, i2, i3, i4⟩ := orbitSearch_spec (r := r) hs fuel (((lo + hi) >>> 1) + 1) hi hh (by omega) (by omega)
        refine ⟨by omega, i2, ?_, i4⟩
        intro a ha hla hres
        by_cases ham : a ≤ ((lo + hi) >>> 1)
        · by_cases ham' : a = ((lo + hi) >>> 1)
          · subst ham'; exact hlt
          · exact Nat.lt_trans (hs a ((lo + hi) >>> 1) (by omega) hm) hlt
        · exact i3 a ha (by omega) hres
      · next hge =>
        obtain ⟨i1, i2, i3, i4⟩ := orbitSearch_spec (r := r) hs fuel lo ((lo + hi) >>> 1) (Nat.le_of_lt hm) hm1 (by omega)
        refine ⟨i1, by omega, i3, ?_⟩
        intro a ha hres hahi
        by_cases ham : a < ((lo + hi) >>> 1)
        · exact i4 a ha hres ham
        · by_cases ham' : a = ((lo + hi) >>> 1)
          · subst ham'; omega
          · have := hs ((lo + hi) >>> 1) a (by omega) ha
            omega
    · rw [dif_neg h]
      exact ⟨Nat.le_refl _, h1, fun a _ _ _ => by omega, fun a _ _ _ => by omega⟩

/-- … so it ends at the entry with key `r`, if there is one. -/
theorem orbitSearch_complete {tbl : Array (Nat × Nat)} {r i : Nat} (hi : i < tbl.size)
    (hs : ∀ (a b : Nat) (_ : a < b) (hb : b < tbl.size), tbl[a].1 < tbl[b].1)
    (hk : tbl[i].1 = r) :
    orbitSearch tbl r tbl.size 0 tbl.size (Nat.le_refl _) = i := by
  obtain ⟨_, h2, h3, h4⟩ := orbitSearch_spec (r := r) hs tbl.size 0 tbl.size (Nat.le_refl _) (Nat.zero_le _) (by omega)
  generalize orbitSearch tbl r tbl.size 0 tbl.size (Nat.le_refl _) = res at h2 h3 h4
  by_cases h : i < res
  · have := h3 i hi (Nat.zero_le _) h; omega
  · by_cases h' : i = res
    · exact h'.symm
    · have hres : res < tbl.size := by omega
      have := h4 res hres (Nat.le_refl _) hres
      have := hs res i (by omega) hi
      omega

/-- On a table of non-empty, increasing, disjoint ranges, `lookupCaseRange` answers `nil` only
if no range of `[lo, hi)` contains the rune. -/
theorem lookupCaseRangeLoop_none {tbl : Array CaseRange} {r : Nat}
    (hs : ∀ (a b : Nat) (_ : a < b) (hb : b < tbl.size), tbl[a].2.1 < tbl[b].1)
    (hne : ∀ (a : Nat) (ha : a < tbl.size), tbl[a].1 ≤ tbl[a].2.1) :
    ∀ (fuel lo hi : Nat) (hh : hi ≤ tbl.size), hi - lo ≤ fuel →
      lookupCaseRangeLoop tbl r fuel lo hi hh = none →
      ∀ (a : Nat) (ha : a < tbl.size), lo ≤ a → a < hi → ¬ inRange tbl[a] r
  | 0, lo, hi, hh, h2, _ => fun a _ _ _ => by omega
  | fuel + 1, lo, hi, hh, h2, hnone => by
    rw [lookupCaseRangeLoop] at hnone
    by_cases h : lo < hi
    · rw [dif_pos h] at hnone
      simp only at hnone
      have hm := mid_lt h hh
      have hm1 : lo ≤ (lo + hi) >>> 1 := by simp only [Nat.shiftRight_eq_div_pow]; omega
      have hm2 : (lo + hi) >>> 1 < hi := by simp only [Nat.shiftRight_eq_div_pow]; omega
      split at hnone
      · cases hnone
      · next hnot =>
        split at hnone
        · next hlt =>
          have ih := lookupCaseRangeLoop_none hs hne fuel lo ((lo + hi) >>> 1) (Nat.le_of_lt hm) (by omega) hnone
          intro a ha hla hahi
          by_cases ham : a < ((lo + hi) >>> 1)
          · exact ih a ha hla ham
          · by_cases ham' : a = ((lo + hi) >>> 1)
            · subst ham'; exact hnot
            · have := hs ((lo + hi) >>> 1) a (by omega) ha
              have := hne ((lo + hi) >>> 1) hm
              unfold inRange; omega
        · next hge =>
          have ih := lookupCaseRangeLoop_none hs hne fuel (((lo + hi) >>> 1) + 1) hi hh (by omega) hnone
          intro a ha hla hahi
          by_cases ham : ((lo + hi) >>> 1) < a
          · exact ih a ha ham hahi
          · by_cases ham' : a = ((lo + hi) >>> 1)
            · subst ham'; exact hnot
            · have := hs a ((lo + hi) >>> 1) (by omega) hm
              unfold inRange; omega
    · intro a _ _ _; omega

/-- … so it returns the range that contains the rune, if there is one. -/
theorem lookupCaseRange_complete {tbl : Array CaseRange} {r i : Nat} (hi : i < tbl.size)
    (hs : ∀ (a b : Nat) (_ : a < b) (hb : b < tbl.size), tbl[a].2.1 < tbl[b].1)
    (hne : ∀ (a : Nat) (ha : a < tbl.size), tbl[a].1 ≤ tbl[a].2.1)
    (hin : inRange tbl[i] r) : lookupCaseRange r tbl = some tbl[i] := by
  cases hres : lookupCaseRange r tbl with
  | none =>
    exact absurd hin (lookupCaseRangeLoop_none hs hne _ _ _ _ (by omega) hres i hi (Nat.zero_le _) hi)
  | some cr =>
    obtain ⟨hmem, hc⟩ := lookupCaseRange_some hres
    obtain ⟨j, hj, rfl⟩ := List.mem_iff_getElem.mp hmem
    simp only [Array.length_toList] at hj
    simp only [Array.getElem_toList] at hc ⊢
    have : j = i := by
      unfold inRange at hc hin
      by_cases h1 : j < i
      · have := hs j i h1 hi; omega
      · by_cases h2 : i < j
        · have := hs i j h2 hj; omega
        · omega
    subst this; rfl

/-! ## The regenerated tables are sorted -/

theorem caseOrbit_sorted : sortedKeys caseOrbit = true := by decide +kernel

theorem caseRanges_sorted : sortedRanges caseRanges = true := by decide +kernel

/-- For every range and every case, the delta is the `UpperLower` sentinel or `r + delta` stays
within `[0, MaxInt32]` for all runes of the range: `Int.toNat` in `convertCase` is the identity
and Go's `int32` addition does not wrap. -/
def deltaOk (cr : CaseRange) : Bool :=
  [cr.2.2.1, cr.2.2.2.1, cr.2.2.2.2].all fun d =>
    decide (d = upperLower) ||
      (decide (d ≤ (maxRune : Int)) && decide (0 ≤ (cr.1 : Int) + d) && decide ((cr.2.1 : Int) + d ≤ 2147483647))

theorem caseRanges_delta_ok : caseRanges.all deltaOk = true := by decide +kernel

theorem caseOrbitA_sorted (a b : Nat) (hab : a < b) (hb : b < caseOrbitA.size) :
    caseOrbitA[a].1 < caseOrbitA[b].1 := by
  have h := List.pairwise_iff_getElem.mp (sortedKeys_pairwise _ caseOrbit_sorted)
  have hb' : b < caseOrbit.length := by simpa [caseOrbitA] using hb
  simpa [caseOrbitA] using h a b (by omega) hb' hab

theorem caseRangesA_sorted (a b : Nat) (hab : a < b) (hb : b < caseRangesA.size) :
    caseRangesA[a].2.1 < caseRangesA[b].1 := by
  have h := List.pairwise_iff_getElem.mp (sortedRanges_pairwise _ caseRanges_sorted).1
  have hb' : b < caseRanges.length := by simpa [caseRangesA] using hb
  simpa [caseRangesA] using h a b (by omega) hb' hab

theorem caseRangesA_nonempty (a : Nat) (ha : a < caseRangesA.size) : caseRangesA[a].1 ≤ caseRangesA[a].2.1 := by
  have ha' : a < caseRanges.length := by simpa [caseRangesA] using ha
  have := (sortedRanges_pairwise _ caseRanges_sorted).2 caseRanges[a] (List.getElem_mem ha')
  simpa [caseRangesA] using this

/-! ## Table semantics of the model -/

theorem maxRune_ge : 128 ≤ maxRune := by decide

/-- an ASCII rune folds to its `asciiFold` entry -/
theorem simpleFold_ascii {r : Nat} (h : r < 128) : asciiFold[r]? = some (simpleFold r) := by
  have hsz : r < asciiFoldA.size := by rw [asciiFoldA_size]; exact h
  have hmax : ¬ r > maxRune := by have := maxRune_ge; omega
  unfold simpleFold
  rw [if_neg hmax, dif_pos hsz]
  simp [asciiFoldA]

/-- a non-ASCII rune `≤ MaxRune` that is the `From` of a `caseOrbit` entry folds to its `To` -/
theorem simpleFold_of_orbit {r : Nat} (h1 : 128 ≤ r) (h2 : r ≤ maxRune) {e : Nat × Nat}
    (he : e ∈ caseOrbit) (hk : e.1 = r) : simpleFold r = e.2 := by
  obtain ⟨i, hi, rfl⟩ := List.mem_iff_getElem.mp he
  have hi' : i < caseOrbitA.size := by simpa [caseOrbitA] using hi
  have hk' : caseOrbitA[i].1 = r := by simpa [caseOrbitA] using hk
  have hs := orbitSearch_complete hi' caseOrbitA_sorted hk'
  unfold simpleFold
  rw [if_neg (by omega), dif_neg (by rw [asciiFoldA_size]; omega)]
  simp only [hs]
  rw [dif_pos hi', if_pos hk']
  simp [caseOrbitA]

/-- a non-ASCII rune `≤ MaxRune` that is no `caseOrbit` key and lies in the range `cr` of
`CaseRanges` folds to its lower case if that differs from it, else to its upper case, both
by `convertCase` on `cr` -/
theorem simpleFold_of_range {r : Nat} (h1 : 128 ≤ r) (h2 : r ≤ maxRune)
    (hno : ∀ e ∈ caseOrbit, e.1 ≠ r) {cr : CaseRange} (hcr : cr ∈ caseRanges) (hin : inRange cr r) :
    simpleFold r =
      if convertCase LowerCase r cr ≠ r then convertCase LowerCase r cr else convertCase UpperCase r cr := by
  obtain ⟨i, hi, rfl⟩ := List.mem_iff_getElem.mp hcr
  have hi' : i < caseRangesA.size := by simpa [caseRangesA] using hi
  have hin' : inRange caseRangesA[i] r := by simpa [caseRangesA] using hin
  have hl := lookupCaseRange_complete hi' caseRangesA_sorted caseRangesA_nonempty hin'
  have hF : foldByCaseRange r =
      if convertCase LowerCase r caseRanges[i] ≠ r then convertCase LowerCase r caseRanges[i]
      else convertCase UpperCase r caseRanges[i] := by
    unfold foldByCaseRange
    rw [hl]
    simp only [caseRangesA, List.getElem_toArray]
    rfl
  unfold simpleFold
  rw [if_neg (by omega), dif_neg (by rw [asciiFoldA_size]; omega)]
  simp only
  split
  · split
    · next hlo hk =>
      exact absurd hk (hno _ (by simp [caseOrbitA]))
    · exact hF
  · exact hF

end GolibsVerif.Unicode
