/-
`partialInsertionSortCmpFunc` of `Go/Sort.lean`.

For an arbitrary comparator its left shifting loop (`for j := i - 1; j >= 1; j--`, bounded by the
literal 1, not by `a`) may move elements of `[0, a)`: it succeeds and permutes `[0, b)`.
For a strict weak order, if `data[a-1]` is a lower bound of `[a, b)` (the invariant `LB` of
pdqsort) the loop stops at `a`, only `[a, b)` is permuted, and the answer `true` means that
`[a, b)` is sorted.
-/
import GolibsVerif.Lemmas.SortInsertion

namespace GolibsVerif.Slices

variable {α : Type}

/-- the invariant of pdqsort: if `a > 0`, no element of `[a, b)` is less than `data[a-1]` -/
def LB (cmp : α → α → Int) (d : Array α) (a b : Int) : Prop :=
  a > 0 → ∀ k x m, a ≤ k → k < b → at? d k = some x → at? d (a - 1) = some m → ¬ cmp x m < 0

theorem LB.frame {cmp : α → α → Int} {d d' : Array α} {a b : Int} (h : LB cmp d a b)
    (hf : Frame d d' a b) (ha : 0 ≤ a) : LB cmp d' a b := by
  intro ha0 k x m hk1 hk2 hx hm
  rw [hf.out (a - 1) (by omega)] at hm
  have hall : AllOn (fun x => ¬ cmp x m < 0) d a b := fun k x hk1 hk2 hx => h ha0 k x m hk1 hk2 hx hm
  exact hf.allOn ha hall k x hk1 hk2 hx

theorem LB.sub {cmp : α → α → Int} {d : Array α} {a b b' : Int} (h : LB cmp d a b) (hb : b' ≤ b) :
    LB cmp d a b' :=
  fun ha0 k x m hk1 hk2 hx hm => h ha0 k x m hk1 (by omega) hx hm

theorem SortedOn.frame_out {cmp : α → α → Int} {d d' : Array α} {a b lo hi : Int} (h : SortedOn cmp d a b)
    (hf : Frame d d' lo hi) (hd : b ≤ lo ∨ hi ≤ a) : SortedOn cmp d' a b := by
  intro p q x y hp hpq hq hx hy
  rw [hf.out p (by omega)] at hx
  rw [hf.out q (by omega)] at hy
  exact h p q x y hp hpq hq hx hy

/-! ### the loops -/

theorem scanSorted_spec (cmp : α → α → Int) (a b : Int) : ∀ (n : Nat) (d : Array α) (i : Int),
    (b - i).toNat = n → 0 ≤ a → a < i → i ≤ b → b ≤ d.size →
    ∃ i', scanSorted cmp d i b = .ok i' ∧ i ≤ i' ∧ i' ≤ b ∧
      (i' < b → ∀ x y, at? d i' = some x → at? d (i' - 1) = some y → cmp x y < 0) ∧
      (WeakCmp cmp → SortedOn cmp d a i → SortedOn cmp d a i') := by
  intro n
  induction n with
  | zero =>
    intro d i hn ha hai hib hb
    have : ¬ i < b := by omega
    rw [scanSorted]
    rw [if_neg this]
    exact ⟨i, rfl, Int.le_refl _, hib, by intro h; omega, fun _ h => h⟩
  | succ n ih =>
    intro d i hn ha hai hib hb
    have hlt : i < b := by omega
    obtain ⟨x, hx⟩ := at?_eq_some (d := d) (i := i) (by omega) (by omega)
    obtain ⟨y, hy⟩ := at?_eq_some (d := d) (i := i - 1) (by omega) (by omega)
    rw [scanSorted]
    simp only [hlt, if_true, get_ok hx, get_ok hy, ok_bind]
    split
    · rename_i hc
      have hc' : ¬ cmp x y < 0 := by simpa using hc
      obtain ⟨i', h1, h2, h3, h4, h5⟩ := ih d (i + 1) (by omega) ha (by omega) (by omega) hb
      refine ⟨i', h1, by omega, h3, h4, ?_⟩
      intro hw hs
      apply h5 hw
      intro p q u v hp hpq hq hu hv
      unfold SortedOn at hs
      have := hw.le_trans
      have := hs p (i - 1)
      grind
    · rename_i hc
      have hc' : cmp x y < 0 := by simpa using hc
      refine ⟨i, rfl, Int.le_refl _, hib, ?_, fun _ h => h⟩
      intro _ u v hu hv
      rw [hx] at hu; rw [hy] at hv; cases hu; cases hv; exact hc'

theorem shiftLeft_spec (cmp : α → α → Int) (i0 : Int) : ∀ (n : Nat) (d : Array α) (j : Int),
    j.toNat = n → 0 ≤ j → j ≤ i0 → i0 < d.size →
    ∃ d', shiftLeft cmp d j = .ok d' ∧ Frame d d' 0 (j + 1) ∧
      (WeakCmp cmp → ∀ a, 0 ≤ a → a ≤ j → LB cmp d a (i0 + 1) → InsInv cmp d a j i0 →
        Frame d d' a (j + 1) ∧ SortedOn cmp d' a (i0 + 1)) := by
  intro n
  induction n with
  | zero =>
    intro d j hn hj hji hi
    have : ¬ j ≥ 1 := by omega
    rw [shiftLeft]
    rw [if_neg this]
    refine ⟨d, rfl, Frame.refl .., ?_⟩
    intro _ a ha haj _ hinv
    refine ⟨Frame.refl .., ?_⟩
    intro p q u v hp hpq hq hu hv
    unfold InsInv at hinv
    grind
  | succ n ih =>
    intro d j hn hj hji hi
    have hj1 : j ≥ 1 := by omega
    obtain ⟨x, hx⟩ := at?_eq_some (d := d) (i := j) (by omega) (by omega)
    obtain ⟨y, hy⟩ := at?_eq_some (d := d) (i := j - 1) (by omega) (by omega)
    rw [shiftLeft]
    simp only [hj1, if_true, get_ok hx, get_ok hy, ok_bind]
    split
    · rename_i hc
      have hc' : ¬ cmp x y < 0 := by simpa using hc
      refine ⟨d, rfl, Frame.refl .., ?_⟩
      intro hw a ha haj _ hinv
      refine ⟨Frame.refl .., ?_⟩
      intro p q u v hp hpq hq hu hv
      unfold InsInv at hinv
      have := hw.le_trans
      have := hinv p (j - 1)
      grind
    · rename_i hc
      have hc' : cmp x y < 0 := by simpa using hc
      obtain ⟨d1, hs, hf1, hat⟩ := swap_frame (d := d) (i := j) (j := j - 1) (a := 0) (b := j + 1)
        (Int.le_refl _) (by omega) (by omega) (by omega)
      simp only [hs, ok_bind]
      obtain ⟨d2, h2, hf2, hw2⟩ := ih d1 (j - 1) (by omega) (by omega) (by omega) (by rw [hf1.size]; exact hi)
      refine ⟨d2, h2, hf1.trans (hf2.mono (Int.le_refl _) (by omega)), ?_⟩
      intro hw a ha haj hlb hinv
      have hja : a < j := by
        by_cases e : a = j
        · subst e
          exact absurd hc' (hlb (by omega) a x y (Int.le_refl _) (by omega) hx hy)
        · omega
      obtain ⟨d1', hs', hf1', _⟩ := swap_frame (d := d) (i := j) (j := j - 1) (a := a) (b := j + 1)
        ha (by omega) (by omega) (by omega)
      rw [hs] at hs'; cases hs'
      have hlb1 : LB cmp d1 a (i0 + 1) := hlb.frame (hf1'.mono (Int.le_refl _) (by omega)) ha
      have hinv1 : InsInv cmp d1 a (j - 1) i0 := by
        intro p q u v hp hpq hq hne hu hv
        have hasym := hw.asymm hc'
        rw [hat] at hu hv
        unfold InsInv at hinv
        grind
      obtain ⟨hf2', hs2⟩ := hw2 hw a ha (by omega) hlb1 hinv1
      exact ⟨hf1'.trans (hf2'.mono (Int.le_refl _) (by omega)), hs2⟩

theorem shiftRight_spec (cmp : α → α → Int) (lo b : Int) : ∀ (n : Nat) (d : Array α) (j : Int),
    (b - j).toNat = n → 0 ≤ lo → lo < j → b ≤ d.size →
    ∃ d', shiftRight cmp d j b = .ok d' ∧ Frame d d' lo b := by
  intro n
  induction n with
  | zero =>
    intro d j hn hlo hj hb
    have : ¬ j < b := by omega
    rw [shiftRight]
    rw [if_neg this]
    exact ⟨d, rfl, Frame.refl ..⟩
  | succ n ih =>
    intro d j hn hlo hj hb
    have hlt : j < b := by omega
    obtain ⟨x, hx⟩ := at?_eq_some (d := d) (i := j) (by omega) (by omega)
    obtain ⟨y, hy⟩ := at?_eq_some (d := d) (i := j - 1) (by omega) (by omega)
    rw [shiftRight]
    simp only [hlt, if_true, get_ok hx, get_ok hy, ok_bind]
    split
    · exact ⟨d, rfl, Frame.refl ..⟩
    · obtain ⟨d1, hs, hf1, _⟩ := swap_frame (d := d) (i := j) (j := j - 1) (a := lo) (b := b)
        hlo hb (by omega) (by omega)
      simp only [hs, ok_bind]
      obtain ⟨d2, h2, hf2⟩ := ih d1 (j + 1) (by omega) hlo (by omega) (by rw [hf1.size]; exact hb)
      exact ⟨d2, h2, hf1.trans hf2⟩

theorem partialInsertionLoop_spec (cmp : α → α → Int) (a b : Int) : ∀ (n : Nat) (d : Array α) (i j : Int),
    (maxSteps - j).toNat = n → 0 ≤ a → a < i → i ≤ b → b ≤ d.size →
    ∃ d' r, partialInsertionLoop cmp d a b i j = .ok (d', r) ∧ Frame d d' 0 b ∧
      (WeakCmp cmp → LB cmp d a b → SortedOn cmp d a i →
        Frame d d' a b ∧ (r = true → SortedOn cmp d' a b)) := by
  intro n
  induction n with
  | zero =>
    intro d i j hn ha hai hib hb
    have : ¬ j < maxSteps := by omega
    rw [partialInsertionLoop]
    rw [if_neg this]
    exact ⟨d, false, rfl, Frame.refl .., fun _ _ _ => ⟨Frame.refl .., by intro h; cases h⟩⟩
  | succ n ih =>
    intro d i j hn ha hai hib hb
    have hlt : j < maxSteps := by omega
    rw [partialInsertionLoop]
    rw [if_pos hlt]
    obtain ⟨i', h1, hi1, hi2, hi3, hi4⟩ := scanSorted_spec cmp a b _ d i rfl ha hai hib hb
    simp only [h1, ok_bind]
    split
    · rename_i hib'
      subst hib'
      exact ⟨d, true, rfl, Frame.refl .., fun hw _ hs => ⟨Frame.refl .., fun _ => hi4 hw hs⟩⟩
    · rename_i hne
      split
      · exact ⟨d, false, rfl, Frame.refl .., fun _ _ _ => ⟨Frame.refl .., by intro h; cases h⟩⟩
      · have hi'b : i' < b := by omega
        obtain ⟨x, hx⟩ := at?_eq_some (d := d) (i := i') (by omega) (by omega)
        obtain ⟨y, hy⟩ := at?_eq_some (d := d) (i := i' - 1) (by omega) (by omega)
        have hc := hi3 hi'b x y hx hy
        -- the swap
        obtain ⟨d1, hs1, hf1, hat1⟩ := swap_frame (d := d) (i := i') (j := i' - 1) (a := a) (b := b)
          ha hb (by omega) (by omega)
        have hb1 : b ≤ d1.size := by rw [hf1.size]; exact hb
        -- shift the smaller one to the left
        have hL : ∃ d2, (if i' - a ≥ 2 then shiftLeft cmp d1 (i' - 1) else pure d1) = .ok d2 ∧
            Frame d1 d2 0 i' ∧
            (WeakCmp cmp → LB cmp d a b → SortedOn cmp d a i → Frame d1 d2 a i' ∧ SortedOn cmp d2 a i') := by
          have hinv1 : WeakCmp cmp → SortedOn cmp d a i → InsInv cmp d1 a (i' - 1) (i' - 1) := by
            intro hw hs p q u v hp hpq hq hne hu hv
            rw [hat1] at hu hv
            have := hi4 hw hs
            unfold SortedOn at this
            grind
          split
          · obtain ⟨d2, h2, hf2, hw2⟩ := shiftLeft_spec cmp (i' - 1) _ d1 (i' - 1) rfl (by omega)
              (Int.le_refl _) (by omega)
            have e : i' - 1 + 1 = i' := by omega
            rw [e] at hf2 hw2
            refine ⟨d2, h2, hf2, ?_⟩
            intro hw hlb hs
            exact hw2 hw a ha (by omega) ((hlb.frame hf1 ha).sub (by omega)) (hinv1 hw hs)
          · refine ⟨d1, rfl, Frame.refl .., ?_⟩
            intro hw _ hs
            refine ⟨Frame.refl .., ?_⟩
            intro p q u v hp hpq hq
            omega
        obtain ⟨d2, h2, hf2, hw2⟩ := hL
        have hb2 : b ≤ d2.size := by rw [hf2.size]; exact hb1
        -- shift the greater one to the right
        have hR : ∃ d3, (if b - i' ≥ 2 then shiftRight cmp d2 (i' + 1) b else pure d2) = .ok d3 ∧
            Frame d2 d3 i' b := by
          split
          · exact shiftRight_spec cmp i' b _ d2 (i' + 1) rfl (by omega) (by omega) hb2
          · exact ⟨d2, rfl, Frame.refl ..⟩
        obtain ⟨d3, h3, hf3⟩ := hR
        have hb3 : b ≤ d3.size := by rw [hf3.size]; exact hb2
        obtain ⟨d4, r, h4, hf4, hw4⟩ := ih d3 i' (j + 1) (by simp only [maxSteps] at *; omega) ha (by omega) hi2 hb3
        simp only [hs1, h2, h3, h4, ok_bind]
        refine ⟨d4, r, rfl, ?_, ?_⟩
        · exact (hf1.mono ha (Int.le_refl _)).trans ((hf2.mono (Int.le_refl _) (by omega)).trans
            ((hf3.mono (by omega) (Int.le_refl _)).trans hf4))
        · intro hw hlb hs
          obtain ⟨hf2', hs2⟩ := hw2 hw hlb hs
          have hf13 : Frame d d3 a b :=
            hf1.trans ((hf2'.mono (Int.le_refl _) (by omega)).trans (hf3.mono (by omega) (Int.le_refl _)))
          obtain ⟨hf4', hs4⟩ := hw4 hw (hlb.frame hf13 ha) (hs2.frame_out hf3 (Or.inl (Int.le_refl _)))
          exact ⟨hf13.trans hf4', hs4⟩

theorem partialInsertionSort_spec (cmp : α → α → Int) (d : Array α) (a b : Int) (ha : 0 ≤ a) (hab : a < b)
    (hb : b ≤ d.size) :
    ∃ d' r, partialInsertionSort cmp d a b = .ok (d', r) ∧ Frame d d' 0 b ∧
      (WeakCmp cmp → LB cmp d a b → Frame d d' a b ∧ (r = true → SortedOn cmp d' a b)) := by
  obtain ⟨d', r, h1, hf, hw⟩ := partialInsertionLoop_spec cmp a b _ d (a + 1) 0 rfl ha (by omega) (by omega) hb
  refine ⟨d', r, h1, hf, fun hw' hlb => hw hw' hlb ?_⟩
  intro p q u v hp hpq hq
  omega

end GolibsVerif.Slices
