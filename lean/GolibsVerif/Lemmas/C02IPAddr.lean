import GolibsVerif.Lemmas.C02IPv6

/-! C02, dispatch part: `IsValidIPString` vs `netip.ParseAddr` (first of `.`/`:`/`%`, the
`maxSignificant` cut-off, zones) and `IsValidIPPortString` vs `netip.ParseAddrPort`. -/
namespace GolibsVerif.C02
open GolibsVerif.Netutil GolibsVerif.Str GolibsVerif.Netip GolibsVerif

/-! ### `strings.Cut`, `IndexByte`, `LastIndexByte` -/

theorem cut_append_sep (c : Nat) (b a : Bytes) (h : c ∉ b) : cut c (b ++ c :: a) = (b, a, true) := by
  induction b with
  | nil => simp [cut]
  | cons x t ih =>
    have hx : x ≠ c := by intro hx; apply h; simp [hx]
    have ht : c ∉ t := by intro ht; apply h; simp [ht]
    simp [cut, hx, ih ht]

theorem cut_not_mem (c : Nat) (s : Bytes) (h : c ∉ s) : cut c s = (s, [], false) := by
  induction s with
  | nil => simp [cut]
  | cons x t ih =>
    have hx : x ≠ c := by intro hx; apply h; simp [hx]
    have ht : c ∉ t := by intro ht; apply h; simp [ht]
    simp [cut, hx, ih ht]

/-- every string either lacks `c` or splits at its first `c` -/
theorem first_cases (c : Nat) (s : Bytes) : c ∉ s ∨ ∃ b a, s = b ++ c :: a ∧ c ∉ b := by
  induction s with
  | nil => left; simp
  | cons x t ih =>
    by_cases hx : x = c
    · right; exact ⟨[], t, by simp [hx], by simp⟩
    · rcases ih with h | ⟨b, a, rfl, hb⟩
      · left; simp [h, Ne.symm hx]
      · right; exact ⟨x :: b, a, by simp, by simp [hb, Ne.symm hx]⟩

theorem indexByteFrom_not_mem (c : Nat) (s : Bytes) (i : Nat) (h : c ∉ s) :
    indexByteFrom c s i = -1 := by
  induction s generalizing i with
  | nil => simp [indexByteFrom]
  | cons x t ih =>
    have hx : x ≠ c := by intro hx; apply h; simp [hx]
    have ht : c ∉ t := by intro ht; apply h; simp [ht]
    simp [indexByteFrom, hx, ih _ ht]

theorem indexByteFrom_append_sep (c : Nat) (b a : Bytes) (i : Nat) (h : c ∉ b) :
    indexByteFrom c (b ++ c :: a) i = ((i + b.length : Nat) : Int) := by
  induction b generalizing i with
  | nil => simp [indexByteFrom]
  | cons x t ih =>
    have hx : x ≠ c := by intro hx; apply h; simp [hx]
    have ht : c ∉ t := by intro ht; apply h; simp [ht]
    simp only [List.cons_append, indexByteFrom, hx, if_false, ih _ ht, List.length_cons]
    congr 1; omega

theorem indexByte_not_mem (c : Nat) (s : Bytes) (h : c ∉ s) : indexByte s c = -1 :=
  indexByteFrom_not_mem c s 0 h

theorem indexByte_append_sep (c : Nat) (b a : Bytes) (h : c ∉ b) :
    indexByte (b ++ c :: a) c = (b.length : Int) := by
  unfold indexByte
  rw [indexByteFrom_append_sep c b a 0 h]; simp

theorem lastIndexByte_not_mem (c : Nat) (s : Bytes) (h : c ∉ s) : lastIndexByte s c = -1 := by
  unfold lastIndexByte
  rw [indexByte_not_mem c s.reverse (by simpa using h)]
  rfl

theorem lastIndexByte_append_sep (c : Nat) (a b : Bytes) (h : c ∉ b) :
    lastIndexByte (a ++ c :: b) c = (a.length : Int) := by
  unfold lastIndexByte
  have : (a ++ c :: b).reverse = b.reverse ++ c :: a.reverse := by simp
  rw [this, indexByte_append_sep c b.reverse a.reverse (by simpa using h)]
  simp only [List.length_reverse, List.length_append, List.length_cons]
  show ((a.length + (b.length + 1) : Nat) : Int) - 1 - (b.length : Int) = (a.length : Int)
  omega

/-- every string either lacks `c` or splits at its last `c` -/
theorem last_cases (c : Nat) (s : Bytes) : c ∉ s ∨ ∃ a b, s = a ++ c :: b ∧ c ∉ b := by
  rcases first_cases c s.reverse with h | ⟨b, a, hs, hb⟩
  · left; simpa using h
  · right
    refine ⟨a.reverse, b.reverse, ?_, by simpa using hb⟩
    have := congrArg List.reverse hs
    simpa using this

/-! ### `parseIPv6` and the zone -/

theorem parseIPv6_nozone (s : Bytes) (h : 37 ∉ s) : (parseIPv6 s).isSome = v6core s := by
  rw [parseIPv6_eq_split, indexByte_not_mem 37 s h]
  simp only [if_true]
  exact parseIPv6Split_isSome s []

theorem parseIPv6_zone (b a : Bytes) (h : 37 ∉ b) :
    (parseIPv6 (b ++ 37 :: a)).isSome = (!a.isEmpty && v6core b) := by
  rw [parseIPv6_eq_split, indexByte_append_sep 37 b a h]
  have h1 : ¬ ((b.length : Int) = -1) := by omega
  have h2 : (b ++ 37 :: a).drop ((b.length : Int).toNat + 1) = a := by
    simp only [Int.toNat_natCast]
    rw [show b ++ 37 :: a = (b ++ [37]) ++ a by simp]
    rw [show b.length + 1 = (b ++ [37]).length by simp]
    exact List.drop_left
  have h3 : (b ++ 37 :: a).take ((b.length : Int).toNat) = b := by
    simp
  simp only [h1, if_false, h2, h3]
  by_cases ha : a = []
  · subst ha; simp [parseIPv6Split]
  · simp only [ha, if_false, parseIPv6Split_isSome]
    cases a with
    | nil => exact absurd rfl ha
    | cons => simp

/-- C02 (3): on zone-free input golibs `isValidIPv6String` accepts exactly what
`netip.parseIPv6` accepts -/
theorem isValidIPv6String_eq (s : Bytes) (h : 37 ∉ s) :
    isValidIPv6String s = .ok ((parseIPv6 s).isSome) := by
  rw [isValidIPv6String_eq_core, parseIPv6_nozone s h]

theorem parseIPv6_is6 (s : Bytes) (a : Addr) (h : parseIPv6 s = some a) : a.is6 = true := by
  rw [parseIPv6_eq_split] at h
  exact parseIPv6Split_is6 _ a h

/-! ### strings that cannot be IPv6 -/

theorem v6core_false (y : Bytes) (hhead : ∀ t, y ≠ 58 :: t)
    (hf : ∀ d r, y = d ++ r → FieldOK d r → r = [] ∨ ∃ c r', r = c :: r' ∧ c ≠ 46 ∧ c ≠ 58) :
    v6core y = false := by
  unfold v6core
  rw [lead_eq]
  have hp : hasPrefix y [58, 58] = false := by
    cases hh : hasPrefix y [58, 58] with
    | false => rfl
    | true =>
      obtain ⟨t, ht⟩ := (hasPrefix_cc y).1 hh
      exact absurd ht (hhead _)
  simp only [hp, Bool.false_eq_true, false_and, if_false]
  rcases field_cases y with hbad | ⟨d, r, rfl, h⟩
  · exact N_bad0 8 y [] none (by simp) hbad
  · rcases hf d r rfl h with rfl | ⟨c, r', rfl, h46, h58⟩
    · simp only [List.append_nil]
      rw [N_whole 8 0 h [] none rfl (by omega)]
      rfl
    · exact N_other 8 0 h [] none rfl (by omega) h46 h58

/-- no `:` and no `.` at all -/
theorem v6core_nosep (y : Bytes) (h : ∀ c ∈ y, c ≠ 46 ∧ c ≠ 58) : v6core y = false := by
  apply v6core_false
  · intro t ht; exact (h 58 (by simp [ht])).2 rfl
  · intro d r hy _
    cases r with
    | nil => left; rfl
    | cons c r' => right; exact ⟨c, r', rfl, h c (by simp [hy])⟩

/-- no `:` and no `.` among the first five bytes -/
theorem v6core_long (pre x : Bytes) (hlen : 5 ≤ pre.length) (h : ∀ c ∈ pre, c ≠ 46 ∧ c ≠ 58) :
    v6core (pre ++ x) = false := by
  apply v6core_false
  · intro t ht
    cases pre with
    | nil => simp at hlen
    | cons p pt =>
      simp at ht
      exact (h p (by simp)).2 ht.1
  · intro d r hy hfo
    right
    rcases List.append_eq_append_iff.1 hy with ⟨a', hd, _⟩ | ⟨a', hpre, hr⟩
    · have := hfo.le4
      rw [hd] at this; simp at this; omega
    · cases a' with
      | nil =>
        have := hfo.le4
        simp at hpre; rw [hpre] at hlen; omega
      | cons c a'' =>
        exact ⟨c, a'' ++ x, by simpa using hr, h c (by simp [hpre])⟩

/-! ### strings that cannot be IPv4 -/

theorem octetOK_len (l : Bytes) (h : octetOK l = true) : l.length ≤ 3 := by
  apply Classical.byContradiction
  intro hlen
  have := isIPv4Label_eq l
  have hl : l = [] ∨ 3 < l.length := Or.inr (by omega)
  simp [isIPv4Label, hl, pure, Except.pure, h] at this

theorem splitOn_append_nosep (c : Nat) (pre x : Bytes) (h : c ∉ pre) :
    ∃ p ps, splitOn c x = p :: ps ∧ splitOn c (pre ++ x) = (pre ++ p) :: ps := by
  induction pre with
  | nil =>
    have hne := splitOn_ne_nil c x
    cases hs : splitOn c x with
    | nil => exact absurd hs hne
    | cons p ps => exact ⟨p, ps, rfl, by simp [hs]⟩
  | cons a t ih =>
    have ha : a ≠ c := by intro ha; apply h; simp [ha]
    have ht : c ∉ t := by intro ht; apply h; simp [ht]
    obtain ⟨p, ps, h1, h2⟩ := ih ht
    exact ⟨p, ps, h1, by simp [splitOn, ha, h2]⟩

theorem parseIPv4Fields_long (pre x : Bytes) (hlen : 4 ≤ pre.length) (h : 46 ∉ pre) :
    parseIPv4Fields (pre ++ x) = none := by
  have hs := parseIPv4Fields_eq_spec (pre ++ x)
  obtain ⟨p, ps, _, h2⟩ := splitOn_append_nosep 46 pre x h
  have hoct : octetOK (pre ++ p) = false := by
    cases ho : octetOK (pre ++ p) with
    | false => rfl
    | true => have := octetOK_len _ ho; simp at this; omega
  simp only [v4Spec, h2, hoct, Bool.false_and] at hs
  simpa using hs

theorem parseIPv4Fields_badchar (s : Bytes) (c : Nat) (hc : c ∈ s) (hd : isDigit c = false)
    (h46 : c ≠ 46) : parseIPv4Fields s = none := by
  cases hp : parseIPv4Fields s with
  | none => rfl
  | some f =>
    have := parseIPv4Fields_chars s (by simp [hp]) c hc
    simp [hd, h46] at this

/-! ### `IsValidIPString` vs `ParseAddr` -/

/-- golibs after it has stepped over a `%` that precedes every `.` and `:` (netip has already
rejected): it rejects too, wherever it stops -/
theorem aux_after_zone (b a : Bytes) (hb : ∀ c ∈ b, c ≠ 46 ∧ c ≠ 58 ∧ c ≠ 37) :
    ∀ rest k, isValidIPStringAux (b ++ 37 :: a) rest k = .ok false := by
  intro rest
  induction rest with
  | nil => intro k; simp [isValidIPStringAux, pure, Except.pure]
  | cons c rest' ih =>
    intro k
    unfold isValidIPStringAux
    by_cases hk : k > 4
    · simp [hk, pure, Except.pure]
    · simp only [hk, if_false]
      by_cases h46 : c = 46
      · simp only [h46, if_true]
        rw [isValidIPv4String_eq, parseIPv4Fields_badchar (b ++ 37 :: a) 37 (by simp) (by decide) (by decide)]
        rfl
      · simp only [h46, if_false]
        by_cases h58 : c = 58
        · have h37 : 37 ∉ b := fun hm => (hb 37 hm).2.2 rfl
          simp only [h58, if_true, cut_append_sep 37 b a h37]
          by_cases ha : a = []
          · simp [ha, pure, Except.pure]
          · simp only [ha, and_false, if_false]
            rw [isValidIPv6String_eq_core, v6core_nosep b (fun c hc => ⟨(hb c hc).1, (hb c hc).2.1⟩)]
        · simp only [h58, if_false]
          exact ih (k + 1)

/-- netip when the first five bytes contain no `.`, `:` or `%` -/
theorem dispatch_long (pre x : Bytes) (hlen : 5 ≤ pre.length)
    (hpre : ∀ c ∈ pre, c ≠ 46 ∧ c ≠ 58 ∧ c ≠ 37) :
    ∀ rest, parseAddrDispatch rest (pre ++ x) = none := by
  intro rest
  induction rest with
  | nil => simp [parseAddrDispatch]
  | cons c rest' ih =>
    unfold parseAddrDispatch
    by_cases h46 : c = 46
    · simp only [h46, if_true, parseIPv4]
      rw [parseIPv4Fields_long pre x (by omega) (fun hm => (hpre 46 hm).1 rfl)]
      rfl
    · simp only [h46, if_false]
      by_cases h58 : c = 58
      · simp only [h58, if_true]
        have h37 : 37 ∉ pre := fun hm => (hpre 37 hm).2.2 rfl
        have hsep : ∀ c ∈ pre, c ≠ 46 ∧ c ≠ 58 := fun c hc => ⟨(hpre c hc).1, (hpre c hc).2.1⟩
        have : (parseIPv6 (pre ++ x)).isSome = false := by
          rcases first_cases 37 x with hx | ⟨b', a', rfl, hb'⟩
          · rw [parseIPv6_nozone _ (by simp [h37, hx])]
            exact v6core_long pre x hlen hsep
          · rw [show pre ++ (b' ++ 37 :: a') = (pre ++ b') ++ 37 :: a' by simp]
            rw [parseIPv6_zone _ _ (by simp [h37, hb']), v6core_long pre b' hlen hsep]
            simp
        simpa using this
      · simp only [h58, if_false]
        by_cases h37 : c = 37
        · simp [h37]
        · simp only [h37, if_false]; exact ih

/-- the two scanners in lockstep, as long as no `.`, `:`, `%` has been seen -/
theorem aux_lockstep : ∀ (rest pre : Bytes), (∀ c ∈ pre, c ≠ 46 ∧ c ≠ 58 ∧ c ≠ 37) →
    isValidIPStringAux (pre ++ rest) rest pre.length =
      .ok ((parseAddrDispatch rest (pre ++ rest)).isSome) := by
  intro rest
  induction rest with
  | nil => intro pre _; simp [isValidIPStringAux, parseAddrDispatch, pure, Except.pure]
  | cons c rest' ih =>
    intro pre hpre
    unfold isValidIPStringAux
    by_cases hk : pre.length > 4
    · rw [dispatch_long pre (c :: rest') (by omega) hpre (c :: rest')]
      simp [hk, pure, Except.pure]
    · simp only [hk, if_false]
      unfold parseAddrDispatch
      by_cases h46 : c = 46
      · simp only [h46, if_true, parseIPv4, Option.isSome_map]
        exact isValidIPv4String_eq _
      · simp only [h46, if_false]
        by_cases h58 : c = 58
        · simp only [h58, if_true]
          rcases first_cases 37 (pre ++ 58 :: rest') with hx | ⟨b, a, hw, hb⟩
          · rw [cut_not_mem 37 _ hx]
            simp only [Bool.false_eq_true, false_and, if_false]
            rw [isValidIPv6String_eq_core, parseIPv6_nozone _ hx]
          · rw [hw, cut_append_sep 37 b a hb, parseIPv6_zone b a hb]
            by_cases ha : a = []
            · simp [ha, pure, Except.pure]
            · simp only [ha, and_false, if_false]
              rw [isValidIPv6String_eq_core]
              cases a with
              | nil => exact absurd rfl ha
              | cons => simp
        · simp only [h58, if_false]
          by_cases h37 : c = 37
          · simp only [h37, if_true]
            exact aux_after_zone pre rest' hpre rest' (pre.length + 1)
          · simp only [h37, if_false]
            have := ih (pre ++ [c]) (by
              intro x hx
              rcases List.mem_append.1 hx with hx | hx
              · exact hpre x hx
              · simp at hx; subst hx; exact ⟨h46, h58, h37⟩)
            simpa using this

/-- C02 (4a): `IsValidIPString` accepts exactly what `netip.ParseAddr` accepts -/
theorem isValidIPString_eq (s : Bytes) : isValidIPString s = .ok ((parseAddr s).isSome) := by
  have := aux_lockstep s [] (by simp)
  simpa [isValidIPString, parseAddr] using this

/-! ### ports -/

theorem isUint16Aux_eq (s : Bytes) (n : Nat) (hn : n ≤ 65535) :
    isUint16Aux s n =
      (s.all isDigit && decide (s.foldl (fun a c => a * 10 + (c - 48)) n ≤ 65535)) := by
  induction s generalizing n with
  | nil => simp [isUint16Aux, hn]
  | cons c t ih =>
    unfold isUint16Aux
    by_cases hd : isDigit c = true
    · simp only [hd, Bool.not_true, Bool.false_eq_true, if_false, List.all_cons, Bool.true_and,
        List.foldl_cons]
      by_cases hv : n * 10 + (c - 48) > 65535
      · have := foldl_dec_ge t (n * 10 + (c - 48))
        have : ¬ t.foldl (fun a c => a * 10 + (c - 48)) (n * 10 + (c - 48)) ≤ 65535 := by omega
        simp [hv, this]
      · simp only [hv, if_false]
        exact ih _ (by omega)
    · simp [hd]

theorem isUint16_eq (port : Bytes) (h : port ≠ []) :
    isUint16 port = (parseUintDec port 65535).isSome := by
  unfold isUint16 parseUintDec
  rw [isUint16Aux_eq _ _ (by omega)]
  simp only [h, if_false]
  by_cases hd : port.all isDigit = true
  · simp only [hd, if_true, Bool.true_and]
    by_cases hv : port.foldl (fun a c => a * 10 + (c - 48)) 0 > 65535
    · have : ¬ port.foldl (fun a c => a * 10 + (c - 48)) 0 ≤ 65535 := by omega
      simp [hv, this]
    · have : port.foldl (fun a c => a * 10 + (c - 48)) 0 ≤ 65535 := by omega
      simp [hv, this]
  · simp [hd]

/-! ### which family `ParseAddr` returns -/

theorem dispatch_kind (rest whole : Bytes) (addr : Addr)
    (h : parseAddrDispatch rest whole = some addr) :
    (addr.is4 = true ∧ addr.is6 = false ∧ (parseIPv4Fields whole).isSome = true) ∨
    (addr.is6 = true ∧ addr.is4 = false ∧ 58 ∈ rest) := by
  induction rest with
  | nil => simp [parseAddrDispatch] at h
  | cons c rest' ih =>
    unfold parseAddrDispatch at h
    by_cases h46 : c = 46
    · simp only [h46, if_true, parseIPv4] at h
      cases hp : parseIPv4Fields whole with
      | none => simp [hp] at h
      | some f =>
        simp [hp] at h; subst h
        left; exact ⟨rfl, rfl, rfl⟩
    · simp only [h46, if_false] at h
      by_cases h58 : c = 58
      · simp only [h58, if_true] at h
        have h6 := parseIPv6_is6 whole addr h
        right
        refine ⟨h6, ?_, by simp [h58]⟩
        cases addr <;> simp [Addr.is6, Addr.is4] at h6 ⊢
      · simp only [h58, if_false] at h
        by_cases h37 : c = 37
        · simp [h37] at h
        · simp only [h37, if_false] at h
          rcases ih h with h | ⟨h1, h2, h3⟩
          · exact Or.inl h
          · exact Or.inr ⟨h1, h2, by simp [h3]⟩

theorem parseAddr_colon (s : Bytes) (addr : Addr) (h : parseAddr s = some addr) (h58 : 58 ∈ s) :
    addr.is4 = false ∧ addr.is6 = true := by
  rcases dispatch_kind s s addr h with ⟨_, _, h3⟩ | ⟨h1, h2, _⟩
  · have := parseIPv4Fields_chars s h3 58 h58
    simp [isDigit] at this
  · exact ⟨h2, h1⟩

theorem parseAddr_nocolon (s : Bytes) (addr : Addr) (h : parseAddr s = some addr) (h58 : 58 ∉ s) :
    addr.is4 = true ∧ addr.is6 = false := by
  rcases dispatch_kind s s addr h with ⟨h1, h2, _⟩ | ⟨_, _, h3⟩
  · exact ⟨h1, h2⟩
  · exact absurd h3 h58

theorem parseAddr_bracket (s : Bytes) (h58 : 58 ∉ s) (hh : s.head? = some 91) : parseAddr s = none := by
  cases hp : parseAddr s with
  | none => rfl
  | some addr =>
    rcases dispatch_kind s s addr hp with ⟨_, _, h3⟩ | ⟨_, _, h3⟩
    · have hm : 91 ∈ s := by
        cases s with
        | nil => simp at hh
        | cons x t => simp at hh; simp [hh]
      have := parseIPv4Fields_chars s h3 91 hm
      simp [isDigit] at this
    · exact absurd h3 h58

end GolibsVerif.C02
