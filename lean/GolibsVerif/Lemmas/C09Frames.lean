/-
C09 — helper lemmas for the framed transition system (`Model/C09Frames.lean`): framed
traces (append / split / induction from the right), the frame invariant that makes every
framed step a step of the frameless system, the per-frame `OnDelete` scan, and where a frame
comes from.
-/
import GolibsVerif.Model.C09Frames
import GolibsVerif.Lemmas.C09

namespace GolibsVerif.C09

/-! ### framed traces -/

theorem ftrace_append {c : Conf} {σ σ1 σ2 : FSt} {l1 l2 : List FRec} (h1 : FTrace c σ l1 σ1)
    (h2 : FTrace c σ1 l2 σ2) : FTrace c σ (l1 ++ l2) σ2 := by
  induction h1 with
  | nil => simpa using h2
  | cons hstep _ ih => exact FTrace.cons hstep (ih h2)

theorem ftrace_single {c : Conf} {σ σ' : FSt} {ev : FEv} (h : FStep c σ ev σ') :
    FTrace c σ [⟨ev, σ'⟩] σ' := FTrace.cons h (FTrace.nil σ')

theorem ftrace_split {c : Conf} {σ σ' : FSt} {pre post : List FRec} {ev : FEv} {σ1 : FSt}
    (ht : FTrace c σ (pre ++ ⟨ev, σ1⟩ :: post) σ') :
    ∃ σ0, FTrace c σ pre σ0 ∧ FStep c σ0 ev σ1 ∧ FTrace c σ1 post σ' := by
  induction pre generalizing σ with
  | nil =>
    cases ht with
    | cons hstep hrest => exact ⟨σ, FTrace.nil σ, hstep, hrest⟩
  | cons x xs ih =>
    cases ht with
    | cons hstep hrest =>
      obtain ⟨σ0, h1, h2, h3⟩ := ih hrest
      exact ⟨σ0, FTrace.cons hstep h1, h2, h3⟩

/-- induction over a framed execution from a fixed start, one step at the END at a time -/
theorem ftrace_snoc_ind {c : Conf} {σ0 : FSt} {P : List FRec → FSt → Prop} (h0 : P [] σ0)
    (hs : ∀ l σ ev σ', FTrace c σ0 l σ → P l σ → FStep c σ ev σ' → P (l ++ [⟨ev, σ'⟩]) σ') :
    ∀ {l : List FRec} {σ : FSt}, FTrace c σ0 l σ → P l σ := by
  have key : ∀ {σ1 σ : FSt} {l : List FRec}, FTrace c σ1 l σ →
      ∀ pre, FTrace c σ0 pre σ1 → P pre σ1 → P (pre ++ l) σ := by
    intro σ1 σ l ht
    induction ht with
    | nil => intro pre _ hp; simpa using hp
    | @cons σa σb σc ev rest hstep _ ih =>
      intro pre hpre hp
      have := ih (pre ++ [⟨ev, σb⟩]) (ftrace_append hpre (ftrace_single hstep))
        (hs pre σa ev σb hpre hp hstep)
      simpa using this
  intro l σ ht
  simpa using key ht [] (FTrace.nil σ0) h0

/-! ### frames after a step -/

theorem lt_of_getElem? {α : Type} {l : List α} {i : Nat} {a : α} (h : l[i]? = some a) :
    i < l.length := by
  obtain ⟨hlt, _⟩ := List.getElem?_eq_some_iff.1 h
  exact hlt

theorem move_frames {σ : FSt} {i : Nat} {f : Frame} (p : Phase) (s : St)
    (h : σ.frames[i]? = some f) (j : Nat) :
    (σ.move i f p s).frames[j]? = if j = i then some { f with phase := p } else σ.frames[j]? := by
  have hlt := lt_of_getElem? h
  simp only [FSt.move, List.getElem?_set]
  by_cases hij : i = j
  · subst hij; simp [hlt]
  · have : ¬ j = i := fun hc => hij hc.symm
    simp [hij, this]

theorem move_phaseAt {σ : FSt} {i : Nat} {f : Frame} (p : Phase) (s : St)
    (h : σ.frames[i]? = some f) (j : Nat) :
    (σ.move i f p s).phaseAt j = if j = i then some p else σ.phaseAt j := by
  unfold FSt.phaseAt
  rw [move_frames p s h j]
  split <;> rfl

theorem call_phaseAt (σ : FSt) (k v : Bytes) (j : Nat) :
    ({ σ with frames := σ.frames ++ [⟨k, v, .start⟩] } : FSt).phaseAt j =
      if j = σ.frames.length then some .start else σ.phaseAt j := by
  unfold FSt.phaseAt
  simp only [List.getElem?_append]
  by_cases h1 : j < σ.frames.length
  · have : ¬ j = σ.frames.length := by omega
    simp [h1, this]
  · by_cases h2 : j = σ.frames.length
    · subst h2; simp
    · have h3 : σ.frames[j]? = none := by simp; omega
      have h4 : [Frame.mk k v .start][j - σ.frames.length]? = none := by simp; omega
      simp [h1, h2, h4]

theorem phaseAt_of_get {σ : FSt} {i : Nat} {f : Frame} (h : σ.frames[i]? = some f) :
    σ.phaseAt i = some f.phase := by simp [FSt.phaseAt, h]

/-! ### the frame invariant and the projection of a step -/

/-- what a frame that is inside the loop has already established -/
def FrameOk (c : Conf) (f : Frame) : Prop :=
  match f.phase with
  | .cb _ _ => c.hasCb = true ∧ c.lru = true ∧ f.add ≤ c.maxElem
  | .loop => c.lru = true ∧ f.add ≤ c.maxElem
  | _ => True

def FramesOk (c : Conf) (σ : FSt) : Prop := ∀ (i : Nat) (f : Frame), σ.frames[i]? = some f → FrameOk c f

theorem FramesOk.init (c : Conf) : FramesOk c FSt.init := by
  intro i f h; simp [FSt.init] at h

theorem atLoopHead_ok {c : Conf} {s : St} {f : Frame} (hf : FrameOk c f)
    (h : f.atLoopHead c s) :
    f.add ≤ c.maxElem ∧ (c.lru = true ∨ full c s f.add = false) := by
  rcases h with ⟨_, hp⟩ | hl
  · exact setCheck_proceed hp
  · unfold FrameOk at hf
    rw [hl] at hf
    exact ⟨hf.2, Or.inl hf.1⟩

theorem framesOk_move {c : Conf} {σ : FSt} {i : Nat} {f : Frame} {p : Phase} (s : St)
    (hok : FramesOk c σ) (h : σ.frames[i]? = some f)
    (hp : FrameOk c { f with phase := p }) : FramesOk c (σ.move i f p s) := by
  intro j g hg
  rw [move_frames p s h j] at hg
  by_cases hji : j = i
  · simp only [hji, if_true, Option.some.injEq] at hg
    subst hg; exact hp
  · simp only [hji, if_false] at hg
    exact hok j g hg

/-- a framed step keeps the frame invariant; a section is a step of the frameless system
with the same event, a `call` leaves the cache alone -/
theorem fstep_ok {c : Conf} {σ σ' : FSt} {ev : FEv} (hok : FramesOk c σ) (hs : FStep c σ ev σ') :
    FramesOk c σ' ∧
    (match ev with
      | .call .. => σ'.cache = σ.cache
      | .sec _ e => CStep c σ.cache e σ'.cache) := by
  cases hs with
  | call k v =>
    refine ⟨?_, rfl⟩
    intro j g hg
    simp only [List.getElem?_append] at hg
    by_cases h1 : j < σ.frames.length
    · simp only [h1, if_true] at hg; exact hok j g hg
    · simp only [h1, if_false] at hg
      have : g = ⟨k, v, .start⟩ := by
        cases hj : j - σ.frames.length with
        | zero => rw [hj] at hg; simpa using hg.symm
        | succ n => rw [hj] at hg; simp at hg
      subst this; simp [FrameOk]
  | refuse i f hf hp hc =>
    exact ⟨framesOk_move _ hok hf (by simp [FrameOk]), CStep.refuse _ _ _ hc⟩
  | evict i f s' e hf hh hfull he =>
    obtain ⟨hadd, hor⟩ := atLoopHead_ok (hok i f hf) hh
    have hl : c.lru = true := by
      rcases hor with h1 | h1
      · exact h1
      · rw [hfull] at h1; cases h1
    refine ⟨framesOk_move _ hok hf ?_, CStep.evict _ _ f.add e hl hadd hfull he⟩
    cases hcb : c.hasCb
    · simp only [FrameOk]; exact ⟨hl, hadd⟩
    · simp only [FrameOk]; exact ⟨hcb, hl, hadd⟩
  | onDelete i f k v hf hp =>
    have := hok i f hf
    unfold FrameOk at this
    rw [hp] at this
    exact ⟨framesOk_move _ hok hf (by simp only [FrameOk]; exact ⟨this.2.1, this.2.2⟩),
      CStep.onDelete _ k v this.1⟩
  | commit i f s' r hf hh hfull hc =>
    obtain ⟨hadd, _⟩ := atLoopHead_ok (hok i f hf) hh
    exact ⟨framesOk_move _ hok hf (by simp [FrameOk]), CStep.commit _ _ _ _ _ hadd hfull hc⟩
  | get s' k r hg => exact ⟨hok, CStep.get _ _ _ _ hg⟩
  | del s' k hd => exact ⟨hok, CStep.del _ _ _ hd⟩
  | clear => exact ⟨hok, CStep.clear _⟩
  | stats => exact ⟨hok, CStep.stats _⟩

theorem projLog_append (a b : List FRec) : projLog (a ++ b) = projLog a ++ projLog b := by
  simp [projLog]

theorem projLog_sec (pre post : List FRec) (who : Option Nat) (ev : Ev) (σ1 : FSt) :
    projLog (pre ++ ⟨.sec who ev, σ1⟩ :: post) = projLog pre ++ ⟨ev, σ1.cache⟩ :: projLog post := by
  simp [projLog, FRec.proj]

/-- every framed execution from a state satisfying the frame invariant projects to a trace
of the frameless system -/
theorem ftrace_proj {c : Conf} {σ σ' : FSt} {l : List FRec} (ht : FTrace c σ l σ') :
    FramesOk c σ → FramesOk c σ' ∧ Trace c σ.cache (projLog l) σ'.cache := by
  induction ht with
  | nil σ => intro h; exact ⟨h, Trace.nil _⟩
  | @cons σa σb σc ev rest hstep _ ih =>
    intro h
    obtain ⟨h1, hp⟩ := fstep_ok h hstep
    obtain ⟨h2, ht2⟩ := ih h1
    refine ⟨h2, ?_⟩
    cases ev with
    | call i k v =>
      simp only at hp
      simpa [projLog, List.filterMap_cons, FRec.proj, hp] using ht2
    | sec who e =>
      simp only at hp
      simpa [projLog, FRec.proj] using Trace.cons hp ht2

/-! ### the per-frame `OnDelete` scan -/

theorem secsOf_append (i : Nat) (a b : List FRec) : secsOf i (a ++ b) = secsOf i a ++ secsOf i b := by
  simp [secsOf]

theorem secsOf_cons_sec (i : Nat) (who : Option Nat) (ev : Ev) (σ1 : FSt) (post : List FRec) :
    secsOf i (⟨.sec who ev, σ1⟩ :: post) =
      (if who = some i then [ev] else []) ++ secsOf i post := by
  cases who with
  | none => simp [secsOf, List.filterMap_cons, FRec.secOf]
  | some j =>
    by_cases h : j = i
    · simp [secsOf, FRec.secOf, h]
    · simp [secsOf, FRec.secOf, h]

theorem cbScan_owed (h : Bool) (p : Option Phase) : cbScan h (pendOf p) (owedOf p) = true := by
  cases p with
  | none => rfl
  | some ph => cases ph <;> simp [pendOf, owedOf, cbScan]

/-- the sections of frame `i` so far, followed by the `OnDelete` call it still owes, satisfy
the `OnDelete` discipline (starting from what the frame owed at the start) -/
theorem frame_scan {c : Conf} {σ0 : FSt} {l : List FRec} {σ : FSt} (ht : FTrace c σ0 l σ) (i : Nat) :
    cbScan c.hasCb (pendOf (σ0.phaseAt i)) (secsOf i l ++ owed σ i) = true := by
  refine ftrace_snoc_ind (P := fun l σ =>
    cbScan c.hasCb (pendOf (σ0.phaseAt i)) (secsOf i l ++ owed σ i) = true) ?_ ?_ ht
  · simpa [secsOf, owed] using cbScan_owed c.hasCb (σ0.phaseAt i)
  · intro l σ ev σ' _ ih hstep
    -- a step that is not a section of frame `i` and does not change what it owes
    have other : secsOf i [⟨ev, σ'⟩] = [] → owed σ' i = owed σ i →
        cbScan c.hasCb (pendOf (σ0.phaseAt i)) (secsOf i (l ++ [⟨ev, σ'⟩]) ++ owed σ' i) = true := by
      intro h1 h2
      rw [secsOf_append, h1, h2]; simpa using ih
    -- a section of frame `i` after which the frame owes `o`, when it owed nothing before
    have mine : ∀ (e : Ev) (o : List Ev), secsOf i [⟨ev, σ'⟩] = [e] → owed σ i = [] → owed σ' i = o →
        cbScan c.hasCb none (e :: o) = true →
        cbScan c.hasCb (pendOf (σ0.phaseAt i)) (secsOf i (l ++ [⟨ev, σ'⟩]) ++ owed σ' i) = true := by
      intro e o h1 h2 h3 h4
      rw [secsOf_append, h1, h3, List.append_assoc]
      rw [h2, List.append_nil] at ih
      exact cbScan_append _ _ _ _ ih h4
    cases hstep with
    | call k v =>
      apply other
      · simp [secsOf, FRec.secOf]
      · unfold owed
        rw [call_phaseAt]
        by_cases hj : i = σ.frames.length
        · subst hj
          have : σ.phaseAt σ.frames.length = none := by simp [FSt.phaseAt]
          simp [this, owedOf]
        · simp [hj]
    | refuse j f hf hp hc =>
      by_cases hji : j = i
      · subst hji
        apply mine (.refused f.key f.val) []
        · simp [secsOf, FRec.secOf]
        · simp [owed, phaseAt_of_get hf, hp, owedOf]
        · simp [owed, move_phaseAt _ _ hf, owedOf]
        · simp [cbScan]
      · apply other
        · simp [secsOf, FRec.secOf, hji]
        · have : ¬ i = j := fun hc => hji hc.symm
          simp [owed, move_phaseAt _ _ hf, this]
    | evict j f s' e hf hh hfull he =>
      by_cases hji : j = i
      · subst hji
        apply mine (.evict e.key e.val) (if c.hasCb then [.onDelete e.key e.val] else [])
        · simp [secsOf, FRec.secOf]
        · rcases hh with ⟨hp, _⟩ | hp <;> simp [owed, phaseAt_of_get hf, hp, owedOf]
        · cases hcb : c.hasCb <;> simp [owed, move_phaseAt _ _ hf, owedOf]
        · cases hcb : c.hasCb <;> simp [cbScan]
      · apply other
        · simp [secsOf, FRec.secOf, hji]
        · have : ¬ i = j := fun hc => hji hc.symm
          simp [owed, move_phaseAt _ _ hf, this]
    | onDelete j f k v hf hp =>
      by_cases hji : j = i
      · subst hji
        have h1 : owed σ j = [.onDelete k v] := by simp [owed, phaseAt_of_get hf, hp, owedOf]
        have h2 : owed (σ.move j f .loop σ.cache) j = [] := by
          simp [owed, move_phaseAt _ _ hf, owedOf]
        rw [secsOf_append, h2]
        rw [h1] at ih
        simpa [secsOf, FRec.secOf] using ih
      · apply other
        · simp [secsOf, FRec.secOf, hji]
        · have : ¬ i = j := fun hc => hji hc.symm
          simp [owed, move_phaseAt _ _ hf, this]
    | commit j f s' r hf hh hfull hc =>
      by_cases hji : j = i
      · subst hji
        apply mine (.commit f.key f.val r) []
        · simp [secsOf, FRec.secOf]
        · rcases hh with ⟨hp, _⟩ | hp <;> simp [owed, phaseAt_of_get hf, hp, owedOf]
        · simp [owed, move_phaseAt _ _ hf, owedOf]
        · simp [cbScan]
      · apply other
        · simp [secsOf, FRec.secOf, hji]
        · have : ¬ i = j := fun hc => hji hc.symm
          simp [owed, move_phaseAt _ _ hf, this]
    | get s' k r hg => exact other (by simp [secsOf, FRec.secOf]) rfl
    | del s' k hd => exact other (by simp [secsOf, FRec.secOf]) rfl
    | clear => exact other (by simp [secsOf, FRec.secOf]) rfl
    | stats => exact other (by simp [secsOf, FRec.secOf]) rfl

/-- a scan that starts owing `(k, v)` starts with `onDelete k v`, and what follows scans from
"nothing owed" -/
theorem cbScan_some_head {h : Bool} {p : Bytes × Bytes} {l : List Ev}
    (hs : cbScan h (some p) l = true) :
    ∃ rest, l = .onDelete p.1 p.2 :: rest ∧ cbScan h none rest = true := by
  cases l with
  | nil => simp [cbScan] at hs
  | cons x rest =>
    cases x with
    | onDelete k v =>
      simp only [cbScan, Bool.and_eq_true, decide_eq_true_eq] at hs
      obtain ⟨⟨h1, h2⟩, h3⟩ := hs
      exact ⟨rest, by rw [h1, h2], h3⟩
    | _ => simp [cbScan] at hs

/-- a scan from "nothing owed" does not start with an `onDelete` -/
theorem cbScan_none_head {h : Bool} {l : List Ev} (hs : cbScan h none l = true) (k v : Bytes) :
    l.head? ≠ some (.onDelete k v) := by
  cases l with
  | nil => simp
  | cons x rest =>
    intro hc
    simp only [List.head?_cons, Option.some.injEq] at hc
    subst hc
    simp [cbScan] at hs

/-- an accepted scan that ends with `onDelete k v`: the event before it is `evict k v` and a
callback is configured (or there is no event before it and `(k, v)` was owed at the start) -/
theorem cbScan_snoc_onDelete (h : Bool) (k v : Bytes) :
    ∀ (l : List Ev) (p : Option (Bytes × Bytes)), cbScan h p (l ++ [.onDelete k v]) = true →
      (l = [] ∧ p = some (k, v)) ∨ (l.getLast? = some (.evict k v) ∧ h = true) := by
  intro l
  induction l with
  | nil =>
    intro p hs
    cases p with
    | none => simp [cbScan] at hs
    | some q =>
      simp only [List.nil_append, cbScan, Bool.and_eq_true, decide_eq_true_eq] at hs
      obtain ⟨⟨h1, h2⟩, _⟩ := hs
      left; exact ⟨rfl, by rw [← h1, ← h2]⟩
  | cons x rest ih =>
    intro p hs
    right
    have lift : ∀ p', cbScan h p' (rest ++ [.onDelete k v]) = true →
        (p' = some (k, v) → x = .evict k v ∧ h = true) →
        (x :: rest).getLast? = some (.evict k v) ∧ h = true := by
      intro p' hs' hx
      rcases ih p' hs' with ⟨hnil, hp⟩ | ⟨hl, hh⟩
      · obtain ⟨hx1, hx2⟩ := hx hp
        subst hnil; subst hx1
        exact ⟨rfl, hx2⟩
      · refine ⟨?_, hh⟩
        rw [List.getLast?_cons, hl]; rfl
    cases p with
    | none =>
      cases x with
      | evict k' v' =>
        simp only [List.cons_append, cbScan] at hs
        apply lift _ hs
        intro hp
        cases hh : h with
        | false => rw [hh] at hp; simp at hp
        | true =>
          rw [hh] at hp
          simp only [if_true, Option.some.injEq, Prod.mk.injEq] at hp
          obtain ⟨rfl, rfl⟩ := hp
          exact ⟨rfl, rfl⟩
      | onDelete k' v' => simp [cbScan] at hs
      | refused k' v' => simp only [List.cons_append, cbScan] at hs; exact lift _ hs (by simp)
      | commit k' v' r => simp only [List.cons_append, cbScan] at hs; exact lift _ hs (by simp)
      | get k' r => simp only [List.cons_append, cbScan] at hs; exact lift _ hs (by simp)
      | del k' => simp only [List.cons_append, cbScan] at hs; exact lift _ hs (by simp)
      | clear => simp only [List.cons_append, cbScan] at hs; exact lift _ hs (by simp)
      | stats st => simp only [List.cons_append, cbScan] at hs; exact lift _ hs (by simp)
    | some q =>
      cases x with
      | onDelete k' v' =>
        simp only [List.cons_append, cbScan, Bool.and_eq_true] at hs
        exact lift _ hs.2 (by simp)
      | _ => simp [cbScan] at hs

/-! ### where a frame comes from -/

/-- frames keep their key and value, and every frame of an execution that started without
frames was created by a `call` label of that execution carrying its key and value -/
theorem frame_origin {c : Conf} {l : List FRec} {σ : FSt} (ht : FTrace c FSt.init l σ) :
    ∀ i f, σ.frames[i]? = some f →
      ∃ p1 p2 σc, l = p1 ++ ⟨.call i f.key f.val, σc⟩ :: p2 := by
  refine ftrace_snoc_ind (P := fun l σ => ∀ i f, σ.frames[i]? = some f →
      ∃ p1 p2 σc, l = p1 ++ ⟨.call i f.key f.val, σc⟩ :: p2) ?_ ?_ ht
  · intro i f h; simp [FSt.init] at h
  · intro l σ ev σ' _ ih hstep i g hg
    have keep : (∃ g0, σ.frames[i]? = some g0 ∧ g0.key = g.key ∧ g0.val = g.val) →
        ∃ p1 p2 σc, l ++ [⟨ev, σ'⟩] = p1 ++ ⟨.call i g.key g.val, σc⟩ :: p2 := by
      rintro ⟨g0, h0, hk, hv⟩
      obtain ⟨p1, p2, σc, hl⟩ := ih i g0 h0
      exact ⟨p1, p2 ++ [⟨ev, σ'⟩], σc, by rw [hl, hk, hv]; simp⟩
    have moved : ∀ {j f p s}, σ.frames[j]? = some f → (σ.move j f p s).frames[i]? = some g →
        ∃ g0, σ.frames[i]? = some g0 ∧ g0.key = g.key ∧ g0.val = g.val := by
      intro j f p s hf hg'
      rw [move_frames p s hf i] at hg'
      by_cases hij : i = j
      · subst hij
        simp only [if_true, Option.some.injEq] at hg'
        subst hg'
        exact ⟨f, hf, rfl, rfl⟩
      · simp only [hij, if_false] at hg'
        exact ⟨g, hg', rfl, rfl⟩
    cases hstep with
    | call k v =>
      simp only [List.getElem?_append] at hg
      by_cases h1 : i < σ.frames.length
      · simp only [h1, if_true] at hg
        exact keep ⟨g, hg, rfl, rfl⟩
      · simp only [h1, if_false] at hg
        have hi : i = σ.frames.length ∧ g = ⟨k, v, .start⟩ := by
          cases hj : i - σ.frames.length with
          | zero => rw [hj] at hg; exact ⟨by omega, by simpa using hg.symm⟩
          | succ n => rw [hj] at hg; simp at hg
        obtain ⟨hi1, hi2⟩ := hi
        subst hi2
        exact ⟨l, [], _, by rw [hi1]⟩
    | refuse j f hf hp hc => exact keep (moved hf hg)
    | evict j f s' e hf hh hfull he => exact keep (moved hf hg)
    | onDelete j f k v hf hp => exact keep (moved hf hg)
    | commit j f s' r hf hh hfull hc => exact keep (moved hf hg)
    | get s' k r hg' => exact keep ⟨g, hg, rfl, rfl⟩
    | del s' k hd => exact keep ⟨g, hg, rfl, rfl⟩
    | clear => exact keep ⟨g, hg, rfl, rfl⟩
    | stats => exact keep ⟨g, hg, rfl, rfl⟩

end GolibsVerif.C09
