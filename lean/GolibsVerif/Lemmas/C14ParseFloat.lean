/-
C14 — lemmas about the `float64` operations of the model of `time.ParseDuration`
(`Model/C14Parse.lean`): an operation whose exact result is a natural number below 2^53
returns that number (it is representable, so rounding does nothing).  This is all the round
trip needs: `time.Duration.String` prints at most 9 fraction digits for a unit `10^p`,
`p ≤ 9`, so `float64(unit)/scale = 10^(p-k)` and `float64(f) * 10^(p-k) < 10^9` are exact.
-/
import GolibsVerif.Model.C14Parse

namespace GolibsVerif.C14

theorem roundHalfEven_exact (k d : Nat) (hd : 0 < d) : roundHalfEven (k * d) d = k := by
  unfold roundHalfEven
  simp only [Nat.mul_div_cancel k hd, Nat.mul_mod_left]
  rw [if_pos (by omega)]

/-- the `float64` `x` is the natural number `k` (in some representation `k·2^j / 2^j`) -/
def F64.IsNat (x : F64) (k : Nat) : Prop := ∃ j, x = ⟨k * 2 ^ j, 2 ^ j⟩

theorem F64.one_isNat : F64.IsNat F64.one 1 := ⟨0, rfl⟩
theorem F64.ten_isNat : F64.IsNat F64.ten 10 := ⟨0, rfl⟩

/-- rounding a fraction whose value is a natural number `0 < k < 2^53` gives `k` -/
theorem F64.round_exact (k d : Nat) (hk : 0 < k) (hk' : k < 2 ^ 53) (hd : 0 < d) :
    F64.IsNat (F64.round (k * d) d) k := by
  unfold F64.round
  have hn : k * d ≠ 0 := Nat.mul_ne_zero (by omega) (by omega)
  have hle : d ≤ k * d := Nat.le_mul_of_pos_left d hk
  have hlg : Nat.log2 k ≤ 52 := by
    have := (Nat.log2_lt (n := k) (k := 53) (by omega)).2 hk'
    omega
  simp only [hn, if_false, hle, if_true, Nat.mul_div_cancel k hd, hlg]
  refine ⟨52 - Nat.log2 k, ?_⟩
  have e : k * d * 2 ^ (52 - Nat.log2 k) = (k * 2 ^ (52 - Nat.log2 k)) * d := by ac_rfl
  rw [e, roundHalfEven_exact _ _ hd]

theorem F64.ofNat_isNat (k : Nat) (hk : 0 < k) (hk' : k < 2 ^ 53) : F64.IsNat (F64.ofNat k) k := by
  have := F64.round_exact k 1 hk hk' (by omega)
  rwa [Nat.mul_one] at this

theorem F64.mul_isNat {x y : F64} {a b : Nat} (hx : F64.IsNat x a) (hy : F64.IsNat y b)
    (h0 : 0 < a * b) (h1 : a * b < 2 ^ 53) : F64.IsNat (F64.mul x y) (a * b) := by
  obtain ⟨i, rfl⟩ := hx
  obtain ⟨j, rfl⟩ := hy
  unfold F64.mul
  have e : a * 2 ^ i * (b * 2 ^ j) = (a * b) * (2 ^ i * 2 ^ j) := by ac_rfl
  show F64.IsNat (F64.round (a * 2 ^ i * (b * 2 ^ j)) (2 ^ i * 2 ^ j)) (a * b)
  rw [e]
  exact F64.round_exact _ _ h0 h1 (Nat.mul_pos (Nat.two_pow_pos i) (Nat.two_pow_pos j))

/-- `x = c·b`, `y = b`: `x / y = c` -/
theorem F64.div_isNat {x y : F64} {c b : Nat} (hx : F64.IsNat x (c * b)) (hy : F64.IsNat y b)
    (hb : 0 < b) (h0 : 0 < c) (h1 : c < 2 ^ 53) : F64.IsNat (F64.div x y) c := by
  obtain ⟨i, rfl⟩ := hx
  obtain ⟨j, rfl⟩ := hy
  unfold F64.div
  have e : c * b * 2 ^ i * 2 ^ j = c * (2 ^ i * (b * 2 ^ j)) := by ac_rfl
  show F64.IsNat (F64.round (c * b * 2 ^ i * 2 ^ j) (2 ^ i * (b * 2 ^ j))) c
  rw [e]
  exact F64.round_exact _ _ h0 h1
    (Nat.mul_pos (Nat.two_pow_pos i) (Nat.mul_pos hb (Nat.two_pow_pos j)))

theorem F64.trunc_isNat {x : F64} {k : Nat} (hx : F64.IsNat x k) : F64.trunc x = k := by
  obtain ⟨j, rfl⟩ := hx
  exact Nat.mul_div_cancel k (Nat.two_pow_pos j)

/-- The float expression of `ParseDuration` for a fraction of `k ≤ p` digits and the unit
`10^p`: `uint64(float64(f) * (float64(10^p) / scale)) = f · 10^(p-k)` when `scale` is `10^k`. -/
theorem F64.frac_exact (f k p : Nat) (scale : F64) (hs : F64.IsNat scale (10 ^ k))
    (hkp : k ≤ p) (hp : p ≤ 9) (hf0 : 0 < f) (hf : f < 10 ^ k) :
    F64.trunc (F64.mul (F64.ofNat f) (F64.div (F64.ofNat (10 ^ p)) scale)) = f * 10 ^ (p - k) := by
  have hpk : 10 ^ p = 10 ^ (p - k) * 10 ^ k := by rw [← Nat.pow_add]; congr 1; omega
  have b9 : (10 : Nat) ^ 9 < 2 ^ 53 := by decide
  have hp9 : (10 : Nat) ^ p ≤ 10 ^ 9 := Nat.pow_le_pow_right (by omega) hp
  have hpos : ∀ n : Nat, 0 < (10 : Nat) ^ n := fun n => Nat.pow_pos (by omega)
  have hk9 : (10 : Nat) ^ k ≤ 10 ^ p := Nat.pow_le_pow_right (by omega) hkp
  have hpk9 : (10 : Nat) ^ (p - k) ≤ 10 ^ p := Nat.pow_le_pow_right (by omega) (by omega)
  have h1 : F64.IsNat (F64.ofNat f) f := F64.ofNat_isNat f hf0 (by omega)
  have h2 : F64.IsNat (F64.ofNat (10 ^ p)) (10 ^ (p - k) * 10 ^ k) := by
    rw [← hpk]; exact F64.ofNat_isNat _ (hpos p) (by omega)
  have h3 := F64.div_isNat h2 hs (hpos k) (hpos (p - k)) (by omega)
  have hlt : f * 10 ^ (p - k) < 10 ^ p := by
    rw [hpk]; exact Nat.mul_lt_mul_of_pos_right hf (hpos _) |> fun h => by
      rw [Nat.mul_comm (10 ^ (p - k))]; exact h
  have h4 := F64.mul_isNat h1 h3 (Nat.mul_pos hf0 (hpos _)) (by omega)
  exact F64.trunc_isNat h4

/-- `scale *= 10` keeps `scale` an exact power of ten (up to `10^15`) -/
theorem F64.scale_step (scale : F64) (k : Nat) (hs : F64.IsNat scale (10 ^ k)) (hk : k < 15) :
    F64.IsNat (F64.mul scale F64.ten) (10 ^ (k + 1)) := by
  have hle : (10 : Nat) ^ (k + 1) ≤ 10 ^ 15 := Nat.pow_le_pow_right (by omega) (by omega)
  have b : (10 : Nat) ^ 15 < 2 ^ 53 := by decide
  have := F64.mul_isNat hs F64.ten_isNat (by rw [← Nat.pow_succ]; exact Nat.pow_pos (by omega))
    (by rw [← Nat.pow_succ]; omega)
  rwa [← Nat.pow_succ] at this

end GolibsVerif.C14
