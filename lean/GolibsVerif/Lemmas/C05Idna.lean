/-
C05 helper lemmas, part 6: the interface with `ValidateDomainName` / `idna.ToASCII`:
a validated name does not start with a dot (contract "leading dot is kept"), and every name
the reference decoder accepts is a valid domain name (contract IDNA-1).
-/
import GolibsVerif.Lemmas.C05Mask

namespace GolibsVerif.C05
open GolibsVerif.Netutil GolibsVerif.Str GolibsVerif.Netip GolibsVerif GolibsVerif.Gen.Consts
open GolibsVerif.C03

/-! ### a validated name does not start with a dot -/

theorem labelsOK_nil_head (P : Bytes → Prop) (hP : ¬ P []) (rest : List Bytes) :
    ¬ LabelsOK P ([] :: rest) := by
  cases rest with
  | nil =>
    intro h
    have : TLDLabel [] := h
    have := this.1.len_pos
    simp at this
  | cons x rest => intro h; exact hP h.1

theorem valid_no_leading_dot (toASCII : Bytes → Option Bytes)
    (hDot : ∀ s t, toASCII s = some t → s.head? = some 46 → t.head? = some 46)
    (a : Bytes) (h : validateDomainName toASCII a = .ok none) : a.head? ≠ some 46 := by
  intro hd
  obtain ⟨t, ht, _, _, hl⟩ := (validateDomainName_iff toASCII a).1 h
  have := hDot a t ht hd
  cases t with
  | nil => simp at this
  | cons c t =>
    simp at this; subst this
    rw [splitOn_dot] at hl
    exact labelsOK_nil_head DomainLabel (by simp [DomainLabel]) _ hl

theorem head_trimSuffix (s : Bytes) (h : (trimSuffix s [46]).head? = some 46) : s.head? = some 46 := by
  unfold trimSuffix at h
  split at h
  · cases s with
    | nil => simp at h
    | cons c s =>
      cases hn : (c :: s).length - [46].length with
      | zero => rw [hn] at h; simp at h
      | succ n => rw [hn] at h; simpa using h
  · exact h

/-! ### lower-casing commutes with splitting -/

theorem lowerByte_eq_dot (b : Nat) : lowerByte b = 46 ↔ b = 46 := by
  unfold lowerByte; split <;> omega

theorem splitOn_asciiLower (s : Bytes) :
    splitOn 46 (asciiLower s) = (splitOn 46 s).map asciiLower := by
  induction s with
  | nil => rfl
  | cons b s ih =>
    simp only [asciiLower, List.map_cons] at ih ⊢
    by_cases hb : b = 46
    · subst hb
      have : lowerByte 46 = 46 := by decide
      rw [this, splitOn_dot, splitOn_dot, ih]; rfl
    · have hb' : lowerByte b ≠ 46 := fun e => hb ((lowerByte_eq_dot b).1 e)
      obtain ⟨p, ps, h1, h2⟩ := splitOn_nondot b s hb
      obtain ⟨p', ps', h1', h2'⟩ := splitOn_nondot (lowerByte b) (List.map lowerByte s) hb'
      rw [h2, h2']
      rw [h1, h1'] at ih
      simp only [List.map_cons, List.cons.injEq] at ih ⊢
      exact ⟨by simp [asciiLower, ih.1], ih.2⟩

theorem mem_splitOn (s : Bytes) (b : Nat) (hb : b ∈ s) : b = 46 ∨ ∃ l ∈ splitOn 46 s, b ∈ l := by
  induction s with
  | nil => cases hb
  | cons c s ih =>
    by_cases hc : c = 46
    · subst hc
      simp only [List.mem_cons] at hb
      rcases hb with rfl | hb
      · exact Or.inl rfl
      · rcases ih hb with h | ⟨l, hl, hbl⟩
        · exact Or.inl h
        · exact Or.inr ⟨l, by rw [splitOn_dot]; simp [hl], hbl⟩
    · obtain ⟨p, ps, h1, h2⟩ := splitOn_nondot c s hc
      simp only [List.mem_cons] at hb
      rcases hb with rfl | hb
      · exact Or.inr ⟨b :: p, by rw [h2]; simp, by simp⟩
      · rcases ih hb with h | ⟨l, hl, hbl⟩
        · exact Or.inl h
        · rw [h1] at hl
          simp only [List.mem_cons] at hl
          rcases hl with rfl | hl
          · exact Or.inr ⟨c :: l, by rw [h2]; simp, by simp [hbl]⟩
          · exact Or.inr ⟨l, by rw [h2]; simp [hl], hbl⟩

/-! ### what the reference decoder accepts -/

theorem traverse_some_mem (f : Bytes → Option Nat) (ls : List Bytes) (vs : List Nat)
    (h : traverse f ls = some vs) : ∀ l ∈ ls, ∃ v, f l = some v := by
  induction ls generalizing vs with
  | nil => intro l hl; cases hl
  | cons x ls ih =>
    cases hf : f x with
    | none => rw [traverse_cons_none _ _ _ hf] at h; cases h
    | some v =>
      rw [traverse_cons_some _ _ _ _ hf] at h
      cases ht : traverse f ls with
      | none => simp [ht] at h
      | some ws =>
        intro l hl
        simp only [List.mem_cons] at hl
        rcases hl with rfl | hl
        · exact ⟨v, hf⟩
        · exact ih ws ht l hl

/-- a label of an accepted name: 1..3 bytes, ASCII, not starting with `x` -/
structure DigitLabel (l : Bytes) : Prop where
  ne : l ≠ []
  len : l.length ≤ 3
  ascii : ∀ b ∈ l, b < 128 ∧ b ≠ 46
  nox : l.head? ≠ some 120

theorem octetOK_length (l : Bytes) (h : octetOK l = true) : l.length ≤ 3 := by
  obtain ⟨h1, h2, h3, h4⟩ := (octetOK_iff l).1 h
  match l with
  | [] => simp
  | [_] => simp
  | [_, _] => simp
  | [_, _, _] => simp
  | a :: b :: c :: d :: t =>
    exfalso
    have ha : isDigit a = true := by simp at h2; exact h2.1
    have := (isDigit_iff a).1 ha
    have h48 : a ≠ 48 := by simpa using h3
    have := decVal_ge_1000 a b c d t (by omega)
    omega

theorem digitLabel_of_octet (l : Bytes) (h : octetOK l = true) : DigitLabel l := by
  obtain ⟨h1, h2, _, _⟩ := (octetOK_iff l).1 h
  have hd : ∀ b ∈ l, 48 ≤ b ∧ b ≤ 57 := fun b hb => (isDigit_iff b).1 (List.all_eq_true.1 h2 b hb)
  refine ⟨h1, octetOK_length l h, fun b hb => by have := hd b hb; omega, ?_⟩
  cases l with
  | nil => simp
  | cons c l => have := hd c (by simp); simp; omega

theorem digitLabel_of_nibble (l : Bytes) (v : Nat) (h : nibbleVal l = some v) : DigitLabel l := by
  match l with
  | [] => simp [nibbleVal] at h
  | _ :: _ :: _ => simp [nibbleVal] at h
  | [c] =>
    unfold nibbleVal at h
    have hc : (48 ≤ c ∧ c ≤ 57) ∨ (97 ≤ c ∧ c ≤ 102) := by
      by_cases h1 : 48 ≤ c ∧ c ≤ 57
      · exact Or.inl h1
      · by_cases h2 : 97 ≤ c ∧ c ≤ 102
        · exact Or.inr h2
        · simp [h1, h2] at h
    refine ⟨by simp, by simp, ?_, ?_⟩
    · intro b hb; simp at hb; subst hb; omega
    · simp; omega

theorem spec_some_detail (ls : List Bytes) (p : Prefix) (h : arpaPrefixSpec ls = some p) :
    ∃ fam digits, ls.reverse = lblArpa :: fam :: digits ∧ (fam = lblInAddr ∨ fam = lblIp6) ∧
      digits.length ≤ 32 ∧ ∀ l ∈ digits, DigitLabel l := by
  unfold arpaPrefixSpec at h
  split at h
  · rename_i root fam digits hrev
    split at h
    · rename_i hroot
      subst hroot
      split at h
      · rename_i hfam
        cases ht : traverse octetVal digits with
        | none => simp [ht] at h
        | some os =>
          simp only [ht] at h
          split at h
          · rename_i hlen
            refine ⟨fam, digits, hrev, Or.inl hfam, ?_, ?_⟩
            · have := traverse_length _ _ _ ht; omega
            · intro l hl
              obtain ⟨v, hv⟩ := traverse_some_mem _ _ _ ht l hl
              exact digitLabel_of_octet l ((octetVal_eq_some l v).1 hv).1
          · cases h
      · split at h
        · rename_i hfam
          cases ht : traverse nibbleVal digits with
          | none => simp [ht] at h
          | some ns =>
            simp only [ht] at h
            split at h
            · rename_i hlen
              refine ⟨fam, digits, hrev, Or.inr hfam, ?_, ?_⟩
              · have := traverse_length _ _ _ ht; omega
              · intro l hl
                obtain ⟨v, hv⟩ := traverse_some_mem _ _ _ ht l hl
                exact digitLabel_of_nibble l v hv
            · cases h
        · cases h
    · cases h
  · cases h


theorem lowerByte_lt (b : Nat) (h : lowerByte b < 128) : b < 128 := by
  unfold lowerByte at h; split at h <;> omega

theorem labelsOK_snoc (P : Bytes → Prop) (init : List Bytes) (last : Bytes)
    (hi : ∀ x ∈ init, P x) (hl : TLDLabel last) : LabelsOK P (init ++ [last]) := by
  induction init with
  | nil => exact hl
  | cons x init ih =>
    have := ih (fun y hy => hi y (by simp [hy]))
    cases hinit : init ++ [last] with
    | nil => simp at hinit
    | cons y ys =>
      rw [hinit] at this
      simp only [List.cons_append, hinit]
      exact ⟨hi x (by simp), this⟩

theorem tld_of_arpa (la : Bytes) (h : asciiLower la = lblArpa) : TLDLabel la := by
  have hlen : la.length = 4 := by
    have := congrArg List.length h; simpa [asciiLower, lblArpa] using this
  have hb : ∀ b ∈ la, (65 ≤ b ∧ b ≤ 90) ∨ (97 ≤ b ∧ b ≤ 122) := by
    intro b hb
    have : lowerByte b ∈ lblArpa := by rw [← h]; exact List.mem_map.2 ⟨b, hb, rfl⟩
    simp only [lblArpa, List.mem_cons, List.not_mem_nil, or_false] at this
    unfold lowerByte at this
    split at this <;> omega
  match la, hlen with
  | [b1, b2, b3, b4], _ =>
    have h1 := hb b1 (by simp)
    have h4 := hb b4 (by simp)
    refine ⟨⟨by simp, by simp, ?_, ?_, ?_⟩, b1, by simp, ?_⟩
    · intro b hbm
      have := hb b hbm
      simp [isValidHostInnerRune, isValidHostOuterRune, isLower, isUpper, isDigit]
      omega
    · simp; omega
    · simp; omega
    · simp [isDigit]; omega

theorem length_frontOf_le (R : List Bytes) (k : Nat) (h : ∀ x ∈ R, x.length ≤ k) :
    (frontOf R).length ≤ (k + 1) * R.length := by
  induction R with
  | nil => simp [frontOf]
  | cons x R ih =>
    have h1 := h x (by simp)
    have h2 := ih (fun y hy => h y (by simp [hy]))
    simp only [frontOf, List.length_append, List.length_cons, List.length_nil]
    rw [Nat.mul_add]
    omega

/-- IDNA-1 ⇒ every name the reference decoder accepts passes `ValidateDomainName`, and does not
start with a dot -/
theorem accepted_valid (toASCII : Bytes → Option Bytes)
    (hT : ∀ s, (∀ b ∈ s, b < 128) → NoXnLabel s → toASCII s = some s)
    (a : Bytes) (p : Prefix) (h : arpaPrefixSpec (splitOn 46 (asciiLower a)) = some p) :
    validateDomainName toASCII a = .ok none ∧ (asciiLower a).head? ≠ some 46 := by
  obtain ⟨fam, digits, hrev, hfam, hlen, hdig⟩ := spec_some_detail _ _ h
  have hstr := string_of_root _ _ _ hrev
  -- every label of the lower-cased name is short, ASCII and does not start with `x`
  have hgood : ∀ l' ∈ splitOn 46 (asciiLower a),
      l' ≠ [] ∧ l'.length ≤ 7 ∧ (∀ b ∈ l', b < 128) ∧ l'.head? ≠ some 120 := by
    intro l' hl'
    have : l' ∈ (splitOn 46 (asciiLower a)).reverse := by simpa using hl'
    rw [hrev] at this
    simp only [List.mem_cons] at this
    rcases this with rfl | rfl | hd
    · decide
    · rcases hfam with rfl | rfl <;> decide
    · have := hdig l' hd
      exact ⟨this.ne, by have := this.len; omega, fun b hb => (this.ascii b hb).1, this.nox⟩
  have hmap := splitOn_asciiLower a
  have hascii : ∀ b ∈ a, b < 128 := by
    intro b hb
    apply lowerByte_lt
    have hm : lowerByte b ∈ asciiLower a := List.mem_map.2 ⟨b, hb, rfl⟩
    rcases mem_splitOn _ _ hm with h46 | ⟨l', hl', hbl⟩
    · omega
    · exact (hgood l' hl').2.2.1 _ hbl
  have hnoxn : NoXnLabel a := by
    intro l hl hpre
    have hm : asciiLower l ∈ splitOn 46 (asciiLower a) := by
      rw [hmap]; exact List.mem_map.2 ⟨l, hl, rfl⟩
    have := (hgood _ hm).2.2.2
    obtain ⟨t, ht⟩ := hpre
    apply this
    rw [← ht]; simp [xnPrefix]
  have hto := hT a hascii hnoxn
  -- the head
  have hhead : (asciiLower a).head? ≠ some 46 := by
    rw [hstr]
    cases digits with
    | nil => rcases hfam with rfl | rfl <;> simp [frontOf, lblInAddr, lblIp6]
    | cons d ds =>
      have hne := head_frontOf_ne_dot (d :: ds) (fun x hx => (hdig x hx).ne)
        (fun x hx hm => ((hdig x hx).ascii 46 hm).2 rfl)
      cases hf : frontOf (d :: ds) with
      | nil => simp [frontOf] at hf
      | cons c t => rw [hf] at hne; simpa using hne
  refine ⟨?_, hhead⟩
  rw [validateDomainName_iff]
  refine ⟨a, hto, ?_, ?_, ?_⟩
  · cases a with
    | nil => simp [asciiLower, splitOn] at hrev
    | cons c a => simp
  · have hl : (asciiLower a).length = a.length := by simp [asciiLower]
    rw [← hl, hstr]
    have := length_frontOf_le digits 3 (fun x hx => (hdig x hx).len)
    have hfl : fam.length ≤ 7 := by rcases hfam with rfl | rfl <;> decide
    simp only [List.length_append, List.length_cons]
    have : lblArpa.length = 4 := rfl
    omega
  · -- the labels
    have hrev' : ((splitOn 46 a).reverse).map asciiLower = lblArpa :: fam :: digits := by
      rw [List.map_reverse, ← hmap, hrev]
    cases hLr : (splitOn 46 a).reverse with
    | nil => rw [hLr] at hrev'; simp at hrev'
    | cons la rest =>
      cases rest with
      | nil => rw [hLr] at hrev'; simp at hrev'
      | cons lf ld =>
        rw [hLr] at hrev'
        simp only [List.map_cons, List.cons.injEq] at hrev'
        have hL : splitOn 46 a = (ld.reverse ++ [lf]) ++ [la] := by
          have := congrArg List.reverse hLr; simpa using this
        rw [hL]
        apply labelsOK_snoc
        · intro x hx
          have hxm : x ∈ splitOn 46 a := by
            rw [hL]; simp only [List.mem_append, List.mem_reverse, List.mem_singleton] at hx ⊢
            rcases hx with hx | hx
            · exact Or.inl (Or.inl hx)
            · exact Or.inl (Or.inr hx)
          have hm : asciiLower x ∈ splitOn 46 (asciiLower a) := by
            rw [hmap]; exact List.mem_map.2 ⟨x, hxm, rfl⟩
          have hg := hgood _ hm
          have hlx : (asciiLower x).length = x.length := by simp [asciiLower]
          constructor
          · have : (asciiLower x).length ≠ 0 := fun e => hg.1 (List.length_eq_zero_iff.1 e)
            omega
          · omega
        · exact tld_of_arpa la hrev'.1

end GolibsVerif.C05
