/-
`net/netip` formatter model, part 3: `parseAddr (addrString a) = some a` for every
well-formed `a`.
-/
import GolibsVerif.Lemmas.NetipFmtParse

namespace GolibsVerif.Netip
open GolibsVerif GolibsVerif.Str GolibsVerif.C04 GolibsVerif.Netutil

/-- the part of `parseIPv6` after its loop -/
def finish6 (zone : Bytes) (st : V6State) : Option Addr :=
  if st.s ≠ [] then none
  else if st.ip.length < 16 then
    match st.ellipsis with
    | none => none
    | some e => some (.v6 (st.ip.take e ++ List.replicate (16 - st.ip.length) 0 ++ st.ip.drop e) zone)
  else if st.ellipsis.isSome then none
  else some (.v6 st.ip zone)

theorem split_lead (t zone : Bytes) :
    C02.parseIPv6Split (some (58 :: 58 :: t, zone)) =
      if t = [] then some (.v6 (List.replicate 16 0) zone)
      else (v6Loop 9 ⟨t, [], some 0⟩).bind (finish6 zone) := by
  unfold C02.parseIPv6Split
  simp only [List.drop_succ_cons, List.drop_zero, if_true, true_and]
  by_cases ht : t = []
  · simp [ht]
  · simp only [ht, if_false]
    cases v6Loop 9 ⟨t, [], some 0⟩ with
    | none => rfl
    | some st => rfl

theorem split_nolead (c : Nat) (r zone : Bytes) (hc : c ≠ 58) :
    C02.parseIPv6Split (some (c :: r, zone)) = (v6Loop 9 ⟨c :: r, [], none⟩).bind (finish6 zone) := by
  have hl : hasPrefix (c :: r) [58, 58] = false := by
    have hc' : ¬ 58 = c := fun e => hc e.symm
    cases r <;> simp [hasPrefix, List.isPrefixOf, hc']
  unfold C02.parseIPv6Split
  simp only [C02.lead_eq, hl, Bool.false_eq_true, if_false, false_and]
  cases v6Loop 9 ⟨c :: r, [], none⟩ with
  | none => rfl
  | some st => rfl

theorem colonJoin_nil : colonJoin [] = [] := rfl

theorem colonJoin_ne_nil (y : Nat) (hy : y < 65536) (gs : List Nat) : colonJoin (y :: gs) ≠ [] := by
  obtain ⟨c, r, h, _⟩ := colonJoin_head y hy gs
  rw [h]; simp

/-- eight groups, no `::` -/
theorem split_full (x : Nat) (gs : List Nat) (zone : Bytes) (hl : gs.length = 7)
    (hlt : ∀ y ∈ x :: gs, y < 65536) :
    C02.parseIPv6Split (some (colonJoin (x :: gs), zone)) = some (.v6 (bytesOf (x :: gs)) zone) := by
  obtain ⟨c, r, hcr, hc⟩ := colonJoin_head x (hlt x (by simp)) gs
  rw [hcr, split_nolead c r zone (hex_ne hc).1, ← hcr]
  have := loop_groups gs x 1 [] none hlt (by simp [hl])
  rw [hl] at this
  rw [this]
  have hlen : (bytesOf (x :: gs)).length = 16 := by rw [bytesOf_length]; simp [hl]
  simp [finish6, hlen]

/-- groups, `::`, groups -/
theorem split_ell (gs1 hs : List Nat) (zone : Bytes) (hlen : gs1.length + hs.length < 8)
    (h1 : ∀ y ∈ gs1, y < 65536) (h2 : ∀ y ∈ hs, y < 65536) :
    C02.parseIPv6Split (some (colonJoin gs1 ++ 58 :: 58 :: colonJoin hs, zone)) =
      some (.v6 (bytesOf gs1 ++ List.replicate (16 - 2 * (gs1.length + hs.length)) 0 ++ bytesOf hs) zone) := by
  cases gs1 with
  | nil =>
    simp only [colonJoin_nil, List.nil_append, split_lead]
    cases hs with
    | nil => simp [colonJoin_nil, bytesOf]
    | cons y hs' =>
      have hy := h2 y (by simp)
      simp only [colonJoin_ne_nil y hy hs', if_false]
      simp only [List.length_cons, List.length_nil] at hlen
      have := loop_groups hs' y (8 - hs'.length) [] (some 0) h2 (by simp; omega)
      rw [show hs'.length + 1 + (8 - hs'.length) = 9 by omega] at this
      rw [this]
      have hl : (bytesOf (y :: hs')).length = 2 * (hs'.length + 1) := by rw [bytesOf_length]; simp
      have hlt : 2 * (hs'.length + 1) < 16 := by omega
      simp only [Option.bind_some, finish6, List.nil_append, hl, hlt, ne_eq, not_true_eq_false, if_false,
        if_true, List.take_zero, List.drop_zero, show bytesOf ([] : List Nat) = [] from rfl,
        List.length_nil, List.length_cons, Nat.zero_add]
  | cons x gs =>
    have hx := h1 x (by simp)
    obtain ⟨c, r, hcr, hc⟩ := colonJoin_head x hx gs
    simp only [List.length_cons] at hlen
    rw [hcr, List.cons_append, split_nolead c _ zone (hex_ne hc).1, ← List.cons_append, ← hcr]
    have hB : (bytesOf (x :: gs)).length = 2 * (gs.length + 1) := by rw [bytesOf_length]; simp
    have := loop_groups_ell gs x (8 - gs.length) [] (colonJoin hs) (2 * (gs.length + 1)) h1
      (by simp; omega) (by simp)
    rw [show gs.length + 1 + (8 - gs.length) = 9 by omega] at this
    rw [this]
    cases hs with
    | nil =>
      have hlt : 2 * (gs.length + 1) < 16 := by omega
      simp only [colonJoin_nil, if_true, Option.bind_some, finish6, List.nil_append, hB, hlt, ne_eq,
        not_true_eq_false, if_false]
      rw [List.take_of_length_le (by omega), List.drop_of_length_le (by omega)]
      simp [bytesOf]
    | cons y hs' =>
      have hy := h2 y (by simp)
      simp only [colonJoin_ne_nil y hy hs', if_false, List.length_cons] at hlen ⊢
      have h2' := loop_groups hs' y (8 - gs.length - (hs'.length + 1)) ([] ++ bytesOf (x :: gs))
        (some (2 * (gs.length + 1))) h2 (by simp [hB]; omega)
      rw [show hs'.length + 1 + (8 - gs.length - (hs'.length + 1)) = 8 - gs.length by omega] at h2'
      rw [h2']
      have hC : (bytesOf (y :: hs')).length = 2 * (hs'.length + 1) := by rw [bytesOf_length]; simp
      have hlt : 2 * (gs.length + 1) + 2 * (hs'.length + 1) < 16 := by omega
      simp only [Option.bind_some, finish6, List.nil_append, List.length_append, hB, hC, hlt, ne_eq,
        not_true_eq_false, if_false, if_true]
      rw [List.take_left' hB, List.drop_left' hB]
      rw [show 16 - (2 * (gs.length + 1) + 2 * (hs'.length + 1)) = 16 - 2 * (gs.length + 1 + (hs'.length + 1)) by omega]

/-! ### bytes and groups -/

/-- **Well-formed addresses**: the values a Go `netip.Addr` can hold, other than the zero
`Addr` — four resp. sixteen bytes.  The zone is unconstrained: the empty list stands for "no
zone", any other byte string is a zone. -/
def WF : Addr → Prop
  | .invalid => False
  | .v4 b => b.length = 4 ∧ ∀ x ∈ b, x < 256
  | .v6 b _ => b.length = 16 ∧ ∀ x ∈ b, x < 256

theorem getD_lt (b : List Nat) (hb : ∀ x ∈ b, x < 256) (i : Nat) : b.getD i 0 < 256 := by
  rw [List.getD_eq_getElem?_getD]
  cases h : b[i]? with
  | none => simp
  | some x => simp; exact hb x (List.mem_of_getElem? h)

theorem v6u16_lt (b : List Nat) (hb : ∀ x ∈ b, x < 256) (i : Nat) : v6u16 b i < 65536 := by
  have h1 := getD_lt b hb (2 * i)
  have h2 := getD_lt b hb (2 * i + 1)
  unfold v6u16; omega

theorem bytes_groups (b : List Nat) (hl : b.length = 16) (hb : ∀ x ∈ b, x < 256) :
    bytesOf ((List.range' 0 8).map (v6u16 b)) = b := by
  match b, hl, hb with
  | [b0, b1, b2, b3, b4, b5, b6, b7, b8, b9, b10, b11, b12, b13, b14, b15], _, hb =>
    simp only [List.mem_cons, List.not_mem_nil, or_false, forall_eq_or_imp, forall_eq] at hb
    obtain ⟨_, _, _, _, _, _, _, _, _, _, _, _, _, _, _, _⟩ := hb
    simp only [show List.range' 0 8 = [0, 1, 2, 3, 4, 5, 6, 7] from rfl, List.map_cons, List.map_nil,
      bytesOf_cons, v6u16, List.getD_cons_zero, List.getD_cons_succ, Nat.mul_zero, Nat.mul_one,
      Nat.reduceMul, Nat.reduceAdd, show bytesOf ([] : List Nat) = [] from rfl]
    simp only [List.cons.injEq, and_true]
    refine ⟨?_, ?_, ?_, ?_, ?_, ?_, ?_, ?_, ?_, ?_, ?_, ?_, ?_, ?_, ?_, ?_⟩ <;> omega

/-! ### zone and dispatch -/

/-- the `%zone` suffix -/
def zoneSuffix (zone : Bytes) : Bytes := if zone ≠ [] then 37 :: zone else []

theorem appendZone_eq (ret zone : Bytes) : appendZone ret zone = ret ++ zoneSuffix zone := by
  unfold appendZone zoneSuffix
  by_cases h : zone = [] <;> simp [h]

theorem indexByteFrom_append (core t : Bytes) (h : ∀ c ∈ core, c ≠ 37) : ∀ i,
    indexByteFrom 37 (core ++ t) i = indexByteFrom 37 t (i + core.length) := by
  induction core with
  | nil => intro i; simp
  | cons c core ih =>
    intro i
    have hc := h c (by simp)
    simp only [List.cons_append, indexByteFrom, hc, if_false]
    rw [ih (fun x hx => h x (by simp [hx]))]
    simp only [List.length_cons]
    congr 1; omega

/-- `parseIPv6` finds the zone the formatter appended -/
theorem parseIPv6_zone (core zone : Bytes) (h : ∀ c ∈ core, c ≠ 37) :
    parseIPv6 (core ++ zoneSuffix zone) = C02.parseIPv6Split (some (core, zone)) := by
  rw [C02.parseIPv6_eq_split]
  unfold zoneSuffix indexByte
  rw [indexByteFrom_append core _ h]
  by_cases hz : zone = []
  · simp [hz, indexByteFrom]
  · have hne : ∀ n : Nat, ¬ ((n : Int) = -1) := by omega
    simp only [hz, ne_eq, not_false_eq_true, if_true, indexByteFrom, Nat.zero_add, hne, if_false,
      Int.toNat_natCast]
    have e1 : (core ++ 37 :: zone).drop (core.length + 1) = zone := by
      rw [← List.drop_drop]; simp
    have e2 : (core ++ 37 :: zone).take core.length = core := by simp
    rw [e1, e2]
    simp [hz]

theorem dispatch_hex (whole r : Bytes) : ∀ l : Bytes, (∀ c ∈ l, (hexVal c).isSome = true) →
    parseAddrDispatch (l ++ 58 :: r) whole = parseIPv6 whole := by
  intro l
  induction l with
  | nil => intro _; simp [parseAddrDispatch]
  | cons c l ih =>
    intro hl
    obtain ⟨h1, h2, h3⟩ := hex_ne (hl c (by simp))
    simp only [List.cons_append]
    rw [parseAddrDispatch]
    simp only [h1, h2, h3, if_false]
    exact ih (fun x hx => hl x (by simp [hx]))

theorem parseAddr_colon (l r : Bytes) (hl : ∀ c ∈ l, (hexVal c).isSome = true) :
    parseAddr (l ++ 58 :: r) = parseIPv6 (l ++ 58 :: r) := by
  unfold parseAddr; exact dispatch_hex _ r l hl

theorem hexStr_no37 (x : Nat) (hx : x < 65536) : ∀ c ∈ hexStr x, c ≠ 37 :=
  fun c hc => (hex_ne ((hexStr_spec x hx).1 c hc)).2.2

theorem colonJoin_no37 (gs : List Nat) (h : ∀ y ∈ gs, y < 65536) : ∀ c ∈ colonJoin gs, c ≠ 37 := by
  cases gs with
  | nil => intro c hc; simp [colonJoin] at hc
  | cons x gs =>
    intro c hc
    simp only [colonJoin, sepGroups, List.mem_append, List.mem_flatMap, List.mem_cons] at hc
    rcases hc with hc | ⟨y, hy, rfl | hc⟩
    · exact hexStr_no37 x (h x (by simp)) c hc
    · decide
    · exact hexStr_no37 y (h y (by simp [hy])) c hc

/-- a colon-joined text starts with hex digits followed by a colon, as soon as a colon
follows or there are two groups -/
theorem colonJoin_colon (x : Nat) (gs : List Nat) (t : Bytes) (h : gs ≠ [] ∨ ∃ t', t = 58 :: t') :
    ∃ r, colonJoin (x :: gs) ++ t = hexStr x ++ 58 :: r := by
  cases gs with
  | nil =>
    rcases h with h | ⟨t', rfl⟩
    · exact absurd rfl h
    · exact ⟨t', by simp [colonJoin, sepGroups]⟩
  | cons y gs => exact ⟨colonJoin (y :: gs) ++ t, by rw [colonJoin_cons_cons]; simp⟩

end GolibsVerif.Netip
