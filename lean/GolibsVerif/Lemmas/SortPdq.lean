/-
`pdqsortCmpFunc` and `slices.SortFunc` of `Go/Sort.lean`.

`pdqsort_spec`, by induction on the fuel (every tail call and every recursive call works on a
strictly shorter range):
* for EVERY comparator the call succeeds — no index out of range, the fuel suffices — and
  permutes `[0, b)` (not `[a, b)`: see `Lemmas/SortPartial.lean`);
* for a strict weak order, under the invariant `LB` (`data[a-1]`, if any, is a lower bound of
  `[a, b)`) only `[a, b)` is permuted and it is sorted afterwards.
-/
import GolibsVerif.Lemmas.SortPartition
import GolibsVerif.Lemmas.SortHeap
import GolibsVerif.Lemmas.SortMisc
import GolibsVerif.Lemmas.SortPartial

namespace GolibsVerif.Slices

variable {α : Type}

/-! ### the steps of the loop body -/

theorem pdqBreak_spec (d : Array α) (a b limit : Int) (wb : Bool) (ha : 0 ≤ a) (hb : b ≤ d.size) :
    ∃ d1 l1, pdqBreak d a b limit wb = .ok (d1, l1) ∧ Frame d d1 a b := by
  unfold pdqBreak
  split
  · obtain ⟨d1, h1, hf1⟩ := breakPatterns_spec d a b ha hb
    simp only [h1, ok_bind, pure_ok]
    exact ⟨d1, _, rfl, hf1⟩
  · exact ⟨d, _, rfl, Frame.refl ..⟩

theorem pdqPivot_spec (cmp : α → α → Int) (d : Array α) (a b : Int) (ha : 0 ≤ a) (hab : a < b)
    (hb : b ≤ d.size) :
    ∃ d2 pivot hint, pdqPivot cmp d a b = .ok (d2, pivot, hint) ∧ Frame d d2 a b ∧ a ≤ pivot ∧ pivot < b := by
  obtain ⟨pivot, hint, h1, hp1, hp2⟩ := choosePivot_spec cmp d a b ha hab hb
  simp only [pdqPivot, h1, ok_bind]
  split
  · obtain ⟨d2, h2, hf2⟩ := reverseRange_spec d a b ha hb
    simp only [h2, ok_bind, pure_ok]
    exact ⟨d2, _, _, rfl, hf2, by omega, by omega⟩
  · exact ⟨d, pivot, hint, rfl, Frame.refl .., hp1, hp2⟩

theorem pdqPartial_spec (cmp : α → α → Int) (d : Array α) (a b : Int) (wb wp : Bool) (hint : SortedHint)
    (ha : 0 ≤ a) (hab : a < b) (hb : b ≤ d.size) :
    ∃ d3 done, pdqPartial cmp d a b wb wp hint = .ok (d3, done) ∧ Frame d d3 0 b ∧
      (WeakCmp cmp → LB cmp d a b → Frame d d3 a b ∧ (done = true → SortedOn cmp d3 a b)) := by
  unfold pdqPartial
  split
  · exact partialInsertionSort_spec cmp d a b ha hab hb
  · exact ⟨d, false, rfl, Frame.refl .., fun _ _ => ⟨Frame.refl .., by intro h; cases h⟩⟩

theorem pdqEqTest_spec (cmp : α → α → Int) (d : Array α) (a b pivot : Int) (ha : 0 ≤ a) (hap : a ≤ pivot)
    (hpb : pivot < b) (hb : b ≤ d.size) :
    ∃ e, pdqEqTest cmp d a pivot = .ok e ∧
      (e = true → a > 0 ∧ ∀ x y, at? d (a - 1) = some x → at? d pivot = some y → ¬ cmp x y < 0) := by
  unfold pdqEqTest
  split
  · rename_i h0
    obtain ⟨x, hx⟩ := at?_eq_some (d := d) (i := a - 1) (by omega) (by omega)
    obtain ⟨y, hy⟩ := at?_eq_some (d := d) (i := pivot) (by omega) (by omega)
    simp only [get_ok hx, get_ok hy, ok_bind, pure_ok]
    refine ⟨_, rfl, ?_⟩
    intro he
    refine ⟨h0, ?_⟩
    intro u v hu hv
    rw [hx] at hu; rw [hy] at hv; cases hu; cases hv
    simpa using he
  · exact ⟨false, rfl, by intro h; cases h⟩

/-! ### joining the parts -/

/-- after `partition` and sorting both sides the range is sorted -/
theorem sorted_join {cmp : α → α → Int} (hw : WeakCmp cmp) {d : Array α} {a mid b : Int} {p : α}
    (hL : SortedOn cmp d a mid) (hR : SortedOn cmp d (mid + 1) b) (hp : at? d mid = some p)
    (hlt : AllOn (fun x => cmp x p < 0) d a mid) (hge : AllOn (fun x => ¬ cmp x p < 0) d (mid + 1) b) :
    SortedOn cmp d a b := by
  intro i j x y hi hij hj hx hy
  simp only [AllOn] at hlt hge
  by_cases hjm : j < mid
  · exact hL i j x y hi hij hjm hx hy
  · by_cases him : mid < i
    · exact hR i j x y (by omega) hij hj hx hy
    · by_cases hje : j = mid
      · subst hje
        rw [hp] at hy; cases hy
        exact hw.asymm (hlt i x hi hij hx)
      · have hy' := hge j y (by omega) hj hy
        by_cases hie : i = mid
        · subst hie
          rw [hp] at hx; cases hx
          exact hy'
        · have hx' := hlt i x hi (by omega) hx
          exact hw.asymm (hw.lt_of_lt_of_le hx' hy')

/-- after `partitionEqual` and sorting the right part the range is sorted -/
theorem sorted_join_eq {cmp : α → α → Int} (hw : WeakCmp cmp) {d : Array α} {a mid b : Int} {p : α}
    (hR : SortedOn cmp d mid b) (hle : AllOn (fun x => ¬ cmp p x < 0) d a mid)
    (hge : AllOn (fun x => ¬ cmp x p < 0) d a mid) (hgt : AllOn (fun x => cmp p x < 0) d mid b) :
    SortedOn cmp d a b := by
  intro i j x y hi hij hj hx hy
  simp only [AllOn] at hle hge hgt
  by_cases him : mid ≤ i
  · exact hR i j x y him hij hj hx hy
  · have hx' := hle i x hi (by omega) hx
    by_cases hjm : j < mid
    · exact hw.le_trans _ _ _ hx' (hge j y (by omega) hjm hy)
    · exact hw.asymm (hw.lt_of_le_of_lt hx' (hgt j y (by omega) hj hy))

/-! ### pdqsortCmpFunc -/

theorem pdqsort_spec (cmp : α → α → Int) : ∀ (fuel : Nat) (d : Array α) (a b limit : Int) (wb wp : Bool),
    (b - a).toNat < fuel → 0 ≤ a → a ≤ b → b ≤ d.size →
    ∃ d', pdqsort cmp fuel d a b limit wb wp = .ok d' ∧ Frame d d' 0 b ∧
      (WeakCmp cmp → LB cmp d a b → Frame d d' a b ∧ SortedOn cmp d' a b) := by
  intro fuel
  induction fuel with
  | zero => intro d a b limit wb wp hf; omega
  | succ fuel ih =>
    intro d a b limit wb wp hfu ha hab hb
    simp only [pdqsort]
    by_cases hlen : b - a ≤ maxInsertion
    · rw [if_pos hlen]
      obtain ⟨d', h1, hf, hs⟩ := insertionSort_spec cmp d a b ha hb
      exact ⟨d', h1, hf.mono ha (Int.le_refl _), fun hw _ => ⟨hf, hs hw⟩⟩
    · rw [if_neg hlen]
      have hlen' : 12 < b - a := by simp only [maxInsertion] at hlen; omega
      by_cases hlim : limit = 0
      · rw [if_pos hlim]
        obtain ⟨d', h1, hf, hs⟩ := heapSort_spec cmp d a b ha (by omega) hb
        exact ⟨d', h1, hf.mono ha (Int.le_refl _), fun hw _ => ⟨hf, hs hw⟩⟩
      · rw [if_neg hlim]
        obtain ⟨d1, l1, h1, hf1⟩ := pdqBreak_spec d a b limit wb ha hb
        have hb1 : b ≤ d1.size := by rw [hf1.size]; exact hb
        obtain ⟨d2, pivot, hint, h2, hf2, hp1, hp2⟩ := pdqPivot_spec cmp d1 a b ha (by omega) hb1
        have hb2 : b ≤ d2.size := by rw [hf2.size]; exact hb1
        obtain ⟨d3, done, h3, hf3, hw3⟩ := pdqPartial_spec cmp d2 a b wb wp hint ha (by omega) hb2
        have hb3 : b ≤ d3.size := by rw [hf3.size]; exact hb2
        simp only [h1, h2, h3, ok_bind]
        have hf03 : Frame d d3 0 b :=
          (hf1.mono ha (Int.le_refl _)).trans ((hf2.mono ha (Int.le_refl _)).trans hf3)
        have hW3 : WeakCmp cmp → LB cmp d a b →
            Frame d d3 a b ∧ LB cmp d3 a b ∧ (done = true → SortedOn cmp d3 a b) := by
          intro hw hlb
          have hlb2 : LB cmp d2 a b := (hlb.frame hf1 ha).frame hf2 ha
          obtain ⟨hf3', hs3⟩ := hw3 hw hlb2
          exact ⟨hf1.trans (hf2.trans hf3'), hlb2.frame hf3' ha, hs3⟩
        by_cases hdone : done = true
        · rw [if_pos hdone]
          refine ⟨d3, rfl, hf03, ?_⟩
          intro hw hlb
          obtain ⟨hf3', _, hs3⟩ := hW3 hw hlb
          exact ⟨hf3', hs3 hdone⟩
        · rw [if_neg hdone]
          obtain ⟨e, h4, he⟩ := pdqEqTest_spec cmp d3 a b pivot ha hp1 hp2 hb3
          simp only [h4, ok_bind]
          obtain ⟨p, hp⟩ := at?_eq_some (d := d3) (i := pivot) (by omega) (by omega)
          by_cases hee : e = true
          · -- partitionEqual, then continue with [mid, b)
            rw [if_pos hee]
            obtain ⟨d4, mid, h5, hf4, hm1, hm2, hpa, hLe, hGt⟩ :=
              partitionEqual_spec cmp d3 a b pivot p ha hp1 hp2 hb3 hp
            have hb4 : b ≤ d4.size := by rw [hf4.size]; exact hb3
            obtain ⟨d5, h6, hf5, hw5⟩ := ih d4 mid b l1 wb wp (by omega) (by omega) hm2 hb4
            simp only [h5, h6, ok_bind]
            refine ⟨d5, rfl, hf03.trans ((hf4.mono ha (Int.le_refl _)).trans hf5), ?_⟩
            intro hw hlb
            obtain ⟨hf3', hlb3, _⟩ := hW3 hw hlb
            obtain ⟨ha0, hxy⟩ := he hee
            obtain ⟨m, hm⟩ := at?_eq_some (d := d3) (i := a - 1) (by omega) (by omega)
            have hmp : ¬ cmp m p < 0 := hxy m p hm hp
            have hge3 : AllOn (fun x => ¬ cmp x p < 0) d3 a b := by
              intro k x hk1 hk2 hx
              exact hw.le_trans p m x hmp (hlb3 ha0 k x m hk1 hk2 hx hm)
            have hge4 : AllOn (fun x => ¬ cmp x p < 0) d4 a b := hf4.allOn ha hge3
            have hle4 : AllOn (fun x => ¬ cmp p x < 0) d4 a mid := by
              intro k x hk1 hk2 hx
              by_cases hka : k = a
              · subst hka; rw [hpa] at hx; cases hx; exact hw.irrefl _
              · exact hLe k x (by omega) hk2 hx
            have hlb4 : LB cmp d4 mid b := by
              intro _ k y q hk1 hk2 hy hq
              have hq' := hle4 (mid - 1) q (by omega) (by omega) hq
              have hy' := hGt k y hk1 hk2 hy
              exact hw.asymm (hw.lt_of_le_of_lt hq' hy')
            obtain ⟨hf5', hs5⟩ := hw5 hw hlb4
            refine ⟨hf3'.trans (hf4.trans (hf5'.mono (by omega) (Int.le_refl _))), ?_⟩
            apply sorted_join_eq hw (p := p) (mid := mid) hs5
            · intro k x hk1 hk2 hx
              rw [hf5'.out k (by omega)] at hx
              exact hle4 k x hk1 hk2 hx
            · intro k x hk1 hk2 hx
              rw [hf5'.out k (by omega)] at hx
              exact hge4 k x hk1 (by omega) hx
            · exact hf5'.allOn (by omega) hGt
          · -- partition, recursion into the smaller side, continue with the other
            rw [if_neg hee]
            obtain ⟨d4, mid, ap, h5, hf4, hm1, hm2, hpm, hLt, hGe⟩ :=
              partition_spec cmp d3 a b pivot p ha hp1 hp2 hb3 hp
            have hb4 : b ≤ d4.size := by rw [hf4.size]; exact hb3
            simp only [h5, ok_bind]
            by_cases hlr : mid - a < b - mid
            · rw [if_pos hlr]
              obtain ⟨d5, h6, hf5, hw5⟩ := ih d4 a mid l1 true true (by omega) ha hm1 (by omega)
              have hb5 : b ≤ d5.size := by rw [hf5.size]; exact hb4
              obtain ⟨d6, h7, hf6, hw6⟩ := ih d5 (mid + 1) b l1 (decide (mid - a ≥ (b - a).tdiv 8)) ap
                (by omega) (by omega) (by omega) hb5
              simp only [h6, h7, ok_bind]
              refine ⟨d6, rfl, hf03.trans ((hf4.mono ha (Int.le_refl _)).trans
                ((hf5.mono (Int.le_refl _) (by omega)).trans hf6)), ?_⟩
              intro hw hlb
              obtain ⟨hf3', hlb3, _⟩ := hW3 hw hlb
              have hlb4 : LB cmp d4 a b := hlb3.frame hf4 ha
              obtain ⟨hf5', hs5⟩ := hw5 hw (hlb4.sub (by omega))
              have hp5 : at? d5 mid = some p := by rw [hf5'.out mid (by omega)]; exact hpm
              have hge5 : AllOn (fun x => ¬ cmp x p < 0) d5 (mid + 1) b := by
                intro k x hk1 hk2 hx
                rw [hf5'.out k (by omega)] at hx
                exact hGe k x hk1 hk2 hx
              have hlb5 : LB cmp d5 (mid + 1) b := by
                intro _ k x m hk1 hk2 hx hm
                have e : mid + 1 - 1 = mid := by omega
                rw [e, hp5] at hm; cases hm
                exact hge5 k x hk1 hk2 hx
              obtain ⟨hf6', hs6⟩ := hw6 hw hlb5
              refine ⟨hf3'.trans (hf4.trans ((hf5'.mono (Int.le_refl _) (by omega)).trans
                (hf6'.mono (by omega) (Int.le_refl _)))), ?_⟩
              apply sorted_join hw (p := p) (mid := mid)
              · exact hs5.frame_out hf6' (Or.inl (by omega))
              · exact hs6
              · rw [hf6'.out mid (by omega)]; exact hp5
              · have h5lt := hf5'.allOn ha hLt
                intro k x hk1 hk2 hx
                rw [hf6'.out k (by omega)] at hx
                exact h5lt k x hk1 hk2 hx
              · exact hf6'.allOn (by omega) hge5
            · rw [if_neg hlr]
              obtain ⟨d5, h6, hf5, hw5⟩ := ih d4 (mid + 1) b l1 true true (by omega) (by omega) (by omega) hb4
              have hb5 : b ≤ d5.size := by rw [hf5.size]; exact hb4
              obtain ⟨d6, h7, hf6, hw6⟩ := ih d5 a mid l1 (decide (b - mid ≥ (b - a).tdiv 8)) ap
                (by omega) ha hm1 (by omega)
              simp only [h6, h7, ok_bind]
              refine ⟨d6, rfl, hf03.trans ((hf4.mono ha (Int.le_refl _)).trans
                (hf5.trans (hf6.mono (Int.le_refl _) (by omega)))), ?_⟩
              intro hw hlb
              obtain ⟨hf3', hlb3, _⟩ := hW3 hw hlb
              have hlb4 : LB cmp d4 a b := hlb3.frame hf4 ha
              have hlb4r : LB cmp d4 (mid + 1) b := by
                intro _ k x m hk1 hk2 hx hm
                have e : mid + 1 - 1 = mid := by omega
                rw [e, hpm] at hm; cases hm
                exact hGe k x hk1 hk2 hx
              obtain ⟨hf5', hs5⟩ := hw5 hw hlb4r
              have hlb5 : LB cmp d5 a mid := by
                intro ha0 k x m hk1 hk2 hx hm
                rw [hf5'.out k (by omega)] at hx
                rw [hf5'.out (a - 1) (by omega)] at hm
                exact hlb4 ha0 k x m hk1 (by omega) hx hm
              obtain ⟨hf6', hs6⟩ := hw6 hw hlb5
              refine ⟨hf3'.trans (hf4.trans ((hf5'.mono (by omega) (Int.le_refl _)).trans
                (hf6'.mono (Int.le_refl _) (by omega)))), ?_⟩
              apply sorted_join hw (p := p) (mid := mid)
              · exact hs6
              · exact hs5.frame_out hf6' (Or.inr (by omega))
              · rw [hf6'.out mid (by omega), hf5'.out mid (by omega)]; exact hpm
              · have h5lt : AllOn (fun x => cmp x p < 0) d5 a mid := by
                  intro k x hk1 hk2 hx
                  rw [hf5'.out k (by omega)] at hx
                  exact hLt k x hk1 hk2 hx
                exact hf6'.allOn ha h5lt
              · have h5ge := hf5'.allOn (by omega) hGe
                intro k x hk1 hk2 hx
                rw [hf6'.out k (by omega)] at hx
                exact h5ge k x hk1 hk2 hx

end GolibsVerif.Slices
