/-
`siftDownCmpFunc` and `heapSortCmpFunc` of `Go/Sort.lean`: for every comparator they succeed
and permute the range; for a strict weak order `siftDown` restores the heap property and
`heapSort` sorts.
-/
import GolibsVerif.Lemmas.SortInsertion

namespace GolibsVerif.Slices

variable {α : Type}

/-- every node `k ≥ lo` of the heap `data[first : first+hi]` dominates its children -/
def HeapFrom (cmp : α → α → Int) (d : Array α) (first lo hi : Int) : Prop :=
  ∀ k c x y, lo ≤ k → (c = 2 * k + 1 ∨ c = 2 * k + 2) → c < hi →
    at? d (first + k) = some x → at? d (first + c) = some y → ¬ cmp x y < 0

/-- the heap property holds at every node `k ≥ lo` except `r`, and the parent of `r` (if it is
`≥ lo`) dominates the children of `r` -/
def SiftPre (cmp : α → α → Int) (d : Array α) (first lo hi r : Int) : Prop :=
  (∀ k c x y, lo ≤ k → k ≠ r → (c = 2 * k + 1 ∨ c = 2 * k + 2) → c < hi →
    at? d (first + k) = some x → at? d (first + c) = some y → ¬ cmp x y < 0) ∧
  (∀ g c x y, lo ≤ g → (r = 2 * g + 1 ∨ r = 2 * g + 2) → (c = 2 * r + 1 ∨ c = 2 * r + 2) → c < hi →
    at? d (first + g) = some x → at? d (first + c) = some y → ¬ cmp x y < 0)

/-- the choice of the greater child -/
theorem siftChild_spec (cmp : α → α → Int) (d : Array α) (first hi r child : Int) (hc : child = 2 * r + 1)
    (hr : 0 ≤ r) (hf : 0 ≤ first) (hlt : child < hi) (hs : first + hi ≤ d.size) :
    ∃ c, siftChild cmp d first hi child = .ok c ∧ (c = 2 * r + 1 ∨ c = 2 * r + 2) ∧ c < hi ∧
      (WeakCmp cmp → ∀ c' x y, (c' = 2 * r + 1 ∨ c' = 2 * r + 2) → c' < hi →
        at? d (first + c) = some x → at? d (first + c') = some y → ¬ cmp x y < 0) := by
  subst hc
  unfold siftChild
  split
  · rename_i h2
    obtain ⟨x, hx⟩ := at?_eq_some (d := d) (i := first + (2 * r + 1)) (by omega) (by omega)
    obtain ⟨y, hy⟩ := at?_eq_some (d := d) (i := first + (2 * r + 1) + 1) (by omega) (by omega)
    simp only [get_ok hx, get_ok hy, ok_bind, pure_ok]
    split
    · rename_i hlt'
      refine ⟨_, rfl, by omega, by omega, ?_⟩
      intro hw c' u v hc' hc'' hu hv
      have h1 := hw.asymm hlt'
      have h2 := hw.irrefl
      grind
    · rename_i hlt'
      refine ⟨_, rfl, by omega, by omega, ?_⟩
      intro hw c' u v hc' hc'' hu hv
      have h2 := hw.irrefl
      grind
  · rename_i h2
    refine ⟨_, rfl, by omega, by omega, ?_⟩
    intro hw c' u v hc' hc'' hu hv
    have h2 := hw.irrefl
    grind

theorem siftDownLoop_spec (cmp : α → α → Int) (lo hi first : Int) : ∀ (fuel : Nat) (d : Array α) (root : Int),
    (hi - root).toNat < fuel → 0 ≤ first → 0 ≤ lo → lo ≤ root → first + hi ≤ d.size →
    ∃ d', siftDownLoop cmp fuel d root hi first = .ok d' ∧ Frame d d' (first + root) (first + hi) ∧
      (WeakCmp cmp → SiftPre cmp d first lo hi root → HeapFrom cmp d' first lo hi) := by
  intro fuel
  induction fuel with
  | zero => intro d root hf; omega
  | succ fuel ih =>
    intro d root hfu hf hlo hr hs
    simp only [siftDownLoop]
    by_cases hch : 2 * root + 1 ≥ hi
    · rw [if_pos hch]
      refine ⟨d, rfl, Frame.refl .., ?_⟩
      clear ih
      intro hw hpre
      unfold SiftPre at hpre
      unfold HeapFrom
      grind
    · rw [if_neg hch]
      obtain ⟨c, hc1, hc2, hc3, hc4⟩ := siftChild_spec cmp d first hi root (2 * root + 1) rfl (by omega) hf (by omega) hs
      simp only [hc1, ok_bind]
      obtain ⟨x, hx⟩ := at?_eq_some (d := d) (i := first + root) (by omega) (by omega)
      obtain ⟨y, hy⟩ := at?_eq_some (d := d) (i := first + c) (by omega) (by omega)
      simp only [get_ok hx, get_ok hy, ok_bind]
      split
      · rename_i hnl
        have hnl' : ¬ cmp x y < 0 := by simpa using hnl
        refine ⟨d, rfl, Frame.refl .., ?_⟩
        intro hw hpre
        unfold SiftPre at hpre
        unfold HeapFrom
        have h3 := hc4 hw
        have h4 := hw.le_trans
        intro k c' u v hk hc' hc'' hu hv
        by_cases hkr : k = root
        · subst hkr
          rw [hx] at hu; cases hu
          have := h3 c' y v hc' hc'' hy hv
          exact h4 _ _ _ this hnl'
        · exact hpre.1 k c' u v hk hkr hc' hc'' hu hv
      · rename_i hl
        have hl' : cmp x y < 0 := by simpa using hl
        obtain ⟨d1, hsw, hf1, hat⟩ := swap_frame (d := d) (i := first + root) (j := first + c)
          (a := first + root) (b := first + hi) (by omega) hs (by omega) (by omega)
        simp only [hsw, ok_bind]
        obtain ⟨d2, h2, hf2, hp2⟩ := ih d1 c (by omega) hf hlo (by omega) (by rw [hf1.size]; exact hs)
        refine ⟨d2, h2, hf1.trans (hf2.mono (by omega) (Int.le_refl _)), ?_⟩
        clear ih
        intro hw hpre
        apply hp2 hw
        unfold SiftPre at hpre ⊢
        have h3 := hc4 hw
        have h5 := hw.asymm hl'
        obtain ⟨hpre1, hpre2⟩ := hpre
        constructor
        · intro k c' u v hk hkc hc' hc'' hu hv
          rw [hat] at hu hv
          grind
        · intro g c' u v hg hcg hc' hc'' hu hv
          rw [hat] at hu hv
          grind

theorem siftDown_spec (cmp : α → α → Int) (d : Array α) (lo hi first : Int)
    (hf : 0 ≤ first) (hlo : 0 ≤ lo) (hs : first + hi ≤ d.size) :
    ∃ d', siftDown cmp d lo hi first = .ok d' ∧ Frame d d' (first + lo) (first + hi) ∧
      (WeakCmp cmp → HeapFrom cmp d first (lo + 1) hi → HeapFrom cmp d' first lo hi) := by
  obtain ⟨d', h1, h2, h3⟩ := siftDownLoop_spec cmp lo hi first (hi - lo).toNat.succ d lo (by omega) hf hlo
    (Int.le_refl _) hs
  refine ⟨d', h1, h2, fun hw hh => h3 hw ?_⟩
  unfold HeapFrom at hh
  unfold SiftPre
  constructor
  · intro k c x y hk hkr hc hc' hx hy
    exact hh k c x y (by omega) hc hc' hx hy
  · intro g c x y hg hr
    omega

/-- in a heap the root dominates every node -/
theorem heap_root_max (cmp : α → α → Int) (hw : WeakCmp cmp) (d : Array α) (first hi : Int) (m : α)
    (hf : 0 ≤ first) (hs : first + hi ≤ d.size) (hh : HeapFrom cmp d first 0 hi) (hm : at? d first = some m) :
    ∀ (n : Nat) (k : Int), k.toNat ≤ n → 0 ≤ k → k < hi → ∀ x, at? d (first + k) = some x → ¬ cmp m x < 0 := by
  intro n
  induction n with
  | zero =>
    intro k hk hk0 hkh x hx
    have : k = 0 := by omega
    subst this
    simp only [Int.add_zero] at hx
    rw [hm] at hx; cases hx
    exact hw.irrefl _
  | succ n ih =>
    intro k hk hk0 hkh x hx
    by_cases hz : k = 0
    · subst hz
      simp only [Int.add_zero] at hx
      rw [hm] at hx; cases hx
      exact hw.irrefl _
    · obtain ⟨y, hy⟩ := at?_eq_some (d := d) (i := first + (k - 1) / 2) (by omega) (by omega)
      have h1 := ih ((k - 1) / 2) (by omega) (by omega) (by omega) y hy
      have h2 := hh ((k - 1) / 2) k y x (by omega) (by omega) hkh hy hx
      exact hw.le_trans _ _ _ h2 h1

theorem heapBuild_spec (cmp : α → α → Int) (hi first : Int) : ∀ (n : Nat) (d : Array α) (i : Int),
    (i + 1).toNat = n → -1 ≤ i → 0 ≤ first → first + hi ≤ d.size →
    ∃ d', heapBuild cmp d i hi first = .ok d' ∧ Frame d d' first (first + hi) ∧
      (WeakCmp cmp → HeapFrom cmp d first (i + 1) hi → HeapFrom cmp d' first 0 hi) := by
  intro n
  induction n with
  | zero =>
    intro d i hn hi1 hf hs
    have : ¬ i ≥ 0 := by omega
    rw [heapBuild]
    rw [if_neg this]
    have e : i + 1 = 0 := by omega
    rw [e]
    exact ⟨d, rfl, Frame.refl .., fun _ h => h⟩
  | succ n ih =>
    intro d i hn hi1 hf hs
    have h0 : i ≥ 0 := by omega
    rw [heapBuild]
    rw [if_pos h0]
    obtain ⟨d1, h1, hf1, hh1⟩ := siftDown_spec cmp d i hi first hf h0 hs
    simp only [h1, ok_bind]
    obtain ⟨d2, h2, hf2, hh2⟩ := ih d1 (i - 1) (by omega) (by omega) hf (by rw [hf1.size]; exact hs)
    refine ⟨d2, h2, (hf1.mono (by omega) (Int.le_refl _)).trans hf2, ?_⟩
    intro hw hh
    apply hh2 hw
    have e : i - 1 + 1 = i := by omega
    rw [e]
    exact hh1 hw hh

/-- invariant of the second loop of `heapSort` before the iteration `i`: `[0, i]` is a heap,
`(i, hi)` is sorted and dominates `[0, i]` -/
def PopInv (cmp : α → α → Int) (d : Array α) (first hi i : Int) : Prop :=
  HeapFrom cmp d first 0 (i + 1) ∧ SortedOn cmp d (first + i + 1) (first + hi) ∧
  (∀ p q x y, first ≤ p → p ≤ first + i → first + i < q → q < first + hi →
    at? d p = some x → at? d q = some y → ¬ cmp y x < 0)

theorem heapPop_spec (cmp : α → α → Int) (hi first : Int) : ∀ (n : Nat) (d : Array α) (i : Int),
    (i + 1).toNat = n → -1 ≤ i → i < hi → 0 ≤ first → first + hi ≤ d.size →
    ∃ d', heapPop cmp d i 0 first = .ok d' ∧ Frame d d' first (first + hi) ∧
      (WeakCmp cmp → PopInv cmp d first hi i → SortedOn cmp d' first (first + hi)) := by
  intro n
  induction n with
  | zero =>
    intro d i hn hi1 hih hf hs
    have : ¬ i ≥ 0 := by omega
    rw [heapPop]
    rw [if_neg this]
    refine ⟨d, rfl, Frame.refl .., ?_⟩
    intro _ hinv
    have := hinv.2.1
    rwa [show first + i + 1 = first by omega] at this
  | succ n ih =>
    intro d i hn hi1 hih hf hs
    have h0 : i ≥ 0 := by omega
    rw [heapPop]
    rw [if_pos h0]
    obtain ⟨d1, hsw, hf1, hat⟩ := swap_frame (d := d) (i := first) (j := first + i)
      (a := first) (b := first + hi) hf hs (by omega) (by omega)
    have hs1 : first + hi ≤ d1.size := by rw [hf1.size]; exact hs
    obtain ⟨d2, h2, hf2, hh2⟩ := siftDown_spec cmp d1 0 i first hf (Int.le_refl _) (by omega)
    have hs2 : first + hi ≤ d2.size := by rw [hf2.size]; exact hs1
    obtain ⟨d3, h3, hf3, hh3⟩ := ih d2 (i - 1) (by omega) (by omega) (by omega) hf hs2
    simp only [hsw, h2, h3, ok_bind]
    refine ⟨d3, rfl, hf1.trans ((hf2.mono (by omega) (by omega)).trans hf3), ?_⟩
    clear ih
    intro hw hinv
    apply hh3 hw
    obtain ⟨hheap, hsorted, hcross⟩ := hinv
    obtain ⟨m, hm⟩ := at?_eq_some (d := d) (i := first) (by omega) (by omega)
    have hmax := heap_root_max cmp hw d first (i + 1) m hf (by omega) hheap hm
    have hf2' : Frame d1 d2 first (first + i) := by
      have := hf2; simp only [Int.add_zero] at this; exact this
    refine ⟨?_, ?_, ?_⟩
    · -- heap on [0, i)
      have e : i - 1 + 1 = i := by omega
      rw [e]
      apply hh2 hw
      unfold HeapFrom at hheap ⊢
      intro k c x y hk hc hc' hx hy
      rw [hat] at hx hy
      have e1 : first + k ≠ first := by omega
      have e2 : first + k ≠ first + i := by omega
      have e3 : first + c ≠ first := by omega
      have e4 : first + c ≠ first + i := by omega
      simp only [e1, e2, e3, e4, if_false] at hx hy
      exact hheap k c x y (by omega) hc (by omega) hx hy
    · -- sorted on [i, hi)
      have e : first + (i - 1) + 1 = first + i := by omega
      rw [e]
      intro p q x y hp hpq hq hx hy
      rw [hf2'.out p (by omega), hat] at hx
      rw [hf2'.out q (by omega), hat] at hy
      unfold SortedOn at hsorted
      have hc1 := hcross first q
      have hc2 := hsorted p q
      grind
    · -- [i, hi) dominates [0, i)
      intro p q x y hp1 hp2 hq1 hq2 hx hy
      rw [hf2'.out q (by omega), hat] at hy
      have hall : AllOn (fun x => ¬ cmp y x < 0) d1 first (first + i) := by
        intro k z hk1 hk2 hz
        rw [hat] at hz
        have := hmax (k - first).toNat (k - first) (Nat.le_refl _) (by omega) (by omega) z
        have e : first + (k - first) = k := by omega
        rw [e] at this
        have := hmax i.toNat i (Nat.le_refl _) (by omega) (by omega) z
        grind
      exact hf2'.allOn hf hall p x hp1 (by omega) hx

theorem heapSort_spec (cmp : α → α → Int) (d : Array α) (a b : Int) (ha : 0 ≤ a) (hab : a < b)
    (hb : b ≤ d.size) :
    ∃ d', heapSort cmp d a b = .ok d' ∧ Frame d d' a b ∧ (WeakCmp cmp → SortedOn cmp d' a b) := by
  have hnn : (0 : Int) ≤ b - a - 1 := by omega
  obtain ⟨d1, h1, hf1, hh1⟩ := heapBuild_spec cmp (b - a) a _ d ((b - a - 1) / 2) rfl (by omega) ha (by omega)
  obtain ⟨d2, h2, hf2, hh2⟩ := heapPop_spec cmp (b - a) a _ d1 (b - a - 1) rfl (by omega) (by omega) ha
    (by rw [hf1.size]; omega)
  have e : a + (b - a) = b := by omega
  rw [e] at hf1 hf2 hh2
  simp only [heapSort, Int.tdiv_eq_ediv_of_nonneg hnn, h1, h2, ok_bind]
  refine ⟨d2, rfl, hf1.trans hf2, ?_⟩
  intro hw
  apply hh2 hw
  refine ⟨?_, ?_, ?_⟩
  · have e2 : b - a - 1 + 1 = b - a := by omega
    rw [e2]
    apply hh1 hw
    unfold HeapFrom
    intro k c x y hk hc hc'
    omega
  · intro p q x y hp hpq hq
    omega
  · intro p q x y hp1 hp2 hq1 hq2
    omega

end GolibsVerif.Slices
