/-
C19 — the heap model of handlers/records refines the heap-free reference semantics
(`Spec/C19.lean`), for every growth policy.
-/
import GolibsVerif.Spec.C19

namespace GolibsVerif.C19

theorem render_eq_specLine (text : Int → Nat → List Attr → Bytes) (encode : Bytes → Bytes → Bytes)
    (hp : Heap) (r : Record) :
    render text encode hp r = specLine text encode r.level r.rid (r.attrs hp) := rfl

/-- `Handle` (with the clone): the heap is only extended, and the line is the reference line
for the record's attributes followed by the handler's kept attributes. -/
theorem handle_spec' (pol : Policy) (text : Int → Nat → List Attr → Bytes)
    (encode : Bytes → Bytes → Bytes) (hp : Heap) (h : Handler) (r : Record)
    (hr : r.wf hp) :
    ∃ ext, h.handle pol text encode hp r =
      (specLine text encode r.level r.rid (r.attrs hp ++ keep (view hp h.attrs))).map
        fun out => (hp ++ ext, out) := by
  obtain ⟨ext, h1, hl, hrid, hf, hb⟩ := addAttrs_clone pol hp r (view hp h.attrs) hr.back
  refine ⟨ext, ?_⟩
  unfold Handler.handle
  simp only [render_eq_specLine]
  generalize r.clone.addAttrs pol hp (view hp h.attrs) = a at h1 hl hrid hf hb
  have hattrs : a.2.attrs a.1 = r.attrs hp ++ keep (view hp h.attrs) := by
    unfold Record.attrs
    rw [h1, hb, hf]
    rcases hr.full with h0 | hfull
    · have hv : view hp r.back = [] := by simp [view, h0]
      rw [hv, List.nil_append, List.append_nil, fillFront_concat]
    · rw [fillFront_full _ _ hfull, List.append_assoc]
  rw [hattrs, hl, hrid, h1]
  cases specLine text encode r.level r.rid (r.attrs hp ++ keep (view hp h.attrs)) <;> rfl

theorem Record.wf_ext {hp : Heap} {r : Record} (h : r.wf hp) (ext : Heap) : r.wf (hp ++ ext) :=
  ⟨Slice.wf_ext h.back ext, h.full⟩

theorem Record.info_ext {hp : Heap} {r : Record} (h : r.wf hp) (ext : Heap) :
    r.info (hp ++ ext) = r.info hp := by
  simp [Record.info, Record.attrs, view_ext h.back]

/-! ### simulation -/

/-- The concrete world represents the abstract tree `s`: every handler still holds the
`slog.Leveler` of the root, and both sides agree on what the `*slog.LevelVar` holds. -/
structure WInv (lvl0 : Leveler) (w : World) (s : SpecWorld) : Prop where
  len : w.handlers.length = s.paths.length
  lvar : w.lvar = s.lvar
  node : ∀ (i : Nat) (h : Handler), w.handlers[i]? = some h →
    h.level = lvl0 ∧ h.attrs.wf w.heap ∧ s.paths[i]? = some (view w.heap h.attrs)

def Sim {β : Type} (lvl0 : Leveler) (hp0 : Heap) :
    Option (World × β) → Option (SpecWorld × β) → Prop
  | some (w, o), some (p, o') => o = o' ∧ WInv lvl0 w p ∧ ∃ e, w.heap = hp0 ++ e
  | none, none => True
  | _, _ => False

theorem WInv.none_iff {lvl0 : Leveler} {w : World} {s : SpecWorld} (hi : WInv lvl0 w s)
    (i : Nat) : w.handlers[i]? = none ↔ s.paths[i]? = none := by
  simp [List.getElem?_eq_none_iff, hi.len]

theorem step_sim (pol : Policy) (text : Int → Nat → List Attr → Bytes)
    (encode : Bytes → Bytes → Bytes) (lvl0 : Leveler) (recs : List Record) (hp0 : Heap)
    (hrecs : ∀ r ∈ recs, r.wf hp0)
    (w : World) (s : SpecWorld) (hinv : WInv lvl0 w s)
    (hext : ∃ e, w.heap = hp0 ++ e) (op : Op) :
    Sim lvl0 hp0 (w.step pol text encode recs op)
      (specStep text encode lvl0 (recs.map (Record.info hp0)) s op) := by
  obtain ⟨e0, he0⟩ := hext
  cases op with
  | withAttrs p as =>
    unfold World.step specStep
    cases hh : w.handlers[p]? with
    | none =>
      have := (hinv.none_iff p).mp hh
      simp [hh, this, Sim]
    | some h =>
      obtain ⟨hlv, hwf, hp⟩ := hinv.node p h hh
      obtain ⟨ext, h1, h2, h3⟩ := append_clip pol w.heap h.attrs as hwf
      simp only [hh, hp, Option.bind_eq_bind, Option.bind_some, Option.pure_def, Sim, Handler.withAttrs,
        true_and]
      refine ⟨⟨?_, hinv.lvar, ?_⟩, ⟨e0 ++ ext, by rw [h1, he0, List.append_assoc]⟩⟩
      · simp [hinv.len]
      · intro i h' hi'
        simp only at hi' ⊢
        rw [h1]
        by_cases hlt : i < w.handlers.length
        · rw [List.getElem?_append_left hlt] at hi'
          obtain ⟨a1, a2, a3⟩ := hinv.node i h' hi'
          refine ⟨a1, Slice.wf_ext a2 ext, ?_⟩
          rw [List.getElem?_append_left (by rw [← hinv.len]; exact hlt), view_ext a2]
          exact a3
        · have hge : w.handlers.length ≤ i := Nat.le_of_not_lt hlt
          rw [List.getElem?_append_right hge] at hi'
          have hi0 : i - w.handlers.length = 0 := by
            by_cases h0 : i - w.handlers.length = 0
            · exact h0
            · have : ([{ level := h.level, attrs := (append pol w.heap (clip h.attrs) as).2 }] :
                  List Handler)[i - w.handlers.length]? = none := by
                apply List.getElem?_eq_none; simp; omega
              rw [this] at hi'; cases hi'
          rw [hi0] at hi'
          simp only [List.getElem?_cons_zero, Option.some.injEq] at hi'
          subst hi'
          have hieq : i = s.paths.length := by rw [← hinv.len]; omega
          refine ⟨hlv, ?_, ?_⟩
          · simpa [h1] using h2
          · subst hieq
            simp only [List.getElem?_append_right (Nat.le_refl _), Nat.sub_self,
              List.getElem?_cons_zero, Option.some.injEq]
            rw [h3]
  | handle n ri =>
    unfold World.step specStep
    cases hh : w.handlers[n]? with
    | none =>
      have := (hinv.none_iff n).mp hh
      simp [hh, this, Sim]
    | some h =>
      obtain ⟨hlv, hwf, hp⟩ := hinv.node n h hh
      simp only [hh, hp, Option.bind_eq_bind, Option.bind_some, List.getElem?_map]
      cases hr : recs[ri]? with
      | none => simp [Sim]
      | some r =>
        have hrw : r.wf hp0 := hrecs r (List.mem_of_getElem? hr)
        have hrw' : r.wf w.heap := by rw [he0]; exact Record.wf_ext hrw e0
        obtain ⟨ext, hs⟩ := handle_spec' pol text encode w.heap h r hrw'
        have hinfo : r.info w.heap = r.info hp0 := by rw [he0]; exact Record.info_ext hrw e0
        have hattrs : r.attrs w.heap = (r.info hp0).attrs := by
          rw [← hinfo]; rfl
        simp only [Option.map_some, Option.bind_some, Option.pure_def]
        rw [hs, hattrs]
        have e1 : (r.info hp0).level = r.level := rfl
        have e2 : (r.info hp0).rid = r.rid := rfl
        rw [e1, e2]
        cases hsl : specLine text encode r.level r.rid ((r.info hp0).attrs ++ keep (view w.heap h.attrs)) with
        | error p => simp only [Except.map, Sim, toOut, true_and]; exact ⟨hinv, e0, he0⟩
        | ok out =>
          simp only [Except.map, Sim, toOut, true_and]
          refine ⟨⟨hinv.len, hinv.lvar, ?_⟩, ⟨e0 ++ ext, by simp [he0]⟩⟩
          intro i h' hi'
          obtain ⟨a1, a2, a3⟩ := hinv.node i h' hi'
          refine ⟨a1, Slice.wf_ext a2 ext, ?_⟩
          simp only
          rw [view_ext a2]; exact a3
  | enabled n l =>
    unfold World.step specStep
    cases hh : w.handlers[n]? with
    | none =>
      have := (hinv.none_iff n).mp hh
      simp [hh, this, Sim]
    | some h =>
      obtain ⟨hlv, hwf, hp⟩ := hinv.node n h hh
      simp only [hh, hp, Option.bind_eq_bind, Option.bind_some, Option.pure_def, Sim, Handler.enabled, hlv,
        hinv.lvar, true_and]
      exact ⟨hinv, e0, he0⟩
  | setLevel l =>
    -- the variable changes on both sides; no handler and no array is touched
    unfold World.step specStep
    simp only [Option.pure_def, Sim, true_and]
    exact ⟨⟨hinv.len, rfl, hinv.node⟩, e0, he0⟩

theorem run_sim (pol : Policy) (text : Int → Nat → List Attr → Bytes)
    (encode : Bytes → Bytes → Bytes) (lvl0 : Leveler) (recs : List Record) (hp0 : Heap)
    (hrecs : ∀ r ∈ recs, r.wf hp0) (ops : List Op)
    (w : World) (s : SpecWorld) (hinv : WInv lvl0 w s)
    (hext : ∃ e, w.heap = hp0 ++ e) :
    Sim lvl0 hp0 (World.run pol text encode recs w ops)
      (specRun text encode lvl0 (recs.map (Record.info hp0)) s ops) := by
  induction ops generalizing w s with
  | nil => exact ⟨rfl, hinv, hext⟩
  | cons op ops ih =>
    have hs := step_sim pol text encode lvl0 recs hp0 hrecs w s hinv hext op
    unfold World.run specRun
    cases h1 : w.step pol text encode recs op with
    | none =>
      cases h2 : specStep text encode lvl0 (recs.map (Record.info hp0)) s op with
      | none => simp [Sim]
      | some q => rw [h1, h2] at hs; exact hs.elim
    | some pr =>
      obtain ⟨w1, o⟩ := pr
      cases h2 : specStep text encode lvl0 (recs.map (Record.info hp0)) s op with
      | none => rw [h1, h2] at hs; exact hs.elim
      | some q =>
        obtain ⟨p1, o'⟩ := q
        rw [h1, h2] at hs
        obtain ⟨ho, hinv1, hext1⟩ := hs
        subst ho
        have ih1 := ih w1 p1 hinv1 hext1
        simp only [Option.bind_eq_bind, Option.bind_some]
        cases h3 : World.run pol text encode recs w1 ops with
        | none =>
          cases h4 : specRun text encode lvl0 (recs.map (Record.info hp0)) p1 ops with
          | none => simp [Sim]
          | some q => rw [h3, h4] at ih1; exact ih1.elim
        | some pr2 =>
          obtain ⟨w2, os⟩ := pr2
          cases h4 : specRun text encode lvl0 (recs.map (Record.info hp0)) p1 ops with
          | none => rw [h3, h4] at ih1; exact ih1.elim
          | some q =>
            obtain ⟨p2, os'⟩ := q
            rw [h3, h4] at ih1
            obtain ⟨hos, hinv2, hext2⟩ := ih1
            subst hos
            exact ⟨rfl, hinv2, hext2⟩

/-! ### the `*slog.LevelVar` along a script -/

/-- The world's `*slog.LevelVar` holds what the script last stored into it; no other operation
(`WithAttrs`, `Handle`, `Enabled`) changes it. -/
theorem run_lvar (pol : Policy) (text : Int → Nat → List Attr → Bytes)
    (encode : Bytes → Bytes → Bytes) (recs : List Record) (ops : List Op) (w w' : World)
    (outs : List Out) (h : World.run pol text encode recs w ops = some (w', outs)) :
    w'.lvar = lastLevel w.lvar ops := by
  induction ops generalizing w outs with
  | nil =>
    simp only [World.run, Option.some.injEq, Prod.mk.injEq] at h
    rw [← h.1]; rfl
  | cons op ops ih =>
    unfold World.run at h
    cases h1 : w.step pol text encode recs op with
    | none => simp [h1] at h
    | some pr =>
      obtain ⟨w1, o⟩ := pr
      cases h3 : World.run pol text encode recs w1 ops with
      | none => simp [h1, h3] at h
      | some pr2 =>
        obtain ⟨w2, os⟩ := pr2
        simp only [h1, h3, Option.bind_eq_bind, Option.bind_some, Option.pure_def, Option.some.injEq,
          Prod.mk.injEq] at h
        have hw : w2 = w' := h.1
        subst hw
        rw [ih w1 os h3]
        cases op with
        | withAttrs p as =>
          unfold World.step at h1
          cases hh : w.handlers[p]? with
          | none => simp [hh] at h1
          | some hd =>
            simp only [hh, Option.bind_eq_bind, Option.bind_some, Option.pure_def, Option.some.injEq,
              Prod.mk.injEq] at h1
            rw [← h1.1]; rfl
        | handle n ri =>
          unfold World.step at h1
          cases hh : w.handlers[n]? with
          | none => simp [hh] at h1
          | some hd =>
            cases hr : recs[ri]? with
            | none => simp [hh, hr] at h1
            | some r =>
              simp only [hh, hr, Option.bind_eq_bind, Option.bind_some] at h1
              split at h1 <;>
                (simp only [Option.pure_def, Option.some.injEq, Prod.mk.injEq] at h1; rw [← h1.1]; rfl)
        | enabled n l =>
          unfold World.step at h1
          cases hh : w.handlers[n]? with
          | none => simp [hh] at h1
          | some hd =>
            simp only [hh, Option.bind_eq_bind, Option.bind_some, Option.pure_def, Option.some.injEq,
              Prod.mk.injEq] at h1
            rw [← h1.1]; rfl
        | setLevel l =>
          simp only [World.step, Option.pure_def, Option.some.injEq, Prod.mk.injEq] at h1
          rw [← h1.1]; rfl

/-- one more operation at the end of a script is one step from the world the script reached -/
theorem run_snoc (pol : Policy) (text : Int → Nat → List Attr → Bytes)
    (encode : Bytes → Bytes → Bytes) (recs : List Record) (op' : Op) (ops : List Op) (w w' : World)
    (outs : List Out) (h : World.run pol text encode recs w ops = some (w', outs)) :
    World.run pol text encode recs w (ops ++ [op']) =
      (w'.step pol text encode recs op').map fun p => (p.1, outs ++ [p.2]) := by
  induction ops generalizing w outs with
  | nil =>
    simp only [World.run, Option.some.injEq, Prod.mk.injEq] at h
    obtain ⟨rfl, rfl⟩ := h
    simp only [List.nil_append, World.run]
    cases w.step pol text encode recs op' with
    | none => rfl
    | some p => rfl
  | cons op ops ih =>
    unfold World.run at h
    simp only [List.cons_append]
    unfold World.run
    cases h1 : w.step pol text encode recs op with
    | none => simp [h1] at h
    | some pr =>
      obtain ⟨w1, o⟩ := pr
      cases h3 : World.run pol text encode recs w1 ops with
      | none => simp [h1, h3] at h
      | some pr2 =>
        obtain ⟨w2, os⟩ := pr2
        simp only [h1, h3, Option.bind_eq_bind, Option.bind_some, Option.pure_def, Option.some.injEq,
          Prod.mk.injEq] at h
        obtain ⟨rfl, rfl⟩ := h
        simp only [Option.bind_eq_bind, Option.bind_some]
        rw [ih w1 os h3]
        cases w2.step pol text encode recs op' with
        | none => rfl
        | some p => rfl

/-- a world with one handler without attributes that *stores* the leveler `lvl0` (the
constructor `newHandlerDyn`), at a moment when the `*slog.LevelVar` holds `lv0` -/
def rootWorldDyn (hp0 : Heap) (lvl0 : Leveler) (lv0 : Int) : World :=
  { heap := hp0, handlers := [newHandlerDyn lvl0], lvar := lv0 }

/-- the root world of the code: `NewJSONHybridHandler` with the leveler `lvl0` in the options,
called when the `*slog.LevelVar` holds `lv0` -/
def rootWorld (hp0 : Heap) (lvl0 : Leveler) (lv0 : Int) : World :=
  { heap := hp0, handlers := [newHandler lvl0 lv0], lvar := lv0 }

/-- the code's root stores the constant its leveler reported at construction -/
theorem rootWorld_eq (hp0 : Heap) (lvl0 : Leveler) (lv0 : Int) :
    rootWorld hp0 lvl0 lv0 = rootWorldDyn hp0 (.const (lvl0.get lv0)) lv0 := rfl

/-- the abstract root: one node without attributes -/
def rootSpec (lv0 : Int) : SpecWorld := { paths := [[]], lvar := lv0 }

theorem rootWorldDyn_inv (hp0 : Heap) (lvl0 : Leveler) (lv0 : Int) :
    WInv lvl0 (rootWorldDyn hp0 lvl0 lv0) (rootSpec lv0) := by
  refine ⟨rfl, rfl, ?_⟩
  intro i h hi
  cases i with
  | zero =>
    simp only [rootWorldDyn, List.getElem?_cons_zero, Option.some.injEq] at hi
    subst hi
    exact ⟨rfl, Slice.wf_nil _, by simp [newHandlerDyn, view, Slice.nil, rootSpec]⟩
  | succ j => simp [rootWorldDyn] at hi

/-- Every handler of every tree grown from a root that stores `lvl0` stores `lvl0` (and the
run is the reference run): the form in which the theorems use the simulation. -/
theorem run_root (pol : Policy) (text : Int → Nat → List Attr → Bytes)
    (encode : Bytes → Bytes → Bytes) (lvl0 : Leveler) (lv0 : Int) (recs : List Record) (hp0 : Heap)
    (hrecs : ∀ r ∈ recs, r.wf hp0) (ops : List Op) (w' : World) (outs : List Out)
    (h : World.run pol text encode recs (rootWorldDyn hp0 lvl0 lv0) ops = some (w', outs)) :
    ∃ s', specRun text encode lvl0 (recs.map (Record.info hp0)) (rootSpec lv0) ops = some (s', outs) ∧
      WInv lvl0 w' s' := by
  have hs := run_sim pol text encode lvl0 recs hp0 hrecs ops (rootWorldDyn hp0 lvl0 lv0) (rootSpec lv0)
    (rootWorldDyn_inv hp0 lvl0 lv0) ⟨[], by simp [rootWorldDyn]⟩
  rw [h] at hs
  cases h2 : specRun text encode lvl0 (recs.map (Record.info hp0)) (rootSpec lv0) ops with
  | none => rw [h2] at hs; exact hs.elim
  | some q =>
    obtain ⟨s', outs'⟩ := q
    rw [h2] at hs
    obtain ⟨ho, hinv, _⟩ := hs
    subst ho
    exact ⟨s', rfl, hinv⟩

end GolibsVerif.C19
