/-
C19 — the heap model of handlers/records refines the heap-free reference semantics
(`Spec/C19.lean`), for every growth policy.
-/
import GolibsVerif.Spec.C19

namespace GolibsVerif.C19

theorem render_eq_specLine (text : Int → Nat → List Attr → Bytes) (encode : Bytes → Bytes → Bytes)
    (hp : Heap) (r : Record) :
    render text encode hp r = specLine text encode r.level r.rid (r.attrs hp) := rfl

/-- `Handle` (with the clone): the heap is only extended, and the line is the reference line
for the record's attributes followed by the handler's kept attributes. -/
theorem handle_spec' (pol : Policy) (text : Int → Nat → List Attr → Bytes)
    (encode : Bytes → Bytes → Bytes) (hp : Heap) (h : Handler) (r : Record)
    (hr : r.wf hp) :
    ∃ ext, h.handle pol text encode hp r =
      (specLine text encode r.level r.rid (r.attrs hp ++ keep (view hp h.attrs))).map
        fun out => (hp ++ ext, out) := by
  obtain ⟨ext, h1, hl, hrid, hf, hb⟩ := addAttrs_clone pol hp r (view hp h.attrs) hr.back
  refine ⟨ext, ?_⟩
  unfold Handler.handle
  simp only [render_eq_specLine]
  generalize r.clone.addAttrs pol hp (view hp h.attrs) = a at h1 hl hrid hf hb
  have hattrs : a.2.attrs a.1 = r.attrs hp ++ keep (view hp h.attrs) := by
    unfold Record.attrs
    rw [h1, hb, hf]
    rcases hr.full with h0 | hfull
    · have hv : view hp r.back = [] := by simp [view, h0]
      rw [hv, List.nil_append, List.append_nil, fillFront_concat]
    · rw [fillFront_full _ _ hfull, List.append_assoc]
  rw [hattrs, hl, hrid, h1]
  cases specLine text encode r.level r.rid (r.attrs hp ++ keep (view hp h.attrs)) <;> rfl

theorem Record.wf_ext {hp : Heap} {r : Record} (h : r.wf hp) (ext : Heap) : r.wf (hp ++ ext) :=
  ⟨Slice.wf_ext h.back ext, h.full⟩

theorem Record.info_ext {hp : Heap} {r : Record} (h : r.wf hp) (ext : Heap) :
    r.info (hp ++ ext) = r.info hp := by
  simp [Record.info, Record.attrs, view_ext h.back]

/-! ### simulation -/

/-- The concrete world represents the abstract tree `paths`. -/
structure WInv (lvl0 : Int) (w : World) (paths : List (List Attr)) : Prop where
  len : w.handlers.length = paths.length
  node : ∀ (i : Nat) (h : Handler), w.handlers[i]? = some h →
    h.level = lvl0 ∧ h.attrs.wf w.heap ∧ paths[i]? = some (view w.heap h.attrs)

def Sim {β : Type} (lvl0 : Int) (hp0 : Heap) :
    Option (World × β) → Option (List (List Attr) × β) → Prop
  | some (w, o), some (p, o') => o = o' ∧ WInv lvl0 w p ∧ ∃ e, w.heap = hp0 ++ e
  | none, none => True
  | _, _ => False

theorem WInv.none_iff {lvl0 : Int} {w : World} {paths : List (List Attr)} (hi : WInv lvl0 w paths)
    (i : Nat) : w.handlers[i]? = none ↔ paths[i]? = none := by
  simp [List.getElem?_eq_none_iff, hi.len]

theorem step_sim (pol : Policy) (text : Int → Nat → List Attr → Bytes)
    (encode : Bytes → Bytes → Bytes) (lvl0 : Int) (recs : List Record) (hp0 : Heap)
    (hrecs : ∀ r ∈ recs, r.wf hp0)
    (w : World) (paths : List (List Attr)) (hinv : WInv lvl0 w paths)
    (hext : ∃ e, w.heap = hp0 ++ e) (op : Op) :
    Sim lvl0 hp0 (w.step pol text encode recs op)
      (specStep text encode lvl0 (recs.map (Record.info hp0)) paths op) := by
  obtain ⟨e0, he0⟩ := hext
  cases op with
  | withAttrs p as =>
    unfold World.step specStep
    cases hh : w.handlers[p]? with
    | none =>
      have := (hinv.none_iff p).mp hh
      simp [hh, this, Sim]
    | some h =>
      obtain ⟨hlv, hwf, hp⟩ := hinv.node p h hh
      obtain ⟨ext, h1, h2, h3⟩ := append_clip pol w.heap h.attrs as hwf
      simp only [hh, hp, Option.bind_eq_bind, Option.bind_some, Option.pure_def, Sim, Handler.withAttrs,
        true_and]
      refine ⟨⟨?_, ?_⟩, ⟨e0 ++ ext, by rw [h1, he0, List.append_assoc]⟩⟩
      · simp [hinv.len]
      · intro i h' hi'
        simp only at hi' ⊢
        rw [h1]
        by_cases hlt : i < w.handlers.length
        · rw [List.getElem?_append_left hlt] at hi'
          obtain ⟨a1, a2, a3⟩ := hinv.node i h' hi'
          refine ⟨a1, Slice.wf_ext a2 ext, ?_⟩
          rw [List.getElem?_append_left (by rw [← hinv.len]; exact hlt), view_ext a2]
          exact a3
        · have hge : w.handlers.length ≤ i := Nat.le_of_not_lt hlt
          rw [List.getElem?_append_right hge] at hi'
          have hi0 : i - w.handlers.length = 0 := by
            by_cases h0 : i - w.handlers.length = 0
            · exact h0
            · have : ([{ level := h.level, attrs := (append pol w.heap (clip h.attrs) as).2 }] :
                  List Handler)[i - w.handlers.length]? = none := by
                apply List.getElem?_eq_none; simp; omega
              rw [this] at hi'; cases hi'
          rw [hi0] at hi'
          simp only [List.getElem?_cons_zero, Option.some.injEq] at hi'
          subst hi'
          have hieq : i = paths.length := by rw [← hinv.len]; omega
          refine ⟨hlv, ?_, ?_⟩
          · simpa [h1] using h2
          · subst hieq
            simp only [List.getElem?_append_right (Nat.le_refl _), Nat.sub_self,
              List.getElem?_cons_zero, Option.some.injEq]
            rw [h3]
  | handle n ri =>
    unfold World.step specStep
    cases hh : w.handlers[n]? with
    | none =>
      have := (hinv.none_iff n).mp hh
      simp [hh, this, Sim]
    | some h =>
      obtain ⟨hlv, hwf, hp⟩ := hinv.node n h hh
      simp only [hh, hp, Option.bind_eq_bind, Option.bind_some, List.getElem?_map]
      cases hr : recs[ri]? with
      | none => simp [Sim]
      | some r =>
        have hrw : r.wf hp0 := hrecs r (List.mem_of_getElem? hr)
        have hrw' : r.wf w.heap := by rw [he0]; exact Record.wf_ext hrw e0
        obtain ⟨ext, hs⟩ := handle_spec' pol text encode w.heap h r hrw'
        have hinfo : r.info w.heap = r.info hp0 := by rw [he0]; exact Record.info_ext hrw e0
        have hattrs : r.attrs w.heap = (r.info hp0).attrs := by
          rw [← hinfo]; rfl
        simp only [Option.map_some, Option.bind_some, Option.pure_def]
        rw [hs, hattrs]
        have e1 : (r.info hp0).level = r.level := rfl
        have e2 : (r.info hp0).rid = r.rid := rfl
        rw [e1, e2]
        cases hsl : specLine text encode r.level r.rid ((r.info hp0).attrs ++ keep (view w.heap h.attrs)) with
        | error p => simp only [Except.map, Sim, toOut, true_and]; exact ⟨hinv, e0, he0⟩
        | ok out =>
          simp only [Except.map, Sim, toOut, true_and]
          refine ⟨⟨hinv.len, ?_⟩, ⟨e0 ++ ext, by simp [he0]⟩⟩
          intro i h' hi'
          obtain ⟨a1, a2, a3⟩ := hinv.node i h' hi'
          refine ⟨a1, Slice.wf_ext a2 ext, ?_⟩
          simp only
          rw [view_ext a2]; exact a3
  | enabled n l =>
    unfold World.step specStep
    cases hh : w.handlers[n]? with
    | none =>
      have := (hinv.none_iff n).mp hh
      simp [hh, this, Sim]
    | some h =>
      obtain ⟨hlv, hwf, hp⟩ := hinv.node n h hh
      simp only [hh, hp, Option.bind_eq_bind, Option.bind_some, Option.pure_def, Sim, Handler.enabled, hlv,
        true_and]
      exact ⟨hinv, e0, he0⟩

theorem run_sim (pol : Policy) (text : Int → Nat → List Attr → Bytes)
    (encode : Bytes → Bytes → Bytes) (lvl0 : Int) (recs : List Record) (hp0 : Heap)
    (hrecs : ∀ r ∈ recs, r.wf hp0) (ops : List Op)
    (w : World) (paths : List (List Attr)) (hinv : WInv lvl0 w paths)
    (hext : ∃ e, w.heap = hp0 ++ e) :
    Sim lvl0 hp0 (World.run pol text encode recs w ops)
      (specRun text encode lvl0 (recs.map (Record.info hp0)) paths ops) := by
  induction ops generalizing w paths with
  | nil => exact ⟨rfl, hinv, hext⟩
  | cons op ops ih =>
    have hs := step_sim pol text encode lvl0 recs hp0 hrecs w paths hinv hext op
    unfold World.run specRun
    cases h1 : w.step pol text encode recs op with
    | none =>
      cases h2 : specStep text encode lvl0 (recs.map (Record.info hp0)) paths op with
      | none => simp [Sim]
      | some q => rw [h1, h2] at hs; exact hs.elim
    | some pr =>
      obtain ⟨w1, o⟩ := pr
      cases h2 : specStep text encode lvl0 (recs.map (Record.info hp0)) paths op with
      | none => rw [h1, h2] at hs; exact hs.elim
      | some q =>
        obtain ⟨p1, o'⟩ := q
        rw [h1, h2] at hs
        obtain ⟨ho, hinv1, hext1⟩ := hs
        subst ho
        have ih1 := ih w1 p1 hinv1 hext1
        simp only [Option.bind_eq_bind, Option.bind_some]
        cases h3 : World.run pol text encode recs w1 ops with
        | none =>
          cases h4 : specRun text encode lvl0 (recs.map (Record.info hp0)) p1 ops with
          | none => simp [Sim]
          | some q => rw [h3, h4] at ih1; exact ih1.elim
        | some pr2 =>
          obtain ⟨w2, os⟩ := pr2
          cases h4 : specRun text encode lvl0 (recs.map (Record.info hp0)) p1 ops with
          | none => rw [h3, h4] at ih1; exact ih1.elim
          | some q =>
            obtain ⟨p2, os'⟩ := q
            rw [h3, h4] at ih1
            obtain ⟨hos, hinv2, hext2⟩ := ih1
            subst hos
            exact ⟨rfl, hinv2, hext2⟩

/-- the root world: one handler without attributes -/
def rootWorld (hp0 : Heap) (lvl0 : Int) : World := { heap := hp0, handlers := [newHandler lvl0] }

theorem rootWorld_inv (hp0 : Heap) (lvl0 : Int) : WInv lvl0 (rootWorld hp0 lvl0) [[]] := by
  refine ⟨rfl, ?_⟩
  intro i h hi
  cases i with
  | zero =>
    simp only [rootWorld, List.getElem?_cons_zero, Option.some.injEq] at hi
    subst hi
    exact ⟨rfl, Slice.wf_nil _, by simp [newHandler, view, Slice.nil]⟩
  | succ j => simp [rootWorld] at hi

end GolibsVerif.C19
