/-
C13 — helper lemmas: UTF-8 decoding facts (self-synchronisation), SimpleFold orbits under
contract FOLD-1, the scan loop of `ContainsFold`, ASCII operands, and the in-place filter of
`SplitTrimmed`.  Core Lean only.
-/
import GolibsVerif.Spec.C13

namespace GolibsVerif.C13

/-! ## `utf8.DecodeRuneInString` -/

theorem lead_cont {c : Nat} (h : isCont c) : lead c = (0, 0, 0) := by
  unfold isCont at h; unfold lead
  repeat' split
  all_goals first | rfl | omega

theorem decodeRune_cont {c : Nat} (t : Bytes) (h : isCont c) : decodeRune (c :: t) = (RuneError, 1) := by
  simp [decodeRune, lead_cont h]

theorem decodeRune_ascii {b : Nat} (t : Bytes) (h : b < 0x80) : decodeRune (b :: t) = (b, 1) := by
  have : lead b = (1, 0, 0) := by unfold lead; simp [h]
  simp [decodeRune, this]

theorem lead_range (b : Nat) : 2 ≤ (lead b).1 → 0x80 ≤ (lead b).2.1 ∧ (lead b).2.2 ≤ 0xBF := by
  unfold lead
  repeat' split
  all_goals simp

theorem decodeRune_take (s : Bytes) (L : Nat) (hL : 1 ≤ L) :
    (decodeRune (s.take L)).1 = (decodeRune s).1 ∨ (decodeRune (s.take L)).1 = RuneError := by
  match s, L with
  | [], _ => simp
  | s0 :: rest, L + 1 =>
    rcases rest with _ | ⟨s1, _ | ⟨s2, _ | ⟨s3, t⟩⟩⟩ <;> rcases L with _ | _ | _ | L <;>
      simp [decodeRune] <;> split <;> simp_all

theorem decodeRune_tail_cont (s : Bytes) (hr : (decodeRune s).1 ≠ RuneError) (k : Nat) (h1 : 1 ≤ k)
    (h2 : k < (decodeRune s).2) : ∃ c, s[k]? = some c ∧ isCont c := by
  match s with
  | [] => simp [decodeRune] at h2
  | s0 :: rest =>
    have hrange := lead_range s0
    simp only [decodeRune] at hr h2 ⊢
    split at h2
    · simp at h2; omega
    · split at h2
      · rename_i hl hc
        have : k = 1 := by simp at h2; omega
        subst this
        rw [hl] at hrange
        refine ⟨_, rfl, ?_⟩
        unfold isCont; omega
      · simp at h2; omega
    · split at h2
      · rename_i hl hc
        rw [hl] at hrange
        have : k = 1 ∨ k = 2 := by simp at h2; omega
        rcases this with rfl | rfl
        · refine ⟨_, rfl, ?_⟩
          unfold isCont; omega
        · exact ⟨_, rfl, hc.2.2⟩
      · simp at h2; omega
    · split at h2
      · rename_i hl hc
        rw [hl] at hrange
        have : k = 1 ∨ k = 2 ∨ k = 3 := by simp at h2; omega
        rcases this with rfl | rfl | rfl
        · refine ⟨_, rfl, ?_⟩
          unfold isCont; omega
        · exact ⟨_, rfl, hc.2.2.1⟩
        · exact ⟨_, rfl, hc.2.2.2⟩
      · simp at h2; omega
    · simp at h2; omega

/-! ## `unicode.SimpleFold` orbits under FOLD-1 -/

theorem iter_add (f : Nat → Nat) (m n a : Nat) : iter f (m + n) a = iter f n (iter f m a) := by
  induction m generalizing a with
  | zero => simp [iter]
  | succ m ih => rw [Nat.succ_add]; simp only [iter]; exact ih (f a)

theorem iter_succ' (f : Nat → Nat) (n a : Nat) : iter f (n + 1) a = f (iter f n a) := by
  rw [iter_add]; rfl

theorem iter_mul_period {f : Nat → Nat} {p a : Nat} (hp : iter f p a = a) (q : Nat) : iter f (p * q) a = a := by
  induction q with
  | zero => rfl
  | succ q ih => rw [Nat.mul_succ, iter_add, ih, hp]

theorem iter_mod {f : Nat → Nat} {p a : Nat} (hp : iter f p a = a) (n : Nat) : iter f n a = iter f (n % p) a := by
  conv => lhs; rw [← Nat.div_add_mod n p]
  rw [iter_add, iter_mul_period hp]

/-- membership in the walk implies membership in the orbit -/
theorem mem_orbitRest {fold : Nat → Nat} {a b : Nat} : ∀ (n f : Nat), b ∈ orbitRest fold a n f → ∃ k, iter fold k f = b
  | 0, _, h => by simp [orbitRest] at h
  | n + 1, f, h => by
    simp only [orbitRest] at h
    split at h
    · simp at h
    · rcases List.mem_cons.mp h with rfl | h
      · exact ⟨0, rfl⟩
      · obtain ⟨k, hk⟩ := mem_orbitRest n (fold f) h
        exact ⟨k + 1, hk⟩

/-- the walk reaches step `m` if it does not pass `a` before and has fuel -/
theorem orbitRest_mem {fold : Nat → Nat} {a m : Nat} : ∀ (n j : Nat), j ≤ m → m < j + n →
    (∀ k, j ≤ k → k ≤ m → iter fold k a ≠ a) → iter fold m a ∈ orbitRest fold a n (iter fold j a)
  | 0, j, h1, h2, _ => by omega
  | n + 1, j, h1, h2, h3 => by
    simp only [orbitRest]
    rw [if_neg (h3 j (Nat.le_refl _) h1)]
    by_cases hjm : j = m
    · subst hjm; exact List.mem_cons_self
    · refine List.mem_cons_of_mem _ ?_
      rw [← iter_succ' fold j a]
      exact orbitRest_mem n (j + 1) (by omega) (by omega) (fun k hk hk' => h3 k (by omega) hk')

theorem orbitMem_of_iter {fold : Nat → Nat} {a : Nat} (hper : ∃ p, 0 < p ∧ p ≤ orbitFuel ∧ iter fold p a = a) :
    ∀ (m b : Nat), iter fold m a = b → orbitMem fold a b = true := by
  obtain ⟨p, hp0, hpf, hp⟩ := hper
  -- strong induction on m, for m ≤ orbitFuel
  have key : ∀ (m : Nat), m ≤ orbitFuel → ∀ b, iter fold m a = b → orbitMem fold a b = true := by
    intro m
    induction m using Nat.strongRecOn with
    | _ m ih =>
      intro hm b hb
      by_cases hba : b = a
      · simp [orbitMem, hba]
      by_cases hret : ∃ k, 1 ≤ k ∧ k < m ∧ iter fold k a = a
      · obtain ⟨k, hk1, hk2, hk3⟩ := hret
        refine ih (m - k) (by omega) (by omega) b ?_
        have : m = k + (m - k) := by omega
        rw [this, iter_add, hk3] at hb
        exact hb
      · have hm0 : m ≠ 0 := by
          intro h0; subst h0; exact hba hb.symm
        have hmem : iter fold m a ∈ orbitRest fold a orbitFuel (iter fold 1 a) := by
          refine orbitRest_mem orbitFuel 1 (by omega) (by omega) ?_
          intro k hk1 hkm hka
          by_cases hkm' : k = m
          · subst hkm'; exact hba (hb.symm.trans hka)
          · exact hret ⟨k, hk1, by omega, hka⟩
        simp only [orbitMem, folds, Bool.or_eq_true, decide_eq_true_eq, List.contains_iff_mem]
        right
        rw [hb] at hmem
        exact hmem
  intro m b hb
  refine key (m % p) ?_ b ?_
  · have := Nat.mod_lt m hp0; omega
  · rw [← iter_mod hp]; exact hb

theorem iter_of_orbitMem {fold : Nat → Nat} {a b : Nat} (h : orbitMem fold a b = true) : ∃ n, iter fold n a = b := by
  simp only [orbitMem, folds, Bool.or_eq_true, decide_eq_true_eq, List.contains_iff_mem] at h
  rcases h with rfl | h
  · exact ⟨0, rfl⟩
  · obtain ⟨k, hk⟩ := mem_orbitRest _ _ h
    exact ⟨k + 1, hk⟩

theorem orbitMem_iff {fold : Nat → Nat} (hf : Fold1 fold) (a b : Nat) :
    orbitMem fold a b = true ↔ ∃ n, iter fold n a = b :=
  ⟨iter_of_orbitMem, fun ⟨n, hn⟩ => orbitMem_of_iter (hf.period a) n b hn⟩

theorem orbitMem_symm {fold : Nat → Nat} (hf : Fold1 fold) {a b : Nat} (h : orbitMem fold a b = true) :
    orbitMem fold b a = true := by
  obtain ⟨n, hn⟩ := iter_of_orbitMem h
  obtain ⟨p, hp0, _, hp⟩ := hf.period a
  rw [orbitMem_iff hf]
  refine ⟨p - n % p, ?_⟩
  have hlt := Nat.mod_lt n hp0
  rw [← hn, iter_mod hp n, ← iter_add]
  have : n % p + (p - n % p) = p := by omega
  rw [this, hp]

theorem iter_fixed {f : Nat → Nat} {a : Nat} (h : f a = a) (n : Nat) : iter f n a = a := by
  induction n with
  | zero => rfl
  | succ n ih => simp only [iter, h, ih]

theorem orbitMem_fffd_left {fold : Nat → Nat} (hf : Fold1 fold) {b : Nat} (h : orbitMem fold RuneError b = true) :
    b = RuneError := by
  obtain ⟨n, hn⟩ := iter_of_orbitMem h
  rw [iter_fixed hf.fffd] at hn; exact hn.symm

theorem orbitMem_ascii {fold : Nat → Nat} (hf : Fold1 fold) {a b : Nat} (ha : a < 128) (hb : b < 128) :
    orbitMem fold a b = true ↔ lowerASCII a = lowerASCII b := by
  rw [orbitMem_iff hf]; exact hf.ascii a b ha hb


/-! ## Strings that decode without U+FFFD; rune boundaries reached by sequential decoding -/

/-- step of sequential decoding -/
abbrev next (b : Nat) (t : Bytes) : Bytes := (b :: t).drop (decodeRune (b :: t)).2

theorem next_length_lt (b : Nat) (t : Bytes) : (next b t).length < (b :: t).length := by
  have := decodeRune_width_pos b t
  simp only [next, List.length_drop, List.length_cons]; omega

/-- induction along sequential decoding -/
theorem bytes_induction {P : Bytes → Prop} (nil : P []) (cons : ∀ b t, P (next b t) → P (b :: t)) :
    ∀ s, P s
  | [] => nil
  | b :: t => cons b t (bytes_induction nil cons (next b t))
termination_by s => s.length
decreasing_by exact next_length_lt b t

/-- `s` is valid UTF-8 and contains no U+FFFD: sequential decoding never yields `RuneError`. -/
inductive Good : Bytes → Prop
  | nil : Good []
  | cons (b : Nat) (t : Bytes) : (decodeRune (b :: t)).1 ≠ RuneError → Good (next b t) → Good (b :: t)

theorem good_of_noFFFD {s : Bytes} (h : noFFFD s = true) : Good s := by
  have h' : RuneError ∉ runes s := by
    simpa [noFFFD] using h
  clear h
  induction s using bytes_induction with
  | nil => exact .nil
  | cons b t ih =>
    rw [runes] at h'
    simp only [List.mem_cons, not_or] at h'
    exact .cons b t (fun e => h'.1 e.symm) (ih h'.2)

/-- offsets reached by sequential decoding -/
inductive Reach : Bytes → Nat → Prop
  | zero (s : Bytes) : Reach s 0
  | step (b : Nat) (t : Bytes) (i : Nat) : Reach (next b t) i → Reach (b :: t) ((decodeRune (b :: t)).2 + i)

theorem Reach.le {s : Bytes} {i : Nat} (h : Reach s i) : i ≤ s.length := by
  induction h with
  | zero s => omega
  | step b t i _ ih =>
    have := decodeRune_width_le (b :: t)
    simp only [next, List.length_drop] at ih
    omega

theorem good_head_not_cont {b : Nat} {t : Bytes} (h : Good (b :: t)) : ¬ isCont b := by
  intro hc
  cases h with
  | cons _ _ hr _ => exact hr (by rw [decodeRune_cont t hc])

theorem good_drop_reach {s : Bytes} {i : Nat} (hg : Good s) (h : Reach s i) : Good (s.drop i) := by
  induction h with
  | zero s => simpa using hg
  | step b t i _ ih =>
    cases hg with
    | cons _ _ _ hg' =>
      have := ih hg'
      simp only [next, List.drop_drop] at this
      exact this

theorem reach_boundary {s : Bytes} {i : Nat} (hg : Good s) (h : Reach s i) : boundary s i := by
  induction h with
  | zero s =>
    refine ⟨by omega, ?_⟩
    intro b hb
    cases s with
    | nil => simp at hb
    | cons c t =>
      simp at hb; subst hb
      exact good_head_not_cont hg
  | step b t i hr ih =>
    cases hg with
    | cons _ _ _ hg' =>
      have hb := ih hg'
      have hle := decodeRune_width_le (b :: t)
      refine ⟨?_, ?_⟩
      · have := hb.1
        simp only [next, List.length_drop] at this
        omega
      · intro c hc
        refine hb.2 c ?_
        simp only [next, List.getElem?_drop]
        exact hc

theorem boundary_reach {s : Bytes} (hg : Good s) : ∀ {i : Nat}, boundary s i → Reach s i := by
  induction hg with
  | nil =>
    intro i h
    have : i = 0 := by have := h.1; simp at this; exact this
    subst this; exact .zero _
  | cons b t hr _ ih =>
    intro i h
    by_cases hi0 : i = 0
    · subst hi0; exact .zero _
    by_cases hlt : i < (decodeRune (b :: t)).2
    · exfalso
      obtain ⟨c, hc1, hc2⟩ := decodeRune_tail_cont (b :: t) hr i (by omega) hlt
      exact h.2 c hc1 hc2
    · have hle := decodeRune_width_le (b :: t)
      have hb : boundary (next b t) (i - (decodeRune (b :: t)).2) := by
        refine ⟨?_, ?_⟩
        · have := h.1
          simp only [next, List.length_drop]; omega
        · intro c hc
          refine h.2 c ?_
          simp only [next, List.getElem?_drop] at hc
          have e : (decodeRune (b :: t)).2 + (i - (decodeRune (b :: t)).2) = i := by omega
          rw [e] at hc; exact hc
      have := Reach.step b t _ (ih hb)
      have e : (decodeRune (b :: t)).2 + (i - (decodeRune (b :: t)).2) = i := by omega
      rw [e] at this; exact this

theorem reach_iff_boundary {s : Bytes} (hg : Good s) (i : Nat) : Reach s i ↔ boundary s i :=
  ⟨reach_boundary hg, boundary_reach hg⟩

/-! ## `strings.IndexFunc` as a search over sequential decoding -/

/-- offset of the first rune satisfying `p` -/
def find (p : Nat → Bool) (s : Bytes) : Option Nat :=
  match s with
  | [] => none
  | b :: t =>
    if p (decodeRune (b :: t)).1 then some 0
    else (find p (next b t)).map (· + (decodeRune (b :: t)).2)
termination_by s.length
decreasing_by exact next_length_lt b t

theorem indexFuncAux_eq (p : Nat → Bool) (s : Bytes) : ∀ off,
    indexFuncAux p s off = match find p s with
      | none => -1
      | some k => ((off + k : Nat) : Int) := by
  induction s using bytes_induction with
  | nil => intro off; simp [indexFuncAux, find]
  | cons b t ih =>
    intro off
    rw [indexFuncAux, find]
    split
    · simp
    · rw [ih]
      cases find p (next b t) with
      | none => simp
      | some k => simp only [Option.map_some]; congr 1; omega

theorem indexFunc_eq (p : Nat → Bool) (s : Bytes) :
    indexFunc p s = match find p s with
      | none => -1
      | some k => (k : Int) := by
  rw [indexFunc, indexFuncAux_eq]
  cases find p s <;> simp

theorem find_lt {p : Nat → Bool} {s : Bytes} : ∀ {k}, find p s = some k → k < s.length := by
  induction s using bytes_induction with
  | nil => intro k h; simp [find] at h
  | cons b t ih =>
    intro k h
    rw [find] at h
    split at h
    · simp at h; subst h; simp
    · cases hf : find p (next b t) with
      | none => simp [hf] at h
      | some k' =>
        simp [hf] at h
        have := ih hf
        have hle := decodeRune_width_le (b :: t)
        simp only [next, List.length_drop] at this
        omega

/-- skipping the continuation bytes of a well-formed first rune: searching from byte 1 finds
what searching from the next rune finds (`p` rejects `RuneError`). -/
theorem find_skip {p : Nat → Bool} (hp : p RuneError = false) (s : Bytes)
    (hr : (decodeRune s).1 ≠ RuneError) :
    ∀ d j, j + d = (decodeRune s).2 → 1 ≤ j →
      find p (s.drop j) = (find p (s.drop (decodeRune s).2)).map (· + d)
  | 0, j, h, _ => by
    have : j = (decodeRune s).2 := by omega
    subst this
    cases find p (s.drop (decodeRune s).2) <;> simp
  | d + 1, j, h, h1 => by
    obtain ⟨c, hc1, hc2⟩ := decodeRune_tail_cont s hr j h1 (by omega)
    have hjl : j < s.length := by
      rcases List.getElem?_eq_some_iff.mp hc1 with ⟨hl, _⟩; exact hl
    have hdrop : s.drop j = c :: s.drop (j + 1) := by
      rw [List.drop_eq_getElem_cons hjl]
      congr 1
      rcases List.getElem?_eq_some_iff.mp hc1 with ⟨_, he⟩; exact he
    rw [hdrop, find]
    have hdec := decodeRune_cont (s.drop (j + 1)) hc2
    simp only [next, hdec, hp]
    simp only [Bool.false_eq_true, ↓reduceIte, List.drop_succ_cons, List.drop_zero]
    rw [find_skip hp s hr d (j + 1) (by omega) (by omega)]
    cases find p (s.drop (decodeRune s).2) <;> simp
    omega

/-! ## The scan loop of `ContainsFold` -/

/-- the window of `len(sub)` bytes at the start of `u` equals `sub` under folding -/
def Match (fold : Nat → Nat) (sub u : Bytes) : Prop :=
  sub.length ≤ u.length ∧ equalFold fold (u.take sub.length) sub = true

/-- some window at a decoding offset of `s` matches -/
def ExMatch (fold : Nat → Nat) (sub s : Bytes) : Prop :=
  ∃ i, Reach s i ∧ Match fold sub (s.drop i)

theorem exMatch_len {fold : Nat → Nat} {sub s : Bytes} (h : ExMatch fold sub s) : sub.length ≤ s.length := by
  obtain ⟨i, _, hm, _⟩ := h
  simp only [List.length_drop] at hm
  omega

theorem exMatch_cons {fold : Nat → Nat} {sub : Bytes} (b : Nat) (t : Bytes) :
    ExMatch fold sub (b :: t) ↔ Match fold sub (b :: t) ∨ ExMatch fold sub (next b t) := by
  constructor
  · rintro ⟨i, hr, hm⟩
    cases hr with
    | zero => left; simpa using hm
    | step _ _ i' hr' =>
      right
      refine ⟨i', hr', ?_⟩
      simp only [next, List.drop_drop]
      exact hm
  · rintro (hm | ⟨i, hr, hm⟩)
    · exact ⟨0, .zero _, by simpa using hm⟩
    · refine ⟨_, .step b t i hr, ?_⟩
      simp only [next, List.drop_drop] at hm
      exact hm

theorem exMatch_reach {fold : Nat → Nat} {sub s : Bytes} {k : Nat} (hk : Reach s k)
    (h : ExMatch fold sub (s.drop k)) : ExMatch fold sub s := by
  induction hk with
  | zero s => simpa using h
  | step b t i _ ih =>
    rw [exMatch_cons]; right
    apply ih
    simp only [next, List.drop_drop]
    exact h

theorem runes_cons (b : Nat) (t : Bytes) : runes (b :: t) = (decodeRune (b :: t)).1 :: runes (next b t) := by
  rw [runes]

/-- a matching window starts with a rune of the fold orbit of the needle's first rune -/
theorem match_first {fold : Nat → Nat} (hf : Fold1 fold) {sub u : Bytes} (hsub : sub ≠ [])
    (hgs : Good sub) (hm : Match fold sub u) :
    orbitMem fold (decodeRune sub).1 (decodeRune u).1 = true := by
  obtain ⟨hl, he⟩ := hm
  cases sub with
  | nil => exact absurd rfl hsub
  | cons c sub' =>
    cases u with
    | nil => simp at hl
    | cons b t =>
      simp only [List.length_cons, List.take_succ_cons] at he
      have ht := decodeRune_take (b :: t) (sub'.length + 1) (by omega)
      simp only [List.take_succ_cons] at ht
      rw [equalFold, runes_cons, runes_cons, eqFoldRunes, Bool.and_eq_true] at he
      have hfirst : (decodeRune (c :: sub')).1 ≠ RuneError := by
        cases hgs with
        | cons _ _ h _ => exact h
      rcases ht with ht | ht
      · rw [ht] at he
        exact orbitMem_symm hf he.1
      · rw [ht] at he
        exact absurd (orbitMem_fffd_left hf he.1) hfirst

/-- what `strings.IndexFunc` finds on a well-formed string, in terms of matches -/
theorem find_good {fold : Nat → Nat} {sub : Bytes} {p : Nat → Bool}
    (hp : ∀ u, Match fold sub u → p (decodeRune u).1 = true) (hsub : sub ≠ []) {t : Bytes} (hg : Good t) :
    match find p t with
    | none => ¬ ExMatch fold sub t
    | some k => Reach t k ∧ (ExMatch fold sub t → ExMatch fold sub (t.drop k)) := by
  induction hg with
  | nil =>
    simp only [find]
    intro h
    have := exMatch_len h
    cases sub with
    | nil => exact hsub rfl
    | cons _ _ => simp at this
  | cons b t hr _ ih =>
    rw [find]
    by_cases hpb : p (decodeRune (b :: t)).1 = true
    · rw [if_pos hpb]
      exact ⟨.zero _, by simp⟩
    · rw [if_neg hpb]
      have hnm : ¬ Match fold sub (b :: t) := fun hm => hpb (hp _ hm)
      cases hfn : find p (next b t) with
      | none =>
        rw [hfn] at ih
        simp only [Option.map_none]
        rw [exMatch_cons]
        exact fun h => h.elim hnm ih
      | some k =>
        rw [hfn] at ih
        simp only [Option.map_some]
        refine ⟨?_, ?_⟩
        · have := Reach.step b t k ih.1
          rw [Nat.add_comm]; exact this
        · intro h
          rw [exMatch_cons] at h
          have := ih.2 (h.resolve_left hnm)
          simp only [next, List.drop_drop] at this
          rw [Nat.add_comm]; exact this

theorem sliceTo_ok (s : Bytes) (n : Nat) (h : n ≤ s.length) : GoM.sliceTo s n = .ok (s.take n) := by
  simp only [GoM.sliceTo, GoM.slice]
  rw [if_pos (by omega)]
  simp

theorem sliceFrom_ok (s : Bytes) (i : Int) (n : Nat) (hi : i = n) (h : n ≤ s.length) :
    GoM.sliceFrom s i = .ok (s.drop n) := by
  subst hi
  simp only [GoM.sliceFrom, GoM.slice]
  rw [if_pos (by omega)]
  simp only [Int.toNat_natCast]
  congr 1
  rw [List.take_of_length_le]
  simp

theorem equalFold_nil (fold : Nat → Nat) : equalFold fold [] [] = true := by
  simp [equalFold, runes, eqFoldRunes]

/-- The loop never panics and terminates with a Boolean, for *every* input, predicate and fold
function (in particular on invalid UTF-8). -/
theorem cfLoop_total (fold : Nat → Nat) (pred : Nat → Bool) (sub : Bytes) :
    ∀ s, ∃ b, cfLoop fold pred sub s = .ok b := by
  intro s
  induction hn : s.length using Nat.strongRecOn generalizing s with
  | _ n ih =>
    rw [cfLoop]
    split
    · exact ⟨_, rfl⟩
    · rename_i hlen
      rw [sliceTo_ok s _ (by omega)]
      simp only
      split
      · exact ⟨_, rfl⟩
      · rename_i hne
        cases s with
        | nil =>
          exfalso
          have : sub = [] := by simpa using hlen
          subst this
          exact hne (equalFold_nil fold)
        | cons b t =>
          rw [sliceFrom_ok (b :: t) 1 1 rfl (by simp)]
          simp only [List.drop_succ_cons, List.drop_zero]
          rw [indexFunc_eq]
          cases hfn : find pred t with
          | none =>
            simp only
            rw [sliceFrom_ok _ (1 + -1) 0 (by simp) (by simp)]
            simp
          | some k =>
            have hk := find_lt hfn
            simp only
            rw [sliceFrom_ok _ (1 + (k : Int)) (1 + k) (by push_cast; rfl) (by simp; omega)]
            simp only
            rw [if_neg (by omega)]
            rw [dif_pos (by simp; omega)]
            exact ih _ (by subst hn; simp; omega) _ rfl

/-- The scan loop decides `ExMatch` on well-formed operands. -/
theorem cfLoop_spec {fold : Nat → Nat} {sub : Bytes} {pred : Nat → Bool}
    (hp : ∀ u, Match fold sub u → pred (decodeRune u).1 = true) (hpe : pred RuneError = false)
    (hsub : sub ≠ []) :
    ∀ s, Good s → ∃ b, cfLoop fold pred sub s = .ok b ∧ (b = true ↔ ExMatch fold sub s) := by
  intro s
  induction hn : s.length using Nat.strongRecOn generalizing s with
  | _ n ih =>
    intro hg
    rw [cfLoop]
    split
    · rename_i hlen
      refine ⟨false, rfl, ?_⟩
      simp only [Bool.false_eq_true, false_iff]
      intro h; have := exMatch_len h; omega
    · rename_i hlen
      rw [sliceTo_ok s _ (by omega)]
      simp only
      split
      · rename_i he
        refine ⟨true, rfl, ?_⟩
        simp only [true_iff]
        exact ⟨0, .zero _, by simp; omega, by simpa using he⟩
      · rename_i hne
        cases s with
        | nil =>
          exfalso
          have : sub = [] := by simpa using hlen
          exact hsub this
        | cons b t =>
          have hnm : ¬ Match fold sub (b :: t) := fun hm => hne hm.2
          rw [sliceFrom_ok (b :: t) 1 1 rfl (by simp)]
          simp only [List.drop_succ_cons, List.drop_zero]
          rw [indexFunc_eq]
          have hr : (decodeRune (b :: t)).1 ≠ RuneError := by
            cases hg with
            | cons _ _ h _ => exact h
          have hgn : Good (next b t) := by
            cases hg with
            | cons _ _ _ h => exact h
          have hw := decodeRune_width_pos b t
          have hwl := decodeRune_width_le (b :: t)
          have hskip := find_skip hpe (b :: t) hr ((decodeRune (b :: t)).2 - 1) 1 (by omega) (by omega)
          simp only [List.drop_succ_cons, List.drop_zero] at hskip
          rw [hskip]
          have hfg := find_good hp hsub hgn
          cases hfn : find pred (next b t) with
          | none =>
            rw [hfn] at hfg
            simp only [Option.map_none]
            rw [sliceFrom_ok _ (1 + -1) 0 (by simp) (by simp)]
            refine ⟨false, by simp, ?_⟩
            simp only [Bool.false_eq_true, false_iff]
            rw [exMatch_cons]
            exact fun h => h.elim hnm hfg
          | some k =>
            rw [hfn] at hfg
            have hk := find_lt hfn
            simp only [next, List.length_drop] at hk
            simp only [Option.map_some]
            rw [sliceFrom_ok _ (1 + ((k + ((decodeRune (b :: t)).2 - 1) : Nat) : Int))
              ((decodeRune (b :: t)).2 + k) (by omega) (by omega)]
            simp only
            have hne1 : ¬ (((k + ((decodeRune (b :: t)).2 - 1) : Nat) : Int) = -1) := by omega
            rw [if_neg hne1]
            have hsh : ((b :: t).drop ((decodeRune (b :: t)).2 + k)).length < (b :: t).length := by
              simp only [List.length_drop]; omega
            rw [dif_pos hsh]
            have hgd : Good ((b :: t).drop ((decodeRune (b :: t)).2 + k)) := by
              have := good_drop_reach hgn hfg.1
              simp only [next, List.drop_drop] at this
              exact this
            obtain ⟨r, hr1, hr2⟩ := ih _ (by subst hn; simp only [List.length_drop]; omega) _ rfl hgd
            refine ⟨r, hr1, ?_⟩
            rw [hr2, exMatch_cons]
            constructor
            · intro h
              right
              apply exMatch_reach hfg.1
              simp only [next, List.drop_drop]
              exact h
            · intro h
              have := hfg.2 (h.resolve_left hnm)
              simp only [next, List.drop_drop] at this
              exact this

theorem exMatch_iff_ref {fold : Nat → Nat} {sub s : Bytes} (hg : Good s) :
    ExMatch fold sub s ↔ RefContainsFold fold s sub := by
  constructor
  · rintro ⟨i, hr, hl, he⟩
    have := hr.le
    simp only [List.length_drop] at hl
    exact ⟨i, reach_boundary hg hr, by omega, he⟩
  · rintro ⟨i, hb, hl, he⟩
    refine ⟨i, boundary_reach hg hb, ?_, he⟩
    simp only [List.length_drop]; omega

theorem boundary_zero {s : Bytes} (hg : Good s) : boundary s 0 := reach_boundary hg (.zero _)

/-- `ContainsFold` on well-formed operands is the reference definition. -/
theorem containsFold_good {fold : Nat → Nat} (hf : Fold1 fold) {s sub : Bytes} (hg : Good s) (hgs : Good sub) :
    ∃ b, containsFold fold s sub = .ok b ∧ (b = true ↔ RefContainsFold fold s sub) := by
  unfold containsFold
  split
  · rename_i hlt
    refine ⟨false, rfl, ?_⟩
    simp only [Bool.false_eq_true, false_iff]
    rintro ⟨i, _, hl, _⟩; omega
  · split
    · rename_i _ heq
      refine ⟨_, rfl, ?_⟩
      constructor
      · intro he
        refine ⟨0, boundary_zero hg, by omega, ?_⟩
        simp only [window, List.drop_zero, ← heq, List.take_length]; exact he
      · rintro ⟨i, _, hl, he⟩
        have : i = 0 := by omega
        subst this
        simp only [window, List.drop_zero, ← heq, List.take_length] at he; exact he
    · rename_i hlt hne
      by_cases hsub : sub = []
      · subst hsub
        refine ⟨true, ?_, ?_⟩
        · rw [cfLoop]
          simp [GoM.sliceTo, GoM.slice, equalFold_nil]
        · simp only [true_iff]
          exact ⟨0, boundary_zero hg, by simp, by simp [window, equalFold_nil]⟩
      · have hp : ∀ u, Match fold sub u → orbitMem fold (decodeRune sub).1 (decodeRune u).1 = true :=
          fun u hm => match_first hf hsub hgs hm
        have hpe : orbitMem fold (decodeRune sub).1 RuneError = false := by
          cases h : orbitMem fold (decodeRune sub).1 RuneError with
          | false => rfl
          | true =>
            exfalso
            have h1 := orbitMem_fffd_left hf (orbitMem_symm hf h)
            cases hgs with
            | nil => exact hsub rfl
            | cons _ _ hr _ => exact hr h1
        obtain ⟨b, hb1, hb2⟩ := cfLoop_spec (pred := fun r => orbitMem fold (decodeRune sub).1 r) hp hpe hsub s hg
        exact ⟨b, hb1, hb2.trans (exMatch_iff_ref hg)⟩

/-! ## ASCII operands -/

def AllASCII (s : Bytes) : Prop := ∀ b ∈ s, b < 128

theorem AllASCII.tail {b : Nat} {t : Bytes} (h : AllASCII (b :: t)) : AllASCII t :=
  fun x hx => h x (List.mem_cons_of_mem _ hx)

theorem next_ascii {b : Nat} (t : Bytes) (h : b < 128) : next b t = t := by
  simp [next, decodeRune_ascii t h]

theorem runes_ascii {s : Bytes} (h : AllASCII s) : runes s = s := by
  induction s with
  | nil => simp [runes]
  | cons b t ih =>
    have hb := h b List.mem_cons_self
    rw [runes_cons, next_ascii t hb, ih h.tail, decodeRune_ascii t hb]

theorem good_ascii {s : Bytes} (h : AllASCII s) : Good s := by
  induction s with
  | nil => exact .nil
  | cons b t ih =>
    have hb := h b List.mem_cons_self
    refine .cons b t ?_ ?_
    · rw [decodeRune_ascii t hb]; simp only [RuneError]; omega
    · rw [next_ascii t hb]; exact ih h.tail

theorem eqFoldRunes_ascii {fold : Nat → Nat} (hf : Fold1 fold) : ∀ {s t : Bytes}, AllASCII s → AllASCII t →
    (eqFoldRunes fold s t = true ↔ s.map lowerASCII = t.map lowerASCII)
  | [], [], _, _ => by simp [eqFoldRunes]
  | [], _ :: _, _, _ => by simp [eqFoldRunes]
  | _ :: _, [], _, _ => by simp [eqFoldRunes]
  | a :: s, b :: t, hs, ht => by
    simp only [eqFoldRunes, Bool.and_eq_true, List.map_cons, List.cons.injEq]
    rw [orbitMem_ascii hf (hs a List.mem_cons_self) (ht b List.mem_cons_self),
      eqFoldRunes_ascii hf hs.tail ht.tail]

theorem equalFold_ascii {fold : Nat → Nat} (hf : Fold1 fold) {s t : Bytes} (hs : AllASCII s) (ht : AllASCII t) :
    equalFold fold s t = true ↔ s.map lowerASCII = t.map lowerASCII := by
  rw [equalFold, runes_ascii hs, runes_ascii ht, eqFoldRunes_ascii hf hs ht]

theorem boundary_ascii {s : Bytes} (hs : AllASCII s) (i : Nat) : boundary s i ↔ i ≤ s.length := by
  constructor
  · exact fun h => h.1
  · intro h
    refine ⟨h, ?_⟩
    intro b hb hc
    have := hs b (List.mem_of_getElem? hb)
    unfold isCont at hc; omega

theorem window_ascii {s : Bytes} (hs : AllASCII s) (i n : Nat) : AllASCII (window s i n) :=
  fun b hb => hs b (List.mem_of_mem_drop (List.mem_of_mem_take hb))

/-- on ASCII operands the reference definition is `strings.Contains(ToLower(s), ToLower(sub))` -/
theorem ref_ascii {fold : Nat → Nat} (hf : Fold1 fold) {s sub : Bytes} (hs : AllASCII s) (ht : AllASCII sub) :
    RefContainsFold fold s sub ↔ sub.map lowerASCII <:+: s.map lowerASCII := by
  constructor
  · rintro ⟨i, _, hl, he⟩
    rw [equalFold_ascii hf (window_ascii hs _ _) ht] at he
    refine ⟨(s.take i).map lowerASCII, (s.drop (i + sub.length)).map lowerASCII, ?_⟩
    rw [← he, ← List.map_append, ← List.map_append]
    congr 1
    simp only [window]
    rw [← List.drop_drop, List.append_assoc, List.take_append_drop, List.take_append_drop]
  · rintro ⟨pre, post, h⟩
    have hlen : pre.length + sub.length + post.length = s.length := by
      have := congrArg List.length h
      simp only [List.length_append, List.length_map] at this
      omega
    refine ⟨pre.length, (boundary_ascii hs _).mpr (by omega), by omega, ?_⟩
    rw [equalFold_ascii hf (window_ascii hs _ _) ht]
    simp only [window, List.map_take, List.map_drop, ← h]
    rw [List.append_assoc, List.drop_left, List.take_left' (by simp)]

/-! ## The in-place filter of `SplitTrimmed` -/

theorem filterInv_init (trim : Bytes → Bytes) (orig : List Bytes) :
    FilterInv trim orig 0 { A := orig, own := none, j := 0 } :=
  ⟨rfl, Nat.le_refl _, rfl, fun _ _ => rfl, by simp⟩

/-- One iteration preserves the invariant: the read sees the original element, the write (if
any) lands at an index `≤` the read index and inside the capacity, so nothing unread is
clobbered and `append` does not reallocate. -/
theorem filterInv_step {trim : Bytes → Bytes} {orig : List Bytes} {i : Nat} {st : FState}
    (h : FilterInv trim orig i st) (hi : i < orig.length) :
    ∃ v, idxS st.A i = .ok v ∧ orig[i]? = some v ∧
      FilterInv trim orig (i + 1) (if trim v = [] then st else st.append (trim v)) := by
  obtain ⟨hal, hji, hlen, hun, hfl⟩ := h
  have hv : st.A[i]? = some orig[i] := by rw [hun i (Nat.le_refl _)]; simp [hi]
  refine ⟨orig[i], by simp [idxS, hv], by simp [hi], ?_⟩
  have htake : orig.take (i + 1) = orig.take i ++ [orig[i]] := by
    rw [List.take_succ_eq_append_getElem hi]
  by_cases ht : trim orig[i] = []
  · rw [if_pos ht]
    refine ⟨hal, by omega, hlen, fun m hm => hun m (by omega), ?_⟩
    rw [hfl, htake, List.map_append, List.filter_append]
    simp [ht]
  · rw [if_neg ht]
    have hjl : st.j < st.A.length := by omega
    have happ : st.append (trim orig[i]) = { st with A := st.A.set st.j (trim orig[i]), j := st.j + 1 } := by
      simp only [FState.append, hal, hjl, ↓reduceIte]
    rw [happ]
    refine ⟨hal, by simp; omega, by simp [hlen], ?_, ?_⟩
    · intro m hm
      simp only
      rw [List.getElem?_set_ne (by omega)]
      exact hun m (by omega)
    · simp only
      rw [htake, List.map_append, List.filter_append, ← hfl]
      rw [List.take_succ_eq_append_getElem (by simp; omega)]
      simp only [List.getElem_set_self]
      rw [List.take_set_of_le (Nat.le_refl _)]
      congr 1
      simp [ht]

theorem filterLoop_inv {trim : Bytes → Bytes} {orig : List Bytes} :
    ∀ (k i : Nat) (st : FState), FilterInv trim orig i st → i + k ≤ orig.length →
      ∃ st', filterLoop trim k i st = .ok st' ∧ FilterInv trim orig (i + k) st'
  | 0, i, st, h, _ => ⟨st, rfl, h⟩
  | k + 1, i, st, h, hk => by
    obtain ⟨v, hv, _, hinv⟩ := filterInv_step h (by omega)
    simp only [filterLoop, hv]
    by_cases ht : trim v = []
    · rw [if_pos ht] at hinv ⊢
      obtain ⟨st', h1, h2⟩ := filterLoop_inv k (i + 1) st hinv (by omega)
      exact ⟨st', h1, by rw [Nat.add_assoc i 1 k, Nat.add_comm 1 k] at h2; exact h2⟩
    · rw [if_neg ht] at hinv ⊢
      obtain ⟨st', h1, h2⟩ := filterLoop_inv k (i + 1) _ hinv (by omega)
      exact ⟨st', h1, by rw [Nat.add_assoc i 1 k, Nat.add_comm 1 k] at h2; exact h2⟩

/-- the clearing loop stays in bounds and does not touch `strs = A[:j]` -/
theorem zeroLoop_ok : ∀ (k i : Nat) (a : List Bytes), i + k ≤ a.length →
    ∃ a', zeroLoop k i a = .ok a' ∧ a'.length = a.length ∧ a'.take i = a.take i
  | 0, _, a, _ => ⟨a, rfl, rfl, rfl⟩
  | k + 1, i, a, h => by
    simp only [zeroLoop, setS]
    rw [if_pos (by omega)]
    obtain ⟨a', h1, h2, h3⟩ := zeroLoop_ok k (i + 1) (a.set i []) (by simp; omega)
    refine ⟨a', h1, by simpa using h2, ?_⟩
    have := congrArg (List.take i) h3
    simp only [List.take_take, Nat.min_eq_left (Nat.le_succ i)] at this
    rw [this, List.take_set_of_le (Nat.le_refl _)]

theorem splitTrimmed_ok (trim : Bytes → Bytes) (split : Bytes → Bytes → List Bytes) (str sep : Bytes) :
    splitTrimmed trim split str sep = .ok
      { elems := if trim str = [] then [] else refSplitTrimmed trim split str sep, isNil := false } := by
  unfold splitTrimmed
  by_cases h0 : trim str = []
  · simp [h0]
  · simp only [h0, ↓reduceIte]
    obtain ⟨st, h1, h2⟩ := filterLoop_inv (trim := trim) (split (trim str) sep).length 0 _
      (filterInv_init trim (split (trim str) sep)) (by omega)
    rw [h1]
    simp only [Nat.zero_add] at h2
    obtain ⟨a', h3, h4, h5⟩ := zeroLoop_ok ((split (trim str) sep).length - st.j) st.j st.A
      (by have := h2.write_le_read; have := h2.same_len; omega)
    simp only [h3]
    simp only [FState.strs, h2.aliased, h5, h2.filtered, List.take_length, refSplitTrimmed]

/-! ## The stdlib models on the empty string -/

theorem trimLeftSpace_nil : trimLeftSpace [] = [] := by unfold trimLeftSpace; rfl

theorem trimRightSpace_nil : trimRightSpace [] = [] := by unfold trimRightSpace; rfl

theorem trimSpace_nil : trimSpace [] = [] := by
  rw [trimSpace, trimLeftSpace_nil, trimRightSpace_nil]

theorem explode_nil : explode [] = [] := by rw [explode]

theorem split_nil (sep : Bytes) : split [] sep = if sep = [] then [] else [[]] := by
  unfold split
  split
  · exact explode_nil
  · rfl

end GolibsVerif.C13
