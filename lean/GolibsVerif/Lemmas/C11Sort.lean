/-
C11 — the two stand-ins of `Model/C11.lean` for `slices.Sort` (insertion sort) and
`slices.BinarySearch` (the lower bound) against the models of the real functions in
`Go/Sort.lean`.
-/
import GolibsVerif.Lemmas.C11Sets
import GolibsVerif.Lemmas.SortC12
import GolibsVerif.Lemmas.SortSearch

namespace GolibsVerif.C11

open GoOrdered (lt)
open GolibsVerif.Slices (lessCmp WeakCmp)

section Ordered
variable {T : Type} [GoOrdered T]

theorem lessCmp_neg_iff {a b : T} : lessCmp less a b < 0 ↔ lt a b := by
  unfold lessCmp
  by_cases h : less a b = true
  · simp [h, less_iff.1 h]
  · have h' : less a b = false := by simpa using h
    simp [h', less_false_iff.1 h']

/-- `cmp.Less` on a `GoOrdered` type is a strict weak order -/
theorem weakCmp_less : WeakCmp (lessCmp (less (T := T))) := by
  refine ⟨?_, ?_, ?_⟩
  · intro a; rw [lessCmp_neg_iff]; exact GoOrdered.irrefl a
  · intro a b c; simp only [lessCmp_neg_iff]; exact GoOrdered.trans a b c
  · intro a b c; simp only [lessCmp_neg_iff]
    intro h1 h2
    exact le_trans' (a := a) (b := b) (c := c) h1 h2

theorem perm_insertSorted (v : T) (l : List T) : (insertSorted v l).Perm (v :: l) := by
  induction l with
  | nil => exact List.Perm.refl _
  | cons y ys ih =>
    simp only [insertSorted]
    split
    · exact List.Perm.refl _
    · exact (List.Perm.cons y ih).trans (List.Perm.swap v y ys)

theorem perm_sort (l : List T) : (sort l).Perm l := by
  induction l with
  | nil => exact List.Perm.refl _
  | cons y ys ih => exact (perm_insertSorted y (sort ys)).trans (List.Perm.cons y ih)

theorem le_antisymm' {a b : T} (h1 : le a b) (h2 : le b a) : a = b := by
  rcases GoOrdered.total a b with h | h | h
  · exact absurd h h2
  · exact h
  · exact absurd h h1

theorem lt_of_le_of_lt'' {a b c : T} (h1 : le a b) (h2 : lt b c) : lt a c := by
  rcases GoOrdered.total a c with h | h | h
  · exact h
  · subst h; exact absurd h2 h1
  · exact absurd (GoOrdered.trans b c a h2 h) h1

/-- a list has at most one sorted permutation (the order is linear) -/
theorem eq_of_perm_sorted : ∀ (l1 l2 : List T), l1.Perm l2 → l1.Pairwise le → l2.Pairwise le → l1 = l2 := by
  intro l1
  induction l1 with
  | nil => intro l2 hp _ _; exact (List.Perm.nil_eq hp)
  | cons a t1 ih =>
    intro l2 hp h1 h2
    cases l2 with
    | nil => exact absurd hp.length_eq (by simp)
    | cons b t2 =>
      rw [List.pairwise_cons] at h1 h2
      have hab : a = b := by
        have ha : a ∈ b :: t2 := hp.mem_iff.1 (by simp)
        have hb : b ∈ a :: t1 := hp.mem_iff.2 (by simp)
        rcases List.mem_cons.1 ha with e | ha'
        · exact e
        · rcases List.mem_cons.1 hb with e | hb'
          · exact e.symm
          · exact le_antisymm' (h1.1 b hb') (h2.1 a ha')
      subst hab
      rw [ih t2 (List.Perm.cons_inv hp) h1.2 h2.2]

/-- `lowerBound` is the boundary of `less · v` -/
theorem lowerBound_eq (v : T) : ∀ (l : List T) (i : Nat),
    (∀ k x, k < i → l[k]? = some x → less x v = true) →
    (∀ k x, i ≤ k → l[k]? = some x → less x v = false) → i ≤ l.length → lowerBound v l = i := by
  intro l
  induction l with
  | nil => intro i _ _ hi; simp at hi; simp [lowerBound, hi]
  | cons y ys ih =>
    intro i h1 h2 hi
    simp only [lowerBound]
    cases i with
    | zero =>
      have := h2 0 y (Nat.le_refl _) (by simp)
      simp [this]
    | succ i =>
      have := h1 0 y (by omega) (by simp)
      simp only [this, if_true]
      rw [ih i (fun k x hk hx => h1 (k + 1) x (by omega) (by simpa using hx))
        (fun k x hk hx => h2 (k + 1) x (by omega) (by simpa using hx)) (by simpa using hi)]

end Ordered

end GolibsVerif.C11
