/-
C08 — helper lemmas for `RangeNames`, `RangeAddrs` and `Equal` of `DefaultStorage`.

* the key lists of the two association-list maps after any sequence of `Add`s: no key
  twice, and exactly the addresses that were added with at least one name / exactly the
  lower-cased forms of the names that were added;
* `rangeLoop`: the Go loop `for k, v := range m { if !f(k, v) { return } }` for an arbitrary
  iteration order and a callback with state, and what it calls;
* `Equal` unfolded to what it compares, and a counting lemma (a duplicate-free list inside
  a list that is not longer has the same elements) used to turn "every key of `s.names` is a
  key of `other.names` and the lengths agree" into "the same keys".
-/
import GolibsVerif.Lemmas.C08

namespace GolibsVerif.C08
open GolibsVerif GolibsVerif.Netip GolibsVerif.C07

/-! ### keys of association-list maps -/

/-- the keys of a map, in the order of the association list -/
def keys {K V : Type} (m : Map K V) : List K := m.map (·.1)

theorem keys_length {K V : Type} (m : Map K V) : (keys m).length = m.length := by simp [keys]

theorem keys_put {K V : Type} [DecidableEq K] (m : Map K V) (k : K) (v : V) :
    keys (m.put k v) = if k ∈ keys m then keys m else keys m ++ [k] := by
  induction m with
  | nil => simp [Map.put, keys]
  | cons e rest ih =>
    obtain ⟨k', v'⟩ := e
    by_cases h : k' = k
    · subst h; simp [Map.put, keys]
    · have ih' : List.map (·.1) (Map.put rest k v) =
          if k ∈ List.map (·.1) rest then List.map (·.1) rest else List.map (·.1) rest ++ [k] := ih
      have hne : ¬ k = k' := fun hc => h hc.symm
      simp only [Map.put, h, if_false, keys, List.map_cons, List.mem_cons, hne, false_or, ih']
      split <;> simp

theorem mem_keys_put {K V : Type} [DecidableEq K] (m : Map K V) (k k' : K) (v : V) :
    k' ∈ keys (m.put k v) ↔ k' ∈ keys m ∨ k' = k := by
  rw [keys_put]
  split
  · constructor
    · exact Or.inl
    · rintro (h | rfl) <;> assumption
  · simp

theorem nodup_keys_put {K V : Type} [DecidableEq K] (m : Map K V) (k : K) (v : V)
    (h : (keys m).Nodup) : (keys (m.put k v)).Nodup := by
  rw [keys_put]
  split
  · exact h
  · rename_i hk
    rw [List.nodup_append]
    refine ⟨h, by simp, ?_⟩
    intro a ha b hb
    simp only [List.mem_singleton] at hb
    subst hb
    intro hc; subst hc; exact hk ha

theorem get_eq_none_iff {K V : Type} [DecidableEq K] (m : Map K V) (k : K) :
    m.get k = none ↔ k ∉ keys m := by
  induction m with
  | nil => simp [Map.get, keys]
  | cons e rest ih =>
    obtain ⟨k', v'⟩ := e
    by_cases h : k' = k
    · subst h; simp [Map.get, keys]
    · have hne : ¬ k = k' := fun hc => h hc.symm
      have ih' : Map.get rest k = none ↔ k ∉ List.map (·.1) rest := ih
      simp [Map.get, keys, h, hne, ih']

theorem mem_keys_of_get {K V : Type} [DecidableEq K] {m : Map K V} {k : K} {v : V}
    (h : m.get k = some v) : k ∈ keys m := by
  apply Classical.byContradiction
  intro hc
  rw [(get_eq_none_iff m k).2 hc] at h
  cases h

theorem get_of_mem_keys {K V : Type} [DecidableEq K] {m : Map K V} {k : K}
    (h : k ∈ keys m) : ∃ v, m.get k = some v := by
  cases hg : m.get k with
  | some v => exact ⟨v, rfl⟩
  | none => exact absurd h ((get_eq_none_iff m k).1 hg)

theorem mem_of_get {K V : Type} [DecidableEq K] {m : Map K V} {k : K} {v : V}
    (h : m.get k = some v) : (k, v) ∈ m := by
  induction m with
  | nil => simp [Map.get] at h
  | cons e rest ih =>
    obtain ⟨k', v'⟩ := e
    by_cases hk : k' = k
    · subst hk
      simp only [Map.get, if_true, Option.some.injEq] at h
      subst h; simp
    · simp only [Map.get, hk, if_false] at h
      exact List.mem_cons_of_mem _ (ih h)

theorem get_of_mem {K V : Type} [DecidableEq K] {m : Map K V} {k : K} {v : V}
    (hn : (keys m).Nodup) (h : (k, v) ∈ m) : m.get k = some v := by
  induction m with
  | nil => simp at h
  | cons e rest ih =>
    obtain ⟨k', v'⟩ := e
    have hn' : k' ∉ keys rest ∧ (keys rest).Nodup := by simpa [keys] using hn
    rcases List.mem_cons.1 h with h | h
    · cases h; simp [Map.get]
    · have hk : k' ≠ k := by
        intro hc; subst hc
        exact hn'.1 (by simp only [keys, List.mem_map]; exact ⟨(k', v), h, rfl⟩)
      simp only [Map.get, hk, if_false]
      exact ih hn'.2 h

/-! ### a counting lemma -/

theorem nodup_subset_length_le {α : Type} [DecidableEq α] :
    ∀ (l₁ l₂ : List α), l₁.Nodup → (∀ x ∈ l₁, x ∈ l₂) → l₁.length ≤ l₂.length := by
  intro l₁
  induction l₁ with
  | nil => intro l₂ _ _; simp
  | cons a t ih =>
    intro l₂ hn hs
    have hn' : a ∉ t ∧ t.Nodup := by simpa using hn
    have ha : a ∈ l₂ := hs a (by simp)
    have := ih (l₂.erase a) hn'.2 (by
      intro x hx
      have hne : x ≠ a := fun hc => hn'.1 (hc ▸ hx)
      exact (List.mem_erase_of_ne hne).2 (hs x (by simp [hx])))
    rw [List.length_erase_of_mem ha] at this
    have hpos : 0 < l₂.length := List.length_pos_of_mem ha
    simp only [List.length_cons]
    omega

/-- a duplicate-free list contained in a list that is not longer contains it -/
theorem subset_of_nodup_subset_length {α : Type} [DecidableEq α] (l₁ l₂ : List α)
    (hn : l₁.Nodup) (hs : ∀ x ∈ l₁, x ∈ l₂) (hlen : l₂.length ≤ l₁.length) :
    ∀ x ∈ l₂, x ∈ l₁ := by
  intro x hx
  apply Classical.byContradiction
  intro hnx
  have := nodup_subset_length_le l₁ (l₂.erase x) hn (by
    intro y hy
    have hne : y ≠ x := fun hc => hnx (hc ▸ hy)
    exact (List.mem_erase_of_ne hne).2 (hs y hy))
  rw [List.length_erase_of_mem hx] at this
  have hpos : 0 < l₂.length := List.length_pos_of_mem hx
  omega

theorem length_eq_of_nodup_same {α : Type} {l₁ l₂ : List α} (h₁ : l₁.Nodup) (h₂ : l₂.Nodup)
    (h : ∀ x, x ∈ l₁ ↔ x ∈ l₂) : l₁.length = l₂.length :=
  ((List.perm_ext_iff_of_nodup h₁ h₂).2 h).length_eq

/-! ### the keys of a storage after `Add`s -/

theorem bind_eq_ok {α β : Type} {x : GoM α} {f : α → GoM β} {b : β}
    (h : (x >>= f) = .ok b) : ∃ a, x = .ok a ∧ f a = .ok b := by
  cases x with
  | error e => cases h
  | ok a => exact ⟨a, rfl, h⟩

theorem addName_keys {lower : Bytes → Bytes} {a : Addr} {s s' : Storage} {name : Bytes}
    (h : addName lower a s name = .ok s') :
    a ∈ keys s.names ∧ keys s'.names = keys s.names ∧
      keys s'.addrs = keys (s.addrs.put (lower name) (OSet.empty : OSet Addr)) := by
  unfold addName at h
  cases hg : s.names.get a with
  | none => rw [hg] at h; cases h
  | some ns =>
    rw [hg] at h
    simp only [Except.ok.injEq] at h
    subst h
    have ha := mem_keys_of_get hg
    refine ⟨ha, ?_, ?_⟩
    · simp [keys_put, ha]
    · simp [keys_put]

theorem foldlM_addName_keys (lower : Bytes → Bytes) (a : Addr) :
    ∀ (names : List Bytes) (s s' : Storage), names.foldlM (addName lower a) s = .ok s' →
      keys s'.names = keys s.names ∧ (names ≠ [] → a ∈ keys s.names) ∧
      (∀ k, k ∈ keys s'.addrs ↔ k ∈ keys s.addrs ∨ ∃ n ∈ names, lower n = k) ∧
      ((keys s.addrs).Nodup → (keys s'.addrs).Nodup) := by
  intro names
  induction names with
  | nil =>
    intro s s' h
    simp only [List.foldlM, pure, Except.pure, Except.ok.injEq] at h
    subst h
    simp
  | cons n ns ih =>
    intro s s' h
    rw [List.foldlM_cons] at h
    obtain ⟨s1, h1, h2⟩ := bind_eq_ok h
    obtain ⟨ha, hk, hk2⟩ := addName_keys h1
    obtain ⟨g1, _, g3, g4⟩ := ih s1 s' h2
    refine ⟨g1.trans hk, fun _ => ha, ?_, ?_⟩
    · intro k
      rw [g3, hk2, mem_keys_put]
      constructor
      · rintro ((h | rfl) | ⟨m, hm, rfl⟩)
        · exact Or.inl h
        · exact Or.inr ⟨n, by simp, rfl⟩
        · exact Or.inr ⟨m, by simp [hm], rfl⟩
      · rintro (h | ⟨m, hm, rfl⟩)
        · exact Or.inl (Or.inl h)
        · rcases List.mem_cons.1 hm with rfl | hm
          · exact Or.inl (Or.inr rfl)
          · exact Or.inr ⟨m, hm, rfl⟩
    · intro hn
      apply g4
      rw [hk2]
      exact nodup_keys_put _ _ _ hn

theorem add_keys {lower : Bytes → Bytes} {s s' : Storage} {r : Record}
    (h : add lower s r = .ok s') :
    (∀ a, a ∈ keys s'.names ↔ a ∈ keys s.names ∨ (a = r.addr ∧ r.names ≠ [])) ∧
    ((keys s.names).Nodup → (keys s'.names).Nodup) ∧
    (∀ k, k ∈ keys s'.addrs ↔ k ∈ keys s.addrs ∨ ∃ n ∈ r.names, lower n = k) ∧
    ((keys s.addrs).Nodup → (keys s'.addrs).Nodup) := by
  unfold add at h
  by_cases h0 : r.names.length = 0
  · have hnil : r.names = [] := List.eq_nil_of_length_eq_zero h0
    simp only [h0, if_true, pure, Except.pure, Except.ok.injEq] at h
    subst h
    simp [hnil]
  · have hne : r.names ≠ [] := fun hc => h0 (by simp [hc])
    simp only [h0, if_false] at h
    unfold addBody at h
    cases hg : s.names.get r.addr with
    | some os =>
      rw [hg] at h
      obtain ⟨g1, _, g3, g4⟩ := foldlM_addName_keys lower r.addr r.names s s' h
      refine ⟨?_, ?_, g3, g4⟩
      · intro a
        rw [g1]
        constructor
        · exact Or.inl
        · rintro (h | ⟨rfl, _⟩)
          · exact h
          · exact mem_keys_of_get hg
      · rw [g1]; exact id
    | none =>
      rw [hg] at h
      obtain ⟨g1, _, g3, g4⟩ := foldlM_addName_keys lower r.addr r.names _ s' h
      refine ⟨?_, ?_, g3, g4⟩
      · intro a
        rw [g1]
        simp only [mem_keys_put]
        constructor
        · rintro (h | rfl)
          · exact Or.inl h
          · exact Or.inr ⟨rfl, hne⟩
        · rintro (h | ⟨rfl, _⟩)
          · exact Or.inl h
          · exact Or.inr rfl
      · rw [g1]
        exact nodup_keys_put _ _ _

theorem adds_keys (lower : Bytes → Bytes) :
    ∀ (rs : List Record) (s s' : Storage), adds lower s rs = .ok s' →
      (∀ a, a ∈ keys s'.names ↔ a ∈ keys s.names ∨ ∃ r ∈ rs, r.addr = a ∧ r.names ≠ []) ∧
      ((keys s.names).Nodup → (keys s'.names).Nodup) ∧
      (∀ k, k ∈ keys s'.addrs ↔ k ∈ keys s.addrs ∨ ∃ r ∈ rs, ∃ n ∈ r.names, lower n = k) ∧
      ((keys s.addrs).Nodup → (keys s'.addrs).Nodup) := by
  intro rs
  induction rs with
  | nil =>
    intro s s' h
    simp only [adds, List.foldlM, pure, Except.pure, Except.ok.injEq] at h
    subst h
    simp
  | cons r rs ih =>
    intro s s' h
    unfold adds at h
    rw [List.foldlM_cons] at h
    obtain ⟨s1, h1, h2⟩ := bind_eq_ok h
    obtain ⟨a1, a2, a3, a4⟩ := add_keys h1
    obtain ⟨b1, b2, b3, b4⟩ := ih s1 s' h2
    refine ⟨?_, fun hn => b2 (a2 hn), ?_, fun hn => b4 (a4 hn)⟩
    · intro a
      rw [b1, a1]
      constructor
      · rintro ((h | ⟨rfl, hne⟩) | ⟨r', hr', rfl, hne⟩)
        · exact Or.inl h
        · exact Or.inr ⟨r, by simp, rfl, hne⟩
        · exact Or.inr ⟨r', by simp [hr'], rfl, hne⟩
      · rintro (h | ⟨r', hr', rfl, hne⟩)
        · exact Or.inl (Or.inl h)
        · rcases List.mem_cons.1 hr' with rfl | hr'
          · exact Or.inl (Or.inr ⟨rfl, hne⟩)
          · exact Or.inr ⟨r', hr', rfl, hne⟩
    · intro k
      rw [b3, a3]
      constructor
      · rintro ((h | ⟨n, hn, rfl⟩) | ⟨r', hr', n, hn, rfl⟩)
        · exact Or.inl h
        · exact Or.inr ⟨r, by simp, n, hn, rfl⟩
        · exact Or.inr ⟨r', by simp [hr'], n, hn, rfl⟩
      · rintro (h | ⟨r', hr', n, hn, rfl⟩)
        · exact Or.inl (Or.inl h)
        · rcases List.mem_cons.1 hr' with rfl | hr'
          · exact Or.inl (Or.inr ⟨n, hn, rfl⟩)
          · exact Or.inr ⟨r', hr', n, hn, rfl⟩

/-- a storage reached by `Add`s from a new one: its two maps have no key twice; the keys of
`names` are the addresses added with at least one name; the keys of `addrs` are the
lower-cased forms of the names added -/
theorem reach_keys {lower : Bytes → Bytes} {rs : List Record} {s : Storage}
    (h : adds lower Storage.empty rs = .ok s) :
    (keys s.names).Nodup ∧ (keys s.addrs).Nodup ∧
    (∀ a, a ∈ keys s.names ↔ ∃ r ∈ rs, r.addr = a ∧ r.names ≠ []) ∧
    (∀ k, k ∈ keys s.addrs ↔ ∃ r ∈ rs, ∃ n ∈ r.names, lower n = k) := by
  obtain ⟨h1, h2, h3, h4⟩ := adds_keys lower rs Storage.empty s h
  refine ⟨h2 (by simp [Storage.empty, keys]), h4 (by simp [Storage.empty, keys]), ?_, ?_⟩
  · intro a; rw [h1]; simp [Storage.empty, keys]
  · intro k; rw [h3]; simp [Storage.empty, keys]

/-! ### `ByAddr` / `ByName` after `Add`s (the closed forms, as in `storage_refines`) -/

theorem byAddr_of_adds {lower : Bytes → Bytes} {rs : List Record} {s : Storage}
    (h : adds lower Storage.empty rs = .ok s) (a : Addr) :
    byAddr s a = firstSeenBy lower (namesFor rs a) := by
  obtain ⟨s', h', hn, _⟩ := adds_spec lower rs Storage.empty
  rw [h] at h'
  injection h' with h'
  subst h'
  rw [byAddr_eq, hn a, foldl_stepN, foldl_add_eq]
  simp [namesAt, Storage.empty, Map.get, OSet.empty, firstSeenBy, namesFor]

theorem addrsAt_of_adds {lower : Bytes → Bytes} {rs : List Record} {s : Storage}
    (h : adds lower Storage.empty rs = .ok s) (k : Bytes) :
    (addrsAt s k).vals = firstSeenBy id (((pairs rs).filter fun p => lower p.2 = k).map (·.1)) := by
  obtain ⟨s', h', _, ha⟩ := adds_spec lower rs Storage.empty
  rw [h] at h'
  injection h' with h'
  subst h'
  rw [ha k, foldl_stepA, foldl_add_eq]
  simp [addrsAt, Storage.empty, Map.get, OSet.empty, firstSeenBy]

theorem firstSeenBy_eq_nil {α β : Type} [DecidableEq β] (key : α → β) (l : List α) :
    firstSeenBy key l = [] ↔ l = [] := by
  cases l with
  | nil => simp [firstSeenBy, firstSeenAux]
  | cons x xs => simp [firstSeenBy, firstSeenAux]

theorem mem_pairs {rs : List Record} {p : Addr × Bytes} :
    p ∈ pairs rs ↔ ∃ r ∈ rs, r.addr = p.1 ∧ p.2 ∈ r.names := by
  obtain ⟨a, n⟩ := p
  simp only [pairs, List.mem_flatMap, List.mem_map, Prod.mk.injEq]
  constructor
  · rintro ⟨r, hr, m, hm, rfl, rfl⟩; exact ⟨r, hr, rfl, hm⟩
  · rintro ⟨r, hr, rfl, hm⟩; exact ⟨r, hr, n, hm, rfl, rfl⟩

theorem namesFor_ne_nil {rs : List Record} {a : Addr} :
    namesFor rs a ≠ [] ↔ ∃ r ∈ rs, r.addr = a ∧ r.names ≠ [] := by
  unfold namesFor
  rw [Ne, List.map_eq_nil_iff, List.filter_eq_nil_iff]
  constructor
  · intro h
    apply Classical.byContradiction
    intro hc
    apply h
    intro p hp
    obtain ⟨r, hr, ha, hm⟩ := mem_pairs.1 hp
    simp only [decide_eq_true_eq]
    intro hpa
    exact hc ⟨r, hr, ha.trans hpa, List.ne_nil_of_mem hm⟩
  · rintro ⟨r, hr, rfl, hne⟩ h
    obtain ⟨n, hn⟩ := List.exists_mem_of_ne_nil _ hne
    have := h (r.addr, n) (mem_pairs.2 ⟨r, hr, rfl, hn⟩)
    simp at this

/-- for a storage reached by `Add`s, a key of `names` is an address with a non-empty
`ByAddr` answer -/
theorem mem_keys_names_iff {lower : Bytes → Bytes} {rs : List Record} {s : Storage}
    (h : adds lower Storage.empty rs = .ok s) (a : Addr) :
    a ∈ keys s.names ↔ byAddr s a ≠ [] := by
  rw [(reach_keys h).2.2.1 a, byAddr_of_adds h a, Ne, firstSeenBy_eq_nil, ← namesFor_ne_nil]

/-- for a storage reached by `Add`s, a key of `addrs` is the lower-cased form of a name
listed by `ByAddr` under some address -/
theorem mem_keys_addrs_iff {lower : Bytes → Bytes} {rs : List Record} {s : Storage}
    (h : adds lower Storage.empty rs = .ok s) (k : Bytes) :
    k ∈ keys s.addrs ↔ ∃ a, ∃ m ∈ byAddr s a, lower m = k := by
  rw [(reach_keys h).2.2.2 k]
  constructor
  · rintro ⟨r, hr, n, hn, rfl⟩
    have hmem : n ∈ namesFor rs r.addr := by
      unfold namesFor
      rw [List.mem_map]
      exact ⟨(r.addr, n), by simp [List.mem_filter, mem_pairs]; exact ⟨r, hr, rfl, hn⟩, rfl⟩
    obtain ⟨y, hy, hk⟩ := firstSeenAux_cover lower _ [] n hmem (by simp)
    exact ⟨r.addr, y, by rw [byAddr_of_adds h]; exact hy, hk⟩
  · rintro ⟨a, m, hm, rfl⟩
    rw [byAddr_of_adds h] at hm
    have := (firstSeenAux_sub lower _ [] m hm).1
    unfold namesFor at this
    rw [List.mem_map] at this
    obtain ⟨p, hp, rfl⟩ := this
    rw [List.mem_filter] at hp
    obtain ⟨r, hr, _, hn⟩ := mem_pairs.1 hp.1
    exact ⟨r, hr, p.2, hn, rfl⟩

/-! ### what the `Range` functions visit -/

theorem rangeNames_keys (s : Storage) : (rangeNames s).map (·.1) = keys s.names := by
  simp [rangeNames, keys, List.map_map, Function.comp_def]

theorem rangeAddrs_keys (s : Storage) : (rangeAddrs s).map (·.1) = keys s.addrs := by
  simp [rangeAddrs, keys, List.map_map, Function.comp_def]

theorem mem_rangeNames {s : Storage} (hn : (keys s.names).Nodup) (a : Addr) (ns : List Bytes) :
    (a, ns) ∈ rangeNames s ↔ a ∈ keys s.names ∧ ns = byAddr s a := by
  unfold rangeNames
  rw [List.mem_map]
  constructor
  · rintro ⟨⟨a', os⟩, he, heq⟩
    simp only [Prod.mk.injEq] at heq
    obtain ⟨rfl, rfl⟩ := heq
    have hg := get_of_mem hn he
    exact ⟨mem_keys_of_get hg, by simp [byAddr, hg]⟩
  · rintro ⟨ha, rfl⟩
    obtain ⟨os, hg⟩ := get_of_mem_keys ha
    exact ⟨(a, os), mem_of_get hg, by simp [byAddr, hg]⟩

theorem mem_rangeAddrs {s : Storage} (hn : (keys s.addrs).Nodup) (k : Bytes) (as : List Addr) :
    (k, as) ∈ rangeAddrs s ↔ k ∈ keys s.addrs ∧ as = (addrsAt s k).vals := by
  unfold rangeAddrs
  rw [List.mem_map]
  constructor
  · rintro ⟨⟨k', os⟩, he, heq⟩
    simp only [Prod.mk.injEq] at heq
    obtain ⟨rfl, rfl⟩ := heq
    have hg := get_of_mem hn he
    exact ⟨mem_keys_of_get hg, by simp [addrsAt, hg]⟩
  · rintro ⟨ha, rfl⟩
    obtain ⟨os, hg⟩ := get_of_mem_keys ha
    exact ⟨(k, os), mem_of_get hg, by simp [addrsAt, hg]⟩

/-- a list of pairs with duplicate-free first components is duplicate-free -/
theorem nodup_of_nodup_fst {α β : Type} {l : List (α × β)} (h : (l.map (·.1)).Nodup) : l.Nodup := by
  induction l with
  | nil => simp
  | cons e rest ih =>
    have h' : e.1 ∉ rest.map (·.1) ∧ (rest.map (·.1)).Nodup := by simpa using h
    rw [List.nodup_cons]
    refine ⟨fun hm => h'.1 (List.mem_map.2 ⟨e, hm, rfl⟩), ih h'.2⟩

/-! ### the `range` loop with a callback that may stop it -/

/-- `for k, v := range m { if !f(k, v) { return } }`, the map being iterated in the order
`ord`: the calls made to the callback, each with the answer it gave.  `σ` is whatever the
callback closes over (it may well change its answers from call to call). -/
def rangeLoop {α σ : Type} (f : σ → α → Bool × σ) : σ → List α → List (α × Bool) × σ
  | st, [] => ([], st)
  | st, x :: xs =>
    if (f st x).1 then (((x, true) :: (rangeLoop f (f st x).2 xs).1), (rangeLoop f (f st x).2 xs).2)
    else ([(x, false)], (f st x).2)

/-- the loop calls the callback on a prefix of the iteration order; every call but the last
answered "continue"; the loop ended before the end of the map exactly when the last call
answered "stop"; nothing is called after a "stop". -/
theorem rangeLoop_spec {α σ : Type} (f : σ → α → Bool × σ) :
    ∀ (ord : List α) (st : σ),
      ((rangeLoop f st ord).1.map (·.1)) <+: ord ∧
      (∀ e ∈ (rangeLoop f st ord).1.dropLast, e.2 = true) ∧
      ((rangeLoop f st ord).1.map (·.1) ≠ ord →
        ∃ e, (rangeLoop f st ord).1.getLast? = some e ∧ e.2 = false) ∧
      ((∀ e ∈ (rangeLoop f st ord).1, e.2 = true) → (rangeLoop f st ord).1.map (·.1) = ord) := by
  intro ord
  induction ord with
  | nil => intro st; simp [rangeLoop]
  | cons x xs ih =>
    intro st
    obtain ⟨i1, i2, i3, i4⟩ := ih (f st x).2
    unfold rangeLoop
    by_cases hc : (f st x).1 = true
    · simp only [hc, if_true, List.map_cons, List.cons.injEq, true_and, ne_eq]
      refine ⟨List.prefix_cons_inj x |>.2 i1, ?_, ?_, ?_⟩
      · intro e he
        cases hl : (rangeLoop f (f st x).2 xs).1 with
        | nil => rw [hl] at he; simp at he
        | cons y ys =>
          rw [hl, List.dropLast_cons_cons] at he
          rcases List.mem_cons.1 he with rfl | he
          · rfl
          · exact i2 e (by rw [hl]; exact he)
      · intro hne
        obtain ⟨e, he, hf⟩ := i3 hne
        refine ⟨e, ?_, hf⟩
        rw [List.getLast?_cons, he]; rfl
      · intro hall
        exact i4 (fun e he => hall e (List.mem_cons_of_mem _ he))
    · simp only [hc]
      have hcf : (f st x).1 = false := by simpa using hc
      refine ⟨by simp [List.prefix_iff_eq_append], by simp, fun _ => ⟨(x, false), by simp, rfl⟩, ?_⟩
      intro hall
      have := hall (x, false) (by simp)
      simp at this

/-- a callback that always continues is called on the whole map -/
theorem rangeLoop_all {α σ : Type} (g : σ → α → σ) (ord : List α) (st : σ) :
    (rangeLoop (fun st x => (true, g st x)) st ord).1.map (·.1) = ord := by
  induction ord generalizing st with
  | nil => simp [rangeLoop]
  | cons x xs ih => simp [rangeLoop, ih]

/-! ### `Equal` -/

/-- what `Equal` compares for two non-nil storages: the two `len`s, and for every entry of
`s.names` the presence of the key in `other.names` with an equal slice of names -/
theorem equal_some_iff (s o : Storage) :
    equal (some s) (some o) = true ↔
      s.names.length = o.names.length ∧ s.addrs.length = o.addrs.length ∧
      ∀ e ∈ s.names, ∃ on, o.names.get e.1 = some on ∧ e.2.vals = on.vals := by
  unfold equal
  by_cases hl : s.names.length ≠ o.names.length ∨ s.addrs.length ≠ o.addrs.length
  · simp only [hl, if_true]
    constructor
    · intro h; cases h
    · rintro ⟨h1, h2, _⟩
      rcases hl with hl | hl
      · exact absurd h1 hl
      · exact absurd h2 hl
  · simp only [hl, if_false, List.all_eq_true]
    have hl' : s.names.length = o.names.length ∧ s.addrs.length = o.addrs.length := by
      constructor <;> (apply Classical.byContradiction; intro hc; exact hl (by simp [hc]))
    constructor
    · intro h
      refine ⟨hl'.1, hl'.2, ?_⟩
      intro e he
      have := h e he
      cases hg : o.names.get e.1 with
      | none => rw [hg] at this; cases this
      | some on =>
        rw [hg] at this
        simp only [Bool.and_eq_true, decide_eq_true_eq, beq_iff_eq] at this
        exact ⟨on, rfl, this.2⟩
    · rintro ⟨_, _, h⟩ e he
      obtain ⟨on, hg, hv⟩ := h e he
      rw [hg]
      simp [hv]

/-- `Equal` in terms of `ByAddr`, when the `names` map of the receiver has no key twice -/
theorem equal_byAddr {s t : Storage} (hs : (keys s.names).Nodup)
    (h : equal (some s) (some t) = true) :
    (∀ a, a ∈ keys s.names ↔ a ∈ keys t.names) ∧ ∀ a, byAddr s a = byAddr t a := by
  obtain ⟨h1, _, h3⟩ := (equal_some_iff s t).1 h
  have hsub : ∀ a ∈ keys s.names, a ∈ keys t.names := by
    intro a ha
    obtain ⟨os, hg⟩ := get_of_mem_keys ha
    obtain ⟨on, hg', _⟩ := h3 (a, os) (mem_of_get hg)
    exact mem_keys_of_get hg'
  have hsup := subset_of_nodup_subset_length (keys s.names) (keys t.names) hs hsub
    (by rw [keys_length, keys_length, h1]; exact Nat.le_refl _)
  refine ⟨fun a => ⟨hsub a, hsup a⟩, ?_⟩
  intro a
  cases hg : s.names.get a with
  | some os =>
    obtain ⟨on, hg', hv⟩ := h3 (a, os) (mem_of_get hg)
    simp only [] at hg' hv
    simp [byAddr, hg, hg', hv]
  | none =>
    have hna : a ∉ keys t.names := fun hc => (get_eq_none_iff _ _).1 hg (hsup a hc)
    have hg' := (get_eq_none_iff _ _).2 hna
    simp [byAddr, hg, hg']

end GolibsVerif.C08
