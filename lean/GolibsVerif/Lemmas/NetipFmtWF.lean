/-
`net/netip` parser model: every address returned by `parseAddr` is well-formed (`WF`): four
resp. sixteen bytes below 256 — never the zero `Addr`.
-/
import GolibsVerif.Lemmas.NetipFmtRT
import GolibsVerif.Lemmas.C07Addr

namespace GolibsVerif.Netip
open GolibsVerif GolibsVerif.Str GolibsVerif.C04 GolibsVerif.Netutil

theorem hexVal_getD_le (c : Nat) : (hexVal c).getD 0 ≤ 15 := by
  unfold hexVal
  split
  · simp; omega
  · split
    · simp; omega
    · split
      · simp; omega
      · simp

/-- at most four hex digits make a 16-bit value -/
theorem accOf_lt (d : Bytes) (h : d.length ≤ 4) : C02.accOf d < 65536 := by
  unfold C02.accOf
  match d, h with
  | [], _ => simp
  | [a], _ =>
    have := hexVal_getD_le a
    simp only [List.foldl_cons, List.foldl_nil]; omega
  | [a, b], _ =>
    have := hexVal_getD_le a; have := hexVal_getD_le b
    simp only [List.foldl_cons, List.foldl_nil]; omega
  | [a, b, c], _ =>
    have := hexVal_getD_le a; have := hexVal_getD_le b; have := hexVal_getD_le c
    simp only [List.foldl_cons, List.foldl_nil]; omega
  | [a, b, c, e], _ =>
    have := hexVal_getD_le a; have := hexVal_getD_le b; have := hexVal_getD_le c
    have := hexVal_getD_le e
    simp only [List.foldl_cons, List.foldl_nil]; omega
  | _ :: _ :: _ :: _ :: _ :: _, h => simp at h

/-- invariant of the IPv6 loop on the bytes written so far -/
def IpOK (ip : List Nat) : Prop := ip.length % 2 = 0 ∧ ip.length ≤ 16 ∧ ∀ x ∈ ip, x < 256

theorem ipOK_push (ip : List Nat) (acc : Nat) (h : IpOK ip) (hlt : ip.length < 16) (ha : acc < 65536) :
    IpOK (ip ++ [acc / 256, acc % 256]) := by
  obtain ⟨h1, h2, h3⟩ := h
  refine ⟨by simp; omega, by simp; omega, ?_⟩
  intro x hx
  simp only [List.mem_append, List.mem_cons, List.not_mem_nil, or_false] at hx
  rcases hx with hx | rfl | rfl
  · exact h3 x hx
  · omega
  · omega

theorem step_inv (st : V6State) (hP : IpOK st.ip) (hlt : st.ip.length < 16) :
    (∀ st', v6Step st = .inl (some st') → IpOK st'.ip) ∧ (∀ st', v6Step st = .inr st' → IpOK st'.ip) := by
  obtain ⟨s, ip, el⟩ := st
  simp only at hP hlt
  rcases C02.field_cases s with hbad | ⟨d, r, rfl, hf⟩
  · have : v6Step ⟨s, ip, el⟩ = .inl none := by
      unfold v6Step
      rcases hbad with h | h
      · simp [h]
      · simp only [h, if_true]
    rw [this]
    exact ⟨fun _ h => (by cases h), fun _ h => (by cases h)⟩
  · have hacc := accOf_lt d hf.le4
    have hpush := ipOK_push ip _ hP hlt hacc
    rw [C02.v6Step_field hf]
    by_cases h46 : r.head? = some 46
    · simp only [h46, if_true]
      refine ⟨?_, ?_⟩
      · intro st' h
        split at h
        · cases h
        · split at h
          · cases h
          · next hlen =>
            split at h
            · cases h
            · next f hfp =>
              injection h with h; injection h with h; subst h
              obtain ⟨g1, g2, _⟩ := fields_canon _ _ hfp
              obtain ⟨h1, h2, h3⟩ := hP
              refine ⟨by simp [g1]; omega, by simp [g1]; omega, ?_⟩
              intro x hx
              rcases List.mem_append.1 hx with hx | hx
              · exact h3 x hx
              · exact g2 x hx
      · intro st' h
        split at h
        · cases h
        · split at h
          · cases h
          · split at h <;> cases h
    · simp only [h46, if_false]
      refine ⟨?_, ?_⟩
      · intro st' h
        split at h
        · injection h with h; injection h with h; subst h; exact hpush
        · split at h
          · cases h
          · split at h
            · cases h
            · split at h
              · split at h
                · cases h
                · split at h
                  · injection h with h; injection h with h; subst h; exact hpush
                  · cases h
              · cases h
      · intro st' h
        split at h
        · cases h
        · split at h
          · cases h
          · split at h
            · cases h
            · split at h
              · split at h
                · cases h
                · split at h
                  · cases h
                  · injection h with h; subst h; exact hpush
              · injection h with h; subst h; exact hpush

theorem loop_inv : ∀ (fuel : Nat) (st st' : V6State), IpOK st.ip → v6Loop fuel st = some st' → IpOK st'.ip := by
  intro fuel
  induction fuel with
  | zero => intro st st' hP h; simp only [v6Loop] at h; injection h with h; subst h; exact hP
  | succ fuel ih =>
    intro st st' hP h
    unfold v6Loop at h
    split at h
    · next hlt =>
      split at h
      · next r hr => subst h; exact (step_inv st hP hlt).1 st' hr
      · next st2 hr => exact ih st2 st' ((step_inv st hP hlt).2 st2 hr) h
    · injection h with h; subst h; exact hP

theorem ipOK_nil : IpOK [] := ⟨rfl, by simp, by simp⟩

theorem finish6_wf (zone : Bytes) (st : V6State) (a : Addr) (hP : IpOK st.ip) (h : finish6 zone st = some a) :
    WF a := by
  obtain ⟨h1, h2, h3⟩ := hP
  unfold finish6 at h
  split at h
  · cases h
  · split at h
    · split at h
      · cases h
      · next e _ =>
        injection h with h; subst h
        refine ⟨?_, ?_⟩
        · simp only [List.length_append, List.length_take, List.length_replicate, List.length_drop]
          omega
        · intro x hx
          simp only [List.mem_append, List.mem_replicate] at hx
          rcases hx with (hx | ⟨_, rfl⟩) | hx
          · exact h3 x (List.mem_of_mem_take hx)
          · omega
          · exact h3 x (List.mem_of_mem_drop hx)
    · split at h
      · cases h
      · injection h with h; subst h
        exact ⟨by omega, h3⟩

theorem parseIPv6Split_wf (sz : Option (Bytes × Bytes)) (a : Addr) (h : C02.parseIPv6Split sz = some a) :
    WF a := by
  match sz with
  | none => simp [C02.parseIPv6Split] at h
  | some (s, zone) =>
    by_cases hl : ∃ t, s = 58 :: 58 :: t
    · obtain ⟨t, rfl⟩ := hl
      rw [split_lead] at h
      split at h
      · injection h with h; subst h
        exact ⟨by simp, by intro x hx; simp at hx; omega⟩
      · cases hv : v6Loop 9 ⟨t, [], some 0⟩ with
        | none => rw [hv] at h; cases h
        | some st =>
          rw [hv] at h
          exact finish6_wf zone st a (loop_inv 9 _ st ipOK_nil hv) h
    · cases s with
      | nil =>
        have : v6Loop 9 ⟨[], [], none⟩ = none := by decide
        have h' : C02.parseIPv6Split (some ([], zone)) = none := by
          unfold C02.parseIPv6Split; simp [this]
        rw [h'] at h; cases h
      | cons c r =>
        by_cases hc : c = 58
        · subst hc
          cases r with
          | nil =>
            have : v6Loop 9 ⟨[58], [], none⟩ = none := by decide
            have h' : C02.parseIPv6Split (some ([58], zone)) = none := by
              unfold C02.parseIPv6Split; simp [this]
            rw [h'] at h; cases h
          | cons c2 r2 =>
            have hc2 : c2 ≠ 58 := fun e => hl ⟨r2, by rw [e]⟩
            have : v6Step ⟨58 :: c2 :: r2, [], none⟩ = .inl none := by
              unfold v6Step; simp [hexVal_58]
            have hv : v6Loop 9 ⟨58 :: c2 :: r2, [], none⟩ = none := by
              rw [v6Loop_succ 8 _ (by simp), this]
            have hp : hasPrefix (58 :: c2 :: r2) [58, 58] = false := by
              have : ¬ 58 = c2 := fun e => hc2 e.symm
              simp [hasPrefix, List.isPrefixOf, this]
            have h' : C02.parseIPv6Split (some (58 :: c2 :: r2, zone)) = none := by
              unfold C02.parseIPv6Split
              simp only [C02.lead_eq, hp, Bool.false_eq_true, if_false, false_and, hv]
            rw [h'] at h; cases h
        · rw [split_nolead c r zone hc] at h
          cases hv : v6Loop 9 ⟨c :: r, [], none⟩ with
          | none => rw [hv] at h; cases h
          | some st =>
            rw [hv] at h
            exact finish6_wf zone st a (loop_inv 9 _ st ipOK_nil hv) h

/-- **Every address `ParseAddr` returns is well-formed.** -/
theorem parseAddr_wf (s : Bytes) (a : Addr) (h : parseAddr s = some a) : WF a := by
  rcases dispatch_cases s s a h with h4 | h6
  · unfold parseIPv4 at h4
    cases hf : parseIPv4Fields s with
    | none => simp [hf] at h4
    | some f =>
      simp only [hf, Option.map_some, Option.some.injEq] at h4
      subst h4
      obtain ⟨g1, g2, _⟩ := fields_canon _ _ hf
      exact ⟨g1, g2⟩
  · rw [C02.parseIPv6_eq_split] at h6
    exact parseIPv6Split_wf _ a h6

end GolibsVerif.Netip
