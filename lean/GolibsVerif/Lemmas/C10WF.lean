/-
C10 — the history of a concurrent execution is well formed.
-/
import GolibsVerif.Lemmas.C10Lin

namespace GolibsVerif.C10
open GolibsVerif.C09

theorem snoc_eq_split {α : Type} {h h1 h2 : List α} {e x : α} (heq : h ++ [e] = h1 ++ x :: h2) :
    (h2 = [] ∧ h1 = h ∧ x = e) ∨ ∃ h2', h2 = h2' ++ [e] ∧ h = h1 ++ x :: h2' := by
  rcases List.eq_nil_or_concat h2 with rfl | ⟨h2', y, rfl⟩
  · left
    have : h ++ [e] = h1 ++ [x] := by simpa using heq
    obtain ⟨hh, he⟩ := List.append_inj' this rfl
    exact ⟨rfl, hh.symm, by simpa using he.symm⟩
  · right
    have : h ++ [e] = (h1 ++ x :: h2') ++ [y] := by simpa using heq
    obtain ⟨hh, he⟩ := List.append_inj' this rfl
    have : e = y := by simpa using he
    subst this
    exact ⟨h2', by simp, hh⟩

theorem wellFormed_reachable {c : Conf} {log : List KRec} {σ : KSt} (ht : CTrace c KSt.init log σ) :
    invIds (historyOf log) = List.range σ.calls.length ∧ WellFormed (historyOf log) := by
  refine ctrace_snoc_ind (P := fun l σ =>
    invIds (historyOf l) = List.range σ.calls.length ∧ WellFormed (historyOf l)) ?_ ?_ ht
  · simp [historyOf, invIds, retIds, WellFormed, KSt.init]
  · intro l σ ev σ' htl ⟨hids, hwf⟩ hstep
    obtain ⟨lin, hi⟩ := linInv_reachable htl
    obtain ⟨_, hnd, hinv, hord⟩ := hwf
    rw [historyOf_snoc]
    -- an invocation of a fresh id
    have invCase : ∀ (op : Call) (calls' : List CallSt), calls'.length = σ.calls.length + 1 →
        invIds (historyOf l ++ [HEv.inv σ.calls.length op]) = List.range calls'.length ∧
        WellFormed (historyOf l ++ [HEv.inv σ.calls.length op]) := by
      intro op calls' hlen
      have h1 : invIds (historyOf l ++ [HEv.inv σ.calls.length op]) =
          List.range (σ.calls.length + 1) := by
        simp [invIds, List.filterMap_append, List.range_succ] at hids ⊢
        exact hids
      refine ⟨by rw [hlen]; exact h1, ?_, ?_, ?_, ?_⟩
      · rw [h1]; simp
      · simpa [retIds, List.filterMap_append] using hnd
      · intro id r hr
        have hr' : HEv.ret id r ∈ historyOf l := by simpa using hr
        obtain ⟨op', h⟩ := hinv id r hr'
        exact ⟨op', List.mem_append_left _ h⟩
      · intro a b id r op' heq hmem
        rcases snoc_eq_split heq with ⟨_, _, hx⟩ | ⟨b', rfl, hl⟩
        · cases hx
        · rcases List.mem_append.1 hmem with hm | hm
          · exact hord a b' id r op' hl hm
          · simp only [List.mem_singleton] at hm
            injection hm with hm1 _
            have hr : HEv.ret id r ∈ historyOf l := by rw [hl]; simp
            obtain ⟨cs, hcs, _⟩ := hi.retd id r hr
            have := lt_of_getElem? hcs
            omega
    cases hstep with
    | invSet k v f' hf => exact invCase (.set k v) _ (by simp)
    | inv op hop => exact invCase op _ (by simp)
    | secSet id i k v e f' hc hf =>
      simp only [KEv.hist, List.append_nil, List.length_set]
      exact ⟨hids, ‹_›, hnd, hinv, hord⟩
    | secOne id op e f' hc hsecof hf =>
      simp only [KEv.hist, List.append_nil, List.length_set]
      exact ⟨hids, ‹_›, hnd, hinv, hord⟩
    | ret id op r hc =>
      simp only [KEv.hist]
      have h1 : invIds (historyOf l ++ [HEv.ret id r]) = invIds (historyOf l) := by
        simp [invIds, List.filterMap_append]
      refine ⟨by simpa [h1] using hids, by rw [h1]; assumption, ?_, ?_, ?_⟩
      · have : retIds (historyOf l ++ [HEv.ret id r]) = retIds (historyOf l) ++ [id] := by
          simp [retIds, List.filterMap_append]
        rw [this, List.nodup_append]
        refine ⟨hnd, by simp, ?_⟩
        intro a ha b hb
        simp only [List.mem_singleton] at hb; subst hb
        intro hab; subst hab
        simp only [retIds, List.mem_filterMap] at ha
        obtain ⟨e, he, hid⟩ := ha
        cases e with
        | inv id' op' => simp at hid
        | ret id' r' =>
          simp only [Option.some.injEq] at hid; subst hid
          obtain ⟨cs, hcs, hst⟩ := hi.retd _ r' he
          rw [hc] at hcs; injection hcs with hcs; subst hcs; cases hst
      · intro id' r' hr
        rcases List.mem_append.1 hr with hr | hr
        · obtain ⟨op', h⟩ := hinv id' r' hr
          exact ⟨op', List.mem_append_left _ h⟩
        · simp only [List.mem_singleton] at hr
          injection hr with h1 h2; subst h1
          exact ⟨op, List.mem_append_left _ (hi.invd _ ⟨op, .finished r⟩ hc)⟩
      · intro a b id' r' op' heq hmem
        rcases snoc_eq_split heq with ⟨rfl, _, _⟩ | ⟨b', rfl, hl⟩
        · cases hmem
        · rcases List.mem_append.1 hmem with hm | hm
          · exact hord a b' id' r' op' hl hm
          · simp at hm

end GolibsVerif.C10
