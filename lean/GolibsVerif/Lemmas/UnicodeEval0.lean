/-
Kernel evaluation of the period clause of FOLD-1 (`periodOk`: the `SimpleFold` cycle through
the rune closes within `orbitFuel` steps) on the runes of the pieces 0, 4, 8, 12 of `CaseRanges`
(`pieceLen` = 21 table entries each; see `Lemmas/Unicode.lean`).  One of four files that Lake
builds in parallel; the tables are those regenerated from `$GOROOT/src/unicode/tables.go`
(`Gen/UniFold.lean`).  `decide +kernel`: the Lean kernel evaluates the model; no axioms.
-/
import GolibsVerif.Lemmas.Unicode

namespace GolibsVerif.Unicode
open GolibsVerif.Gen.UniFold

theorem periodOk_piece0 : pieceAll (rangeOk periodOk) (0 * pieceLen) pieceLen = true := by decide +kernel

theorem periodOk_piece4 : pieceAll (rangeOk periodOk) (4 * pieceLen) pieceLen = true := by decide +kernel

theorem periodOk_piece8 : pieceAll (rangeOk periodOk) (8 * pieceLen) pieceLen = true := by decide +kernel

theorem periodOk_piece12 : pieceAll (rangeOk periodOk) (12 * pieceLen) pieceLen = true := by decide +kernel

end GolibsVerif.Unicode
