/-
C14 — one round of the loop of `time.ParseDuration` on a group written by
`time.Duration.String`: `<int><unit>` or `<int>.<fraction><unit>`.
-/
import GolibsVerif.Model.C14Parse
import GolibsVerif.Lemmas.C14ParseDigits

namespace GolibsVerif.C14

/-- no byte of `ub` is `.` or a decimal digit -/
def UnitBytes (ub : Bytes) : Prop := ∀ c ∈ ub, ¬ (c = 46 ∨ (48 ≤ c ∧ c ≤ 57))

/-- `rest` is empty or begins with `.` or a decimal digit (the next group, or the end) -/
def NumHead (rest : Bytes) : Prop := ∀ c t, rest = c :: t → (c = 46 ∨ (48 ≤ c ∧ c ≤ 57))

theorem numHead_nil : NumHead [] := by intro c t h; cases h

theorem numHead_intText (v : Nat) (rest : Bytes) : NumHead (intText v ++ rest) := by
  obtain ⟨c, t, e, hc⟩ := intText_head v
  intro c' t' h
  rw [e] at h
  cases h
  exact Or.inr hc

theorem unitSpan_append (ub rest : Bytes) (hu : UnitBytes ub) (hr : NumHead rest) :
    unitSpan (ub ++ rest) = (ub, rest) := by
  induction ub with
  | nil =>
    cases rest with
    | nil => rfl
    | cons c t => have := hr c t rfl; simp [unitSpan, this]
  | cons u ut ih =>
    have h1 : ¬ (u = 46 ∨ (48 ≤ u ∧ u ≤ 57)) := hu u (by simp)
    have h2 : UnitBytes ut := fun c hc => hu c (by simp [hc])
    show unitSpan (u :: (ut ++ rest)) = _
    simp only [unitSpan, h1, if_false, ih h2]

theorem unit_noDigitHead (ub rest : Bytes) (hu : UnitBytes ub) (hne : ub ≠ []) :
    NoDigitHead (ub ++ rest) := by
  cases ub with
  | nil => exact absurd rfl hne
  | cons u ut =>
    have h1 : ¬ (u = 46 ∨ (48 ≤ u ∧ u ≤ 57)) := hu u (by simp)
    intro c t e
    cases e
    omega

/-! ### the optional fraction -/

theorem parseFrac_none (ub rest : Bytes) (hu : UnitBytes ub) (hne : ub ≠ []) :
    parseFrac (ub ++ rest) = (0, F64.one, false, ub ++ rest) := by
  cases ub with
  | nil => exact absurd rfl hne
  | cons u ut =>
    have h1 : ¬ (u = 46 ∨ (48 ≤ u ∧ u ≤ 57)) := hu u (by simp)
    have h2 : ¬ (u = 46) := fun h => h1 (Or.inl h)
    show parseFrac (u :: (ut ++ rest)) = _
    simp only [parseFrac, h2, if_false]
    rfl

theorem parseFrac_digits (k f : Nat) (hk0 : 0 < k) (hk : k ≤ 15) (rest : Bytes) (hr : NoDigitHead rest) :
    ∃ sc, F64.IsNat sc (10 ^ k) ∧
      parseFrac (46 :: (padDigits k f ++ rest)) = (f % 10 ^ k, sc, true, rest) := by
  obtain ⟨sc, hsc, e⟩ := leadingFraction_padDigits k hk f rest
  refine ⟨sc, hsc, ?_⟩
  rw [leadingFraction_stop rest _ _ _ hr] at e
  simp only [parseFrac, if_true, e]
  have : ((padDigits k f ++ rest).length != rest.length) = true := by
    simp [List.length_append, padDigits_length]; omega
  rw [this]

/-! ### unit, multiplication, fraction -/

theorem parseUnit_int (V : Nat) (sc : F64) (ub rest : Bytes) (unit : Nat)
    (hu : UnitBytes ub) (hne : ub ≠ []) (hunit : unitOf ub = some unit) (hpos : 0 < unit)
    (hr : NumHead rest) (hV : V * unit ≤ two63) :
    parseUnit V 0 sc (ub ++ rest) = some (V * unit, rest) := by
  have hle : ¬ (V > two63 / unit) := by
    have : V ≤ two63 / unit := (Nat.le_div_iff_mul_le hpos).2 hV
    omega
  unfold parseUnit
  simp only [unitSpan_append ub rest hu hr, hne, if_false, hunit, hle]
  simp

theorem parseUnit_frac (V f k p : Nat) (sc : F64) (ub rest : Bytes)
    (hu : UnitBytes ub) (hne : ub ≠ []) (hunit : unitOf ub = some (10 ^ p))
    (hr : NumHead rest) (hs : F64.IsNat sc (10 ^ k)) (hkp : k ≤ p) (hp : p ≤ 9)
    (hf0 : 0 < f) (hf : f < 10 ^ k) (hV : V * 10 ^ p + f * 10 ^ (p - k) ≤ two63) :
    parseUnit V f sc (ub ++ rest) = some (V * 10 ^ p + f * 10 ^ (p - k), rest) := by
  have hpos : 0 < (10 : Nat) ^ p := Nat.pow_pos (by omega)
  have hle : ¬ (V > two63 / 10 ^ p) := by
    have : V ≤ two63 / 10 ^ p := (Nat.le_div_iff_mul_le hpos).2 (by omega)
    omega
  have hv2 : ¬ (V * 10 ^ p + f * 10 ^ (p - k) > two63) := by omega
  unfold parseUnit
  simp only [unitSpan_append ub rest hu hr, hne, if_false, hunit, hle, hf0, if_true,
    F64.frac_exact f k p sc hs hkp hp hf0 hf, hv2]

/-! ### whole groups -/

theorem parseGroup_start (V : Nat) (tl : Bytes) (hV : V ≤ two63) (hr : NoDigitHead tl) :
    parseGroup (intText V ++ tl) =
      (let fr := parseFrac tl; parseUnit V fr.1 fr.2.1 fr.2.2.2) := by
  obtain ⟨c, t, e, hc⟩ := intText_head V
  have hL := leadingInt_intText V hV tl hr
  have hs : intText V ++ tl = c :: (t ++ tl) := by rw [e]; rfl
  rw [hs] at hL ⊢
  have h1 : ¬ ¬ (c = 46 ∨ (48 ≤ c ∧ c ≤ 57)) := by omega
  have hpre : ((c :: (t ++ tl)).length != tl.length) = true := by
    simp [List.length_append]; omega
  simp only [parseGroup, h1, if_false, hL, hpre]
  simp

/-- `<int><unit>` followed by the next group (or nothing) -/
theorem parseGroup_int (V : Nat) (ub rest : Bytes) (unit : Nat)
    (hu : UnitBytes ub) (hne : ub ≠ []) (hunit : unitOf ub = some unit) (hpos : 0 < unit)
    (hr : NumHead rest) (hV : V * unit ≤ two63) :
    parseGroup (intText V ++ (ub ++ rest)) = some (V * unit, rest) := by
  have hV' : V ≤ two63 := Nat.le_trans (Nat.le_mul_of_pos_right V hpos) hV
  rw [parseGroup_start V _ hV' (unit_noDigitHead ub rest hu hne), parseFrac_none ub rest hu hne]
  exact parseUnit_int V _ ub rest unit hu hne hunit hpos hr hV

/-- `<int>.<k digits><unit>` for the unit `10^p`, `k ≤ p ≤ 9` -/
theorem parseGroup_frac (V f k p : Nat) (ub rest : Bytes)
    (hu : UnitBytes ub) (hne : ub ≠ []) (hunit : unitOf ub = some (10 ^ p))
    (hr : NumHead rest) (hk0 : 0 < k) (hkp : k ≤ p) (hp : p ≤ 9) (hf : f % 10 ≠ 0)
    (hV : V * 10 ^ p + f % 10 ^ k * 10 ^ (p - k) ≤ two63) :
    parseGroup (intText V ++ (46 :: (padDigits k f ++ (ub ++ rest))))
      = some (V * 10 ^ p + f % 10 ^ k * 10 ^ (p - k), rest) := by
  have hpos : 0 < (10 : Nat) ^ p := Nat.pow_pos (by omega)
  have hV' : V ≤ two63 := by
    have := Nat.le_mul_of_pos_right V hpos
    omega
  have hf0 : 0 < f % 10 ^ k := by
    have : f % 10 ^ k % 10 = f % 10 := by
      obtain ⟨k', rfl⟩ : ∃ k', k = k' + 1 := ⟨k - 1, by omega⟩
      rw [mod_pow_succ]; omega
    omega
  obtain ⟨sc, hsc, e⟩ := parseFrac_digits k f hk0 (by omega) (ub ++ rest) (unit_noDigitHead ub rest hu hne)
  rw [parseGroup_start V _ hV' (noDigitHead_cons _ (by omega)), e]
  exact parseUnit_frac V _ k p sc ub rest hu hne hunit hr hsc hkp hp hf0
    (Nat.mod_lt _ (Nat.pow_pos (by omega))) hV

end GolibsVerif.C14
