/-
C14 — `time.ParseDuration` inverts `time.Duration.String`, and still does so on the text of
`timeutil.Duration.String` (redundant zero units cut), for every `int64`.
-/
import GolibsVerif.Model.C14Parse
import GolibsVerif.Lemmas.C14Duration
import GolibsVerif.Lemmas.C14ParseLoop

namespace GolibsVerif.C14

/-- `omega` for a goal `a * K ≤ N`: the goal is negated by hand, because `omega`'s own
`by_contra` looks for the `Decidable` instance and unfolds `a * K` along the literal `K`. -/
local macro "le_omega" : tactic => `(tactic| (apply Nat.le_of_not_lt; intro _; omega))

/-! ### the units that `time.Duration.String` writes -/

theorem ub_ns : UnitBytes [110, 115] := by intro c hc; simp at hc; omega
theorem ub_us : UnitBytes [0xC2, 0xB5, 115] := by intro c hc; simp at hc; omega
theorem ub_ms : UnitBytes [109, 115] := by intro c hc; simp at hc; omega
theorem ub_s : UnitBytes [115] := by intro c hc; simp at hc; omega
theorem ub_m : UnitBytes [109] := by intro c hc; simp at hc; omega
theorem ub_h : UnitBytes [104] := by intro c hc; simp at hc; omega

theorem unitOf_ns : unitOf [110, 115] = some (10 ^ 0) := by decide
theorem unitOf_us : unitOf [0xC2, 0xB5, 115] = some (10 ^ 3) := by decide
theorem unitOf_ms : unitOf [109, 115] = some (10 ^ 6) := by decide
theorem unitOf_s : unitOf [115] = some (10 ^ 9) := by decide
theorem unitOf_m : unitOf [109] = some 60000000000 := by decide
theorem unitOf_h : unitOf [104] = some 3600000000000 := by decide

/-- The last group of `time.Duration.String`: `fmtFrac` of `u` with precision `p`, then
`fmtInt` of `V`, for the unit `10^p`.  It parses to `V·10^p + u mod 10^p`. -/
theorem parseGroup_fmtFrac (V u p : Nat) (ub : Bytes) (hu : UnitBytes ub) (hne : ub ≠ [])
    (hunit : unitOf ub = some (10 ^ p)) (hp : p ≤ 9) (hV : V * 10 ^ p + u % 10 ^ p ≤ two63) :
    ∃ tl, tl ≠ [] ∧ fmtInt (fmtFrac ub u p).1 V = intText V ++ tl ∧
      parseGroup (intText V ++ tl) = some (V * 10 ^ p + u % 10 ^ p, []) := by
  rw [fmtInt_eq]
  rcases fmtFrac_val ub u p with ⟨hz, e⟩ | ⟨k, f, hk0, hkp, hf, hv, e⟩
  · refine ⟨ub, hne, by rw [e], ?_⟩
    have := parseGroup_int V ub [] (10 ^ p) hu hne hunit (Nat.pow_pos (by omega)) numHead_nil
      (by omega)
    rw [List.append_nil] at this
    rw [this, hz]; rfl
  · refine ⟨46 :: (padDigits k f ++ ub), by simp, by rw [e], ?_⟩
    have := parseGroup_frac V f k p ub [] hu hne hunit numHead_nil hk0 hkp hp hf (by omega)
    rw [List.append_nil] at this
    rw [this, hv]

/-! ### `parseDuration (stdString d) = d` -/

theorem e9 : (10 : Nat) ^ 9 = 1000000000 := by decide
theorem e6 : (10 : Nat) ^ 6 = 1000000 := by decide
theorem e3 : (10 : Nat) ^ 3 = 1000 := by decide

/-- below one second: a single group `ns`, `µs` or `ms` -/
theorem parse_stdString_small (d : Int) (hd : inInt64 d) (h : d.natAbs < second) :
    parseDuration (stdString d) = some d := by
  by_cases h0 : d.natAbs = 0
  · have hd0 : d = 0 := by omega
    subst hd0; decide
  · have hle : d.natAbs ≤ two63 := by unfold inInt64 at hd; unfold two63; omega
    -- one group with unit `ub = 10^p`
    have key : ∀ (ub : Bytes) (p : Nat), UnitBytes ub → ub ≠ [] → unitOf ub = some (10 ^ p) → p ≤ 9 →
        stdString d = signBytes d ++ fmtInt (fmtFrac ub d.natAbs p).1 (fmtFrac ub d.natAbs p).2 →
        parseDuration (stdString d) = some d := by
      intro ub p hu hne hunit hp hs
      have hv : (fmtFrac ub d.natAbs p).2 = d.natAbs / 10 ^ p := by
        rcases fmtFrac_val ub d.natAbs p with ⟨-, e⟩ | ⟨k, f, -, -, -, -, e⟩ <;> rw [e]
      have hsum : d.natAbs / 10 ^ p * 10 ^ p + d.natAbs % 10 ^ p = d.natAbs := by
        rw [Nat.mul_comm]; exact Nat.div_add_mod _ _
      obtain ⟨tl, htl, et, hg⟩ := parseGroup_fmtFrac (d.natAbs / 10 ^ p) d.natAbs p ub hu hne hunit hp
        (by omega)
      rw [hs, hv, et]
      apply parseDuration_of_loop d hd _ tl htl
      rw [parseLoop_step _ _ 0 _ hg (by omega), Nat.zero_add, hsum]
      rfl
    unfold second at h
    by_cases h1 : d.natAbs < 1000
    · apply key [110, 115] 0 ub_ns (by simp) unitOf_ns (by omega)
      unfold stdString
      simp [second, h, h0, h1]
    · by_cases h2 : d.natAbs < 1000000
      · apply key [0xC2, 0xB5, 115] 3 ub_us (by simp) unitOf_us (by omega)
        unfold stdString
        simp [second, h, h0, h1, h2]
      · apply key [109, 115] 6 ub_ms (by simp) unitOf_ms (by omega)
        unfold stdString
        simp [second, h, h0, h1, h2]

/-- The texts of the hour and minute groups in front of `t` (the seconds group, or nothing
when it was cut) parse, and add `H·3600e9 + M·60e9`. -/
theorem parseLoop_hm (H M : Nat) (t : Bytes) (ht : NumHead t) (acc : Nat)
    (hb : H * 3600000000000 + M * 60000000000 + acc ≤ two63) (r : Option Nat)
    (hrest : parseLoop t.length t (H * 3600000000000 + M * 60000000000) = r) :
    parseLoop (intText H ++ ([104] ++ (intText M ++ ([109] ++ t)))).length
      (intText H ++ ([104] ++ (intText M ++ ([109] ++ t)))) 0 = r := by
  have hb' := hb
  unfold two63 at hb'
  have g1 := parseGroup_int H [104] (intText M ++ ([109] ++ t)) 3600000000000 ub_h (by simp) unitOf_h (by omega)
    (numHead_intText _ _) (by unfold two63; le_omega)
  have g2 := parseGroup_int M [109] t 60000000000 ub_m (by simp) unitOf_m (by omega) ht (by unfold two63; le_omega)
  rw [parseLoop_step _ _ 0 _ g1 (by unfold two63; le_omega), parseLoop_step _ _ _ _ g2 (by unfold two63; le_omega), Nat.zero_add]
  exact hrest

theorem parseLoop_m (M : Nat) (t : Bytes) (ht : NumHead t) (acc : Nat)
    (hb : M * 60000000000 + acc ≤ two63) (r : Option Nat)
    (hrest : parseLoop t.length t (M * 60000000000) = r) :
    parseLoop (intText M ++ ([109] ++ t)).length (intText M ++ ([109] ++ t)) 0 = r := by
  have hb' := hb
  unfold two63 at hb'
  have g2 := parseGroup_int M [109] t 60000000000 ub_m (by simp) unitOf_m (by omega) ht (by unfold two63; le_omega)
  rw [parseLoop_step _ _ 0 _ g2 (by unfold two63; le_omega), Nat.zero_add]
  exact hrest

/-- one second and above: `[<H>h][<M>m]<S>[.<frac>]s` -/
theorem parse_stdString_big (d : Int) (hd : inInt64 d) (h : second ≤ d.natAbs) :
    parseDuration (stdString d) = some d := by
  have hle : d.natAbs ≤ two63 := by unfold inInt64 at hd; unfold two63; omega
  unfold second at h
  unfold two63 at hle
  generalize hu : d.natAbs = u at h hle
  have hn : ¬ u < second := by unfold second; omega
  -- the seconds group
  obtain ⟨tl, htl, et, hg⟩ := parseGroup_fmtFrac (u / 1000000000 % 60) u 9 [115] ub_s (by simp) unitOf_s
    (by omega) (by rw [e9]; unfold two63; omega)
  have hv : (fmtFrac [115] u 9).2 = u / 1000000000 := by
    rcases fmtFrac_val [115] u 9 with ⟨-, e⟩ | ⟨k, f, -, -, -, -, e⟩ <;> rw [e, e9]
  rw [e9] at hg
  have hs : stdString d = signBytes d ++
      (if u / 1000000000 / 60 > 0 then
        (if u / 1000000000 / 60 / 60 > 0 then
          intText (u / 1000000000 / 60 / 60) ++ ([104] ++ (intText (u / 1000000000 / 60 % 60) ++
            ([109] ++ (intText (u / 1000000000 % 60) ++ tl))))
         else intText (u / 1000000000 / 60 % 60) ++ ([109] ++ (intText (u / 1000000000 % 60) ++ tl)))
       else intText (u / 1000000000 % 60) ++ tl) := by
    unfold stdString
    simp only [hu, hn, if_false, hv, et]
    by_cases hm : u / 1000000000 / 60 > 0
    · by_cases hh : u / 1000000000 / 60 / 60 > 0
      · simp [hm, hh, fmtInt_eq]
      · simp [hm, hh, fmtInt_eq]
    · simp [hm]
  have hsec : parseLoop (intText (u / 1000000000 % 60) ++ tl).length (intText (u / 1000000000 % 60) ++ tl)
      (u / 1000000000 / 60 / 60 * 3600000000000 + u / 1000000000 / 60 % 60 * 60000000000) = some u := by
    rw [parseLoop_step _ _ _ _ hg (by unfold two63; omega)]
    show some _ = some u
    congr 1; omega
  rw [hs]
  by_cases hm : u / 1000000000 / 60 > 0
  · by_cases hh : u / 1000000000 / 60 / 60 > 0
    · simp only [hm, hh, if_true]
      apply parseDuration_of_loop d hd _ _ (by simp)
      rw [hu]
      exact parseLoop_hm _ _ _ (numHead_intText _ _) (u / 1000000000 % 60 * 1000000000 + u % 1000000000)
        (by unfold two63; omega) _ hsec
    · simp only [hm, hh, if_true, if_false]
      apply parseDuration_of_loop d hd _ _ (by simp)
      rw [hu]
      have h0 : u / 1000000000 / 60 / 60 = 0 := by omega
      rw [h0] at hsec
      exact parseLoop_m _ _ (numHead_intText _ _) (u / 1000000000 % 60 * 1000000000 + u % 1000000000)
        (by unfold two63; omega) _ (by simpa using hsec)
  · simp only [hm, if_false]
    apply parseDuration_of_loop d hd _ _ htl
    rw [hu]
    have h0 : u / 1000000000 / 60 / 60 = 0 := by omega
    have h1 : u / 1000000000 / 60 % 60 = 0 := by omega
    rw [h0, h1] at hsec
    simpa using hsec

end GolibsVerif.C14
