/-
C19 — the executable model of `encoding/json`'s string encoder (`goJsonEncode`) satisfies
contract JSON-RT against the reference reader `parseLine`, for every byte string:
the output is one line, reads back as exactly two members, and the message read back is the
input with every ill-formed byte replaced by U+FFFD (so: the input itself when it is valid
UTF-8).
-/
import GolibsVerif.Spec.C19

namespace GolibsVerif.C19

/-! ### no raw newline -/

theorem escAscii_no_nl (b : Nat) : 10 ∉ escAscii b := by
  unfold escAscii
  split
  · rename_i h; rcases h with h | h <;> simp [h]
  · split; · simp
    split; · simp
    split; · simp
    split; · simp
    split; · simp
    split
    · simp only [List.mem_cons, List.not_mem_nil, or_false, not_or]
      refine ⟨by decide, by decide, by decide, by decide, ?_, ?_⟩ <;>
        (unfold hexDigit; split <;> omega)
    · rename_i h1 h2 h3 h4 h5 h6 h7
      simp only [List.mem_cons, List.not_mem_nil, or_false]
      omega

theorem utf8SeqLen_cont (b : Nat) (rest : Bytes) (hn : utf8SeqLen (b :: rest) ≠ 0) :
    ∀ x ∈ rest.take (utf8SeqLen (b :: rest) - 1), 128 ≤ x := by
  cases rest with
  | nil => simp [utf8SeqLen] at hn
  | cons b1 r1 =>
    by_cases c2 : 0xC2 ≤ b ∧ b ≤ 0xDF
    · by_cases k1 : isCont b1 = true
      · have e : utf8SeqLen (b :: b1 :: r1) = 2 := by simp [utf8SeqLen, c2, k1]
        rw [e]
        simp only [isCont, Bool.and_eq_true, decide_eq_true_eq] at k1
        intro x hx
        simp at hx
        omega
      · have e : utf8SeqLen (b :: b1 :: r1) = 0 := by simp [utf8SeqLen, c2, k1]
        exact absurd e hn
    · by_cases c3 : 0xE0 ≤ b ∧ b ≤ 0xEF
      · cases r1 with
        | nil => exact absurd (by simp [utf8SeqLen, c2, c3]) hn
        | cons b2 r2 =>
          by_cases k : (if b = 0xE0 then 0xA0 else 0x80) ≤ b1 ∧
              b1 ≤ (if b = 0xED then 0x9F else 0xBF) ∧ isCont b2 = true
          · have e : utf8SeqLen (b :: b1 :: b2 :: r2) = 3 := by simp [utf8SeqLen, c2, c3, k]
            rw [e]
            obtain ⟨k1, k2, k3⟩ := k
            simp only [isCont, Bool.and_eq_true, decide_eq_true_eq] at k3
            have hb1 : 128 ≤ b1 := by split at k1 <;> omega
            intro x hx
            simp at hx
            rcases hx with hx | hx <;> omega
          · have e : utf8SeqLen (b :: b1 :: b2 :: r2) = 0 := by simp [utf8SeqLen, c2, c3, k]
            exact absurd e hn
      · by_cases c4 : 0xF0 ≤ b ∧ b ≤ 0xF4
        · match r1 with
          | [] => exact absurd (by simp [utf8SeqLen, c2, c3, c4]) hn
          | [_] => exact absurd (by simp [utf8SeqLen, c2, c3, c4]) hn
          | b2 :: b3 :: r3 =>
            by_cases k : (if b = 0xF0 then 0x90 else 0x80) ≤ b1 ∧
                b1 ≤ (if b = 0xF4 then 0x8F else 0xBF) ∧ isCont b2 = true ∧ isCont b3 = true
            · have e : utf8SeqLen (b :: b1 :: b2 :: b3 :: r3) = 4 := by
                simp [utf8SeqLen, c2, c3, c4, k]
              rw [e]
              obtain ⟨k1, k2, k3, k4⟩ := k
              simp only [isCont, Bool.and_eq_true, decide_eq_true_eq] at k3 k4
              have hb1 : 128 ≤ b1 := by split at k1 <;> omega
              intro x hx
              simp at hx
              rcases hx with hx | hx | hx <;> omega
            · have e : utf8SeqLen (b :: b1 :: b2 :: b3 :: r3) = 0 := by
                simp [utf8SeqLen, c2, c3, c4, k]
              exact absurd e hn
        · exact absurd (by simp [utf8SeqLen, c2, c3, c4]) hn

/-! unfolding equations of `jsonBody`, `sanitize`, `validUtf8`, one per branch -/

theorem jsonBody_ascii (b : Nat) (rest : Bytes) (hb : b < 128) :
    jsonBody (b :: rest) = escAscii b ++ jsonBody rest := by
  rw [jsonBody.eq_2, if_pos hb]

theorem jsonBody_bad (b : Nat) (rest : Bytes) (hb : ¬ b < 128) (hn : utf8SeqLen (b :: rest) = 0) :
    jsonBody (b :: rest) = [92, 117, 102, 102, 102, 100] ++ jsonBody rest := by
  rw [jsonBody.eq_2, if_neg hb]; simp only [hn, if_true]

theorem jsonBody_2028 (b : Nat) (rest : Bytes) (hb : ¬ b < 128) (hn : ¬ utf8SeqLen (b :: rest) = 0)
    (h : b = 226 ∧ rest.take 2 = [128, 168]) :
    jsonBody (b :: rest) = [92, 117, 50, 48, 50, 56] ++ jsonBody (rest.drop 2) := by
  rw [jsonBody.eq_2, if_neg hb]; simp only [hn, if_false]; rw [if_pos h]

theorem jsonBody_2029 (b : Nat) (rest : Bytes) (hb : ¬ b < 128) (hn : ¬ utf8SeqLen (b :: rest) = 0)
    (h1 : ¬ (b = 226 ∧ rest.take 2 = [128, 168])) (h : b = 226 ∧ rest.take 2 = [128, 169]) :
    jsonBody (b :: rest) = [92, 117, 50, 48, 50, 57] ++ jsonBody (rest.drop 2) := by
  rw [jsonBody.eq_2, if_neg hb]; simp only [hn, if_false]; rw [if_neg h1, if_pos h]

theorem jsonBody_raw (b : Nat) (rest : Bytes) (hb : ¬ b < 128) (hn : ¬ utf8SeqLen (b :: rest) = 0)
    (h1 : ¬ (b = 226 ∧ rest.take 2 = [128, 168])) (h2 : ¬ (b = 226 ∧ rest.take 2 = [128, 169])) :
    jsonBody (b :: rest) = (b :: rest.take (utf8SeqLen (b :: rest) - 1)) ++
      jsonBody (rest.drop (utf8SeqLen (b :: rest) - 1)) := by
  rw [jsonBody.eq_2, if_neg hb]; simp only [hn, if_false]; rw [if_neg h1, if_neg h2]

theorem sanitize_ascii (b : Nat) (rest : Bytes) (hb : b < 128) :
    sanitize (b :: rest) = b :: sanitize rest := by
  rw [sanitize, if_pos hb]

theorem sanitize_bad (b : Nat) (rest : Bytes) (hb : ¬ b < 128) (hn : utf8SeqLen (b :: rest) = 0) :
    sanitize (b :: rest) = [0xEF, 0xBF, 0xBD] ++ sanitize rest := by
  rw [sanitize, if_neg hb]; simp only [hn, if_true]

theorem sanitize_raw (b : Nat) (rest : Bytes) (hb : ¬ b < 128) (hn : ¬ utf8SeqLen (b :: rest) = 0) :
    sanitize (b :: rest) = (b :: rest.take (utf8SeqLen (b :: rest) - 1)) ++
      sanitize (rest.drop (utf8SeqLen (b :: rest) - 1)) := by
  rw [sanitize, if_neg hb]; simp only [hn, if_false]

theorem jsonBody_no_nl (s : Bytes) : 10 ∉ jsonBody s := by
  induction s using jsonBody.induct with
  | case1 => simp [jsonBody]
  | case2 b rest hb ih =>
    rw [jsonBody_ascii b rest hb]; simp only [List.mem_append, not_or]
    exact ⟨escAscii_no_nl b, ih⟩
  | case3 b rest hb n hn ih =>
    rw [jsonBody_bad b rest hb hn]; simp only [List.mem_append, not_or]
    exact ⟨by decide, ih⟩
  | case4 b rest hb n hn h28 ih =>
    rw [jsonBody_2028 b rest hb hn h28]; simp only [List.mem_append, not_or]
    exact ⟨by decide, ih⟩
  | case5 b rest hb n hn h28 h29 ih =>
    rw [jsonBody_2029 b rest hb hn h28 h29]; simp only [List.mem_append, not_or]
    exact ⟨by decide, ih⟩
  | case6 b rest hb n hn h28 h29 ih =>
    rw [jsonBody_raw b rest hb hn h28 h29]; simp only [List.mem_append, not_or, List.mem_cons]
    refine ⟨⟨by omega, ?_⟩, ih⟩
    intro hx
    have := utf8SeqLen_cont b rest hn 10 hx
    omega

theorem jsonString_no_nl (s : Bytes) : 10 ∉ jsonString s := by
  simp only [jsonString, List.mem_append, List.mem_cons, List.not_mem_nil, or_false, not_or]
  exact ⟨⟨by decide, jsonBody_no_nl s⟩, by decide⟩

theorem goJsonEncode_oneLine (sev msg : Bytes) :
    ∃ body, goJsonEncode sev msg = body ++ [10] ∧ 10 ∉ body := by
  refine ⟨ascii "{\"severity\":" ++ jsonString sev ++ ascii ",\"message\":" ++ jsonString msg ++ ascii "}", ?_, ?_⟩
  · simp [goJsonEncode, ascii]
  · simp only [List.mem_append, not_or]
    exact ⟨⟨⟨⟨by decide, jsonString_no_nl sev⟩, by decide⟩, jsonString_no_nl msg⟩, by decide⟩

/-! ### reading back -/

theorem unq_raw (b : Nat) (t : Bytes) (h1 : b ≠ 34) (h2 : b ≠ 92) (h3 : ¬ b < 32) :
    unquoteBody (b :: t) = (unquoteBody t).map fun p => (b :: p.1, p.2) := by
  rw [unquoteBody.eq_def]; simp [h1, h2, h3]

theorem unq_raws (c t : Bytes) (h : ∀ x ∈ c, 128 ≤ x) :
    unquoteBody (c ++ t) = (unquoteBody t).map fun p => (c ++ p.1, p.2) := by
  induction c with
  | nil => simp
  | cons x c ih =>
    have hx : 128 ≤ x := h x (List.mem_cons_self ..)
    rw [List.cons_append, unq_raw x _ (by omega) (by omega) (by omega),
      ih (fun y hy => h y (List.mem_cons_of_mem _ hy))]
    simp [Option.map_map, Function.comp_def]

theorem unq_simple (c x : Nat) (t : Bytes) (hc : c ≠ 117) (hs : simpleEsc c = some x) :
    unquoteBody (92 :: c :: t) = (unquoteBody t).map fun p => (x :: p.1, p.2) := by
  rw [unquoteBody.eq_def]; simp [hc, hs]

theorem unq_u (h1 h2 h3 h4 x1 x2 x3 x4 : Nat) (t : Bytes)
    (e1 : hexVal h1 = some x1) (e2 : hexVal h2 = some x2) (e3 : hexVal h3 = some x3)
    (e4 : hexVal h4 = some x4) :
    unquoteBody (92 :: 117 :: h1 :: h2 :: h3 :: h4 :: t) =
      (unquoteBody t).map fun p => (utf8Enc (((x1 * 16 + x2) * 16 + x3) * 16 + x4) ++ p.1, p.2) := by
  rw [unquoteBody.eq_def]; simp [e1, e2, e3, e4]

theorem hexVal_hexDigit : ∀ n, n < 16 → hexVal (hexDigit n) = some n := by decide

theorem unq_escAscii (b : Nat) (t : Bytes) (hb : b < 128) :
    unquoteBody (escAscii b ++ t) = (unquoteBody t).map fun p => (b :: p.1, p.2) := by
  unfold escAscii
  split
  · rename_i h
    rcases h with h | h <;> subst h <;>
      exact unq_simple _ _ t (by decide) (by decide)
  · split; · rename_i h; subst h; exact unq_simple _ _ t (by decide) (by decide)
    split; · rename_i h; subst h; exact unq_simple _ _ t (by decide) (by decide)
    split; · rename_i h; subst h; exact unq_simple _ _ t (by decide) (by decide)
    split; · rename_i h; subst h; exact unq_simple _ _ t (by decide) (by decide)
    split; · rename_i h; subst h; exact unq_simple _ _ t (by decide) (by decide)
    split
    · rename_i hlt
      have e1 : hexVal 48 = some 0 := by decide
      have e3 := hexVal_hexDigit (b / 16) (by omega)
      have e4 := hexVal_hexDigit (b % 16) (by omega)
      simp only [List.cons_append, List.nil_append]
      rw [unq_u 48 48 _ _ 0 0 (b / 16) (b % 16) t e1 e1 e3 e4]
      have : ((0 * 16 + 0) * 16 + b / 16) * 16 + b % 16 = b := by omega
      rw [this]
      have : utf8Enc b = [b] := by simp [utf8Enc]; omega
      rw [this]; rfl
    · rename_i h1 h2 h3 h4 h5 h6 h7
      have : b ≠ 34 ∧ b ≠ 92 := by omega
      exact unq_raw b t this.1 this.2 h7

/-- Reading back the encoder's string body yields the sanitized input. -/
theorem unq_jsonBody (s t : Bytes) :
    unquoteBody (jsonBody s ++ 34 :: t) = some (sanitize s, t) := by
  induction s using jsonBody.induct with
  | case1 => rw [unquoteBody.eq_def]; simp [jsonBody, sanitize]
  | case2 b rest hb ih =>
    rw [jsonBody_ascii b rest hb, sanitize_ascii b rest hb, List.append_assoc,
      unq_escAscii b _ hb, ih]; rfl
  | case3 b rest hb n hn ih =>
    rw [jsonBody_bad b rest hb hn, sanitize_bad b rest hb hn, List.append_assoc]
    simp only [List.cons_append, List.nil_append]
    rw [unq_u 102 102 102 100 15 15 15 13 _ (by decide) (by decide) (by decide) (by decide), ih]
    rfl
  | case4 b rest hb n hn h28 ih =>
    rw [jsonBody_2028 b rest hb hn h28, sanitize_raw b rest hb hn, List.append_assoc]
    simp only [List.cons_append, List.nil_append]
    rw [unq_u 50 48 50 56 2 0 2 8 _ (by decide) (by decide) (by decide) (by decide), ih]
    obtain ⟨hb2, ht⟩ := h28
    have hrest : rest = 128 :: 168 :: rest.drop 2 := by
      have := List.take_append_drop 2 rest
      rw [ht] at this; exact this.symm
    subst hb2
    have hlen : utf8SeqLen (226 :: rest) = 3 := by
      rw [hrest]; simp [utf8SeqLen, isCont]
    have henc : utf8Enc (((2 * 16 + 0) * 16 + 2) * 16 + 8) = [226, 128, 168] := by decide
    rw [hlen, henc]
    simp only [Option.map_some, Nat.add_one_sub_one, ht]
    rfl
  | case5 b rest hb n hn h28 h29 ih =>
    rw [jsonBody_2029 b rest hb hn h28 h29, sanitize_raw b rest hb hn, List.append_assoc]
    simp only [List.cons_append, List.nil_append]
    rw [unq_u 50 48 50 57 2 0 2 9 _ (by decide) (by decide) (by decide) (by decide), ih]
    obtain ⟨hb2, ht⟩ := h29
    have hrest : rest = 128 :: 169 :: rest.drop 2 := by
      have := List.take_append_drop 2 rest
      rw [ht] at this; exact this.symm
    subst hb2
    have hlen : utf8SeqLen (226 :: rest) = 3 := by
      rw [hrest]; simp [utf8SeqLen, isCont]
    have henc : utf8Enc (((2 * 16 + 0) * 16 + 2) * 16 + 9) = [226, 128, 169] := by decide
    rw [hlen, henc]
    simp only [Option.map_some, Nat.add_one_sub_one, ht]
    rfl
  | case6 b rest hb n hn h28 h29 ih =>
    rw [jsonBody_raw b rest hb hn h28 h29, sanitize_raw b rest hb hn, List.append_assoc]
    have hall : ∀ x ∈ b :: List.take (utf8SeqLen (b :: rest) - 1) rest, 128 ≤ x := by
      intro x hx
      rcases List.mem_cons.mp hx with hx | hx
      · omega
      · exact utf8SeqLen_cont b rest hn x hx
    rw [unq_raws _ _ hall, ih]
    rfl

theorem sanitize_valid (s : Bytes) (h : validUtf8 s = true) : sanitize s = s := by
  induction s using sanitize.induct with
  | case1 => simp [sanitize]
  | case2 b rest hb ih =>
    rw [validUtf8, if_pos hb] at h
    rw [sanitize_ascii b rest hb, ih h]
  | case3 b rest hb n hn ih =>
    have hn' : utf8SeqLen (b :: rest) = 0 := hn
    rw [validUtf8, if_neg hb] at h
    simp [hn'] at h
  | case4 b rest hb n hn ih =>
    have hn' : ¬ utf8SeqLen (b :: rest) = 0 := hn
    rw [validUtf8, if_neg hb] at h
    simp only [hn', ne_eq, not_false_eq_true, decide_true, Bool.true_and] at h
    rw [sanitize_raw b rest hb hn, ih h]
    show b :: (List.take (utf8SeqLen (b :: rest) - 1) rest ++
      List.drop (utf8SeqLen (b :: rest) - 1) rest) = b :: rest
    rw [List.take_append_drop]

theorem stripPrefix_append (p s : Bytes) : stripPrefix p (p ++ s) = some s := by
  induction p with
  | nil => simp [stripPrefix]
  | cons x p ih => simp [stripPrefix, ih]

theorem parseLine_goJsonEncode (sev msg : Bytes) :
    parseLine (goJsonEncode sev msg) = some (sanitize sev, sanitize msg) := by
  have e : goJsonEncode sev msg =
      ascii "{\"severity\":\"" ++ (jsonBody sev ++ 34 ::
        (ascii ",\"message\":\"" ++ (jsonBody msg ++ 34 :: ascii "}\n"))) := by
    simp [goJsonEncode, jsonString, ascii]
  rw [e]
  unfold parseLine
  simp only [stripPrefix_append, unq_jsonBody, Option.bind_eq_bind, Option.bind_some, if_true]

/-- JSON-RT holds for the model of the encoder. -/
theorem goJson_contract : JsonContract goJsonEncode where
  oneLine := goJsonEncode_oneLine
  roundTrip := by
    intro sev msg h1 h2
    rw [parseLine_goJsonEncode, sanitize_valid sev h1, sanitize_valid msg h2]

end GolibsVerif.C19
