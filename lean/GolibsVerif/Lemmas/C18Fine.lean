/-
C18 — observation functions on traces of the fine-grained RefreshWorker system
(`Model/C18Fine.lean`) and the helper lemmas for `Theorems/C18Fine.lean`: generic
"balance" inductions over ALL action sequences, the reachable-state invariant, the ranking
of the loop goroutine after `close(done)`.
-/
import GolibsVerif.Model.C18Fine

set_option linter.unusedSimpArgs false
set_option linter.unusedVariables false

namespace GolibsVerif.C18
open Fine

/-! ## Observations -/

/-- a scheduled refresh: `w.refr.Refresh` entered by the loop goroutine -/
def isLoopRefreshCall : FEv → Bool
  | .refreshCall .loop _ => true
  | _ => false

/-- the final refresh: `w.refr.Refresh` entered from `Shutdown` -/
def isFinalRefreshCall : FEv → Bool
  | .refreshCall .shutdown _ => true
  | _ => false

def isAfterEv : FEv → Bool
  | .after _ _ => true
  | _ => false

/-- a timer channel becomes ready: the pending timer delivers, or `After` returned a channel
that is ready at once -/
def isFired : FEv → Bool
  | .fire => true
  | .after _ imm => imm
  | _ => false

def isRecheckOpen : FEv → Bool
  | .recheckOpen => true
  | _ => false

def isRecheckClosed : FEv → Bool
  | .recheckClosed => true
  | _ => false

/-- a fired timer is used up: by a scheduled refresh, or by a re-check that saw `done` closed -/
def isRefreshOrStop : FEv → Bool
  | .refreshCall .loop _ => true
  | .recheckClosed => true
  | _ => false

def isCloseDone : FEv → Bool
  | .closeDone => true
  | _ => false

def isShutRet : FEv → Bool
  | .shutRet _ => true
  | _ => false

def isUntilCall : FEv → Bool
  | .untilCall => true
  | _ => false

def isLoopRefreshRet : FEv → Bool
  | .refreshRet .loop _ => true
  | _ => false

/-- events of the loop goroutine: its own statements and the returns of its callbacks -/
def isLoopEv : FEv → Bool
  | .untilCall | .untilRet _ | .after _ _ | .selTimer | .selDone | .recheckOpen | .recheckClosed => true
  | .newCall .loop | .newRet .loop | .refreshCall .loop _ | .refreshRet .loop _ => true
  | .handleCall _ | .handleRet => true
  | _ => false

def loopErrOf : FEv → Option Nat
  | .refreshRet .loop e => if e ≠ 0 then some e else none
  | _ => none

def handledOf : FEv → Option Nat
  | .handleCall e => some e
  | _ => none

def untilValOf : FEv → Option Nat
  | .untilRet d => some d
  | _ => none

def afterValOf : FEv → Option Nat
  | .after d _ => some d
  | _ => none

def finalRetOf : FEv → Option Nat
  | .refreshRet .shutdown e => some e
  | _ => none

def shutRetOf : FEv → Option Nat
  | .shutRet e => some e
  | _ => none

/-- non-nil errors returned by scheduled refreshes, in order -/
def loopErrs (tr : List FEv) : List Nat := tr.filterMap loopErrOf

/-- errors handed to the error handler, in order -/
def handledErrs (tr : List FEv) : List Nat := tr.filterMap handledOf

/-- answers of the schedule, in order -/
def untilVals (tr : List FEv) : List Nat := tr.filterMap untilValOf

/-- durations handed to `clock.After`, in order -/
def afterVals (tr : List FEv) : List Nat := tr.filterMap afterValOf

/-- errors returned by the final refresh -/
def finalRets (tr : List FEv) : List Nat := tr.filterMap finalRetOf

/-- what `Shutdown` returned -/
def shutRets (tr : List FEv) : List Nat := tr.filterMap shutRetOf

/-- the part of a trace after the first event satisfying `p` (empty if there is none) -/
def afterFirst (p : FEv → Bool) (tr : List FEv) : List FEv := (tr.dropWhile (fun e => !p e)).drop 1

/-- The loop goroutine is inside the window: past a re-check that saw `done` open, `Refresh`
not entered yet. -/
def winL : LPc → Nat
  | .newCall => 1
  | .inNew => 1
  | .refreshCall => 1
  | .untilCall => 0
  | .inUntil => 0
  | .afterCall _ => 0
  | .select => 0
  | .recheck => 0
  | .inRefresh => 0
  | .gotErr _ => 0
  | .inHandle => 0
  | .exited => 0

/-- the window as a number: `1` inside, `0` outside -/
def win (s : FSt) : Nat := winL s.lpc

def inWindow (s : FSt) : Prop := win s = 1

def pendTL : LPc → Nat
  | .select => 1
  | .recheck => 1
  | .newCall => 1
  | .inNew => 1
  | .refreshCall => 1
  | .exited => 1
  | .untilCall => 0
  | .inUntil => 0
  | .afterCall _ => 0
  | .inRefresh => 0
  | .gotErr _ => 0
  | .inHandle => 0

/-- `1` when the last armed timer has not led to a refresh (yet): pending, being processed, or
abandoned because the loop returned -/
def pendT (s : FSt) : Nat := pendTL s.lpc

def pendRL : LPc → Nat
  | .recheck => 1
  | .newCall => 1
  | .inNew => 1
  | .refreshCall => 1
  | .select => 0
  | .exited => 0
  | .untilCall => 0
  | .inUntil => 0
  | .afterCall _ => 0
  | .inRefresh => 0
  | .gotErr _ => 0
  | .inHandle => 0

/-- fired timers not used up yet: a value sitting in the channel, plus the one the loop has
received and is acting upon -/
def pendR (s : FSt) : Nat := (if s.ready then 1 else 0) + pendRL s.lpc

def pendUL : LPc → Nat
  | .untilCall => 1
  | .gotErr _ => 1
  | .inHandle => 1
  | .recheck => 0
  | .newCall => 0
  | .inNew => 0
  | .refreshCall => 0
  | .select => 0
  | .exited => 0
  | .inUntil => 0
  | .afterCall _ => 0
  | .inRefresh => 0

/-- `1` while a consultation of the schedule is due (initially, and after each completed
scheduled refresh until `UntilNext` is called) -/
def pendU (s : FSt) : Nat := pendUL s.lpc

def pendEL : LPc → List Nat
  | .gotErr e => if e ≠ 0 then [e] else []
  | .untilCall => []
  | .inHandle => []
  | .recheck => []
  | .newCall => []
  | .inNew => []
  | .refreshCall => []
  | .select => []
  | .exited => []
  | .inUntil => []
  | .afterCall _ => []
  | .inRefresh => []

/-- the refresh error that is about to be handed to the error handler -/
def pendE (s : FSt) : List Nat := pendEL s.lpc

def pendDL : LPc → List Nat
  | .afterCall d => [d]
  | .gotErr _ => []
  | .untilCall => []
  | .inHandle => []
  | .recheck => []
  | .newCall => []
  | .inNew => []
  | .refreshCall => []
  | .select => []
  | .exited => []
  | .inUntil => []
  | .inRefresh => []

/-- the schedule answer that is about to be handed to `clock.After` -/
def pendD (s : FSt) : List Nat := pendDL s.lpc

/-- how many more events the loop goroutine can produce once `done` is closed -/
def rank : LPc → Nat
  | .exited => 0
  | .recheck => 1
  | .select => 2
  | .afterCall _ => 3
  | .inUntil => 4
  | .untilCall => 5
  | .inHandle => 6
  | .gotErr _ => 7
  | .inRefresh => 8
  | .refreshCall => 9
  | .inNew => 10
  | .newCall => 11

/-- Reachable states: a value can sit in the timer channel only while the loop is at the
outer select (or gone); `done` is closed exactly when `Shutdown` got past its first
statement. -/
def FInv (s : FSt) : Prop :=
  ((s.lpc ≠ .select ∧ s.lpc ≠ .exited) → s.ready = false) ∧
  (s.closed = true ↔ (s.spc ≠ .idle ∧ s.spc ≠ .closeDone))

/-- after `close(done)` -/
def FClosed (s : FSt) : Prop := s.closed = true

/-! ## Case analysis over one step -/

set_option hygiene false in
/-- `step_cases s a => tac`: split on the action and on the program counter it looks at, then
run `tac` in every case (`hpc : s.lpc = …` or `hpc : s.spc = …` is in the context). -/
macro "step_cases " s:ident a:ident " => " t:tacticSeq : tactic =>
  `(tactic|
    (cases $a:ident with
     | loop b => cases hpc : ($s:ident).lpc <;> ($t)
     | shut => cases hpc : ($s:ident).spc <;> ($t)
     | callShutdown => cases hpc : ($s:ident).spc <;> ($t)
     | tick => cases hpc : ($s:ident).lpc <;> ($t)
     | untilRet d => cases hpc : ($s:ident).lpc <;> ($t)
     | newRet c =>
       cases c with
       | loop => cases hpc : ($s:ident).lpc <;> ($t)
       | shutdown => cases hpc : ($s:ident).spc <;> ($t)
     | refreshRet c e =>
       cases c with
       | loop => cases hpc : ($s:ident).lpc <;> ($t)
       | shutdown => cases hpc : ($s:ident).spc <;> ($t)
     | handleRet => cases hpc : ($s:ident).lpc <;> ($t)))

/-! ## Runs -/

theorem frun_append (ros : Bool) (xs ys : List Act) :
    ∀ s, frun ros s (xs ++ ys) = frun ros (frun ros s xs) ys := by
  induction xs with
  | nil => intro s; rfl
  | cons a as ih => intro s; simp [frun, ih]

theorem ftrace_append (ros : Bool) (xs ys : List Act) :
    ∀ s, ftrace ros s (xs ++ ys) = ftrace ros s xs ++ ftrace ros (frun ros s xs) ys := by
  induction xs with
  | nil => intro s; rfl
  | cons a as ih => intro s; simp [frun, ftrace, ih]

/-- an invariant of single steps holds along every run -/
theorem run_inv (ros : Bool) (I : FSt → Prop) (hI : ∀ s a, I s → I (fstep ros s a).1) :
    ∀ acts s, I s → I (frun ros s acts) := by
  intro acts
  induction acts with
  | nil => intro s h; exact h
  | cons a as ih => intro s h; exact ih _ (hI s a h)

/-- a per-step balance `#p + m(after) = #q + m(before)` sums up along every run -/
theorem run_balance (ros : Bool) (p q : FEv → Bool) (m : FSt → Nat) (I : FSt → Prop)
    (hI : ∀ s a, I s → I (fstep ros s a).1)
    (h : ∀ s a, I s → (fstep ros s a).2.toList.countP p + m (fstep ros s a).1 =
      (fstep ros s a).2.toList.countP q + m s) :
    ∀ acts s, I s →
      (ftrace ros s acts).countP p + m (frun ros s acts) = (ftrace ros s acts).countP q + m s := by
  intro acts
  induction acts with
  | nil => intro s _; simp [ftrace, frun]
  | cons a as ih =>
    intro s hs
    have h1 := h s a hs
    have h2 := ih _ (hI s a hs)
    simp only [ftrace, frun, List.countP_append]
    omega

/-- a per-step bound `#p + m(after) ≤ m(before)` sums up along every run -/
theorem run_le (ros : Bool) (p : FEv → Bool) (m : FSt → Nat) (I : FSt → Prop)
    (hI : ∀ s a, I s → I (fstep ros s a).1)
    (h : ∀ s a, I s → (fstep ros s a).2.toList.countP p + m (fstep ros s a).1 ≤ m s) :
    ∀ acts s, I s → (ftrace ros s acts).countP p + m (frun ros s acts) ≤ m s := by
  intro acts
  induction acts with
  | nil => intro s _; simp [ftrace, frun]
  | cons a as ih =>
    intro s hs
    have h1 := h s a hs
    have h2 := ih _ (hI s a hs)
    simp only [ftrace, frun, List.countP_append]
    omega

/-- list version: what is produced (`R`) is consumed (`H`) in order, with `pend` in flight -/
theorem run_balance_list {α : Type} (ros : Bool) (H R : FEv → Option α) (pend : FSt → List α)
    (h : ∀ s a, pend s ++ (fstep ros s a).2.toList.filterMap R =
      (fstep ros s a).2.toList.filterMap H ++ pend (fstep ros s a).1) :
    ∀ acts s, pend s ++ (ftrace ros s acts).filterMap R =
      (ftrace ros s acts).filterMap H ++ pend (frun ros s acts) := by
  intro acts
  induction acts with
  | nil => intro s; simp [ftrace, frun]
  | cons a as ih =>
    intro s
    have h1 := h s a
    have h2 := ih (fstep ros s a).1
    simp only [ftrace, frun, List.filterMap_append]
    rw [← List.append_assoc, h1, List.append_assoc, h2, List.append_assoc]

/-- an invariant relating the state to the trace so far -/
theorem run_hist (ros : Bool) (J : FSt → List FEv → Prop)
    (h : ∀ s tr a, J s tr → J (fstep ros s a).1 (tr ++ (fstep ros s a).2.toList)) :
    ∀ acts s tr, J s tr → J (frun ros s acts) (tr ++ ftrace ros s acts) := by
  intro acts
  induction acts with
  | nil => intro s tr hj; simpa [ftrace, frun] using hj
  | cons a as ih =>
    intro s tr hj
    have := ih _ _ (h s tr a hj)
    simpa [ftrace, frun, List.append_assoc] using this

/-- The part of a run's trace after the first event satisfying `p` is itself the trace of a
run, started in the state right after the step that emitted that event. -/
theorem afterFirst_ftrace (ros : Bool) (p : FEv → Bool) (I : FSt → Prop)
    (hI : ∀ s a, I s → I (fstep ros s a).1) :
    ∀ acts s, I s →
      afterFirst p (ftrace ros s acts) = [] ∨
      ∃ s0 a e post, I s0 ∧ (fstep ros s0 a).2 = some e ∧ p e = true ∧
        afterFirst p (ftrace ros s acts) = ftrace ros (fstep ros s0 a).1 post := by
  intro acts
  induction acts with
  | nil => intro s _; left; simp [ftrace, afterFirst]
  | cons a as ih =>
    intro s hs
    cases hev : (fstep ros s a).2 with
    | none =>
      simp only [ftrace, hev, Option.toList, List.nil_append]
      exact ih _ (hI s a hs)
    | some e =>
      by_cases hp : p e = true
      · right
        refine ⟨s, a, e, as, hs, hev, hp, ?_⟩
        simp [ftrace, hev, afterFirst, List.dropWhile, hp]
      · have : afterFirst p (ftrace ros s (a :: as)) = afterFirst p (ftrace ros (fstep ros s a).1 as) := by
          simp [ftrace, hev, afterFirst, List.dropWhile, hp]
        rw [this]
        exact ih _ (hI s a hs)

/-! ## The invariant -/

theorem finv_init : FInv finit := by simp [FInv, finit]

theorem finv_step (ros : Bool) (s : FSt) (a : Act) (h : FInv s) : FInv (fstep ros s a).1 := by
  obtain ⟨h1, h2⟩ := h
  step_cases s a =>
    simp [fstep, hpc, FInv] at h1 h2 ⊢ <;> (try split) <;> simp_all

theorem finv_run (ros : Bool) (acts : List Act) : FInv (frun ros finit acts) :=
  run_inv ros FInv (finv_step ros) acts _ finv_init

theorem fclosed_step (ros : Bool) (s : FSt) (a : Act) (h : FClosed s) : FClosed (fstep ros s a).1 := by
  simp only [FClosed] at h ⊢
  step_cases s a =>
    simp [fstep, hpc, h] <;> (try split) <;> simp_all

/-- the step that emits `closeDone` closes `done` -/
theorem closeDone_closes (ros : Bool) (s : FSt) (a : Act) (e : FEv)
    (h : (fstep ros s a).2 = some e) (he : isCloseDone e = true) : FClosed (fstep ros s a).1 := by
  simp only [FClosed]
  cases e <;> simp [isCloseDone] at he
  step_cases s a =>
    simp [fstep, hpc] at h ⊢ <;> (try split at h) <;> simp_all

/-- `Shutdown` returns only after `done` was closed -/
theorem shutRet_closed (ros : Bool) (s : FSt) (a : Act) (e : FEv) (hi : FInv s)
    (h : (fstep ros s a).2 = some e) (he : isShutRet e = true) : FClosed (fstep ros s a).1 := by
  obtain ⟨_, h2⟩ := hi
  simp only [FClosed]
  cases e <;> simp [isShutRet] at he
  step_cases s a =>
    simp [fstep, hpc] at h h2 ⊢ <;> (try split at h) <;> simp_all

/-! ## Per-step balances (every action, every state) -/

theorem pendT_step (ros : Bool) (s : FSt) (a : Act) :
    (fstep ros s a).2.toList.countP isLoopRefreshCall + pendT (fstep ros s a).1 =
      (fstep ros s a).2.toList.countP isAfterEv + pendT s := by
  cases ros <;> step_cases s a =>
    simp [fstep, hpc, pendT, pendTL, isLoopRefreshCall, isAfterEv] <;> (repeat' split) <;>
      (try simp_all [pendT, pendTL, isLoopRefreshCall, isAfterEv])

theorem pendR_step (ros : Bool) (s : FSt) (a : Act) (h : FInv s) :
    (fstep ros s a).2.toList.countP isRefreshOrStop + pendR (fstep ros s a).1 =
      (fstep ros s a).2.toList.countP isFired + pendR s := by
  obtain ⟨h1, _⟩ := h
  cases ros <;> step_cases s a =>
    simp [fstep, hpc, pendR, pendRL, isRefreshOrStop, isFired] at h1 ⊢ <;> (repeat' split) <;>
      (try simp_all [pendR, pendRL, isRefreshOrStop, isFired, selectDoneTimer]) <;> (try split at *) <;>
      (try simp_all) <;> (try omega)

theorem win_step (ros : Bool) (s : FSt) (a : Act) :
    (fstep ros s a).2.toList.countP isLoopRefreshCall + win (fstep ros s a).1 =
      (fstep ros s a).2.toList.countP isRecheckOpen + win s := by
  cases ros <;> step_cases s a =>
    simp [fstep, hpc, win, winL, isLoopRefreshCall, isRecheckOpen] <;> (repeat' split) <;>
      (try simp_all [win, winL, isLoopRefreshCall, isRecheckOpen])

theorem pendU_step (ros : Bool) (s : FSt) (a : Act) :
    (fstep ros s a).2.toList.countP isUntilCall + pendU (fstep ros s a).1 =
      (fstep ros s a).2.toList.countP isLoopRefreshRet + pendU s := by
  cases ros <;> step_cases s a =>
    simp [fstep, hpc, pendU, pendUL, isUntilCall, isLoopRefreshRet] <;> (repeat' split) <;>
      (try simp_all [pendU, pendUL, isUntilCall, isLoopRefreshRet])

theorem pendE_step (ros : Bool) (s : FSt) (a : Act) :
    pendE s ++ (fstep ros s a).2.toList.filterMap loopErrOf =
      (fstep ros s a).2.toList.filterMap handledOf ++ pendE (fstep ros s a).1 := by
  cases ros <;> step_cases s a =>
    simp [fstep, hpc, pendE, pendEL, loopErrOf, handledOf, List.filterMap_cons] <;> (repeat' split) <;>
      (try simp_all [pendE, pendEL, loopErrOf, handledOf, List.filterMap_cons])

theorem pendD_step (ros : Bool) (s : FSt) (a : Act) :
    pendD s ++ (fstep ros s a).2.toList.filterMap untilValOf =
      (fstep ros s a).2.toList.filterMap afterValOf ++ pendD (fstep ros s a).1 := by
  cases ros <;> step_cases s a =>
    simp [fstep, hpc, pendD, pendDL, untilValOf, afterValOf, List.filterMap_cons] <;> (repeat' split) <;>
      (try simp_all [pendD, pendDL, untilValOf, afterValOf, List.filterMap_cons])

/-! ## After `close(done)` -/

/-- with `done` closed, a step starts a scheduled refresh only out of the window, and leaves
the window for good -/
theorem closed_win_step (ros : Bool) (s : FSt) (a : Act) (h : FClosed s) :
    (fstep ros s a).2.toList.countP isLoopRefreshCall + win (fstep ros s a).1 ≤ win s := by
  simp only [FClosed] at h
  cases ros <;> step_cases s a =>
    simp [fstep, hpc, win, winL, isLoopRefreshCall, h] <;> (repeat' split) <;>
      (try simp_all [win, winL, isLoopRefreshCall])

/-- with `done` closed, no re-check sees it open -/
theorem closed_recheck_step (ros : Bool) (s : FSt) (a : Act) (h : FClosed s) :
    (fstep ros s a).2.toList.countP isRecheckOpen + 0 ≤ 0 := by
  simp only [FClosed] at h
  cases ros <;> step_cases s a =>
    simp [fstep, hpc, isRecheckOpen, h] <;> (repeat' split) <;> (try simp_all [isRecheckOpen])

/-- with `done` closed, every event of the loop goroutine lowers its rank -/
theorem closed_rank_step (ros : Bool) (s : FSt) (a : Act) (h : FClosed s) :
    (fstep ros s a).2.toList.countP isLoopEv + rank (fstep ros s a).1.lpc ≤ rank s.lpc := by
  simp only [FClosed] at h
  cases ros <;> step_cases s a =>
    simp [fstep, hpc, rank, isLoopEv, h, selectDoneTimer] <;> (repeat' split) <;>
      (try simp_all [rank, isLoopEv])

/-- the loop goroutine has returned -/
def FExited (s : FSt) : Prop := s.lpc = .exited

theorem fexited_step (ros : Bool) (s : FSt) (a : Act) (h : FExited s) : FExited (fstep ros s a).1 := by
  simp only [FExited] at h ⊢
  cases a with
  | newRet c => cases c <;> simp [fstep, h] <;> split <;> simp_all
  | refreshRet c e => cases c <;> simp [fstep, h] <;> split <;> simp_all
  | shut => simp only [fstep]; split <;> (try split) <;> simp_all
  | callShutdown => simp only [fstep]; split <;> simp_all
  | _ => simp [fstep, h]

theorem fexited_quiet_step (ros : Bool) (s : FSt) (a : Act) (h : FExited s) :
    (fstep ros s a).2.toList.countP isLoopEv + 0 ≤ 0 := by
  simp only [FExited] at h
  cases a with
  | newRet c => cases c <;> simp [fstep, h] <;> split <;> simp_all [isLoopEv]
  | refreshRet c e => cases c <;> simp [fstep, h] <;> split <;> simp_all [isLoopEv]
  | shut => simp only [fstep]; split <;> (try split) <;> simp_all [isLoopEv]
  | callShutdown => simp only [fstep]; split <;> simp_all [isLoopEv]
  | _ => simp [fstep, h]

/-- the step in which a re-check sees `done` closed is the loop's `return` -/
theorem recheckClosed_exits (ros : Bool) (s : FSt) (a : Act) (e : FEv)
    (h : (fstep ros s a).2 = some e) (he : isRecheckClosed e = true) : FExited (fstep ros s a).1 := by
  simp only [FExited]
  cases e <;> simp [isRecheckClosed] at he
  step_cases s a =>
    simp [fstep, hpc] at h ⊢ <;> (try split at h) <;> simp_all

/-- with `done` closed the loop goroutine is never stuck: it has returned, or is inside a
callback, or can make a step -/
theorem closed_loop_not_stuck (s : FSt) (h : FClosed s) :
    s.lpc = .exited ∨ s.lpc = .inUntil ∨ s.lpc = .inNew ∨ s.lpc = .inRefresh ∨ s.lpc = .inHandle ∨
      loopRunnable s = true := by
  simp only [FClosed] at h
  cases hpc : s.lpc <;> simp [loopRunnable, hpc, h]

/-! ## The final refresh -/

/-- what the trace must show when the Shutdown goroutine is at a given point:
(number of `close(done)`, number of final `Refresh` calls, errors the final refresh returned,
what `Shutdown` returned) -/
def finalObs (ros : Bool) : SPc → Nat × Nat × List Nat × List Nat
  | .idle => (0, 0, [], [])
  | .closeDone => (0, 0, [], [])
  | .branch => (1, 0, [], [])
  | .newCall => (1, 0, [], [])
  | .inNew => (1, 0, [], [])
  | .refreshCall => (1, 0, [], [])
  | .inRefresh => (1, 1, [], [])
  | .gotErr e => (1, 1, [e], [])
  | .returned e => if ros then (1, 1, [e], [e]) else (1, 0, [], [0])

/-- the final refresh is only attempted with `RefreshOnShutdown` -/
def finalOk (ros : Bool) : SPc → Prop
  | .newCall | .inNew | .refreshCall | .inRefresh | .gotErr _ => ros = true
  | .returned e => ros = true ∨ e = 0
  | _ => True

def FinalInv (ros : Bool) (s : FSt) (tr : List FEv) : Prop :=
  tr.countP isCloseDone = (finalObs ros s.spc).1 ∧
  tr.countP isFinalRefreshCall = (finalObs ros s.spc).2.1 ∧
  finalRets tr = (finalObs ros s.spc).2.2.1 ∧
  shutRets tr = (finalObs ros s.spc).2.2.2 ∧
  finalOk ros s.spc

theorem finalInv_init (ros : Bool) : FinalInv ros finit [] := by
  simp [FinalInv, finit, finalObs, finalOk, finalRets, shutRets]

/-- actions of the loop goroutine and of its environment (timer, its callbacks) -/
def Fine.Act.loopSide : Act → Bool
  | .loop _ | .tick | .untilRet _ | .newRet .loop | .refreshRet .loop _ | .handleRet => true
  | _ => false

/-- the event says nothing about `Shutdown` -/
def shutFree (e : FEv) : Prop :=
  isCloseDone e = false ∧ isFinalRefreshCall e = false ∧ finalRetOf e = none ∧ shutRetOf e = none

/-- a step of the loop side leaves the Shutdown goroutine where it is and emits nothing
about it -/
theorem loopSide_frame (ros : Bool) (s : FSt) (a : Act) (h : a.loopSide = true) :
    (fstep ros s a).1.spc = s.spc ∧ ∀ e, (fstep ros s a).2 = some e → shutFree e := by
  cases a with
  | shut => simp [Act.loopSide] at h
  | callShutdown => simp [Act.loopSide] at h
  | newRet c =>
    cases c with
    | shutdown => simp [Act.loopSide] at h
    | loop => cases hpc : s.lpc <;> simp [fstep, hpc, shutFree, isCloseDone, isFinalRefreshCall, finalRetOf, shutRetOf]
  | refreshRet c e =>
    cases c with
    | shutdown => simp [Act.loopSide] at h
    | loop => cases hpc : s.lpc <;> simp [fstep, hpc, shutFree, isCloseDone, isFinalRefreshCall, finalRetOf, shutRetOf]
  | loop b =>
    cases hpc : s.lpc <;> simp [fstep, hpc, shutFree, isCloseDone, isFinalRefreshCall, finalRetOf, shutRetOf] <;>
      (repeat' split) <;> simp_all [shutFree, isCloseDone, isFinalRefreshCall, finalRetOf, shutRetOf]
  | tick =>
    cases hpc : s.lpc <;> simp [fstep, hpc, shutFree, isCloseDone, isFinalRefreshCall, finalRetOf, shutRetOf] <;>
      (repeat' split) <;> simp_all [shutFree, isCloseDone, isFinalRefreshCall, finalRetOf, shutRetOf]
  | untilRet d => cases hpc : s.lpc <;> simp [fstep, hpc, shutFree, isCloseDone, isFinalRefreshCall, finalRetOf, shutRetOf]
  | handleRet => cases hpc : s.lpc <;> simp [fstep, hpc, shutFree, isCloseDone, isFinalRefreshCall, finalRetOf, shutRetOf]

theorem finalInv_loopSide (ros : Bool) (s : FSt) (tr : List FEv) (a : Act) (hl : a.loopSide = true)
    (h : FinalInv ros s tr) : FinalInv ros (fstep ros s a).1 (tr ++ (fstep ros s a).2.toList) := by
  obtain ⟨hs, hf⟩ := loopSide_frame ros s a hl
  obtain ⟨c1, c2, c3, c4, h2⟩ := h
  simp only [FinalInv, hs]
  cases hev : (fstep ros s a).2 with
  | none => simpa using ⟨c1, c2, c3, c4, h2⟩
  | some e =>
    obtain ⟨f1, f2, f3, f4⟩ := hf e hev
    simp only [finalRets, shutRets] at c3 c4
    simp [List.countP_append, finalRets, shutRets, List.filterMap_append, List.filterMap_cons, f1, f2, f3, f4,
      c1, c2, c3, c4, h2]

theorem finalInv_step (ros : Bool) (s : FSt) (tr : List FEv) (a : Act) (h : FinalInv ros s tr) :
    FinalInv ros (fstep ros s a).1 (tr ++ (fstep ros s a).2.toList) := by
  by_cases hl : a.loopSide = true
  · exact finalInv_loopSide ros s tr a hl h
  · obtain ⟨c1, c2, c3, c4, h2⟩ := h
    simp only [FinalInv, List.countP_append, finalRets, shutRets, List.filterMap_append] at *
    cases a with
    | loop b => simp [Act.loopSide] at hl
    | tick => simp [Act.loopSide] at hl
    | untilRet d => simp [Act.loopSide] at hl
    | handleRet => simp [Act.loopSide] at hl
    | shut =>
      cases ros <;> cases hpc : s.spc <;>
        simp [fstep, hpc, finalObs, finalOk, isCloseDone, isFinalRefreshCall, finalRetOf, shutRetOf, List.filterMap_cons]
          at c1 c2 c3 c4 h2 ⊢ <;> simp_all
    | callShutdown =>
      cases ros <;> cases hpc : s.spc <;>
        simp [fstep, hpc, finalObs, finalOk, isCloseDone, isFinalRefreshCall, finalRetOf, shutRetOf, List.filterMap_cons]
          at c1 c2 c3 c4 h2 ⊢ <;> simp_all
    | newRet c =>
      cases c with
      | loop => simp [Act.loopSide] at hl
      | shutdown =>
        cases ros <;> cases hpc : s.spc <;>
          simp [fstep, hpc, finalObs, finalOk, isCloseDone, isFinalRefreshCall, finalRetOf, shutRetOf, List.filterMap_cons]
            at c1 c2 c3 c4 h2 ⊢ <;> simp_all
    | refreshRet c e =>
      cases c with
      | loop => simp [Act.loopSide] at hl
      | shutdown =>
        cases ros <;> cases hpc : s.spc <;>
          simp [fstep, hpc, finalObs, finalOk, isCloseDone, isFinalRefreshCall, finalRetOf, shutRetOf, List.filterMap_cons]
            at c1 c2 c3 c4 h2 ⊢ <;> simp_all

/-! ## Small facts used by the theorems -/

theorem win_le_one (s : FSt) : win s ≤ 1 := by
  simp only [win]; cases s.lpc <;> simp [winL]

theorem rank_le (l : LPc) : rank l ≤ 11 := by
  cases l <;> simp [rank]

theorem pendT_le_one (s : FSt) : pendT s ≤ 1 := by
  simp only [pendT]; cases s.lpc <;> simp [pendTL]

theorem pendE_len (s : FSt) : (pendE s).length ≤ 1 := by
  simp only [pendE]; cases s.lpc <;> simp [pendEL]; split <;> simp

/-- the step that closes `done` does not move the loop goroutine -/
theorem closeDone_frame (ros : Bool) (s : FSt) (a : Act)
    (h : (fstep ros s a).2 = some .closeDone) : (fstep ros s a).1.lpc = s.lpc := by
  cases ros <;> step_cases s a =>
    simp [fstep, hpc] at h ⊢ <;> (try split at h) <;> simp_all

/-- a property of single events holds for every event of every run -/
theorem run_all (ros : Bool) (P : FEv → Prop)
    (h : ∀ s a e, (fstep ros s a).2 = some e → P e) :
    ∀ acts s e, e ∈ ftrace ros s acts → P e := by
  intro acts
  induction acts with
  | nil => intro s e he; simp [ftrace] at he
  | cons a as ih =>
    intro s e he
    simp only [ftrace, List.mem_append] at he
    rcases he with he | he
    · cases hev : (fstep ros s a).2 with
      | none => simp [hev] at he
      | some e' =>
        simp [hev] at he
        subst he
        exact h s a _ hev
    · exact ih _ e he

/-- the context each goroutine hands to the context constructor -/
def callerCtx : Caller → Ctx
  | .loop => .start
  | .shutdown => .shutdown

theorem refreshCall_ctx_step (ros : Bool) (s : FSt) (a : Act) (e : FEv)
    (h : (fstep ros s a).2 = some e) :
    ∀ c ctx, e = FEv.refreshCall c ctx → ctx = .cons (callerCtx c) := by
  intro c ctx he
  subst he
  cases ros <;> step_cases s a =>
    simp [fstep, hpc] at h <;> (try split at h) <;> (try simp_all) <;> (try (obtain ⟨rfl, rfl⟩ := h; rfl))

end GolibsVerif.C18
