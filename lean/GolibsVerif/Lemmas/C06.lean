/-
C06 — lemmas: soundness of the reflective checker (DESIGN.md Appendix A), correctness of
`prefixF` for every prefix, byte/number conversions, dispatch.
-/
import GolibsVerif.Spec.C06

namespace GolibsVerif.C06

namespace F

theorem eval_mkAnd (ip : Nat → Nat) (a b : F) : eval ip (mkAnd a b) = (eval ip a && eval ip b) := by
  unfold mkAnd; split <;> simp [eval]

theorem eval_mkOr (ip : Nat → Nat) (a b : F) : eval ip (mkOr a b) = (eval ip a || eval ip b) := by
  unfold mkOr; split <;> simp [eval]

theorem eval_mkIte (ip : Nat → Nat) (c t e : F) :
    eval ip (mkIte c t e) = (if eval ip c then eval ip t else eval ip e) := by
  unfold mkIte; split
  · simp [eval]
  · simp [eval]
  · split
    · next h => subst h; simp
    · simp [eval]

theorem eval_ofBool (ip : Nat → Nat) (b : Bool) : eval ip (ofBool b) = b := by
  cases b <;> simp [ofBool, eval]

theorem eval_subst (ip : Nat → Nat) (k : Nat) (f : F) :
    eval ip (subst k (ip k) f) = eval ip f := by
  induction f with
  | atom i m v =>
    unfold subst; split
    · next h => subst h; simp [eval, eval_ofBool]
    · rfl
  | ge i c =>
    unfold subst; split
    · next h => subst h; simp [eval, eval_ofBool]
    · rfl
  | and a b iha ihb => simp [subst, eval_mkAnd, eval, iha, ihb]
  | or a b iha ihb => simp [subst, eval_mkOr, eval, iha, ihb]
  | ite c t e ihc iht ihe => simp [subst, eval_mkIte, eval, ihc, iht, ihe]
  | _ => rfl

/-- Soundness of the checker: if `check` answers `true`, the two formulas agree on every
vector of bytes. -/
theorem check_sound : ∀ (n k : Nat) (f g : F), check n k f g = true →
    ∀ ip : Nat → Nat, (∀ i, ip i < 256) → eval ip f = eval ip g := by
  intro n
  induction n with
  | zero => intro k f g h ip _; simp [check] at h; subst h; rfl
  | succ n ih =>
    intro k f g h ip hip
    unfold check at h
    split at h
    · next hfg => subst hfg; rfl
    · split at h
      · exact ih _ _ _ h ip hip
      · rw [List.all_eq_true] at h
        have hmem : (subst k (ip k) f, subst k (ip k) g) ∈
            (((List.range 256).map fun x => (subst k x f, subst k x g)).eraseDups) := by
          rw [List.mem_eraseDups]
          exact List.mem_map.2 ⟨ip k, List.mem_range.2 (hip k), rfl⟩
        simpa [eval_subst] using ih _ _ _ (h _ hmem) ip hip

theorem eval_anyF (ip : Nat → Nat) (fs : List F) : eval ip (anyF fs) = fs.any (eval ip) := by
  induction fs with
  | nil => rfl
  | cons f fs ih => simp [anyF, eval, ih]

/-- a validated counterexample really is one -/
theorem cexVec_sound (w : Nat) (f g : F) (v : List Nat) (h : cexVec w f g = some v) :
    eval (ipOf v) f ≠ eval (ipOf v) g := by
  unfold cexVec at h
  split at h
  · simp at h
  · simp only at h
    split at h
    · next hne =>
      simp at h; subst h
      simpa using hne
    · simp at h

end F

/-! ### numbers and bytes -/

theorem beNat_lt (xs : List Nat) (h : ∀ b ∈ xs, b < 256) : beNat xs < 2 ^ (8 * xs.length) := by
  induction xs with
  | nil => simp [beNat]
  | cons x xs ih =>
    have hx : x < 256 := h x (by simp)
    have ih' := ih (fun b hb => h b (by simp [hb]))
    simp only [beNat, List.length_cons]
    have : 2 ^ (8 * (xs.length + 1)) = 256 * 2 ^ (8 * xs.length) := by
      rw [Nat.mul_add, Nat.pow_add]; simp [Nat.mul_comm]
    rw [this]
    have : x * 2 ^ (8 * xs.length) ≤ 255 * 2 ^ (8 * xs.length) := Nat.mul_le_mul_right _ (by omega)
    omega

theorem toBytes_length (w n : Nat) : (toBytes w n).length = w := by
  induction w with
  | zero => rfl
  | succ w ih => simp [toBytes, ih]

theorem toBytes_lt (w n : Nat) : ∀ b ∈ toBytes w n, b < 256 := by
  induction w with
  | zero => simp [toBytes]
  | succ w ih =>
    intro b hb
    simp only [toBytes, List.mem_cons] at hb
    rcases hb with rfl | hb
    · exact Nat.mod_lt _ (by decide)
    · exact ih b hb

theorem beNat_toBytes (w n : Nat) : beNat (toBytes w n) = n % 2 ^ (8 * w) := by
  induction w with
  | zero => simp [toBytes, beNat, Nat.mod_one]
  | succ w ih =>
    simp only [toBytes, beNat, toBytes_length, ih]
    have : 2 ^ (8 * (w + 1)) = 2 ^ (8 * w) * 256 := by
      rw [Nat.mul_add, Nat.pow_add]
    rw [this, Nat.mod_mul]
    rw [Nat.mul_comm (n / 2 ^ (8 * w) % 256)]
    omega

theorem beNat_toBytes_of_lt (w n : Nat) (h : n < 2 ^ (8 * w)) : beNat (toBytes w n) = n := by
  rw [beNat_toBytes, Nat.mod_eq_of_lt h]

/-! ### the formula of a prefix -/

/-- masking with the `r` leading bits of a byte = clearing the `8-r` low bits -/
theorem land_leadMask : ∀ r : Fin 8, ∀ b : Fin 256, 0 < r.val →
    b.val &&& leadMask r.val = b.val / 2 ^ (8 - r.val) * 2 ^ (8 - r.val) := by
  decide +kernel

theorem land_leadMask_eq_iff (r x p : Nat) (hr0 : 0 < r) (hr : r < 8) (hx : x < 256) (hp : p < 256) :
    (x &&& leadMask r) = (p &&& leadMask r) ↔ x / 2 ^ (8 - r) = p / 2 ^ (8 - r) := by
  have h1 := land_leadMask ⟨r, hr⟩ ⟨x, hx⟩ hr0
  have h2 := land_leadMask ⟨r, hr⟩ ⟨p, hp⟩ hr0
  simp only at h1 h2
  rw [h1, h2]
  exact Nat.mul_left_inj (Nat.pos_iff_ne_zero.1 (Nat.two_pow_pos _))

/-- dividing `x·2^(8L) + a` (`a < 2^(8L)`) by `2^k`, `k ≤ 8L`: the high byte is untouched -/
theorem split_div_low (x a L k : Nat) (hk : k ≤ 8 * L) :
    (x * 2 ^ (8 * L) + a) / 2 ^ k = x * 2 ^ (8 * L - k) + a / 2 ^ k := by
  have : 2 ^ (8 * L) = 2 ^ (8 * L - k) * 2 ^ k := by rw [← Nat.pow_add]; congr 1; omega
  rw [this, ← Nat.mul_assoc, Nat.add_comm, Nat.add_mul_div_right _ _ (Nat.two_pow_pos k), Nat.add_comm]

/-- dividing by `2^(8L+s)`: only the high byte matters -/
theorem split_div_high (x a L s : Nat) (ha : a < 2 ^ (8 * L)) :
    (x * 2 ^ (8 * L) + a) / 2 ^ (8 * L + s) = x / 2 ^ s := by
  rw [Nat.pow_add, ← Nat.div_div_eq_div_mul]
  congr 1
  rw [Nat.add_comm, Nat.add_mul_div_right _ _ (Nat.two_pow_pos _), Nat.div_eq_of_lt ha, Nat.zero_add]

/-- mixed-radix uniqueness -/
theorem radix_eq_iff (x p a b M : Nat) (ha : a < M) (hb : b < M) :
    x * M + a = p * M + b ↔ x = p ∧ a = b := by
  constructor
  · intro h
    have hM : 0 < M := by omega
    have h1 : (x * M + a) / M = x := by
      rw [Nat.add_comm, Nat.add_mul_div_right _ _ hM, Nat.div_eq_of_lt ha, Nat.zero_add]
    have h2 : (p * M + b) / M = p := by
      rw [Nat.add_comm, Nat.add_mul_div_right _ _ hM, Nat.div_eq_of_lt hb, Nat.zero_add]
    have hxp : x = p := by rw [← h1, ← h2, h]
    subst hxp
    exact ⟨rfl, by omega⟩
  · rintro ⟨rfl, rfl⟩; rfl

theorem prefixFAux_correct (ps : List Nat) : ∀ (xs : List Nat) (i rem : Nat) (ip : Nat → Nat),
    xs.length = ps.length → (∀ b ∈ xs, b < 256) → (∀ b ∈ ps, b < 256) → rem ≤ 8 * ps.length →
    (∀ j (h : j < xs.length), ip (i + j) = xs[j]) →
    F.eval ip (prefixFAux i ps rem) =
      decide (beNat xs / 2 ^ (8 * xs.length - rem) = beNat ps / 2 ^ (8 * ps.length - rem)) := by
  induction ps with
  | nil =>
    intro xs i rem ip hlen _ _ hrem _
    have : xs = [] := List.length_eq_zero_iff.1 (by simpa using hlen)
    subst this
    simp [prefixFAux, F.eval]
  | cons p ps ih =>
    intro xs i rem ip hlen hxs hps hrem hip
    match xs, hlen with
    | x :: xs, hlen =>
      have hlen' : xs.length = ps.length := by simpa using hlen
      have hx : x < 256 := hxs x (by simp)
      have hp : p < 256 := hps p (by simp)
      have hxs' : ∀ b ∈ xs, b < 256 := fun b hb => hxs b (by simp [hb])
      have hps' : ∀ b ∈ ps, b < 256 := fun b hb => hps b (by simp [hb])
      have hip0 : ip i = x := by
        have h0 := hip 0 (by simp)
        rw [Nat.add_zero] at h0
        exact h0
      have ha := beNat_lt xs hxs'
      have hb := beNat_lt ps hps'
      simp only [List.length_cons] at hrem
      unfold prefixFAux
      simp only [beNat, List.length_cons, hlen']
      rw [hlen'] at ha
      split
      · next h8 =>
        -- a whole byte, then the rest
        have hip' : ∀ j (h : j < xs.length), ip (i + 1 + j) = xs[j] := by
          intro j hj
          have := hip (j + 1) (by simp; omega)
          simpa [Nat.add_assoc, Nat.add_comm 1 j] using this
        have ihh := ih xs (i + 1) (rem - 8) ip hlen' hxs' hps' (by omega) hip'
        have hk : 8 * (ps.length + 1) - rem = 8 * ps.length - (rem - 8) := by omega
        have hk' : 8 * ps.length - (rem - 8) ≤ 8 * ps.length := by omega
        simp only [F.eval, ihh, hip0, hlen']
        rw [hk, split_div_low _ _ _ _ hk', split_div_low _ _ _ _ hk']
        have hM : ∀ a, a < 2 ^ (8 * ps.length) →
            a / 2 ^ (8 * ps.length - (rem - 8)) < 2 ^ (8 * ps.length - (8 * ps.length - (rem - 8))) := by
          intro a h
          rw [Nat.div_lt_iff_lt_mul (Nat.two_pow_pos _), ← Nat.pow_add]
          have : 8 * ps.length - (8 * ps.length - (rem - 8)) + (8 * ps.length - (rem - 8)) = 8 * ps.length := by omega
          rw [this]; exact h
        have hx255 : x &&& 255 = x := by
          have : x &&& (2 ^ 8 - 1) = x % 2 ^ 8 := Nat.and_two_pow_sub_one_eq_mod x 8
          simp at this; omega
        rw [hx255]
        rw [Bool.eq_iff_iff]
        simp only [Bool.and_eq_true, beq_iff_eq, decide_eq_true_eq]
        rw [radix_eq_iff _ _ _ _ _ (hM _ ha) (hM _ hb)]
      · next h8 =>
        split
        · next h0 =>
          subst h0
          have h1 := beNat_lt (x :: xs) hxs
          have h2 := beNat_lt (p :: ps) hps
          simp only [beNat, List.length_cons, hlen'] at h1 h2
          simp [F.eval, Nat.div_eq_of_lt h1, Nat.div_eq_of_lt h2]
        · next h0 =>
          have hk : 8 * (ps.length + 1) - rem = 8 * ps.length + (8 - rem) := by omega
          rw [hk, split_div_high _ _ _ _ ha, split_div_high _ _ _ _ hb]
          simp only [F.eval, hip0]
          have hpm : p &&& leadMask rem < 256 := Nat.lt_of_le_of_lt Nat.and_le_left hp
          rw [Bool.eq_iff_iff]
          simp only [beq_iff_eq, decide_eq_true_eq]
          exact land_leadMask_eq_iff rem x p (by omega) (by omega) hx hp

/-- **The formula of a prefix is bit-level containment**, for every prefix of either family
and every address: `prefixF p` holds on the bytes of `n` iff the `p.bits` leading bits of the
big-endian number `n` are those of the prefix address. -/
theorem prefixF_correct (w : Nat) (p : Pfx) (n : Nat) (hp : p.wf w = true) (hn : n < 2 ^ (8 * w)) :
    F.eval (ipOf (toBytes w n)) (prefixF p) = p.containsB w n := by
  simp only [Pfx.wf, Bool.and_eq_true, beq_iff_eq, List.all_eq_true, decide_eq_true_eq] at hp
  obtain ⟨⟨hlen, hb⟩, hbits⟩ := hp
  have h := prefixFAux_correct p.bytes (toBytes w n) 0 p.bits (ipOf (toBytes w n))
    (by rw [toBytes_length, hlen]) (toBytes_lt w n) hb (by rw [hlen]; exact hbits)
    (by intro j hj; simp [ipOf, List.getD_eq_getElem?_getD, hj])
  rw [prefixF, h, toBytes_length, beNat_toBytes_of_lt w n hn, hlen]
  rfl

/-! ### from a passed check to the specification -/

theorem ipOf_lt (bs : List Nat) (h : ∀ b ∈ bs, b < 256) (i : Nat) : ipOf bs i < 256 := by
  unfold ipOf
  rw [List.getD_eq_getElem?_getD]
  cases hi : bs[i]? with
  | none => simp
  | some b => simpa using h b (List.mem_of_getElem? hi)

theorem containsB_iff (w : Nat) (p : Pfx) (n : Nat) : p.containsB w n = true ↔ p.contains w n := by
  simp [Pfx.containsB, Pfx.contains]

instance (w : Nat) (p : Pfx) (n : Nat) : Decidable (p.contains w n) :=
  decidable_of_iff _ (containsB_iff w p n)

theorem mem_family (w : Nat) (doc : List Pfx) (p : Pfx) :
    p ∈ family w doc ↔ p ∈ doc ∧ p.bytes.length = w := by
  simp [family]

/-- If the checker accepts `f` against the formula of the documented list, then `f` holds on
the bytes of an address exactly when the address lies in one of the documented networks of
that family. -/
theorem eval_iff_of_check (w : Nat) (f : F) (doc : List Pfx)
    (hc : F.check w 0 f (docF w doc) = true) (hwf : (family w doc).all (Pfx.wf w) = true)
    (n : Nat) (hn : n < 2 ^ (8 * w)) :
    f.eval (ipOf (toBytes w n)) = true ↔ ∃ p ∈ doc, p.bytes.length = w ∧ p.contains w n := by
  rw [F.check_sound w 0 f _ hc _ (ipOf_lt _ (toBytes_lt w n))]
  rw [docF, F.eval_anyF, List.any_map, List.any_eq_true]
  rw [List.all_eq_true] at hwf
  constructor
  · rintro ⟨p, hp, he⟩
    have hpd := (mem_family w doc p).1 hp
    refine ⟨p, hpd.1, hpd.2, ?_⟩
    rw [← containsB_iff, ← prefixF_correct w p n (hwf p hp) hn]
    exact he
  · rintro ⟨p, hpd, hl, hcn⟩
    have hp := (mem_family w doc p).2 ⟨hpd, hl⟩
    refine ⟨p, hp, ?_⟩
    show F.eval (ipOf (toBytes w n)) (prefixF p) = true
    rw [prefixF_correct w p n (hwf p hp) hn, containsB_iff]
    exact hcn

/-! ### dispatch -/

theorem Addr.unmap_of_ne (x : Addr) (h : x.kind ≠ .v4in6) : x.unmap = x := by
  cases x with
  | v6 a z =>
    by_cases h' : a.toNat / 2 ^ 32 = 0xffff
    · simp [Addr.kind, h'] at h
    · simp [Addr.unmap, h']
  | _ => rfl

theorem Addr.kind_unmap_of (x : Addr) (h : x.kind = .v4in6) : x.unmap.kind = .v4 := by
  cases x with
  | v6 a z =>
    by_cases h' : a.toNat / 2 ^ 32 = 0xffff
    · simp [Addr.unmap, h', Addr.kind]
    · simp [Addr.kind, h'] at h
  | _ => simp [Addr.kind] at h

theorem D.eval_reach (d : D) : ∀ x : Addr, d.eval x = (d.reach x.kind).eval x := by
  induction d with
  | ite c t e iht ihe =>
    intro x
    simp only [D.eval, D.reach]
    split
    · exact iht x
    · exact ihe x
  | unmap d ih =>
    intro x
    simp only [D.eval, D.reach]
    split
    · next h => rw [D.eval, ih x.unmap, Addr.kind_unmap_of x h]
    · next h => rw [Addr.unmap_of_ne x h]; exact ih x
  | _ => intro x; rfl

/-- the obligations a regenerated dispatcher and its two byte predicates must meet -/
structure Obligations (d : D) (f4 f6 : F) (doc : List Pfx) : Prop where
  invalid : d.reach .invalid = .ret false
  v4 : d.reach .v4 = .on4 f4
  v4in6 : d.reach .v4in6 = .on16 f6
  v6 : d.reach .v6 = .on16 f6
  check4 : F.check 4 0 f4 (docF 4 doc) = true
  check6 : F.check 16 0 f6 (docF 16 doc) = true
  wf4 : (family 4 doc).all (Pfx.wf 4) = true
  wf6 : (family 16 doc).all (Pfx.wf 16) = true

theorem Obligations.eval_eq {d : D} {f4 f6 : F} {doc : List Pfx} (o : Obligations d f4 f6 doc)
    (x : Addr) : ∃ b, d.eval x = .ok b ∧ (b = true ↔ x.InDoc doc) := by
  rw [D.eval_reach d x]
  cases x with
  | invalid => exact ⟨false, by simp [Addr.kind, o.invalid, D.eval], by simp [Addr.InDoc]⟩
  | v4 a =>
    refine ⟨f4.eval (ipOf (toBytes 4 a.toNat)), by simp [Addr.kind, o.v4, D.eval, Addr.as4, Except.map], ?_⟩
    exact eval_iff_of_check 4 f4 doc o.check4 o.wf4 a.toNat a.isLt
  | v6 a z =>
    refine ⟨f6.eval (ipOf (toBytes 16 a.toNat)), ?_, ?_⟩
    · simp only [Addr.kind]
      split <;> simp [o.v4in6, o.v6, D.eval, Addr.as16]
    · exact eval_iff_of_check 16 f6 doc o.check6 o.wf6 a.toNat a.isLt

theorem Obligations.iff {d : D} {f4 f6 : F} {doc : List Pfx} (o : Obligations d f4 f6 doc)
    (x : Addr) : (d.eval x = .ok true ↔ x.InDoc doc) ∧ (d.eval x = .ok false ↔ ¬ x.InDoc doc) := by
  obtain ⟨b, hb, hiff⟩ := o.eval_eq x
  rw [hb]
  cases b <;> simp_all

end GolibsVerif.C06
