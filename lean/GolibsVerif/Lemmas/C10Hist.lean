/-
C10 — soundness of the certificate checker of `Model/C10Hist.lean`: a checked certificate is a
linearization in the sense of `Spec/C10.lean`.
-/
import GolibsVerif.Model.C10Hist
import GolibsVerif.Lemmas.C10

namespace GolibsVerif.C10
open GolibsVerif.C09

/-- the register an association list stands for -/
def regOf (m : AReg) : Reg := fun k => aLookup m k

theorem mem_iff_aLookup {l : AReg} (hn : (l.map (·.1)).Nodup) (k v : Bytes) :
    (k, v) ∈ l ↔ aLookup l k = some v := by
  induction l with
  | nil => simp [aLookup]
  | cons e rest ih =>
    obtain ⟨ek, ev⟩ := e
    simp only [List.map_cons, List.nodup_cons] at hn
    by_cases hk : ek = k
    · subst hk
      have hnot : ∀ v', (ek, v') ∉ rest := fun v' hm => hn.1 (List.mem_map.2 ⟨_, hm, rfl⟩)
      simp only [List.mem_cons, Prod.mk.injEq, true_and, aLookup, List.find?_cons, decide_true,
        Option.map_some, Option.some.injEq]
      constructor
      · rintro (h | h)
        · exact h.symm
        · exact absurd h (hnot v)
      · intro h; exact Or.inl h.symm
    · have hk' : ¬ k = ek := fun hc => hk hc.symm
      have := ih hn.2
      simp only [aLookup] at this
      simp [aLookup, hk, hk', this]

theorem nodup_aRemove {l : AReg} (k : Bytes) (hn : (l.map (·.1)).Nodup) :
    ((aRemove l k).map (·.1)).Nodup :=
  hn.sublist (List.Sublist.map _ List.filter_sublist)

theorem nodup_aRemove_append {l : AReg} (k v : Bytes) (hn : (l.map (·.1)).Nodup) :
    ((aRemove l k ++ [(k, v)]).map (·.1)).Nodup := by
  simp only [List.map_append, List.map_cons, List.map_nil]
  rw [List.nodup_append]
  refine ⟨nodup_aRemove k hn, by simp, ?_⟩
  intro a ha b hb
  simp only [List.mem_singleton] at hb; subst hb
  obtain ⟨x, hx, rfl⟩ := List.mem_map.1 ha
  simpa [aRemove] using (List.mem_filter.1 hx).2

theorem regOf_remove (m : AReg) (k : Bytes) : regOf (aRemove m k) = (regOf m).erase k := by
  funext q
  simp only [regOf, Reg.erase, aLookup_remove]
  by_cases hk : k = q
  · subst hk; simp
  · have : ¬ q = k := fun hc => hk hc.symm
    simp [hk, this]

theorem regOf_put (m : AReg) (k v : Bytes) :
    regOf (aRemove m k ++ [(k, v)]) = (regOf m).put k v := by
  funext q
  simp only [regOf, Reg.put, aLookup_remove_append]
  by_cases hk : k = q
  · subst hk; simp
  · have : ¬ q = k := fun hc => hk hc.symm
    simp [hk, this]

theorem applyOp_sound {c : Conf} {m m' : AReg} {x : LinOp} {st : Bool}
    (hn : (m.map (·.1)).Nodup) (h : applyOp c m x st = some m') :
    (m'.map (·.1)).Nodup ∧ SeqStep c (regOf m) x.op x.res (regOf m') := by
  obtain ⟨id, op, res⟩ := x
  cases op <;> cases res <;> simp only [applyOp] at h <;> try (cases h; done)
  · next k v b =>
    split at h
    · split at h
      · next hb =>
        injection h with h; subst h
        refine ⟨nodup_aRemove_append k v hn, ?_⟩
        rw [regOf_put, hb]
        exact SeqStep.store _ _ _
      · cases h
    · split at h
      · next hb =>
        injection h with h; subst h; subst hb
        exact ⟨hn, SeqStep.refuse _ _ _⟩
      · cases h
  · next k r =>
    split at h
    · next hr =>
      injection h with h; subst h; subst hr
      exact ⟨hn, SeqStep.get _ _⟩
    · cases h
  · next k =>
    injection h with h; subst h
    refine ⟨nodup_aRemove k hn, ?_⟩
    rw [regOf_remove]; exact SeqStep.del _ _
  · injection h with h; subst h
    exact ⟨by simp, SeqStep.clear _⟩
  · next stt =>
    split at h
    · next hs =>
      injection h with h; subst h
      exact ⟨hn, SeqStep.stats _ m _ ⟨hn, fun k v => mem_iff_aLookup hn k v⟩ hs.1 hs.2.1 hs.2.2.1 hs.2.2.2⟩
    · cases h

theorem runCert_sound {c : Conf} : ∀ (cert : List CertStep) {m m' : AReg},
    (m.map (·.1)).Nodup → runCert c m cert = some m' → Run c (regOf m) (linOf cert) (regOf m') := by
  intro cert
  induction cert with
  | nil => intro m m' _ h; simp only [runCert] at h; injection h with h; subst h; exact Run.nil _
  | cons st rest ih =>
    intro m m' hn h
    cases st with
    | drop k =>
      simp only [runCert] at h
      have := ih (nodup_aRemove k hn) h
      rw [regOf_remove] at this
      exact Run.drop k this
    | op x stored =>
      simp only [runCert] at h
      split at h
      · next m1 h1 =>
        obtain ⟨hn1, hstep⟩ := applyOp_sound hn h1
        exact Run.op hstep (ih hn1 h)
      · cases h

theorem beforeB_sound : ∀ {l : List Nat} {a b : Nat}, beforeB l a b = true → Before l a b := by
  intro l
  induction l with
  | nil => intro a b h; simp [beforeB] at h
  | cons x rest ih =>
    intro a b h
    simp only [beforeB] at h
    split at h
    · next hx =>
      subst hx
      have hb : b ∈ rest := by simpa using h
      obtain ⟨l2, l3, rfl⟩ := List.append_of_mem hb
      exact ⟨[], l2, l3, by simp⟩
    · obtain ⟨l1, l2, l3, rfl⟩ := ih h
      exact ⟨x :: l1, l2, l3, by simp⟩

theorem rtPairs_complete {h : History} {a b : Nat} (hr : RtBefore h a b) : (a, b) ∈ rtPairs h := by
  obtain ⟨h1, h2, h3, r, op, rfl⟩ := hr
  induction h1 with
  | nil =>
    simp only [List.nil_append, List.cons_append, rtPairs]
    apply List.mem_append_left
    rw [List.mem_filterMap]
    exact ⟨.inv b op, by simp, rfl⟩
  | cons e rest ih =>
    cases e with
    | inv id op' => simpa [rtPairs] using ih
    | ret id r' =>
      simp only [List.cons_append, rtPairs]
      exact List.mem_append_right _ (by simpa using ih)

/-- **a checked certificate is a linearization** -/
theorem checkCert_sound {c : Conf} {h : History} {cert : List CertStep}
    (hc : checkCert c h cert = true) : Linearizable c h := by
  simp only [checkCert, Bool.and_eq_true, decide_eq_true_eq, List.all_eq_true] at hc
  obtain ⟨⟨⟨⟨hnd, hlin⟩, hret⟩, hrt⟩, hrun⟩ := hc
  refine ⟨linOf cert, hnd, ?_, ?_, ?_, ?_⟩
  · intro x hx
    obtain ⟨h1, h2⟩ := hlin x hx
    refine ⟨by simpa using h1, ?_⟩
    intro r hr
    have := h2 _ hr
    simpa [retOk] using this
  · intro id r hr
    have := hret _ hr
    simpa [retIn] using this
  · intro a b hab hb
    have := hrt _ (rtPairs_complete hab)
    simp only [Bool.or_eq_true, Bool.not_eq_true'] at this
    rcases this with h1 | h1
    · have : (List.map (fun x => x.id) (linOf cert)).contains b = true := by simpa using hb
      rw [this] at h1; cases h1
    · exact beforeB_sound h1
  · cases hm : runCert c [] cert with
    | none => rw [hm] at hrun; cases hrun
    | some m' =>
      have := runCert_sound cert (m := []) (by simp) hm
      have he : regOf [] = Reg.empty := rfl
      rw [he] at this
      exact ⟨regOf m', this⟩

theorem acceptHist_checks {c : Conf} {h : History} (ha : acceptHist c h = true) :
    ∃ cert, checkCert c h cert = true := by
  unfold acceptHist at ha
  simp only at ha
  split at ha
  · next cert _ => exact ⟨cert, ha⟩
  · cases ha

end GolibsVerif.C10
