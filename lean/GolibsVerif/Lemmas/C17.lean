/-
C17 — the inductive invariant of the OnceConstructor transition system and its preservation.
-/
import GolibsVerif.Model.C17
import GolibsVerif.Spec.C17

namespace GolibsVerif.C17

variable {K V : Type} [DecidableEq K]

/-- the invocation has executed its `Load` hit / `LoadOrStore` -/
def PC.afterLos : PC K V → Bool
  | .recv .. | .construct .. | .inCtor .. | .close .. | .readCached .. | .done .. => true
  | _ => false

/-- the loader the invocation is running -/
def PC.uses : PC K V → Option (K × Nat)
  | .recv k l | .construct k l | .inCtor k l | .close k l | .readCached k l => some (k, l)
  | _ => none

structure Inv (s : OState K V) : Prop where
  storedWf : ∀ k l, s.stored k = some l → (s.pc l).key = some k ∧ (s.pc l).afterLos = true
  usesStored : ∀ t k l, (s.pc t).uses = some (k, l) → s.stored k = some l
  fresh : ∀ t, (s.pc t).afterLos = false → s.taken t = 0
  atSend : ∀ t k, s.pc t = .send k → s.chan t = ⟨0, false⟩ ∧ s.cached t = none
  atLos : ∀ t k, s.pc t = .los k → s.chan t = ⟨1, false⟩ ∧ s.cached t = none
  token : ∀ k l, s.stored k = some l → s.taken l + (s.chan l).buf = 1
  full : ∀ k l, s.stored k = some l → (s.chan l).buf = 1 →
    (s.chan l).closed = false ∧ s.ctorCalls k = 0 ∧ s.cached l = none
  closed : ∀ k l, s.stored k = some l → (s.chan l).closed = true →
    s.ctorCalls k = 1 ∧ (s.cached l).isSome = true
  holder : ∀ k l, s.stored k = some l → (s.chan l).buf = 0 → (s.chan l).closed = false →
    ∃ h, (s.pc h).holds = some (k, l)
  holds : ∀ t k l, (s.pc t).holds = some (k, l) → (s.chan l).buf = 0 ∧ (s.chan l).closed = false
  holdsUnique : ∀ t t' k l, (s.pc t).holds = some (k, l) → (s.pc t').holds = some (k, l) → t = t'
  atConstruct : ∀ t k l, s.pc t = .construct k l → s.ctorCalls k = 0 ∧ s.cached l = none
  atInCtor : ∀ t k l, s.pc t = .inCtor k l → s.ctorCalls k = 1 ∧ s.cached l = none
  atClose : ∀ t k l, s.pc t = .close k l → s.ctorCalls k = 1 ∧ (s.cached l).isSome = true
  unstored : ∀ k, s.stored k = none → s.ctorCalls k = 0
  atRead : ∀ t k l, s.pc t = .readCached k l → (s.chan l).closed = true
  atDone : ∀ t k r, s.pc t = .done k r →
    ∃ l, s.stored k = some l ∧ (s.chan l).closed = true ∧ r = s.cached l
  noPanic : ∀ t k, s.pc t ≠ .panicked k
  takenStored : ∀ l, (∀ k, s.stored k ≠ some l) → s.taken l = 0

theorem inv_init : Inv (OState.init : OState K V) := by
  constructor <;> simp [OState.init, PC.key, PC.afterLos, PC.uses, PC.holds]


macro "inv_auto" : tactic =>
  `(tactic| (simp only [] <;> intros <;> grind [upd_apply, PC.key, PC.afterLos, PC.uses, PC.holds]))

/-- `holder` clause when the step does not create or retire a holder -/
macro "holder_old" h9:ident : tactic =>
  `(tactic| (
    intro k' l' hs hb hc
    obtain ⟨w, hw⟩ := $h9 k' l' (by grind [upd_apply]) (by grind [upd_apply]) (by grind [upd_apply])
    exact ⟨w, by grind [upd_apply, PC.holds]⟩))

/-- `atDone` clause when the step creates no `done` program counter -/
macro "done_old" h17:ident : tactic =>
  `(tactic| (
    intro t' k' r hp
    obtain ⟨l', h1', h2', h3'⟩ := $h17 t' k' r (by grind [upd_apply])
    exact ⟨l', by grind [upd_apply], by grind [upd_apply], by grind [upd_apply]⟩))

omit [DecidableEq K] in
theorem holds_uses {p : PC K V} {x : K × Nat} (h : p.holds = some x) : p.uses = some x := by
  cases p <;> simp_all [PC.holds, PC.uses]

omit [DecidableEq K] in
theorem Inv.holdsStored {s : OState K V} (h : Inv s) :
    ∀ t k l, (s.pc t).holds = some (k, l) → s.stored k = some l :=
  fun t k l hh => h.usesStored t k l (holds_uses hh)

omit [DecidableEq K] in
theorem Inv.atUses {s : OState K V} (h : Inv s) :
    (∀ t k l, s.pc t = .recv k l → s.stored k = some l) ∧
    (∀ t k l, s.pc t = .readCached k l → s.stored k = some l) ∧
    (∀ t k l, s.pc t = .construct k l → s.stored k = some l) ∧
    (∀ t k l, s.pc t = .inCtor k l → s.stored k = some l) ∧
    (∀ t k l, s.pc t = .close k l → s.stored k = some l) := by
  refine ⟨?_, ?_, ?_, ?_, ?_⟩ <;> intro t k l hp <;> exact h.usesStored t k l (by simp [hp, PC.uses])

theorem inv_call {s : OState K V} {t : Nat} {k : K} (h : Inv s) (hpc : s.pc t = .idle) :
    Inv ({ s with pc := upd s.pc t (.load k) } : OState K V) := by
  have hhs := h.holdsStored
  have ⟨u1,u2,u3,u4,u5⟩ := h.atUses
  have ⟨h1,h2,h3,h4,h5,h6,h7,h8,h9,h10,h11,h12,h13,h14,h15,h16,h17,h18,h19⟩ := h
  constructor
  case holder => holder_old h9
  case atDone => done_old h17
  all_goals inv_auto

theorem inv_loadHit {s : OState K V} {t : Nat} {k : K} {l : Nat} (h : Inv s) (hpc : s.pc t = .load k)
    (hst : s.stored k = some l) :
    Inv ({ s with pc := upd s.pc t (.recv k l) } : OState K V) := by
  have hhs := h.holdsStored
  have ⟨u1,u2,u3,u4,u5⟩ := h.atUses
  have ⟨h1,h2,h3,h4,h5,h6,h7,h8,h9,h10,h11,h12,h13,h14,h15,h16,h17,h18,h19⟩ := h
  constructor
  case holder => holder_old h9
  case atDone => done_old h17
  all_goals inv_auto

theorem inv_loadMiss {s : OState K V} {t : Nat} {k : K} (h : Inv s) (hpc : s.pc t = .load k) :
    Inv ({ s with pc := upd s.pc t (.mk k) } : OState K V) := by
  have hhs := h.holdsStored
  have ⟨u1,u2,u3,u4,u5⟩ := h.atUses
  have ⟨h1,h2,h3,h4,h5,h6,h7,h8,h9,h10,h11,h12,h13,h14,h15,h16,h17,h18,h19⟩ := h
  constructor
  case holder => holder_old h9
  case atDone => done_old h17
  all_goals inv_auto

/-- a thread before its `LoadOrStore` is not stored in the map -/
theorem not_stored_of_before {s : OState K V} (h : Inv s) {t : Nat} (hb : (s.pc t).afterLos = false) :
    ∀ k, s.stored k ≠ some t := by
  intro k hk
  have := (h.storedWf k t hk).2
  simp [hb] at this

theorem inv_mk {s : OState K V} {t : Nat} {k : K} (h : Inv s) (hpc : s.pc t = .mk k) :
    Inv ({ s with pc := upd s.pc t (.send k), chan := upd s.chan t ⟨0, false⟩,
                  cached := upd s.cached t none } : OState K V) := by
  have hns := not_stored_of_before h (t := t) (by simp [hpc, PC.afterLos])
  have hhs := h.holdsStored
  have ⟨u1,u2,u3,u4,u5⟩ := h.atUses
  have ⟨h1,h2,h3,h4,h5,h6,h7,h8,h9,h10,h11,h12,h13,h14,h15,h16,h17,h18,h19⟩ := h
  constructor
  case holder => holder_old h9
  case atDone => done_old h17
  all_goals inv_auto

theorem inv_send {s : OState K V} {t : Nat} {k : K} (h : Inv s) (hpc : s.pc t = .send k) :
    Inv ({ s with pc := upd s.pc t (.los k),
                  chan := upd s.chan t ⟨(s.chan t).buf + 1, false⟩ } : OState K V) := by
  have hns := not_stored_of_before h (t := t) (by simp [hpc, PC.afterLos])
  have hch := h.atSend t k hpc
  have hhs := h.holdsStored
  have ⟨u1,u2,u3,u4,u5⟩ := h.atUses
  have ⟨h1,h2,h3,h4,h5,h6,h7,h8,h9,h10,h11,h12,h13,h14,h15,h16,h17,h18,h19⟩ := h
  constructor
  case holder => holder_old h9
  case atDone => done_old h17
  all_goals inv_auto

theorem inv_losHit {s : OState K V} {t : Nat} {k : K} {l : Nat} (h : Inv s) (hpc : s.pc t = .los k)
    (hst : s.stored k = some l) :
    Inv ({ s with pc := upd s.pc t (.recv k l) } : OState K V) := by
  have hns := not_stored_of_before h (t := t) (by simp [hpc, PC.afterLos])
  have hhs := h.holdsStored
  have ⟨u1,u2,u3,u4,u5⟩ := h.atUses
  have ⟨h1,h2,h3,h4,h5,h6,h7,h8,h9,h10,h11,h12,h13,h14,h15,h16,h17,h18,h19⟩ := h
  constructor
  case holder => holder_old h9
  case atDone => done_old h17
  all_goals inv_auto

theorem inv_losMiss {s : OState K V} {t : Nat} {k : K} (h : Inv s) (hpc : s.pc t = .los k)
    (hst : s.stored k = none) :
    Inv ({ s with pc := upd s.pc t (.recv k t), stored := upd s.stored k (some t) } : OState K V) := by
  have hns := not_stored_of_before h (t := t) (by simp [hpc, PC.afterLos])
  have hch := h.atLos t k hpc
  have htk := h.fresh t (by simp [hpc, PC.afterLos])
  have hhs := h.holdsStored
  have ⟨u1,u2,u3,u4,u5⟩ := h.atUses
  have ⟨h1,h2,h3,h4,h5,h6,h7,h8,h9,h10,h11,h12,h13,h14,h15,h16,h17,h18,h19⟩ := h
  constructor
  case holder =>
    intro k' l' hs hb hc
    by_cases hk : k' = k
    · subst hk
      have : l' = t := by simpa using hs.symm
      subst this
      simp [hch.1] at hb
    · obtain ⟨w, hw⟩ := h9 k' l' (by grind [upd_apply]) (by grind [upd_apply]) (by grind [upd_apply])
      exact ⟨w, by grind [upd_apply, PC.holds]⟩
  case atDone =>
    intro t' k' r hp
    obtain ⟨l', h1', h2', h3'⟩ := h17 t' k' r (by grind [upd_apply])
    exact ⟨l', by grind [upd_apply], by grind [upd_apply], by grind [upd_apply]⟩
  case takenStored =>
    intro l hl
    apply h19 l
    intro k' hk'
    have := hl k'
    by_cases hkk : k' = k
    · subst hkk; simp [hst] at hk'
    · simp only [upd_apply, hkk, if_false] at this; exact this hk'
  all_goals inv_auto

theorem inv_recvOk {s : OState K V} {t : Nat} {k : K} {l : Nat} (h : Inv s) (hpc : s.pc t = .recv k l)
    (hb : 0 < (s.chan l).buf) :
    Inv ({ s with pc := upd s.pc t (.construct k l),
                  chan := upd s.chan l ⟨(s.chan l).buf - 1, (s.chan l).closed⟩,
                  taken := upd s.taken l (s.taken l + 1) } : OState K V) := by
  have hst := h.usesStored t k l (by simp [hpc, PC.uses])
  have htok := h.token k l hst
  have hb1 : (s.chan l).buf = 1 := by omega
  have hfull := h.full k l hst hb1
  have hkey : ∀ k', s.stored k' = some l → k' = k := by
    intro k' hk'
    have a := (h.storedWf k' l hk').1
    have b := (h.storedWf k l hst).1
    simp [a] at b; exact b
  have hnoh : ∀ t' k', (s.pc t').holds ≠ some (k', l) := by
    intro t' k' hh
    have := (h.holds t' k' l hh).1
    omega
  have hhs := h.holdsStored
  have ⟨u1,u2,u3,u4,u5⟩ := h.atUses
  have ⟨h1,h2,h3,h4,h5,h6,h7,h8,h9,h10,h11,h12,h13,h14,h15,h16,h17,h18,h19⟩ := h
  constructor
  case holder =>
    intro k' l' hs hb' hc
    by_cases hl : l' = l
    · subst hl
      have : k' = k := hkey k' hs
      subst this
      exact ⟨t, by simp [PC.holds]⟩
    · obtain ⟨w, hw⟩ := h9 k' l' hs (by grind [upd_apply]) (by grind [upd_apply])
      exact ⟨w, by grind [upd_apply, PC.holds]⟩
  case atDone => done_old h17
  all_goals inv_auto

theorem inv_recvClosed {s : OState K V} {t : Nat} {k : K} {l : Nat} (h : Inv s) (hpc : s.pc t = .recv k l)
    (hc : (s.chan l).closed = true) :
    Inv ({ s with pc := upd s.pc t (.readCached k l) } : OState K V) := by
  have hhs := h.holdsStored
  have ⟨u1,u2,u3,u4,u5⟩ := h.atUses
  have ⟨h1,h2,h3,h4,h5,h6,h7,h8,h9,h10,h11,h12,h13,h14,h15,h16,h17,h18,h19⟩ := h
  constructor
  case holder => holder_old h9
  case atDone => done_old h17
  all_goals inv_auto

theorem inv_ctorStart {s : OState K V} {t : Nat} {k : K} {l : Nat} (h : Inv s) (hpc : s.pc t = .construct k l) :
    Inv ({ s with pc := upd s.pc t (.inCtor k l),
                  ctorCalls := upd s.ctorCalls k (s.ctorCalls k + 1) } : OState K V) := by
  have hst := h.usesStored t k l (by simp [hpc, PC.uses])
  have hme := h.holds t k l (by simp [hpc, PC.holds])
  have hc0 := h.atConstruct t k l hpc
  have huniq : ∀ t' , (s.pc t').holds = some (k, l) → t' = t :=
    fun t' ht' => h.holdsUnique t' t k l ht' (by simp [hpc, PC.holds])
  have hhs := h.holdsStored
  have ⟨u1,u2,u3,u4,u5⟩ := h.atUses
  have ⟨h1,h2,h3,h4,h5,h6,h7,h8,h9,h10,h11,h12,h13,h14,h15,h16,h17,h18,h19⟩ := h
  constructor
  case holder =>
    intro k' l' hs hb' hc
    obtain ⟨w, hw⟩ := h9 k' l' hs hb' hc
    by_cases hwt : w = t
    · subst hwt
      rw [hpc] at hw
      simp only [PC.holds, Option.some.injEq, Prod.mk.injEq] at hw
      obtain ⟨rfl, rfl⟩ := hw
      exact ⟨w, by simp [PC.holds]⟩
    · exact ⟨w, by grind [upd_apply, PC.holds]⟩
  case atDone => done_old h17
  all_goals inv_auto

theorem inv_ctorEnd {s : OState K V} {t : Nat} {k : K} {l : Nat} {v : V} (h : Inv s)
    (hpc : s.pc t = .inCtor k l) :
    Inv ({ s with pc := upd s.pc t (.close k l), cached := upd s.cached l (some v) } : OState K V) := by
  have hst := h.usesStored t k l (by simp [hpc, PC.uses])
  have hme := h.holds t k l (by simp [hpc, PC.holds])
  have hc1 := (h.atInCtor t k l hpc).1
  have huniq : ∀ t' , (s.pc t').holds = some (k, l) → t' = t :=
    fun t' ht' => h.holdsUnique t' t k l ht' (by simp [hpc, PC.holds])
  have hkey : ∀ k', s.stored k' = some l → k' = k := by
    intro k' hk'
    have a := (h.storedWf k' l hk').1
    have b := (h.storedWf k l hst).1
    simp [a] at b; exact b
  have hhs := h.holdsStored
  have ⟨u1,u2,u3,u4,u5⟩ := h.atUses
  have ⟨h1,h2,h3,h4,h5,h6,h7,h8,h9,h10,h11,h12,h13,h14,h15,h16,h17,h18,h19⟩ := h
  constructor
  case holder =>
    intro k' l' hs hb' hc
    obtain ⟨w, hw⟩ := h9 k' l' hs hb' hc
    by_cases hwt : w = t
    · subst hwt
      rw [hpc] at hw
      simp only [PC.holds, Option.some.injEq, Prod.mk.injEq] at hw
      obtain ⟨rfl, rfl⟩ := hw
      exact ⟨w, by simp [PC.holds]⟩
    · exact ⟨w, by grind [upd_apply, PC.holds]⟩
  case atDone =>
    intro t' k' r hp
    obtain ⟨l', h1', h2', h3'⟩ := h17 t' k' r (by grind [upd_apply])
    exact ⟨l', h1', h2', by grind [upd_apply]⟩
  all_goals inv_auto

theorem inv_close {s : OState K V} {t : Nat} {k : K} {l : Nat} (h : Inv s) (hpc : s.pc t = .close k l) :
    Inv ({ s with pc := upd s.pc t (.readCached k l),
                  chan := upd s.chan l ⟨(s.chan l).buf, true⟩ } : OState K V) := by
  have hst := h.usesStored t k l (by simp [hpc, PC.uses])
  have hme := h.holds t k l (by simp [hpc, PC.holds])
  have hc1 := h.atClose t k l hpc
  have huniq : ∀ t' , (s.pc t').holds = some (k, l) → t' = t :=
    fun t' ht' => h.holdsUnique t' t k l ht' (by simp [hpc, PC.holds])
  have hkey : ∀ k', s.stored k' = some l → k' = k := by
    intro k' hk'
    have a := (h.storedWf k' l hk').1
    have b := (h.storedWf k l hst).1
    simp [a] at b; exact b
  have hhs := h.holdsStored
  have ⟨u1,u2,u3,u4,u5⟩ := h.atUses
  have ⟨h1,h2,h3,h4,h5,h6,h7,h8,h9,h10,h11,h12,h13,h14,h15,h16,h17,h18,h19⟩ := h
  constructor
  case holder =>
    intro k' l' hs hb' hc
    have hl : l' ≠ l := by
      intro hl; subst hl; simp at hc
    obtain ⟨w, hw⟩ := h9 k' l' hs (by grind [upd_apply]) (by grind [upd_apply])
    exact ⟨w, by grind [upd_apply, PC.holds]⟩
  case atDone => done_old h17
  all_goals inv_auto

theorem inv_ret {s : OState K V} {t : Nat} {k : K} {l : Nat} (h : Inv s) (hpc : s.pc t = .readCached k l) :
    Inv ({ s with pc := upd s.pc t (.done k (s.cached l)) } : OState K V) := by
  have hst := h.usesStored t k l (by simp [hpc, PC.uses])
  have hcl := h.atRead t k l hpc
  have hhs := h.holdsStored
  have ⟨u1,u2,u3,u4,u5⟩ := h.atUses
  have ⟨h1,h2,h3,h4,h5,h6,h7,h8,h9,h10,h11,h12,h13,h14,h15,h16,h17,h18,h19⟩ := h
  constructor
  case holder => holder_old h9
  case atDone =>
    intro t' k' r hp
    by_cases htt : t' = t
    · subst htt
      simp at hp
      obtain ⟨rfl, rfl⟩ := hp
      exact ⟨l, hst, hcl, rfl⟩
    · exact h17 t' k' r (by simpa [upd_apply, htt] using hp)
  all_goals inv_auto

theorem inv_step {s s' : OState K V} {t : Nat} {i : In K V} {e : Option (Ev K V)} (h : Inv s)
    (hn : next s t i = some (s', e)) : Inv s' := by
  unfold next at hn
  split at hn
  next _ _ k hpc =>
    simp only [Option.some.injEq, Prod.mk.injEq] at hn
    obtain ⟨rfl, _⟩ := hn
    exact inv_call h hpc
  next _ _ k hpc =>
    split at hn
    next l hst =>
      simp only [Option.some.injEq, Prod.mk.injEq] at hn
      obtain ⟨rfl, _⟩ := hn
      exact inv_loadHit h hpc hst
    next hst =>
      simp only [Option.some.injEq, Prod.mk.injEq] at hn
      obtain ⟨rfl, _⟩ := hn
      exact inv_loadMiss h hpc
  next _ _ k hpc =>
    simp only [Option.some.injEq, Prod.mk.injEq] at hn
    obtain ⟨rfl, _⟩ := hn
    exact inv_mk h hpc
  next _ _ k hpc =>
    have hch := h.atSend t k hpc
    simp only [hch.1, Bool.false_eq_true, if_false, Nat.lt_one_iff, if_true, Option.some.injEq, Prod.mk.injEq] at hn
    obtain ⟨rfl, _⟩ := hn
    have := inv_send h hpc
    simpa [hch.1] using this
  next _ _ k hpc =>
    split at hn
    next l hst =>
      simp only [Option.some.injEq, Prod.mk.injEq] at hn
      obtain ⟨rfl, _⟩ := hn
      exact inv_losHit h hpc hst
    next hst =>
      simp only [Option.some.injEq, Prod.mk.injEq] at hn
      obtain ⟨rfl, _⟩ := hn
      exact inv_losMiss h hpc hst
  next _ _ k l hpc =>
    split at hn
    next hb =>
      simp only [Option.some.injEq, Prod.mk.injEq] at hn
      obtain ⟨rfl, _⟩ := hn
      exact inv_recvOk h hpc hb
    next hb =>
      split at hn
      next hc =>
        simp only [Option.some.injEq, Prod.mk.injEq] at hn
        obtain ⟨rfl, _⟩ := hn
        exact inv_recvClosed h hpc hc
      next => simp at hn
  next _ _ k l hpc =>
    simp only [Option.some.injEq, Prod.mk.injEq] at hn
    obtain ⟨rfl, _⟩ := hn
    exact inv_ctorStart h hpc
  next _ _ k l v hpc =>
    simp only [Option.some.injEq, Prod.mk.injEq] at hn
    obtain ⟨rfl, _⟩ := hn
    exact inv_ctorEnd h hpc
  next _ _ k l hpc =>
    have hme := h.holds t k l (by simp [hpc, PC.holds])
    simp only [hme.2, Bool.false_eq_true, if_false, Option.some.injEq, Prod.mk.injEq] at hn
    obtain ⟨rfl, _⟩ := hn
    exact inv_close h hpc
  next _ _ k l hpc =>
    simp only [Option.some.injEq, Prod.mk.injEq] at hn
    obtain ⟨rfl, _⟩ := hn
    exact inv_ret h hpc
  next => simp at hn

theorem reachable_inv {s : OState K V} (h : Reachable s) : Inv s := by
  induction h with
  | init => exact inv_init
  | step _ hn ih => exact inv_step ih hn

end GolibsVerif.C17
