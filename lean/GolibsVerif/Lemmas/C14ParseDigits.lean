/-
C14 — decimal print/parse inverse lemmas: `time.fmtInt` against `time.leadingInt`, and
`time.fmtFrac` against `time.leadingFraction` (models in `Model/C14.lean`,
`Model/C14Parse.lean`).
-/
import GolibsVerif.Model.C14Parse
import GolibsVerif.Lemmas.C14Duration
import GolibsVerif.Lemmas.C14ParseFloat

namespace GolibsVerif.C14

/-- `rest` is empty or begins with a byte that is not a decimal digit -/
def NoDigitHead (rest : Bytes) : Prop := ∀ c t, rest = c :: t → (c < 48 ∨ c > 57)

theorem noDigitHead_nil : NoDigitHead [] := by intro c t h; cases h

theorem noDigitHead_cons {c : Nat} (t : Bytes) (h : c < 48 ∨ c > 57) : NoDigitHead (c :: t) := by
  intro c' t' e; cases e; exact h

/-! ### `leadingInt` reads back what `fmtInt` wrote -/

theorem leadingInt_stop (rest : Bytes) (x : Nat) (h : NoDigitHead rest) :
    leadingInt rest x = some (x, rest) := by
  cases rest with
  | nil => rfl
  | cons c t =>
    have := h c t rfl
    simp [leadingInt, this]

theorem leadingInt_step (c : Nat) (rest : Bytes) (x : Nat) (hc : 48 ≤ c ∧ c ≤ 57)
    (hx : x * 10 + (c - 48) ≤ two63) :
    leadingInt (c :: rest) x = leadingInt rest (x * 10 + c - 48) := by
  unfold two63 at hx
  have h1 : ¬ (c < 48 ∨ c > 57) := by omega
  have h2 : ¬ (x > two63 / 10) := by unfold two63; omega
  have h3 : ¬ (x * 10 + c - 48 > two63) := by unfold two63; omega
  simp only [leadingInt, h1, h2, h3, if_false]

theorem leadingInt_digits (v : Nat) (hv : v ≤ two63) (rest : Bytes) :
    leadingInt (digits v ++ rest) 0 = leadingInt rest v := by
  induction v using Nat.strongRecOn generalizing rest with
  | _ v ih =>
    by_cases h : v = 0
    · subst h; rw [digits_zero]; rfl
    · have hlt : v / 10 < v := by omega
      have e : digits v ++ rest = digits (v / 10) ++ ((v % 10 + 48) :: rest) := by
        rw [digits_pos h]; simp
      rw [e, ih _ hlt (by omega), leadingInt_step _ _ _ (by omega) (by unfold two63 at *; omega)]
      congr 1; omega

/-- the integer part: `leadingInt` consumes exactly the text of `fmtInt` -/
theorem leadingInt_intText (v : Nat) (hv : v ≤ two63) (rest : Bytes) (hr : NoDigitHead rest) :
    leadingInt (intText v ++ rest) 0 = some (v, rest) := by
  unfold intText
  by_cases h : v = 0
  · subst h
    simp only [if_true]
    show leadingInt (48 :: rest) 0 = _
    rw [leadingInt_step _ _ _ (by omega) (by unfold two63; omega)]
    exact leadingInt_stop rest _ hr
  · simp only [h, if_false]
    rw [leadingInt_digits v hv rest]
    exact leadingInt_stop rest _ hr

theorem digits_head {v : Nat} (h : v ≠ 0) : ∃ c t, digits v = c :: t ∧ 48 ≤ c ∧ c ≤ 57 := by
  induction v using Nat.strongRecOn with
  | _ v ih =>
    rw [digits_pos h]
    by_cases h10 : v / 10 = 0
    · rw [h10, digits_zero]; exact ⟨_, [], rfl, by omega, by omega⟩
    · obtain ⟨c, t, e, hc⟩ := ih (v / 10) (by omega) h10
      exact ⟨c, t ++ [v % 10 + 48], by rw [e]; rfl, hc⟩

/-- the text of `fmtInt` begins with a decimal digit -/
theorem intText_head (v : Nat) : ∃ c t, intText v = c :: t ∧ 48 ≤ c ∧ c ≤ 57 := by
  unfold intText
  by_cases h : v = 0
  · simp only [h, if_true]; exact ⟨48, [], rfl, by omega, by omega⟩
  · simp only [h, if_false]; exact digits_head h

/-! ### fractions: `k` digits of `f`, most significant first -/

/-- the last `k` decimal digits of `f`, zero-padded -/
def padDigits : Nat → Nat → Bytes
  | 0, _ => []
  | k + 1, f => padDigits k (f / 10) ++ [f % 10 + 48]

theorem padDigits_length (k f : Nat) : (padDigits k f).length = k := by
  induction k generalizing f with
  | zero => rfl
  | succ k ih => simp [padDigits, ih]

theorem mod_pow_succ (f k : Nat) : f % 10 ^ (k + 1) = (f / 10 % 10 ^ k) * 10 + f % 10 := by
  rw [Nat.pow_succ, Nat.mul_comm, Nat.mod_mul]; omega

theorem leadingFraction_stop (rest : Bytes) (x : Nat) (sc : F64) (ov : Bool) (h : NoDigitHead rest) :
    leadingFraction rest x sc ov = (x, sc, rest) := by
  cases rest with
  | nil => rfl
  | cons c t =>
    have := h c t rfl
    simp [leadingFraction, this]

/-- `leadingFraction` on `k ≤ 15` printed digits: the value is `f mod 10^k`, the scale is
`10^k` (exactly), no overflow -/
theorem leadingFraction_padDigits (k : Nat) (hk : k ≤ 15) (f : Nat) (rest : Bytes) :
    ∃ sc, F64.IsNat sc (10 ^ k) ∧
      leadingFraction (padDigits k f ++ rest) 0 F64.one false
        = leadingFraction rest (f % 10 ^ k) sc false := by
  induction k generalizing f rest with
  | zero => exact ⟨F64.one, F64.one_isNat, by simp [padDigits, Nat.mod_one]⟩
  | succ k ih =>
    obtain ⟨sc, hsc, e⟩ := ih (by omega) (f / 10) ((f % 10 + 48) :: rest)
    refine ⟨F64.mul sc F64.ten, F64.scale_step sc k hsc (by omega), ?_⟩
    have e0 : padDigits (k + 1) f ++ rest = padDigits k (f / 10) ++ ((f % 10 + 48) :: rest) := by
      simp [padDigits]
    rw [e0, e]
    have hx : f / 10 % 10 ^ k < 10 ^ k := Nat.mod_lt _ (Nat.pow_pos (by omega))
    have hle : (10 : Nat) ^ k ≤ 10 ^ 14 := Nat.pow_le_pow_right (by omega) (by omega)
    have b : (10 : Nat) ^ 14 = 100000000000000 := by decide
    have h1 : ¬ (f % 10 + 48 < 48 ∨ f % 10 + 48 > 57) := by omega
    have h2 : ¬ (f / 10 % 10 ^ k > (two63 - 1) / 10) := by unfold two63; omega
    have h3 : ¬ (f / 10 % 10 ^ k * 10 + (f % 10 + 48) - 48 > two63) := by unfold two63; omega
    have h4 : f / 10 % 10 ^ k * 10 + (f % 10 + 48) - 48 = f % 10 ^ (k + 1) := by
      rw [mod_pow_succ]; omega
    have h3' : ¬ (f % 10 ^ (k + 1) > two63) := by rw [← h4]; exact h3
    simp only [leadingFraction, h1, h2, if_false, Bool.false_eq_true, h4, h3']

/-! ### `fmtFrac` writes `.` and the digits of the fraction without its trailing zeros -/

theorem div_pow_succ (v p : Nat) : v / 10 / 10 ^ p = v / 10 ^ (p + 1) := by
  rw [Nat.div_div_eq_div_mul, Nat.pow_succ, Nat.mul_comm]

theorem fmtFracLoop_true (p v : Nat) (tail : Bytes) :
    fmtFracLoop p v true tail = (padDigits p v ++ tail, v / 10 ^ p, true) := by
  induction p generalizing v tail with
  | zero => simp [fmtFracLoop, padDigits]
  | succ p ih =>
    simp only [fmtFracLoop, Bool.true_or, if_true, ih, padDigits, div_pow_succ]
    simp

theorem fmtFracLoop_false (p v : Nat) (tail : Bytes) :
    (v % 10 ^ p = 0 ∧ fmtFracLoop p v false tail = (tail, v / 10 ^ p, false)) ∨
    (∃ k f, 0 < k ∧ k ≤ p ∧ f % 10 ≠ 0 ∧ v % 10 ^ p = f % 10 ^ k * 10 ^ (p - k) ∧
      fmtFracLoop p v false tail = (padDigits k f ++ tail, v / 10 ^ p, true)) := by
  induction p generalizing v tail with
  | zero => left; simp [fmtFracLoop, Nat.mod_one]
  | succ p ih =>
    by_cases hd : v % 10 = 0
    · have hb : (v % 10 != 0) = false := by simp [hd]
      have e : fmtFracLoop (p + 1) v false tail = fmtFracLoop p (v / 10) false tail := by
        simp only [fmtFracLoop, hb, Bool.or_self, Bool.false_eq_true, if_false]
      rw [e, ← div_pow_succ]
      rcases ih (v / 10) tail with ⟨hz, hl⟩ | ⟨k, f, hk0, hkp, hf, hv, hl⟩
      · left
        refine ⟨?_, hl⟩
        rw [mod_pow_succ]; omega
      · right
        refine ⟨k, f, hk0, by omega, hf, ?_, hl⟩
        have : p + 1 - k = (p - k) + 1 := by omega
        rw [mod_pow_succ, hv, this, Nat.pow_succ, hd]
        simp [Nat.mul_assoc]
    · right
      have hb : (v % 10 != 0) = true := by simp [hd]
      have e : fmtFracLoop (p + 1) v false tail = fmtFracLoop p (v / 10) true ((v % 10 + 48) :: tail) := by
        simp only [fmtFracLoop, hb, Bool.false_or, if_true]
      refine ⟨p + 1, v, by omega, by omega, hd, by simp, ?_⟩
      rw [e, fmtFracLoop_true, div_pow_succ]
      simp [padDigits]

/-- `fmtFrac`: nothing is written for a zero fraction; otherwise `.` and `k ≤ prec` digits
`f mod 10^k`, the last one non-zero, with `v mod 10^prec = (f mod 10^k) · 10^(prec-k)`. -/
theorem fmtFrac_val (tail : Bytes) (v p : Nat) :
    (v % 10 ^ p = 0 ∧ fmtFrac tail v p = (tail, v / 10 ^ p)) ∨
    (∃ k f, 0 < k ∧ k ≤ p ∧ f % 10 ≠ 0 ∧ v % 10 ^ p = f % 10 ^ k * 10 ^ (p - k) ∧
      fmtFrac tail v p = (46 :: (padDigits k f ++ tail), v / 10 ^ p)) := by
  unfold fmtFrac
  rcases fmtFracLoop_false p v tail with ⟨hz, hl⟩ | ⟨k, f, hk0, hkp, hf, hv, hl⟩
  · left; refine ⟨hz, ?_⟩; rw [hl]; simp
  · right; refine ⟨k, f, hk0, hkp, hf, hv, ?_⟩; rw [hl]; simp

end GolibsVerif.C14
