/-
C09 — helper lemmas: list facts, per-section invariant/refinement/progress lemmas, traces,
the nested interpreter.
-/
import GolibsVerif.Spec.C09

namespace GolibsVerif.C09

/-! ### Lists -/

theorem sumSz_append (a b : List Entry) : sumSz (a ++ b) = sumSz a + sumSz b := by
  simp [sumSz, List.map_append, List.sum_append]

theorem sumSz_cons (e : Entry) (l : List Entry) : sumSz (e :: l) = e.sz + sumSz l := by
  simp [sumSz]

theorem lookup_some {l : List Entry} {k : Bytes} {old : Entry}
    (h : lookup l k = some old) : old ∈ l ∧ old.key = k := by
  unfold lookup at h
  have h1 := List.mem_of_find?_eq_some h
  have h2 := List.find?_some h
  exact ⟨h1, by simpa using h2⟩

theorem lookup_none {l : List Entry} {k : Bytes}
    (h : lookup l k = none) : ∀ e ∈ l, e.key ≠ k := by
  unfold lookup at h
  intro e he
  have := List.find?_eq_none.1 h e he
  simpa using this

theorem remove_of_lookup_none {l : List Entry} {k : Bytes}
    (h : lookup l k = none) : remove l k = l := by
  unfold remove
  apply List.filter_eq_self.2
  intro e he
  simpa using lookup_none h e he

theorem remove_sublist (l : List Entry) (k : Bytes) : (remove l k).Sublist l :=
  List.filter_sublist

theorem mem_remove {l : List Entry} {k : Bytes} {e : Entry} :
    e ∈ remove l k ↔ e ∈ l ∧ e.key ≠ k := by
  simp [remove, List.mem_filter]

theorem nodup_remove {l : List Entry} (k : Bytes) (hn : (l.map Entry.key).Nodup) :
    ((remove l k).map Entry.key).Nodup :=
  hn.sublist (List.Sublist.map _ (remove_sublist l k))

theorem nodup_remove_append {l : List Entry} (e : Entry) (hn : (l.map Entry.key).Nodup) :
    ((remove l e.key ++ [e]).map Entry.key).Nodup := by
  simp only [List.map_append, List.map_cons, List.map_nil]
  rw [List.nodup_append]
  refine ⟨nodup_remove _ hn, by simp, ?_⟩
  intro a ha b hb
  simp at hb; subst hb
  obtain ⟨x, hx, rfl⟩ := List.mem_map.1 ha
  exact (mem_remove.1 hx).2

/-- with unique keys, removing key `k` removes exactly the entry found -/
theorem sumSz_remove (l : List Entry) (k : Bytes) (old : Entry)
    (hn : (l.map Entry.key).Nodup) (hf : lookup l k = some old) :
    sumSz l = sumSz (remove l k) + old.sz ∧ (remove l k).length + 1 = l.length := by
  unfold lookup at hf
  unfold remove
  induction l with
  | nil => simp at hf
  | cons x xs ih =>
    simp only [List.map_cons, List.nodup_cons] at hn
    by_cases hx : x.key = k
    · have : old = x := by simpa [List.find?, hx] using hf.symm
      subst this
      have hnone : ∀ y ∈ xs, y.key ≠ k := by
        intro y hy hyk
        exact hn.1 (List.mem_map.2 ⟨y, hy, by rw [hyk, hx]⟩)
      have hfilt : xs.filter (fun x => !decide (x.key = k)) = xs := by
        apply List.filter_eq_self.2
        intro y hy; simpa using hnone y hy
      simp [List.filter, hx, sumSz]
      rw [hfilt]
      exact ⟨by omega, hnone⟩
    · have hf' : xs.find? (fun x => x.key = k) = some old := by
        simpa [List.find?, hx] using hf
      obtain ⟨h1, h2⟩ := ih hn.2 hf'
      simp [List.filter, hx, sumSz] at h1 h2 ⊢
      omega

theorem remove_head {e : Entry} {rest : List Entry}
    (hn : ((e :: rest).map Entry.key).Nodup) : remove (e :: rest) e.key = rest := by
  simp only [List.map_cons, List.nodup_cons] at hn
  unfold remove
  simp only [List.filter, ne_eq, not_true_eq_false, decide_false]
  apply List.filter_eq_self.2
  intro y hy
  have : y.key ≠ e.key := fun h => hn.1 (List.mem_map.2 ⟨y, hy, h⟩)
  simpa using this

theorem pairs_append (a b : List Entry) : pairs (a ++ b) = pairs a ++ pairs b := by
  simp [pairs]

theorem pairs_remove (l : List Entry) (k : Bytes) : pairs (remove l k) = aRemove (pairs l) k := by
  simp [pairs, remove, aRemove, List.filter_map, Function.comp_def]

theorem aLookup_pairs (l : List Entry) (k : Bytes) :
    aLookup (pairs l) k = (lookup l k).map (·.val) := by
  simp [pairs, aLookup, lookup, List.find?_map, Function.comp_def]

theorem aSize_pairs (l : List Entry) : aSize (pairs l) = sumSz l := by
  simp [aSize, pairs, sumSz, Function.comp_def]
  rfl

/-! ### `GoM` plumbing -/

@[simp] theorem gom_pure {α} (a : α) : (pure a : GoM α) = .ok a := rfl
@[simp] theorem gom_throw {α} (e : GoPanic) : (throw e : GoM α) = .error e := rfl
@[simp] theorem gom_bind_ok {α β} (a : α) (f : α → GoM β) :
    ((Except.ok a : GoM α) >>= f) = f a := rfl
@[simp] theorem gom_bind_error {α β} (e : GoPanic) (f : α → GoM β) :
    ((Except.error e : GoM α) >>= f) = .error e := rfl
@[simp] theorem gom_map_ok {α β} (a : α) (f : α → β) :
    (f <$> (Except.ok a : GoM α)) = .ok (f a) := rfl
@[simp] theorem gom_map_error {α β} (e : GoPanic) (f : α → β) :
    (f <$> (Except.error e : GoM α)) = .error e := rfl

/-! ### The critical sections, one by one -/

theorem evictOne_ok {s s' : St} {e : Entry} (h : evictOne s = .ok (s', e)) :
    s.lru = e :: s'.lru ∧ e.linked = true ∧ s'.size = s.size - e.sz ∧
      s'.hit = s.hit ∧ s'.miss = s.miss := by
  unfold evictOne at h
  cases hs : s.lru with
  | nil => simp [hs] at h
  | cons x rest =>
    simp only [hs, unlink] at h
    by_cases hl : x.linked
    · simp [hl] at h
      obtain ⟨rfl, rfl⟩ := h
      simp [hl]
    · simp [hl] at h

theorem evictOne_total {s : St} (hne : s.lru ≠ []) (hl : ∀ e ∈ s.lru, e.linked = true) :
    ∃ s' e, evictOne s = .ok (s', e) := by
  unfold evictOne
  cases hs : s.lru with
  | nil => exact absurd hs hne
  | cons x rest =>
    have : x.linked = true := hl x (by simp [hs])
    simp [unlink, this]

/-- under the invariant and a normalised configuration the eviction loop never reaches the
list sentinel: if the loop condition holds for a legal element size, the list is non-empty -/
theorem evict_nonempty {c : Conf} (ok : ConfOk c) {s : St} (h : Inv c s) {add : Nat}
    (hadd : add ≤ c.maxElem) (hf : full c s add = true) : s.lru ≠ [] := by
  intro hnil
  have hq := h.size_eq
  have := ok.elem_le; have := ok.count_pos
  simp [full, hnil, sumSz] at hf hq
  omega

theorem evictOne_inv {c : Conf} {s s' : St} {e : Entry} (h : Inv c s)
    (he : evictOne s = .ok (s', e)) : Inv c s' := by
  obtain ⟨hl, _, hsz, _, _⟩ := evictOne_ok he
  have hn := h.nodup; have hq := h.size_eq; have hle := h.size_le; have hc := h.count_le
  have hk := h.linked
  rw [hl] at hn hq hc hk
  simp only [List.map_cons, List.nodup_cons, sumSz_cons, List.length_cons] at hn hq hc
  exact ⟨hn.2, by omega, by omega, by omega, fun x hx => hk x (List.mem_cons_of_mem _ hx)⟩

theorem evictOne_agree {c : Conf} {s s' : St} {e : Entry} {a : Abs} (h : Inv c s) (ha : Agree s a)
    (he : evictOne s = .ok (s', e)) : Agree s' (absStep c.lru a (.evict e.key e.val)) := by
  obtain ⟨hl, _, _, hh, hm⟩ := evictOne_ok he
  have hn := h.nodup
  rw [hl] at hn
  refine ⟨?_, by simpa [absStep] using hh ▸ ha.hit, by simpa [absStep] using hm ▸ ha.miss⟩
  simp only [absStep]
  rw [← ha.live, ← pairs_remove, hl, remove_head hn]

/-- what the commit section computes under the invariant -/
theorem setCommit_char {c : Conf} {s : St} (h : Inv c s) (k v : Bytes) :
    setCommit c s k v = .ok
      ({ s with
          lru := remove s.lru k ++ [{ key := k, val := v, linked := c.lru }]
          size := s.size - ((lookup s.lru k).map Entry.sz).getD 0 + (k.length + v.length) },
        (lookup s.lru k).isSome) := by
  unfold setCommit setCommitWith
  cases hf : lookup s.lru k with
  | none => simp [remove_of_lookup_none hf, Entry.sz]
  | some old =>
    have hold := h.linked old (lookup_some hf).1
    cases hc : c.lru <;> simp [hc] at hold ⊢ <;> simp [unlink, hold, Entry.sz]

theorem setCommit_inv {c : Conf} {s s' : St} {k v : Bytes} {r : Bool} (h : Inv c s)
    (hnf : full c s (k.length + v.length) = false) (hc : setCommit c s k v = .ok (s', r)) :
    Inv c s' := by
  rw [setCommit_char h] at hc
  simp only [Except.ok.injEq, Prod.mk.injEq] at hc
  obtain ⟨rfl, _⟩ := hc
  have hn := h.nodup; have hq := h.size_eq; have hl := h.size_le; have hcn := h.count_le
  simp [full] at hnf
  obtain ⟨hsz, hcnt⟩ := hnf
  have hnd := nodup_remove_append (l := s.lru) { key := k, val := v, linked := c.lru } hn
  have hlk : ∀ e ∈ remove s.lru k ++ [{ key := k, val := v, linked := c.lru }], e.linked = c.lru := by
    intro e he
    rcases List.mem_append.1 he with he | he
    · exact h.linked e (mem_remove.1 he).1
    · simp at he; subst he; rfl
  cases hf : lookup s.lru k with
  | some old =>
    obtain ⟨hsum, hlen⟩ := sumSz_remove s.lru k old hn hf
    refine ⟨hnd, ?_, ?_, ?_, hlk⟩
    · simp [sumSz, Entry.sz] at *; omega
    · simp at *; omega
    · simp at *; omega
  | none =>
    have hr := remove_of_lookup_none hf
    refine ⟨hnd, ?_, ?_, ?_, hlk⟩
    · simp [hr, sumSz, Entry.sz] at *; omega
    · simp at *; omega
    · simp [hr] at *; omega

theorem setCommit_agree {c : Conf} {s s' : St} {k v : Bytes} {r : Bool} {a : Abs} (h : Inv c s)
    (ha : Agree s a) (hc : setCommit c s k v = .ok (s', r)) :
    Agree s' (absStep c.lru a (.commit k v r)) ∧ r = (aLookup a.live k).isSome := by
  rw [setCommit_char h] at hc
  simp only [Except.ok.injEq, Prod.mk.injEq] at hc
  obtain ⟨rfl, rfl⟩ := hc
  refine ⟨⟨?_, ha.hit, ha.miss⟩, ?_⟩
  · simp only [absStep, pairs_append, pairs_remove, ha.live]
    simp [pairs]
  · rw [← ha.live, aLookup_pairs]; simp

/-- what `Get` computes under the invariant -/
theorem get_char {c : Conf} {s : St} (h : Inv c s) (k : Bytes) :
    get c s k = .ok
      (match lookup s.lru k with
       | none => ({ s with miss := s.miss + 1 }, none)
       | some e =>
         ({ s with lru := if c.lru then remove s.lru k ++ [e] else s.lru, hit := s.hit + 1 },
          some e.val)) := by
  unfold get
  cases hf : lookup s.lru k with
  | none => simp
  | some old =>
    have hold := h.linked old (lookup_some hf).1
    cases hc : c.lru <;> simp [hc] at hold ⊢ <;> simp [unlink, hold]

theorem get_inv {c : Conf} {s s' : St} {k : Bytes} {r : Option Bytes} (h : Inv c s)
    (hg : get c s k = .ok (s', r)) : Inv c s' := by
  rw [get_char h] at hg
  cases hf : lookup s.lru k with
  | none =>
    simp [hf] at hg
    obtain ⟨rfl, _⟩ := hg
    exact ⟨h.nodup, h.size_eq, h.size_le, h.count_le, h.linked⟩
  | some old =>
    simp [hf] at hg
    obtain ⟨rfl, _⟩ := hg
    cases hc : c.lru
    · simp only [Bool.false_eq_true, if_false]
      exact ⟨h.nodup, h.size_eq, h.size_le, h.count_le, h.linked⟩
    · obtain ⟨hmem, hkey⟩ := lookup_some hf
      obtain ⟨hsum, hlen⟩ := sumSz_remove s.lru k old h.nodup hf
      have hnd := nodup_remove_append (l := s.lru) old h.nodup
      rw [hkey] at hnd
      have hq := h.size_eq; have hl := h.size_le; have hcn := h.count_le
      refine ⟨by simpa using hnd, ?_, by simpa using hl, ?_, ?_⟩
      · simp [sumSz] at *; omega
      · simp at *; omega
      · intro e he
        simp only [if_true] at he
        rcases List.mem_append.1 he with he | he
        · exact h.linked e (mem_remove.1 he).1
        · simp at he; subst he; exact h.linked _ hmem

theorem get_agree {c : Conf} {s s' : St} {k : Bytes} {r : Option Bytes} {a : Abs} (h : Inv c s)
    (ha : Agree s a) (hg : get c s k = .ok (s', r)) :
    Agree s' (absStep c.lru a (.get k r)) ∧ r = aLookup a.live k := by
  rw [get_char h] at hg
  have hlk := aLookup_pairs s.lru k
  rw [ha.live] at hlk
  cases hf : lookup s.lru k with
  | none =>
    simp [hf] at hg hlk
    obtain ⟨rfl, rfl⟩ := hg
    exact ⟨⟨ha.live, ha.hit, by simp [absStep, ha.miss]⟩, hlk.symm⟩
  | some old =>
    simp [hf] at hg hlk
    obtain ⟨rfl, rfl⟩ := hg
    refine ⟨⟨?_, by simp [absStep, ha.hit], ha.miss⟩, hlk.symm⟩
    obtain ⟨_, hkey⟩ := lookup_some hf
    cases hc : c.lru
    · simp [absStep, ha.live]
    · simp [absStep, hlk, pairs_append, pairs_remove, ha.live]
      simp [pairs, hkey]

/-- what `Del` computes under the invariant -/
theorem del_char {c : Conf} {s : St} (h : Inv c s) (k : Bytes) :
    del c s k = .ok
      { s with lru := remove s.lru k, size := s.size - ((lookup s.lru k).map Entry.sz).getD 0 } := by
  unfold del delWith
  cases hf : lookup s.lru k with
  | none => simp [remove_of_lookup_none hf]
  | some old =>
    have hold := h.linked old (lookup_some hf).1
    cases hc : c.lru <;> simp [hc] at hold ⊢ <;> simp [unlink, hold]

theorem del_inv {c : Conf} {s s' : St} {k : Bytes} (h : Inv c s)
    (hd : del c s k = .ok s') : Inv c s' := by
  rw [del_char h] at hd
  simp only [Except.ok.injEq] at hd
  subst hd
  have hq := h.size_eq; have hl := h.size_le; have hcn := h.count_le
  have hlk : ∀ e ∈ remove s.lru k, e.linked = c.lru := fun e he => h.linked e (mem_remove.1 he).1
  cases hf : lookup s.lru k with
  | some old =>
    obtain ⟨hsum, hlen⟩ := sumSz_remove s.lru k old h.nodup hf
    exact ⟨nodup_remove k h.nodup, by simp at *; omega, by simp at *; omega, by simp at *; omega, hlk⟩
  | none =>
    have hr := remove_of_lookup_none hf
    exact ⟨nodup_remove k h.nodup, by simp [hr] at *; omega, by simp at *; omega,
      by simp [hr] at *; omega, hlk⟩

theorem del_agree {c : Conf} {s s' : St} {k : Bytes} {a : Abs} (h : Inv c s)
    (ha : Agree s a) (hd : del c s k = .ok s') : Agree s' (absStep c.lru a (.del k)) := by
  rw [del_char h] at hd
  simp only [Except.ok.injEq] at hd
  subst hd
  exact ⟨by simp [absStep, pairs_remove, ha.live], ha.hit, ha.miss⟩

/-! ### One step of the transition system; traces -/

theorem Inv.init (c : Conf) : Inv c St.init :=
  ⟨by simp [St.init], by simp [St.init, sumSz], by simp [St.init], by simp [St.init],
   by simp [St.init]⟩

theorem Agree.self (s : St) : Agree s { live := pairs s.lru, hit := s.hit, miss := s.miss } :=
  ⟨rfl, rfl, rfl⟩

theorem Agree.init : Agree St.init Abs.empty := ⟨rfl, rfl, rfl⟩

theorem step_ok {c : Conf} {s s' : St} {ev : Ev} {a : Abs} (hs : CStep c s ev s') (h : Inv c s)
    (ha : Agree s a) : Inv c s' ∧ Agree s' (absStep c.lru a ev) := by
  cases hs with
  | refuse => exact ⟨h, ha⟩
  | evict s' add e _ _ _ he => exact ⟨evictOne_inv h he, evictOne_agree h ha he⟩
  | onDelete => exact ⟨h, ha⟩
  | commit s' k v r _ hnf hc => exact ⟨setCommit_inv h hnf hc, (setCommit_agree h ha hc).1⟩
  | get s' k r hg => exact ⟨get_inv h hg, (get_agree h ha hg).1⟩
  | del s' k hd => exact ⟨del_inv h hd, del_agree h ha hd⟩
  | clear => exact ⟨Inv.init c, Agree.init⟩
  | stats => exact ⟨h, ha⟩

theorem trace_ok {c : Conf} {s s' : St} {log : List Rec} (ht : Trace c s log s') :
    ∀ {a : Abs}, Inv c s → Agree s a →
      Inv c s' ∧ Agree s' ((evsOf log).foldl (absStep c.lru) a) ∧ ∀ r ∈ log, Inv c r.after := by
  induction ht with
  | nil s => intro a h ha; exact ⟨h, ha, by simp⟩
  | cons hstep _ ih =>
    intro a h ha
    obtain ⟨h1, ha1⟩ := step_ok hstep h ha
    obtain ⟨h2, ha2, hall⟩ := ih h1 ha1
    refine ⟨h2, by simpa [evsOf] using ha2, ?_⟩
    intro r hr
    rcases List.mem_cons.1 hr with rfl | hr
    · exact h1
    · exact hall r hr

theorem trace_inv {c : Conf} {s s' : St} {log : List Rec} (ht : Trace c s log s') (h : Inv c s) :
    Inv c s' := (trace_ok ht h (Agree.self s)).1

theorem trace_append {c : Conf} {s s1 s2 : St} {l1 l2 : List Rec} (h1 : Trace c s l1 s1)
    (h2 : Trace c s1 l2 s2) : Trace c s (l1 ++ l2) s2 := by
  induction h1 with
  | nil => simpa using h2
  | cons hstep _ ih => exact Trace.cons hstep (ih h2)

theorem trace_single {c : Conf} {s s' : St} {ev : Ev} (h : CStep c s ev s') :
    Trace c s [⟨ev, s'⟩] s' := Trace.cons h (Trace.nil s')

theorem trace_split {c : Conf} {s s' : St} {pre post : List Rec} {ev : Ev} {s1 : St}
    (ht : Trace c s (pre ++ ⟨ev, s1⟩ :: post) s') :
    ∃ s0, Trace c s pre s0 ∧ CStep c s0 ev s1 ∧ Trace c s1 post s' := by
  induction pre generalizing s with
  | nil =>
    cases ht with
    | cons hstep hrest => exact ⟨s, Trace.nil s, hstep, hrest⟩
  | cons x xs ih =>
    cases ht with
    | cons hstep hrest =>
      obtain ⟨s0, h1, h2, h3⟩ := ih hrest
      exact ⟨s0, Trace.cons hstep h1, h2, h3⟩

/-- the state a trace from the initial state has reached, in terms of the reference -/
theorem trace_from_init {c : Conf} {s : St} {log : List Rec} (ht : Trace c St.init log s) :
    Inv c s ∧ Agree s (absOf c.lru (evsOf log)) := by
  obtain ⟨h, ha, _⟩ := trace_ok ht (Inv.init c) Agree.init
  exact ⟨h, ha⟩

/-! ### The reference and "latest surviving Set" -/

theorem absOf_snoc (b : Bool) (evs : List Ev) (e : Ev) :
    absOf b (evs ++ [e]) = absStep b (absOf b evs) e := by
  simp [absOf, List.foldl_append]

theorem find_filter_ne (l : List (Bytes × Bytes)) {k' k : Bytes} (h : k' ≠ k) :
    (l.filter (fun p => p.1 ≠ k')).find? (fun p => p.1 = k) = l.find? (fun p => p.1 = k) := by
  rw [List.find?_filter]
  congr 1
  funext p
  by_cases hk : p.1 = k
  · have : p.1 ≠ k' := fun hh => h (hh ▸ hk)
    simp [hk] at this ⊢; exact this
  · simp [hk]

theorem find_filter_eq (l : List (Bytes × Bytes)) (k : Bytes) :
    (l.filter (fun p => p.1 ≠ k)).find? (fun p => p.1 = k) = none := by
  rw [List.find?_eq_none]
  intro p hp
  simpa using (List.mem_filter.1 hp).2

theorem aLookup_remove_append (l : List (Bytes × Bytes)) (k' k v : Bytes) :
    aLookup (aRemove l k' ++ [(k', v)]) k = if k' = k then some v else aLookup l k := by
  unfold aLookup aRemove
  rw [List.find?_append]
  by_cases h : k' = k
  · subst h; rw [find_filter_eq]; simp
  · rw [find_filter_ne l h]; simp [h]

theorem aLookup_remove (l : List (Bytes × Bytes)) (k' k : Bytes) :
    aLookup (aRemove l k') k = if k' = k then none else aLookup l k := by
  unfold aLookup aRemove
  by_cases h : k' = k
  · subst h; rw [find_filter_eq]; simp
  · rw [find_filter_ne l h]; simp [h]
theorem aLookup_absStep (b : Bool) (a : Abs) (e : Ev) (rest : List Ev) (k : Bytes)
    (ih : aLookup a.live k = lastSurvivingRev rest k) :
    aLookup (absStep b a e).live k = lastSurvivingRev (e :: rest) k := by
  cases e with
  | commit k' v r => simp [absStep, lastSurvivingRev, aLookup_remove_append, ih]
  | evict k' v => simp [absStep, lastSurvivingRev, aLookup_remove, ih]
  | del k' => simp [absStep, lastSurvivingRev, aLookup_remove, ih]
  | clear => simp [absStep, lastSurvivingRev, Abs.empty, aLookup]
  | get k' r =>
    cases r with
    | none => simp [absStep, lastSurvivingRev, ih]
    | some v =>
      cases b
      · simp [absStep, lastSurvivingRev, ih]
      · simp only [absStep, lastSurvivingRev, if_true]
        cases hl : aLookup a.live k' with
        | none => simpa using ih
        | some v' =>
          simp only [aLookup_remove_append]
          by_cases hk : k' = k
          · subst hk; simp [← ih, hl]
          · simp [hk, ih]
  | refused k' v => simpa [absStep, lastSurvivingRev] using ih
  | onDelete k' v => simpa [absStep, lastSurvivingRev] using ih
  | stats st => simpa [absStep, lastSurvivingRev] using ih

/-- looking a key up in the reference = the value of the latest surviving Set -/
theorem aLookup_absOf (b : Bool) (evs : List Ev) (k : Bytes) :
    aLookup (absOf b evs).live k = lastSurviving evs k := by
  unfold lastSurviving
  suffices h : ∀ r : List Ev, aLookup (absOf b r.reverse).live k = lastSurvivingRev r k by
    simpa using h evs.reverse
  intro r
  induction r with
  | nil => simp [absOf, Abs.empty, aLookup, lastSurvivingRev]
  | cons e rest ih =>
    rw [List.reverse_cons, absOf_snoc]
    exact aLookup_absStep b _ e rest k ih

theorem hit_absOf (b : Bool) (evs : List Ev) :
    (absOf b evs).hit = hitsSinceClear evs ∧ (absOf b evs).miss = missesSinceClear evs := by
  unfold hitsSinceClear missesSinceClear
  suffices h : ∀ r : List Ev, (absOf b r.reverse).hit = hitsRev r ∧ (absOf b r.reverse).miss = missesRev r by
    simpa using h evs.reverse
  intro r
  induction r with
  | nil => simp [absOf, Abs.empty, hitsRev, missesRev]
  | cons e rest ih =>
    rw [List.reverse_cons, absOf_snoc]
    cases e with
    | get k' r => cases r <;> simp [absStep, hitsRev, missesRev, ih]
    | clear => simp [absStep, hitsRev, missesRev, Abs.empty]
    | _ => simp [absStep, hitsRev, missesRev, ih]

/-! ### Recency order = last-use stamps -/

theorem lastUseRev_le (b : Bool) (l : List Ev) (k : Bytes) : lastUseRev b l k ≤ l.length := by
  induction l with
  | nil => simp [lastUseRev]
  | cons e rest ih => simp only [lastUseRev]; split <;> simp <;> omega

def SortedBy (f : Bytes → Nat) (l : List (Bytes × Bytes)) : Prop :=
  l.Pairwise (fun p q => f p.1 < f q.1)

theorem sortedBy_remove {f : Bytes → Nat} {l : List (Bytes × Bytes)} (k : Bytes)
    (h : SortedBy f l) : SortedBy f (aRemove l k) :=
  List.Pairwise.sublist List.filter_sublist h

theorem sortedBy_congr {f g : Bytes → Nat} {l : List (Bytes × Bytes)}
    (hfg : ∀ p ∈ l, g p.1 = f p.1) (h : SortedBy f l) : SortedBy g l := by
  unfold SortedBy at *
  induction l with
  | nil => exact List.Pairwise.nil
  | cons x xs ih =>
    rw [List.pairwise_cons] at h ⊢
    refine ⟨fun q hq => ?_, ih (fun p hp => hfg p (List.mem_cons_of_mem _ hp)) h.2⟩
    rw [hfg x (by simp), hfg q (List.mem_cons_of_mem _ hq)]
    exact h.1 q hq

theorem sortedBy_touch {f g : Bytes → Nat} {l : List (Bytes × Bytes)} (k v : Bytes) (n : Nat)
    (hf : ∀ k', f k' ≤ n) (hg : ∀ k', g k' = if k = k' then n + 1 else f k') (h : SortedBy f l) :
    SortedBy g (aRemove l k ++ [(k, v)]) := by
  unfold SortedBy
  rw [List.pairwise_append]
  refine ⟨?_, by simp, ?_⟩
  · apply sortedBy_congr _ (sortedBy_remove k h)
    intro p hp
    have : p.1 ≠ k := by simpa [aRemove] using (List.mem_filter.1 hp).2
    rw [hg]; simp [Ne.symm this]
  · intro p hp q hq
    simp at hq; subst hq
    have : p.1 ≠ k := by simpa [aRemove] using (List.mem_filter.1 hp).2
    rw [hg, hg]; simp [Ne.symm this]
    have := hf p.1; omega

theorem lastUseRev_cons (b : Bool) (e : Ev) (rest : List Ev) (k : Bytes) :
    lastUseRev b (e :: rest) k = if usesKey b e k then rest.length + 1 else lastUseRev b rest k := rfl

/-- the reference keeps its live entries sorted by last-use stamp -/
theorem live_sorted_rev (b : Bool) (r : List Ev) :
    SortedBy (lastUseRev b r) (absOf b r.reverse).live := by
  induction r with
  | nil => simp [absOf, Abs.empty, SortedBy]
  | cons e rest ih =>
    rw [List.reverse_cons, absOf_snoc]
    have hle := lastUseRev_le b rest
    have same : (∀ k, usesKey b e k = false) →
        SortedBy (lastUseRev b (e :: rest)) (absOf b rest.reverse).live := by
      intro hu
      apply sortedBy_congr _ ih
      intro p _; simp [lastUseRev_cons, hu]
    cases e with
    | commit k v rep =>
      simp only [absStep]
      apply sortedBy_touch k v rest.length hle _ ih
      intro k'; simp [lastUseRev_cons, usesKey]
    | evict k v => exact sortedBy_remove k (same (by intro k'; rfl))
    | del k => exact sortedBy_remove k (same (by intro k'; rfl))
    | clear => simp [absStep, Abs.empty, SortedBy]
    | get k r =>
      cases r with
      | none => exact same (by intro k'; rfl)
      | some v =>
        cases b with
        | false => simpa [absStep] using same (by intro k'; simp [usesKey])
        | true =>
          simp only [absStep, if_true]
          cases hl : aLookup (absOf true rest.reverse).live k with
          | some v' =>
            apply sortedBy_touch k v' rest.length hle _ ih
            intro k'; simp [lastUseRev_cons, usesKey]
          | none =>
            apply sortedBy_congr _ ih
            intro p hp
            have : k ≠ p.1 := by
              intro hk
              unfold aLookup at hl
              simp only [Option.map_eq_none_iff] at hl
              have := List.find?_eq_none.1 hl p hp
              simp [hk] at this
            simp [lastUseRev_cons, usesKey, this]
    | refused k v => exact same (by intro k'; rfl)
    | onDelete k v => exact same (by intro k'; rfl)
    | stats st => exact same (by intro k'; rfl)

theorem live_sorted (b : Bool) (evs : List Ev) :
    SortedBy (lastUse b evs) (absOf b evs).live := by
  have := live_sorted_rev b evs.reverse
  rw [List.reverse_reverse] at this
  exact this

/-- so the head of the reference's list has the minimum stamp among the live entries -/
theorem head_min_stamp (b : Bool) (evs : List Ev) (k v : Bytes)
    (hh : (absOf b evs).live.head? = some (k, v)) :
    ∀ p ∈ (absOf b evs).live, lastUse b evs k ≤ lastUse b evs p.1 := by
  have hs := live_sorted b evs
  unfold SortedBy at hs
  cases hl : (absOf b evs).live with
  | nil => simp [hl] at hh
  | cons x xs =>
    rw [hl] at hs hh
    simp at hh; subst hh
    rw [List.pairwise_cons] at hs
    intro p hp
    rcases List.mem_cons.1 hp with rfl | hp
    · exact Nat.le_refl _
    · exact Nat.le_of_lt (hs.1 p hp)

/-! ### `OnDelete` discipline and the nested interpreter -/


theorem cbScan_append (h : Bool) (a b : List Ev) : ∀ (p : Option (Bytes × Bytes)),
    cbScan h p a = true → cbScan h none b = true → cbScan h p (a ++ b) = true := by
  induction a with
  | nil =>
    intro p ha hb
    cases p with
    | none => simpa using hb
    | some q => simp [cbScan] at ha
  | cons x rest ih =>
    intro p ha hb
    cases p with
    | none =>
      cases x <;> simp only [List.cons_append, cbScan] at ha ⊢ <;> first | exact ih _ ha hb | (simp at ha)
    | some q =>
      cases x with
      | onDelete k v =>
        simp only [List.cons_append, cbScan, Bool.and_eq_true] at ha ⊢
        exact ⟨ha.1, ih _ ha.2 hb⟩
      | _ => simp [cbScan] at ha

theorem cbOK_append (h : Bool) (a b : List Ev) (ha : cbOK h a = true) (hb : cbOK h b = true) :
    cbOK h (a ++ b) = true := cbScan_append h a b none ha hb

theorem evsOf_append (a b : List Rec) : evsOf (a ++ b) = evsOf a ++ evsOf b := by
  simp [evsOf]

theorem cbOK_evictEvents (c : Conf) (e : Entry) (s1 : St) :
    cbOK c.hasCb (evsOf (evictEvents c e s1)) = true := by
  cases h : c.hasCb <;> simp [evictEvents, evsOf, cbOK, cbScan, h]

theorem evictEvents_trace {c : Conf} {s s1 : St} {e : Entry} {add : Nat} (hl : c.lru = true)
    (hadd : add ≤ c.maxElem) (hf : full c s add = true) (he : evictOne s = .ok (s1, e)) :
    Trace c s (evictEvents c e s1) s1 := by
  unfold evictEvents
  refine Trace.cons (CStep.evict s s1 add e hl hadd hf he) ?_
  cases h : c.hasCb
  · exact Trace.nil s1
  · exact trace_single (CStep.onDelete s1 e.key e.val h)

/-- a run fragment that returns, is a path of the transition system, and calls `OnDelete`
exactly as required -/
def RunOK (c : Conf) (s : St) (res : GoM (St × List Rec)) : Prop :=
  ∃ s' log, res = .ok (s', log) ∧ Trace c s log s' ∧ cbOK c.hasCb (evsOf log) = true

def LoopOK (c : Conf) (add : Nat) (s : St) (res : GoM (St × List Rec)) : Prop :=
  ∃ s' log, res = .ok (s', log) ∧ Trace c s log s' ∧ cbOK c.hasCb (evsOf log) = true ∧
    full c s' add = false

theorem evictStep {c : Conf} (ok : ConfOk c) {add : Nat} (hadd : add ≤ c.maxElem) {s : St}
    (h : Inv c s) (hl : c.lru = true) (hf : full c s add = true) :
    ∃ s1 e, evictOne s = .ok (s1, e) ∧ Inv c s1 ∧ s1.lru.length + 1 = s.lru.length ∧
      Trace c s (evictEvents c e s1) s1 := by
  have hne := evict_nonempty ok h hadd hf
  obtain ⟨s1, e, he⟩ := evictOne_total hne (fun x hx => (h.linked x hx).trans hl)
  refine ⟨s1, e, he, evictOne_inv h he, ?_, evictEvents_trace hl hadd hf he⟩
  rw [(evictOne_ok he).1]; simp

theorem evictQuiet_ok {c : Conf} (ok : ConfOk c) {add : Nat} (hadd : add ≤ c.maxElem) :
    ∀ (n : Nat) (s : St), Inv c s → s.lru.length ≤ n → (c.lru = true ∨ full c s add = false) →
      LoopOK c add s (evictQuiet c add n s) := by
  intro n
  induction n with
  | zero =>
    intro s h hlen hor
    cases hf : full c s add with
    | false => exact ⟨s, [], by simp [evictQuiet, hf], Trace.nil s, rfl, hf⟩
    | true =>
      have := evict_nonempty ok h hadd hf
      exact absurd (List.length_eq_zero_iff.1 (by omega)) this
  | succ n ih =>
    intro s h hlen hor
    cases hf : full c s add with
    | false => exact ⟨s, [], by simp [evictQuiet, hf], Trace.nil s, rfl, hf⟩
    | true =>
      have hl : c.lru = true := by rcases hor with h1 | h1; exact h1; simp [hf] at h1
      obtain ⟨s1, e, he, h1, hlen1, ht1⟩ := evictStep ok hadd h hl hf
      obtain ⟨s2, l2, hr, ht2, hcb, hnf⟩ := ih s1 h1 (by omega) (Or.inl hl)
      refine ⟨s2, evictEvents c e s1 ++ l2, by simp [evictQuiet, hf, he, hr], trace_append ht1 ht2, ?_, hnf⟩
      rw [evsOf_append]
      exact cbOK_append _ _ _ (cbOK_evictEvents c e s1) hcb

theorem newConf_ok (r : RawConf) : ConfOk (newConf r) := by
  constructor
  · simp only [newConf]
    generalize (if r.maxSize = 0 then maxUint else r.maxSize) = ms
    generalize (if r.maxElem = 0 then ms else r.maxElem) = me
    split <;> omega
  · simp only [newConf, maxUint]; split <;> omega

theorem setCheck_proceed {c : Conf} {s : St} {k v : Bytes} (h : setCheck c s k v = .proceed) :
    k.length + v.length ≤ c.maxElem ∧ (c.lru = true ∨ full c s (k.length + v.length) = false) := by
  unfold setCheck at h
  by_cases h1 : k.length + v.length > c.maxElem
  · simp [h1] at h
  · simp only [h1, if_false] at h
    refine ⟨by omega, ?_⟩
    cases hl : c.lru
    · cases hf : full c s (k.length + v.length)
      · exact Or.inr rfl
      · simp [hl, hf] at h
    · exact Or.inl rfl

theorem run_ok (c : Conf) (ok : ConfOk c) :
    (∀ (op : Op) (s : St), Inv c s → RunOK c s (runOp c op s)) ∧
    (∀ (add : Nat) (cbs : List (List Op)) (s : St), Inv c s → add ≤ c.maxElem →
      (c.lru = true ∨ full c s add = false) → LoopOK c add s (evictLoop c add cbs s)) ∧
    (∀ (ops : List Op) (s : St), Inv c s → RunOK c s (runOps c ops s)) := by
  apply runOp.mutual_induct c
    (motive_1 := fun op s => Inv c s → RunOK c s (runOp c op s))
    (motive_2 := fun add cbs s => Inv c s → add ≤ c.maxElem →
      (c.lru = true ∨ full c s add = false) → LoopOK c add s (evictLoop c add cbs s))
    (motive_3 := fun ops s => Inv c s → RunOK c s (runOps c ops s))
  · -- Set: too large
    intro k v cbs s hchk h
    refine ⟨s, _, by simp [runOp, hchk], trace_single (CStep.refuse s k v (by simp [hchk])), rfl⟩
  · intro k v cbs s hchk h
    refine ⟨s, _, by simp [runOp, hchk], trace_single (CStep.refuse s k v (by simp [hchk])), rfl⟩
  · -- Set: eviction loop, then commit
    intro k v cbs s hchk ih h
    obtain ⟨hadd, hor⟩ := setCheck_proceed hchk
    obtain ⟨s1, l1, hr, ht1, hcb, hnf⟩ := ih h hadd hor
    have h1 := trace_inv ht1 h
    have hc := setCommit_char h1 k v
    refine ⟨_, _, by simp [runOp, hchk, hr, hc],
      trace_append ht1 (trace_single (CStep.commit s1 _ k v _ hadd hnf hc)), ?_⟩
    rw [evsOf_append]
    exact cbOK_append _ _ _ hcb rfl
  · intro k s h
    obtain ⟨⟨s', r⟩, hg⟩ : ∃ res, get c s k = .ok res := ⟨_, get_char h k⟩
    exact ⟨s', _, by simp [runOp, hg], trace_single (CStep.get s s' k r hg), rfl⟩
  · intro k s h
    have hd := del_char h k
    exact ⟨_, _, by simp [runOp, hd], trace_single (CStep.del s _ k hd), rfl⟩
  · intro s h
    exact ⟨_, _, by simp [runOp], trace_single (CStep.clear s), rfl⟩
  · intro s h
    exact ⟨_, _, by simp [runOp], trace_single (CStep.stats s), rfl⟩
  · -- loop, script exhausted
    intro add s h hadd hor
    simpa [evictLoop] using evictQuiet_ok ok hadd s.lru.length s h (Nat.le_refl _) hor
  · -- loop, one more iteration
    intro add ops rest s hf ihrest ihops h hadd hor
    have hl : c.lru = true := by rcases hor with h1 | h1; exact h1; simp [hf] at h1
    obtain ⟨s1, e, he, h1, _, ht1⟩ := evictStep ok hadd h hl hf
    rcases Bool.eq_false_or_eq_true c.hasCb with hcb | hcb
    · obtain ⟨s2, l2, hr2, ht2, hcb2⟩ := ihops s1 h1
      have h2 := trace_inv ht2 h1
      obtain ⟨s3, l3, hr3, ht3, hcb3, hnf⟩ := ihrest s2 h2 hadd (Or.inl hl)
      refine ⟨s3, evictEvents c e s1 ++ l2 ++ l3, by simp [evictLoop, hf, he, hcb, hr2, hr3],
        trace_append (trace_append ht1 ht2) ht3, ?_, hnf⟩
      simp only [evsOf_append]
      exact cbOK_append _ _ _ (cbOK_append _ _ _ (cbOK_evictEvents c e s1) hcb2) hcb3
    · obtain ⟨s3, l3, hr3, ht3, hcb3, hnf⟩ := ihrest s1 h1 hadd (Or.inl hl)
      refine ⟨s3, evictEvents c e s1 ++ [] ++ l3, by simp [evictLoop, hf, he, hcb, hr3],
        by simpa using trace_append ht1 ht3, ?_, hnf⟩
      simp only [List.append_nil, evsOf_append]
      exact cbOK_append _ _ _ (cbOK_evictEvents c e s1) hcb3
  · intro add ops rest s hf h hadd hor
    have hf' : full c s add = false := by simpa using hf
    exact ⟨s, [], by simp [evictLoop, hf'], Trace.nil s, rfl, hf'⟩
  · intro s h
    exact ⟨s, [], by simp [runOps], Trace.nil s, rfl⟩
  · intro op rest s ihop ihrest h
    obtain ⟨s1, l1, hr1, ht1, hcb1⟩ := ihop h
    obtain ⟨s2, l2, hr2, ht2, hcb2⟩ := ihrest s1 (trace_inv ht1 h)
    refine ⟨s2, l1 ++ l2, by simp [runOps, hr1, hr2], trace_append ht1 ht2, ?_⟩
    rw [evsOf_append]
    exact cbOK_append _ _ _ hcb1 hcb2

end GolibsVerif.C09
