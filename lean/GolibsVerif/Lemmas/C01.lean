import GolibsVerif.Model.NetMisc
import GolibsVerif.Lemmas.GoM

/-! Totality of the small netutil functions modelled in `Model/NetMisc.lean`. -/
namespace GolibsVerif.C01
open GolibsVerif GolibsVerif.Netutil GolibsVerif.Str

theorem indexByteFrom_bounds (c : Nat) (s : Bytes) (k : Nat) :
    indexByteFrom c s k = -1 ∨ ((k : Int) ≤ indexByteFrom c s k ∧ indexByteFrom c s k < k + s.length) := by
  induction s generalizing k with
  | nil => left; rfl
  | cons b rest ih =>
    unfold indexByteFrom
    by_cases h : b = c
    · right; simp [h]; omega
    · simp only [h, if_false]
      rcases ih (k + 1) with h1 | ⟨h1, h2⟩
      · left; exact h1
      · right; simp at h1 h2 ⊢; omega

theorem indexByte_bounds (s : Bytes) (c : Nat) :
    indexByte s c = -1 ∨ (0 ≤ indexByte s c ∧ indexByte s c < s.length) := by
  have := indexByteFrom_bounds c s 0
  unfold indexByte
  simpa using this

theorem isSubdomain_total (d t : Bytes) : ∃ b, isSubdomain d t = .ok b := by
  unfold isSubdomain
  by_cases h1 : d.length > t.length + 1
  · simp only [h1, decide_true, Bool.not_true, bind, Except.bind, pure, Except.pure]
    by_cases h2 : hasSuffix d t = true
    · have hidx : ((d.length : Int) - t.length - 1) = ((d.length - t.length - 1 : Nat) : Int) := by omega
      simp only [h2, Bool.not_true, hidx]
      rw [GoM.idx_ofNat_lt _ _ (by omega)]
      exact ⟨_, rfl⟩
    · simp [h2]
  · simp [h1, bind, Except.bind, pure, Except.pure]

theorem isImmediateSubdomain_total (d t : Bytes) : ∃ b, isImmediateSubdomain d t = .ok b := by
  unfold isImmediateSubdomain
  obtain ⟨b, hb⟩ := isSubdomain_total d t
  cases b <;> simp [hb, bind, Except.bind, pure, Except.pure]

theorem subdomainsLoop_total (fuel : Nat) (domain : Bytes) (sub : List Bytes) (h : domain.length < fuel) :
    ∃ r, subdomainsLoop fuel domain sub = .ok r := by
  induction fuel generalizing domain sub with
  | zero => omega
  | succ n ih =>
    unfold subdomainsLoop
    by_cases h0 : domain = []
    · simp [h0, pure, Except.pure]
    · simp only [h0, if_false, bind, Except.bind, pure, Except.pure]
      rcases indexByte_bounds domain 46 with hi | ⟨hi1, hi2⟩
      · simp [hi]
      · have hneg : ¬ indexByte domain 46 < 0 := by omega
        simp only [hneg, if_false]
        obtain ⟨k, hk⟩ : ∃ k : Nat, indexByte domain 46 = (k : Int) := ⟨(indexByte domain 46).toNat, by omega⟩
        have hk2 : k < domain.length := by omega
        unfold GoM.sliceFrom
        rw [hk]
        have hs := GoM.slice_ofNat domain (k + 1) domain.length (by omega) (Nat.le_refl _)
        have hcast : ((k : Int) + 1) = ((k + 1 : Nat) : Int) := by omega
        rw [hcast, hs]
        simp only []
        apply ih
        simp; omega

/-- `Subdomains` never panics and its loop terminates -/
theorem subdomains_total (domain : Bytes) : ∃ r, subdomains domain = .ok r := by
  unfold subdomains
  by_cases h0 : domain = []
  · simp [h0, pure, Except.pure]
  · obtain ⟨r, hr⟩ := subdomainsLoop_total (domain.length + 1) domain [domain] (by omega)
    simp [h0, hr, bind, Except.bind, pure, Except.pure]

/-- the single-value type assertion in `ParseIPv4` never fails: `ParseIP` only returns
`*AddrError` -/
theorem parseIPv4_total (netParseIP : Bytes → Option Bytes) (s : Bytes) :
    ∃ r, parseIPv4 netParseIP s = .ok r := by
  unfold parseIPv4 parseIP
  cases netParseIP s with
  | none => exact ⟨_, rfl⟩
  | some ip => cases h : ipTo4 ip <;> simp [h]

theorem cloneIPsLoop_total (ips : List Bytes) (i : Nat) (clone : List Bytes)
    (h : i + ips.length ≤ clone.length) : ∃ r, cloneIPsLoop ips i clone = .ok r := by
  induction ips generalizing i clone with
  | nil => exact ⟨_, rfl⟩
  | cons ip rest ih =>
    unfold cloneIPsLoop setIdx
    have hi : i < clone.length := by simp at h; omega
    simp only [hi, if_true, bind, Except.bind]
    apply ih
    simp at h ⊢; omega

theorem cloneIPs_total (ips : Option (List Bytes)) : ∃ r, cloneIPs ips = .ok r := by
  cases ips with
  | none => exact ⟨_, rfl⟩
  | some l =>
    obtain ⟨r, hr⟩ := cloneIPsLoop_total l 0 (List.replicate l.length []) (by simp)
    simp [cloneIPs, hr, bind, Except.bind, pure, Except.pure]

end GolibsVerif.C01
