/- C04 helper lemmas, part 5: the decoder after its prologue, branch by branch, and the
encoder's output in closed form. -/
import GolibsVerif.Lemmas.C04V4
import GolibsVerif.Lemmas.C04V6
import GolibsVerif.Lemmas.C04Dom

namespace GolibsVerif.C04
open GolibsVerif.Netutil GolibsVerif.Str GolibsVerif.Netip GolibsVerif.Gen.Consts GolibsVerif

/-! ### the decoder after the prologue -/

/-- the part of `ipFromReversedAddr` after the prologue (same text as the model) -/
def decodeBody (arpa0 : Bytes) : GoM (Except Err Addr) := do
  let arpa := asciiLower arpa0
  if hasSuffix arpa arpaV4Suffix then
    let ipStr ← GoM.sliceTo arpa ((arpa.length : Int) - arpaV4Suffix.length)
    return wrapARPA arpa0 (ipv4FromReversed ipStr)
  else if hasSuffix arpa arpaV6Suffix then
    let l := arpa.length
    if l = arpaV6MaxLen then
      return wrapARPA arpa0 (← ipv6FromReversed arpa)
    return wrapARPA arpa0 (.error (.length .arpa [arpaV6MaxLen] 0 l))
  else return wrapARPA arpa0 (.error (.const .notAReversedIP))

theorem fromRev_of_valid (toASCII : Bytes → Option Bytes) (s : Bytes)
    (hv : validateDomainName toASCII (trimSuffix s [46]) = .ok none) :
    ipFromReversedAddr toASCII s = decodeBody (trimSuffix s [46]) := by
  unfold ipFromReversedAddr decodeBody
  rw [prologue_accept toASCII s hv]
  rfl

theorem fromRev_of_invalid (toASCII : Bytes → Option Bytes) (s : Bytes) (e : Err)
    (hp : arpaPrologue toASCII s = .ok (.error e)) :
    ipFromReversedAddr toASCII s = .ok (.error e) := by
  unfold ipFromReversedAddr
  rw [hp]; rfl

theorem body_v4 (arpa0 t : Bytes) (h : asciiLower arpa0 = t ++ arpaV4Suffix) :
    decodeBody arpa0 = .ok (wrapARPA arpa0 (ipv4FromReversed t)) := by
  unfold decodeBody
  have hs : hasSuffix (t ++ arpaV4Suffix) arpaV4Suffix = true := (hasSuffix_iff _ _).2 ⟨t, rfl⟩
  simp only [h, hs, if_true, sliceTo_suffix, bind, Except.bind, pure, Except.pure]

theorem body_v6 (arpa0 : Bytes) (h6 : arpaV6Suffix <:+ asciiLower arpa0) (hlen : arpa0.length = 72) :
    decodeBody arpa0 =
      match ipv6FromReversed (asciiLower arpa0) with
      | .ok r => .ok (wrapARPA arpa0 r)
      | .error p => .error p := by
  unfold decodeBody
  have h4 := v6suffix_not_v4 _ h6
  have hs := (hasSuffix_iff _ _).2 h6
  have hl : (asciiLower arpa0).length = arpaV6MaxLen := by rw [asciiLower_length, hlen]; rfl
  simp only [h4, hs, hl, if_true, Bool.false_eq_true, if_false, bind, Except.bind, pure, Except.pure]
  cases ipv6FromReversed (asciiLower arpa0) <;> rfl

theorem body_v6_len (arpa0 : Bytes) (h6 : arpaV6Suffix <:+ asciiLower arpa0) (hlen : arpa0.length ≠ 72) :
    decodeBody arpa0 =
      .ok (.error (.addr .arpa arpa0 (some (.length .arpa [arpaV6MaxLen] 0 arpa0.length)))) := by
  unfold decodeBody
  have h4 := v6suffix_not_v4 _ h6
  have hs := (hasSuffix_iff _ _).2 h6
  have hl : ¬ (arpa0.length = arpaV6MaxLen) := hlen
  simp only [h4, hs, hl, if_true, Bool.false_eq_true, if_false, bind, Except.bind, pure, Except.pure,
    wrapARPA, asciiLower_length]

theorem body_other (arpa0 : Bytes) (h4 : hasSuffix (asciiLower arpa0) arpaV4Suffix = false)
    (h6 : hasSuffix (asciiLower arpa0) arpaV6Suffix = false) :
    decodeBody arpa0 = .ok (.error (.addr .arpa arpa0 (some (.const .notAReversedIP)))) := by
  unfold decodeBody
  simp only [h4, h6, Bool.false_eq_true, if_false, pure, Except.pure, wrapARPA]

theorem wrapARPA_error {α} (arpa0 : Bytes) (r : Except Err α) (e : Err)
    (h : wrapARPA arpa0 r = .error e) : ∃ inner, e = .addr .arpa arpa0 inner := by
  cases r with
  | ok a => simp [wrapARPA] at h
  | error e' => simp [wrapARPA] at h; exact ⟨_, h.symm⟩

theorem wrapARPA_ok {α} (arpa0 : Bytes) (r : Except Err α) (a : α)
    (h : wrapARPA arpa0 r = .ok a) : r = .ok a := by
  cases r with
  | ok a' => simpa [wrapARPA] using h
  | error e' => simp [wrapARPA] at h

/-- the body never panics, and its rejections are ARPA `*AddrError`s for `arpa0` -/
theorem body_total (arpa0 : Bytes) :
    ∃ r, decodeBody arpa0 = .ok r ∧ ∀ e, r = .error e → ∃ inner, e = .addr .arpa arpa0 inner := by
  cases h4 : hasSuffix (asciiLower arpa0) arpaV4Suffix with
  | true =>
    obtain ⟨t, ht⟩ := (hasSuffix_iff _ _).1 h4
    exact ⟨_, body_v4 arpa0 t ht.symm, fun e he => wrapARPA_error _ _ e he⟩
  | false =>
    cases h6 : hasSuffix (asciiLower arpa0) arpaV6Suffix with
    | false => exact ⟨_, body_other arpa0 h4 h6, fun e he => by cases he; exact ⟨_, rfl⟩⟩
    | true =>
      have h6' := (hasSuffix_iff _ _).1 h6
      by_cases hlen : arpa0.length = 72
      · obtain ⟨r, hr⟩ := ipv6FromReversed_total (asciiLower arpa0) (by rw [asciiLower_length]; omega)
        refine ⟨wrapARPA arpa0 r, ?_, fun e he => wrapARPA_error _ _ e he⟩
        rw [body_v6 arpa0 h6' hlen, hr]
      · exact ⟨_, body_v6_len arpa0 h6' hlen, fun e he => by cases he; exact ⟨_, rfl⟩⟩

/-- what the body accepts: the lower-cased name is the dotted-decimal form of the reversed
IPv4 address plus `.in-addr.arpa`, or the 72-byte nibble form -/
theorem body_accept (arpa0 : Bytes) (a : Addr) (h : decodeBody arpa0 = .ok (.ok a)) :
    (∃ b, a = .v4 b ∧ b.length = 4 ∧ (∀ x ∈ b, x < 256) ∧ asciiLower arpa0 = ptr4 b) ∨
    (∃ b, a = .v6 b [] ∧ b.length = 16 ∧ (∀ x ∈ b, x < 256) ∧ asciiLower arpa0 = ptr6 b) := by
  cases h4 : hasSuffix (asciiLower arpa0) arpaV4Suffix with
  | true =>
    left
    obtain ⟨t, ht⟩ := (hasSuffix_iff _ _).1 h4
    rw [body_v4 arpa0 t ht.symm] at h
    have h' := wrapARPA_ok _ _ _ (Except.ok.inj h)
    unfold ipv4FromReversed at h'
    split at h'
    · cases h'
    · rename_i b hp
      cases h'
      obtain ⟨hl, hb, hcanon⟩ := fields_canon t b (parseAddr_v4 t b hp)
      refine ⟨b.reverse, rfl, by simp [hl], fun x hx => hb x (by simpa using hx), ?_⟩
      unfold ptr4
      rw [List.reverse_reverse, joinDot_append _ _ (by
        intro hnil; rw [List.map_eq_nil_iff] at hnil; rw [hnil] at hl; simp at hl) (by simp),
        ← hcanon, ← ht]
      rfl
    · cases h'
  | false =>
    cases h6 : hasSuffix (asciiLower arpa0) arpaV6Suffix with
    | false => rw [body_other arpa0 h4 h6] at h; cases h
    | true =>
      right
      have h6' := (hasSuffix_iff _ _).1 h6
      by_cases hlen : arpa0.length = 72
      · rw [body_v6 arpa0 h6' hlen] at h
        obtain ⟨r, hr⟩ := ipv6FromReversed_total (asciiLower arpa0) (by rw [asciiLower_length]; omega)
        rw [hr] at h
        have h' := wrapARPA_ok _ _ _ (Except.ok.inj h)
        rw [h'] at hr
        exact ipv6FromReversed_accept (asciiLower arpa0) a (by rw [asciiLower_length]; exact hlen) h6
          (asciiLower_not_upper arpa0) hr
      · rw [body_v6_len arpa0 h6' hlen] at h; cases h

/-! ### the body decodes every case variant of a canonical name -/

theorem ptr4_eq (x0 x1 x2 x3 : Nat) :
    ptr4 [x0, x1, x2, x3] = joinDot ([x3, x2, x1, x0].map dec) ++ arpaV4Suffix := by
  unfold ptr4
  have : [x0, x1, x2, x3].reverse = [x3, x2, x1, x0] := rfl
  rw [this, joinDot_append _ _ (by simp) (by simp)]
  rfl

theorem body_ptr4 (arpa0 : Bytes) (x0 x1 x2 x3 : Nat) (h0 : x0 < 256) (h1 : x1 < 256)
    (h2 : x2 < 256) (h3 : x3 < 256) (h : asciiLower arpa0 = ptr4 [x0, x1, x2, x3]) :
    decodeBody arpa0 = .ok (.ok (.v4 [x0, x1, x2, x3])) := by
  rw [ptr4_eq] at h
  rw [body_v4 arpa0 _ h]
  unfold ipv4FromReversed
  rw [parseAddr_roundtrip x3 x2 x1 x0 h3 h2 h1 h0]
  rfl

theorem ptr6_suffix (b : List Nat) (hb : b ≠ []) : arpaV6Suffix <:+ ptr6 b := by
  rw [ptr6_eq]
  cases b with
  | nil => exact absurd rfl hb
  | cons x b' =>
    refine ⟨b'.reverse.flatMap nib ++ [hexChar (x % 16), 46, hexChar (x / 16)], ?_⟩
    simp [List.reverse_cons, List.flatMap_append, nib, arpaV6Suffix, ip6Arpa]

theorem body_ptr6 (arpa0 : Bytes) (b : List Nat) (hl : b.length = 16) (hb : ∀ x ∈ b, x < 256)
    (h : asciiLower arpa0 = ptr6 b) : decodeBody arpa0 = .ok (.ok (.v6 b [])) := by
  have hne : b ≠ [] := by intro h0; rw [h0] at hl; simp at hl
  have hlen : arpa0.length = 72 := by
    rw [← asciiLower_length, h, ptr6_length, hl]
  rw [body_v6 arpa0 (h ▸ ptr6_suffix b hne) hlen, h, ipv6FromReversed_ptr6 b hb hl]
  rfl

/-! ### trimming, and the label structure of canonical names -/

theorem trim_variant (v X dot : Bytes) (h : asciiLower v = X ++ [97]) (hd : dot = [] ∨ dot = [46]) :
    trimSuffix (v ++ dot) [46] = v := by
  rcases hd with rfl | rfl
  · rw [List.append_nil]
    apply trimSuffix_nodot
    intro hlast
    have : (asciiLower v).getLast? = some 46 := by
      simp only [asciiLower, List.getLast?_map, hlast]; rfl
    rw [h] at this
    simp at this
  · exact trimSuffix_dot v

theorem joinDot_arpa (L : List Bytes) (hL : L ≠ []) :
    joinDot (L ++ [lblArpa]) = (joinDot L ++ [46, 97, 114, 112]) ++ [97] := by
  rw [joinDot_append L _ hL (by simp)]
  simp [joinDot, lblArpa]

/-- an ordinary label: 1..63 ASCII bytes, no dot, not starting with `x` -/
def GoodLabel (l : Bytes) : Prop :=
  1 ≤ l.length ∧ l.length ≤ 63 ∧ (∀ c ∈ l, c ≠ 46 ∧ c < 128) ∧ l.head? ≠ some 120

theorem head_ne_of_all (l : Bytes) (k : Nat) (h : ∀ c ∈ l, c ≠ k) : l.head? ≠ some k := by
  cases l with
  | nil => simp
  | cons c l => simp; exact h c (by simp)

theorem good_dec (x : Nat) (hx : x < 256) : GoodLabel (dec x) := by
  have hd := dec_digits x
  refine ⟨dec_length_pos x, by have := dec_length_le x hx; omega, ?_, ?_⟩
  · intro c hc; have := hd c hc; omega
  · exact head_ne_of_all _ _ (fun c hc => by have := hd c hc; omega)

theorem good_hex (n : Nat) (hn : n < 16) : GoodLabel [hexChar n] := by
  have := hexChar_range n hn
  refine ⟨by simp, by simp, ?_, ?_⟩
  · intro c hc; simp at hc; subst hc; omega
  · simp; omega

theorem good_inaddr : GoodLabel lblInAddr := by
  refine ⟨by decide, by decide, ?_, by decide⟩
  intro c hc; simp [lblInAddr] at hc; omega

theorem good_ip6 : GoodLabel lblIp6 := by
  refine ⟨by decide, by decide, ?_, by decide⟩
  intro c hc; simp [lblIp6] at hc; omega

/-- the labels of the IPv4 name before `arpa` -/
def labels4 (x0 x1 x2 x3 : Nat) : List Bytes := [dec x3, dec x2, dec x1, dec x0, lblInAddr]

theorem ptr4_labels (x0 x1 x2 x3 : Nat) :
    ptr4 [x0, x1, x2, x3] = joinDot (labels4 x0 x1 x2 x3 ++ [lblArpa]) := rfl

/-- the labels of the IPv6 name before `arpa` -/
def labels6 (b : List Nat) : List Bytes := b.reverse.flatMap nibbleLabels ++ [lblIp6]

theorem ptr6_labels (b : List Nat) : ptr6 b = joinDot (labels6 b ++ [lblArpa]) := by
  unfold ptr6 labels6; simp

theorem good_labels4 (x0 x1 x2 x3 : Nat) (h0 : x0 < 256) (h1 : x1 < 256) (h2 : x2 < 256)
    (h3 : x3 < 256) : ∀ l ∈ labels4 x0 x1 x2 x3, GoodLabel l := by
  intro l hl
  simp only [labels4, List.mem_cons, List.not_mem_nil, or_false] at hl
  rcases hl with rfl | rfl | rfl | rfl | rfl
  · exact good_dec x3 h3
  · exact good_dec x2 h2
  · exact good_dec x1 h1
  · exact good_dec x0 h0
  · exact good_inaddr

theorem good_labels6 (b : List Nat) (hb : ∀ x ∈ b, x < 256) : ∀ l ∈ labels6 b, GoodLabel l := by
  intro l hl
  simp only [labels6, List.mem_append, List.mem_flatMap, List.mem_reverse, nibbleLabels,
    List.mem_cons, List.not_mem_nil, or_false] at hl
  rcases hl with ⟨x, hx, rfl | rfl⟩ | rfl
  · exact good_hex _ (by omega)
  · exact good_hex _ (by have := hb x hx; omega)
  · exact good_ip6

theorem ptr4_length_le (x0 x1 x2 x3 : Nat) (h0 : x0 < 256) (h1 : x1 < 256) (h2 : x2 < 256)
    (h3 : x3 < 256) : (ptr4 [x0, x1, x2, x3]).length ≤ 253 := by
  rw [ptr4_eq]
  have := dec_length_le x0 h0
  have := dec_length_le x1 h1
  have := dec_length_le x2 h2
  have := dec_length_le x3 h3
  simp [joinDot, arpaV4Suffix]; omega

/-! ### the encoder in closed form -/

theorem enc4_flatMap (l : List Nat) (hl : ∀ x ∈ l, x < 256) :
    l.flatMap (fun b => itoa b ++ [46]) = (l.map dec).flatMap (fun d => d ++ [46]) := by
  induction l with
  | nil => rfl
  | cons x l ih =>
    simp only [List.flatMap_cons, List.map_cons]
    rw [ih (fun y hy => hl y (by simp [hy])), itoa_eq_dec x (by have := hl x (by simp); omega)]

theorem enc6_flatMap (l : List Nat) (hl : ∀ x ∈ l, x < 256) :
    l.flatMap (fun b => [hexDigit (b % 16), 46, hexDigit (b / 16), 46]) = l.flatMap nib := by
  induction l with
  | nil => rfl
  | cons x l ih =>
    simp only [List.flatMap_cons]
    rw [ih (fun y hy => hl y (by simp [hy]))]
    have hx := hl x (by simp)
    rw [hexDigit_eq_hexChar (x % 16) (by omega), hexDigit_eq_hexChar (x / 16) (by omega)]
    rfl

theorem enc_v4 (ip4 : Bytes) (h : ∀ x ∈ ip4, x < 256) :
    ip4.reverse.flatMap (fun b => itoa b ++ [46]) ++ [105, 110, 45, 97, 100, 100, 114, 46, 97, 114, 112, 97]
      = ptr4 ip4 := by
  unfold ptr4
  rw [joinDot_append_two, enc4_flatMap _ (fun x hx => h x (by simpa using hx))]
  rfl

theorem enc_v6 (ip6 : Bytes) (h : ∀ x ∈ ip6, x < 256) :
    ip6.reverse.flatMap (fun b => [hexDigit (b % 16), 46, hexDigit (b / 16), 46]) ++ [105, 112, 54, 46, 97, 114, 112, 97]
      = ptr6 ip6 := by
  rw [ptr6_eq, enc6_flatMap _ (fun x hx => h x (by simpa using hx))]
  rfl

theorem sliceFrom_v4suffix :
    GoM.sliceFrom arpaV4Suffix 1 = .ok [105, 110, 45, 97, 100, 100, 114, 46, 97, 114, 112, 97] :=
  GoM.sliceFrom_one_cons _ _

theorem sliceFrom_v6suffix : GoM.sliceFrom arpaV6Suffix 1 = .ok [105, 112, 54, 46, 97, 114, 112, 97] :=
  GoM.sliceFrom_one_cons _ _

/-- `net.IP.To4` recognises exactly the IPv4-mapped form among 16-byte slices -/
theorem ipTo4_of_len16 (ip : Bytes) (h : ip.length = 16) :
    ipTo4 ip = if is4in6 ip then some (ip.drop 12) else none := by
  match ip, h with
  | [b0, b1, b2, b3, b4, b5, b6, b7, b8, b9, b10, b11, b12, b13, b14, b15], _ =>
    unfold ipTo4 is4in6
    simp only [List.length_cons, List.length_nil]
    by_cases hc : [b0, b1, b2, b3, b4, b5, b6, b7, b8, b9] = List.replicate 10 0 ∧ b10 = 255 ∧ b11 = 255
    · obtain ⟨h1, h2, h3⟩ := hc
      simp [List.replicate] at h1
      obtain ⟨rfl, rfl, rfl, rfl, rfl, rfl, rfl, rfl, rfl, rfl⟩ := h1
      subst h2 h3
      simp [List.replicate]
    · have : ¬ ([b0, b1, b2, b3, b4, b5, b6, b7, b8, b9, b10, b11] = [0, 0, 0, 0, 0, 0, 0, 0, 0, 0, 255, 255]) := by
        intro he
        apply hc
        simp only [List.cons.injEq, and_true] at he
        obtain ⟨rfl, rfl, rfl, rfl, rfl, rfl, rfl, rfl, rfl, rfl, rfl, rfl⟩ := he
        exact ⟨rfl, rfl, rfl⟩
      simp [List.replicate] at hc
      simp [List.replicate, this]
      intro a1 a2 a3 a4 a5 a6 a7 a8 a9 a10 a11
      exact hc a1 a2 a3 a4 a5 a6 a7 a8 a9 a10 a11

/-! ### canonical names are lower-case -/

theorem asciiLower_of_no_upper (s : Bytes) (h : ∀ c ∈ s, ¬ (65 ≤ c ∧ c ≤ 90)) : asciiLower s = s := by
  induction s with
  | nil => rfl
  | cons c s ih =>
    have hc := h c (by simp)
    have := ih (fun x hx => h x (by simp [hx]))
    simp only [asciiLower, List.map_cons] at this ⊢
    rw [this]; simp [lowerByte, hc]

theorem hexChar_not_upper (n : Nat) : ¬ (65 ≤ hexChar n ∧ hexChar n ≤ 90) := by
  have hall : ∀ k : Fin 16, ¬ (65 ≤ hexChar k.val ∧ hexChar k.val ≤ 90) := by decide
  by_cases h : n < 16
  · exact hall ⟨n, h⟩
  · have : hexChar n = 0 := by
      unfold hexChar
      simp only [List.getD_eq_getElem?_getD]
      rw [List.getElem?_eq_none (by simp; omega)]; rfl
    omega

theorem ptr4_not_upper (b : List Nat) : ∀ c ∈ ptr4 b, ¬ (65 ≤ c ∧ c ≤ 90) := by
  intro c hc
  rcases mem_joinDot _ c hc with rfl | ⟨l, hl, hcl⟩
  · omega
  · simp only [List.mem_append, List.mem_map, List.mem_reverse, List.mem_cons, List.not_mem_nil, or_false] at hl
    rcases hl with ⟨x, _, rfl⟩ | rfl | rfl
    · have := dec_digits x c hcl; omega
    · simp [lblInAddr] at hcl; omega
    · simp [lblArpa] at hcl; omega

theorem ptr6_not_upper (b : List Nat) : ∀ c ∈ ptr6 b, ¬ (65 ≤ c ∧ c ≤ 90) := by
  intro c hc
  rcases mem_joinDot _ c hc with rfl | ⟨l, hl, hcl⟩
  · omega
  · simp only [List.mem_append, List.mem_flatMap, List.mem_reverse, nibbleLabels, List.mem_cons, List.not_mem_nil, or_false] at hl
    rcases hl with ⟨x, _, rfl | rfl⟩ | rfl | rfl
    · simp at hcl; subst hcl; exact hexChar_not_upper _
    · simp at hcl; subst hcl; exact hexChar_not_upper _
    · simp [lblIp6] at hcl; omega
    · simp [lblArpa] at hcl; omega

/-- the canonical PTR name is its own ASCII lower-casing -/
theorem canonPTR_lower (a : Addr) : asciiLower (canonPTR a) = canonPTR a := by
  apply asciiLower_of_no_upper
  cases a with
  | invalid => simp [canonPTR]
  | v4 b => exact ptr4_not_upper b
  | v6 b z =>
    simp only [canonPTR]; split
    · exact ptr4_not_upper _
    · exact ptr6_not_upper b

end GolibsVerif.C04
