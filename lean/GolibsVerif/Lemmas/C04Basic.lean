/- C04 helper lemmas, part 1: digits, nibbles, lower-casing, `joinDot`, suffixes. -/
import GolibsVerif.Spec.C04
import GolibsVerif.Model.NetReversed
import GolibsVerif.Lemmas.GoM
import GolibsVerif.Lemmas.Strings

namespace GolibsVerif.C04
open GolibsVerif.Netutil GolibsVerif.Str GolibsVerif.Netip GolibsVerif.Gen.Consts GolibsVerif

/-! ### decimal numerals -/

theorem dec_lt10 (n : Nat) (h : n < 10) : dec n = [48 + n] := by
  rw [dec]; simp [h]

theorem dec_ge10 (n : Nat) (h : 10 ≤ n) : dec n = dec (n / 10) ++ [48 + n % 10] := by
  rw [dec]; simp [Nat.not_lt.2 h]

/-- appending a digit to the numeral of a positive number -/
theorem dec_push (v d : Nat) (hv : 1 ≤ v) (hd : d < 10) : dec (v * 10 + d) = dec v ++ [48 + d] := by
  rw [dec_ge10 _ (by omega)]
  have h1 : (v * 10 + d) / 10 = v := by omega
  have h2 : (v * 10 + d) % 10 = d := by omega
  rw [h1, h2]

/-- the model's `strconv.Itoa` of a byte is the decimal numeral -/
theorem itoa_eq_dec (n : Nat) (h : n < 1000) : itoa n = dec n := by
  unfold itoa
  by_cases h1 : n < 10
  · simp [h1, dec_lt10]
  · by_cases h2 : n < 100
    · simp only [h1, h2, if_true, if_false]
      rw [dec_ge10 n (by omega), dec_lt10 (n / 10) (by omega)]; rfl
    · simp only [h1, h2, if_false]
      rw [dec_ge10 n (by omega), dec_ge10 (n / 10) (by omega), dec_lt10 (n / 10 / 10) (by omega)]
      have : n / 10 / 10 = n / 100 := by omega
      rw [this]; rfl

theorem dec_ne_nil (n : Nat) : dec n ≠ [] := by
  rw [dec]; split <;> simp

theorem dec_length_le (n : Nat) (h : n < 256) : (dec n).length ≤ 3 := by
  rw [← itoa_eq_dec n (by omega)]; unfold itoa; split
  · simp
  · split <;> simp

theorem dec_length_pos (n : Nat) : 1 ≤ (dec n).length :=
  List.length_pos_iff.2 (dec_ne_nil n)

/-- every byte of a numeral is a decimal digit -/
theorem dec_digits (n : Nat) : ∀ c ∈ dec n, 48 ≤ c ∧ c ≤ 57 := by
  induction n using Nat.strongRecOn with
  | _ n ih =>
    by_cases h : n < 10
    · rw [dec_lt10 n h]; intro c hc; simp at hc; omega
    · rw [dec_ge10 n (by omega)]
      intro c hc
      simp only [List.mem_append, List.mem_singleton] at hc
      rcases hc with hc | hc
      · exact ih (n / 10) (by omega) c hc
      · omega

/-! ### hexadecimal nibbles -/

theorem hexDigit_eq_hexChar : ∀ n < 16, hexDigit n = hexChar n := by decide

theorem fromHexByte_hexChar : ∀ n < 16, fromHexByte (hexChar n) = n := by decide

theorem hexChar_lower : ∀ n < 16, lowerByte (hexChar n) = hexChar n := by decide

theorem hexChar_range : ∀ n < 16, (48 ≤ hexChar n ∧ hexChar n ≤ 57) ∨ (97 ≤ hexChar n ∧ hexChar n ≤ 102) := by
  decide

/-- a byte that is not an upper-case letter and is accepted by `fromHexByte` is the
lower-case hex digit of its value -/
theorem fromHexByte_inv (c : Nat) (hc : ¬ (65 ≤ c ∧ c ≤ 90)) (h : fromHexByte c ≠ 255) :
    fromHexByte c < 16 ∧ c = hexChar (fromHexByte c) := by
  unfold fromHexByte hexVal at h ⊢
  by_cases h1 : 48 ≤ c ∧ c ≤ 57
  · simp only [h1, and_self, if_true, Option.getD_some]
    have : c - 48 < 10 := by omega
    refine ⟨by omega, ?_⟩
    have hh : ∀ k < 10, 48 + k = hexChar k := by decide
    have := hh (c - 48) this
    omega
  · by_cases h2 : 97 ≤ c ∧ c ≤ 102
    · simp only [h1, h2, and_self, if_true, if_false, Option.getD_some]
      refine ⟨by omega, ?_⟩
      have hh : ∀ k < 6, 97 + k = hexChar (k + 10) := by decide
      have := hh (c - 97) (by omega)
      have e : c - 97 + 10 = (c - 97) + 10 := rfl
      omega
    · by_cases h3 : 65 ≤ c ∧ c ≤ 70
      · exact absurd ⟨h3.1, by omega⟩ hc
      · simp [h1, h2, h3] at h

/-! ### lower-casing -/

theorem lowerByte_not_upper (b : Nat) : ¬ (65 ≤ lowerByte b ∧ lowerByte b ≤ 90) := by
  unfold lowerByte; split <;> omega

theorem asciiLower_not_upper (s : Bytes) : ∀ c ∈ asciiLower s, ¬ (65 ≤ c ∧ c ≤ 90) := by
  intro c hc
  simp only [asciiLower, List.mem_map] at hc
  obtain ⟨b, _, rfl⟩ := hc
  exact lowerByte_not_upper b

theorem lowerByte_eq_dot (b : Nat) : lowerByte b = 46 ↔ b = 46 := by
  unfold lowerByte; split <;> omega

theorem lowerByte_lt128 (b : Nat) (h : lowerByte b < 128) : b < 128 := by
  unfold lowerByte at h; split at h <;> omega

theorem asciiLower_length (s : Bytes) : (asciiLower s).length = s.length := by
  simp [asciiLower]

theorem asciiLower_append (s t : Bytes) : asciiLower (s ++ t) = asciiLower s ++ asciiLower t := by
  simp [asciiLower]

/-- lower-casing commutes with splitting at dots -/
theorem splitOn_asciiLower (s : Bytes) :
    splitOn 46 (asciiLower s) = (splitOn 46 s).map asciiLower := by
  induction s with
  | nil => simp [splitOn, asciiLower]
  | cons b rest ih =>
    have hne := splitOn_ne_nil 46 rest
    simp only [asciiLower, List.map_cons] at ih ⊢
    unfold splitOn
    by_cases hb : b = 46
    · subst hb
      have : lowerByte 46 = 46 := by decide
      simp [this, ih, asciiLower]
    · have hb' : lowerByte b ≠ 46 := fun h => hb ((lowerByte_eq_dot b).1 h)
      simp only [hb, hb', if_false]
      rw [ih]
      cases hs : splitOn 46 rest with
      | nil => exact absurd hs hne
      | cons p ps => simp [asciiLower]

/-! ### `joinDot` and `splitOn` -/

theorem joinDot_cons_cons (l l' : Bytes) (ls : List Bytes) :
    joinDot (l :: l' :: ls) = l ++ 46 :: joinDot (l' :: ls) := rfl

/-- splitting a piece without dots off the front -/
theorem splitOn_append_dot (l rest : Bytes) (hl : ∀ c ∈ l, c ≠ 46) :
    splitOn 46 (l ++ 46 :: rest) = l :: splitOn 46 rest := by
  induction l with
  | nil => simp [splitOn]
  | cons c l ih =>
    have hc : c ≠ 46 := hl c (by simp)
    have := ih (fun x hx => hl x (by simp [hx]))
    simp only [List.cons_append]
    rw [splitOn]
    simp [hc, this]

theorem splitOn_nodot (l : Bytes) (hl : ∀ c ∈ l, c ≠ 46) : splitOn 46 l = [l] := by
  induction l with
  | nil => simp [splitOn]
  | cons c l ih =>
    have hc : c ≠ 46 := hl c (by simp)
    have := ih (fun x hx => hl x (by simp [hx]))
    rw [splitOn]
    simp [hc, this]

/-- `splitOn` inverts `joinDot` on dot-free labels -/
theorem splitOn_joinDot (ls : List Bytes) (hne : ls ≠ []) (hl : ∀ l ∈ ls, ∀ c ∈ l, c ≠ 46) :
    splitOn 46 (joinDot ls) = ls := by
  induction ls with
  | nil => exact absurd rfl hne
  | cons l rest ih =>
    cases rest with
    | nil => simpa [joinDot] using splitOn_nodot l (hl l (by simp))
    | cons l' rest' =>
      rw [joinDot_cons_cons, splitOn_append_dot l _ (hl l (by simp))]
      rw [ih (by simp) (fun x hx => hl x (by simp [hx]))]

/-- `joinDot` of labels followed by two more, as the encoder writes it: every label
followed by a dot, then the last two -/
theorem joinDot_append_two (ls : List Bytes) (x y : Bytes) :
    joinDot (ls ++ [x, y]) = ls.flatMap (fun l => l ++ [46]) ++ (x ++ 46 :: y) := by
  induction ls with
  | nil => simp [joinDot]
  | cons l rest ih =>
    have : (l :: rest) ++ [x, y] = l :: (rest ++ [x, y]) := rfl
    rw [this]
    cases hr : rest ++ [x, y] with
    | nil => simp at hr
    | cons a as =>
      rw [joinDot_cons_cons, ← hr, ih]
      simp

/-! ### checked indexing by position -/

/-- reading position `n + k` of `s` when the tail from `n` is known -/
theorem idx_of_drop (s : Bytes) (n k c : Nat) (j : Int) (hj : j = ((n + k : Nat) : Int))
    (h : (s.drop n)[k]? = some c) : GoM.idx s j = .ok c := by
  subst hj
  rw [List.getElem?_drop] at h
  have h1 : ¬ (((n + k : Nat) : Int) < 0) := by omega
  simp only [GoM.idx, h1, if_false, Int.toNat_natCast, h]

end GolibsVerif.C04
