import GolibsVerif.Driver.All

partial def loop (hin hout : IO.FS.Stream) : IO Unit := do
  let line ← hin.getLine
  if line.isEmpty then return ()
  hout.putStrLn (GolibsVerif.Driver.dispatch line)
  loop hin hout

def main : IO Unit := do
  let hin ← IO.getStdin
  let hout ← IO.getStdout
  loop hin hout
  hout.flush
