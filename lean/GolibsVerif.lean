-- Root of the `GolibsVerif` library: models, specs, lemmas, theorems.
import GolibsVerif.Go.Basic
import GolibsVerif.Go.Strings
import GolibsVerif.Model.C15
import GolibsVerif.Theorems.C15
import GolibsVerif.Model.NetAddr
import GolibsVerif.Theorems.C03
import GolibsVerif.Go.Netip
import GolibsVerif.Model.NetIP
import GolibsVerif.Theorems.C02
import GolibsVerif.Model.NetReversed
import GolibsVerif.Theorems.C04
import GolibsVerif.Theorems.C05
