-- Root of the `GolibsVerif` library: models, specs, lemmas, theorems.
import GolibsVerif.Go.Basic
import GolibsVerif.Model.C15
import GolibsVerif.Theorems.C15
